(** Reference encoder of the BGP OPEN message, written from the RFCs only.
    Imports nothing from model/.

    RFC 4271 4.1/4.2  message header, OPEN fixed part, optional parameters <type, length, value>
    RFC 5492          optional parameter type 2 = Capabilities: one or more <code, length, value>
    RFC 4760 s.8      code 1   Multiprotocol Extensions: AFI(2) Res(1)=0 SAFI(1)
    RFC 2918          code 2   Route Refresh, length 0        (code 128: pre-standard Cisco variant)
    RFC 7313          code 70  Enhanced Route Refresh, length 0
    RFC 8950 (5549)   code 5   Extended Next Hop: NLRI AFI(2) NLRI SAFI(2) Nexthop AFI(2), repeated
    RFC 4724          code 64  Graceful Restart: Restart Flags(4 bits) Restart Time(12 bits),
                               then AFI(2) SAFI(1) Flags(1), repeated
    RFC 6793          code 65  4-octet AS number, length 4
    RFC 7911          code 69  ADD-PATH: AFI(2) SAFI(1) Send/Receive(1), repeated
    RFC 9494          code 71  Long-Lived Graceful Restart: AFI(2) SAFI(1) Flags(1) LLST(3), repeated *)
From YV Require Import lib.Base.

(** a capability as it is on the wire: (code, value octets) *)
Definition tlv := (N * bytes)%type.

Definition enc_tlv (t : tlv) : bytes := fst t :: len (snd t) :: snd t.
Definition enc_tlvs (ts : list tlv) : bytes := concat (map enc_tlv ts).

(** one optional parameter of type 2 carrying the given capabilities *)
Definition enc_param (ts : list tlv) : bytes := 2 :: len (enc_tlvs ts) :: enc_tlvs ts.
Definition enc_params (ps : list (list tlv)) : bytes := concat (map enc_param ps).

(** the OPEN body (RFC 4271 4.2) and the whole message (4.1; type 1) *)
Definition ref_open_body_tlv (version my_as hold id : N) (ps : list (list tlv)) : bytes :=
  [version] ++ be 2 my_as ++ be 2 hold ++ be 4 id ++ [len (enc_params ps)] ++ enc_params ps.
Definition ref_message (ty : N) (body : bytes) : bytes :=
  repeat 255 16 ++ be 2 (19 + len body) ++ [ty] ++ body.
Definition ref_open_tlv (version my_as hold id : N) (ps : list (list tlv)) : bytes :=
  ref_message 1 (ref_open_body_tlv version my_as hold id ps).

(** capabilities by meaning *)
Inductive capability :=
| Mp (afi safi : N)
| RouteRefresh
| CiscoRouteRefresh
| EnhancedRR
| GracefulRestart (flags time : N) (fams : list (N * N * N))       (* (afi, safi, flags) *)
| As4 (asn : N)
| AddPath (l : list (N * N * N))                                   (* (afi, safi, send/receive) *)
| ExtNexthop (l : list (N * N * N))                                (* (nlri afi, nlri safi, nexthop afi) *)
| Llgr (l : list (N * N * N * N))                                  (* (afi, safi, flags, stale time) *)
| Unknown (code : N) (value : bytes).

Definition enc_fam3 (x : N * N * N) : bytes :=              (* AFI(2) SAFI(1) octet(1) *)
  be 2 (fst (fst x)) ++ [snd (fst x); snd x].
Definition enc_ext (x : N * N * N) : bytes :=
  be 2 (fst (fst x)) ++ be 2 (snd (fst x)) ++ be 2 (snd x).
Definition enc_llgr (x : N * N * N * N) : bytes :=
  be 2 (fst (fst (fst x))) ++ [snd (fst (fst x)); snd (fst x)] ++ be 3 (snd x).

Definition cap_tlv (c : capability) : tlv :=
  match c with
  | Mp afi safi => (1, be 2 afi ++ [0; safi])
  | RouteRefresh => (2, [])
  | CiscoRouteRefresh => (128, [])
  | EnhancedRR => (70, [])
  | GracefulRestart flags time fams => (64, be 2 (flags * 4096 + time) ++ concat (map enc_fam3 fams))
  | As4 asn => (65, be 4 asn)
  | AddPath l => (69, concat (map enc_fam3 l))
  | ExtNexthop l => (5, concat (map enc_ext l))
  | Llgr l => (71, concat (map enc_llgr l))
  | Unknown code value => (code, value)
  end.

(** codes with an assigned meaning above (131 = Cisco multisession is also kept out of
    [Unknown] because the implementation gives it a key of its own) *)
Definition assigned_codes : list N := [1; 2; 5; 64; 65; 69; 70; 71; 128; 131].

(** address families for which the receiver knows a name (ADD-PATH is only specified here for
    these) and the three defined Send/Receive values *)
Definition known_families : list (N * N) :=
  [(1, 1); (1, 2); (2, 1); (1, 4); (2, 4); (1, 133); (1, 128); (2, 128); (25, 70); (16388, 71);
   (1, 73); (2, 133)].

(** field ranges *)
Definition fam3_ok (x : N * N * N) : Prop := fst (fst x) <= 65535 /\ snd (fst x) <= 255 /\ snd x <= 255.
Definition cap_wf (c : capability) : Prop :=
  match c with
  | Mp afi safi => afi <= 65535 /\ safi <= 255
  | RouteRefresh | CiscoRouteRefresh | EnhancedRR => True
  | GracefulRestart flags time fams => flags < 16 /\ time < 4096 /\ Forall fam3_ok fams
  | As4 asn => asn <= 4294967295
  | AddPath l => Forall (fun x => In (fst x) known_families /\ 1 <= snd x <= 3) l
  | ExtNexthop l => Forall (fun x => fst (fst x) <= 65535 /\ snd (fst x) <= 65535 /\ snd x <= 65535) l
  | Llgr l => Forall (fun x => fam3_ok (fst x) /\ snd x < 16777216) l
  | Unknown code value => code <= 255 /\ ~ In code assigned_codes
  end.

(** every length fits its one-octet field *)
Definition tlv_fits (t : tlv) : Prop := len (snd t) <= 255.
Definition param_fits (ts : list tlv) : Prop := Forall tlv_fits ts /\ len (enc_tlvs ts) <= 255.
Definition params_fit (ps : list (list tlv)) : Prop := Forall param_fits ps /\ len (enc_params ps) <= 255.

Definition ref_open (version my_as hold id : N) (params : list (list capability)) : bytes :=
  ref_open_tlv version my_as hold id (map (map cap_tlv) params).
Definition ref_open_body (version my_as hold id : N) (params : list (list capability)) : bytes :=
  ref_open_body_tlv version my_as hold id (map (map cap_tlv) params).

Definition params_wf (params : list (list capability)) : Prop :=
  Forall (Forall cap_wf) params /\ params_fit (map (map cap_tlv) params).

(** packaging variants named in the property *)
Definition one_per_param (cs : list capability) : list (list capability) := map (fun c => [c]) cs.
Definition all_in_one (cs : list capability) : list (list capability) := [cs].
