(** Reference names of the address families and ADD-PATH modes in a decoded OPEN.
    Imports nothing from model/ and is NOT generated from yabgp/common/constants.py: the table is
    written down here once (and transcribed in harness/props/c14_open.py, REF_FAMILY_NAME /
    REF_MODE_NAME; the check compares the two on every run), so that a change of a name in the
    module under test is a mismatch, not a silently followed update.

    The dictionary handed to handler.open_received names the families of the ADD-PATH capability
    (RFC 7911: AFI(2) SAFI(1) Send/Receive(1)) by the strings under which the rest of the agent
    keys its tables (the configuration names of AFI_SAFI_STR_DICT, the 'afi_safi' names used by
    MP_REACH_NLRI / MP_UNREACH_NLRI, the add-path lookup of Update.parse, the message dispatch
    of core/protocol.py):

      AFI 1 (IPv4)        SAFI 1 unicast 'ipv4', 2 multicast 'ipv4_mcast', 4 labelled 'ipv4_lu',
                          73 SR policy 'ipv4_srte', 128 MPLS VPN 'vpnv4', 133 flow spec 'flowspec'
      AFI 2 (IPv6)        SAFI 1 'ipv6', 4 'ipv6_lu', 128 'vpnv6', 133 'ipv6_flowspec'
      AFI 25 (L2VPN)      SAFI 70 'evpn'
      AFI 16388 (BGP-LS)  SAFI 71 'bgpls'

    Send/Receive (RFC 7911 s.4): 1 = receive, 2 = send, 3 = both.
    Names are ASCII octet strings ([bytes]). *)
From YV Require Import lib.Base.
From Coq Require Import String Ascii.

Definition ascii_of (s : string) : bytes := List.map N_of_ascii (list_ascii_of_string s).

Local Open Scope string_scope.

Definition family_names : list ((N * N) * bytes) :=
  [((1, 1), ascii_of "ipv4");
   ((1, 2), ascii_of "ipv4_mcast");
   ((2, 1), ascii_of "ipv6");
   ((1, 4), ascii_of "ipv4_lu");
   ((2, 4), ascii_of "ipv6_lu");
   ((1, 133), ascii_of "flowspec");
   ((1, 128), ascii_of "vpnv4");
   ((2, 128), ascii_of "vpnv6");
   ((25, 70), ascii_of "evpn");
   ((16388, 71), ascii_of "bgpls");
   ((1, 73), ascii_of "ipv4_srte");
   ((2, 133), ascii_of "ipv6_flowspec")].

Definition mode_names : list (N * bytes) :=
  [(1, ascii_of "receive"); (2, ascii_of "send"); (3, ascii_of "both")].

Local Close Scope string_scope.

Fixpoint family_name_in (l : list ((N * N) * bytes)) (f : N * N) : option bytes :=
  match l with
  | [] => None
  | (k, v) :: r => if (fst k =? fst f) && (snd k =? snd f) then Some v else family_name_in r f
  end.
Fixpoint mode_name_in (l : list (N * bytes)) (m : N) : option bytes :=
  match l with
  | [] => None
  | (k, v) :: r => if k =? m then Some v else mode_name_in r m
  end.

Definition family_name (f : N * N) : option bytes := family_name_in family_names f.
Definition mode_name (m : N) : option bytes := mode_name_in mode_names m.

(** what the receiver reports for one <AFI, SAFI, Send/Receive> entry of an ADD-PATH capability:
    (family name, mode name); [None] = the reference has no name for it *)
Definition ref_addpath_name (e : N * N * N) : option (bytes * bytes) :=
  match family_name (fst e), mode_name (snd e) with
  | Some a, Some b => Some (a, b)
  | _, _ => None
  end.

(** no two families / modes share a name *)
Fixpoint names_distinctb (l : list bytes) : bool :=
  match l with
  | [] => true
  | x :: r => negb (existsb (bytes_eqb x) r) && names_distinctb r
  end.

(** rendering for the harness (compared with its transcription of the two tables) *)
Definition sx_ref_names : sx :=
  SL [SL (List.map (fun p => SL [SN (fst (fst p)); SN (snd (fst p)); SB (snd p)]) family_names);
      SL (List.map (fun p => SL [SN (fst p); SB (snd p)]) mode_names)].
