(** C20 -- the audit of a message log, written from the property text only (no model import):

    "With message logging on, every reported event appends exactly one line that is a complete
     JSON object with the documented keys (t, seq, type, msg), and sequence numbers increase by
     exactly one from line to line across file rotations and across agent restarts at any
     point -- so numbers are never reused and a restart never refuses to start because of its
     own log."

    The auditor sees: all files of the peer's msg directory in name order, each as its lines in
    file order, every line classified as a complete record carrying sequence number [s]
    ([OComplete s]: newline-terminated, parses as a JSON object whose keys are exactly t, seq,
    type, msg) or as anything else ([OBad]); whether any (re)start of the agent refused to
    start; and how many events were reported (callbacks that write and returned, or whose
    whole line reached the disk before the process died). *)
From Coq Require Import List NArith Bool.
Import ListNotations.
Open Scope N_scope.

Inductive oline := OComplete (seq : N) | OBad.

Record observation := Obs { files : list (list oline); refused : bool; reported : N }.

(** every line complete, each sequence number = previous + 1 (so no number is used twice) *)
Fixpoint consecutive_after (prev : N) (ls : list oline) : bool :=
  match ls with
  | [] => true
  | OComplete s :: r => (s =? prev + 1) && consecutive_after s r
  | OBad :: _ => false
  end.

Definition consecutive (ls : list oline) : bool :=
  match ls with
  | [] => true
  | OComplete s :: r => consecutive_after s r
  | OBad :: _ => false
  end.

(** the lines of all files, in name order then file order: rotation must not break the chain *)
Definition all_lines (o : observation) : list oline := concat (files o).

Definition audit (o : observation) : bool :=
  negb (refused o)                                        (* a restart never refuses to start *)
  && consecutive (all_lines o)                            (* complete lines, +1 from line to line *)
  && (N.of_nat (length (all_lines o)) =? reported o).     (* exactly one line per reported event *)

(** consequence spelled out: no sequence number occurs twice *)
Definition seqs (ls : list oline) : list N :=
  flat_map (fun l => match l with OComplete s => [s] | OBad => [] end) ls.
