(** Independent structural walker for BGP messages (property C08).

    [valid_msg_with cfg m] says that the octet string [m] is ONE structurally valid BGP message.
    It is written from the RFCs only and shares nothing with yabgp's decoders or with coq/model:

      RFC 4271  header (marker, length = size, 19..4096, type), OPEN fixed part and optional
                parameters, UPDATE sections, attribute flags / lengths, <length, prefix> encoding
      RFC 5492  capabilities optional parameter         RFC 2918/7313/6793/7911/8950/4724 cap lengths
      RFC 6793  4-octet AS numbers in AS_PATH / AGGREGATOR, AS4_PATH / AS4_AGGREGATOR
      RFC 7911  path identifier in front of an IPv4-unicast prefix (only when cfg says so)
      RFC 1997 / 4360 / 8092 / 4456   COMMUNITIES, EXTENDED, LARGE, ORIGINATOR_ID, CLUSTER_LIST
      RFC 4760  MP_REACH_NLRI / MP_UNREACH_NLRI
      RFC 8277 (3107), 4364, 4659   labels, route distinguisher
      RFC 7432 / 9136   EVPN route types 1..5
      RFC 8955 / 8956   flow specification NLRI length and component framing
      RFC 9012  tunnel encapsulation TLVs and sub-TLVs (1-octet length below type 128, else 2)
      RFC 9256 / 9830 (draft-ietf-idr-segment-routing-te-policy)  SR policy NLRI and sub-TLVs
      RFC 6514  PMSI tunnel attribute

    Every loop is structural recursion on explicit fuel (the length of what is walked: each
    element consumes at least one octet); running out of fuel REJECTS.  The walker is a plain
    executable boolean function, used under vm_compute on the implementation's real output. *)
From YV Require Import lib.Base.

(** what the walker has to be told about the session (cannot be seen in the octets) *)
Record wcfg := mkw {
  w_asn4 : bool;       (* AS numbers in AS_PATH / AGGREGATOR are 4 octets (RFC 6793) *)
  w_addpath : bool;    (* IPv4-unicast NLRI / withdrawn routes carry a path identifier (RFC 7911) *)
  w_cisco_rr : bool }. (* message type 128 (pre-standard route refresh) is accepted *)
Definition cfg0 : wcfg := mkw false false false.

(* ------------------------------------------------------------------------------------- *)
(** * cutting *)

(** the first [n] octets and the rest; [None] when fewer than [n] are present *)
Fixpoint split (n : nat) (b : bytes) : option (bytes * bytes) :=
  match n with
  | O => Some ([], b)
  | S n' => match b with
            | [] => None
            | x :: r => match split n' r with
                        | Some (h, t) => Some (x :: h, t)
                        | None => None
                        end
            end
  end.
Definition splitN (n : N) (b : bytes) : option (bytes * bytes) := split (N.to_nat n) b.

Definition u16 (hi lo : N) : N := hi * 256 + lo.
Definition ceil8 (bits : N) : N := (bits + 7) / 8.
(** [bit m x]: the bit of weight [m] (a power of two) of the octet [x] *)
Definition bit (m x : N) : bool := (x / m) mod 2 =? 1.

(** [b] is a sequence of elements each accepted by [step] (which returns what follows the
    element).  Fuel = number of octets: every step below consumes at least one. *)
Fixpoint walk (fuel : nat) (step : bytes -> option bytes) (b : bytes) : bool :=
  match b with
  | [] => true
  | _ :: _ =>
      match fuel with
      | O => false
      | S f => match step b with
               | Some r => walk f step r
               | None => false
               end
      end
  end.
Definition walk_all (step : bytes -> option bytes) (b : bytes) : bool := walk (length b) step b.

(** type(1) length(1) value *)
Definition step_tlv11 (chk : N -> bytes -> bool) (b : bytes) : option bytes :=
  match b with
  | t :: l :: r => match splitN l r with
                   | Some (v, rest) => if chk t v then Some rest else None
                   | None => None
                   end
  | _ => None
  end.
(** type(2) length(2) value *)
Definition step_tlv22 (chk : N -> bytes -> bool) (b : bytes) : option bytes :=
  match b with
  | t1 :: t0 :: l1 :: l0 :: r =>
      match splitN (u16 l1 l0) r with
      | Some (v, rest) => if chk (u16 t1 t0) v then Some rest else None
      | None => None
      end
  | _ => None
  end.

(* ------------------------------------------------------------------------------------- *)
(** * prefixes (RFC 4271 4.3: length in bits, then ceil(length/8) octets) *)

Definition step_prefix (maxbits : N) (b : bytes) : option bytes :=
  match b with
  | l :: r => if l <=? maxbits
              then match splitN (ceil8 l) r with Some (_, t) => Some t | None => None end
              else None
  | [] => None
  end.
(** RFC 7911: 4-octet path identifier first *)
Definition step_prefix_ap (maxbits : N) (b : bytes) : option bytes :=
  match split 4 b with
  | Some (_, r) => step_prefix maxbits r
  | None => None
  end.
Definition valid_prefixes4 (c : wcfg) (b : bytes) : bool :=
  walk_all (if w_addpath c then step_prefix_ap 32 else step_prefix 32) b.

(* ------------------------------------------------------------------------------------- *)
(** * labels, RD, MP families *)

(** RFC 8277: 3-octet label fields up to and including the one with the bottom-of-stack bit.
    Returns (number of labels, what follows). *)
Fixpoint labels (fuel : nat) (b : bytes) : option (N * bytes) :=
  match fuel with
  | O => None
  | S f => match b with
           | _ :: _ :: c :: r =>
               if c mod 2 =? 1 then Some (1, r)
               else match labels f r with
                    | Some (n, t) => Some (n + 1, t)
                    | None => None
                    end
           | _ => None
           end
  end.

(** <length in bits, label(s), [RD,] prefix>: the length counts label, RD and prefix bits and
    the element occupies ceil(length/8) octets.  In MP_UNREACH_NLRI there is exactly one 3-octet
    label field whose content is ignored (RFC 8277 2.4; 0x800000 / 0x000000 by convention). *)
Definition step_labeled (withdraw rd : bool) (maxbits : N) (b : bytes) : option bytes :=
  match b with
  | l :: r =>
      match splitN (ceil8 l) r with
      | Some (v, rest) =>
          match (if withdraw
                 then match split 3 v with Some (_, t) => Some (1, t) | None => None end
                 else labels 11 v) with
          | Some (n, _) =>
              let fixedbits := 24 * n + (if rd then 64 else 0) in
              if (fixedbits <=? l) && (l - fixedbits <=? maxbits) then Some rest else None
          | None => None
          end
      | None => None
      end
  | [] => None
  end.

(** EVPN (RFC 7432 7.1-7.4, RFC 9136 3.1): per route type, the fixed layout *)
Definition chk_evpn (t : N) (v : bytes) : bool :=
  match t with
  | 1 => len v =? 25                           (* RD 8, ESI 10, tag 4, label 3 *)
  | 2 =>                                       (* RD, ESI, tag, maclen, MAC, iplen, IP, label1 [label2] *)
      match split 22 v with
      | Some (_, ml :: r) =>
          (ml =? 48) &&
          match split 6 r with
          | Some (_, il :: r2) =>
              ((il =? 0) || (il =? 32) || (il =? 128)) &&
              match splitN (il / 8) r2 with
              | Some (_, lab) => (len lab =? 3) || (len lab =? 6)
              | None => false
              end
          | _ => false
          end
      | _ => false
      end
  | 3 =>                                       (* RD, tag, iplen, IP *)
      match split 12 v with
      | Some (_, il :: r) => ((il =? 32) || (il =? 128)) && (len r =? il / 8)
      | _ => false
      end
  | 4 =>                                       (* RD, ESI, iplen, IP *)
      match split 18 v with
      | Some (_, il :: r) => ((il =? 32) || (il =? 128)) && (len r =? il / 8)
      | _ => false
      end
  | 5 =>                                       (* RD, ESI, tag, plen, prefix, gateway, label *)
      match split 22 v with
      | Some (_, pl :: r) => ((len r =? 11) && (pl <=? 32)) || ((len r =? 35) && (pl <=? 128))
      | _ => false
      end
  | _ => true
  end.

(** flow specification components (RFC 8955 4.2, RFC 8956 3): operator/value pairs, value length
    2^len-bits, up to and including the pair with the end-of-list bit *)
Fixpoint flow_ops (fuel : nat) (b : bytes) : option bytes :=
  match fuel with
  | O => None
  | S f => match b with
           | o :: r => match splitN (2 ^ ((o / 16) mod 4)) r with
                       | Some (_, t) => if 128 <=? o then Some t else flow_ops f t
                       | None => None
                       end
           | [] => None
           end
  end.
Definition step_flow_comp (v6 : bool) (b : bytes) : option bytes :=
  match b with
  | t :: r =>
      if (t =? 1) || (t =? 2) then
        if v6 then                             (* RFC 8956: length, offset, ceil((length-offset)/8) *)
          match r with
          | l :: o :: r2 =>
              if (l <=? 128) && (o <=? l)
              then match splitN (ceil8 (l - o)) r2 with Some (_, x) => Some x | None => None end
              else None
          | _ => None
          end
        else step_prefix 32 r
      else if (3 <=? t) && (t <=? (if v6 then 13 else 12)) then flow_ops (length r) r
      else None
  | [] => None
  end.
(** RFC 8955 4.1: one length octet below 240, otherwise 0xfnnn on two octets *)
Definition step_flow (v6 : bool) (b : bytes) : option bytes :=
  match b with
  | l :: r =>
      if l <? 240 then
        match splitN l r with
        | Some (v, rest) => if (1 <=? l) && walk_all (step_flow_comp v6) v then Some rest else None
        | None => None
        end
      else
        match r with
        | l0 :: r2 =>
            match splitN (u16 (l mod 16) l0) r2 with
            | Some (v, rest) =>
                if negb (match v with [] => true | _ => false end) && walk_all (step_flow_comp v6) v
                then Some rest else None
            | None => None
            end
        | [] => None
        end
  | [] => None
  end.

(** SR policy NLRI: length in bits = distinguisher 32 + colour 32 + endpoint (32 | 128 by AFI) *)
Definition step_srte (endpoint_bits : N) (b : bytes) : option bytes :=
  match b with
  | l :: r => if l =? 64 + endpoint_bits
              then match splitN (l / 8) r with Some (_, t) => Some t | None => None end
              else None
  | [] => None
  end.

Inductive family :=
| FPrefix (maxbits : N) | FLabeled (maxbits : N) | FVpn (maxbits : N)
| FEvpn | FFlow (v6 : bool) | FSrte (endpoint_bits : N) | FOpaque.

Definition family_of (afi safi : N) : family :=
  match afi, safi with
  | 1, 1 | 1, 2 => FPrefix 32
  | 2, 1 | 2, 2 => FPrefix 128
  | 1, 4 => FLabeled 32
  | 2, 4 => FLabeled 128
  | 1, 128 => FVpn 32
  | 2, 128 => FVpn 128
  | 25, 70 => FEvpn
  | 1, 133 => FFlow false
  | 2, 133 => FFlow true
  | 1, 73 => FSrte 32
  | 2, 73 => FSrte 128
  | _, _ => FOpaque
  end.

Definition valid_mp_nlri (withdraw : bool) (f : family) (b : bytes) : bool :=
  match f with
  | FPrefix m => walk_all (step_prefix m) b
  | FLabeled m => walk_all (step_labeled withdraw false m) b
  | FVpn m => walk_all (step_labeled withdraw true m) b
  | FEvpn => walk_all (step_tlv11 chk_evpn) b
  | FFlow v6 => walk_all (step_flow v6) b
  | FSrte e => walk_all (step_srte e) b
  | FOpaque => true
  end.

(** length of the next-hop field per family (RFC 4760 3, 4364 4.3.2, 4659 3.2.1, 8950, 8955 4,
    7432 9, 9830 2.1): one address, or global + link-local for IPv6; VPN: RD 0 + address *)
Definition nh_len_ok (f : family) (l : N) : bool :=
  match f with
  | FPrefix _ | FLabeled _ => (l =? 4) || (l =? 16) || (l =? 32)
  | FVpn _ => (l =? 12) || (l =? 24) || (l =? 48)
  | FEvpn | FSrte _ => (l =? 4) || (l =? 16)
  | FFlow _ => (l =? 0) || (l =? 4) || (l =? 16)
  | FOpaque => true
  end.

(** MP_REACH_NLRI: AFI(2) SAFI(1) nhlen(1) nexthop reserved(1)=0 NLRI *)
Definition valid_mp_reach (v : bytes) : bool :=
  match v with
  | a1 :: a0 :: s :: nl :: r =>
      let f := family_of (u16 a1 a0) s in
      nh_len_ok f nl &&
      match splitN nl r with
      | Some (_, 0 :: nlri) => valid_mp_nlri false f nlri
      | _ => false
      end
  | _ => false
  end.
(** MP_UNREACH_NLRI: AFI(2) SAFI(1) withdrawn routes *)
Definition valid_mp_unreach (v : bytes) : bool :=
  match v with
  | a1 :: a0 :: s :: nlri => valid_mp_nlri true (family_of (u16 a1 a0) s) nlri
  | _ => false
  end.

(* ------------------------------------------------------------------------------------- *)
(** * tunnel encapsulation (RFC 9012 2-3; SR policy sub-TLVs RFC 9830 2.4) *)

(** segment sub-TLVs inside a segment list: weight (9) and segment types A..H *)
Definition chk_segment (t : N) (v : bytes) : bool :=
  let l := len v in
  match t with
  | 9 => l =? 6                                (* weight: flags, reserved, 4 *)
  | 1 => l =? 6                                (* A: flags, reserved, label entry *)
  | 3 => (l =? 6) || (l =? 10)                 (* C: IPv4 node [SID] *)
  | 4 => (l =? 18) || (l =? 22)                (* D: IPv6 node [SID] *)
  | 5 => (l =? 10) || (l =? 14)                (* E: interface id + IPv4 node [SID] *)
  | 6 => (l =? 10) || (l =? 14)                (* F: IPv4 local + remote [SID] *)
  | 7 => (l =? 22) || (l =? 26) || (l =? 42) || (l =? 46)
  | 8 => (l =? 34) || (l =? 38)
  | _ => 2 <=? l                               (* every segment starts with flags + reserved *)
  end.
(** sub-TLVs of an SR policy tunnel (type 15); other sub-TLV types: framing only *)
Definition chk_srpolicy_sub (t : N) (v : bytes) : bool :=
  let l := len v in
  match t with
  | 12 => l =? 6                               (* preference *)
  | 13 => (l =? 2) || (l =? 6) || (l =? 18)    (* binding SID *)
  | 14 => l =? 3                               (* ENLP *)
  | 15 => l =? 2                               (* priority *)
  | 128 => match v with                        (* segment list: reserved, then segment sub-TLVs *)
           | _ :: r => walk_all (step_tlv11 chk_segment) r
           | [] => false
           end
  | 129 => 1 <=? l                             (* policy name: reserved + name *)
  | _ => true
  end.
(** sub-TLV: type(1), length on 1 octet for types 0..127 and on 2 octets for 128..255 *)
Definition step_subtlv (chk : N -> bytes -> bool) (b : bytes) : option bytes :=
  match b with
  | t :: r =>
      match (if t <? 128
             then match r with l :: r' => Some (l, r') | [] => None end
             else match r with l1 :: l0 :: r' => Some (u16 l1 l0, r') | _ => None end) with
      | Some (l, r') => match splitN l r' with
                        | Some (v, rest) => if chk t v then Some rest else None
                        | None => None
                        end
      | None => None
      end
  | [] => None
  end.
Definition chk_tunnel (t : N) (v : bytes) : bool :=
  walk_all (step_subtlv (if t =? 15 then chk_srpolicy_sub else fun _ _ => true)) v.
Definition valid_tunnel_encaps (v : bytes) : bool := walk_all (step_tlv22 chk_tunnel) v.

(** PMSI tunnel (RFC 6514 5): flags, type, label(3), identifier whose size follows from the type *)
Definition valid_pmsi (v : bytes) : bool :=
  match v with
  | _ :: t :: _ :: _ :: _ :: id =>
      let l := len id in
      match t with
      | 0 => l =? 0
      | 1 => (l =? 12) || (l =? 24)            (* RSVP-TE P2MP session object *)
      | 3 | 4 | 5 => (l =? 8) || (l =? 32)     (* two addresses *)
      | 6 => (l =? 4) || (l =? 16)             (* ingress replication: one address *)
      | _ => true
      end
  | _ => false
  end.

(* ------------------------------------------------------------------------------------- *)
(** * path attributes *)

(** AS_PATH (RFC 4271 4.3 b, RFC 5065): type 1..4, count, count * width octets *)
Definition step_segment (width : N) (b : bytes) : option bytes :=
  match b with
  | t :: c :: r => if (1 <=? t) && (t <=? 4)
                   then match splitN (c * width) r with Some (_, x) => Some x | None => None end
                   else None
  | _ => None
  end.

(** RFC category of an attribute type code *)
Inductive category := WellKnown | OptNonTrans | OptTrans | Unknown.
Definition category_of (ty : N) : category :=
  match ty with
  | 1 | 2 | 3 | 5 | 6 => WellKnown               (* ORIGIN AS_PATH NEXT_HOP LOCAL_PREF ATOMIC_AGGREGATE *)
  | 4 | 9 | 10 | 14 | 15 => OptNonTrans          (* MED ORIGINATOR_ID CLUSTER_LIST MP_REACH MP_UNREACH *)
  | 7 | 8 | 16 | 17 | 18 | 22 | 23 | 25 | 32 | 40 => OptTrans
  | _ => Unknown
  end.
(** flags octet: O T P E 0 0 0 0 *)
Definition flags_ok (fl ty : N) : bool :=
  let o := bit 128 fl in let t := bit 64 fl in let p := bit 32 fl in
  (fl mod 16 =? 0) &&
  match category_of ty with
  | WellKnown => negb o && t && negb p
  | OptNonTrans => o && negb t && negb p
  | OptTrans => o && t
  | Unknown => o && (t || negb p)
  end.

Definition value_ok (c : wcfg) (ty : N) (v : bytes) : bool :=
  let l := len v in
  match ty with
  | 1 => l =? 1
  | 2 => walk_all (step_segment (if w_asn4 c then 4 else 2)) v
  | 3 => l =? 4
  | 4 => l =? 4
  | 5 => l =? 4
  | 6 => l =? 0
  | 7 => l =? (if w_asn4 c then 8 else 6)
  | 8 => l mod 4 =? 0
  | 9 => l =? 4
  | 10 => l mod 4 =? 0
  | 14 => valid_mp_reach v
  | 15 => valid_mp_unreach v
  | 16 => l mod 8 =? 0
  | 17 => walk_all (step_segment 4) v
  | 18 => l =? 8
  | 22 => valid_pmsi v
  | 23 => valid_tunnel_encaps v
  | 25 => l mod 20 =? 0
  | 32 => (1 <=? l) && (l mod 12 =? 0)
  | _ => true
  end.

(** the attribute sequence: flags, type, length on 1 octet or, iff the extended-length bit is
    set, on 2; value of exactly that many octets; no type code twice (RFC 4271 5) *)
Fixpoint walk_attrs (fuel : nat) (c : wcfg) (seen : list N) (b : bytes) : bool :=
  match b with
  | [] => true
  | _ :: _ =>
      match fuel with
      | O => false
      | S f =>
          match b with
          | fl :: ty :: r =>
              match (if bit 16 fl
                     then match r with l1 :: l0 :: r' => Some (u16 l1 l0, r') | _ => None end
                     else match r with l :: r' => Some (l, r') | [] => None end) with
              | Some (l, r') =>
                  match splitN l r' with
                  | Some (v, rest) =>
                      negb (existsb (N.eqb ty) seen) && flags_ok fl ty && value_ok c ty v &&
                      walk_attrs f c (ty :: seen) rest
                  | None => false
                  end
              | None => false
              end
          | _ => false
          end
      end
  end.
Definition valid_attrs (c : wcfg) (b : bytes) : bool := walk_attrs (length b) c [] b.

(** [b] is exactly ONE path attribute of type [ty], as a proposition (used to state what a
    constructor returns): flags octet fitting the RFC category of [ty], type octet, a 1-octet
    length without / a 2-octet length with the extended-length bit, and a value of exactly that
    size which [value_ok] accepts for the type; every octet is an octet. *)
Definition attr_block (c : wcfg) (ty : N) (b : bytes) : Prop :=
  exists fl v, fl < 256 /\ ty < 256 /\ wf_bytes v /\ flags_ok fl ty = true /\ value_ok c ty v = true /\
    ((bit 16 fl = false /\ len v <= 255 /\ b = fl :: ty :: len v :: v) \/
     (bit 16 fl = true /\ len v <= 65535 /\ b = fl :: ty :: be 2 (len v) ++ v)).

(* ------------------------------------------------------------------------------------- *)
(** * messages *)

(** UPDATE: wlen(2) withdrawn(wlen) alen(2) attributes(alen) NLRI(rest) *)
Definition update_sections (body : bytes) : option (bytes * bytes * bytes) :=
  match body with
  | w1 :: w0 :: r =>
      match splitN (u16 w1 w0) r with
      | Some (wd, a1 :: a0 :: r2) =>
          match splitN (u16 a1 a0) r2 with
          | Some (attrs, nlri) => Some (wd, attrs, nlri)
          | None => None
          end
      | _ => None
      end
  | _ => None
  end.
Definition valid_update (c : wcfg) (body : bytes) : bool :=
  match update_sections body with
  | Some (wd, attrs, nlri) => valid_prefixes4 c wd && valid_attrs c attrs && valid_prefixes4 c nlri
  | None => false
  end.

(** capability value lengths that are fixed by their RFC *)
Definition chk_cap (code : N) (v : bytes) : bool :=
  let l := len v in
  match code with
  | 1 => l =? 4                                (* multiprotocol: AFI, reserved, SAFI *)
  | 2 => l =? 0                                (* route refresh *)
  | 5 => l mod 6 =? 0                         (* extended next hop: (AFI, SAFI(2), NH AFI)* *)
  | 64 => (2 <=? l) && ((l - 2) mod 4 =? 0)    (* graceful restart *)
  | 65 => l =? 4                               (* 4-octet AS *)
  | 69 => (1 <=? l) && (l mod 4 =? 0)          (* add-path: (AFI, SAFI, send/receive)+ *)
  | 70 => l =? 0                               (* enhanced route refresh *)
  | 71 => l mod 7 =? 0                         (* long-lived graceful restart *)
  | _ => true
  end.
(** optional parameter: type 2 = capabilities, a sequence of code/length/value triples *)
Definition chk_param (t : N) (v : bytes) : bool :=
  if t =? 2 then walk_all (step_tlv11 chk_cap) v else true.
(** OPEN: version(1) AS(2) hold(2) id(4) optlen(1) parameters(optlen), nothing after *)
Definition valid_open (body : bytes) : bool :=
  match split 9 body with
  | Some (_, ol :: ps) => (len ps =? ol) && walk_all (step_tlv11 chk_param) ps
  | _ => false
  end.

Definition valid_notification (body : bytes) : bool :=
  match body with _ :: _ :: _ => true | _ => false end.
Definition valid_keepalive (body : bytes) : bool :=
  match body with [] => true | _ => false end.
(** ROUTE-REFRESH (RFC 2918 3): AFI(2) reserved(1) SAFI(1) *)
Definition valid_route_refresh (body : bytes) : bool := len body =? 4.

(** header: 16 octets of 0xff, length(2) = size of the whole message in 19..4096, type(1) *)
Definition unheader (m : bytes) : option (N * bytes) :=
  match split 16 m with
  | Some (mk, l1 :: l0 :: ty :: body) =>
      let n := len m in
      if forallb (N.eqb 255) mk && (u16 l1 l0 =? n) && (19 <=? n) && (n <=? 4096)
      then Some (ty, body) else None
  | _ => None
  end.

Definition valid_msg_with (c : wcfg) (m : bytes) : bool :=
  wf_bytesb m &&
  match unheader m with
  | Some (ty, body) =>
      match ty with
      | 1 => valid_open body
      | 2 => valid_update c body
      | 3 => valid_notification body
      | 4 => valid_keepalive body
      | 5 => valid_route_refresh body
      | 128 => w_cisco_rr c && valid_route_refresh body
      | _ => false
      end
  | None => false
  end.
Definition valid_msg : bytes -> bool := valid_msg_with cfg0.

(** for the harness: indices of the messages that are NOT valid *)
Fixpoint invalid_from (i : N) (l : list (wcfg * bytes)) : list N :=
  match l with
  | [] => []
  | (c, m) :: r => if valid_msg_with c m then invalid_from (i + 1) r else i :: invalid_from (i + 1) r
  end.
Definition invalid_indices := invalid_from 0.
