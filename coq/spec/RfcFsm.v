(** RFC 4271 section 8.2.2, profiled for an active-only speaker (never listens: no events
    14/15/23, no collision detection), DelayOpen off (no events 12/20), DampPeerOscillations
    on (IdleHold timer).  Written from the RFC text and the three clarifications of DESIGN.md
    Appendix A; imports nothing from the model.

    A reaction is what is observable: next state, NOTIFICATION (code, subcode) sent, whether the
    TCP connection is dropped, which other messages are sent (1 = OPEN, 4 = KEEPALIVE), whether
    a new TCP connection is initiated, and whether a restart is pending afterwards (IdleHold
    timer running) when the reaction ended in Idle. *)
From Coq Require Import NArith List Bool.
Import ListNotations.
Open Scope N_scope.

Inductive rstate := RIdle | RConnect | RActive | ROpenSent | ROpenConfirm | REstablished.

Inductive revent :=
| EvManualStart | EvManualStop
| EvIdleHoldExpires            (* 13 = AutomaticStart after damping *)
| EvConnectRetryExpires        (* 9 *)
| EvHoldExpires                (* 10 *)
| EvKeepaliveExpires           (* 11 *)
| EvTcpFails                   (* 18: the attempt fails / the connection is closed by the peer *)
| EvOpenOk                     (* 19: acceptable OPEN *)
| EvHeaderErr (sub : N)        (* 21 *)
| EvOpenErr (sub : N)          (* 22 *)
| EvNotifVersion               (* 24 *)
| EvNotifOther                 (* 25 *)
| EvKeepaliveMsg               (* 26 *)
| EvUpdateMsg                  (* 27 *)
| EvRouteRefresh.

Record reaction : Type := mkR {
  r_next : rstate;
  r_notif : option (N * N);
  r_close : bool;
  r_sends : list N;
  r_connect : bool;
  r_restart_pending : bool       (* meaningful when r_next = RIdle *)
}.

(** [None] = the event is ignored: nothing changes *)
Definition err_close (n : option (N * N)) : option reaction :=
  Some (mkR RIdle n true [] false true).

Definition rfc_step (s : rstate) (e : revent) : option reaction :=
  match e, s with
  (* ManualStart: only in Idle *)
  | EvManualStart, RIdle => Some (mkR RConnect None false [] true false)
  | EvManualStart, _ => None
  (* ManualStop: Cease when a session exists; no automatic restart afterwards *)
  | EvManualStop, RIdle => Some (mkR RIdle None false [] false false)
  | EvManualStop, (RConnect | RActive) => Some (mkR RIdle None true [] false false)
  | EvManualStop, _ => Some (mkR RIdle (Some (6, 0)) true [] false false)
  (* IdleHold expiry = automatic start *)
  | EvIdleHoldExpires, RIdle => Some (mkR RConnect None false [] true false)
  | EvIdleHoldExpires, (RConnect | RActive) => None
  | EvIdleHoldExpires, _ => err_close (Some (5, 0))
  (* ConnectRetry expiry *)
  | EvConnectRetryExpires, RIdle => None
  | EvConnectRetryExpires, (RConnect | RActive) => Some (mkR RConnect None true [] true false)
  | EvConnectRetryExpires, _ => err_close (Some (5, 0))
  (* Hold expiry *)
  | EvHoldExpires, RIdle => None
  | EvHoldExpires, (RConnect | RActive) => err_close None
  | EvHoldExpires, _ => err_close (Some (4, 0))
  (* Keepalive expiry *)
  | EvKeepaliveExpires, RIdle => None
  | EvKeepaliveExpires, (RConnect | RActive) => err_close None
  | EvKeepaliveExpires, ROpenSent => err_close (Some (5, 0))
  | EvKeepaliveExpires, _ => Some (mkR s None false [4] false false)
  (* TCP fails / closed by the peer: the connection is already gone, nothing is left to drop *)
  | EvTcpFails, RIdle => None
  | EvTcpFails, (RConnect | RActive) => Some (mkR RIdle None false [] false true)
  (* an active-only speaker cannot wait in Active for the peer to connect: it damps and restarts *)
  | EvTcpFails, _ => Some (mkR RIdle None false [] false true)
  (* acceptable OPEN *)
  | EvOpenOk, RIdle => None
  | EvOpenOk, (RConnect | RActive) => err_close None
  | EvOpenOk, ROpenSent => Some (mkR ROpenConfirm None false [4] false false)
  | EvOpenOk, ROpenConfirm => None
  | EvOpenOk, REstablished => err_close (Some (5, 0))
  (* header error: NOTIFICATION (1, sub) in every session state (RFC section 6.1) *)
  | EvHeaderErr _, RIdle => None
  | EvHeaderErr _, (RConnect | RActive) => err_close None
  | EvHeaderErr sub, _ => err_close (Some (1, sub))
  (* OPEN message error *)
  | EvOpenErr _, RIdle => None
  | EvOpenErr _, (RConnect | RActive) => err_close None
  | EvOpenErr sub, (ROpenSent | ROpenConfirm) => err_close (Some (2, sub))
  | EvOpenErr _, REstablished => err_close (Some (5, 0))
  (* NOTIFICATION with version error *)
  | EvNotifVersion, RIdle => None
  | EvNotifVersion, (RConnect | RActive) => err_close None
  | EvNotifVersion, (ROpenSent | ROpenConfirm) => Some (mkR RIdle None true [] false false)
  | EvNotifVersion, REstablished => err_close None
  (* any other NOTIFICATION *)
  | EvNotifOther, RIdle => None
  | EvNotifOther, (RConnect | RActive) => err_close None
  | EvNotifOther, ROpenSent => err_close (Some (5, 0))
  | EvNotifOther, _ => err_close None
  (* KEEPALIVE *)
  | EvKeepaliveMsg, RIdle => None
  | EvKeepaliveMsg, (RConnect | RActive) => err_close None
  | EvKeepaliveMsg, ROpenSent => err_close (Some (5, 0))
  | EvKeepaliveMsg, ROpenConfirm => Some (mkR REstablished None false [] false false)
  | EvKeepaliveMsg, REstablished => Some (mkR REstablished None false [] false false)
  (* UPDATE *)
  | EvUpdateMsg, RIdle => None
  | EvUpdateMsg, (RConnect | RActive) => err_close None
  | EvUpdateMsg, (ROpenSent | ROpenConfirm) => err_close (Some (5, 0))
  | EvUpdateMsg, REstablished => Some (mkR REstablished None false [] false false)
  (* ROUTE-REFRESH: no FSM effect *)
  | EvRouteRefresh, _ => None
  end.

(** Which (state, event) pairs can occur at all for this profile in the single-connection
    regime: messages and header errors need a connection to arrive on (session states only);
    Active is never entered (no listening, no DelayOpen); a timer can only expire in a state in
    which the profile lets it run: ConnectRetry in Idle/Connect, Hold in the session states,
    Keepalive in OpenConfirm/Established, IdleHold in Idle. *)
Definition applicable (s : rstate) (e : revent) : bool :=
  match s, e with
  | RActive, _ => false
  | _, (EvManualStart | EvManualStop | EvRouteRefresh) => true
  | (RIdle | RConnect), EvConnectRetryExpires => true
  | RIdle, EvIdleHoldExpires => true
  | RConnect, EvTcpFails => true
  | (ROpenSent | ROpenConfirm | REstablished),
    (EvHoldExpires | EvTcpFails | EvOpenOk | EvHeaderErr _ | EvOpenErr _ | EvNotifVersion | EvNotifOther
     | EvKeepaliveMsg | EvUpdateMsg) => true
  | (ROpenConfirm | REstablished), EvKeepaliveExpires => true
  | _, _ => false
  end.

(** comparison of an observed reaction with the prescribed one *)
Definition rstate_eqb (a b : rstate) : bool :=
  match a, b with
  | RIdle, RIdle | RConnect, RConnect | RActive, RActive | ROpenSent, ROpenSent
  | ROpenConfirm, ROpenConfirm | REstablished, REstablished => true
  | _, _ => false
  end.
Definition onn_eqb (a b : option (N * N)) : bool :=
  match a, b with
  | None, None => true
  | Some (x, y), Some (u, v) => (x =? u) && (y =? v)
  | _, _ => false
  end.
Fixpoint ln_eqb (a b : list N) : bool :=
  match a, b with [], [] => true | x :: a', y :: b' => (x =? y) && ln_eqb a' b' | _, _ => false end.
Definition session_state (s : rstate) : bool :=
  match s with ROpenSent | ROpenConfirm | REstablished => true | _ => false end.
(** same reaction; "drop the TCP connection" is only observable when there is one (session states),
    "restart pending" only when the reaction ends in Idle *)
Definition reaction_eqb (from : rstate) (spec obs : reaction) : bool :=
  rstate_eqb (r_next spec) (r_next obs) && onn_eqb (r_notif spec) (r_notif obs) &&
  (negb (session_state from) || Bool.eqb (r_close spec) (r_close obs)) &&
  ln_eqb (r_sends spec) (r_sends obs) && Bool.eqb (r_connect spec) (r_connect obs) &&
  (negb (rstate_eqb (r_next spec) RIdle) || Bool.eqb (r_restart_pending spec) (r_restart_pending obs)).

(** for the oracle run on the implementation: [same] = nothing changed (state, outputs, timers) *)
Definition conforms_obs (s : rstate) (e : revent) (same : bool) (obs : reaction) : bool :=
  match rfc_step s e with
  | None => same
  | Some r => reaction_eqb s r obs
  end.
Definition rstate_of_num (n : N) : rstate :=
  match n with 1 => RIdle | 2 => RConnect | 3 => RActive | 4 => ROpenSent | 5 => ROpenConfirm | _ => REstablished end.
Fixpoint nonconforming_from (i : N) (l : list (N * revent * bool * reaction)) : list N :=
  match l with
  | [] => []
  | (s, e, same, obs) :: r =>
      if negb (applicable (rstate_of_num s) e) || conforms_obs (rstate_of_num s) e same obs
      then nonconforming_from (i + 1) r else i :: nonconforming_from (i + 1) r
  end.
