(** Reference encoder of the IPv4-unicast UPDATE message body, written from the RFCs only:
      RFC 4271 4.3 (UPDATE layout, path attribute header, ORIGIN .. AGGREGATOR, NLRI encoding),
      RFC 5065 (AS_CONFED_SEQUENCE = 3, AS_CONFED_SET = 4), RFC 6793 (4-octet AS numbers,
      AS4_PATH = 17, AS4_AGGREGATOR = 18), RFC 1997 (COMMUNITIES = 8), RFC 4456 (ORIGINATOR_ID = 9,
      CLUSTER_LIST = 10), RFC 4360 / RFC 5668 (EXTENDED COMMUNITIES = 16: two-octet-AS, IPv4-address
      and four-octet-AS specific), RFC 8092 (LARGE_COMMUNITY = 32), RFC 7911 (path identifier in
      front of every prefix).

    Nothing from model/ is imported: every number in this file is the RFC's, not yabgp's.

    The encoder produces every LEGAL encoding of a value, selected by [variants]:
      - 2- or 4-octet AS numbers in AS_PATH / AGGREGATOR                          (v_asn4)
      - a 4-octet path identifier in front of every prefix                         (v_addpath)
      - Extended Length flag + 2-octet length on attributes that would fit one     (v_ext)
      - arbitrary trailing bits after the prefix bits of the last prefix octet     (v_fill_w / v_fill_n)
      - the attributes in the order of the list; AS paths with any number of segments of the four
        types; AS4_PATH / AS4_AGGREGATOR are ordinary members of the attribute list.
    The error half: [ref_corrupt] produces the same encoding with ONE field made illegal. *)
From YV Require Import lib.Base.

(** ---- values ---- *)
Definition rpfx := (N * (N * N))%type.       (* path identifier, (address, prefix length) *)

(** one extended community: 16-bit type/sub-type, global administrator, local administrator *)
Definition rext := (N * (N * N))%type.

Inductive rattr :=
| ROrigin (o : N)
| RAsPath (segs : list (N * list N))         (* (segment type, AS numbers) *)
| RNextHop (a : N)
| RMed (n : N)
| RLocalPref (n : N)
| RAtomic
| RAggregator (asn addr : N)
| RCommunities (l : list N)
| ROriginator (a : N)
| RClusterList (l : list N)
| RExtCommunities (l : list rext)
| RLargeCommunities (l : list (N * (N * N)))
| RAs4Path (segs : list (N * list N))
| RAs4Aggregator (asn addr : N).

Record rupdate := mkR { r_withdraw : list rpfx; r_attrs : list rattr; r_nlri : list rpfx }.

Record variants := mkVar {
  v_asn4 : bool;
  v_addpath : bool;
  v_ext : list N;          (* type codes sent with the Extended Length flag whatever their size *)
  v_fill_w : list N;       (* i-th withdrawn prefix: these bits are put behind the prefix bits *)
  v_fill_n : list N        (* same for the announced prefixes *)
}.

(** ---- attribute type codes and flag octets (Optional 128, Transitive 64, Partial 32, Extended Length 16) ---- *)
Definition attr_code (a : rattr) : N :=
  match a with
  | ROrigin _ => 1 | RAsPath _ => 2 | RNextHop _ => 3 | RMed _ => 4 | RLocalPref _ => 5
  | RAtomic => 6 | RAggregator _ _ => 7 | RCommunities _ => 8 | ROriginator _ => 9
  | RClusterList _ => 10 | RExtCommunities _ => 16 | RAs4Path _ => 17 | RAs4Aggregator _ _ => 18
  | RLargeCommunities _ => 32
  end.

(** well-known mandatory/discretionary: transitive (64); optional non-transitive: 128;
    optional transitive: 192 *)
Definition attr_flags (a : rattr) : N :=
  match a with
  | ROrigin _ | RAsPath _ | RNextHop _ | RLocalPref _ | RAtomic => 64
  | RMed _ | ROriginator _ | RClusterList _ => 128
  | RAggregator _ _ | RCommunities _ | RExtCommunities _ | RLargeCommunities _
  | RAs4Path _ | RAs4Aggregator _ _ => 192
  end.

(** ---- attribute values ---- *)
(** path segment: type, number of ASes, the ASes on [k] octets each *)
Definition enc_seg (k : nat) (s : N * list N) : bytes :=
  fst s :: len (snd s) :: concat (map (be k) (snd s)).
Definition enc_path (k : nat) (segs : list (N * list N)) : bytes := concat (map (enc_seg k) segs).

(** RFC 4360 3.1/3.2, RFC 5668: the high-order type octet without the IANA-authority and transitive
    bits selects the layout: 0 = two-octet AS specific (2 + 4), 1 = IPv4 address specific (4 + 2),
    2 = four-octet AS specific (4 + 2) *)
Definition ext_type (code : N) : N := (code / 256) mod 64.
Definition enc_rext (e : rext) : bytes :=
  let '(code, (g, l)) := e in
  if ext_type code =? 0 then be 2 code ++ be 2 g ++ be 4 l else be 2 code ++ be 4 g ++ be 2 l.

Definition as_octets (asn4 : bool) : nat := if asn4 then 4%nat else 2%nat.

Definition attr_payload (asn4 : bool) (a : rattr) : bytes :=
  match a with
  | ROrigin o => [o]
  | RAsPath segs => enc_path (as_octets asn4) segs
  | RNextHop x => be 4 x
  | RMed n => be 4 n
  | RLocalPref n => be 4 n
  | RAtomic => []
  | RAggregator asn addr => be (as_octets asn4) asn ++ be 4 addr
  | RCommunities l => concat (map (be 4) l)
  | ROriginator x => be 4 x
  | RClusterList l => concat (map (be 4) l)
  | RExtCommunities l => concat (map enc_rext l)
  | RLargeCommunities l => concat (map (fun c => be 4 (fst c) ++ be 4 (fst (snd c)) ++ be 4 (snd (snd c))) l)
  | RAs4Path segs => enc_path 4 segs
  | RAs4Aggregator asn addr => be 4 asn ++ be 4 addr
  end.

(** ---- wire layout: the fields of the message before they are put one after the other ---- *)
Record wattr := mkWA { wa_flags : N; wa_code : N; wa_ext : bool; wa_payload : bytes }.
Record wpfx := mkWP { wp_id : option N; wp_len : N; wp_octets : bytes }.
Record wire := mkW { w_withdraw : list wpfx; w_attrs : list wattr; w_nlri : list wpfx }.

Definition mem (x : N) (l : list N) : bool := existsb (N.eqb x) l.

(** the two-octet length form is mandatory above 255 octets and allowed below *)
Definition lay_attr (var : variants) (a : rattr) : wattr :=
  let p := attr_payload (v_asn4 var) a in
  mkWA (attr_flags a) (attr_code a) ((255 <? len p) || mem (attr_code a) (v_ext var)) p.

(** number of octets that hold [l] bits *)
Definition ceil8 (l : N) : nat := N.to_nat ((l + 7) / 8).

(** RFC 4271 4.3: "enough trailing bits to make the end of the field fall on an octet boundary.
    Note that the value of the trailing bits is irrelevant": the address carries the prefix bits
    (host bits zero), [fill] supplies the others *)
Definition lay_pfx (ap : bool) (fill : N) (p : rpfx) : wpfx :=
  let '(pid, (a, l)) := p in
  mkWP (if ap then Some pid else None) l (firstn (ceil8 l) (be 4 (a + fill mod 2 ^ (32 - l)))).

Fixpoint lay_pfxs (ap : bool) (fills : list N) (ps : list rpfx) : list wpfx :=
  match ps with
  | [] => []
  | p :: r => lay_pfx ap (hd 0 fills) p :: lay_pfxs ap (tl fills) r
  end.

Definition layout (var : variants) (v : rupdate) : wire :=
  mkW (lay_pfxs (v_addpath var) (v_fill_w var) (r_withdraw v))
      (map (lay_attr var) (r_attrs v))
      (lay_pfxs (v_addpath var) (v_fill_n var) (r_nlri v)).

(** ---- serialisation ---- *)
Definition ser_attr (w : wattr) : bytes :=
  if wa_ext w
  then (wa_flags w + 16) :: wa_code w :: be 2 (len (wa_payload w)) ++ wa_payload w
  else wa_flags w :: wa_code w :: len (wa_payload w) :: wa_payload w.

Definition ser_pfx (w : wpfx) : bytes :=
  match wp_id w with Some i => be 4 i | None => [] end ++ wp_len w :: wp_octets w.

Definition ser_pfxs (l : list wpfx) : bytes := concat (map ser_pfx l).
Definition ser_attrs (l : list wattr) : bytes := concat (map ser_attr l).

(** Withdrawn Routes Length, Withdrawn Routes, Total Path Attribute Length, Path Attributes, NLRI *)
Definition serialise (w : wire) : bytes :=
  be 2 (len (ser_pfxs (w_withdraw w))) ++ ser_pfxs (w_withdraw w) ++
  be 2 (len (ser_attrs (w_attrs w))) ++ ser_attrs (w_attrs w) ++ ser_pfxs (w_nlri w).

Definition ref_encode (var : variants) (v : rupdate) : bytes := serialise (layout var v).

(** ---- well-formed values: the ranges the RFCs give to each field, and the 4096-octet message ---- *)
Definition p16 : N := 65536.
Definition p32 : N := 4294967296.

Definition wf_rpfx (p : rpfx) : Prop :=
  let '(pid, (a, l)) := p in pid < p32 /\ l <= 32 /\ a < p32 /\ a mod 2 ^ (32 - l) = 0.

Definition wf_seg (lim : N) (s : N * list N) : Prop :=
  1 <= fst s <= 4 /\ (length (snd s) <= 255)%nat /\ Forall (fun x => x < lim) (snd s).

(** route target (2) / route origin (3) in the three transitive forms *)
Definition wf_rext (e : rext) : Prop :=
  let '(code, (g, l)) := e in
  (code mod 256 = 2 \/ code mod 256 = 3) /\
  ((code / 256 = 0 /\ g < p16 /\ l < p32) \/ ((code / 256 = 1 \/ code / 256 = 2) /\ g < p32 /\ l < p16)).

Definition as_lim (asn4 : bool) : N := if asn4 then p32 else p16.

Definition wf_rattr (asn4 : bool) (a : rattr) : Prop :=
  match a with
  | ROrigin o => o <= 2
  | RAsPath segs => Forall (wf_seg (as_lim asn4)) segs
  | RNextHop x | RMed x | RLocalPref x | ROriginator x => x < p32
  | RAtomic => True
  | RAggregator asn addr => asn < as_lim asn4 /\ addr < p32
  | RCommunities l | RClusterList l => Forall (fun x => x < p32) l
  | RExtCommunities l => Forall wf_rext l
  | RLargeCommunities l => Forall (fun c => fst c < p32 /\ fst (snd c) < p32 /\ snd (snd c) < p32) l
  | RAs4Path segs => Forall (wf_seg p32) segs
  | RAs4Aggregator asn addr => asn < p32 /\ addr < p32
  end.

(** header (19) + body at most 4096 octets *)
Definition wf (var : variants) (v : rupdate) : Prop :=
  Forall wf_rpfx (r_withdraw v) /\ Forall wf_rpfx (r_nlri v) /\
  Forall (wf_rattr (v_asn4 var)) (r_attrs v) /\ NoDup (map attr_code (r_attrs v)) /\
  len (ref_encode var v) + 19 <= 4096.

(** ---- the error half: one field made illegal ---- *)
Inductive corruption :=
| KOrigin (o : N)                              (* the ORIGIN octet becomes o *)
| KSegType (i : nat) (t : N)                   (* type of the i-th AS_PATH segment becomes t *)
| KPrefixLen (nlri : bool) (i : nat) (l : N)   (* length octet of the i-th withdrawn/announced prefix becomes l *)
| KAttrLen (code : N) (n : nat).               (* the value of attribute [code] is cut or zero-extended to n octets *)

Fixpoint set_nth {A} (i : nat) (f : A -> A) (l : list A) : list A :=
  match l, i with
  | [], _ => []
  | x :: r, O => f x :: r
  | x :: r, S j => x :: set_nth j f r
  end.

Definition corrupt_attr (k : corruption) (a : rattr) : rattr :=
  match k, a with
  | KOrigin o, ROrigin _ => ROrigin o
  | KSegType i t, RAsPath segs => RAsPath (set_nth i (fun s => (t, snd s)) segs)
  | _, _ => a
  end.

Definition resize (n : nat) (p : bytes) : bytes := firstn n (p ++ repeat 0 n).

Definition corrupt_wattr (k : corruption) (w : wattr) : wattr :=
  match k with
  | KAttrLen code n =>
    if wa_code w =? code then mkWA (wa_flags w) (wa_code w) (wa_ext w) (resize n (wa_payload w)) else w
  | _ => w
  end.

Definition corrupt_wire (k : corruption) (w : wire) : wire :=
  let setl l := fun p => mkWP (wp_id p) l (wp_octets p) in
  match k with
  | KPrefixLen false i l => mkW (set_nth i (setl l) (w_withdraw w)) (w_attrs w) (w_nlri w)
  | KPrefixLen true i l => mkW (w_withdraw w) (w_attrs w) (set_nth i (setl l) (w_nlri w))
  | _ => mkW (w_withdraw w) (map (corrupt_wattr k) (w_attrs w)) (w_nlri w)
  end.

Definition ref_corrupt (var : variants) (k : corruption) (v : rupdate) : bytes :=
  serialise (corrupt_wire k (layout var (mkR (r_withdraw v) (map (corrupt_attr k) (r_attrs v)) (r_nlri v)))).

(** which corruptions of which values are malformations a receiver has to detect:
    ORIGIN outside 0..2; a prefix length above 32; a segment type outside 1..4; a length other than
    the fixed one for ORIGIN (1), MULTI_EXIT_DISC (4), LOCAL_PREF (4), ATOMIC_AGGREGATE (0),
    AGGREGATOR (6 or 8), ORIGINATOR_ID (4), and for NEXT_HOP a length that is not a multiple of 4.
    All fields stay octets. *)
Definition has_code (code : N) (v : rupdate) : Prop := In code (map attr_code (r_attrs v)).

Definition as_path_segs (v : rupdate) : option (list (N * list N)) :=
  match find (fun a => attr_code a =? 2) (r_attrs v) with
  | Some (RAsPath s) => Some s
  | _ => None
  end.

Definition malformation (var : variants) (v : rupdate) (k : corruption) : Prop :=
  match k with
  | KOrigin o => has_code 1 v /\ 2 < o < 256
  | KSegType i t =>
    (exists s, as_path_segs v = Some s /\ (i < length s)%nat) /\ (t = 0 \/ 4 < t < 256)
  | KPrefixLen nlri i l =>
    (i < length (if nlri then r_nlri v else r_withdraw v))%nat /\ 32 < l < 256
  | KAttrLen code n =>
    has_code code v /\ (n <= 255)%nat /\
    ((code = 1 /\ n <> 1%nat) \/
     ((code = 4 \/ code = 5 \/ code = 9) /\ n <> 4%nat) \/
     (code = 6 /\ n <> 0%nat) \/
     (code = 7 /\ n <> (as_octets (v_asn4 var) + 4)%nat) \/
     (code = 3 /\ Nat.modulo n 4 <> 0%nat))
  end.
