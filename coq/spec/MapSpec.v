(** Specification of a route table (Adj-RIB) as a finite map and of "number of table
    changes", written from the text of property C19 only.  Imports nothing from model/.

    A table maps a route key (prefix, flowspec rule, VPN route ...) to the attributes of the
    route.  An UPDATE carries, for one address family, a list of withdrawn keys and a list of
    announced keys that all get the attributes of the message.  Applying it = removing the
    withdrawn keys, then binding every announced key to the attributes (last binding wins).
    A table change is: a new route, a route whose attributes change, or the removal of a
    route that is present.  Nothing else is a change. *)
From Coq Require Import List NArith Bool.
Import ListNotations.
Open Scope N_scope.

Section MapSpec.
  Variables K V : Type.
  Variable keqb : K -> K -> bool.     (* decidable equality of keys *)
  Variable veqb : V -> V -> bool.     (* decidable equality of attribute values *)

  (** finite map: association list, the first binding of a key is the valid one *)
  Definition map := list (K * V).
  Definition empty : map := [].

  Fixpoint lookup (k : K) (m : map) : option V :=
    match m with
    | [] => None
    | (k', v) :: r => if keqb k k' then Some v else lookup k r
    end.

  Definition insert (k : K) (v : V) (m : map) : map := (k, v) :: m.
  Definition remove (k : K) (m : map) : map :=
    filter (fun kv => negb (keqb k (fst kv))) m.

  (** two tables are the same table when every key has the same binding *)
  Definition map_eq (m1 m2 : map) : Prop := forall k, lookup k m1 = lookup k m2.

  (** elementary operations *)
  Inductive op : Type :=
  | Withdraw (k : K)
  | Announce (k : K) (v : V).

  Definition apply_op (m : map) (o : op) : map :=
    match o with
    | Withdraw k => remove k m
    | Announce k v => insert k v m
    end.

  (** does this operation change the table? *)
  Definition is_change (m : map) (o : op) : bool :=
    match o with
    | Withdraw k => match lookup k m with Some _ => true | None => false end
    | Announce k v => match lookup k m with
                      | None => true                    (* new route *)
                      | Some v' => negb (veqb v v')     (* changed attributes *)
                      end
    end.

  Definition apply_ops (m : map) (ops : list op) : map := fold_left apply_op ops m.

  Fixpoint changes_ops (m : map) (ops : list op) : N :=
    match ops with
    | [] => 0
    | o :: r => (if is_change m o then 1 else 0) + changes_ops (apply_op m o) r
    end.

  (** one UPDATE for one family: withdrawals first, then the announcements, in message order *)
  Definition update_ops (wd ann : list K) (v : V) : list op :=
    List.map Withdraw wd ++ List.map (fun k => Announce k v) ann.

  Definition apply_update (m : map) (wd ann : list K) (v : V) : map :=
    apply_ops m (update_ops wd ann v).
  Definition changes (m : map) (wd ann : list K) (v : V) : N :=
    changes_ops m (update_ops wd ann v).

  (** a sequence of UPDATEs (each given as its list of elementary operations): final table and
      total number of changes *)
  Definition apply_run (m : map) (us : list (list op)) : map := fold_left apply_ops us m.
  Fixpoint changes_run (m : map) (us : list (list op)) : N :=
    match us with
    | [] => 0
    | u :: r => changes_ops m u + changes_run (apply_ops m u) r
    end.
End MapSpec.

Arguments lookup {K V} keqb k m.
Arguments insert {K V} k v m.
Arguments remove {K V} keqb k m.
Arguments map_eq {K V} keqb m1 m2.
Arguments Withdraw {K V} k.
Arguments Announce {K V} k v.
Arguments apply_op {K V} keqb m o.
Arguments is_change {K V} keqb veqb m o.
Arguments apply_ops {K V} keqb m ops.
Arguments changes_ops {K V} keqb veqb m ops.
Arguments update_ops {K V} wd ann v.
Arguments apply_update {K V} keqb m wd ann v.
Arguments changes {K V} keqb veqb m wd ann v.
Arguments apply_run {K V} keqb m us.
Arguments changes_run {K V} keqb veqb m us.
Arguments empty {K V}.
