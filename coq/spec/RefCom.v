(** Reference octets of BGP communities, written from the RFCs only (imports nothing from
    model/).

    - COMMUNITIES, RFC 1997: 4 octets, big-endian.
    - LARGE COMMUNITIES, RFC 8092: Global Administrator, Local Data 1, Local Data 2, 4 octets each.
    - EXTENDED COMMUNITIES, RFC 4360: 8 octets = type (high octet), sub-type, 6 value octets.
        two-octet-AS specific (type 0x00/0x40): AS(2) local(4);   RFC 4360 3.1
        IPv4-address specific (type 0x01): address(4) local(2);   RFC 4360 3.2
        four-octet-AS specific (type 0x02): AS(4) local(2);       RFC 5668 2
        sub-type 0x02 route target (RFC 4360 4), 0x03 route origin (RFC 4360 5)
        opaque (type 0x03): color 0x0b = reserved(2)=0 color(4); encapsulation 0x0c = reserved(4)=0
          tunnel type(2);                                          RFC 5512 4.3, 4.5
        flow specification actions (type 0x80), RFC 5575 7: 0x06 traffic-rate = AS(2) + IEEE 754
          binary32 bytes/second; 0x07 traffic-action = 6 octets, bit 47 (least significant) terminal
          action, bit 46 sample; 0x08 redirect = a 6-octet route target (two-octet-AS form here);
          0x09 traffic-marking = 5 zero octets + DSCP (6 bits)
        EVPN (type 0x06), RFC 7432 7.5-7.7: 0x00 MAC mobility = flags(1) reserved(1)=0 sequence(4);
          0x01 ESI label = flags(1) reserved(2)=0 label(3) with the 20-bit label in the high-order
          bits, written here as a bottom-of-stack label stack entry (low nibble 0001, RFC 3032);
          0x02 ES-import = MAC(6); 0x03 router's MAC = MAC(6) (RFC 9135)
        link bandwidth: non-transitive two-octet-AS specific 0x40 sub-type 0x04, AS(2) + 4 value
          octets (draft-ietf-idr-link-bandwidth; the value octets are taken as an opaque 32-bit field)
        redirect-to-nexthop 0x08 0x00: no RFC; yabgp's documented layout IPv4(4) + copy flag(2). *)
From YV Require Import lib.Base.
Open Scope N_scope.

Inductive ecval :=
| RtAs2 (asn an : N) | RtIp4 (ip an : N) | RtAs4 (asn an : N)
| RoAs2 (asn an : N) | RoIp4 (ip an : N) | RoAs4 (asn an : N)
| Color (c : N) | Encap (tunnel : N)
| RedirectVrf (asn an : N) | RedirectNh (ip copy : N)
| TrafficRate (asn rate : N)              (* rate: a whole number of bytes per second *)
| TrafficAction (sample terminal : bool)
| TrafficMarking (dscp : N)
| DmzLinkBw (asn bw : N)
| EsiLabel (flags label : N) | MacMobility (flags seq : N)
| EsImport (mac : N) | RouterMac (mac : N).

Definition p16 : N := 65536.
Definition p32 : N := 4294967296.
Definition p48 : N := 281474976710656.

(** field ranges *)
Definition wf_ec (v : ecval) : Prop :=
  match v with
  | RtAs2 a n | RoAs2 a n | RedirectVrf a n | DmzLinkBw a n => a < p16 /\ n < p32
  | RtIp4 a n | RoIp4 a n | RedirectNh a n => a < p32 /\ n < p16
  | RtAs4 a n | RoAs4 a n => a < p32 /\ n < p16
  | Color c => c < p32
  | Encap t => t < p16
  | TrafficRate a r => a < p16 /\ r < 16777216      (* integers every binary32 represents exactly *)
  | TrafficAction _ _ => True
  | TrafficMarking d => d < 64
  | EsiLabel f l => f < 256 /\ l < 1048576
  | MacMobility f s => f < 256 /\ s < p32
  | EsImport m | RouterMac m => m < p48
  end.

(** IEEE 754 binary32 of a whole number below 2^24 (exactly representable): sign 0, biased
    exponent 127 + floor(log2 r), the 23 fraction bits of r / 2^floor(log2 r) *)
Definition binary32_of_nat (r : N) : N :=
  if r =? 0 then 0
  else let e := N.log2 r in (127 + e) * 8388608 + (r * 2 ^ (23 - e) - 8388608).

Definition b2n (b : bool) : N := if b then 1 else 0.

Definition ref_ec (v : ecval) : bytes :=
  match v with
  | RtAs2 a n => [0; 2] ++ be 2 a ++ be 4 n
  | RtIp4 a n => [1; 2] ++ be 4 a ++ be 2 n
  | RtAs4 a n => [2; 2] ++ be 4 a ++ be 2 n
  | RoAs2 a n => [0; 3] ++ be 2 a ++ be 4 n
  | RoIp4 a n => [1; 3] ++ be 4 a ++ be 2 n
  | RoAs4 a n => [2; 3] ++ be 4 a ++ be 2 n
  | Color c => [3; 11] ++ [0; 0] ++ be 4 c
  | Encap t => [3; 12] ++ [0; 0; 0; 0] ++ be 2 t
  | RedirectVrf a n => [128; 8] ++ be 2 a ++ be 4 n
  | RedirectNh a c => [8; 0] ++ be 4 a ++ be 2 c
  | TrafficRate a r => [128; 6] ++ be 2 a ++ be 4 (binary32_of_nat r)
  | TrafficAction s t => [128; 7] ++ [0; 0; 0; 0; 0; 2 * b2n s + b2n t]
  | TrafficMarking d => [128; 9] ++ [0; 0; 0; 0; 0; d]
  | DmzLinkBw a b => [64; 4] ++ be 2 a ++ be 4 b
  | EsiLabel f l => [6; 1] ++ [f; 0; 0] ++ be 3 (l * 16 + 1)
  | MacMobility f s => [6; 0] ++ [f; 0] ++ be 4 s
  | EsImport m => [6; 2] ++ be 6 m
  | RouterMac m => [6; 3] ++ be 6 m
  end.

(** path attribute type codes: RFC 1997 (8), RFC 4360 (16), RFC 8092 (32) *)
Definition attr_communities : N := 8.
Definition attr_ext_communities : N := 16.
Definition attr_large_communities : N := 32.

Definition ref_community (v : N) : bytes := be 4 v.
Definition ref_large (ga l1 l2 : N) : bytes := be 4 ga ++ be 4 l1 ++ be 4 l2.

(** well-known communities whose registered name yabgp uses verbatim (IANA "BGP Well-known
    Communities": RFC 1997, 3765, 7611, 7999, draft-l3vpn-legacy-rtc); 0xFFFF0000 is registered as
    GRACEFUL_SHUTDOWN (RFC 8326) and named PLANNED_SHUT by yabgp, so it is not listed here *)
Definition rfc_well_known : list (N * list N) :=
  [ (4294901761, [65; 67; 67; 69; 80; 84; 95; 79; 87; 78]);                       (* ACCEPT_OWN *)
    (4294901762, [82; 79; 85; 84; 69; 95; 70; 73; 76; 84; 69; 82; 95; 84; 82; 65; 78; 83; 76; 65; 84; 69; 68; 95; 118; 52]);
    (4294901763, [82; 79; 85; 84; 69; 95; 70; 73; 76; 84; 69; 82; 95; 118; 52]);   (* ROUTE_FILTER_v4 *)
    (4294901764, [82; 79; 85; 84; 69; 95; 70; 73; 76; 84; 69; 82; 95; 84; 82; 65; 78; 83; 76; 65; 84; 69; 68; 95; 118; 54]);
    (4294901765, [82; 79; 85; 84; 69; 95; 70; 73; 76; 84; 69; 82; 95; 118; 54]);   (* ROUTE_FILTER_v6 *)
    (4294902426, [66; 76; 65; 67; 75; 72; 79; 76; 69]);                            (* BLACKHOLE *)
    (4294967041, [78; 79; 95; 69; 88; 80; 79; 82; 84]);                            (* NO_EXPORT *)
    (4294967042, [78; 79; 95; 65; 68; 86; 69; 82; 84; 73; 83; 69]);                (* NO_ADVERTISE *)
    (4294967043, [78; 79; 95; 69; 88; 80; 79; 82; 84; 95; 83; 85; 66; 67; 79; 78; 70; 69; 68]);
    (4294967044, [78; 79; 80; 69; 69; 82]) ].                                      (* NOPEER *)
