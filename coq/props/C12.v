(** C12 — At most one TCP connection or connection attempt to the peer at any time. *)
From YV Require Import lib.Base model.YWorld model.YProto gen.Consts gen.FsmGen model.YFraming
  model.YSession proof.SessionC12.

Definition live (k : conn) : bool :=
  match c_st k with
  | CConnecting => true
  | CConnected => negb (c_closing k)      (* open and not yet aborted by the agent *)
  | _ => false
  end.
Definition live_count (w : world) : nat := length (filter live (w_conns w)).

(** the property at full strength *)
Definition C12_at_most_one_statement : Prop :=
  forall (D : decoders) cf capl es, (live_count (run D (world0 cf capl) es) <= 1)%nat.

Definition D0 : decoders := mkDec (fun _ => OpExc) (fun _ _ => UpExc).
Definition cf0 : cfg := mkCfg 65001 65002 180 60 30 30 10 false 167772161.

(** REFUTED (known finding C12-retry-while-connecting): the connector is never stored, so when
    the connect-retry timer fires while an attempt is still pending a second connectTCP is
    issued and nothing aborts the first; both can succeed: two open connections. *)
Theorem C12_refuted_retry_while_connecting :
  exists es, live_count (run D0 (world0 cf0 []) es) = 2%nat /\
             forallb (fun e => match e with EManualStop | EManualStart => false | _ => true end) es = true.
Proof. exists [EBoot; EFire TConnectRetry; EConnOk 0; EConnOk 1]. vm_compute. split; reflexivity. Qed.
Print Assumptions C12_refuted_retry_while_connecting.

(** ... and the OPEN is written on both, the second overwriting what the FSM tracks *)
Example C12_refuted_outputs :
  map (fun o => match o with OWrite c (WOpen _ _ _ _) => Some c | _ => None end)
      (run_outs D0 (world0 cf0 []) [EBoot; EFire TConnectRetry; EConnOk 0; EConnOk 1])
  = [None; None; Some 0%nat; None; Some 1%nat; None].
Proof. vm_compute. reflexivity. Qed.

(** PROVED, every decoder behaviour, every world, every event: each message written during a
    step went to the connection the state machine tracks when the step ends (second clause of
    the property: "every message it sends goes to the connection its state machine is tracking") *)
Theorem C12_writes_to_tracked : forall (D : decoders) (e : event) (w : world) c m,
  In (OWrite c m) (w_out (step D w e)) -> w_proto (step D w e) = Some c.
Proof. intros D e w. exact (writes_to_tracked D e w). Qed.
Print Assumptions C12_writes_to_tracked.
