(** C12 — At most one TCP connection or connection attempt to the peer at any time. *)
From YV Require Import lib.Base model.YWorld model.YProto gen.Consts gen.FsmGen model.YFraming
  model.YSession proof.SessionC12 proof.SessionC13 proof.SessionRP proof.SessionSR proof.SessionCD
  proof.SessionSR6 proof.SessionSR7.

Definition live (k : conn) : bool :=    (* = proof.SessionSR.live, see [C12_live_same] *)
  match c_st k with
  | CConnecting => true
  | CConnected => negb (c_closing k)      (* open and not yet aborted by the agent *)
  | _ => false
  end.
Definition live_count (w : world) : nat := length (filter live (w_conns w)).

(** the property at full strength *)
Definition C12_at_most_one_statement : Prop :=
  forall (D : decoders) cf capl es, (live_count (run D (world0 cf capl) es) <= 1)%nat.

Definition D0 : decoders := mkDec (fun _ => OpExc) (fun _ _ => UpExc).
Definition cf0 : cfg := mkCfg 65001 65002 180 60 30 30 10 false 167772161.

(** REFUTED (known finding C12-retry-while-connecting): the connector is never stored, so when
    the connect-retry timer fires while an attempt is still pending a second connectTCP is
    issued and nothing aborts the first; both can succeed: two open connections. *)
Theorem C12_refuted_retry_while_connecting :
  exists es, live_count (run D0 (world0 cf0 []) es) = 2%nat /\
             forallb (fun e => match e with EManualStop | EManualStart => false | _ => true end) es = true.
Proof. exists [EBoot; EFire TConnectRetry; EConnOk 0; EConnOk 1]. vm_compute. split; reflexivity. Qed.
Print Assumptions C12_refuted_retry_while_connecting.

(** ... and the OPEN is written on both, the second overwriting what the FSM tracks *)
Example C12_refuted_outputs :
  map (fun o => match o with OWrite c (WOpen _ _ _ _) => Some c | _ => None end)
      (run_outs D0 (world0 cf0 []) [EBoot; EFire TConnectRetry; EConnOk 0; EConnOk 1])
  = [None; None; Some 0%nat; None; Some 1%nat; None].
Proof. vm_compute. reflexivity. Qed.

(** PROVED, every decoder behaviour, every world, every event: each message written during a
    step went to the connection the state machine tracks when the step ends (second clause of
    the property: "every message it sends goes to the connection its state machine is tracking") *)
Theorem C12_writes_to_tracked : forall (D : decoders) (e : event) (w : world) c m,
  In (OWrite c m) (w_out (step D w e)) -> w_proto (step D w e) = Some c.
Proof. intros D e w. exact (writes_to_tracked D e w). Qed.
Print Assumptions C12_writes_to_tracked.

(** a second manual way to two attempts (known finding C12-start-while-connecting) *)
Theorem C12_refuted_start_while_connecting :
  live_count (run D0 (world0 cf0 []) [EBoot; EManualStop; EManualStart]) = 2%nat.
Proof. vm_compute. reflexivity. Qed.
Print Assumptions C12_refuted_start_while_connecting.

Lemma C12_live_same k : live k = SessionSR.live k.
Proof. unfold live, SessionSR.live. destruct (c_st k); reflexivity. Qed.
Print Assumptions C12_live_same.

(** PROVED: these are the ONLY ways.  Along every event sequence after start-up in which the
    connect-retry timer does not expire, and no manual start (or second start-up call) is issued,
    while a connection attempt is pending ([guarded_run]: exactly the triggers of the known findings
    C12-retry-while-connecting and C12-start-while-connecting) — whatever else happens: any
    bytes, any order of connection results and losses, any timer order, manual stops, late
    completion of a close, API sends, every decoder behaviour — at most one connection is live
    (an attempt in flight, or connected and not being closed by the agent); and every
    connection that is open and not being closed is the one the state machine tracks, in a session
    state (so none is "left open and unreferenced").  The invariant [SR] fixes, per FSM state,
    which connection may be live: session states — the tracked one; Connect — the newest one, still
    connecting; Idle — only the newest, still connecting, after an operator stop that did not abort
    it (then no timer is pending); together with [RP] (C02), "closing = disconnected" on every
    connection record, timer well-formedness, "no hold/keepalive timer outside a session".  Every
    generated FSM method, callback, the framing loop (induction on fuel) and every driver event
    preserve it.  (Proving it found three defects of the code, repaired: 0a14c4f, bdf7c18, 771df94.) *)
Theorem C12_at_most_one_outside_known_findings : forall (D : decoders) cf capl es,
  guarded_run D (step D (world0 cf capl) EBoot) es ->
  let w := run D (world0 cf capl) (EBoot :: es) in
  (live_count w <= 1)%nat /\
  (forall i k, nth_error (w_conns w) i = Some k -> c_st k = CConnected -> c_closing k = false ->
     w_proto w = Some i).
Proof.
  intros D cf capl es Hg w.
  destruct (single_connection D cf capl es Hg) as (_ & Hu & Ht). fold w in Hu, Ht.
  split.
  - unfold live_count.
    apply filter_le1. intros i j ki kj Ei Ej Li Lj. rewrite C12_live_same in Li, Lj. eapply Hu; eauto.
  - intros i k Ei Hc Hcl. apply (Ht i k Ei Hc Hcl).
Qed.
Print Assumptions C12_at_most_one_outside_known_findings.

(** non-vacuity: a guarded run with a full session, an error, the late completion of the close
    after the next attempt has started, and a second session *)
Example C12_guarded_run_example :
  let es := [EConnOk 0; EData 0 (repeat 255 16 ++ [0; 29; 1; 4; 0; 0; 0; 90; 10; 0; 0; 2; 0]);
             EData 0 (repeat 255 16 ++ [0; 19; 4]); EData 0 (repeat 0 16 ++ [0; 19; 4]);
             EFire TIdleHold; ELost 0; EConnOk 1] in
  let Dk := mkDec (fun _ => OpOk 65002 90 []) (fun _ _ => UpOk) in
  guarded_run Dk (step Dk (world0 cf0 []) EBoot) es /\
  w_state (run Dk (world0 cf0 []) (EBoot :: es)) = StOpenSent /\
  live_count (run Dk (world0 cf0 []) (EBoot :: es)) = 1%nat.
Proof. vm_compute. repeat split; intros i k; destruct i as [|[|[|i]]]; cbn; intros; congruence. Qed.
