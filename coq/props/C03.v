(** C03 — Hold and keepalive timers keep exactly the negotiated contract.
    Time is in thirds of a second ([secs H] = 3*H thirds; H/3 seconds = H thirds).  All
    statements are for ARBITRARY hold times (configured and proposed), not sampled values. *)
From YV Require Import lib.Base model.YWorld model.YProto gen.Consts gen.FsmGen model.YFraming
  model.YSession proof.SessionFraming proof.SessionC03 proof.SessionC03b.

(** negotiation: session hold time = min(own, proposed), keepalive period = hold/3 *)
Theorem C03_negotiated_min : forall h w, let w' := negotiate_hold_time h w in
  (h = 0 \/ 3 <= h) -> (N.min (w_hold w) h = 0 \/ 3 <= N.min (w_hold w) h) ->
  w_hold w' = N.min (w_hold w) h /\ w_ka3 w' = N.min (w_hold w) h /\ w_out w' = w_out w /\ w_state w' = w_state w.
Proof. exact negotiate_min. Qed.
Print Assumptions C03_negotiated_min.

(** entering OpenConfirm (the peer's OPEN accepted, hold = H): KEEPALIVE sent; H > 0: keepalive
    timer at now + H/3 and hold timer at now + H; H = 0: NEITHER timer runs — so silence never
    ends the session and no periodic KEEPALIVE is sent (no timer can fire) *)
Theorem C03_open_received : forall c w, Good c w -> w_state w = StOpenSent -> w_out w = [] ->
  let w' := F_open_received w in
  w_state w' = StOpenConfirm /\ w_out w' = [OWrite c WKeepalive] /\
  t_dl (w_tka w') = (if w_hold w =? 0 then None else Some (w_now w + w_ka3 w)) /\
  t_dl (w_th w') = (if w_hold w =? 0 then None else Some (w_now w + secs (w_hold w))).
Proof. exact open_received_opensent. Qed.
Print Assumptions C03_open_received.

(** periodic KEEPALIVE: when the keepalive timer expires in OpenConfirm/Established with H > 0,
    exactly one KEEPALIVE is written and the timer is re-armed one period (H/3) later *)
Theorem C03_keepalive_period : forall c w,
  Good c w -> in_session (w_state w) -> w_hold w <> 0 -> w_out w = [] ->
  let w' := F_keep_alive_time_event w in
  w_out w' = [OWrite c WKeepalive] /\
  t_dl (w_tka w') = Some (w_now w + w_ka3 w) /\
  w_state w' = w_state w /\ t_dl (w_th w') = t_dl (w_th w).
Proof. exact keepalive_fire. Qed.
Print Assumptions C03_keepalive_period.

(** an arriving KEEPALIVE / UPDATE in Established restarts the hold timer from that instant
    (H > 0) and touches nothing else; with H = 0 nothing is (re)started *)
Theorem C03_keepalive_arrival : forall w, w_state w = StEstablished ->
  let w' := F_keep_alive_received w in
  w_state w' = StEstablished /\ w_out w' = w_out w /\ t_dl (w_tka w') = t_dl (w_tka w) /\
  t_dl (w_th w') = (if w_hold w =? 0 then t_dl (w_th w) else Some (w_now w + secs (w_hold w))).
Proof. exact keepalive_arrival_est. Qed.
Print Assumptions C03_keepalive_arrival.
Theorem C03_update_arrival : forall w, w_state w = StEstablished ->
  let w' := F_update_received w in
  w_state w' = StEstablished /\ w_out w' = w_out w /\ t_dl (w_tka w') = t_dl (w_tka w) /\
  t_dl (w_th w') = (if w_hold w =? 0 then t_dl (w_th w) else Some (w_now w + secs (w_hold w))).
Proof. exact update_arrival_est. Qed.
Print Assumptions C03_update_arrival.

(** expiry: when the hold timer fires (its deadline is the only instant at which it can: time
    cannot skip a pending timer) NOTIFICATION Hold Timer Expired (4,0) is written, the
    connection closed, state Idle with the restart timer armed *)
Theorem C03_hold_expiry : forall c w, Good c w ->
  (w_state w = StOpenSent \/ w_state w = StOpenConfirm \/ w_state w = StEstablished) ->
  c_closing (get_conn c w) = false -> w_out w = [] ->
  let w' := F_hold_time_event w in
  w_out w' = [OLose c; OWrite c (WNotif c_ERR_HOLD_TIMER_EXPIRED 0 [])] /\
  w_state w' = StIdle /\
  t_dl (w_tih w') = Some (w_now w + secs (cf_idle_hold (w_cfg w))) /\
  t_dl (w_th w') = None /\ t_dl (w_tka w') = None.
Proof. exact hold_fire. Qed.
Print Assumptions C03_hold_expiry.

(** while waiting for the peer's OPEN the limit is the fixed large hold time (4 minutes), and
    every connection starts from the CONFIGURED hold time *)
Theorem C03_opensent_large_hold : forall c w, conn_st_is c CConnecting w = true -> w_out w = [] ->
  let w' := conn_made c w in
  w_state w' = StOpenSent /\ t_dl (w_th w') = Some (w_now w + secs c_FSM_large_hold_time) /\
  w_hold w' = cf_hold (w_cfg w) /\ t_dl (w_tcr w') = None.
Proof. exact opensent_large_hold. Qed.
Print Assumptions C03_opensent_large_hold.
Example C03_large_hold_is_240s : c_FSM_large_hold_time = 240. Proof. reflexivity. Qed.

(** whole sessions: for every decoder behaviour, every H > 0 and EVERY sequence (any length,
    any order) of peer KEEPALIVE arrivals, own keepalive-timer expiries, REST sends and passing
    time, the session stays Established on the same connection and outputs nothing but its own
    KEEPALIVEs, the reports of the arrivals and the REST messages (in particular no
    NOTIFICATION and no close) ... *)
Theorem C03_alive_while_fed : forall (D : decoders) c H es w,
  EstInv c H w -> forallb (fed_event c) es = true ->
  EstInv c H (run D w es) /\ Forall (fed_out c) (run_outs D w es).
Proof. exact alive_while_fed. Qed.
Print Assumptions C03_alive_while_fed.

(** ... and after each arrival the hold deadline is exactly H seconds after it — which, with
    C03_hold_expiry and the fact that only arrivals move that deadline (the theorems above),
    is "expires when nothing arrived for H seconds, at that moment, and not earlier" *)
Theorem C03_hold_deadline_after_arrival : forall (D : decoders) c H w,
  EstInv c H w -> enabled w (EData c ka_frame) = true ->
  t_dl (w_th (step D w (EData c ka_frame))) = Some (w_now w + secs H).
Proof. exact hold_deadline_after_arrival. Qed.
Print Assumptions C03_hold_deadline_after_arrival.
