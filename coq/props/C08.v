(** C08 — every message the agent constructs is structurally valid, otherwise construction fails.

    "Structurally valid" is [valid_msg_with c m] of spec/Walker.v, an executable walker written
    from the RFCs only ([c] = what the octets cannot show: 4-octet AS numbers, add-path, whether
    the pre-standard route-refresh type 128 was negotiated; [valid_msg] = [valid_msg_with cfg0]).

    This file:
      1. what validity forces on a message (the walker is not vacuously permissive) + rejected
         near-misses (one length octet off) as Examples;
      2. validity of everything the modelled constructors return [Ok]:
         NOTIFICATION, KEEPALIVE, ROUTE-REFRESH (model/YMsg.v), IPv4 prefix lists with and
         without add-path (model/YPrefix4.v), and ten of the standard attributes one at a time
         (model/YAttr.v: ORIGIN, AS_PATH, NEXT_HOP, MED, LOCAL_PREF, ATOMIC_AGGREGATE, AGGREGATOR,
         COMMUNITIES, ORIGINATOR_ID, CLUSTER_LIST).
    NOT proved here (checked by running this same walker on the implementation's real output,
    harness/props/c08.py): OPEN (model/YOpen.v exists), EXTENDED / LARGE COMMUNITIES, the
    assembly of several attributes and sections into one UPDATE (model/YUpdate.v), and every
    constructor without a model (MP families, tunnel encapsulation, SR-TE, PMSI, IPv6 flowspec). *)
From YV Require Import lib.Base gen.Consts spec.Walker model.YMsg model.YPrefix4 model.YAttr proof.WalkerProofs.

(* ------------------------------------------------------------------------------------- *)
(** * 1. the walker means something *)

(** header: all-ones marker, length field = actual size, 19 <= size <= 4096, octets are octets *)
Theorem C08_valid_header : forall c m, valid_msg_with c m = true ->
  wf_bytes m /\
  exists l1 l0 ty body, m = repeat 255 16 ++ l1 :: l0 :: ty :: body /\
                        l1 * 256 + l0 = len m /\ 19 <= len m /\ len m <= 4096.
Proof. exact valid_msg_header. Qed.
Print Assumptions C08_valid_header.

(** the type is one of the RFC types and the body is valid for it *)
Theorem C08_valid_body : forall c m, valid_msg_with c m = true ->
  exists ty body, unheader m = Some (ty, body) /\
    ((ty = 1 /\ valid_open body = true) \/ (ty = 2 /\ valid_update c body = true) \/
     (ty = 3 /\ valid_notification body = true) \/ (ty = 4 /\ body = []) \/
     (ty = 5 /\ len body = 4) \/ (ty = 128 /\ w_cisco_rr c = true /\ len body = 4)).
Proof. exact valid_msg_body. Qed.
Print Assumptions C08_valid_body.

(** UPDATE: withdrawn-routes length + total-path-attribute length + NLRI account for the body *)
Theorem C08_valid_update_sections : forall c body, valid_update c body = true ->
  exists wd attrs nlri w1 w0 a1 a0,
    body = w1 :: w0 :: wd ++ a1 :: a0 :: attrs ++ nlri /\
    w1 * 256 + w0 = len wd /\ a1 * 256 + a0 = len attrs /\
    len body = 4 + len wd + len attrs + len nlri /\
    valid_prefixes4 c wd = true /\ valid_attrs c attrs = true /\ valid_prefixes4 c nlri = true.
Proof. exact valid_update_sum. Qed.
Print Assumptions C08_valid_update_sections.

(** prefixes: each is a length <= 32 followed by exactly ceil(length/8) octets *)
Theorem C08_valid_prefixes : forall b, valid_prefixes4 cfg0 b = true ->
  exists ps, b = enc_prefixes ps /\
             Forall (fun lp => fst lp <= 32 /\ len (snd lp) = ceil8 (fst lp)) ps.
Proof. exact valid_prefixes4_spec. Qed.
Print Assumptions C08_valid_prefixes.

(** attributes: 2-octet length iff the extended-length bit; value of exactly that size; flags
    and value accepted for the type code *)
Theorem C08_valid_attr_framing : forall c b, valid_attrs c b = true -> b <> [] ->
  exists fl ty v rest,
    ((bit 16 fl = false /\ b = fl :: ty :: len v :: v ++ rest) \/
     (bit 16 fl = true /\ exists l1 l0, b = fl :: ty :: l1 :: l0 :: v ++ rest /\ l1 * 256 + l0 = len v)) /\
    flags_ok fl ty = true /\ value_ok c ty v = true.
Proof. exact valid_attrs_head. Qed.
Print Assumptions C08_valid_attr_framing.

(** flags vs. category: well-known = transitive only; optional non-transitive = optional only
    (each possibly with the extended-length bit) *)
Theorem C08_flags_wellknown : forall fl ty, fl < 256 -> In ty [1; 2; 3; 5; 6] ->
  flags_ok fl ty = true -> fl = 64 \/ fl = 80.
Proof. exact flags_ok_wellknown. Qed.
Print Assumptions C08_flags_wellknown.
Theorem C08_flags_optional_nontransitive : forall fl ty, fl < 256 -> In ty [4; 9; 10; 14; 15] ->
  flags_ok fl ty = true -> fl = 128 \/ fl = 144.
Proof. exact flags_ok_optnontrans. Qed.
Print Assumptions C08_flags_optional_nontransitive.

Definition mk16 : bytes := repeat 255 16.
(** accepted *)
Example C08_ex_update_ok :
  valid_msg (mk16 ++ [0; 50; 2; 0; 3; 16; 10; 1; 0; 20;
                      64; 1; 1; 0; 64; 2; 6; 2; 2; 253; 233; 253; 234; 64; 3; 4; 10; 0; 0; 1;
                      23; 10; 9; 8]) = true.
Proof. vm_compute. reflexivity. Qed.
(** rejected: header length one more than the size *)
Example C08_ex_header_length_off :
  valid_msg (mk16 ++ [0; 20; 4]) = false /\ valid_msg (mk16 ++ [0; 19; 4]) = true.
Proof. vm_compute. auto. Qed.
(** rejected: total path attribute length one short (the last attribute octet becomes NLRI) *)
Example C08_ex_attr_total_off :
  valid_msg (mk16 ++ [0; 50; 2; 0; 3; 16; 10; 1; 0; 19;
                      64; 1; 1; 0; 64; 2; 6; 2; 2; 253; 233; 253; 234; 64; 3; 4; 10; 0; 0; 1;
                      23; 10; 9; 8]) = false.
Proof. vm_compute. reflexivity. Qed.
(** rejected: a /23 with two octets instead of three; a /0 followed by a stray octet *)
Example C08_ex_prefix_octets :
  valid_msg (mk16 ++ [0; 26; 2; 0; 3; 23; 10; 9; 0; 0]) = false /\
  valid_msg (mk16 ++ [0; 27; 2; 0; 4; 23; 10; 9; 8; 0; 0]) = true /\
  valid_msg (mk16 ++ [0; 25; 2; 0; 2; 0; 0; 0; 0]) = true /\       (* two /0 routes: framing is fine *)
  valid_msg (mk16 ++ [0; 26; 2; 0; 3; 0; 0; 8; 0; 0]) = false.     (* /0, stray 0, then "/8" without its octet *)
Proof. vm_compute. auto. Qed.
(** rejected: ORIGIN with the optional bit, ORIGIN with the extended bit but one length octet,
    AS_PATH whose segment count is one too large, MED with the transitive bit *)
Example C08_ex_attr_flags_and_lengths :
  valid_attrs cfg0 [64; 1; 1; 0] = true /\ valid_attrs cfg0 [192; 1; 1; 0] = false /\
  valid_attrs cfg0 [80; 1; 1; 0] = false /\ valid_attrs cfg0 [80; 1; 0; 1; 0] = true /\
  valid_attrs cfg0 [64; 2; 6; 2; 2; 253; 233; 253; 234] = true /\
  valid_attrs cfg0 [64; 2; 6; 2; 3; 253; 233; 253; 234] = false /\
  valid_attrs cfg0 [128; 4; 4; 0; 0; 0; 50] = true /\ valid_attrs cfg0 [192; 4; 4; 0; 0; 0; 50] = false /\
  valid_attrs cfg0 [64; 1; 1; 0; 64; 1; 1; 0] = false.
Proof. vm_compute. repeat split. Qed.
(** rejected: OPEN whose optional-parameter length, parameter length or capability length is off *)
Example C08_ex_open :
  valid_msg (mk16 ++ [0; 37; 1; 4; 253; 233; 0; 180; 10; 0; 0; 1; 8; 2; 6; 1; 4; 0; 1; 0; 1]) = true /\
  valid_msg (mk16 ++ [0; 37; 1; 4; 253; 233; 0; 180; 10; 0; 0; 1; 7; 2; 6; 1; 4; 0; 1; 0; 1]) = false /\
  valid_msg (mk16 ++ [0; 37; 1; 4; 253; 233; 0; 180; 10; 0; 0; 1; 8; 2; 5; 1; 4; 0; 1; 0; 1]) = false /\
  valid_msg (mk16 ++ [0; 37; 1; 4; 253; 233; 0; 180; 10; 0; 0; 1; 8; 2; 6; 1; 3; 0; 1; 0; 1]) = false.
Proof. vm_compute. auto. Qed.
(** tunnel encapsulation: sub-TLV 129 (policy name) needs a 2-octet length, sub-TLV 12 a 1-octet one *)
Example C08_ex_tunnel_subtlv_width :
  valid_tunnel_encaps [0; 15; 0; 8; 129; 0; 5; 0; 116; 101; 115; 116] = true /\
  valid_tunnel_encaps [0; 15; 0; 7; 129; 5; 0; 116; 101; 115; 116] = false /\
  valid_tunnel_encaps [0; 15; 0; 8; 12; 6; 0; 0; 0; 0; 0; 100] = true /\
  valid_tunnel_encaps [0; 15; 0; 9; 12; 0; 6; 0; 0; 0; 0; 0; 100] = false.
Proof. vm_compute. auto. Qed.

(* ------------------------------------------------------------------------------------- *)
(** * 2. the modelled constructors *)

Theorem C08_keepalive_valid : valid_msg keepalive_construct = true.
Proof. exact keepalive_valid. Qed.
Print Assumptions C08_keepalive_valid.

(** Full statement (false: known finding C08-oversize, see [C08_notification_refuted]). *)
Definition C08_notification_valid_statement : Prop := forall e s d b,
  wf_bytes d -> notification_construct e s d = Ok b -> valid_msg b = true.
(** proved under the exact guard: the message fits the 4096-octet maximum.  [wf_bytes d] is the
    type invariant of a Python bytes object, not a restriction. *)
Theorem C08_notification_valid_partial : forall e s d b,
  wf_bytes d -> len d + 21 <= 4096 ->
  notification_construct e s d = Ok b -> valid_msg b = true.
Proof. exact notification_valid. Qed.
Print Assumptions C08_notification_valid_partial.
Theorem C08_notification_refuted :
  exists e s d b, wf_bytes d /\ notification_construct e s d = Ok b /\ valid_msg b = false.
Proof. exact notification_oversize. Qed.
Print Assumptions C08_notification_refuted.
Example C08_notification_nonvacuous :
  notification_construct 6 2 [1; 2; 3] = Ok (marker16 ++ [0; 24; 3; 6; 2; 1; 2; 3]) /\
  valid_msg (marker16 ++ [0; 24; 3; 6; 2; 1; 2; 3]) = true.
Proof. vm_compute. auto. Qed.

(** ROUTE-REFRESH: type 5 always; type 128 in a session that negotiated the Cisco capability *)
Theorem C08_route_refresh_valid : forall ty afi r safi b,
  rr_construct ty afi r safi = Ok b ->
  (ty = 5 -> valid_msg b = true) /\
  (ty = 128 -> valid_msg_with (mkw false false true) b = true).
Proof. exact rr_valid. Qed.
Print Assumptions C08_route_refresh_valid.
Example C08_rr_nonvacuous : rr_construct 5 2 0 128 = Ok (marker16 ++ [0; 23; 5; 0; 2; 0; 128]).
Proof. vm_compute. reflexivity. Qed.

(* ------------------------------------------------------------------------------------- *)
(** * 3. IPv4 prefix lists and single attributes *)

(** prefixes occupy ceil(len/8) octets (model of the code repaired by c06-prefix-zero-length.diff) *)
Theorem C08_prefix_v4_valid : forall ps b,
  construct_prefix_v4 ps = Ok b -> valid_prefixes4 cfg0 b = true.
Proof. exact construct_prefix_v4_valid. Qed.
Print Assumptions C08_prefix_v4_valid.
Theorem C08_prefix_v4_addpath_valid : forall ps b,
  construct_prefix_v4_ap ps = Ok b -> valid_prefixes4 (mkw false true false) b = true.
Proof. exact construct_prefix_v4_ap_valid. Qed.
Print Assumptions C08_prefix_v4_addpath_valid.
Example C08_prefix_nonvacuous :
  construct_prefix_v4 [(167772160, 8); (0, 0); (3232235776, 23)] = Ok [8; 10; 0; 23; 192; 168; 1].
Proof. vm_compute. reflexivity. Qed.

(** the attribute classes' FLAG constants (gen/Consts.v, regenerated from yabgp on every run)
    fit the RFC category of their type code; the length octet equals the value that follows *)
Theorem C08_origin_valid : forall c v b, construct_origin v = Ok b -> valid_attrs c b = true.
Proof. exact construct_origin_valid. Qed.
Print Assumptions C08_origin_valid.
Theorem C08_nexthop_valid : forall c a b, construct_nexthop a = Ok b -> valid_attrs c b = true.
Proof. exact construct_nexthop_valid. Qed.
Print Assumptions C08_nexthop_valid.
Theorem C08_med_valid : forall c v b, construct_med v = Ok b -> valid_attrs c b = true.
Proof. exact construct_med_valid. Qed.
Print Assumptions C08_med_valid.
Theorem C08_localpref_valid : forall c v b, construct_localpref v = Ok b -> valid_attrs c b = true.
Proof. exact construct_localpref_valid. Qed.
Print Assumptions C08_localpref_valid.
Theorem C08_atomic_valid : forall c b, construct_atomic = Ok b -> valid_attrs c b = true.
Proof. exact construct_atomic_valid. Qed.
Print Assumptions C08_atomic_valid.
Theorem C08_originator_valid : forall c a b, construct_originator a = Ok b -> valid_attrs c b = true.
Proof. exact construct_originator_valid. Qed.
Print Assumptions C08_originator_valid.
(** AGGREGATOR: 6 or 8 octets according to the same 4-octet-AS flag the walker is given *)
Theorem C08_aggregator_valid : forall asn4 ap cr asn a b,
  construct_aggregator asn4 asn a = Ok b -> valid_attrs (mkw asn4 ap cr) b = true.
Proof. exact construct_aggregator_valid. Qed.
Print Assumptions C08_aggregator_valid.
Theorem C08_community_valid : forall c l b, construct_community l = Ok b -> valid_attrs c b = true.
Proof. exact construct_community_valid. Qed.
Print Assumptions C08_community_valid.
Theorem C08_clusterlist_valid : forall c l b, construct_clusterlist l = Ok b -> valid_attrs c b = true.
Proof. exact construct_clusterlist_valid. Qed.
Print Assumptions C08_clusterlist_valid.
Example C08_attr_nonvacuous :
  construct_nexthop 167772161 = Ok [64; 3; 4; 10; 0; 0; 1] /\
  construct_community [CPair 65001 1; CWk 4294967041] = Ok [192; 8; 8; 253; 233; 0; 1; 255; 255; 255; 1].
Proof. vm_compute. auto. Qed.

(** AS_PATH, full strength: every AS_PATH that ASPath.construct returns is structurally valid, in
    the 1-octet and the extended (2-octet, flag bit 16) length forms.  (ASPath.construct now rejects
    a segment type outside 1..4 - fix: reject an undefined AS_PATH segment type when constructing -
    so the former refuted witness [(5, [1])] is a construction error and the guard is gone.) *)
Theorem C08_aspath_valid : forall asn4 ap cr segs b,
  construct_aspath asn4 segs = Ok b -> valid_attrs (mkw asn4 ap cr) b = true.
Proof. exact construct_aspath_valid. Qed.
Print Assumptions C08_aspath_valid.
Example C08_aspath_bad_type_is_error :
  construct_aspath false [(5, [1])] = Err c_ERR_MSG_UPDATE c_ERR_MSG_UPDATE_MALFORMED_ASPATH.
Proof. vm_compute. reflexivity. Qed.
Example C08_aspath_nonvacuous :
  construct_aspath false [(2, [65001; 65002])] = Ok [64; 2; 6; 2; 2; 253; 233; 253; 234] /\
  (exists b, construct_aspath true [(2, repeat 7 64)] = Ok (80 :: 2 :: 1 :: 2 :: b)).
Proof. vm_compute. split; [reflexivity | eexists; reflexivity]. Qed.
