(** C08 — every message the agent constructs is structurally valid, otherwise construction fails.

    "Structurally valid" is [valid_msg_with c m] of spec/Walker.v, an executable walker written
    from the RFCs only ([c] = what the octets cannot show: 4-octet AS numbers, add-path, whether
    the pre-standard route-refresh type 128 was negotiated; [valid_msg] = [valid_msg_with cfg0]).

    This file:
      1. what validity forces on a message (the walker is not vacuously permissive) + rejected
         near-misses (one length octet off) as Examples;
      2. validity of everything the modelled constructors return [Ok], for ALL inputs:
         NOTIFICATION, KEEPALIVE, ROUTE-REFRESH (model/YMsg.v);
      3. IPv4 prefix lists with and without add-path (model/YPrefix4.v) and the twelve standard
         attributes one at a time (model/YAttr.v: ORIGIN, AS_PATH, NEXT_HOP, MED, LOCAL_PREF,
         ATOMIC_AGGREGATE, AGGREGATOR, COMMUNITIES, ORIGINATOR_ID, CLUSTER_LIST, EXTENDED COMMUNITIES,
         LARGE COMMUNITIES);
      4. OPEN (model/YOpen.v): every field value, every capability configuration; every reference
         OPEN of spec/RefOpen.v;
      5. the whole UPDATE (model/YUpdate.v): attribute blocks with different type codes make a valid
         attribute field, valid sections make a valid message iff it fits 4096 octets, and
         Update.construct itself (valid iff not longer than 4096 octets, which it never checks);
      6. MP_REACH_NLRI / MP_UNREACH_NLRI of IPv6 unicast, VPNv4/6, labeled unicast v4/v6, IPv4 flow
         specification (model/YMp.v + YPrefix6 / YVpn / YLu / YFlow4); the one field range the code
         does not enforce (a label stack must not end in label 0) is a boolean guard with a
         refuting witness;
      7. COMMUNITIES / EXTENDED / LARGE COMMUNITIES built from API text (model/YCommunity.v,
         YExtCom.v, YLargeCom.v).
    Helper lemmas: proof/WalkerProofs.v, WalkerOpen.v, WalkerUpdate.v, WalkerMp.v, WalkerFlow.v,
    WalkerCom.v.
    NOT proved here (checked by running this same walker on the implementation's real output,
    harness/props/c08.py): constructors without a model (EVPN, SR-TE policy, IPv6 flow
    specification, tunnel encapsulation, PMSI tunnel), an UPDATE that carries MP attributes next to
    the twelve standard ones (C08_attr_blocks_valid + C08_update_assembly say what is needed, but
    model/YUpdate.v's dispatch has no MP branch), add-path UPDATEs as a whole. *)
From YV Require Import lib.Base gen.Consts spec.Walker spec.RefOpen model.YMsg model.YPrefix4 model.YAttr model.YOpen
  model.YUpdate proof.WalkerProofs proof.WalkerOpen proof.WalkerUpdate.

(* ------------------------------------------------------------------------------------- *)
(** * 1. the walker means something *)

(** header: all-ones marker, length field = actual size, 19 <= size <= 4096, octets are octets *)
Theorem C08_valid_header : forall c m, valid_msg_with c m = true ->
  wf_bytes m /\
  exists l1 l0 ty body, m = repeat 255 16 ++ l1 :: l0 :: ty :: body /\
                        l1 * 256 + l0 = len m /\ 19 <= len m /\ len m <= 4096.
Proof. exact valid_msg_header. Qed.
Print Assumptions C08_valid_header.

(** the type is one of the RFC types and the body is valid for it *)
Theorem C08_valid_body : forall c m, valid_msg_with c m = true ->
  exists ty body, unheader m = Some (ty, body) /\
    ((ty = 1 /\ valid_open body = true) \/ (ty = 2 /\ valid_update c body = true) \/
     (ty = 3 /\ valid_notification body = true) \/ (ty = 4 /\ body = []) \/
     (ty = 5 /\ len body = 4) \/ (ty = 128 /\ w_cisco_rr c = true /\ len body = 4)).
Proof. exact valid_msg_body. Qed.
Print Assumptions C08_valid_body.

(** UPDATE: withdrawn-routes length + total-path-attribute length + NLRI account for the body *)
Theorem C08_valid_update_sections : forall c body, valid_update c body = true ->
  exists wd attrs nlri w1 w0 a1 a0,
    body = w1 :: w0 :: wd ++ a1 :: a0 :: attrs ++ nlri /\
    w1 * 256 + w0 = len wd /\ a1 * 256 + a0 = len attrs /\
    len body = 4 + len wd + len attrs + len nlri /\
    valid_prefixes4 c wd = true /\ valid_attrs c attrs = true /\ valid_prefixes4 c nlri = true.
Proof. exact valid_update_sum. Qed.
Print Assumptions C08_valid_update_sections.

(** prefixes: each is a length <= 32 followed by exactly ceil(length/8) octets *)
Theorem C08_valid_prefixes : forall b, valid_prefixes4 cfg0 b = true ->
  exists ps, b = enc_prefixes ps /\
             Forall (fun lp => fst lp <= 32 /\ len (snd lp) = ceil8 (fst lp)) ps.
Proof. exact valid_prefixes4_spec. Qed.
Print Assumptions C08_valid_prefixes.

(** attributes: 2-octet length iff the extended-length bit; value of exactly that size; flags
    and value accepted for the type code *)
Theorem C08_valid_attr_framing : forall c b, valid_attrs c b = true -> b <> [] ->
  exists fl ty v rest,
    ((bit 16 fl = false /\ b = fl :: ty :: len v :: v ++ rest) \/
     (bit 16 fl = true /\ exists l1 l0, b = fl :: ty :: l1 :: l0 :: v ++ rest /\ l1 * 256 + l0 = len v)) /\
    flags_ok fl ty = true /\ value_ok c ty v = true.
Proof. exact valid_attrs_head. Qed.
Print Assumptions C08_valid_attr_framing.

(** flags vs. category: well-known = transitive only; optional non-transitive = optional only
    (each possibly with the extended-length bit) *)
Theorem C08_flags_wellknown : forall fl ty, fl < 256 -> In ty [1; 2; 3; 5; 6] ->
  flags_ok fl ty = true -> fl = 64 \/ fl = 80.
Proof. exact flags_ok_wellknown. Qed.
Print Assumptions C08_flags_wellknown.
Theorem C08_flags_optional_nontransitive : forall fl ty, fl < 256 -> In ty [4; 9; 10; 14; 15] ->
  flags_ok fl ty = true -> fl = 128 \/ fl = 144.
Proof. exact flags_ok_optnontrans. Qed.
Print Assumptions C08_flags_optional_nontransitive.

Definition mk16 : bytes := repeat 255 16.
(** accepted *)
Example C08_ex_update_ok :
  valid_msg (mk16 ++ [0; 50; 2; 0; 3; 16; 10; 1; 0; 20;
                      64; 1; 1; 0; 64; 2; 6; 2; 2; 253; 233; 253; 234; 64; 3; 4; 10; 0; 0; 1;
                      23; 10; 9; 8]) = true.
Proof. vm_compute. reflexivity. Qed.
(** rejected: header length one more than the size *)
Example C08_ex_header_length_off :
  valid_msg (mk16 ++ [0; 20; 4]) = false /\ valid_msg (mk16 ++ [0; 19; 4]) = true.
Proof. vm_compute. auto. Qed.
(** rejected: total path attribute length one short (the last attribute octet becomes NLRI) *)
Example C08_ex_attr_total_off :
  valid_msg (mk16 ++ [0; 50; 2; 0; 3; 16; 10; 1; 0; 19;
                      64; 1; 1; 0; 64; 2; 6; 2; 2; 253; 233; 253; 234; 64; 3; 4; 10; 0; 0; 1;
                      23; 10; 9; 8]) = false.
Proof. vm_compute. reflexivity. Qed.
(** rejected: a /23 with two octets instead of three; a /0 followed by a stray octet *)
Example C08_ex_prefix_octets :
  valid_msg (mk16 ++ [0; 26; 2; 0; 3; 23; 10; 9; 0; 0]) = false /\
  valid_msg (mk16 ++ [0; 27; 2; 0; 4; 23; 10; 9; 8; 0; 0]) = true /\
  valid_msg (mk16 ++ [0; 25; 2; 0; 2; 0; 0; 0; 0]) = true /\       (* two /0 routes: framing is fine *)
  valid_msg (mk16 ++ [0; 26; 2; 0; 3; 0; 0; 8; 0; 0]) = false.     (* /0, stray 0, then "/8" without its octet *)
Proof. vm_compute. auto. Qed.
(** rejected: ORIGIN with the optional bit, ORIGIN with the extended bit but one length octet,
    AS_PATH whose segment count is one too large, MED with the transitive bit *)
Example C08_ex_attr_flags_and_lengths :
  valid_attrs cfg0 [64; 1; 1; 0] = true /\ valid_attrs cfg0 [192; 1; 1; 0] = false /\
  valid_attrs cfg0 [80; 1; 1; 0] = false /\ valid_attrs cfg0 [80; 1; 0; 1; 0] = true /\
  valid_attrs cfg0 [64; 2; 6; 2; 2; 253; 233; 253; 234] = true /\
  valid_attrs cfg0 [64; 2; 6; 2; 3; 253; 233; 253; 234] = false /\
  valid_attrs cfg0 [128; 4; 4; 0; 0; 0; 50] = true /\ valid_attrs cfg0 [192; 4; 4; 0; 0; 0; 50] = false /\
  valid_attrs cfg0 [64; 1; 1; 0; 64; 1; 1; 0] = false.
Proof. vm_compute. repeat split. Qed.
(** rejected: OPEN whose optional-parameter length, parameter length or capability length is off *)
Example C08_ex_open :
  valid_msg (mk16 ++ [0; 37; 1; 4; 253; 233; 0; 180; 10; 0; 0; 1; 8; 2; 6; 1; 4; 0; 1; 0; 1]) = true /\
  valid_msg (mk16 ++ [0; 37; 1; 4; 253; 233; 0; 180; 10; 0; 0; 1; 7; 2; 6; 1; 4; 0; 1; 0; 1]) = false /\
  valid_msg (mk16 ++ [0; 37; 1; 4; 253; 233; 0; 180; 10; 0; 0; 1; 8; 2; 5; 1; 4; 0; 1; 0; 1]) = false /\
  valid_msg (mk16 ++ [0; 37; 1; 4; 253; 233; 0; 180; 10; 0; 0; 1; 8; 2; 6; 1; 3; 0; 1; 0; 1]) = false.
Proof. vm_compute. auto. Qed.
(** tunnel encapsulation: sub-TLV 129 (policy name) needs a 2-octet length, sub-TLV 12 a 1-octet one *)
Example C08_ex_tunnel_subtlv_width :
  valid_tunnel_encaps [0; 15; 0; 8; 129; 0; 5; 0; 116; 101; 115; 116] = true /\
  valid_tunnel_encaps [0; 15; 0; 7; 129; 5; 0; 116; 101; 115; 116] = false /\
  valid_tunnel_encaps [0; 15; 0; 8; 12; 6; 0; 0; 0; 0; 0; 100] = true /\
  valid_tunnel_encaps [0; 15; 0; 9; 12; 0; 6; 0; 0; 0; 0; 0; 100] = false.
Proof. vm_compute. auto. Qed.

(* ------------------------------------------------------------------------------------- *)
(** * 2. the modelled constructors *)

Theorem C08_keepalive_valid : valid_msg keepalive_construct = true.
Proof. exact keepalive_valid. Qed.
Print Assumptions C08_keepalive_valid.

(** Full statement (false: known finding C08-oversize, see [C08_notification_refuted]). *)
Definition C08_notification_valid_statement : Prop := forall e s d b,
  wf_bytes d -> notification_construct e s d = Ok b -> valid_msg b = true.
(** proved under the exact guard: the message fits the 4096-octet maximum.  [wf_bytes d] is the
    type invariant of a Python bytes object, not a restriction. *)
Theorem C08_notification_valid_partial : forall e s d b,
  wf_bytes d -> len d + 21 <= 4096 ->
  notification_construct e s d = Ok b -> valid_msg b = true.
Proof. exact notification_valid. Qed.
Print Assumptions C08_notification_valid_partial.
Theorem C08_notification_refuted :
  exists e s d b, wf_bytes d /\ notification_construct e s d = Ok b /\ valid_msg b = false.
Proof. exact notification_oversize. Qed.
Print Assumptions C08_notification_refuted.
Example C08_notification_nonvacuous :
  notification_construct 6 2 [1; 2; 3] = Ok (marker16 ++ [0; 24; 3; 6; 2; 1; 2; 3]) /\
  valid_msg (marker16 ++ [0; 24; 3; 6; 2; 1; 2; 3]) = true.
Proof. vm_compute. auto. Qed.

(** ROUTE-REFRESH: type 5 always; type 128 in a session that negotiated the Cisco capability *)
Theorem C08_route_refresh_valid : forall ty afi r safi b,
  rr_construct ty afi r safi = Ok b ->
  (ty = 5 -> valid_msg b = true) /\
  (ty = 128 -> valid_msg_with (mkw false false true) b = true).
Proof. exact rr_valid. Qed.
Print Assumptions C08_route_refresh_valid.
Example C08_rr_nonvacuous : rr_construct 5 2 0 128 = Ok (marker16 ++ [0; 23; 5; 0; 2; 0; 128]).
Proof. vm_compute. reflexivity. Qed.

(* ------------------------------------------------------------------------------------- *)
(** * 3. IPv4 prefix lists and single attributes *)

(** prefixes occupy ceil(len/8) octets (model of the code repaired by c06-prefix-zero-length.diff) *)
Theorem C08_prefix_v4_valid : forall ps b,
  construct_prefix_v4 ps = Ok b -> valid_prefixes4 cfg0 b = true.
Proof. exact construct_prefix_v4_valid. Qed.
Print Assumptions C08_prefix_v4_valid.
Theorem C08_prefix_v4_addpath_valid : forall ps b,
  construct_prefix_v4_ap ps = Ok b -> valid_prefixes4 (mkw false true false) b = true.
Proof. exact construct_prefix_v4_ap_valid. Qed.
Print Assumptions C08_prefix_v4_addpath_valid.
Example C08_prefix_nonvacuous :
  construct_prefix_v4 [(167772160, 8); (0, 0); (3232235776, 23)] = Ok [8; 10; 0; 23; 192; 168; 1].
Proof. vm_compute. reflexivity. Qed.

(** the attribute classes' FLAG constants (gen/Consts.v, regenerated from yabgp on every run)
    fit the RFC category of their type code; the length octet equals the value that follows *)
Theorem C08_origin_valid : forall c v b, construct_origin v = Ok b -> valid_attrs c b = true.
Proof. exact construct_origin_valid. Qed.
Print Assumptions C08_origin_valid.
Theorem C08_nexthop_valid : forall c a b, construct_nexthop a = Ok b -> valid_attrs c b = true.
Proof. exact construct_nexthop_valid. Qed.
Print Assumptions C08_nexthop_valid.
Theorem C08_med_valid : forall c v b, construct_med v = Ok b -> valid_attrs c b = true.
Proof. exact construct_med_valid. Qed.
Print Assumptions C08_med_valid.
Theorem C08_localpref_valid : forall c v b, construct_localpref v = Ok b -> valid_attrs c b = true.
Proof. exact construct_localpref_valid. Qed.
Print Assumptions C08_localpref_valid.
Theorem C08_atomic_valid : forall c b, construct_atomic = Ok b -> valid_attrs c b = true.
Proof. exact construct_atomic_valid. Qed.
Print Assumptions C08_atomic_valid.
Theorem C08_originator_valid : forall c a b, construct_originator a = Ok b -> valid_attrs c b = true.
Proof. exact construct_originator_valid. Qed.
Print Assumptions C08_originator_valid.
(** AGGREGATOR: 6 or 8 octets according to the same 4-octet-AS flag the walker is given *)
Theorem C08_aggregator_valid : forall asn4 ap cr asn a b,
  construct_aggregator asn4 asn a = Ok b -> valid_attrs (mkw asn4 ap cr) b = true.
Proof. exact construct_aggregator_valid. Qed.
Print Assumptions C08_aggregator_valid.
Theorem C08_community_valid : forall c l b, construct_community l = Ok b -> valid_attrs c b = true.
Proof. exact construct_community_valid. Qed.
Print Assumptions C08_community_valid.
Theorem C08_clusterlist_valid : forall c l b, construct_clusterlist l = Ok b -> valid_attrs c b = true.
Proof. exact construct_clusterlist_valid. Qed.
Print Assumptions C08_clusterlist_valid.
Example C08_attr_nonvacuous :
  construct_nexthop 167772161 = Ok [64; 3; 4; 10; 0; 0; 1] /\
  construct_community [CPair 65001 1; CWk 4294967041] = Ok [192; 8; 8; 253; 233; 0; 1; 255; 255; 255; 1].
Proof. vm_compute. auto. Qed.

(** AS_PATH, full strength: every AS_PATH that ASPath.construct returns is structurally valid, in
    the 1-octet and the extended (2-octet, flag bit 16) length forms.  (ASPath.construct now rejects
    a segment type outside 1..4 - fix: reject an undefined AS_PATH segment type when constructing -
    so the former refuted witness [(5, [1])] is a construction error and the guard is gone.) *)
Theorem C08_aspath_valid : forall asn4 ap cr segs b,
  construct_aspath asn4 segs = Ok b -> valid_attrs (mkw asn4 ap cr) b = true.
Proof. exact construct_aspath_valid. Qed.
Print Assumptions C08_aspath_valid.
Example C08_aspath_bad_type_is_error :
  construct_aspath false [(5, [1])] = Err c_ERR_MSG_UPDATE c_ERR_MSG_UPDATE_MALFORMED_ASPATH.
Proof. vm_compute. reflexivity. Qed.
Example C08_aspath_nonvacuous :
  construct_aspath false [(2, [65001; 65002])] = Ok [64; 2; 6; 2; 2; 253; 233; 253; 234] /\
  (exists b, construct_aspath true [(2, repeat 7 64)] = Ok (80 :: 2 :: 1 :: 2 :: b)).
Proof. vm_compute. split; [reflexivity | eexists; reflexivity]. Qed.

(** EXTENDED COMMUNITIES (8 octets each, not empty) and LARGE COMMUNITIES (a non-zero multiple of 12) *)
Theorem C08_ext_large_community_valid : forall c,
  (forall l b, construct_extcommunity l = Ok b -> valid_attrs c b = true) /\
  (forall l b, construct_largecommunity l = Ok b -> valid_attrs c b = true).
Proof. exact ext_large_valid. Qed.
Print Assumptions C08_ext_large_community_valid.
Example C08_ext_large_nonvacuous :
  construct_extcommunity [(2, [65001; 100]); (1537, [1; 1000])] =
    Ok [192; 16; 16; 0; 2; 253; 233; 0; 0; 0; 100; 6; 1; 1; 0; 0; 0; 62; 129] /\
  construct_largecommunity [[4294967295; 0; 7]] = Ok [224; 32; 12; 255; 255; 255; 255; 0; 0; 0; 0; 0; 0; 0; 7] /\
  construct_largecommunity [] = Err c_ERR_MSG_UPDATE c_ERR_MSG_UPDATE_ATTR_LEN.
Proof. vm_compute. auto. Qed.

(* ------------------------------------------------------------------------------------- *)
(** * 4. OPEN *)

(** Open.construct, for EVERY version, AS number, hold time, identifier and capability
    configuration (families, route refresh / Cisco route refresh / enhanced route refresh flags,
    4-octet AS, extended next hop triples, add-path): the header length is the size, the
    optional-parameter length is what follows, every parameter and capability length is its
    value, the capability values have the size their RFC fixes - or construction fails (a value
    that does not fit its field, more than 255 octets of parameters). *)
Theorem C08_open_valid : forall version asn hold id c m,
  open_construct version asn hold id c = Ok m -> valid_msg m = true.
Proof. exact open_construct_valid. Qed.
Print Assumptions C08_open_valid.
Example C08_open_nonvacuous : exists m,
  open_construct 4 4200000000 180 167772161
    (mkcfg (Some [(1, 1); (2, 128)]) true true false (Some [(1, 1, 2)]) 3 true) = Ok m /\
  len m = 83 /\ valid_msg m = true.
Proof. exact open_construct_example. Qed.

(** the same for every reference OPEN (spec/RefOpen.v, any packaging of capabilities into
    parameters, graceful restart / LLGR / unknown capabilities included) *)
Theorem C08_open_reference_valid : forall version my_as hold id params,
  version < 256 -> params_wf params -> Forall (Forall cap_good) params ->
  valid_msg (ref_open version my_as hold id params) = true.
Proof. exact ref_open_valid. Qed.
Print Assumptions C08_open_reference_valid.
Example C08_open_reference_nonvacuous :
  let ps := [[Mp 1 1; As4 4200000000]; [GracefulRestart 8 120 [(1, 1, 128)]; Llgr [(1, 1, 0, 3600)]; RefOpen.Unknown 200 [1; 2]]] in
  params_wf ps /\ Forall (Forall cap_good) ps /\ valid_msg (ref_open 4 23456 180 1 ps) = true.
Proof.
  cbv zeta. split; [|split; [|vm_compute; reflexivity]].
  - split; [|apply OpenProofs.params_fit_total; vm_compute; discriminate].
    repeat constructor; cbn; try lia; intuition discriminate.
  - repeat constructor; cbn; try lia; try discriminate; intuition discriminate.
Qed.
(** rejected: optional-parameter length, parameter length, capability length one off; a
    4-octet-AS capability of two octets *)
Example C08_ex_open_near_misses :
  let good := marker16 ++ [0; 45; 1; 4; 253; 233; 0; 180; 10; 0; 0; 1; 16;
                           2; 6; 1; 4; 0; 1; 0; 1;  2; 6; 65; 4; 0; 0; 253; 233] in
  valid_msg good = true /\
  valid_msg (marker16 ++ [0; 45; 1; 4; 253; 233; 0; 180; 10; 0; 0; 1; 15;
                          2; 6; 1; 4; 0; 1; 0; 1;  2; 6; 65; 4; 0; 0; 253; 233]) = false /\
  valid_msg (marker16 ++ [0; 45; 1; 4; 253; 233; 0; 180; 10; 0; 0; 1; 16;
                          2; 6; 1; 4; 0; 1; 0; 1;  2; 7; 65; 4; 0; 0; 253; 233]) = false /\
  valid_msg (marker16 ++ [0; 45; 1; 4; 253; 233; 0; 180; 10; 0; 0; 1; 16;
                          2; 6; 1; 4; 0; 1; 0; 1;  2; 6; 65; 3; 0; 0; 253; 233]) = false /\
  valid_msg (marker16 ++ [0; 45; 1; 4; 253; 233; 0; 180; 10; 0; 0; 1; 16;
                          2; 6; 1; 4; 0; 1; 0; 1;  2; 6; 69; 4; 0; 0; 253; 233]) = true /\
  valid_msg (marker16 ++ [0; 43; 1; 4; 253; 233; 0; 180; 10; 0; 0; 1; 14;
                          2; 6; 1; 4; 0; 1; 0; 1;  2; 4; 65; 2; 253; 233]) = false.
Proof. exact open_near_misses. Qed.

(* ------------------------------------------------------------------------------------- *)
(** * 5. the whole UPDATE *)

(** [attr_block c ty b] (spec/Walker.v): [b] is exactly one attribute of type [ty] - flags fitting
    the RFC category of [ty], 1-octet length without / 2-octet length with the extended-length
    bit, a value of exactly that size that the walker accepts for [ty], every octet an octet.
    A block is a valid attribute field on its own ... *)
Theorem C08_attr_block_valid : forall c ty b, attr_block c ty b -> valid_attrs c b = true /\ wf_bytes b.
Proof. exact attr_block_valid_wf. Qed.
Print Assumptions C08_attr_block_valid.
(** ... and blocks with pairwise different type codes, concatenated, are one. *)
Theorem C08_attr_blocks_valid : forall c (l : list (N * bytes)),
  Forall (fun p => attr_block c (fst p) (snd p)) l -> NoDup (map fst l) ->
  valid_attrs c (concat (map snd l)) = true /\ wf_bytes (concat (map snd l)).
Proof. exact attr_blocks_valid. Qed.
Print Assumptions C08_attr_blocks_valid.

(** Update.construct_attributes on a dictionary (every key once) of the twelve modelled
    attributes: a valid attribute field *)
Theorem C08_update_attributes_valid : forall asn4 ap cr l ad, NoDup (map fst l) ->
  construct_attributes asn4 l = Ok ad -> valid_attrs (mkw asn4 ap cr) ad = true /\ wf_bytes ad.
Proof. exact construct_attributes_valid. Qed.
Print Assumptions C08_update_attributes_valid.

(** ASSEMBLY, any session context [c]: valid withdrawn routes, a valid attribute field and valid
    NLRI, put together by Update.construct's framing (2-octet lengths, 19-octet header), are a
    structurally valid UPDATE exactly when the message is not longer than 4096 octets *)
Theorem C08_update_assembly : forall c wd ad nd b,
  wf_bytes wd -> wf_bytes ad -> wf_bytes nd ->
  valid_prefixes4 c wd = true -> valid_attrs c ad = true -> valid_prefixes4 c nd = true ->
  header c_MSG_UPDATE (construct_body wd ad nd) = Ok b ->
  (valid_msg_with c b = true <-> len b <= 4096).
Proof. exact update_assembly. Qed.
Print Assumptions C08_update_assembly.

(** hence: an UPDATE assembled from ANY attribute blocks with pairwise different type codes - the
    standard attributes of section 3, the MP attributes of section 6, the community attributes of
    section 7 - around valid prefix fields *)
Theorem C08_update_of_blocks : forall c wd (l : list (N * bytes)) nd b,
  wf_bytes wd -> wf_bytes nd -> valid_prefixes4 c wd = true -> valid_prefixes4 c nd = true ->
  Forall (fun p => attr_block c (fst p) (snd p)) l -> NoDup (map fst l) ->
  header c_MSG_UPDATE (construct_body wd (concat (map snd l)) nd) = Ok b ->
  (valid_msg_with c b = true <-> len b <= 4096).
Proof. exact update_of_blocks. Qed.
Print Assumptions C08_update_of_blocks.

(** Full statement (false: known finding C08-oversize, see [C08_update_refuted]). *)
Definition C08_update_valid_statement : Prop := forall asn4 cr m b,
  NoDup (map fst (u_attrs m)) -> construct asn4 m = Ok (Some b) ->
  valid_msg_with (mkw asn4 false cr) b = true.
(** proved: Update.construct's result is valid exactly when it fits the 4096-octet maximum, which
    the code never checks.  [NoDup] is the type invariant of a Python dict. *)
Theorem C08_update_valid_partial : forall asn4 cr m b,
  NoDup (map fst (u_attrs m)) -> construct asn4 m = Ok (Some b) ->
  (valid_msg_with (mkw asn4 false cr) b = true <-> len b <= 4096).
Proof. exact update_construct_valid. Qed.
Print Assumptions C08_update_valid_partial.
Theorem C08_update_refuted : exists asn4 m b,
  NoDup (map fst (u_attrs m)) /\ construct asn4 m = Ok (Some b) /\
  valid_msg_with (mkw asn4 false false) b = false /\ len b = 4423.
Proof. exact update_construct_oversize. Qed.
Print Assumptions C08_update_refuted.
Example C08_update_nonvacuous : exists b,
  construct true
    (mkUpd [(167772160, 8); (0, 0)]
           [(1, VNum 0); (2, VPath [(2, repeat 7 64); (1, repeat 9 64)]); (3, VNum 167772161);
            (16, VExts [(2, [65001; 100]); (1537, [1; 1000])]); (32, VLarge [[1; 2; 3]; [4294967295; 0; 7]])]
           [(3232235776, 23); (167837696, 17)]) = Ok (Some b) /\
  NoDup [1; 2; 3; 16; 32] /\ len b = 611 /\ valid_msg_with (mkw true false false) b = true.
Proof. exact update_construct_example. Qed.
(** rejected: a repeated attribute, an attribute length one off, EXTENDED COMMUNITIES of 7
    octets, empty LARGE COMMUNITIES, LARGE COMMUNITIES of 8 octets *)
Example C08_ex_update_near_misses :
  valid_attrs cfg0 [64; 1; 1; 0; 64; 3; 4; 10; 0; 0; 1] = true /\
  valid_attrs cfg0 [64; 1; 1; 0; 64; 3; 4; 10; 0; 0; 1; 64; 1; 1; 0] = false /\
  valid_attrs cfg0 [64; 1; 1; 0; 64; 3; 5; 10; 0; 0; 1] = false /\
  valid_attrs cfg0 [192; 16; 8; 0; 2; 253; 233; 0; 0; 0; 100] = true /\
  valid_attrs cfg0 [192; 16; 7; 0; 2; 253; 233; 0; 0; 0] = false /\
  valid_attrs cfg0 [224; 32; 12; 0; 0; 0; 1; 0; 0; 0; 2; 0; 0; 0; 3] = true /\
  valid_attrs cfg0 [224; 32; 0] = false /\
  valid_attrs cfg0 [224; 32; 8; 0; 0; 0; 1; 0; 0; 0; 2] = false.
Proof. exact update_near_misses. Qed.

(* ------------------------------------------------------------------------------------- *)
(** * 6. MP_REACH_NLRI / MP_UNREACH_NLRI *)
From YV Require Import model.YMp model.YPrefix6 model.YLabel model.YVpn model.YLu model.YFlow4
  proof.MpVpnProofs proof.WalkerMp proof.WalkerFlow.
(* from here on [Ok] is YMp.Ok *)

(** Every theorem: the attribute is ONE block of type 14 / 15 ([attr_block], hence a valid
    attribute field by C08_attr_block_valid and usable in C08_attr_blocks_valid): flags 0x90 with a
    2-octet length equal to the value; AFI, SAFI; next-hop length octet = the next-hop octets,
    of a size the family has; reserved octet 0; NLRI = well-framed routes to the last octet. *)

(** IPv6 unicast.  [routes6_ok]: prefix lengths up to 128, which netaddr.IPNetwork enforces. *)
Theorem C08_mp_ipv6_valid : forall c rs, routes6_ok rs = true ->
  (forall g ll b, reach6u_construct g ll rs = Ok b -> attr_block c c_ATTR_MpReachNLRI_ID b) /\
  (forall b, unreach6u_construct rs = Ok (Some b) -> attr_block c c_ATTR_MpUnReachNLRI_ID b).
Proof. exact mp_ipv6_valid. Qed.
Print Assumptions C08_mp_ipv6_valid.
Example C08_mp_ipv6_nonvacuous : exists b,
  reach6u_construct (2 ^ 125) (Some (2 ^ 127 + 1)) [(2 ^ 125, 3); (0, 0); (2 ^ 125 + 5, 128)] = Ok b /\
  routes6_ok [(2 ^ 125, 3); (0, 0); (2 ^ 125 + 5, 128)] = true /\ len b = 61 /\ valid_attrs cfg0 b = true.
Proof. exact reach6u_example. Qed.

(** VPNv4 / VPNv6 ([v6]).  Full statement: false for one reason, see [C08_mp_label0_refuted]. *)
Definition C08_mp_vpn_valid_statement : Prop := forall c v6 rs,
  (forall nh6 asn an ip b, reachvpn_construct_x v6 nh6 asn an ip rs = Ok b -> attr_block c c_ATTR_MpReachNLRI_ID b) /\
  (forall b, unreachvpn_construct v6 rs = Ok (Some b) -> attr_block c c_ATTR_MpUnReachNLRI_ID b).
(** proved: MP_UNREACH_NLRI without any guard (a withdrawal carries the fixed label 0x800000);
    MP_REACH_NLRI under [vroute_ok] = the label stack does not end in label 0, which is written
    without the bottom-of-stack bit (known finding C08-label0-no-bos).  A prefix length above
    32 / 128 is a construction error in the model as in the code (since fix: a prefix length
    outside the address size must be an error ...; [C08_mp_prefix_length_is_error]).
    Any number of routes and labels, every RD type, every address, every prefix length; routes of
    either family ([v6]) with a next hop of either version ([nh6]: RD + 4 or RD + 16 octets). *)
Theorem C08_mp_vpn_valid_partial : forall c v6 rs,
  (forallb vroute_ok rs = true -> forall nh6 asn an ip b,
     reachvpn_construct_x v6 nh6 asn an ip rs = Ok b -> attr_block c c_ATTR_MpReachNLRI_ID b) /\
  (forall b, unreachvpn_construct v6 rs = Ok (Some b) -> attr_block c c_ATTR_MpUnReachNLRI_ID b).
Proof. exact mp_vpn_valid. Qed.
Print Assumptions C08_mp_vpn_valid_partial.
Example C08_mp_vpn_nonvacuous :
  (exists b, reachvpn_construct false 0 0 167772161 ex_vroutes = Ok b /\
             forallb vroute_ok ex_vroutes = true /\ len b = 68 /\ valid_attrs cfg0 b = true) /\
  (exists b, unreachvpn_construct true [mk_vroute [] (RdAs 100 100) (2 ^ 125) 61] = Ok (Some b) /\
             valid_attrs cfg0 b = true) /\
  (exists b, reachvpn_construct_x false true 0 0 (2 ^ 125 + 1) ex_vroutes = Ok b /\ len b = 80 /\
             valid_attrs cfg0 b = true).
Proof. exact (conj reachvpn_example (conj unreachvpn_example reachvpn_nh6_example)). Qed.

(** labeled unicast, IPv4 and IPv6: the same *)
Definition C08_mp_lu_valid_statement : Prop := forall c v6 rs,
  (forall nh6 ip b, reachlu_construct_x v6 nh6 ip rs = Ok (Some b) -> attr_block c c_ATTR_MpReachNLRI_ID b) /\
  (forall b, unreachlu_construct v6 rs = Ok (Some b) -> attr_block c c_ATTR_MpUnReachNLRI_ID b).
Theorem C08_mp_lu_valid_partial : forall c v6 rs,
  (forallb lroute_ok rs = true -> forall nh6 ip b,
     reachlu_construct_x v6 nh6 ip rs = Ok (Some b) -> attr_block c c_ATTR_MpReachNLRI_ID b) /\
  (forall b, unreachlu_construct v6 rs = Ok (Some b) -> attr_block c c_ATTR_MpUnReachNLRI_ID b).
Proof. exact mp_lu_valid. Qed.
Print Assumptions C08_mp_lu_valid_partial.
Example C08_mp_lu_nonvacuous : exists b,
  reachlu_construct true (2 ^ 125 + 1) ex_lroutes = Ok (Some b) /\ forallb lroute_ok ex_lroutes = true /\
  valid_attrs cfg0 b = true.
Proof. exact reachlu_example. Qed.

(** a last label 0: no bottom-of-stack bit, the walker (like a receiver) reads on into the RD /
    the prefix (known finding C08-label0-no-bos) *)
Theorem C08_mp_label0_refuted :
  (exists b, reachvpn_construct false 0 0 167772161 [mk_vroute [0] (RdAs 100 1) 167772160 8] = Ok b /\
             valid_attrs cfg0 b = false) /\
  (exists b, reachlu_construct false 167772161 [mk_lroute [0] 3221225472 8] = Ok (Some b) /\
             valid_attrs cfg0 b = false).
Proof. exact mp_label0_refuted. Qed.
Print Assumptions C08_mp_label0_refuted.

(** IPv4 flow specification, full strength.  [flow_ok] is the invariant of the abstraction [op]
    (comparison bits within LT|GT|EQ - all that construct_operator_flag can set from the operator
    text), not a restriction of the inputs.  Every number of rules, components and operators,
    every operand size, both forms of the rule length, no / an IPv4 / an IPv6 next hop; a prefix
    length above 32 or an address that is not IPv4 is a construction error. *)
Theorem C08_mp_flow4_valid : forall c fs, forallb flow_ok fs = true ->
  (forall nh b, reachfs_construct_x nh fs = Ok (Some b) -> attr_block c c_ATTR_MpReachNLRI_ID b) /\
  (forall b, unreachfs_construct fs = Ok (Some b) -> attr_block c c_ATTR_MpUnReachNLRI_ID b).
Proof. exact mp_flow4_valid. Qed.
Print Assumptions C08_mp_flow4_valid.
Example C08_mp_flow4_nonvacuous : exists b,
  unreachfs_construct [ex_long_flow; ex_flow] = Ok (Some b) /\ forallb flow_ok [ex_long_flow; ex_flow] = true /\
  len b = 273 /\ valid_attrs cfg0 b = true.
Proof. exact unreachfs_example. Qed.

(** the former refutation (C08-prefix-length-unchecked, fixed): 10.0.0.0/40 as a VPNv4 / labeled
    route, 2000::/129, 192.96.3.0/33 or an IPv6 address as a flow-specification prefix are
    construction errors now *)
Example C08_mp_prefix_length_is_error :
  (reachvpn_construct false 0 0 167772161 [mk_vroute [25] (RdAs 100 100) 167772160 40] = Exc /\
   unreachvpn_construct false [mk_vroute [25] (RdAs 100 100) 167772160 33] = Exc /\
   reachvpn_construct true 0 0 1 [mk_vroute [25] (RdAs 100 100) (2 ^ 125) 129] = Exc /\
   reachlu_construct false 167772161 [mk_lroute [25] 167772160 40] = Exc /\
   unreachlu_construct false [mk_lroute [25] 167772160 33] = Exc /\
   reachlu_construct true 1 [mk_lroute [25] (2 ^ 125) 129] = Exc) /\
  (reachfs_construct None [mk_flow (Some (3227517696, 33)) None []] = Exc /\
   unreachfs_construct [mk_flow None (Some (3227517696, 255)) []] = Exc /\
   reachfs_construct None [mk_flow (Some (2 ^ 125, 32)) None []] = Exc).
Proof. exact (conj prefix_length_is_error flow_prefix_length_is_error). Qed.

(** an UPDATE of ORIGIN, an empty AS_PATH, an IPv6 MP_REACH_NLRI and an IPv4 flow-specification
    MP_UNREACH_NLRI (C08_update_of_blocks applies: the four blocks have different type codes) *)
Example C08_update_with_mp_nonvacuous : exists r u m,
  reach6u_construct (2 ^ 125) None [(2 ^ 125, 3); (2 ^ 125 + 5, 128)] = Ok r /\
  unreachfs_construct [ex_flow] = Ok (Some u) /\
  YMsg.header c_MSG_UPDATE (construct_body [] (concat (map snd [(1, [64; 1; 1; 0]); (2, [64; 2; 0]); (14, r); (15, u)])) [])
    = YMsg.Ok m /\
  NoDup (map fst [(1, [64; 1; 1; 0]); (2, [64; 2; 0]); (14, r); (15, u)]) /\ len m = 104 /\ valid_msg m = true.
Proof.
  do 3 eexists. split; [vm_compute; reflexivity|]. split; [vm_compute; reflexivity|].
  split; [vm_compute; reflexivity|]. split; [|split; vm_compute; reflexivity].
  repeat constructor; cbn; intuition discriminate.
Qed.

(** rejected MP attributes: next-hop length octet one off, reserved octet 1, a 5-octet next hop,
    a labeled route one octet short, a 1-octet length under the extended-length flag; flow
    specification: rule length one off, prefix component one octet short, no end-of-list bit,
    operand size not what the length bits say, prefix length 33 *)
Example C08_ex_mp_near_misses :
  valid_attrs cfg0 [144; 14; 0; 30; 0; 2; 1; 16; 32; 0; 0; 0; 0; 0; 0; 0; 0; 0; 0; 0; 0; 0; 0; 1; 0; 64; 32; 1; 13; 184; 0; 0; 0; 1] = true /\
  valid_attrs cfg0 [144; 14; 0; 30; 0; 2; 1; 15; 32; 0; 0; 0; 0; 0; 0; 0; 0; 0; 0; 0; 0; 0; 0; 1; 0; 64; 32; 1; 13; 184; 0; 0; 0; 1] = false /\
  valid_attrs cfg0 [144; 14; 0; 30; 0; 2; 1; 16; 32; 0; 0; 0; 0; 0; 0; 0; 0; 0; 0; 0; 0; 0; 0; 1; 1; 64; 32; 1; 13; 184; 0; 0; 0; 1] = false /\
  valid_attrs cfg0 [144; 14; 0; 19; 0; 2; 1; 5; 10; 0; 0; 1; 9; 0; 64; 32; 1; 13; 184; 0; 0; 0; 1] = false /\
  valid_attrs cfg0 [144; 15; 0; 7; 0; 1; 4; 32; 128; 0; 0] = false /\
  valid_attrs cfg0 [144; 15; 0; 8; 0; 1; 4; 32; 128; 0; 0; 10] = true /\
  valid_attrs cfg0 [144; 15; 8; 0; 1; 4; 32; 128; 0; 0; 10] = false /\
  valid_attrs cfg0 [144; 15; 0; 12; 0; 1; 133; 8; 1; 24; 192; 96; 3; 3; 129; 6] = true /\
  valid_attrs cfg0 [144; 15; 0; 12; 0; 1; 133; 7; 1; 24; 192; 96; 3; 3; 129; 6] = false /\
  valid_attrs cfg0 [144; 15; 0; 11; 0; 1; 133; 7; 1; 24; 192; 96; 3; 129; 6] = false /\
  valid_attrs cfg0 [144; 15; 0; 12; 0; 1; 133; 8; 1; 24; 192; 96; 3; 3; 1; 6] = false /\
  valid_attrs cfg0 [144; 15; 0; 12; 0; 1; 133; 8; 1; 24; 192; 96; 3; 3; 145; 6] = false /\
  valid_attrs cfg0 [144; 15; 0; 10; 0; 1; 133; 6; 1; 33; 192; 96; 3; 0] = false.
Proof. vm_compute. repeat split. Qed.

(* ------------------------------------------------------------------------------------- *)
(** * 7. COMMUNITIES, EXTENDED COMMUNITIES, LARGE COMMUNITIES from API text *)
From Coq Require Import String ZArith.
From YV Require Import lib.Dec model.YExtCom model.YCommunity model.YLargeCom proof.WalkerCom.
Open Scope N_scope.
(* from here on [Ok] is YExtCom.Ok *)

(** Community.construct on ANY list of texts: one block, flags 0xc0, length = 4 * number of
    communities; ExtCommunity.construct on ANY list of items: a multiple of 8 octets, never empty;
    LargeCommunity.construct on ANY list of texts: a non-zero multiple of 12 octets - or an
    error (unparsable text, a part that does not fit its field, more than 255 octets) *)
Theorem C08_communities_text_valid : forall c,
  (forall l b, com_construct l = Ok b -> attr_block c c_ATTR_Community_ID b) /\
  (forall l b, ec_construct l = Ok (Some b) -> attr_block c c_ATTR_ExtCommunity_ID b) /\
  (forall l b, large_construct l = Ok b -> attr_block c c_ATTR_LargeCommunity_ID b).
Proof. exact communities_text_valid. Qed.
Print Assumptions C08_communities_text_valid.
Example C08_community_text_nonvacuous :
  (exists b, com_construct [codes "65001:100"; codes "no_export"; codes "0:0"] = Ok b /\
             b = [192; 8; 12; 253; 233; 0; 100; 255; 255; 255; 1; 0; 0; 0; 0] /\ valid_attrs cfg0 b = true) /\
  (exists b, large_construct [codes "4200000000:1:2"; codes "1:2:4294967295"] = Ok b /\ len b = 27 /\
             valid_attrs cfg0 b = true) /\
  (exists b, ec_construct [ItS c_BGP_EXT_COM_RT_0 (codes "65001:100");
                           ItS c_BGP_EXT_COM_EVPN_ROUTE_MAC (codes "00-11-22-33-44-55");
                           ItII c_BGP_EXT_COM_EVPN_ESI_MPLS_LABEL 1 1000; ItS 39321 (codes "x")] = Ok (Some b) /\
             len b = 27 /\ valid_attrs cfg0 b = true).
Proof. exact (conj com_construct_example (conj large_construct_example ec_construct_example)). Qed.

(* ------------------------------------------------------------------------------------- *)
(** * 8. PMSI tunnel attribute (construct-only family; model/YPmsi.v, tied by the correspondence run of
      harness/props/c08.py on PMSITunnel.construct / parse) *)
From YV Require Import model.YPmsi proof.WalkerPmsi.

(** whatever the inputs (any integers for flags / type / label, either address family for the tunnel
    endpoint, any [evpn_overlay] argument): when PMSITunnel.construct returns octets they are exactly
    one attribute block of type 22 that the walker accepts - optional transitive flags, a 1-octet
    length equal to the value, a 3-octet label field and an identifier of the size the tunnel type
    prescribes; otherwise construction fails ([None] = a Python exception) *)
Theorem C08_pmsi_valid : forall c ov v b,
  pmsi_construct ov v = Some b -> attr_block c c_ATTR_PMSITunnel_ID b.
Proof. exact pmsi_construct_block. Qed.
Print Assumptions C08_pmsi_valid.

(** ... it is 12 or 24 octets long ... *)
Theorem C08_pmsi_size : forall ov v b, pmsi_construct ov v = Some b -> len b = 12 \/ len b = 24.
Proof. exact pmsi_construct_size. Qed.
Print Assumptions C08_pmsi_size.

(** ... and nothing in range is refused (ingress replication; 20-bit label, or 24-bit VNI under a
    VXLAN / NVGRE overlay): the theorem above is not vacuous on any such input *)
Theorem C08_pmsi_in_range_constructs : forall ov v,
  pmsi_in_range ov v = true -> exists b, pmsi_construct ov v = Some b.
Proof. exact pmsi_construct_total. Qed.
Print Assumptions C08_pmsi_in_range_constructs.

(** the label field: what construct_pmsi_label writes for a 20-bit label / 24-bit VNI is what
    parse_mpls_label / parse_vni reads *)
Theorem C08_pmsi_label_field : forall z l,
  ((0 <= z < 2 ^ 20)%Z -> pack3_of_4 (z * 16) = Some l -> unbe l / 16 = Z.to_N z) /\
  ((0 <= z < 2 ^ 24)%Z -> pack3_of_4 z = Some l -> unbe l = Z.to_N z).
Proof. intros z l. split; [apply pmsi_label_roundtrip_mpls | apply pmsi_label_roundtrip_vni]. Qed.
Print Assumptions C08_pmsi_label_field.

(** NOT refused although it does not fit: a label of more than 20 bits that fits the 32-bit word loses
    its high octet - structurally valid, but another label (2^20+5 goes out as 5).  Outside what C08
    states (the octets are well-formed); recorded because the model shows it. *)
Theorem C08_pmsi_label_truncated_witness :
  exists b, pmsi_construct OvOff pmsi_truncated_input = Some b /\
            parsed_label (pmsi_parse false (value_of b)) = Some 5.
Proof. exact pmsi_label_truncated_witness. Qed.
Print Assumptions C08_pmsi_label_truncated_witness.

Example C08_pmsi_nonvacuous :
  pmsi_construct OvOff (mk_pmsi 0 6 1234 false 3232238090) =
    Some [192; 22; 9; 0; 6; 0; 77; 32; 192; 168; 10; 10] /\
  pmsi_construct (OvOn true 8) (mk_pmsi 1 6 60001 true 1) =
    Some ([192; 22; 21; 1; 6; 0; 234; 97] ++ repeat 0 15 ++ [1]) /\
  pmsi_construct OvOff (mk_pmsi 0 0 1 false 1) = None /\
  pmsi_construct (OvOn true 10) (mk_pmsi 0 6 1 false 1) = None /\
  pmsi_construct OvOff (mk_pmsi 256 6 1 false 1) = None /\
  pmsi_construct OvOff (mk_pmsi 0 6 (2 ^ 28) false 1) = None.
Proof. vm_compute. repeat split. Qed.
