(** C16 - REST surface authenticated, state-gated, faithful.

    "Every REST endpoint that reveals or changes peer state rejects a request without valid
    credentials with 401 and no effect.  Endpoints that send BGP messages do nothing and report
    failure unless the session is Established, and a send reported successful has put exactly the
    requested message (plus only the documented default LOCAL_PREF on iBGP sessions) - and only it -
    on the wire of the current connection."

    The statements are about [rest_step] of model/YRest.v: one HTTP request against the
    application, as a step of the session world.  [quiet w] is [w] with the output buffer of the
    previous step cleared, so [fst (rest_step ..) = quiet w] says: no output, nothing changed.
    All statements hold for every configured credential pair [conf], every decoder [D] and every
    UPDATE codec [construct] (parameters of the model), every world and every request.

    The model is tied to yabgp by [C16_inventory_matches] (route table and decorator chains are
    regenerated from the live Flask application on every run) and by the exhaustive sweep of
    harness/props/c16.py. *)
From Coq Require Import String.
From YV Require Import lib.Base model.YWorld model.YProto gen.Consts gen.FsmGen model.YSession
  model.YSessionSx gen.RestInventory model.YRest proof.RestProofs.

(** the route table of the model, decorator chains included, is the live one: a route added, a
    decorator removed or re-ordered in v1.py breaks this *)
Theorem C16_inventory_matches : gen_routes = modelled_routes /\ gen_hooks = [].
Proof. exact (conj inventory_matches hooks_match). Qed.
Print Assumptions C16_inventory_matches.

(** every modelled route under /v1/peer/ is one that reveals or changes peer state (and
    conversely), and every such route has the authentication decorator OUTERMOST *)
Theorem C16_all_peer_routes_require_auth :
  forall r, In r modelled_routes ->
    (under_peer r = true <-> peer_state_route r = true) /\
    (peer_state_route r = true -> requires_auth r = true).
Proof. exact all_peer_routes_require_auth. Qed.
Print Assumptions C16_all_peer_routes_require_auth.

(** no valid credentials: 401, no output, world unchanged *)
Theorem C16_unauth_401_no_effect :
  forall conf D construct w q,
    requires_auth (q_route q) = true -> auth conf (q_creds q) = false ->
    q_meth q <> MOPTIONS -> method_allowed (q_meth q) (q_route q) = true ->
    rest_step conf D construct w q = (quiet w, R401).
Proof. exact unauth_401_no_effect. Qed.
Print Assumptions C16_unauth_401_no_effect.

(** ... and whatever the method (405 / the automatic OPTIONS answer come before the view):
    nothing happens and the request is not served *)
Theorem C16_unauth_never_served :
  forall conf D construct w q,
    requires_auth (q_route q) = true -> auth conf (q_creds q) = false ->
    fst (rest_step conf D construct w q) = quiet w /\
    (snd (rest_step conf D construct w q) = R401 \/ snd (rest_step conf D construct w q) = R405 \/
     snd (rest_step conf D construct w q) = ROptions).
Proof. exact unauth_never_served. Qed.
Print Assumptions C16_unauth_never_served.

(** every route that sends is authenticated and gated on Established *)
Theorem C16_senders_authenticated_and_gated :
  forall r e, In r modelled_routes -> effect_of r = Some e -> sends e = true ->
    requires_auth r = true /\ gated r = true.
Proof. exact senders_authenticated_and_gated. Qed.
Print Assumptions C16_senders_authenticated_and_gated.

(** a gated route does nothing and does not report success unless Established *)
Theorem C16_not_established_no_effect :
  forall conf D construct w q,
    gated (q_route q) = true -> w_state w <> StEstablished ->
    fst (rest_step conf D construct w q) = quiet w /\
    w_out (fst (rest_step conf D construct w q)) = [] /\
    snd (rest_step conf D construct w q) <> ROk.
Proof. exact not_established_no_effect. Qed.
Print Assumptions C16_not_established_no_effect.

(** ... and an authenticated, well-formed POST gets exactly the gate's failure report *)
Theorem C16_not_established_refused :
  forall conf D construct w q,
    In (q_route q) modelled_routes -> gated (q_route q) = true -> w_state w <> StEstablished ->
    auth conf (q_creds q) = true -> q_meth q = MPOST -> q_payload q <> PNone ->
    rest_step conf D construct w q = (quiet w, RNotEstab).
Proof. exact not_established_refused. Qed.
Print Assumptions C16_not_established_refused.

(** a send reported successful: the output of the step is exactly one write, of exactly the
    requested message ([requested_wire]: for send/update the codec's bytes of the request with the
    default LOCAL_PREF rule applied), on the connection the FSM tracks; besides that only the
    sent-counter of that connection changes; and the request was authenticated and the session
    Established.  [tracked_live]: the FSM tracks a connected transport (a session invariant of
    the Established state that is C01/C12's subject; the sweep checks it in every Established
    state it reaches). *)
Theorem C16_send_exact :
  forall conf D construct w q w' c e,
    In (q_route q) modelled_routes -> effect_of (q_route q) = Some e -> sends e = true ->
    tracked_live w c ->
    rest_step conf D construct w q = (w', ROk) ->
    exists msg, requested_wire construct w q = Some msg /\
                w_out w' = [OWrite c msg] /\
                w' = count_sent e c (emit (OWrite c msg) (quiet w)) /\
                w_state w = StEstablished /\ auth conf (q_creds q) = true.
Proof. exact send_exact. Qed.
Print Assumptions C16_send_exact.

(** the default LOCAL_PREF: prefixes untouched; attributes untouched, or - only on iBGP, only when
    the request has attributes and none of them is LOCAL_PREF - one LOCAL_PREF 100 appended *)
Theorem C16_default_local_pref :
  forall ib m,
    let m' := default_local_pref ib m in
    u_nlri m' = u_nlri m /\ u_withdraw m' = u_withdraw m /\
    (u_attr m' = u_attr m \/
     (ib = true /\ has_attr 5 (u_attr m) = false /\ u_attr m <> [] /\
      u_attr m' = u_attr m ++ [(5, AVNum 100)])).
Proof. exact default_local_pref_spec. Qed.
Print Assumptions C16_default_local_pref.

Theorem C16_default_local_pref_applies :
  forall m, u_attr m <> [] -> has_attr 5 (u_attr m) = false ->
    default_local_pref true m = mkU (u_attr m ++ [(5, AVNum 100)]) (u_nlri m) (u_withdraw m).
Proof. exact default_local_pref_ibgp. Qed.
Print Assumptions C16_default_local_pref_applies.

(** a view classified as having no effect on the session never changes the world *)
Theorem C16_effect_classification_sound :
  forall conf D construct w q e,
    effect_of (q_route q) = Some e -> (e = EfNone \/ e = EfBookkeeping) ->
    fst (rest_step conf D construct w q) = quiet w.
Proof. exact effect_sound. Qed.
Print Assumptions C16_effect_classification_sound.

(** the manual-stop / manual-start routes are the operator events of the session model *)
Theorem C16_manual_routes_are_events :
  forall conf D construct w q,
    In (q_route q) modelled_routes -> auth conf (q_creds q) = true -> q_meth q = MGET ->
    (effect_of (q_route q) = Some EfManualStop -> fst (rest_step conf D construct w q) = step D w EManualStop) /\
    (effect_of (q_route q) = Some EfManualStart -> fst (rest_step conf D construct w q) = step D w EManualStart).
Proof. exact manual_routes_are_events. Qed.
Print Assumptions C16_manual_routes_are_events.

(** ---- the hypotheses are satisfiable / the statements are not vacuous ---- *)
Definition ex_conf : string * string := ("admin", "admin")%string.
Definition ex_D : decoders := tbl_dec [] [] [].
Definition ex_msg : umsg := mkU [(1, AVNum 0); (2, AVTok 1); (3, AVTok 2)] [7] [].
Definition ex_bytes : bytes := [255; 255; 0; 23; 2].
Definition ex_construct (asn4 ap : bool) (m : umsg) : option bytes :=
  if umsg_eqb m (default_local_pref true ex_msg) then Some ex_bytes else None.
Definition ex_cfg : cfg := mkCfg 65001 65001 180 60 30 30 10 false 167772161.
(** an Established iBGP world tracking connected connection 0 *)
Definition ex_world : world :=
  let w := world0 ex_cfg [] in
  set_w_state StEstablished (set_w_proto (Some 0%nat) (set_w_conns [set_c_st CConnected conn0] w)).
Definition ex_send : request :=
  mkReq (route_by_rule "/v1/peer/<peer_ip>/send/update") MPOST (Some ("admin", "admin")%string) (PUpdate ex_msg).

Example C16_ex_tracked_live : tracked_live ex_world 0%nat.
Proof. split; reflexivity. Qed.
(** a successful send on iBGP: the codec's bytes of the message WITH the default LOCAL_PREF *)
Example C16_ex_send_ok :
  snd (rest_step ex_conf ex_D ex_construct ex_world ex_send) = ROk /\
  w_out (fst (rest_step ex_conf ex_D ex_construct ex_world ex_send)) = [OWrite 0%nat (WRaw ex_bytes)].
Proof. vm_compute. split; reflexivity. Qed.
(** the same request with a wrong password, and in OpenConfirm *)
Example C16_ex_wrong_password :
  rest_step ex_conf ex_D ex_construct ex_world
    (mkReq (q_route ex_send) MPOST (Some ("admin", "admim")%string) (PUpdate ex_msg)) = (quiet ex_world, R401).
Proof. vm_compute. reflexivity. Qed.
Example C16_ex_not_established :
  rest_step ex_conf ex_D ex_construct (set_w_state StOpenConfirm ex_world) ex_send
  = (quiet (set_w_state StOpenConfirm ex_world), RNotEstab).
Proof. vm_compute. reflexivity. Qed.
Example C16_ex_routes : List.length modelled_routes = 14%nat /\
  List.length (filter under_peer modelled_routes) = 11%nat /\
  List.length (filter gated modelled_routes) = 6%nat.
Proof. vm_compute. repeat split; reflexivity. Qed.
