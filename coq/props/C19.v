(** C19 -- Adj-RIB-In / Adj-RIB-Out and the version counters.

    Model: model/YRib.v (yabgp/core/protocol.py: update_rib_in_ipv4, update_rib_out_ipv4,
    update_receive_verion, update_send_version, init_rib, closeConnection, connectionLost, the
    calls in _update_received and in the REST send view).  Specification: spec/MapSpec.v (finite map, apply_update = withdrawals
    then announcements, changes = new route | changed attributes | removal of a present route).
    All statements quantify over every state / every list of updates: no bound on the number of
    messages, on the prefixes or rules inside one message (duplicates allowed), or on the pool.

    The model is of the code WITH the proposed repair
    build/proposed/c19-receive-version-family-match.diff (the receive side compared the parser's
    afi_safi tuple with a list and therefore never ran; see the check's violation on the
    unrepaired tree). *)
From YV Require Import lib.Base model.YRib spec.MapSpec proof.RibProofs.
From Coq Require Import Permutation.

(** ** Adj-RIB-In = the announcements and withdrawals applied in order *)
Theorem C19_rib_refines : forall us : list update,
  map_eq N.eqb (rib_in (fold_left (recv_step true) us new_conn))
               (fold_left spec_apply us empty).
Proof. exact rib_in_refines. Qed.
Print Assumptions C19_rib_refines.

(** the same from any state whose table is some specification table [m] (e.g. mid-session) *)
Theorem C19_rib_refines_from : forall (us : list update) s m, map_eq N.eqb (rib_in s) m ->
  map_eq N.eqb (rib_in (fold_left (recv_step true) us s)) (apply_run N.eqb m (List.map ops4 us)) /\
  v_ipv4 (recv_v (fold_left (recv_step true) us s))
  = v_ipv4 (recv_v s) + changes_run N.eqb attrs_eqb m (List.map ops4 us).
Proof. exact rib_in_run. Qed.
Print Assumptions C19_rib_refines_from.

Example C19_rib_nonvacuous :
  let a1 := mkAttrs 1 None None in let a2 := mkAttrs 2 None None in
  let s := fold_left (recv_step true)
             [mkUpdate a1 [10; 11; 10] []; mkUpdate a2 [11] [10; 12]; mkUpdate a2 [11] []] new_conn in
  rib_in s = [(11, a2)] /\ v_ipv4 (recv_v s) = 4 /\
  fold_left spec_apply [mkUpdate a1 [10; 11; 10] []; mkUpdate a2 [11] [10; 12]; mkUpdate a2 [11] []] empty
  = [(11, a2); (11, a2); (11, a1)].
Proof. vm_compute. repeat split. Qed.

(** ** the same over the prefixes AS SENT (length octet + octets whose trailing bits may hold anything,
    RFC 4271 4.3): the table is keyed by the prefix up to its padding bits *)
Theorem C19_rib_refines_wire : forall ws : list wupdate,
  map_eq N.eqb (rib_in (fold_left (recv_wire true) ws new_conn))
               (fold_left spec_apply (List.map decode_update ws) empty).
Proof. exact rib_in_refines_wire. Qed.
Print Assumptions C19_rib_refines_wire.

(** two histories that differ only in padding bits leave the same tables and counters ... *)
Theorem C19_padding_irrelevant : forall b ws ws', Forall2 same_wupdate ws ws' ->
  forall s, fold_left (recv_wire b) ws s = fold_left (recv_wire b) ws' s.
Proof. exact padding_irrelevant. Qed.
Print Assumptions C19_padding_irrelevant.

(** ... and nothing else is identified: equal keys = same length and same leading bits *)
Theorem C19_prefix_key_exact : forall w w' : wprefix, snd w <= 32 -> snd w' <= 32 ->
  (parse_prefix w = parse_prefix w' <-> same_wprefix w w').
Proof. exact prefix_key_exact. Qed.
Print Assumptions C19_prefix_key_exact.

Example C19_padding_nonvacuous :
  let a := mkAttrs 1 None None in
  let p30 pad := (167838980 + pad, 30) in          (* 10.1.1.4/30, last octet 4 + pad *)
  let s := fold_left (recv_wire true)
             [mkWUpdate a [p30 0] []; mkWUpdate a [p30 1] []; mkWUpdate a [p30 3; p30 2] []] new_conn in
  let t := recv_wire true s (mkWUpdate (mkAttrs 0 None None) [] [p30 2]) in
  List.map fst (rib_in s) = [pfx 167838980 30] /\ v_ipv4 (recv_v s) = 1 /\
  rib_in t = [] /\ v_ipv4 (recv_v t) = 2 /\
  parse_prefix (167838976 + 8, 30) <> parse_prefix (p30 0).
Proof. vm_compute. repeat split. discriminate. Qed.

(** Adj-RIB-Out through the REST send path *)
Theorem C19_rib_out_refines : forall us : list update,
  map_eq N.eqb (rib_out (fold_left send_step us new_conn)) (fold_left spec_apply us empty).
Proof. exact rib_out_refines. Qed.
Print Assumptions C19_rib_out_refines.

(** ** flush: both tables are empty after connectionLost (the counters of the dead object stay) --
    for EITHER value of the object's `disconnected` flag, i.e. whether the peer dropped the session
    (flag False) or yabgp closed it itself (closeConnection set the flag: header error ->
    NOTIFICATION -> close, hold timer expiry, manual stop, NOTIFICATION received) *)
Theorem C19_empty_after_drop : forall c : conn,
  rib_in (c_rib (connection_lost c)) = [] /\ rib_out (c_rib (connection_lost c)) = [] /\
  recv_v (c_rib (connection_lost c)) = recv_v (c_rib c) /\
  send_v (c_rib (connection_lost c)) = send_v (c_rib c) /\
  c_disconnected (connection_lost c) = c_disconnected c.
Proof. exact empty_after_drop. Qed.
Print Assumptions C19_empty_after_drop.

(** every history of events (received / sent UPDATEs, earlier drops and reconnections) followed by
    a remote drop [ELost] or by a local close [EClose; ELost] ends with empty tables, and the two
    kinds of drop leave the same tables and counters *)
Theorem C19_empty_after_any_drop : forall (b : bool) (es : list event) (c : conn),
  let remote := run b c (es ++ [ELost]) in
  let loc := run b c (es ++ [EClose; ELost]) in
  (rib_in (c_rib remote) = [] /\ rib_out (c_rib remote) = []) /\
  (rib_in (c_rib loc) = [] /\ rib_out (c_rib loc) = []) /\
  c_disconnected loc = true /\ c_rib loc = c_rib remote.
Proof. exact empty_after_any_drop. Qed.
Print Assumptions C19_empty_after_any_drop.

(** closeConnection alone flushes nothing (the routes stay until the transport reports the loss) *)
Theorem C19_close_keeps_tables : forall c : conn,
  c_rib (close_connection c) = c_rib c /\ c_disconnected (close_connection c) = true.
Proof. exact close_keeps_tables. Qed.
Print Assumptions C19_close_keeps_tables.

Example C19_drop_nonvacuous :
  let a1 := mkAttrs 1 None None in
  let es := [ERecv (mkUpdate a1 [10; 11] []); ESend (mkUpdate a1 [12] [])] in
  let live := run true new_connection es in
  let closed := run true new_connection (es ++ [EClose]) in
  let loc := run true new_connection (es ++ [EClose; ELost]) in
  let remote := run true new_connection (es ++ [ELost]) in
  List.map fst (rib_in (c_rib live)) = [10; 11] /\ List.map fst (rib_out (c_rib live)) = [12] /\
  c_disconnected live = false /\
  c_rib closed = c_rib live /\ c_disconnected closed = true /\
  rib_in (c_rib loc) = [] /\ rib_out (c_rib loc) = [] /\ c_disconnected loc = true /\
  rib_in (c_rib remote) = [] /\ rib_out (c_rib remote) = [] /\ c_disconnected remote = false /\
  v_ipv4 (recv_v (c_rib loc)) = 2 /\ v_ipv4 (send_v (c_rib loc)) = 1.
Proof. vm_compute. repeat split. Qed.

Theorem C19_new_connection_fresh : sx_rib new_conn = sx_rib rib0 /\ new_conn = rib0.
Proof. exact new_conn_fresh. Qed.
Print Assumptions C19_new_connection_fresh.

(** ** version counters: +1 exactly per table change *)
Theorem C19_version_iff_change_ipv4_received : forall s u,
  v_ipv4 (recv_v (recv_step true s u)) = v_ipv4 (recv_v s) + spec_changes (rib_in s) u.
Proof. exact recv_ipv4_version. Qed.
Print Assumptions C19_version_iff_change_ipv4_received.

Theorem C19_version_iff_change_ipv4_sent : forall s u,
  v_ipv4 (send_v (send_step s u)) = v_ipv4 (send_v s) + spec_changes (rib_out s) u.
Proof. exact send_ipv4_version. Qed.
Print Assumptions C19_version_iff_change_ipv4_sent.

(** flowspec, sr_policy, mpls_vpn, sent: table = the family's send dictionary, operations = the
    routes of MP_REACH_NLRI (value: the attributes without the NLRI; sr_policy: the attributes)
    then the routes of MP_UNREACH_NLRI, keyed by the whole NLRI dictionary *)
Theorem C19_version_iff_change_mp_sent : forall f s u,
  snd (get_send (send_step s u) f)
  = snd (get_send s f) + changes_ops rkey_eqb attrs_eqb (fst (get_send s f)) (mp_ops f (u_attr u)).
Proof. exact send_mp_version. Qed.
Print Assumptions C19_version_iff_change_mp_sent.

(** flowspec and mpls_vpn, received (with or without RIB maintenance) *)
Theorem C19_version_iff_change_mp_received : forall b f s u, f <> SrPolicy ->
  snd (get_recv (recv_step b s u) f)
  = snd (get_recv s f) + changes_ops rkey_eqb attrs_eqb (fst (get_recv s f)) (mp_ops f (u_attr u)).
Proof. exact recv_mp_version. Qed.
Print Assumptions C19_version_iff_change_mp_received.

(** sr_policy has no receive table in the code: its received counter and table never move *)
Theorem C19_sr_policy_never_received : forall b us s,
  get_recv (fold_left (recv_step b) us s) SrPolicy = get_recv s SrPolicy.
Proof. exact sr_recv_run. Qed.
Print Assumptions C19_sr_policy_never_received.

(** totals over a whole session, and the tables of the other families *)
Theorem C19_version_total_ipv4_received : forall us,
  v_ipv4 (recv_v (fold_left (recv_step true) us new_conn))
  = changes_run N.eqb attrs_eqb empty (List.map ops4 us).
Proof. exact recv_ipv4_total. Qed.
Print Assumptions C19_version_total_ipv4_received.

Theorem C19_version_total_ipv4_sent : forall us,
  v_ipv4 (send_v (fold_left send_step us new_conn))
  = changes_run N.eqb attrs_eqb empty (List.map ops4 us).
Proof. exact send_ipv4_total. Qed.
Print Assumptions C19_version_total_ipv4_sent.

Theorem C19_mp_sent_total : forall f us,
  map_eq rkey_eqb (fst (get_send (fold_left send_step us new_conn) f))
         (apply_run rkey_eqb empty (List.map (fun u => mp_ops f (u_attr u)) us)) /\
  snd (get_send (fold_left send_step us new_conn) f)
  = changes_run rkey_eqb attrs_eqb empty (List.map (fun u => mp_ops f (u_attr u)) us).
Proof. exact send_mp_total. Qed.
Print Assumptions C19_mp_sent_total.

Theorem C19_mp_received_total : forall b f us, f <> SrPolicy ->
  map_eq rkey_eqb (fst (get_recv (fold_left (recv_step b) us new_conn) f))
         (apply_run rkey_eqb empty (List.map (fun u => mp_ops f (u_attr u)) us)) /\
  snd (get_recv (fold_left (recv_step b) us new_conn) f)
  = changes_run rkey_eqb attrs_eqb empty (List.map (fun u => mp_ops f (u_attr u)) us).
Proof. exact recv_mp_total. Qed.
Print Assumptions C19_mp_received_total.

Example C19_mp_nonvacuous :
  let r1 := [(2, 20); (1, 10)] in let r2 := [(1, 11)] in
  let ann := mkUpdate (mkAttrs 5 (Some (mkMp 1 133 0 [r1; r2; r1])) None) [] [] in
  let wd := mkUpdate (mkAttrs 0 None (Some (mkMp 1 133 0 [r1; r1]))) [] [] in
  let s := fold_left (recv_step true) [ann; ann; wd] new_conn in
  v_flowspec (recv_v s) = 3 /\ List.map fst (fs_recv s) = [[(1, 11)]] /\
  v_ipv4 (recv_v s) = 0 /\ v_mpls_vpn (recv_v s) = 0.
Proof. vm_compute. repeat split. Qed.

(** one UPDATE may carry MP_REACH_NLRI and MP_UNREACH_NLRI together (same family: replace rule A
    by rule B in one message; or two different families), next to IPv4 NLRI and withdrawals.  The
    theorems above already say so ([mp_ops] = the routes of attribute 14 THEN those of attribute
    15, for every shape of [u]); explicitly: whatever else the message carries, every route named
    in its MP_UNREACH_NLRI is absent from the family's table afterwards *)
Theorem C19_unreach_applied_received : forall b f s u m15 r, f <> SrPolicy ->
  a_unreach (u_attr u) = Some m15 -> fam_of m15 = Some f -> In r (reach_rules f m15) ->
  lookup rkey_eqb (rule_key r) (fst (get_recv (recv_step b s u) f)) = None.
Proof. exact recv_unreach_applied. Qed.
Print Assumptions C19_unreach_applied_received.

Theorem C19_unreach_applied_sent : forall f s u m15 r,
  a_unreach (u_attr u) = Some m15 -> fam_of m15 = Some f -> In r (reach_rules f m15) ->
  lookup rkey_eqb (rule_key r) (fst (get_send (send_step s u) f)) = None.
Proof. exact send_unreach_applied. Qed.
Print Assumptions C19_unreach_applied_sent.

(** replace rule A by rule B in one message (flowspec), with an IPv4 announcement and an IPv4
    withdrawal in the same message; then withdraw A again: nothing moves *)
Example C19_replace_in_one_update_nonvacuous :
  let rA := [(1, 10)] in let rB := [(1, 11)] in
  let annA := mkUpdate (mkAttrs 5 (Some (mkMp 1 133 0 [rA])) None) [] [] in
  let repl := mkUpdate (mkAttrs 5 (Some (mkMp 1 133 0 [rB])) (Some (mkMp 1 133 0 [rA]))) [20] [21] in
  let wdA := mkUpdate (mkAttrs 0 None (Some (mkMp 1 133 0 [rA]))) [] [] in
  let cross := mkUpdate (mkAttrs 5 (Some (mkMp 1 128 0 [rA])) (Some (mkMp 1 133 0 [rB]))) [] [] in
  let s1 := fold_left (recv_step true) [annA; repl] new_conn in
  let s2 := recv_step true s1 wdA in
  let s3 := recv_step true s2 cross in
  let t1 := fold_left send_step [annA; repl] new_conn in
  v_flowspec (recv_v s1) = 3 /\ List.map fst (fs_recv s1) = [rB] /\
  v_ipv4 (recv_v s1) = 1 /\ List.map fst (rib_in s1) = [20] /\
  v_flowspec (recv_v s2) = 3 /\ List.map fst (fs_recv s2) = [rB] /\
  v_flowspec (recv_v s3) = 4 /\ fs_recv s3 = [] /\ v_mpls_vpn (recv_v s3) = 1 /\
  List.map fst (vpn_recv s3) = [rA] /\
  v_flowspec (send_v t1) = 3 /\ List.map fst (fs_send t1) = [rB] /\ v_ipv4 (send_v t1) = 1.
Proof. vm_compute. repeat split. Qed.

(** "never otherwise": an identical re-announcement (same prefixes, same attributes, no withdrawals)
    leaves the IPv4 table and counter as they are -- in either direction, from any state.  (The
    attribute value is what the caller hands over: for the REST view on an iBGP session that is the
    request WITH the default LOCAL_PREF; the harness checks the view against that.) *)
Theorem C19_reannouncement_changes_nothing_received : forall s u, u_withdraw u = [] ->
  let s1 := recv_step true s u in
  rib_in (recv_step true s1 u) = rib_in s1 /\
  v_ipv4 (recv_v (recv_step true s1 u)) = v_ipv4 (recv_v s1).
Proof. exact recv_reannounce_noop. Qed.
Print Assumptions C19_reannouncement_changes_nothing_received.

Theorem C19_reannouncement_changes_nothing_sent : forall s u, u_withdraw u = [] ->
  let s1 := send_step s u in
  rib_out (send_step s1 u) = rib_out s1 /\
  v_ipv4 (send_v (send_step s1 u)) = v_ipv4 (send_v s1).
Proof. exact send_reannounce_noop. Qed.
Print Assumptions C19_reannouncement_changes_nothing_sent.

(** "never otherwise": a received UPDATE moves nothing on the send side and vice versa *)
Theorem C19_directions_independent : forall b s u,
  (rib_out (recv_step b s u) = rib_out s /\ send_v (recv_step b s u) = send_v s /\
   forall f, get_send (recv_step b s u) f = get_send s f) /\
  (rib_in (send_step s u) = rib_in s /\ recv_v (send_step s u) = recv_v s /\
   forall f, get_recv (send_step s u) f = get_recv s f).
Proof. exact directions_independent. Qed.
Print Assumptions C19_directions_independent.

(** ** the dictionary key identifies the NLRI dictionary: equal keys = same items *)
Theorem C19_key_injective : forall r1 r2 : rule, rule_key r1 = rule_key r2 -> Permutation r1 r2.
Proof. exact rule_key_inj. Qed.
Print Assumptions C19_key_injective.

(** ** known finding C19-vpnv4-withdraw-label: for VPNv4 the key contains the MPLS label, a
    withdrawal from the wire always has label 0x800000 (parsed as [524288]); measured against the
    route identity (rd, prefix) the withdrawal of a present route is neither applied nor counted.
    (C19_version_iff_change_mp_received above is the part that holds: identity = whole NLRI
    dictionary, label included.) *)
Theorem C19_version_iff_change_vpnv4_received_refuted :
  exists (u1 u2 : update) (r1 r2 : rule) (label : N),
    a_reach (u_attr u1) = Some (mkMp 1 128 3 [r1]) /\
    a_unreach (u_attr u2) = Some (mkMp 1 128 0 [r2]) /\
    route_id label r1 = route_id label r2 /\
    changes_ops rkey_eqb attrs_eqb empty
      [Announce (route_id label r1) (strip (u_attr u1)); Withdraw (route_id label r2)] = 2 /\
    let s := recv_step true (recv_step true new_conn u1) u2 in
    v_mpls_vpn (recv_v s) = 1 /\ length (vpn_recv s) = 1%nat.
Proof. exact vpnv4_received_refuted. Qed.
Print Assumptions C19_version_iff_change_vpnv4_received_refuted.
