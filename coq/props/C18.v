(** C18 — Message statistics equal what actually crossed the wire. *)
From YV Require Import lib.Base model.YWorld model.YProto gen.Consts gen.FsmGen model.YFraming
  model.YSession proof.SessionFraming proof.SessionC18.

(** SENT.  For every decoder behaviour, every connection c the FSM tracks and that is connected,
    and every history of events during the lifetime of that connection (any bytes from the peer,
    timer expiries, operator commands, REST sends; everything except "c is lost" and "another
    connection is accepted"), of any length: each per-type sent counter of c has grown by
    exactly the number of messages of that type written to c. *)
Theorem C18_sent_counters_match : forall (D : decoders) (c : nat) (es : list event) (w : world),
  Good c w ->
  forallb (lifetime_event c) es = true ->
  c_sent (get_conn c (run D w es)) =
  stats_add (c_sent (get_conn c w)) (wcount c (run_outs D w es)).
Proof. exact sent_counters_match. Qed.
Print Assumptions C18_sent_counters_match.

(** RECEIVED.  What one well-framed message adds to the receive counters of its connection:
    exactly one count of its own type, except in the three cases spelled out in [recv_effect]
    (model/…C18): an UPDATE whose decoding raises is not counted, a NOTIFICATION shorter than
    2 octets is not counted (it is below the minimum length), a ROUTE-REFRESH whose body is not
    4 octets is not counted; an OPEN is counted whatever its length. *)
Theorem C18_recv_counts : forall (D : decoders) (c : nat) (ty : N) (msg : bytes) (w : world),
  (c < length (w_conns w))%nat ->
  c_recv (get_conn c (snd (dispatch D c ty msg w))) =
  recv_effect D (c_asn4 (get_conn c w)) ty msg (c_recv (get_conn c w)).
Proof. exact recv_counts. Qed.
Print Assumptions C18_recv_counts.

(** the property's "frames of at least the type's minimum length" is met for KEEPALIVE (19),
    NOTIFICATION (21) and 4-octet ROUTE-REFRESH; the deviations are known findings:
    - C18-short-open-counted: an OPEN frame shorter than 29 octets is counted *)
Example C18_refuted_short_open : forall D asn4,
  recv_effect D asn4 c_MSG_OPEN [4; 0] stats0 = mkStats 1 0 0 0 0.
Proof. reflexivity. Qed.
(** - C18-rr-length-not-counted: a ROUTE-REFRESH of 24 or more octets (>= minimum 23) is not counted *)
Example C18_refuted_long_rr : forall D asn4,
  recv_effect D asn4 c_MSG_ROUTEREFRESH [0; 1; 0; 1; 0] stats0 = stats0.
Proof. reflexivity. Qed.
(** - C18-update-decode-exception-not-counted: depends on the decoder (UpExc) *)
Example C18_refuted_update_exc : forall asn4 msg,
  recv_effect (mkDec (fun _ => OpExc) (fun _ _ => UpExc)) asn4 c_MSG_UPDATE msg stats0 = stats0.
Proof. reflexivity. Qed.
