(** C13 — Operator stop is final until operator start. *)
From YV Require Import lib.Base model.YWorld model.YProto gen.Consts gen.FsmGen model.YFraming
  model.YSession proof.SessionFraming proof.SessionC13 proof.SessionC12 proof.SessionRP proof.SessionSR
  proof.SessionSR6 proof.SessionSR7 proof.SessionAuto.

(** what a manual stop does, in any world whose timers are well formed (an invariant, see
    [timers_wf_prims]): Idle, automatic start forbidden, every timer cancelled, counter reset *)
Theorem C13_stop_effects : forall w, timers_wf w ->
  let w' := peering_manual_stop w in
  w_state w' = StIdle /\ w_auto w' = false /\ no_timers w' /\ w_crc w' = 0.
Proof. exact stop_effects. Qed.
Print Assumptions C13_stop_effects.

(** Established (and, as RFC 4271 prescribes, OpenSent and OpenConfirm): exactly NOTIFICATION
    Cease (6,0) on the tracked connection, then its close *)
Theorem C13_stop_sends_cease : forall c w, Good c w ->
  (w_state w = StOpenSent \/ w_state w = StOpenConfirm \/ w_state w = StEstablished) ->
  c_closing (get_conn c w) = false -> w_out w = [] ->
  w_out (peering_manual_stop w) = [OLose c; OWrite c (WNotif c_ERR_CEASE 0 [])].
Proof. exact stop_cease. Qed.
Print Assumptions C13_stop_sends_cease.

(** the stopped state: automatic start forbidden, Idle, no timer pending, no attempt pending and
    every still-connected connection already being closed.  From it, for EVERY decoder behaviour
    and EVERY event sequence of any length that contains no manual start — peer data, connection
    results, time, timer expiries, repeated stops, REST sends — the agent writes nothing, starts
    no connection attempt, and stays stopped. *)
Theorem C13_silent_after_stop : forall (D : decoders) es w,
  Stopped w -> ~ In EManualStart es ->
  Stopped (run D w es) /\ silent (run_outs D w es).
Proof. exact silent_after_stop. Qed.
Print Assumptions C13_silent_after_stop.

Definition D0 : decoders := mkDec (fun _ => OpExc) (fun _ _ => UpExc).
Definition cf0 : cfg := mkCfg 65001 65002 180 60 30 30 10 false 167772161.

(** the stopped state is what a stop in the single-connection regime reaches (non-vacuity): *)
Example C13_stopped_reachable :
  let w := run D0 (world0 cf0 []) [EBoot; EConnOk 0; EManualStop] in
  w_auto w = false /\ w_state w = StIdle /\
  map (fun k => (c_st k, c_closing k)) (w_conns w) = [(CConnected, true)].
Proof. vm_compute. repeat split; reflexivity. Qed.

(** REFUTED at full strength (known finding C13-stop-does-not-abort-attempt): a stop issued
    while a connection attempt is in flight does not abort it; when it succeeds the agent sends
    its OPEN although it was stopped *)
Theorem C13_refuted_pending_attempt :
  exists es, ~ In EManualStart es /\ In EManualStop es /\
    exists c a h i caps, In (OWrite c (WOpen a h i caps)) (run_outs D0 (world0 cf0 []) es).
Proof.
  exists [EBoot; EManualStop; EConnOk 0]. split; [|split].
  - intros [H|[H|[H|[]]]]; discriminate.
  - right; left; reflexivity.
  - exists 0%nat, 65001, 180, 167772161, []. vm_compute. right. left. reflexivity.
Qed.
Print Assumptions C13_refuted_pending_attempt.

(** manual start from the stopped state connects at once and re-enables automatic recovery *)
Theorem C13_start_connects : forall w, Stopped w -> w_out w = [] ->
  let w' := peering_manual_start w in
  w_state w' = StConnect /\ w_auto w' = true /\
  t_dl (w_tcr w') = Some (w_now w + secs (cf_retry (w_cfg w))) /\
  w_out w' = [OConnect (length (w_conns w))].
Proof. exact start_connects. Qed.
Print Assumptions C13_start_connects.

(** ... and changes nothing while a session is up *)
Theorem C13_start_noop_when_up : forall w, w_state w = StEstablished -> peering_manual_start w = w.
Proof. exact start_noop_when_up. Qed.
Print Assumptions C13_start_noop_when_up.

(** the stopped state IS reached: in every world reachable after start-up without the known
    departures of C12 ([guarded_run]), if no connection attempt is pending, a manual stop yields
    the stopped state — and from there [C13_silent_after_stop] applies: nothing is written and no
    attempt is made, whatever the peer, the timers and the network do, until a manual start.
    (With an attempt pending the property is refuted: [C13_refuted_pending_attempt].) *)
Theorem C13_stop_reaches_stopped : forall (D : decoders) cf capl es,
  guarded_run D (step D (world0 cf capl) EBoot) es ->
  let w := run D (world0 cf capl) (EBoot :: es) in
  no_attempt w -> Stopped (peering_manual_stop w).
Proof.
  intros D cf capl es Hg w Hna.
  destruct (single_connection D cf capl es Hg) as ((_ & Htw & Hrp & Hsr) & _). fold w in Htw, Hrp, Hsr.
  apply stop_reaches_stopped; auto.
Qed.
Print Assumptions C13_stop_reaches_stopped.

Theorem C13_stop_then_silent : forall (D : decoders) cf capl es es',
  guarded_run D (step D (world0 cf capl) EBoot) es ->
  let w := run D (world0 cf capl) (EBoot :: es) in
  no_attempt w -> w_out w = [] -> ~ In EManualStart es' ->
  silent (run_outs D (set_w_out [] (peering_manual_stop w)) es').
Proof.
  intros D cf capl es es' Hg w Hna Ho Hns.
  pose proof (C13_stop_reaches_stopped D cf capl es Hg Hna) as Hs. fold w in Hs.
  assert (Hs' : Stopped (set_w_out [] (peering_manual_stop w))).
  { destruct Hs as (A & B & C & E). repeat split; auto; apply C. }
  apply (C13_silent_after_stop D es' _ Hs' Hns).
Qed.
Print Assumptions C13_stop_then_silent.

(** non-vacuity: Established session, then stop *)
Example C13_stop_reaches_stopped_example :
  let Dk := mkDec (fun _ => OpOk 65002 90 []) (fun _ _ => UpOk) in
  let es := [EConnOk 0; EData 0 (repeat 255 16 ++ [0; 29; 1; 4; 0; 0; 0; 90; 10; 0; 0; 2; 0]);
             EData 0 (repeat 255 16 ++ [0; 19; 4])] in
  guarded_run Dk (step Dk (world0 cf0 []) EBoot) es /\
  w_state (run Dk (world0 cf0 []) (EBoot :: es)) = StEstablished /\
  forallb (fun k => negb (cst_eqb (c_st k) CConnecting)) (w_conns (run Dk (world0 cf0 []) (EBoot :: es))) = true.
Proof. vm_compute. repeat split. Qed.

(** conversely, only the operator stops the agent: along any event sequence without a manual
    stop (any peer input, connection event, timer expiry, API send, manual starts) automatic
    restart stays allowed *)
Theorem C13_only_operator_stops : forall (D : decoders) es w,
  ~ In EManualStop es -> w_auto w = true -> w_auto (run D w es) = true.
Proof. exact auto_only_operator. Qed.
Print Assumptions C13_only_operator_stops.
