(** C09 - decoding agrees with an independent RFC encoder.

    Reference: spec/RefUpdate.v ([ref_encode var v], written from RFC 4271/5065/6793/1997/4456/4360/
    5668/8092/7911 only; [variants] = 2-/4-octet AS numbers, add-path identifiers, Extended Length
    forced per attribute, a filler behind the prefix bits of every prefix; the attribute list in any
    order; AS paths of any number of segments of the four types; AS4_PATH / AS4_AGGREGATOR).
    Decoder model: model/YUpdateExt.v [parse_x (asn4, addpath)] = Update.parse(t, body, asn4,
    afi_add_path) on top of YPrefix4 / YAttr / YUpdate, with Origin.parse as repaired by
    build/proposed/c09-origin-length.diff; [received_update] = the call in BGP._update_received.
    [canon var v] (proof/RefUpdateProofs.v) = the encoded values as the decoder reports them: prefixes
    (with path identifier iff add-path), each attribute under its type code; communities by well-known
    name or hi:lo, route-target/route-origin of the 2-octet-AS and 4-octet-AS forms alike (as in C06).

    Result.  At the decoder the first half holds in full: every variant, every value, unbounded lists
    ([C09_decoder_decodes_reference] and the per-variant theorems).  At the agent it holds iff add-path
    is not negotiated: BGP._update_received passes afi_add_path={} whatever was negotiated
    ([C09_decodes_reference_refuted], known finding C09-addpath-not-wired; [C09_decodes_reference] is
    the guarded theorem).  Second half in full ([C09_rejects]): every single-field malformation
    ([malformation]: ORIGIN > 2, prefix length > 32, segment type outside 1..4, wrong length of ORIGIN /
    MED / LOCAL_PREF / ORIGINATOR_ID / ATOMIC_AGGREGATE / AGGREGATOR, NEXT_HOP not a multiple of 4) of
    every reference encoding of every well-formed value, in every variant, gives an UPDATE error and
    no value; the same at the field where it occurs, for arbitrary inputs ([C09_rejects_*]). *)
From YV Require Import lib.Base gen.Consts model.YMsg model.YPrefix4 model.YAttr model.YUpdate
  model.YUpdateExt proof.UpdateProofsPrefix proof.UpdateProofsAttr spec.RefUpdate
  proof.RefUpdateProofsPrefix proof.RefUpdateProofs.
From Coq Require Import Permutation.

(** ---- first half, at the decoder: all variants at once ---- *)
Theorem C09_decoder_decodes_reference : forall var v, wf var v ->
  parse_x (mode_of var) (ref_encode var v) = Ok (canon var v).
Proof. exact decodes_reference. Qed.
Print Assumptions C09_decoder_decodes_reference.

(** ---- the agent (BGP._update_received): the full statement, its refutation, the guarded theorem ---- *)
Definition C09_decodes_reference_statement : Prop := forall var v, wf var v ->
  received_update (v_asn4 var) (v_addpath var) (ref_encode var v) = Ok (canon var v).

(** add-path negotiated, 0.0.0.0/32 announced with path identifier 474356743: the handler is given
    70.28.7.32/28 and four times 0.0.0.0/0 (observed on the implementation by harness/props/c09.py) *)
Theorem C09_decodes_reference_refuted :
  wf addpath_var addpath_witness /\ v_addpath addpath_var = true /\
  ref_encode addpath_var addpath_witness =
    [0; 0; 0; 11; 64; 1; 1; 0; 64; 3; 4; 10; 0; 0; 1; 28; 70; 28; 7; 32; 0; 0; 0; 0] /\
  received_update (v_asn4 addpath_var) (v_addpath addpath_var) (ref_encode addpath_var addpath_witness) =
    Ok (mkXU [] [(1, VNum 0); (3, VNum 167772161)]
             [(None, (1176241952, 28)); (None, (0, 0)); (None, (0, 0)); (None, (0, 0)); (None, (0, 0))]) /\
  received_update (v_asn4 addpath_var) (v_addpath addpath_var) (ref_encode addpath_var addpath_witness) <>
    Ok (canon addpath_var addpath_witness).
Proof. exact addpath_session_refuted. Qed.
Print Assumptions C09_decodes_reference_refuted.

(** exact guard: add-path not negotiated *)
Theorem C09_decodes_reference : forall var v b, v_addpath var = false -> wf var v ->
  received_update (v_asn4 var) b (ref_encode var v) = Ok (canon var v).
Proof. exact received_reference. Qed.
Print Assumptions C09_decodes_reference.

(** ---- the variants one by one ---- *)
(** whatever follows the prefix bits in the last octet (every prefix its own filler) *)
Theorem C09_trailing_bits : forall var v fw fn, wf var v ->
  parse_x (mode_of var) (ref_encode (with_fill var fw fn) v) = Ok (canon var v).
Proof. exact trailing_bits. Qed.
Print Assumptions C09_trailing_bits.

Theorem C09_trailing_bits_prefix : forall fill p rest, wf_rpfx p ->
  parse_one (ser_pfx (lay_pfx false fill p) ++ rest) = Ok (snd p, rest).
Proof. exact parse_one_lay. Qed.
Print Assumptions C09_trailing_bits_prefix.

(** 10.128.0.0/9 sent as 09 0a ff: the 7 trailing bits are set; decoded 10.128.0.0/9 *)
Example C09_trailing_bits_nonvacuous :
  wf_rpfx (0, (176160768, 9)) /\
  ser_pfx (lay_pfx false 4294967295 (0, (176160768, 9))) = [9; 10; 255] /\
  parse_one [9; 10; 255] = Ok ((176160768, 9), []).
Proof. split; [repeat split; vm_compute; congruence|]. split; vm_compute; reflexivity. Qed.

(** Extended Length flag + 2-octet length on any set of attributes *)
Theorem C09_extended_length : forall var v ext, wf (with_ext var ext) v ->
  parse_x (mode_of var) (ref_encode (with_ext var ext) v) = Ok (canon var v).
Proof. exact extended_length. Qed.
Print Assumptions C09_extended_length.

Theorem C09_extended_length_attr : forall w rest,
  (wa_flags w / 16) mod 2 = 0 -> len (wa_payload w) <= 65535 ->
  (wa_ext w = false -> len (wa_payload w) <= 255) ->
  parse_tlv (ser_attr w ++ rest) = Some (wa_code w, wa_payload w, rest).
Proof. exact parse_tlv_ser. Qed.
Print Assumptions C09_extended_length_attr.

(** ORIGIN sent as 50 01 00 01 02 *)
Example C09_extended_length_nonvacuous :
  ser_attr (lay_attr (mkVar false false [1] [] []) (ROrigin 2)) = [80; 1; 0; 1; 2] /\
  parse_attributes_x false [80; 1; 0; 1; 2] = ([(1, VNum 2)], None).
Proof. split; vm_compute; reflexivity. Qed.

(** any order of the attributes: same prefixes, same attribute map (distinct keys, same pairs) *)
Theorem C09_attr_order : forall var v v',
  Permutation (r_attrs v) (r_attrs v') -> r_withdraw v = r_withdraw v' -> r_nlri v = r_nlri v' ->
  wf var v -> wf var v' ->
  exists u u', parse_x (mode_of var) (ref_encode var v) = Ok u /\
               parse_x (mode_of var) (ref_encode var v') = Ok u' /\
               xu_withdraw u = xu_withdraw u' /\ xu_nlri u = xu_nlri u' /\
               NoDup (map fst (xu_attrs u)) /\ Permutation (xu_attrs u) (xu_attrs u').
Proof. exact attr_order. Qed.
Print Assumptions C09_attr_order.

(** AS_PATH of any number of segments of types 1..4, 2- and 4-octet AS numbers *)
Theorem C09_multi_segment : forall asn4 segs, Forall (wf_seg (as_lim asn4)) segs ->
  parse_attr_x asn4 2 (enc_path (as_octets asn4) segs) = Ok (VPath segs).
Proof. exact multi_segment. Qed.
Print Assumptions C09_multi_segment.

Example C09_multi_segment_nonvacuous :
  Forall (wf_seg (as_lim false)) [(2, [65001; 65002]); (1, [1; 2; 3]); (3, []); (4, [65535])] /\
  enc_path (as_octets false) [(2, [65001; 65002]); (1, [1])] = [2; 2; 253; 233; 253; 234; 1; 1; 0; 1].
Proof.
  split; [|reflexivity].
  repeat (apply Forall_cons; [split; [vm_compute; split; congruence|]; split; [cbn; repeat constructor|];
                              repeat (apply Forall_cons; [vm_compute; reflexivity|]); apply Forall_nil|]).
  apply Forall_nil.
Qed.

(** AS4_PATH (17) / AS4_AGGREGATOR (18) in both modes *)
Theorem C09_as4_attrs : forall asn4 segs asn addr, Forall (wf_seg p32) segs -> asn < p32 -> addr < p32 ->
  parse_attr_x asn4 17 (enc_path 4 segs) = Ok (VPath segs) /\
  parse_attr_x asn4 18 (be 4 asn ++ be 4 addr) = Ok (VPair asn addr).
Proof. exact as4_attrs. Qed.
Print Assumptions C09_as4_attrs.

(** add-path at the decoder: every prefix with its identifier *)
Theorem C09_addpath : forall var v, v_addpath var = true -> wf var v ->
  parse_x (v_asn4 var, true) (ref_encode var v) =
  Ok (mkXU (map (fun p => (Some (fst p), snd p)) (r_withdraw v)) (map canon_attr (r_attrs v))
           (map (fun p => (Some (fst p), snd p)) (r_nlri v))).
Proof. exact addpath_decoder. Qed.
Print Assumptions C09_addpath.

(** a value exercising every variant at once is well-formed *)
Definition all_variants : variants := mkVar false true [1; 3; 18] [4294967295] [1431655765; 7].
Definition all_value : rupdate :=
  mkR [(1, (167772160, 8))]
      [RAs4Aggregator 4200000000 167772161; RNextHop 167772161; RAsPath [(2, [23456; 65001]); (1, [7])];
       ROrigin 0; RAs4Path [(2, [4200000000; 65001])]; RCommunities [4294967041; 65537];
       RExtCommunities [(2, (65001, 100)); (514, (4200000000, 7))]; RLargeCommunities [(1, (2, 3))]]
      [(2, (3232235520, 23)); (4294967295, (0, 0))].
Example C09_nonvacuous : wf all_variants all_value.
Proof.
  unfold wf, all_variants, all_value. cbn [r_withdraw r_nlri r_attrs v_asn4].
  split; [repeat (apply Forall_cons; [repeat split; vm_compute; congruence|]); apply Forall_nil|].
  split; [repeat (apply Forall_cons; [repeat split; vm_compute; congruence|]); apply Forall_nil|].
  split.
  { apply Forall_cons; [split; vm_compute; reflexivity|].
    apply Forall_cons; [vm_compute; reflexivity|].
    apply Forall_cons.
    { repeat (apply Forall_cons; [split; [vm_compute; split; congruence|]; split; [cbn; repeat constructor|];
                                  repeat (apply Forall_cons; [vm_compute; reflexivity|]); apply Forall_nil|]).
      apply Forall_nil. }
    apply Forall_cons; [vm_compute; congruence|].
    apply Forall_cons.
    { repeat (apply Forall_cons; [split; [vm_compute; split; congruence|]; split; [cbn; repeat constructor|];
                                  repeat (apply Forall_cons; [vm_compute; reflexivity|]); apply Forall_nil|]).
      apply Forall_nil. }
    apply Forall_cons; [repeat (apply Forall_cons; [vm_compute; reflexivity|]); apply Forall_nil|].
    apply Forall_cons.
    { apply Forall_cons; [split; [left; reflexivity | left; repeat split; vm_compute; reflexivity]|].
      apply Forall_cons; [split; [left; reflexivity | right; split; [right; reflexivity | split; vm_compute; reflexivity]]|].
      apply Forall_nil. }
    apply Forall_cons; [apply Forall_cons; [repeat split; vm_compute; reflexivity | apply Forall_nil]|].
    apply Forall_nil. }
  split; [|vm_compute; congruence].
  cbn [map attr_code].
  repeat (apply NoDup_cons; [cbn [In]; intros K; repeat (destruct K as [K | K]; [discriminate K|]); exact K|]).
  apply NoDup_nil.
Qed.

(** ---- second half: the checked malformations, at the field, for all inputs ---- *)
Theorem C09_rejects_origin_value : forall asn4 o, 2 < o ->
  parse_attr_x asn4 1 [o] = Err c_ERR_MSG_UPDATE c_ERR_MSG_UPDATE_INVALID_ORIGIN.
Proof. exact reject_origin_value. Qed.
Print Assumptions C09_rejects_origin_value.

(** ORIGIN /= 1, MED / LOCAL_PREF / ORIGINATOR_ID /= 4, ATOMIC_AGGREGATE /= 0, AGGREGATOR /= 6 (8),
    NEXT_HOP not a multiple of 4 *)
Theorem C09_rejects_fixed_length : forall asn4 code p, wrong_len asn4 code (length p) ->
  exists s, parse_attr_x asn4 code p = Err c_ERR_MSG_UPDATE s.
Proof. exact reject_length. Qed.
Print Assumptions C09_rejects_fixed_length.

Theorem C09_rejects_segment_type : forall asn4 segs i t, Forall (wf_seg (as_lim asn4)) segs ->
  (i < length segs)%nat -> bad_seg_type t ->
  parse_attr_x asn4 2 (enc_path (as_octets asn4) (set_nth i (fun s => (t, snd s)) segs)) =
  Err c_ERR_MSG_UPDATE c_ERR_MSG_UPDATE_MALFORMED_ASPATH.
Proof. exact reject_segtype. Qed.
Print Assumptions C09_rejects_segment_type.

Theorem C09_rejects_prefix_length : forall ap ps, Forall wf_rpfx ps -> forall fills i l,
  (i < length ps)%nat -> 32 < l ->
  exists c s, parse_prefixes_x ap (ser_pfxs (set_nth i (set_len l) (lay_pfxs ap fills ps))) = Err c s.
Proof. exact reject_prefix_len. Qed.
Print Assumptions C09_rejects_prefix_length.

(** an error found in an attribute or a prefix list is the result of the message *)
Theorem C09_rejects_funnel : forall asn4 ap wd ad nd, len wd <= 65535 -> len ad <= 65535 ->
  (forall c s, parse_prefixes_x ap wd = Err c s \/ parse_prefixes_x ap nd = Err c s ->
               exists s', parse_x (asn4, ap) (construct_body wd ad nd) = Err c_ERR_MSG_UPDATE s') /\
  (forall a s, parse_attributes_x asn4 ad = (a, Some s) ->
               parse_x (asn4, ap) (construct_body wd ad nd) = Err c_ERR_MSG_UPDATE s).
Proof. exact rejects_funnel. Qed.
Print Assumptions C09_rejects_funnel.

(** ---- second half, whole messages: every malformation of every reference encoding ---- *)
Theorem C09_rejects : forall var v k, wf var v -> malformation var v k ->
  exists s, parse_x (mode_of var) (ref_corrupt var k v) = Err c_ERR_MSG_UPDATE s.
Proof. exact rejects. Qed.
Print Assumptions C09_rejects.

(** more generally: behind any well-formed attributes, one attribute whose value is rejected *)
Theorem C09_rejects_attribute : forall var l w ws wps nps c s,
  Forall (wf_rattr (v_asn4 var)) l -> NoDup (map attr_code l) ->
  (wa_flags w / 16) mod 2 = 0 -> (wa_ext w = false -> len (wa_payload w) <= 255) ->
  parse_attr_x (v_asn4 var) (wa_code w) (wa_payload w) = Err c s ->
  len (serialise (mkW wps (map (lay_attr var) l ++ w :: ws) nps)) <= 65535 ->
  parse_x (mode_of var) (serialise (mkW wps (map (lay_attr var) l ++ w :: ws) nps)) = Err c_ERR_MSG_UPDATE s.
Proof. exact rejects_attribute. Qed.
Print Assumptions C09_rejects_attribute.

(** the value of C09_nonvacuous has malformations of all four kinds; two of the corrupted encodings *)
Example C09_rejects_nonvacuous :
  malformation all_variants all_value (KOrigin 3) /\
  malformation all_variants all_value (KSegType 1 0) /\
  malformation all_variants all_value (KPrefixLen true 0 33) /\
  malformation all_variants all_value (KPrefixLen false 0 255) /\
  malformation all_variants all_value (KAttrLen 1 2) /\
  malformation all_variants all_value (KAttrLen 3 6) /\
  parse_x (mode_of all_variants) (ref_corrupt all_variants (KOrigin 3) all_value) = Err 3 6 /\
  parse_x (mode_of all_variants) (ref_corrupt all_variants (KAttrLen 3 6) all_value) = Err 3 5.
Proof.
  unfold malformation, has_code, all_value, all_variants. cbn [r_attrs r_nlri r_withdraw map attr_code length v_asn4].
  split; [split; [cbn [In]; tauto | split; vm_compute; reflexivity]|].
  split; [split; [eexists; split; [vm_compute; reflexivity | cbn [length]; repeat constructor] | left; reflexivity]|].
  split; [split; [repeat constructor | split; vm_compute; reflexivity]|].
  split; [split; [repeat constructor | split; vm_compute; reflexivity]|].
  split; [split; [cbn [In]; tauto | split; [repeat constructor | left; split; [reflexivity | discriminate]]]|].
  split; [split; [cbn [In]; tauto | split; [repeat constructor |
          right; right; right; right; split; [reflexivity | vm_compute; discriminate]]]|].
  split; vm_compute; reflexivity.
Qed.
