(** C06 — UPDATE round trip, IPv4 unicast + the twelve standard attributes.

    Models: model/YPrefix4.v, YAttr.v, YUpdate.v (what yabgp/message/update.py and
    yabgp/message/attribute/*.py do with the fix: commits applied (C06's four: /0 prefix stray octet,
    withdrawals dropped next to attributes, signed large-community decode, well-known community names
    with a lower-case letter; and from other properties: ASPath.construct rejects a segment type
    outside 1..4, LargeCommunity.construct rejects an empty or non-12-multiple value).  The property
    holds on the whole stated domain except the one guarded class below
    (C06_nlri_without_attributes_refuted).  In-range now means: AS_PATH segment types 1..4, a
    LARGE_COMMUNITY attribute, when present, carries at least one community (both are what the
    constructors accept; anything else is a construction error, not a mis-encoding).
    Communities are compared in the decoder's text form, modelled as tagged values (see YAttr.v). *)
From YV Require Import lib.Base gen.Consts model.YMsg model.YPrefix4 model.YAttr model.YUpdate
  proof.UpdateProofsPrefix proof.UpdateProofsAttr proof.UpdateProofs.

Ltac forall_list tac := repeat (apply Forall_cons; [tac|]); apply Forall_nil.
Ltac closed_arith := repeat split; vm_compute; congruence.

(** ---- prefixes: every length 0..32, every 32-bit address with zero host bits, every list ---- *)
Theorem C06_prefix_roundtrip : forall ps, Forall wf_pfx ps ->
  exists b, construct_prefix_v4 ps = Ok b /\ b = concat (map enc_prefix ps) /\ parse_prefix_list b = Ok ps.
Proof. exact prefix_roundtrip. Qed.
Print Assumptions C06_prefix_roundtrip.

Theorem C06_prefix_decode_encode : forall ps, Forall wf_pfx ps ->
  parse_prefix_list (concat (map enc_prefix ps)) = Ok ps.
Proof. exact parse_prefix_list_enc. Qed.
Print Assumptions C06_prefix_decode_encode.

Theorem C06_prefix_addpath_roundtrip : forall ps, Forall wf_apfx ps ->
  construct_prefix_v4_ap ps = Ok (concat (map enc_aprefix ps)) /\
  parse_prefix_list_ap (concat (map enc_aprefix ps)) = Ok ps.
Proof. exact prefix_addpath_roundtrip. Qed.
Print Assumptions C06_prefix_addpath_roundtrip.

Example C06_prefix_nonvacuous :
  Forall wf_pfx [(0, 0); (167772160, 8); (2886729728, 12); (3232235520, 23); (4294967295, 32)] /\
  construct_prefix_v4 [(0, 0); (167772160, 8); (2886729728, 12)] = Ok [0; 8; 10; 12; 172; 16].
Proof. split; [forall_list closed_arith | reflexivity]. Qed.

(** ---- the twelve attributes: construct gives flags/type/length/payload, the payload decodes
         to the decoder's form of the value ---- *)
Theorem C06_origin_roundtrip : forall o, o <= 2 ->
  construct_origin o = Ok (frame c_ATTR_Origin_FLAG c_ATTR_Origin_ID [o]) /\ parse_origin [o] = Ok (VNum o).
Proof. exact origin_roundtrip. Qed.
Print Assumptions C06_origin_roundtrip.

Theorem C06_aspath_roundtrip : forall asn4 segs,
  Forall (wf_segment asn4) segs -> len (enc_aspath asn4 segs) <= 65535 ->
  construct_aspath asn4 segs = Ok (frame c_ATTR_ASPath_FLAG c_ATTR_ASPath_ID (enc_aspath asn4 segs)) /\
  parse_aspath asn4 (enc_aspath asn4 segs) = Ok (VPath segs).
Proof. exact aspath_roundtrip. Qed.
Print Assumptions C06_aspath_roundtrip.

Theorem C06_nexthop_roundtrip : forall a, a < 4294967296 ->
  construct_nexthop a = Ok (frame c_ATTR_NextHop_FLAG c_ATTR_NextHop_ID (be 4 a)) /\
  parse_nexthop (be 4 a) = Ok (VNum a).
Proof. exact nexthop_roundtrip. Qed.
Print Assumptions C06_nexthop_roundtrip.

Theorem C06_med_roundtrip : forall v, v < 4294967296 ->
  construct_med v = Ok (frame c_ATTR_MED_FLAG c_ATTR_MED_ID (be 4 v)) /\ parse_u32 (be 4 v) = Ok (VNum v).
Proof. exact (u32_roundtrip c_ATTR_MED_FLAG c_ATTR_MED_ID). Qed.
Print Assumptions C06_med_roundtrip.

Theorem C06_localpref_roundtrip : forall v, v < 4294967296 ->
  construct_localpref v = Ok (frame c_ATTR_LocalPreference_FLAG c_ATTR_LocalPreference_ID (be 4 v)) /\
  parse_u32 (be 4 v) = Ok (VNum v).
Proof. exact (u32_roundtrip c_ATTR_LocalPreference_FLAG c_ATTR_LocalPreference_ID). Qed.
Print Assumptions C06_localpref_roundtrip.

Theorem C06_atomicaggregate_roundtrip :
  construct_atomic = Ok (frame c_ATTR_AtomicAggregate_FLAG c_ATTR_AtomicAggregate_ID []) /\
  parse_atomic [] = Ok VEmpty.
Proof. exact atomic_roundtrip. Qed.
Print Assumptions C06_atomicaggregate_roundtrip.

Theorem C06_aggregator_roundtrip : forall asn4 asn a, asn < asn_lim asn4 -> a < 4294967296 ->
  construct_aggregator asn4 asn a =
    Ok (frame c_ATTR_Aggregator_FLAG c_ATTR_Aggregator_ID (be (asn_size asn4) asn ++ be 4 a)) /\
  parse_aggregator asn4 (be (asn_size asn4) asn ++ be 4 a) = Ok (VPair asn a).
Proof. exact aggregator_roundtrip. Qed.
Print Assumptions C06_aggregator_roundtrip.

Theorem C06_community_roundtrip : forall l, Forall wf_comm l -> len (enc_comms l) <= 255 ->
  construct_community l = Ok (frame c_ATTR_Community_FLAG c_ATTR_Community_ID (enc_comms l)) /\
  parse_community (enc_comms l) = Ok (canon_val (VComms l)).
Proof. exact community_roundtrip. Qed.
Print Assumptions C06_community_roundtrip.

Theorem C06_originatorid_roundtrip : forall a, a < 4294967296 ->
  construct_originator a = Ok (frame c_ATTR_OriginatorID_FLAG c_ATTR_OriginatorID_ID (be 4 a)) /\
  parse_originator (be 4 a) = Ok (VNum a).
Proof. exact originator_roundtrip. Qed.
Print Assumptions C06_originatorid_roundtrip.

Theorem C06_clusterlist_roundtrip : forall l,
  Forall (fun a => a < 4294967296) l -> len (concat (map (be 4) l)) <= 255 ->
  construct_clusterlist l = Ok (frame c_ATTR_ClusterList_FLAG c_ATTR_ClusterList_ID (concat (map (be 4) l))) /\
  parse_clusterlist (concat (map (be 4) l)) = Ok (VNums l).
Proof. exact clusterlist_roundtrip. Qed.
Print Assumptions C06_clusterlist_roundtrip.

Theorem C06_extcommunity_roundtrip : forall l, Forall wf_ext l -> l <> [] -> (length l <= 31)%nat ->
  exists raw,
    construct_extcommunity l = Ok (frame c_ATTR_ExtCommunity_FLAG c_ATTR_ExtCommunity_ID raw) /\
    len raw <= 255 /\
    parse_extcommunity raw = Ok (canon_val (VExts l)).
Proof. exact extcommunity_roundtrip. Qed.
Print Assumptions C06_extcommunity_roundtrip.

Theorem C06_largecommunity_roundtrip : forall l, Forall wf_large l -> l <> [] -> len (enc_large l) <= 255 ->
  construct_largecommunity l = Ok (frame c_ATTR_LargeCommunity_FLAG c_ATTR_LargeCommunity_ID (enc_large l)) /\
  parse_largecommunity (enc_large l) = Ok (VLarge l).
Proof. exact largecommunity_roundtrip. Qed.
Print Assumptions C06_largecommunity_roundtrip.

(** every well-known community value is in range and decodes to its name *)
Example C06_wellknown_nonvacuous :
  Forall wf_comm (map CWk wk_communities ++ [CPair 65535 65281; CPair 0 0; CPair 65535 65535]) /\
  canon_val (VComms [CPair 65535 65281; CPair 1 2]) = VComms [CWk 4294967041; CPair 1 2].
Proof. split; [forall_list closed_arith | reflexivity]. Qed.

(** ---- attribute framing ---- *)
(** one attribute: 1-octet length up to 255, 2-octet length with the extended-length bit above *)
Theorem C06_attr_framing : forall flag tc payload rest,
  (flag / 16) mod 2 = 0 -> len payload <= 65535 ->
  parse_tlv (frame flag tc payload ++ rest) = Some (tc, payload, rest).
Proof. exact parse_tlv_frame. Qed.
Print Assumptions C06_attr_framing.

Theorem C06_attr_framing_boundary : forall flag tc payload,
  (len payload = 255 -> frame flag tc payload = flag :: tc :: 255 :: payload) /\
  (len payload = 256 -> frame flag tc payload = (flag + 16) :: tc :: 1 :: 0 :: payload).
Proof. exact frame_boundary. Qed.
Print Assumptions C06_attr_framing_boundary.

(** any list of in-range attributes with distinct type codes (any order, any mix of length forms) *)
Theorem C06_attributes_roundtrip : forall asn4 l raw,
  Forall (wf_attr asn4) l -> NoDup (map fst l) -> construct_attributes asn4 l = Ok raw ->
  parse_attributes asn4 raw = (canon_attrs l, None).
Proof. exact parse_attributes_roundtrip. Qed.
Print Assumptions C06_attributes_roundtrip.

(** an AS_PATH of 127 two-octet ASes is 256 octets: extended length; 126 is 254: 1-octet length *)
Example C06_aspath_boundary_nonvacuous :
  (exists b, construct_aspath false [(2, repeat 65000 127)] = Ok (80 :: 2 :: 1 :: 0 :: b)) /\
  (exists b, construct_aspath false [(2, repeat 65000 126)] = Ok (64 :: 2 :: 254 :: b)) /\
  wf_attr false (c_BGPTYPE_AS_PATH, VPath [(2, repeat 65000 127); (1, [1; 65535])]).
Proof.
  split; [eexists; vm_compute; reflexivity|]. split; [eexists; vm_compute; reflexivity|].
  split; [reflexivity|]. split; [|vm_compute; congruence].
  forall_list ltac:(split; [closed_arith|]; split; [closed_arith|]; cbn [snd];
                    first [ apply Forall_forall; intros x Hx; apply repeat_spec in Hx; subst x; reflexivity
                          | forall_list closed_arith ]).
Qed.

(** ---- the message ---- *)
(** for every message in the stated ranges ([wf]), in 2- or 4-octet-AS mode: construct returns a
    well-framed type-2 message of at most 4096 octets whose body decodes, without error, to exactly
    the prefixes and attributes given (attributes in the decoder's form), nothing more, nothing less *)
Theorem C06_roundtrip : forall asn4 m, wf asn4 m ->
  exists body,
    construct asn4 m = Ok (Some (marker16 ++ be 2 (len body + 19) ++ [c_MSG_UPDATE] ++ body)) /\
    unframe (marker16 ++ be 2 (len body + 19) ++ [c_MSG_UPDATE] ++ body) = Some (c_MSG_UPDATE, body) /\
    len body + 19 <= c_MAX_LEN /\
    parse asn4 body = Ok (canon m).
Proof. exact update_roundtrip. Qed.
Print Assumptions C06_roundtrip.

(** [wf] is the stated ranges ([in_ranges]) plus two side conditions: announced prefixes come with at
    least one attribute, and there is something to send.  The first is a real restriction of the
    property's domain: without attributes the announced prefixes are NOT sent (construct returns None,
    or sends only the withdrawals).  Proposed known finding C06-nlri-without-attributes. *)
Theorem C06_wf_is_ranges_plus_guard : forall asn4 m,
  wf asn4 m <-> in_ranges asn4 m /\ (u_nlri m = [] \/ u_attrs m <> []) /\ (u_attrs m <> [] \/ u_withdraw m <> []).
Proof. exact wf_iff_in_ranges. Qed.
Print Assumptions C06_wf_is_ranges_plus_guard.

Theorem C06_nlri_without_attributes_refuted :
  (in_ranges false nlri_only /\ u_nlri nlri_only <> [] /\ construct false nlri_only = Ok None) /\
  (in_ranges false nlri_and_withdraw_only /\ u_nlri nlri_and_withdraw_only <> [] /\
   exists body, construct false nlri_and_withdraw_only =
                  Ok (Some (marker16 ++ be 2 (len body + 19) ++ [c_MSG_UPDATE] ++ body)) /\
                parse false body = Ok (mkUpd [(184549376, 8)] [] [])).
Proof. exact nlri_without_attributes_refuted. Qed.
Print Assumptions C06_nlri_without_attributes_refuted.

Definition C06_example : upd :=
  mkUpd [(0, 0); (3232235520, 24)]
        [(1, VNum 0); (2, VPath [(2, [65001; 4200000000]); (1, [7])]); (3, VNum 167772161);
         (4, VNum 4294967295); (5, VNum 100); (6, VEmpty); (7, VPair 4200000000 16843009);
         (8, VComms [CWk 4294967041; CPair 65000 1]); (9, VNum 16843009); (10, VNums [1; 4294967295]);
         (16, VExts [(2, [65000; 4294967295]); (514, [4200000000; 7]); (1537, [1; 1048575])]);
         (32, VLarge [[4294967295; 2147483648; 0]])]
        [(167772160, 8); (0, 0)].

Example C06_roundtrip_nonvacuous : wf true C06_example.
Proof.
  unfold wf, C06_example. cbn [u_withdraw u_attrs u_nlri].
  split; [forall_list closed_arith|].
  split; [forall_list closed_arith|].
  split.
  { repeat (apply Forall_cons || apply Forall_nil); unfold wf_attr; cbn [fst snd].
    - left. split; [reflexivity | vm_compute; congruence].
    - split; [reflexivity|]. split; [|vm_compute; congruence].
      forall_list ltac:(split; [closed_arith|]; split; [closed_arith|]; forall_list closed_arith).
    - right. split; [auto | reflexivity].
    - right. split; [auto | reflexivity].
    - right. split; [auto | reflexivity].
    - reflexivity.
    - repeat split; reflexivity.
    - split; [reflexivity|]. split; [|cbn; lia]. forall_list closed_arith.
    - right. split; [auto 6 | reflexivity].
    - split; [reflexivity|]. split; [|cbn; lia]. forall_list closed_arith.
    - split; [reflexivity|]. split; [|split; [discriminate | cbn; lia]]. forall_list closed_arith.
    - split; [reflexivity|]. split; [|split; [discriminate | cbn; lia]].
      forall_list ltac:(split; [reflexivity|]; forall_list closed_arith). }
  split.
  { cbn [map fst]. repeat constructor; cbn [In]; intros H;
      repeat (destruct H as [H|H]; [discriminate H|]); exact H. }
  split; [right; discriminate|]. split; [left; discriminate|].
  vm_compute. congruence.
Qed.

(** the same message in 2-octet-AS mode is outside the domain (AS 4200000000 does not fit) and is
    refused by construct, not mis-encoded *)
Example C06_out_of_range_is_error : construct false C06_example = PyExc.
Proof. vm_compute. reflexivity. Qed.
