(** C04 — Byte-stream framing is independent of TCP segmentation and always terminates.

    Model: BGP.dataReceived / parse_buffer = the framing machine of model/YFraming.v
    instantiated (model/YSession.v, [data_received]) with the session reaction: the generated
    FSM (gen/FsmGen.v, from yabgp/core/fsm.py) and the hand-written dispatch glue. *)
From YV Require Import lib.Base model.YWorld model.YProto gen.Consts gen.FsmGen model.YFraming
  model.YSession proof.FramingProofs proof.SessionFraming proof.SessionInv.

(** Chunking.  For every decoder behaviour [D], every connection [c] the FSM tracks, every
    world in which [c] is connected, every buffer in which no complete message is pending, and
    EVERY way of cutting a stream into chunks (any number, any sizes, empty ones included):
    delivering the chunks one by one leaves the session in the same state — hence with the
    same handler callbacks, bytes written and close decision, all of which are recorded in the
    world — as delivering their concatenation at once; and the same unconsumed buffer unless
    the agent closed the connection (it does not read a closed connection's buffer). *)
Theorem C04_chunking : forall (D : decoders) (c : nat) (chunks : list bytes) (w : world) (buf : bytes),
  Good c w ->
  quiescent world (dispatch D c) (fun sub d w => F_header_error sub d w) (conn_closed_by_us c) (w, buf) ->
  equiv world (conn_closed_by_us c)
    (feed_all world (dispatch D c) (fun sub d w => F_header_error sub d w) (conn_closed_by_us c) (w, buf) chunks)
    (feed world (dispatch D c) (fun sub d w => F_header_error sub d w) (conn_closed_by_us c) (w, buf) (concat chunks)).
Proof. exact session_chunking_independent. Qed.
Print Assumptions C04_chunking.

(** the hypotheses are satisfiable: an empty buffer is quiescent *)
Example C04_chunking_nonvacuous : forall D c w,
  quiescent world (dispatch D c) (fun sub d w => F_header_error sub d w) (conn_closed_by_us c) (w, []).
Proof. intros. right. reflexivity. Qed.

(** A framing violation closes the connection it arrived on (header error => NOTIFICATION is
    sent by the generated [fsm_header_error] and [c_disc] is set), for every sub-code/data. *)
Theorem C04_header_error_closes : forall c sub d w,
  Good c w -> conn_closed_by_us c (F_header_error sub d w) = true.
Proof. exact header_error_disc. Qed.
Print Assumptions C04_header_error_closes.

(** Termination, generic in the session reaction: the loop of dataReceived never needs more
    than (buffer length + 1) iterations — in fact at most one per 19 octets plus one. *)
Theorem C04_terminates : forall (S : Type) dispatch hdr_err closed (buf : bytes) (s : S),
  snd (frame_loop S dispatch hdr_err closed (Datatypes.S (length buf)) buf s) = true.
Proof. exact loop_terminates_any. Qed.
Print Assumptions C04_terminates.

Theorem C04_iteration_bound : forall (S : Type) dispatch hdr_err closed fuel (buf : bytes) (s : S),
  (19 * iterations S dispatch hdr_err closed fuel buf s <= length buf + 19)%nat.
Proof. exact iterations_bound_any. Qed.
Print Assumptions C04_iteration_bound.

(** what one parse step does with the header: sub-codes and data of the error reactions,
    by computation on the definition (the constants come from gen/Consts.v) *)
Theorem C04_error_subcodes : forall (S : Type) dispatch (hdr_err : N -> bytes -> S -> S) (s : S),
  (* bad marker -> (1,1) no data *)
  parse1 S dispatch hdr_err (repeat 0 16 ++ [0; 19; 4]) s = PErr (hdr_err 1 [] s) /\
  (* length 18 < 19 -> (1,2) with the offending length *)
  parse1 S dispatch hdr_err (repeat 255 16 ++ [0; 18; 4]) s = PErr (hdr_err 2 [0; 18] s) /\
  (* length 0 -> (1,2), and the machine stops (no endless loop) *)
  parse1 S dispatch hdr_err (repeat 255 16 ++ [0; 0; 4]) s = PErr (hdr_err 2 [0; 0] s) /\
  (* length 4097 > 4096 -> (1,2) *)
  parse1 S dispatch hdr_err (repeat 255 16 ++ [16; 1; 2]) s = PErr (hdr_err 2 [16; 1] s).
Proof. intros. repeat split; reflexivity. Qed.
Print Assumptions C04_error_subcodes.
