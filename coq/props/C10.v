(** C10 — Hostile peer input is contained: no crash, no hang, no collateral damage.
    All statements are for EVERY decoder behaviour [D] (the decoders are parameters of the
    session model: whatever Open.parse / Update.parse return or raise). *)
From YV Require Import lib.Base model.YWorld model.YProto gen.Consts gen.FsmGen model.YFraming
  model.YSession proof.SessionInv proof.SessionNoEscape proof.SessionC10 proof.SessionRP.

(** Nothing escapes: along every event sequence from boot (connection results, ANY bytes from
    the peer in any state and segmentation, timer expiries, operator commands) no step raises an
    exception that yabgp does not catch ([OExc]) and no receive loop fails to terminate
    ([OFuel] = the model's loop fuel, buffer length + 1, exhausted). *)
Theorem C10_no_escape : forall (D : decoders) cf capl (es : list event),
  ~ In OExc (run_outs D (world0 cf capl) es) /\ ~ In OFuel (run_outs D (world0 cf capl) es).
Proof. exact no_escape. Qed.
Print Assumptions C10_no_escape.

(** each well-framed message yields at most one report to the application *)
Theorem C10_at_most_one_report : forall (D : decoders) c ty msg w n,
  reports (w_out w) = n ->
  reports (w_out (snd (dispatch D c ty msg w))) = n \/
  reports (w_out (snd (dispatch D c ty msg w))) = S n.
Proof. exact dispatch_reports. Qed.
Print Assumptions C10_at_most_one_report.

(** a malformed UPDATE body never tears down an Established session: exactly one report
    (on_update_error), state stays Established, the hold timer is re-armed from now (untouched
    when the hold time is 0), nothing is written or closed, and the connection records are
    untouched except for the received-UPDATE counter (so the decode mode — 4-octet AS,
    add-path — of the messages after it is unchanged) *)
Theorem C10_bad_update_keeps_session : forall (D : decoders) c msg w,
  w_state w = StEstablished ->
  d_update D (c_asn4 (get_conn c w)) msg = UpSubErr ->
  let r := dispatch D c c_MSG_UPDATE msg w in
  fst r = true /\
  w_state (snd r) = StEstablished /\
  w_out (snd r) = OHandler HUpdateError :: w_out w /\
  t_dl (w_th (snd r)) = (if w_hold w =? 0 then t_dl (w_th w) else Some (w_now w + secs (w_hold w))) /\
  w_conns (snd r) = upd_nth c (on_recv bump_upd) (w_conns w).
Proof. exact bad_update_keeps_session. Qed.
Print Assumptions C10_bad_update_keeps_session.

(** "After any input the agent is either still in session or has closed cleanly with its
    reconnect scheduled": along every event sequence from start-up (any bytes in any state),
    unless the operator stopped the peer, the FSM is in a session state on a connected tracked
    transport, or Idle with the restart timer armed / the close of the tracked connection in
    progress (whose completion arms it), or in Connect with the connect-retry timer armed. *)
Theorem C10_in_session_or_reconnect_scheduled : forall (D : decoders) cf capl es,
  let w := run D (world0 cf capl) (EBoot :: es) in
  w_auto w = true ->
  match w_state w with
  | StOpenSent | StOpenConfirm | StEstablished => exists c, w_proto w = Some c /\ conn_connected c w = true
  | StIdle => t_dl (w_tih w) <> None \/
              (exists c, w_proto w = Some c /\ conn_connected c w = true /\ c_disc (get_conn c w) = true)
  | StConnect => t_dl (w_tcr w) <> None
  | StActive => False
  end.
Proof.
  intros D cf capl es w Ha. destruct (reconnect_pending D cf capl es) as [(H1 & H2 & H3 & H4) H5].
  fold w in H1, H2, H3, H4, H5. specialize (H5 Ha). unfold pending, closing_tracked in H5. unfold tracked_ok in H2.
  destruct (w_state w); auto; destruct (H2 eq_refl) as (c & A & B & _); exists c; auto.
Qed.
Print Assumptions C10_in_session_or_reconnect_scheduled.
