(** C20 -- with message logging on, every reported event appends exactly one line that is a
    complete JSON object with keys t/seq/type/msg, and sequence numbers increase by exactly one
    from line to line across rotations and across agent restarts at any point, including a
    crash in the middle of a write; a restart never refuses to start because of its own log.

    [run c thr h]: the agent (code version [c]) is started on an empty message directory with
    rotation threshold [thr] octets and the history [h] happens (callbacks, clean restarts,
    crashes that cut the write in progress at octet [k], each followed by a restart).
    [observe] is what an auditor reads off the disk; [audit] is spec/LogSpec.v.

    Code versions: [cfg_orig] = yabgp as found; [cfg_fixed] = with build/proposed/
    c20-scan-back.diff and c20-serialise-first.diff applied (the version the check ties to
    /repo).  Status: the full statement is FALSE for both versions (torn tail); for the original
    code it is false in two more ways, which the two patches repair. *)
From YV Require Import lib.Base model.YLog spec.LogSpec proof.LogProofs proof.LogSizes proof.LogPeers.

(** the property at full strength *)
Definition C20_audit_statement (c : cfg) : Prop :=
  forall thr h, audit (observe (run c thr h)) = true.

(** REFUTED, repaired and original code (known finding C20-torn-tail): a crash that cuts a line
    leaves a fragment that json.loads rejects; get_last_seq_and_file then calls sys.exit() *)
Theorem C20_refuted_torn_tail :
  exists thr h, audit (observe (run cfg_fixed thr h)) = false /\ exits (run cfg_fixed thr h) = 1.
Proof. exists 1000, w_torn. exact refuted_torn_fixed. Qed.
Print Assumptions C20_refuted_torn_tail.

(** ... also when only the newline is missing: the restart works, the next record is glued to the
    unterminated one, the restart after that exits *)
Theorem C20_refuted_torn_newline :
  exists thr h, audit (observe (run cfg_fixed thr h)) = false /\ exits (run cfg_fixed thr h) = 1.
Proof. exists 1000, w_torn_nl. exact refuted_torn_nl_fixed. Qed.
Print Assumptions C20_refuted_torn_newline.

Theorem C20_refuted_torn_tail_orig : exists thr h, audit (observe (run cfg_orig thr h)) = false.
Proof. exists 1000, w_torn. exact refuted_torn_orig. Qed.
Print Assumptions C20_refuted_torn_tail_orig.

(** REFUTED on the original code, repaired by c20-scan-back.diff: a restart right after a
    rotation reads the empty newest file and numbers the next record 1 again *)
Theorem C20_refuted_rotation_restart_orig :
  exists thr h, audit (observe (run cfg_orig thr h)) = false.
Proof. exists 100, w_rot. exact (proj1 refuted_rot_orig). Qed.
Print Assumptions C20_refuted_rotation_restart_orig.

(** REFUTED on the original code, repaired by c20-serialise-first.diff: a payload the
    serialiser rejects leaves half a line followed by a newline *)
Theorem C20_refuted_unserialisable_orig :
  exists thr h, audit (observe (run cfg_orig thr h)) = false.
Proof. exists 1000, w_ser. exact refuted_ser_orig. Qed.
Print Assumptions C20_refuted_unserialisable_orig.

(** PROVED for the repaired code, all thresholds, all histories of any length in which no
    crash cuts a line (every crash leaves none or all of the octets of the write in progress):
    no restart refuses to start, every line is complete, numbers go up by exactly one across
    files and restarts, and there is exactly one line per reported event *)
Theorem C20_audit_guarded : forall thr h,
  no_torn h = true -> audit (observe (run cfg_fixed thr h)) = true.
Proof. exact audit_fixed. Qed.
Print Assumptions C20_audit_guarded.

(** PROVED for either code version under the exact guards evaluated along the run
    ([admissible]: (G-torn) no crash cuts a line; original code only: (G-ser) payloads are
    serialisable, (G-rot) no (re)start while the newest file is empty and an older one is not) *)
Theorem C20_audit_guarded_any_version : forall c thr h,
  admissible_run c thr (start_on c []) h = true -> audit (observe (run c thr h)) = true.
Proof. exact audit_admissible. Qed.
Print Assumptions C20_audit_guarded_any_version.

(** RECORD SIZES.  In the abstract model a line is a list element, so that start-up finds "the
    last line of the newest file that has one" whatever its length is built in; the three
    theorems below make that explicit and the check ties it to the code with records from 47 to
    more than 70000 octets (harness/props/c20.py, "record-size dimension").

    (a) On octets: `for line in fh: pass` ends with the last line of the text, for EVERY length
    of that line and of the text before it ([terminated pre]: empty or ending in a newline);
    an unterminated tail is returned as it is. *)
Theorem C20_recovery_reads_last_line : forall pre l,
  terminated pre -> ~ In 10 l ->
  last_line (pre ++ l ++ [10]) = l ++ [10] /\ (l <> [] -> last_line (pre ++ l) = l).
Proof. exact last_line_any_length. Qed.
Print Assumptions C20_recovery_reads_last_line.

(** (b) The octet-level start-up (newest file with an octet, its last line, branch on the first
    character; json.loads(..)['seq'] and eval(..)[1] are ANY two partial functions) computes
    exactly the abstract [scan] of the abstracted directory: no bound on any length. *)
Theorem C20_recovery_octets_refine : forall pj pl fs,
  recover_octets pj pl fs = scan (map (abs_file pj pl) fs).
Proof. exact recover_refines. Qed.
Print Assumptions C20_recovery_octets_refine.

(** (c) Recovery and numbering are independent of record sizes: two runs of the repaired code
    whose histories agree up to the octet counts of the records, the offsets of the cuts (same
    class: nothing / all / all but the newline / a proper part) and the rotation threshold give
    the auditor the same sequence of lines, the same refusals and count of reported events, the
    same next sequence number, hence the same audit verdict.  Sizes and thresholds only decide
    in which file a line lands. *)
Theorem C20_recovery_independent_of_sizes : forall thr1 thr2 h1 h2,
  map shape_of h1 = map shape_of h2 ->
  all_lines (observe (run cfg_fixed thr1 h1)) = all_lines (observe (run cfg_fixed thr2 h2)) /\
  refused (observe (run cfg_fixed thr1 h1)) = refused (observe (run cfg_fixed thr2 h2)) /\
  reported (observe (run cfg_fixed thr1 h1)) = reported (observe (run cfg_fixed thr2 h2)) /\
  alive (run cfg_fixed thr1 h1) = alive (run cfg_fixed thr2 h2) /\
  audit (observe (run cfg_fixed thr1 h1)) = audit (observe (run cfg_fixed thr2 h2)).
Proof. exact sizes_irrelevant_fixed. Qed.
Print Assumptions C20_recovery_independent_of_sizes.

(** (c) is about the repaired start-up; it is false for the code as found (newest file only) *)
Example C20_sizes_matter_orig :
  let h := [Ev UpdateReceived true 147; Restart] in
  alive (run cfg_orig 100 h) = Some 1 /\ alive (run cfg_orig 1000 h) = Some 2.
Proof. exact sizes_matter_orig. Qed.

(** (a) is not true of every reader: one that looks at the last 4096 octets of the file is handed
    text that does not start with '{' as soon as the last line has 4097 octets *)
Example C20_block_reader_differs :
  let b := [123; 125; 10] ++ 123 :: rep 120 4094 ++ [125; 10] in
  len (last_line b) = 4097 /\ hd 0 (last_line b) = 123 /\
  hd 0 (last_line (block_tail 4096 b)) = 120 /\
  last_line (block_tail 4097 b) = last_line b.
Proof. exact block_reader_differs. Qed.

(** the hypothesis of (c) relates histories that really differ in sizes *)
Example C20_shape_nonvacuous :
  map shape_of [Ev SendOpen true 52; Ev UpdateReceived true 147; Crash UpdateReceived true 147 10; Restart] =
  map shape_of [Ev SendOpen true 70000; Ev UpdateReceived true 4097; Crash UpdateReceived true 70000 69000; Restart].
Proof. exact shape_example. Qed.

(** PEER ADDRESSES.  The handler's dictionaries (current file, next sequence number) and the
    directory are keyed by the LOWER-CASED address; callbacks arrive with the address as configured
    (an IPv6 remote_addr may be spelled 2001:DB8::1).  In the model every access -- lookup AND the
    store done by a rotation -- goes through [lower]; the check drives the code with IPv4, lower-,
    upper- and mixed-case IPv6 spellings, spellings that change from event to event, and two
    peers in one handler, crossed with rotations and restarts.

    (d) the spelling an event (or a registration) arrives with is irrelevant *)
Theorem C20_peer_spelling_irrelevant : forall c thr h a b cb ok sz k,
  lower a = lower b ->
  hstep c thr h (HEv a cb ok sz) = hstep c thr h (HEv b cb ok sz) /\
  hstep c thr h (HCrash a cb ok sz k) = hstep c thr h (HCrash b cb ok sz k) /\
  hregister c h a = hregister c h b.
Proof. exact spelling_irrelevant. Qed.
Print Assumptions C20_peer_spelling_irrelevant.

(** (e) a handler that serves several peers: after ANY handler history the log of a registered
    peer is exactly the single-peer run of its share of the history ([proj]: its own callbacks
    under any spelling, every restart, a plain restart for a crash inside another peer's write) *)
Theorem C20_peers_independent : forall c thr peers es k,
  In k (map lower peers) ->
  hget k (hrun c thr peers es) = Some (run c thr (flat_map (proj k) es)).
Proof. exact peers_independent. Qed.
Print Assumptions C20_peers_independent.

(** (f) so the guarded audit theorem holds for every peer of the repaired code's handler *)
Theorem C20_audit_every_peer : forall thr peers es a,
  In a peers -> no_torn (flat_map (proj (lower a)) es) = true ->
  exists s, hget (lower a) (hrun cfg_fixed thr peers es) = Some s /\ audit (observe s) = true.
Proof. exact audit_every_peer. Qed.
Print Assumptions C20_audit_every_peer.

(** (g) the agent's wiring: the session layer reports events with factory.peer_addr, which is the
    configured text unchanged ([factory_peer_addr], compared with the real BGPPeering on every run);
    such an event is in the share of the log init() registered, and that log exists *)
Theorem C20_agent_wiring : forall a cb ok sz k,
  proj (lower a) (HEv (factory_peer_addr a) cb ok sz) = [Ev cb ok sz] /\
  proj (lower a) (HCrash (factory_peer_addr a) cb ok sz k) = [Crash cb ok sz k] /\
  hget (lower (factory_peer_addr a)) (hstart cfg_fixed [a]) = Some (start_on cfg_fixed []).
Proof. exact agent_wiring. Qed.
Print Assumptions C20_agent_wiring.

(** "2001:DB8::1", "2001:db8::1" and "10.0.0.2" registered: two logs; the two spellings share one
    (three records, next number 4, across a rotation and a restart), the other peer has its own *)
Example C20_peers_nonvacuous :
  let A := [50; 48; 48; 49; 58; 68; 66; 56; 58; 58; 49] in
  let a := [50; 48; 48; 49; 58; 100; 98; 56; 58; 58; 49] in
  let b := [49; 48; 46; 48; 46; 48; 46; 50] in
  let es := [HEv A UpdateReceived true 147; HEv b SendOpen true 52; HEv a UpdateReceived true 147;
             HRestart; HEv A SendOpen true 52] in
  length (hrun cfg_fixed 100 [A; a; b] es) = 2%nat /\
  option_map alive (hget a (hrun cfg_fixed 100 [A; a; b] es)) = Some (Some 4) /\
  option_map alive (hget b (hrun cfg_fixed 100 [A; a; b] es)) = Some (Some 2) /\
  no_torn (flat_map (proj a) es) = true.
Proof. exact peers_example. Qed.

(** the audit's "+1 from line to line" implies that no sequence number is used twice *)
Theorem C20_never_reused : forall ls, consecutive ls = true -> NoDup (seqs ls).
Proof. exact consecutive_nodup. Qed.
Print Assumptions C20_never_reused.

(** the hypotheses are satisfiable by non-trivial histories: two rotations, a clean restart
    right after a rotation, a crash before the first octet and one after the last octet of an
    update (i.e. before check_file_size), an unserialisable payload, keepalives on and off *)
Definition ex_history : history :=
  [Ev SendOpen true 49; Ev OpenReceived false 70; Ev UpdateReceived true 60; Restart;
   Ev (Keepalive false) true 45; Ev (Keepalive true) true 45; Crash UpdateReceived true 60 0;
   Crash UpdateReceived true 60 60; Ev UpdateReceived true 60; Ev ConnLost true 45; Restart].

Example C20_guard_nonvacuous :
  no_torn ex_history = true /\
  sx_state (run cfg_fixed 150 ex_history) =
  SL [SL [SL [SL [SL [SN 0; SN 1]; SL [SN 0; SN 2]; SL [SN 0; SN 3]]; SN 0; SN 179];
          SL [SL [SL [SN 0; SN 4]; SL [SN 0; SN 5]; SL [SN 0; SN 6]]; SN 0; SN 165];
          SL [SL [SL [SN 0; SN 7]]; SN 0; SN 45]];
      SL [SN 8]; SN 0; SN 7].
Proof. vm_compute. split; reflexivity. Qed.

Example C20_orig_guard_nonvacuous :
  admissible_run cfg_orig 150 (start_on cfg_orig [])
    [Ev SendOpen true 49; Ev UpdateReceived true 60; Restart; Ev UpdateReceived true 60;
     Ev SendOpen true 49; Restart] = true.
Proof. vm_compute. reflexivity. Qed.
