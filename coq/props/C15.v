(** C15 - list decoders are compositional; attribute order and unknown TLVs are irrelevant.

    Statements only; proofs in proof/ConcatProofs.v (UPDATE / OPEN models), ConcatProofsTlv.v (every
    element-slicing loop shape of model/YLoops.v, element decoder universally quantified) and
    ConcatProofsMp.v (IPv6 unicast, VPNv4/v6, flow-specification rule list).

    Completeness of [a] is STRUCTURAL everywhere ("a is a sequence of whole elements":
    [seq_of elem a], [Forall elem es] with a = concat es, or "length a is a multiple of the width"),
    which covers non-canonical encodings and is what makes the law true; "dec a = Ok l" is too weak
    for the prefix decoders (C15_prefix4_ok_is_not_complete).  [b] is ANY byte string.

    Not covered by a theorem (oracle + correspondence on concatenations only, harness/props/c15.py):
    labeled unicast routes, flow-specification components/operators, add-path variants of the MP
    families; oracle only (no element-level model): EVPN routes, BGP-LS NLRIs / descriptors,
    link-state attribute TLVs, Prefix-SID TLVs - their FRAMING is covered by C15_tlv_concat for
    every element decoder. *)
From YV Require Import lib.Base gen.Consts model.YMsg model.YPrefix4 model.YAttr model.YUpdate model.YOpen.
From YV Require model.YLoops model.YMp model.YPrefix6 model.YVpn model.YFlow4.
From YV Require proof.ConcatProofs proof.ConcatProofsTlv proof.ConcatProofsMp.
From Coq Require Import Permutation.

Module P := ConcatProofs.
Module T := ConcatProofsTlv.
Module M := ConcatProofsMp.

(** ---- IPv4 prefix lists (Update.parse_prefix_list = IPv4Unicast.parse) ---- *)
Theorem C15_prefix4_concat : forall a b, P.seq_of P.elem_prefix4 a ->
  parse_prefix_list (a ++ b) = P.app_res (parse_prefix_list a) (parse_prefix_list b).
Proof. exact P.prefix4_concat. Qed.
Print Assumptions C15_prefix4_concat.

Theorem C15_prefix4_addpath_concat : forall a b, P.seq_of P.elem_prefix4_ap a ->
  parse_prefix_list_ap (a ++ b) = P.app_res (parse_prefix_list_ap a) (parse_prefix_list_ap b).
Proof. exact P.prefix4_ap_concat. Qed.
Print Assumptions C15_prefix4_addpath_concat.

Example C15_prefix4_example :
  P.seq_of P.elem_prefix4 ([24; 10; 1; 2] ++ [0] ++ [32; 1; 2; 3; 255] ++ []).
Proof.
  repeat (constructor; [eexists _, _; split; [reflexivity | split; [cbv; congruence | reflexivity]]|]).
  constructor.
Qed.

Theorem C15_prefix4_ok_is_not_complete :
  exists a b l, parse_prefix_list a = Ok l /\
    parse_prefix_list (a ++ b) <> P.app_res (parse_prefix_list a) (parse_prefix_list b).
Proof. exact P.prefix4_ok_is_not_complete. Qed.
Print Assumptions C15_prefix4_ok_is_not_complete.

(** ---- communities, cluster list, extended communities, large communities ---- *)
Theorem C15_community_concat : forall a b, Nat.modulo (length a) 4 = 0%nat ->
  parse_community (a ++ b) = P.app_aval (parse_community a) (parse_community b).
Proof. exact P.community_concat. Qed.
Print Assumptions C15_community_concat.

Theorem C15_clusterlist_concat : forall a b, Nat.modulo (length a) 4 = 0%nat ->
  parse_clusterlist (a ++ b) = P.app_aval (parse_clusterlist a) (parse_clusterlist b).
Proof. exact P.clusterlist_concat. Qed.
Print Assumptions C15_clusterlist_concat.

Theorem C15_extcommunity_concat : forall a b, Nat.modulo (length a) 8 = 0%nat ->
  parse_extcommunity (a ++ b) = P.app_aval (parse_extcommunity a) (parse_extcommunity b).
Proof. exact P.extcommunity_concat. Qed.
Print Assumptions C15_extcommunity_concat.

Theorem C15_largecommunity_concat : forall a b, Nat.modulo (length a) 12 = 0%nat ->
  parse_largecommunity (a ++ b) = P.app_aval (parse_largecommunity a) (parse_largecommunity b).
Proof. exact P.largecommunity_concat. Qed.
Print Assumptions C15_largecommunity_concat.

(** for the fixed-width kinds the structural guard is the same thing as "a decodes" *)
Theorem C15_community_complete_iff : forall a,
  Nat.modulo (length a) 4 = 0%nat <-> exists v, parse_community a = Ok v.
Proof. exact P.community_complete_iff. Qed.
Print Assumptions C15_community_complete_iff.

Example C15_community_example :
  parse_community ([255; 255; 255; 1] ++ [0; 1; 0; 2]) = Ok (VComms [CWk 4294967041; CPair 1 2]).
Proof. vm_compute. reflexivity. Qed.

(** ---- AS_PATH segments (2- and 4-octet AS numbers) ---- *)
Theorem C15_aspath_concat : forall asn4 a b, P.seq_of (P.elem_segment asn4) a ->
  parse_aspath asn4 (a ++ b) = P.app_aval (parse_aspath asn4 a) (parse_aspath asn4 b).
Proof. exact P.aspath_concat. Qed.
Print Assumptions C15_aspath_concat.

Example C15_aspath_example : P.seq_of (P.elem_segment false) ([2; 2; 0; 1; 0; 2] ++ [1; 0] ++ []).
Proof.
  constructor; [exists 2, 2, [0; 1; 0; 2]; split; [reflexivity | split; [cbv; split; congruence | reflexivity]]|].
  constructor; [exists 1, 0, []; split; [reflexivity | split; [cbv; split; congruence | reflexivity]]|].
  constructor.
Qed.

(** ---- path attributes: permutation, unknown attribute between known ones ---- *)
(** [l] : whole attributes (flags, type, 1- or 2-octet length, value) each of which decodes alone
    ([P.attr_ok]), with pairwise distinct type codes.  Any permutation decodes without error to the
    same map (the same value under every key). *)
Theorem C15_attr_permutation : forall asn4 l l',
  Permutation l l' -> Forall (P.attr_ok asn4) l -> NoDup (map P.it_tc l) ->
  snd (parse_attributes asn4 (P.enc_items l)) = None /\ snd (parse_attributes asn4 (P.enc_items l')) = None /\
  forall k, P.lookup k (fst (parse_attributes asn4 (P.enc_items l'))) =
            P.lookup k (fst (parse_attributes asn4 (P.enc_items l))).
Proof. exact P.attr_permutation. Qed.
Print Assumptions C15_attr_permutation.

Theorem C15_attr_unknown_transparent : forall asn4 l1 l2 u,
  Forall (P.attr_ok asn4) (l1 ++ u :: l2) -> NoDup (map P.it_tc (l1 ++ u :: l2)) ->
  fst (parse_attributes asn4 (P.enc_items (l1 ++ u :: l2))) =
    P.items_map l1 ++ (P.it_tc u, P.it_val u) :: P.items_map l2 /\
  fst (parse_attributes asn4 (P.enc_items (l1 ++ l2))) = P.items_map l1 ++ P.items_map l2.
Proof. exact P.attr_unknown_transparent. Qed.
Print Assumptions C15_attr_unknown_transparent.

Example C15_attr_example :
  Forall (P.attr_ok false)
    [P.mkItem [64; 1; 1; 0] 1 (VNum 0); P.mkItem [192; 99; 2; 7; 7] 99 (VHex [7; 7]);
     P.mkItem [80; 5; 0; 4; 0; 0; 0; 100] 5 (VNum 100)].
Proof.
  repeat constructor.
  - exists [0]. split; [left; exists 64; repeat split; cbv; congruence | reflexivity].
  - exists [7; 7]. split; [left; exists 192; repeat split; cbv; congruence | reflexivity].
  - exists [0; 0; 0; 100]. split; [right; exists 80; repeat split; cbv; congruence | reflexivity].
Qed.

(** ---- OPEN: capabilities of one optional parameter, optional parameters ---- *)
(** the decoder folds the elements into (AS number, capability dictionary): decoding a ++ b is
    decoding b from the state decoding a left *)
Theorem C15_capabilities_concat : forall a b, P.seq_of P.elem_cap a -> forall asn d,
  caps_loop (length (a ++ b)) (a ++ b) asn d =
  P.seq_st (caps_loop (length a) a asn d) (caps_loop (length b) b).
Proof. exact P.caps_concat. Qed.
Print Assumptions C15_capabilities_concat.

Theorem C15_optional_parameters_concat : forall a b, P.seq_of P.elem_param a -> forall asn d,
  params_loop (length (a ++ b)) (a ++ b) asn d =
  P.seq_st (params_loop (length a) a asn d) (params_loop (length b) b).
Proof. exact P.params_concat. Qed.
Print Assumptions C15_optional_parameters_concat.

(** an unknown capability code touches only its own entry of [cd_other] *)
Theorem C15_capability_unknown_transparent : forall code v asn d, P.known_code code = false ->
  cap_apply code v asn d = Ok (asn, set_other (other_set code v (cd_other d)) d).
Proof. exact P.cap_apply_unknown. Qed.
Print Assumptions C15_capability_unknown_transparent.

(** read as LISTS the dictionary entries are not all compositional: a second LLGR (or extended
    next hop) capability replaces the entries of the first instead of extending them
    (known finding C15-open-repeated-llgr-extnexthop-replaced) *)
Theorem C15_capabilities_list_reading_refuted :
  P.seq_of P.elem_cap P.w_llgr1 /\ P.seq_of P.elem_cap P.w_llgr2 /\
  exists la lb asn d,
    res_map (fun st => cd_llgr (snd st)) (caps_loop 9 P.w_llgr1 1 cd_empty) = Ok (Some la) /\
    res_map (fun st => cd_llgr (snd st)) (caps_loop 9 P.w_llgr2 1 cd_empty) = Ok (Some lb) /\
    caps_loop 18 (P.w_llgr1 ++ P.w_llgr2) 1 cd_empty = Ok (asn, d) /\ cd_llgr d = Some lb /\
    cd_llgr d <> Some (la ++ lb).
Proof. exact P.caps_llgr_replaced. Qed.
Print Assumptions C15_capabilities_list_reading_refuted.

(** ---- every element-slicing loop: one theorem, element decoder arbitrary ---- *)
(** TLV walkers (header h octets, w-octet length at offset off inside the header):
    4/2/2 LinkState.unpack, BGPLS.parse, BGPLS.parse_nlri (descriptors), parse_node_descriptor,
    SRv6 End.X / LAN End.X / Locator sub-TLVs; 3/1/2 BGPPrefixSID.unpack, SRv6 L3 service sub-TLVs,
    SRv6 SID information sub-sub-TLVs; 2/1/1 EVPN routes, OPEN capabilities. *)
Theorem C15_tlv_concat : forall h off w (X : Type) (elt : bytes -> option (list X)) a b,
  (1 <= h)%nat -> (off + w <= h)%nat -> T.seq_of (T.elem (YLoops.tlv h off w)) a ->
  T.gdec (YLoops.tlv h off w) elt (a ++ b) =
  T.opt_app (T.gdec (YLoops.tlv h off w) elt a) (T.gdec (YLoops.tlv h off w) elt b).
Proof. exact T.tlv_concat. Qed.
Print Assumptions C15_tlv_concat.

(** an element contributing [xu] ([hex item] for an unknown TLV that is kept, [] for one that is
    skipped) between known ones: the decodings of the others are exactly those without it *)
Theorem C15_unknown_tlv_transparent : forall h off w (X : Type) (elt : bytes -> option (list X)) a u b xu,
  (1 <= h)%nat -> (off + w <= h)%nat -> T.seq_of (T.elem (YLoops.tlv h off w)) a ->
  T.elem (YLoops.tlv h off w) u -> elt u = Some xu ->
  T.gdec (YLoops.tlv h off w) elt (a ++ u ++ b) =
    T.opt_app (T.gdec (YLoops.tlv h off w) elt a) (T.opt_app (Some xu) (T.gdec (YLoops.tlv h off w) elt b)) /\
  T.gdec (YLoops.tlv h off w) elt (a ++ b) =
    T.opt_app (T.gdec (YLoops.tlv h off w) elt a) (T.gdec (YLoops.tlv h off w) elt b).
Proof. exact T.tlv_unknown_transparent. Qed.
Print Assumptions C15_unknown_tlv_transparent.

(** what a whole TLV element is *)
Theorem C15_tlv_element : forall h off w e, (1 <= h)%nat ->
  T.elem (YLoops.tlv h off w) e <->
  ((h <= length e)%nat /\ length e = (h + N.to_nat (unbe (slice off (off + w) e)))%nat).
Proof. exact T.elem_tlv_iff. Qed.
Print Assumptions C15_tlv_element.

Example C15_tlv_example : T.seq_of (T.elem (YLoops.tlv 4 2 2)) ([4; 4; 0; 4; 2; 2; 2; 2] ++ [255; 255; 0; 0] ++ []).
Proof. repeat (constructor; [apply T.elem_tlv_iff; [cbv; auto | split; [cbv; auto 10 | reflexivity]]|]). constructor. Qed.

(** the same law for every loop shape that slices whole elements (fixed-width lists, extended
    communities, AS_PATH, path attributes, OPEN optional parameters and the three TLV headers) *)
Theorem C15_shape_concat : forall (s : YLoops.shape) (X : Type) (elt : bytes -> option (list X)) a b,
  In s T.sliced_shapes -> T.seq_of (T.elem s) a ->
  T.gdec s elt (a ++ b) = T.opt_app (T.gdec s elt a) (T.gdec s elt b).
Proof.
  intros s X elt a b Hin Ha. pose proof T.sliced_shapes_ok as H.
  rewrite Forall_forall in H. destruct (H s Hin) as (G & L & C). apply T.shape_concat; assumption.
Qed.
Print Assumptions C15_shape_concat.

(** the walker [gdec] is the loop of model/YLoops.v (tied to the source by C11): whenever it returns
    a list, the loop of YLoops with "raises" = "the element decoder fails" ends normally *)
Theorem C15_gdec_is_the_modelled_loop : forall (s : YLoops.shape) (X : Type) (elt : bytes -> option (list X)) fuel d l,
  T.gwalk s elt fuel d = Some l -> exists n, YLoops.run (YLoops.body s (T.raises_of s elt)) fuel d = YLoops.Done n.
Proof. exact T.gwalk_run. Qed.
Print Assumptions C15_gdec_is_the_modelled_loop.

(** the flow-specification rule list loop is not of this kind (2-octet length read unmasked) *)
Theorem C15_flowspec_rule_list_not_local :
  let d := T.w_fs_long_rule ++ [3; 1; 129; 6] in
  YLoops.consume YLoops.flowspec_list d = Some (N.to_nat (YLoops.u16_at 0 d) + 2)%nat /\
  len T.w_fs_long_rule < YLoops.u16_at 0 d.
Proof. exact T.flowspec_list_not_local. Qed.
Print Assumptions C15_flowspec_rule_list_not_local.

Theorem C15_flowspec_rules_refuted :
  YFlow4.fs_parse_all M.w_fs_rule240 = YMp.Ok [[(3, YFlow4.COps [(0, 1, 6)])]] /\
  YFlow4.fs_parse_all M.w_fs_rule2 = YMp.Ok [[(3, YFlow4.COps [(0, 1, 17)])]] /\
  YFlow4.fs_parse_all (M.w_fs_rule240 ++ M.w_fs_rule2) <>
    M.app_mp (YFlow4.fs_parse_all M.w_fs_rule240) (YFlow4.fs_parse_all M.w_fs_rule2).
Proof. exact M.flowspec_rules_refuted. Qed.
Print Assumptions C15_flowspec_rules_refuted.

(** ---- IPv6 unicast ---- *)
(** [es]: elements (length octet of ANY value + exactly ceil(l/8) octets).  Guard [M.safe6 es t]:
    at no element boundary inside [es] is the remaining data [concat (rest of es) ++ t] exactly
    00 00 - the decoder's special case (known finding C15-ipv6-unicast-trailing-double-default). *)
Theorem C15_prefix6_concat : forall es b, Forall M.elem6 es -> M.safe6 es b -> M.safe6 es [] ->
  YPrefix6.parse6_all (concat es ++ b) = M.app_mp (YPrefix6.parse6_all (concat es)) (YPrefix6.parse6_all b).
Proof. exact M.prefix6_concat. Qed.
Print Assumptions C15_prefix6_concat.

Theorem C15_prefix6_refuted_split_double_default :
  exists a b, Forall M.elem6 [a] /\ Forall M.elem6 [b] /\
    YPrefix6.parse6_all (a ++ b) <> M.app_mp (YPrefix6.parse6_all a) (YPrefix6.parse6_all b).
Proof. exact M.prefix6_refuted_split_double_default. Qed.
Print Assumptions C15_prefix6_refuted_split_double_default.

Theorem C15_prefix6_refuted_double_default_then_more :
  exists es b, Forall M.elem6 es /\ Forall M.elem6 [b] /\
    YPrefix6.parse6_all (concat es ++ b) <> M.app_mp (YPrefix6.parse6_all (concat es)) (YPrefix6.parse6_all b).
Proof. exact M.prefix6_refuted_double_default_then_more. Qed.
Print Assumptions C15_prefix6_refuted_double_default_then_more.

Example C15_prefix6_example : Forall M.elem6 [[64; 32; 1; 13; 184; 0; 0; 0; 1]; [0]; [8; 32]] /\
  M.safe6 [[64; 32; 1; 13; 184; 0; 0; 0; 1]; [0]; [8; 32]] [0] /\ M.safe6 [[64; 32; 1; 13; 184; 0; 0; 0; 1]; [0]; [8; 32]] [].
Proof.
  split; [repeat constructor; eexists _, _; split; reflexivity|].
  split; cbn; repeat split; discriminate.
Qed.

(** ---- VPNv4 / VPNv6 (announce and withdraw) ---- *)
(** elements: bit length >= 88 (label + RD present) and exactly ceil(l/8) octets.  No other guard:
    since fix f65d182 the label stack is read inside the route. *)
Theorem C15_vpn_concat : forall v6 withdraw es b, Forall M.elem_vpn es ->
  YVpn.parse_vpn_all v6 withdraw (concat es ++ b) =
  M.app_mp (YVpn.parse_vpn_all v6 withdraw (concat es)) (YVpn.parse_vpn_all v6 withdraw b).
Proof. exact M.vpn_concat. Qed.
Print Assumptions C15_vpn_concat.

(** outside the element predicate (an NLRI shorter than label + RD): the RD is read from the next route *)
Theorem C15_vpn_short_route_reads_next :
  exists a b, YVpn.parse_vpn_all false true (a ++ b) <>
    M.app_mp (YVpn.parse_vpn_all false true a) (YVpn.parse_vpn_all false true b).
Proof. exact M.vpn_short_route_reads_next. Qed.
Print Assumptions C15_vpn_short_route_reads_next.

Example C15_vpn_example : Forall M.elem_vpn [[96; 0; 1; 1; 0; 0; 0; 100; 0; 0; 0; 1; 10]].
Proof. repeat constructor. eexists _, _. split; [reflexivity | split; [cbv; congruence | reflexivity]]. Qed.
