(** C11 — every decoder terminates; UPDATE decoding with in-range length fields never raises.

    What is proved (for ALL byte strings, no length bound):
    - the `while` loops and recursive call sites found in the source of yabgp/message/** by
      harness/inventory.py (gen/Inventory.v, regenerated on every run) are exactly the modelled
      ones, nothing is left unmodelled, every `for` loop iterates over a range/container;
    - every modelled loop makes progress, hence ends after at most [length d] iterations, for
      every behaviour of the element decoders (which can only raise);
    - nested TLV decoders and the mutually recursive SRv6 sub-TLV decoders do at most [length d]
      iterations over ALL levels together;
    - SRCapabilities.unpack / SRLB.unpack AS FOUND do not terminate (refuted, with the exact
      input class); the REPAIRED loops (build/proposed/c11-srcap-srlb.diff) terminate;
    - LabeledUnicast.parse / MPLSVPN.parse AS FOUND do quadratic work (refuted); REPAIRED
      (build/proposed/c11-label-stack-bound.diff) all levels together are linear;
    - the Update.parse funnel returns a result object whenever the two length fields are in range.
    Straight-line decoders (no loop, no recursion) are total by construction; the inventory
    theorem is what guarantees none of them hides a loop. *)
From Coq Require Import String.
From YV Require Import lib.Base gen.Inventory model.YLoops proof.LoopProofs.

(** the tie to the source *)
Theorem C11_inventory_matches :
  gen_loops = map e_key modelled_loops /\ unmodelled_loops = [] /\
  gen_rec_sites = map rec_key modelled_rec_sites /\
  forallb (fun e => let c := snd e in (1 <=? c) && (c <=? 4)) gen_for_loops = true.
Proof. exact inventory_complete. Qed.
Print Assumptions C11_inventory_matches.

Example C11_inventory_nonvacuous :
  length gen_loops = 41%nat /\ length gen_rec_sites = 3%nat /\ length modelled_loops = 41%nat.
Proof. vm_compute. auto. Qed.

(** every loop of the inventory, in every instantiation of its flag arguments, for every element
    decoder and every byte string: ends (normally or by raising) within [length d] iterations *)
Theorem C11_all_loops_terminate :
  forall e, In e modelled_loops -> forall s, In s (e_shapes e) ->
  forall (raises : bytes -> bool) (d : bytes),
    exists n, (n <= length d)%nat /\
      (run (body s raises) (S (length d)) d = Done n \/ run (body s raises) (S (length d)) d = Raised n).
Proof. exact all_loops_terminate_in. Qed.
Print Assumptions C11_all_loops_terminate.

Theorem C11_all_loops_never_out_of_fuel :
  forall e, In e modelled_loops -> forall s, In s (e_shapes e) ->
  forall (raises : bytes -> bool) (d : bytes) (fuel : nat), (length d < fuel)%nat ->
    run (body s raises) fuel d <> OutOfFuel.
Proof. exact all_loops_never_out_of_fuel. Qed.
Print Assumptions C11_all_loops_never_out_of_fuel.

(** each iteration strictly shortens the remaining data *)
Theorem C11_progress : forall s raises d r, good s ->
  body s raises d = Continue r -> (length r < length d)%nat.
Proof. exact body_progress. Qed.
Print Assumptions C11_progress.

Theorem C11_every_shape_progresses :
  Forall (fun e => Forall (fun s => cond_agrees (e_class e) s /\ good s) (e_shapes e)) modelled_loops.
Proof. exact modelled_ok. Qed.
Print Assumptions C11_every_shape_progresses.

(** named sites *)
Theorem C11_update_attributes_terminates : terminates attributes.
Proof. exact attributes_terminates. Qed.
Print Assumptions C11_update_attributes_terminates.

Theorem C11_prefix_list_terminates : forall addpath, terminates (prefix4 addpath).
Proof. exact prefix4_terminates. Qed.
Print Assumptions C11_prefix_list_terminates.

Theorem C11_tlv_walkers_terminate : forall h off w, (1 <= h)%nat -> terminates (tlv h off w).
Proof. exact tlv_terminates. Qed.
Print Assumptions C11_tlv_walkers_terminate.

Example C11_linkstate_example :
  run (body (tlv 4 2 2) never) 13 [4;0;0;1;9; 4;1;0;2;7;7; 1] = Raised 2 /\
  run (body (attributes) never) 9 [64;1;1;0; 144;14;0;1;5] = Done 2.
Proof. vm_compute. auto. Qed.

(** SRCapabilities.unpack / SRLB.unpack *)
Theorem C11_srcap_refuted :
  exists d, forall fuel, run (body srcap_orig never) fuel d = OutOfFuel.
Proof. exact srcap_refuted. Qed.
Print Assumptions C11_srcap_refuted.

(** ... exactly when a complete 7-octet entry header carries a length other than 3 or 4 *)
Theorem C11_srcap_orig_diverges : forall d,
  (7 <= length d)%nat -> u16_at 5 d <> 3 -> u16_at 5 d <> 4 ->
  forall fuel, run (body srcap_orig never) fuel d = OutOfFuel.
Proof. exact srcap_orig_diverges. Qed.
Print Assumptions C11_srcap_orig_diverges.

(** the repaired loop *)
Theorem C11_srcap_terminates : terminates srcap.
Proof. exact srcap_terminates. Qed.
Print Assumptions C11_srcap_terminates.

Example C11_srcap_example :
  run (body srcap never) 8 srcap_witness = Done 1 /\
  run (body srcap never) 22 [0;0;9; 4;137; 0;3; 1;2;3;  0;0;1; 4;137; 0;4; 0;0;0;5] = Done 2.
Proof. vm_compute. auto. Qed.

(** nested decoders: all levels together do at most [length d] iterations *)
Theorem C11_nested_tlv_work : forall h off w (inner : bytes -> nat) raises,
  (1 <= h)%nat -> (forall x, (inner x <= length x)%nat) ->
  forall fuel d,
    (total (body (tlv h off w) raises)
           (fun d => inner (slice h (h + N.to_nat (tlv_len off w d)) d)) fuel d <= length d)%nat.
Proof. exact nested_tlv_le. Qed.
Print Assumptions C11_nested_tlv_work.

(** labelled-unicast / MPLS-VPN NLRI: the label-stack parser called in every iteration.
    AS FOUND it scans the whole rest of the field each time: quadratic (refuted with 300 zero
    octets costing more than 50 iterations per octet); REPAIRED
    (build/proposed/c11-label-stack-bound.diff) it is bounded by the NLRI's own octets: linear *)
Theorem C11_labeled_nlri_refuted :
  exists d, length d = 300%nat /\ (50 * length d < lu_total_orig false d)%nat.
Proof. exact lu_quadratic_refuted. Qed.
Print Assumptions C11_labeled_nlri_refuted.

Theorem C11_labeled_nlri_linear : forall addpath raises d,
  (lu_total addpath raises d <= length d)%nat.
Proof. exact lu_total_le. Qed.
Print Assumptions C11_labeled_nlri_linear.

Example C11_labeled_example :
  lu_total false never [24; 0;1;1;  32; 0;2;1; 10] = 4%nat /\ lu_total false never (repeat 0 300) = 300%nat.
Proof. vm_compute. auto. Qed.

(** the recursive SRv6 sub-TLV decoders: recursion depth [S (length d)] suffices, total work of
    all levels at most [length d], whatever fixed part each level skips *)
Theorem C11_srv6_recursion_total : forall skip depth d, (length d < depth)%nat ->
  exists n, rec_work skip depth d = Some n /\ (n <= length d)%nat.
Proof. exact rec_work_total. Qed.
Print Assumptions C11_srv6_recursion_total.

Example C11_srv6_recursion_example :
  rec_work (fun _ => 2%nat) 40
    [4;82;0;14; 0;0; 4;82;0;6; 0;0; 0;9;0;0; 0;0;0;0;  0;9;0;0] = Some 4%nat.
Proof. vm_compute. reflexivity. Qed.

(** Update.parse: both length fields in range => a result object, with a sub-error whenever a
    part failed; for every behaviour (value / UpdateMessageError / any other exception) of the
    prefix-list and attribute decoders *)
Theorem C11_update_total : forall P A (prefixes : bytes -> dres P) (attrs : bytes -> dres A) b,
  lengths_in_range b ->
  exists r, update_parse prefixes attrs b = Some r /\
            (u_attr _ _ r = None -> u_sub_error _ _ r <> None) /\
            (u_nlri _ _ r = None \/ u_withdraw _ _ r = None -> u_sub_error _ _ r <> None).
Proof. exact update_total. Qed.
Print Assumptions C11_update_total.

Theorem C11_update_raises_out_of_range :
  forall P A (prefixes : bytes -> dres P) (attrs : bytes -> dres A) b,
  ~ lengths_in_range b -> update_parse prefixes attrs b = None.
Proof. exact update_raises_out_of_range. Qed.
Print Assumptions C11_update_raises_out_of_range.

Example C11_update_example :
  lengths_in_range [0;0;0;0] /\ lengths_in_range [0;1;0;0;0;9] /\ ~ lengths_in_range [0;1;0;0].
Proof. unfold lengths_in_range. vm_compute. repeat split; lia. Qed.
