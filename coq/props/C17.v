(** C17 — text the community decoders render is accepted back by the REST update/json_to_bin
    views and re-encodes to the octets the RFC encoding of the value requires.

    For an extended community value [v] (spec/RefCom.v: [ref_ec v] are the RFC octets, [wf_ec]
    the field ranges), peer capabilities [cp] and the text [txt]:

      c17_ec cp v txt :=  ec_parse (ref_ec v) = Ok [Txt txt]                 (decoder renders txt)
                       /\ exists its, rest_ec cp [txt] = ROk its              (the view accepts txt)
                            /\ ec_construct its = Ok (Some (hdr ++ ref_ec v)) (and yields the RFC octets)

    Decoding the produced octets gives [txt] again because they ARE [ref_ec v] (first conjunct).
    The models are those of the code with the three proposed repairs applied (traffic-action
    decode, case of well-known community names, unsigned large-community fields). *)
From Coq Require Import String ZArith.
From YV Require Import lib.Base lib.Dec gen.Consts spec.RefCom
  model.YExtCom model.YRestEc model.YCommunity model.YLargeCom proof.ComProofs proof.ComLists.
Open Scope N_scope.

(** route-target *)
Theorem C17_route_target_as2 : forall cp a n, wf_ec (RtAs2 a n) ->
  c17_ec cp (RtAs2 a n) (codes "route-target" ++ 58 :: show_dec a ++ 58 :: show_dec n).
Proof. intros cp a n [Ha Hn]. exact (c17_rt_as2 cp a n Ha Hn). Qed.
Print Assumptions C17_route_target_as2.
Example C17_route_target_as2_text :
  ec_parse (ref_ec (RtAs2 65000 4000000000)) = Ok [Txt (codes "route-target:65000:4000000000")].
Proof. vm_compute. reflexivity. Qed.

Theorem C17_route_target_ip4 : forall cp ip n, wf_ec (RtIp4 ip n) ->
  c17_ec cp (RtIp4 ip n) (codes "route-target" ++ 58 :: show_ip4 ip ++ 58 :: show_dec n).
Proof. intros cp ip n [Ha Hn]. exact (c17_rt_ip4 cp ip n Ha Hn). Qed.
Print Assumptions C17_route_target_ip4.
Example C17_route_target_ip4_text :
  ec_parse (ref_ec (RtIp4 3232235777 65535)) = Ok [Txt (codes "route-target:192.168.1.1:65535")].
Proof. vm_compute. reflexivity. Qed.

(** four-octet-AS format: full statement, its refutation, and what holds under the exact guard
    (AS number above 65535; the peer announced the four-octet-AS capability) *)
Definition C17_route_target_as4_statement : Prop := forall a n, wf_ec (RtAs4 a n) ->
  exists txt, c17_ec (CapFba true) (RtAs4 a n) txt.
Theorem C17_route_target_as4_refuted : exists a n, wf_ec (RtAs4 a n) /\ a < 65536 /\
  forall txt, ~ c17_ec (CapFba true) (RtAs4 a n) txt.
Proof. exists 100, 5. split; [split; reflexivity|]. split; [reflexivity | exact c17_rt_as4_small_refuted]. Qed.
Print Assumptions C17_route_target_as4_refuted.
Theorem C17_route_target_as4 : forall a n, wf_ec (RtAs4 a n) -> ~ a < 65536 ->
  c17_ec (CapFba true) (RtAs4 a n) (codes "route-target" ++ 58 :: show_dec a ++ 58 :: show_dec n).
Proof. intros a n [Ha Hn] Hg. apply c17_rt_as4; [apply N.le_ngt; exact Hg | exact Ha | exact Hn]. Qed.
Print Assumptions C17_route_target_as4.
Example C17_route_target_as4_nonvacuous : wf_ec (RtAs4 4200000000 65535) /\ ~ 4200000000 < 65536.
Proof. split; [split; reflexivity | discriminate]. Qed.

(** route-origin (the view consults the remote capabilities for every non-IPv4 value) *)
Theorem C17_route_origin_as2 : forall b a n, wf_ec (RoAs2 a n) ->
  c17_ec (CapFba b) (RoAs2 a n) (codes "route-origin" ++ 58 :: show_dec a ++ 58 :: show_dec n).
Proof. intros b a n [Ha Hn]. exact (c17_ro_as2 b a n Ha Hn). Qed.
Print Assumptions C17_route_origin_as2.
Theorem C17_route_origin_ip4 : forall cp ip n, wf_ec (RoIp4 ip n) ->
  c17_ec cp (RoIp4 ip n) (codes "route-origin" ++ 58 :: show_ip4 ip ++ 58 :: show_dec n).
Proof. intros cp ip n [Ha Hn]. exact (c17_ro_ip4 cp ip n Ha Hn). Qed.
Print Assumptions C17_route_origin_ip4.
Definition C17_route_origin_as4_statement : Prop := forall a n, wf_ec (RoAs4 a n) ->
  exists txt, c17_ec (CapFba true) (RoAs4 a n) txt.
Theorem C17_route_origin_as4_refuted : exists a n, wf_ec (RoAs4 a n) /\ a < 65536 /\
  forall txt, ~ c17_ec (CapFba true) (RoAs4 a n) txt.
Proof. exists 100, 5. split; [split; reflexivity|]. split; [reflexivity | exact c17_ro_as4_small_refuted]. Qed.
Print Assumptions C17_route_origin_as4_refuted.
Theorem C17_route_origin_as4 : forall a n, wf_ec (RoAs4 a n) -> ~ a < 65536 ->
  c17_ec (CapFba true) (RoAs4 a n) (codes "route-origin" ++ 58 :: show_dec a ++ 58 :: show_dec n).
Proof. intros a n [Ha Hn] Hg. apply c17_ro_as4; [apply N.le_ngt; exact Hg | exact Ha | exact Hn]. Qed.
Print Assumptions C17_route_origin_as4.
Example C17_route_origin_nonvacuous : wf_ec (RoAs2 65535 4294967295) /\ wf_ec (RoAs4 65536 0) /\ ~ 65536 < 65536.
Proof. repeat split; discriminate. Qed.

Theorem C17_color : forall cp c, wf_ec (Color c) ->
  c17_ec cp (Color c) (codes "color" ++ 58 :: show_dec c).
Proof. exact c17_color. Qed.
Print Assumptions C17_color.
Theorem C17_encapsulation : forall cp t, wf_ec (Encap t) ->
  c17_ec cp (Encap t) (codes "encapsulation" ++ 58 :: show_dec t).
Proof. exact c17_encap. Qed.
Print Assumptions C17_encapsulation.
Example C17_color_text : ec_parse (ref_ec (Color 4294967295)) = Ok [Txt (codes "color:4294967295")] /\ wf_ec (Encap 8).
Proof. split; vm_compute; reflexivity. Qed.

Theorem C17_redirect_vrf : forall cp a n, wf_ec (RedirectVrf a n) ->
  c17_ec cp (RedirectVrf a n) (codes "redirect-vrf" ++ 58 :: show_dec a ++ 58 :: show_dec n).
Proof. intros cp a n [Ha Hn]. exact (c17_redirect_vrf cp a n Ha Hn). Qed.
Print Assumptions C17_redirect_vrf.
Theorem C17_redirect_nexthop : forall cp ip c, wf_ec (RedirectNh ip c) ->
  c17_ec cp (RedirectNh ip c) (codes "redirect-nexthop" ++ 58 :: show_ip4 ip ++ 58 :: show_dec c).
Proof. intros cp ip c [Ha Hn]. exact (c17_redirect_nh cp ip c Ha Hn). Qed.
Print Assumptions C17_redirect_nexthop.
Theorem C17_dmzlink_bw : forall cp a b, wf_ec (DmzLinkBw a b) ->
  c17_ec cp (DmzLinkBw a b) (codes "dmzlink-bw" ++ 58 :: show_dec a ++ 58 :: show_dec b).
Proof. intros cp a b [Ha Hn]. exact (c17_dmzlink_bw cp a b Ha Hn). Qed.
Print Assumptions C17_dmzlink_bw.
Example C17_redirect_nexthop_text :
  ec_parse (ref_ec (RedirectNh 167772161 1)) = Ok [Txt (codes "redirect-nexthop:10.0.0.1:1")].
Proof. vm_compute. reflexivity. Qed.

(** traffic-action: all four flag combinations (repaired decoder) *)
Theorem C17_traffic_action : forall cp s t, wf_ec (TrafficAction s t) ->
  c17_ec cp (TrafficAction s t) (action_text s t).
Proof. intros cp s t _. exact (c17_traffic_action cp s t). Qed.
Print Assumptions C17_traffic_action.
Example C17_traffic_action_text : action_text true false = codes "traffic-action:S:1,T:0".
Proof. vm_compute. reflexivity. Qed.

Theorem C17_traffic_marking : forall cp d, wf_ec (TrafficMarking d) ->
  c17_ec cp (TrafficMarking d) (codes "traffic-marking-dscp" ++ 58 :: show_dec d).
Proof. exact c17_traffic_marking. Qed.
Print Assumptions C17_traffic_marking.

Theorem C17_esi_label : forall cp f l, wf_ec (EsiLabel f l) ->
  c17_ec cp (EsiLabel f l) (codes "esi-label" ++ 58 :: show_dec f ++ 58 :: show_dec l).
Proof. intros cp f l [Hf Hl]. exact (c17_esi_label cp f l Hf Hl). Qed.
Print Assumptions C17_esi_label.
Theorem C17_mac_mobility : forall cp f s, wf_ec (MacMobility f s) ->
  c17_ec cp (MacMobility f s) (codes "mac-mobility" ++ 58 :: show_dec f ++ 58 :: show_dec s).
Proof. intros cp f s [Hf Hs]. exact (c17_mac_mobility cp f s Hf Hs). Qed.
Print Assumptions C17_mac_mobility.
Example C17_esi_label_text : ec_parse (ref_ec (EsiLabel 1 1000)) = Ok [Txt (codes "esi-label:1:1000")].
Proof. vm_compute. reflexivity. Qed.

(** traffic-rate: full statement; proved: the view accepts the text of every (AS, whole rate).
    MISSING: the binary32 conversions of the rate in parse/construct (tied by correspondence only). *)
Definition C17_traffic_rate_statement : Prop := forall cp a r, wf_ec (TrafficRate a r) ->
  c17_ec cp (TrafficRate a r) (codes "traffic-rate" ++ 58 :: show_dec a ++ 58 :: show_dec r).
Theorem C17_traffic_rate_partial : forall cp a r,
  rest_ec cp [codes "traffic-rate" ++ 58 :: show_dec a ++ 58 :: show_dec r] =
  ROk [ItS 32774 (show_dec a ++ 58 :: show_dec r)].
Proof. exact c17_traffic_rate_rest. Qed.
Print Assumptions C17_traffic_rate_partial.
Example C17_traffic_rate_instance :
  c17_ec (CapFba true) (TrafficRate 65000 1000) (codes "traffic-rate:65000:1000").
Proof.
  split; [vm_compute; reflexivity|].
  exists [ItS 32774 (codes "65000:1000")]. split; vm_compute; reflexivity.
Qed.
Example C17_traffic_rate_instance_max :
  c17_ec (CapFba true) (TrafficRate 1 16777215) (codes "traffic-rate:1:16777215").
Proof.
  split; [vm_compute; reflexivity|].
  exists [ItS 32774 (codes "1:16777215")]. split; vm_compute; reflexivity.
Qed.

(** es-import / router-mac: full statements; proved: the decoder renders the RFC octets of every
    MAC as XX-XX-XX-XX-XX-XX.  MISSING: acceptance and re-encoding of that text for all MACs
    (lib/Dec.v has the needed round trip [parse_show_mac]; tied by correspondence only). *)
Definition C17_es_import_statement : Prop := forall cp m, wf_ec (EsImport m) ->
  c17_ec cp (EsImport m) (codes "es-import" ++ 58 :: show_mac (be 6 m)).
Theorem C17_es_import_partial : forall m,
  ec_parse (ref_ec (EsImport m)) = Ok [Txt (codes "es-import" ++ 58 :: show_mac (be 6 m))].
Proof. exact c17_es_import_parse. Qed.
Print Assumptions C17_es_import_partial.
Definition C17_router_mac_statement : Prop := forall cp m, wf_ec (RouterMac m) ->
  c17_ec cp (RouterMac m) (codes "router-mac" ++ 58 :: show_mac (be 6 m)).
Theorem C17_router_mac_partial : forall m,
  ec_parse (ref_ec (RouterMac m)) = Ok [Txt (codes "router-mac" ++ 58 :: show_mac (be 6 m))].
Proof. exact c17_router_mac_parse. Qed.
Print Assumptions C17_router_mac_partial.
Example C17_es_import_instance :
  c17_ec (CapFba true) (EsImport 118828551389) (codes "es-import:00-1B-AA-BB-CC-DD").
Proof.
  split; [vm_compute; reflexivity|].
  exists [ItS 1538 (codes "00-1B-AA-BB-CC-DD")]. split; vm_compute; reflexivity.
Qed.
Example C17_router_mac_instance :
  c17_ec (CapFba true) (RouterMac 281474976710655) (codes "router-mac:FF-FF-FF-FF-FF-FF").
Proof.
  split; [vm_compute; reflexivity|].
  exists [ItS 1539 (codes "FF-FF-FF-FF-FF-FF")]. split; vm_compute; reflexivity.
Qed.

(** communities: every 32-bit value, the well-known names included *)
Theorem C17_community : forall v, v < 4294967296 ->
  com_parse (ref_community v) = Ok [com_text v] /\
  com_construct [com_text v] = Ok ([c_ATTR_Community_FLAG; attr_communities; 4] ++ ref_community v).
Proof. exact c17_community. Qed.
Print Assumptions C17_community.
Theorem C17_community_names : forall v nm, In (v, nm) rfc_well_known -> com_text v = nm.
Proof. exact c17_community_names. Qed.
Print Assumptions C17_community_names.
Example C17_community_texts :
  com_text 4294967041 = codes "NO_EXPORT" /\ com_text 4294901763 = codes "ROUTE_FILTER_v4" /\
  com_text 4294901760 = codes "PLANNED_SHUT" /\ com_text 4259840100 = codes "65000:100".
Proof. repeat split; vm_compute; reflexivity. Qed.

(** large communities: every field up to 2^32 - 1 *)
Theorem C17_large_community : forall g l1 l2, g < 4294967296 -> l1 < 4294967296 -> l2 < 4294967296 ->
  large_parse (ref_large g l1 l2) = Ok [show_dec g ++ 58 :: show_dec l1 ++ 58 :: show_dec l2] /\
  large_construct [show_dec g ++ 58 :: show_dec l1 ++ 58 :: show_dec l2] =
    Ok ([c_ATTR_LargeCommunity_FLAG; attr_large_communities; 12] ++ ref_large g l1 l2).
Proof. exact c17_large. Qed.
Print Assumptions C17_large_community.
Example C17_large_text :
  large_parse (ref_large 4294967295 2147483648 0) = Ok [codes "4294967295:2147483648:0"].
Proof. vm_compute. reflexivity. Qed.

(** * ALL LISTS.  An attribute carries a sequence of values; the decoders, the views' recombination
    and the encoders work value by value and carry nothing from one value to the next. *)

(** the recombination of attr[16] is a map: what a member contributes does not depend on what
    stands before or after it (e.g. two traffic-action texts with different flags) *)
Theorem C17_rest_elementwise : forall cp l1 l2,
  rest_ec cp (l1 ++ l2) =
  rbind (rest_ec cp l1) (fun a => rbind (rest_ec cp l2) (fun b => ROk (a ++ b))).
Proof. exact rest_ec_app. Qed.
Print Assumptions C17_rest_elementwise.

(** every list (1 to 31 members: one length octet, as ExtCommunity.construct packs it) of extended
    communities that round-trip one by one (the theorems above) round-trips as a whole: the RFC
    octets of the list decode to the list of texts, the view accepts that list and re-encodes it
    to attribute 16 with exactly those octets *)
Theorem C17_ext_community_lists : forall cp (l : list (ecval * str)),
  l <> [] -> (length l < 32)%nat ->
  Forall (fun p => c17_ec cp (fst p) (snd p)) l ->
  ec_parse (ec_octets l) = Ok (map (fun p => Txt (snd p)) l) /\
  exists its, rest_ec cp (map snd l) = ROk its /\
    ec_construct its =
    Ok (Some ([c_ATTR_ExtCommunity_FLAG; attr_ext_communities; 8 * N.of_nat (length l)] ++ ec_octets l)).
Proof. exact c17_ec_list. Qed.
Print Assumptions C17_ext_community_lists.
(** the hypotheses are satisfiable by a list with two traffic-actions of different flags and a
    route-origin between them, and the conclusion is about these texts *)
Example C17_ext_community_lists_instance :
  let l := [ (TrafficAction true false, action_text true false);
             (RoAs2 100 1, codes "route-origin:100:1");
             (TrafficAction false true, action_text false true) ] in
  Forall (fun p => c17_ec (CapFba true) (fst p) (snd p)) l /\
  map snd l = [codes "traffic-action:S:1,T:0"; codes "route-origin:100:1"; codes "traffic-action:S:0,T:1"] /\
  ec_octets l = [128; 7; 0; 0; 0; 0; 0; 2;  0; 3; 0; 100; 0; 0; 0; 1;  128; 7; 0; 0; 0; 0; 0; 1].
Proof.
  cbv zeta. split; [|split; vm_compute; reflexivity].
  repeat constructor.
  - apply C17_traffic_action. exact I.
  - apply (C17_route_origin_as2 true 100 1). split; reflexivity.
  - apply C17_traffic_action. exact I.
Qed.

(** communities: every list of up to 63 values *)
Theorem C17_community_lists : forall vs,
  Forall (fun v => v < 4294967296) vs -> (length vs < 64)%nat ->
  com_parse (com_octets vs) = Ok (map com_text vs) /\
  com_construct (map com_text vs) =
    Ok ([c_ATTR_Community_FLAG; attr_communities; 4 * N.of_nat (length vs)] ++ com_octets vs).
Proof. exact c17_community_list. Qed.
Print Assumptions C17_community_lists.

(** large communities: every list of 1 to 21 values *)
Theorem C17_large_community_lists : forall vs,
  vs <> [] -> (length vs < 22)%nat -> Forall wf_large vs ->
  large_parse (large_octets vs) = Ok (map large_show vs) /\
  large_construct (map large_show vs) =
    Ok ([c_ATTR_LargeCommunity_FLAG; attr_large_communities; 12 * N.of_nat (length vs)] ++ large_octets vs).
Proof. exact c17_large_list. Qed.
Print Assumptions C17_large_community_lists.
Example C17_lists_nonvacuous :
  Forall (fun v => v < 4294967296) [4294967041; 4259840100; 4294967041] /\
  map com_text [4294967041; 4259840100] = [codes "NO_EXPORT"; codes "65000:100"] /\
  Forall wf_large [(1, 2, 3); (1, 2, 4); (4294967295, 2147483648, 0)] /\
  map large_show [(1, 2, 3); (1, 2, 4)] = [codes "1:2:3"; codes "1:2:4"].
Proof.
  split; [repeat constructor|]. split; [vm_compute; reflexivity|].
  split; [repeat constructor|]. vm_compute; reflexivity.
Qed.
