(** C02 — The session self-heals: never stuck, nothing in the past blocks re-establishment. *)
From YV Require Import lib.Base model.YWorld model.YProto gen.Consts gen.FsmGen model.YFraming
  model.YSession proof.SessionFraming proof.SessionC03 proof.SessionC03b proof.SessionC05
  proof.SessionC02 proof.SessionC02b proof.SessionRP proof.SessionAuto.

(** every error close — in ANY world: any state, timers, connections, history — ends in Idle
    with the restart (IdleHold) timer armed one idle-hold period from now *)
Theorem C02_error_close_rearms : forall w,
  let w' := fsm__error_close w in
  w_state w' = StIdle /\ t_dl (w_tih w') = Some (w_now w + secs (cf_idle_hold (w_cfg w))) /\
  w_auto w' = w_auto w.
Proof. exact error_close_rearms. Qed.
Print Assumptions C02_error_close_rearms.

(** the end of a connection re-arms it too (unless the operator stopped the peer) *)
Theorem C02_connection_end_rearms : forall pro w, w_auto w = true -> w_state w = StIdle ->
  let w' := peering_connection_closed pro w in
  w_state w' = StIdle /\ t_dl (w_tih w') = Some (w_now w + secs (cf_idle_hold (w_cfg w))) /\ w_out w' = w_out w.
Proof. exact connection_closed_rearms. Qed.
Print Assumptions C02_connection_end_rearms.

(** its expiry starts a new connection attempt at once *)
Theorem C02_idle_hold_expiry_connects : forall w, w_auto w = true -> w_state w = StIdle -> w_out w = [] ->
  let w' := F_idle_hold_time_event w in
  w_state w' = StConnect /\ w_out w' = [OConnect (length (w_conns w))] /\
  t_dl (w_tcr w') = Some (w_now w + secs (cf_retry (w_cfg w))) /\
  w_conns w' = w_conns w ++ [conn0].
Proof. exact idle_hold_expiry_connects. Qed.
Print Assumptions C02_idle_hold_expiry_connects.

(** RECOVERY.  For every decoder behaviour and EVERY world that is Idle with the restart timer
    pending — no matter what history of refusals, time-outs, resets, protocol errors and
    malformed or unacceptable messages produced it, which connections exist, what the other
    timers, counters and capability dictionaries hold — once the peer behaves (accepts the TCP
    connection, sends an acceptable OPEN and a KEEPALIVE) the session is Established on the new
    connection exactly when the pending idle-hold period ends (plus zero connect time in virtual
    time), with hold time min(configured, proposed), and the OPEN the agent offered carries the
    CONFIGURED hold time: nothing earlier blocks it or changes what is offered. *)
Theorem C02_recovers : forall (D : decoders) w d asn phold caps,
  w_state w = StIdle -> w_auto w = true ->
  t_dl (w_tih w) = Some d -> no_earlier d w = true -> t_dl (w_tdo w) = None ->
  d_open D open_body = OpOk asn phold caps -> asn = cf_remote_as (w_cfg w) ->
  (phold = 0 \/ 3 <= phold) ->
  (N.min (cf_hold (w_cfg w)) phold = 0 \/ 3 <= N.min (cf_hold (w_cfg w)) phold) ->
  let n := length (w_conns w) in
  let es := [EFire TIdleHold; EConnOk n; EData n open_frame; EData n ka_frame] in
  let w' := run D w es in
  w_state w' = StEstablished /\ w_proto w' = Some n /\
  w_hold w' = N.min (cf_hold (w_cfg w)) phold /\ w_now w' = d /\
  (exists a i cs, In (OWrite n (WOpen a (cf_hold (w_cfg w)) i cs)) (run_outs D w es)).
Proof.
  intros D w d asn phold caps Hs Ha Ht Hn Hd Ho Heq Hp Hm.
  apply (recovers D w d asn phold caps Hs Ha Ht Hn Hd Ho Heq).
  apply hold_refused_false; assumption.
Qed.
Print Assumptions C02_recovers.

(** the premises describe reachable worlds: e.g. after a session was torn down by a NOTIFICATION *)
Definition D0 : decoders := mkDec (fun _ => OpOk 65002 90 [(KAfiSafi, CVAfiSafi [(1, 1)])]) (fun _ _ => UpOk).
Definition cf0 : cfg := mkCfg 65001 65002 180 60 30 30 10 false 167772161.
Example C02_recovers_nonvacuous :
  let w := run D0 (world0 cf0 []) [EBoot; EConnOk 0; EData 0 open_frame; EData 0 ka_frame;
                                    EData 0 (repeat 255 16 ++ [0; 21; 3; 6; 2]); ELost 0] in
  w_state w = StIdle /\ w_auto w = true /\ t_dl (w_tih w) = Some 90 /\ no_earlier 90 w = true /\
  t_dl (w_tdo w) = None.
Proof. vm_compute. repeat split; reflexivity. Qed.

(** ... and then it stays up for as long as KEEPALIVEs keep arriving: C03_alive_while_fed. *)
Theorem C02_stays_up : forall (D : decoders) c H es w,
  EstInv c H w -> forallb (fed_event c) es = true ->
  EstInv c H (run D w es) /\ Forall (fed_out c) (run_outs D w es).
Proof. exact alive_while_fed. Qed.
Print Assumptions C02_stays_up.

(** "The agent ALWAYS has a reconnection pending": along EVERY event sequence after start-up
    (connection results and losses in any order and on any connection — including the
    overlapping attempts of the known findings C12-* —, any bytes from the peer in any
    segmentation, every timer expiry order, operator stop/start, API sends) and for every decoder
    behaviour, whenever the operator has not stopped the peer ([w_auto]): the FSM is in a session
    state on its tracked, connected transport; or it is Idle with the restart (IdleHold) timer
    armed, or Idle while the close of the tracked connection is still in progress (its
    completion arms the timer: C02_connection_end_rearms); or it is in Connect with the
    connect-retry timer armed.  (Active is never entered.)  The invariant is [RP]
    (proof/SessionRP.v); every FSM method, callback and driver event preserves it. *)
Definition pending (w : world) : Prop :=
  match w_state w with
  | StIdle => t_dl (w_tih w) <> None \/
              (exists c, w_proto w = Some c /\ conn_connected c w = true /\ c_disc (get_conn c w) = true)
  | StConnect | StActive => t_dl (w_tcr w) <> None
  | _ => True
  end.
Theorem C02_reconnect_pending : forall (D : decoders) cf capl es,
  let w := run D (world0 cf capl) (EBoot :: es) in
  (w_auto w = true -> pending w) /\ w_state w <> StActive /\
  (match w_state w with StOpenSent | StOpenConfirm | StEstablished =>
     exists c, w_proto w = Some c /\ conn_connected c w = true | _ => True end).
Proof.
  intros D cf capl es w. destruct (reconnect_pending D cf capl es) as [(H1 & H2 & H3 & H4) H5].
  fold w in H1, H2, H3, H4, H5. split; [|split; [exact H3|]].
  - intros Ha. specialize (H5 Ha). unfold SessionRP.pending, closing_tracked in H5. unfold pending.
    destruct (w_state w); auto; contradiction.
  - unfold tracked_ok in H2. destruct (w_state w); auto;
      destruct (H2 eq_refl) as (c & A & B & _); exists c; auto.
Qed.
Print Assumptions C02_reconnect_pending.

(** non-vacuity: a run that ends Idle with automatic restart allowed (session up, then the peer
    resets the connection) — the premise of the invariant holds and the timer is what is pending *)
Example C02_reconnect_pending_example :
  let w := run D0 (world0 cf0 []) [EBoot; EConnOk 0; EData 0 open_frame; ELost 0] in
  w_auto w = true /\ w_state w = StIdle /\ t_dl (w_tih w) <> None.
Proof. vm_compute. repeat split; discriminate. Qed.

(** ... and nothing but an operator stop switches automatic restart off (no peer input, connection
    event, timer expiry or API send does), so along every event sequence without a manual stop
    the reconnection is pending unconditionally *)
Theorem C02_reconnect_pending_without_operator_stop : forall (D : decoders) cf capl es,
  ~ In EManualStop es ->
  let w := run D (world0 cf capl) (EBoot :: es) in
  w_auto w = true /\ pending w.
Proof.
  intros D cf capl es Hn w.
  assert (Ha : w_auto w = true).
  { apply (auto_only_operator D (EBoot :: es) (world0 cf capl)); [|reflexivity].
    intros [X|X]; [discriminate X|exact (Hn X)]. }
  split; [exact Ha|]. apply (C02_reconnect_pending D cf capl es). exact Ha.
Qed.
Print Assumptions C02_reconnect_pending_without_operator_stop.
