(** C07 — multiprotocol NLRI round trip (under construction) *)
From YV Require Import lib.Base gen.Consts model.YMp model.YPrefix6 model.YLabel model.YVpn model.YLu.
