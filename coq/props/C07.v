(** C07 — multiprotocol NLRI round trip: every in-range MP_REACH_NLRI / MP_UNREACH_NLRI value
    decodes back to exactly itself.

    Families proved here: IPv6 unicast, VPNv4, VPNv6, IPv4/IPv6 labeled unicast (MP_REACH).
    IPv4 flowspec: model + correspondence + oracle; theorems for the operator lists
    (C07_flowspec_operators_roundtrip_partial) and for the rule length prefix at every body length
    1..4095, both forms (the C07_flowspec_length_prefix theorems); the full statement is
    C07_flowspec_roundtrip_statement.
    EVPN route types 1-4: not modelled; the harness runs the round-trip oracle on the
    implementation only.

    Values: addresses are integers (text rendering is done by netaddr and is canonicalised by
    the harness); [V4 n] / [V6 n] is the version netaddr.IPAddress(int) picks for the decoded
    integer, so "decodes to itself" for an IPv6 value a means the decoder returns [V6 a].
    The construct theorems give the whole attribute: flag, type, 2-octet length, value; the
    decoder is applied to the value, as Update.parse_attributes does.

    Prefix octets of VPN / labeled unicast routes are modelled as repaired by
    build/proposed/c07-1-construct-prefix-v6.diff and c07-2-construct-prefix-v4-zero.diff; the label
    parser is bounded to the route as by build/proposed/c11-label-stack-bound.diff; flowspec operand
    widths and the 2-octet rule length as by build/proposed/c08-flowspec-framing.diff. *)
From YV Require Import lib.Base gen.Consts model.YMp model.YPrefix6 model.YLabel model.YVpn model.YLu
  model.YFlow4
  proof.MpPrefix6Proofs proof.MpLabelProofs proof.MpVpnProofs proof.MpLuProofs proof.MpFlow4Proofs
  proof.MpFlow4Frame.

(** ------------------------------------------------------------------ IPv6 unicast *)

(** MP_REACH (2,1): every next hop (with / without link-local), every list of routes of every
    prefix length 0..128, all addresses >= 2^32 *)
Theorem C07_ipv6_unicast_roundtrip : forall g ll rs,
  2 ^ 32 <= g < 2 ^ 128 -> (forall x, ll = Some x -> 2 ^ 32 <= x < 2 ^ 128) ->
  Forall wf_route6 rs -> Forall (fun r => 2 ^ 32 <= fst r) rs -> len (reach6u_value g ll rs) <= 65535 ->
  exists v, reach6u_construct g ll rs =
              Ok ([c_ATTR_MpReachNLRI_FLAG; c_ATTR_MpReachNLRI_ID] ++ be 2 (len v) ++ v) /\
            reach6u_parse v = Ok (V6 g, option_map V6 ll, map (fun r => (V6 (fst r), snd r)) rs).
Proof. exact reach6u_roundtrip. Qed.
Print Assumptions C07_ipv6_unicast_roundtrip.

Example C07_ipv6_unicast_nonvacuous :
  wf_route6 (2 ^ 125 + 2 ^ 95, 33) /\ 2 ^ 32 <= 2 ^ 125 + 2 ^ 95 /\
  reach6u_parse (reach6u_value (2 ^ 125) (Some (2 ^ 127 + 1)) [(2 ^ 125 + 2 ^ 95, 33)]) =
  Ok (V6 (2 ^ 125), Some (V6 (2 ^ 127 + 1)), [(V6 (2 ^ 125 + 2 ^ 95), 33)]).
Proof. vm_compute. repeat split; discriminate. Qed.

(** MP_UNREACH (2,1) *)
Theorem C07_ipv6_unicast_unreach_roundtrip : forall rs,
  rs <> [] -> Forall wf_route6 rs -> Forall (fun r => 2 ^ 32 <= fst r) rs ->
  len (unreach6u_value rs) <= 65535 ->
  exists v, unreach6u_construct rs =
              Ok (Some ([c_ATTR_MpUnReachNLRI_FLAG; c_ATTR_MpUnReachNLRI_ID] ++ be 2 (len v) ++ v)) /\
            unreach6u_parse v = Ok (map (fun r => (V6 (fst r), snd r)) rs).
Proof. exact unreach6u_roundtrip. Qed.
Print Assumptions C07_ipv6_unicast_unreach_roundtrip.

(** exact behaviour on ALL in-range values (no lower bound on addresses): identity except that
    values below 2^32 come back as IPv4 ([render]), provided the list does not end in two ::/0 *)
Theorem C07_ipv6_unicast_behaviour : forall g ll rs,
  g < 2 ^ 128 -> (forall x, ll = Some x -> x < 2 ^ 128) ->
  Forall wf_route6 rs -> no_double_default rs -> len (reach6u_value g ll rs) <= 65535 ->
  exists v, reach6u_construct g ll rs =
              Ok ([c_ATTR_MpReachNLRI_FLAG; c_ATTR_MpReachNLRI_ID] ++ be 2 (len v) ++ v) /\
            reach6u_parse v = Ok (render g, option_map render ll, map render_route rs).
Proof. exact reach6u_behaviour. Qed.
Print Assumptions C07_ipv6_unicast_behaviour.

Theorem C07_ipv6_unicast_unreach_behaviour : forall rs,
  rs <> [] -> Forall wf_route6 rs -> no_double_default rs -> len (unreach6u_value rs) <= 65535 ->
  exists v, unreach6u_construct rs =
              Ok (Some ([c_ATTR_MpUnReachNLRI_FLAG; c_ATTR_MpUnReachNLRI_ID] ++ be 2 (len v) ++ v)) /\
            unreach6u_parse v = Ok (map render_route rs).
Proof. exact unreach6u_behaviour. Qed.
Print Assumptions C07_ipv6_unicast_unreach_behaviour.

(** defect: ::/0 comes back as 0.0.0.0/0 *)
Theorem C07_ipv6_unicast_refuted_default_route :
  reach6u_construct (2 ^ 125) None [(0, 0)] = Ok ([144; 14] ++ be 2 (len w_default) ++ w_default) /\
  reach6u_parse w_default = Ok (V6 (2 ^ 125), None, [(V4 0, 0)]).
Proof. exact refuted_default_route. Qed.
Print Assumptions C07_ipv6_unicast_refuted_default_route.

(** defect: any value below 2^32 (next hop ::1, prefix ::1.2.3.4/128) comes back as IPv4 *)
Theorem C07_ipv6_unicast_refuted_low_address :
  reach6u_construct 1 None [(16909060, 128)] = Ok ([144; 14] ++ be 2 (len w_low) ++ w_low) /\
  reach6u_parse w_low = Ok (V4 1, None, [(V4 16909060, 128)]).
Proof. exact refuted_low_address. Qed.
Print Assumptions C07_ipv6_unicast_refuted_low_address.

(** defect: two ::/0 routes decode to nothing *)
Theorem C07_ipv6_unicast_refuted_double_default :
  unreach6u_construct [(0, 0); (0, 0)] = Ok (Some ([144; 15] ++ be 2 (len w_dd) ++ w_dd)) /\
  unreach6u_parse w_dd = Ok [].
Proof. exact refuted_double_default. Qed.
Print Assumptions C07_ipv6_unicast_refuted_double_default.

(** ------------------------------------------------------------------ labels, route distinguishers *)

(** every in-range RD of type 0, 1, 2 encodes on 8 octets and decodes to itself *)
Theorem C07_rd_roundtrip : forall r, wf_rd r ->
  exists b, construct_rd r = Ok b /\ length b = 8%nat /\ parse_rd b = Ok (PRd r).
Proof. exact rd_roundtrip. Qed.
Print Assumptions C07_rd_roundtrip.

Example C07_rd_nonvacuous : wf_rd (RdAs 65535 (2 ^ 32 - 1)) /\ wf_rd (RdAs (2 ^ 32 - 1) 65535) /\ wf_rd (RdIp (2 ^ 32 - 1) 65535).
Proof. cbn. repeat split; try (left; split; reflexivity || discriminate); try (right; repeat split; reflexivity || discriminate); reflexivity || discriminate. Qed.

(** every label stack (any depth) of 20-bit labels whose last label is not 0 *)
Theorem C07_label_stack_roundtrip : forall ls, wf_stack ls ->
  exists b, construct_labels ls = Ok b /\ length b = (3 * length ls)%nat /\
            forall rest, parse_labels (b ++ rest) = ls.
Proof. exact label_stack_roundtrip. Qed.
Print Assumptions C07_label_stack_roundtrip.

(** defect: a last label 0 is written without the bottom-of-stack bit; the decoder reads on *)
Theorem C07_label_refuted_zero_without_bottom_of_stack :
  construct_labels [0] = Ok [0; 0; 0] /\
  parse_labels ([0; 0; 0] ++ [0; 0; 0; 100; 0; 0; 0; 1]) = [0; 0; 409600].
Proof. exact refuted_label_zero_no_bottom_of_stack. Qed.
Print Assumptions C07_label_refuted_zero_without_bottom_of_stack.

(** ------------------------------------------------------------------ VPNv4 / VPNv6 *)

(** MP_REACH (1|2,128): next hop RD asn:an + address, every list of routes with one label
    1..2^20-1, every RD type, every prefix length 0..32 / 0..128; [v6 = false] VPNv4,
    [v6 = true] VPNv6 with addresses >= 2^32 *)
Theorem C07_vpn_roundtrip : forall v6 asn an ip rs,
  asn <= 65535 -> an < 2 ^ 32 -> ip < 2 ^ abits v6 -> (v6 = true -> 2 ^ 32 <= ip) ->
  Forall (wf_vroute v6) rs -> Forall one_label rs ->
  Forall (fun r => v6 = true -> 2 ^ 32 <= v_addr r) rs ->
  forall nlri, construct_vpn v6 false rs = Ok nlri -> len nlri <= 65000 ->
  exists v, reachvpn_construct v6 asn an ip rs =
              Ok ([c_ATTR_MpReachNLRI_FLAG; c_ATTR_MpReachNLRI_ID] ++ be 2 (len v) ++ v) /\
            reachvpn_parse v6 v =
              Ok (PRd (RdAs asn an), (if v6 then V6 ip else V4 ip),
                  map (fun r => (v_labels r, PRd (v_rd r), (if v6 then V6 (v_addr r) else V4 (v_addr r)), v_len r)) rs).
Proof. exact reachvpn_roundtrip. Qed.
Print Assumptions C07_vpn_roundtrip.

(** exact behaviour without the lower bound on IPv6 addresses *)
Theorem C07_vpn_behaviour : forall v6 asn an ip rs,
  asn <= 65535 -> an < 2 ^ 32 -> ip < 2 ^ abits v6 ->
  Forall (wf_vroute v6) rs -> Forall one_label rs ->
  forall nlri, construct_vpn v6 false rs = Ok nlri -> len nlri <= 65000 ->
  exists v, reachvpn_construct v6 asn an ip rs =
              Ok ([c_ATTR_MpReachNLRI_FLAG; c_ATTR_MpReachNLRI_ID] ++ be 2 (len v) ++ v) /\
            reachvpn_parse v6 v = Ok (PRd (RdAs asn an), vaddr v6 ip, map (expect_proute v6 false) rs).
Proof. exact reachvpn_behaviour. Qed.
Print Assumptions C07_vpn_behaviour.

(** MP_UNREACH (1|2,128): the decoder reports the withdraw label 524288 for every route *)
Theorem C07_vpn_unreach_behaviour : forall v6 rs,
  rs <> [] -> Forall (wf_vroute v6) rs ->
  forall nlri, construct_vpn v6 true rs = Ok nlri -> len nlri <= 65000 ->
  exists v, unreachvpn_construct v6 rs =
              Ok (Some ([c_ATTR_MpUnReachNLRI_FLAG; c_ATTR_MpUnReachNLRI_ID] ++ be 2 (len v) ++ v)) /\
            unreachvpn_parse v6 v = Ok (map (expect_proute v6 true) rs).
Proof. exact unreachvpn_behaviour. Qed.
Print Assumptions C07_vpn_unreach_behaviour.

(** the encoder succeeds on every in-range list (the hypothesis "construct_vpn ... = Ok nlri" holds) *)
Theorem C07_vpn_construct_total : forall v6 withdraw rs,
  Forall (wf_vroute v6) rs -> (withdraw = false -> Forall one_label rs) ->
  exists nlri, construct_vpn v6 withdraw rs = Ok nlri.
Proof. exact construct_vpn_total. Qed.
Print Assumptions C07_vpn_construct_total.

Example C07_vpn_nonvacuous :
  wf_vroute false (mk_vroute [16] (RdIp 16909060 7) 167772160 8) /\
  wf_vroute true (mk_vroute [2 ^ 20 - 1] (RdAs 70000 7) (2 ^ 125) 3) /\
  parse_vpn_all true false [91; 255; 255; 241; 0; 2; 0; 1; 17; 112; 0; 7; 32] =
    Ok [([2 ^ 20 - 1], PRd (RdAs 70000 7), V6 (2 ^ 125), 3)].
Proof.
  split; [|split]; [| |vm_compute; reflexivity]; unfold wf_vroute, wf_rd; cbn [v_len v_addr v_rd abits];
    repeat split; try reflexivity; try discriminate; right; repeat split; reflexivity || discriminate.
Qed.

Theorem C07_vpn_refuted_label_zero :
  construct_vpn false false [r_label0] = Ok [96; 0; 0; 0; 0; 0; 0; 100; 0; 0; 0; 1; 10] /\
  parse_vpn_all false false [96; 0; 0; 0; 0; 0; 0; 100; 0; 0; 0; 1; 10] =
    Ok [([0; 0; 409600; 16], PRd (RdAs 100 1), V4 167772160, 8)].
Proof. exact refuted_vpnv4_label_zero. Qed.
Print Assumptions C07_vpn_refuted_label_zero.

Theorem C07_vpn_refuted_two_labels :
  exists b, construct_vpn false false [r_two_labels] = Ok b /\
            parse_vpn_all false false b = Ok [([16; 17], PRd (RdIp 285212672 25600), V4 266, 32)].
Proof. exact refuted_vpnv4_two_labels. Qed.
Print Assumptions C07_vpn_refuted_two_labels.

Theorem C07_vpn_refuted_vpnv6_default_route :
  construct_vpn true false [r_low6] = Ok [88; 0; 1; 1; 0; 0; 0; 100; 0; 0; 0; 1] /\
  parse_vpn_all true false [88; 0; 1; 1; 0; 0; 0; 100; 0; 0; 0; 1] = Ok [([16], PRd (RdAs 100 1), V4 0, 0)].
Proof. exact refuted_vpnv6_default_route. Qed.
Print Assumptions C07_vpn_refuted_vpnv6_default_route.

(** ------------------------------------------------------------------ labeled unicast *)

(** MP_REACH (1|2,4): every next hop, every list of routes with any label stack whose last
    label is not 0, every prefix length; IPv6 addresses >= 2^32 *)
Theorem C07_labeled_unicast_roundtrip : forall v6 ip rs,
  ip < 2 ^ abits v6 -> (v6 = true -> 2 ^ 32 <= ip) -> rs <> [] -> Forall (wf_lroute v6) rs ->
  Forall (fun r => v6 = true -> 2 ^ 32 <= l_addr r) rs ->
  forall nlri, construct_lu v6 false rs = Ok nlri -> len nlri <= 65000 ->
  exists v, reachlu_construct v6 ip rs =
              Ok (Some ([c_ATTR_MpReachNLRI_FLAG; c_ATTR_MpReachNLRI_ID] ++ be 2 (len v) ++ v)) /\
            reachlu_parse v6 v =
              Ok (Some (if v6 then V6 ip else V4 ip),
                  map (fun r => (l_labels r, (if v6 then V6 (l_addr r) else V4 (l_addr r)), l_len r)) rs).
Proof. exact reachlu_roundtrip. Qed.
Print Assumptions C07_labeled_unicast_roundtrip.

Theorem C07_labeled_unicast_behaviour : forall v6 ip rs,
  ip < 2 ^ abits v6 -> rs <> [] -> Forall (wf_lroute v6) rs ->
  forall nlri, construct_lu v6 false rs = Ok nlri -> len nlri <= 65000 ->
  exists v, reachlu_construct v6 ip rs =
              Ok (Some ([c_ATTR_MpReachNLRI_FLAG; c_ATTR_MpReachNLRI_ID] ++ be 2 (len v) ++ v)) /\
            reachlu_parse v6 v = Ok (Some (vaddr v6 ip), map (expect_plroute v6) rs).
Proof. exact reachlu_behaviour. Qed.
Print Assumptions C07_labeled_unicast_behaviour.

Theorem C07_labeled_unicast_construct_total : forall v6 rs,
  Forall (wf_lroute v6) rs -> exists nlri, construct_lu v6 false rs = Ok nlri.
Proof. exact construct_lu_total. Qed.
Print Assumptions C07_labeled_unicast_construct_total.

Example C07_labeled_unicast_nonvacuous :
  wf_lroute false (mk_lroute [16; 0; 17] 167837952 24) /\
  parse_lu_all false [96; 0; 1; 0; 0; 0; 0; 0; 1; 17; 10; 1; 1] = Ok [([16; 0; 17], V4 167837952, 24)].
Proof. split; [|vm_compute; reflexivity]. unfold wf_lroute. cbn [l_len l_addr l_labels abits wf_stack length].
  repeat split; try reflexivity; discriminate. Qed.

Theorem C07_labeled_unicast_refuted_label_zero :
  construct_lu false false [mk_lroute [0] 167837952 24] = Ok [48; 0; 0; 0; 10; 1; 1] /\
  parse_lu_all false [48; 0; 0; 0; 10; 1; 1] = Ok [([0; 40976], V4 0, 0)].
Proof. exact refuted_lu4_label_zero. Qed.
Print Assumptions C07_labeled_unicast_refuted_label_zero.

(** defect: MP_UNREACH for labeled unicast is constructed for IPv4 but never decoded ... *)
Theorem C07_labeled_unicast_refuted_unreach_v4_not_parsed :
  unreachlu_construct false [mk_lroute [WITHDRAW_LABEL] 167772160 8] = Ok (Some [144; 15; 0; 8; 0; 1; 4; 32; 128; 0; 0; 10]) /\
  unreachlu_parse false [0; 1; 4; 32; 128; 0; 0; 10] = Ok None.
Proof. exact refuted_lu4_unreach_not_parsed. Qed.
Print Assumptions C07_labeled_unicast_refuted_unreach_v4_not_parsed.

(** ... and not constructed at all for IPv6 *)
Theorem C07_labeled_unicast_refuted_unreach_v6_not_constructed :
  forall rs, unreachlu_construct true rs = Ok None.
Proof. exact refuted_lu6_unreach_not_constructed. Qed.
Print Assumptions C07_labeled_unicast_refuted_unreach_v6_not_constructed.

(** ------------------------------------------------------------------ IPv4 flowspec *)

(** full statement (NOT proved yet): every MP_REACH (1,133) with in-range rules of fewer than
    240 octets decodes to itself *)
Definition C07_flowspec_roundtrip_statement : Prop := forall nh fs nlri,
  (forall a, nh = Some a -> a < 2 ^ 32) -> fs <> [] -> Forall wf_flow fs ->
  fs_construct fs = Ok nlri -> len nlri <= 65000 ->
  Forall (fun f => forall b, fs_construct_nlri f = Ok b -> len b <= 240) fs ->
  exists v, reachfs_construct nh fs =
              Ok (Some ([c_ATTR_MpReachNLRI_FLAG; c_ATTR_MpReachNLRI_ID] ++ be 2 (len v) ++ v)) /\
            reachfs_parse v = Ok (option_map V4 nh, map expect_flow fs).

(** proved part: the numeric-operator list of one component (comparisons =, <, >, <=, >= on values
    below 2^32, written on 1, 2 or 4 octets, any number of OR-ed items) encodes and decodes to itself and the decoder
    reports the number of octets it consumed (+1, as parse_operators does).  Missing for the full
    statement: prefix components, the component loop (dict assembly), the rule length framing
    and the attribute framing - these are covered by the model/implementation correspondence and
    the oracle only. *)
Theorem C07_flowspec_operators_roundtrip_partial : forall ops, ops <> [] -> Forall wf_op ops ->
  exists b, fs_construct_ops ops = Ok b /\
            forall rest fuel, (length b < fuel)%nat ->
              fs_parse_ops fuel (b ++ rest) = Ok (map expect_pop ops, S (length b)).
Proof. exact fs_ops_roundtrip. Qed.
Print Assumptions C07_flowspec_operators_roundtrip_partial.

Example C07_flowspec_nonvacuous :
  Forall wf_op [(1, 80); (3, 8080); (5, 4000000000)] /\
  fs_construct_ops [(1, 80); (3, 8080); (5, 4000000000)] = Ok [1; 80; 19; 31; 144; 165; 238; 107; 40; 0].
Proof.
  split; [|vm_compute; reflexivity].
  repeat (constructor; [split; reflexivity|]). constructor.
Qed.

(** proved part: the rule length prefix (RFC 8955 4.1: one octet below 240, 0xfnnn from 240 to
    4095).  For EVERY component string of 1..4095 octets the prefix written by construct_nlri
    ([fs_frame]) is read back by the MP_REACH / MP_UNREACH NLRI loop ([fs_unframe]) as exactly
    those octets with nothing left over; the written size is body + 1 below 240 and body + 2
    from 240 on; below 240 this also holds in front of any following octets.  (From 240 on only
    for the last rule of the attribute: C07_flowspec_length_prefix_refuted_long_rule_not_last.)
    The threshold 240 / maximum 4095 of the model are tied to ipv4_flowspec.py by the
    correspondence cases with bodies of 239, 240, 241, 4095 and 4096 octets (harness c07_flow4). *)
Theorem C07_flowspec_length_prefix_roundtrip : forall b, 1 <= len b <= 4095 ->
  exists w, fs_frame b = Ok w /\
            length w = (length b + (if (len b <? 240)%N then 1 else 2))%nat /\
            fs_unframe w = (b, []) /\
            (len b < 240 -> forall rest, fs_unframe (w ++ rest) = (b, rest)).
Proof. exact fs_frame_roundtrip. Qed.
Print Assumptions C07_flowspec_length_prefix_roundtrip.

(** the first octet tells the reader which form was written, at every body length *)
Theorem C07_flowspec_length_prefix_form : forall b w, 1 <= len b <= 4095 -> fs_frame b = Ok w ->
  exists l0 r, w = l0 :: r /\ ((l0 / 16 =? 15) = negb (len b <? 240)).
Proof. exact fs_frame_first_octet. Qed.
Print Assumptions C07_flowspec_length_prefix_form.

(** nothing is emitted for an empty body or one above 4095 octets *)
Theorem C07_flowspec_length_prefix_out_of_range : forall b,
  len b = 0 \/ 4095 < len b -> fs_frame b = Exc.
Proof. exact fs_frame_out_of_range. Qed.
Print Assumptions C07_flowspec_length_prefix_out_of_range.

(** every rule the model of construct_nlri emits is its component octets behind such a prefix *)
Theorem C07_flowspec_rule_framed : forall f w, fs_construct_nlri f = Ok w ->
  exists body, 1 <= len body <= 4095 /\ fs_frame body = Ok w /\ fs_unframe w = (body, []) /\
               (len body < 240 -> forall rest, fs_unframe (w ++ rest) = (body, rest)).
Proof. exact fs_construct_nlri_framed. Qed.
Print Assumptions C07_flowspec_rule_framed.

Example C07_flowspec_length_prefix_nonvacuous :
  fs_frame (repeat 7 239) = Ok (239 :: repeat 7 239) /\
  fs_frame (repeat 7 240) = Ok (240 :: 240 :: repeat 7 240) /\
  fs_frame (repeat 7 241) = Ok (240 :: 241 :: repeat 7 241) /\
  fs_frame (repeat 7 4095) = Ok (255 :: 255 :: repeat 7 4095) /\
  fs_frame (repeat 7 4096) = Exc /\
  fs_unframe (240 :: 240 :: repeat 7 240) = (repeat 7 240, []).
Proof. repeat split; vm_compute; reflexivity. Qed.

(** defect (known finding C07-flowspec-nlri-240-octets-or-longer): a rule of 240 octets that is
    not the last one swallows the rule after it (0xf000 | length is used unmasked) *)
Theorem C07_flowspec_length_prefix_refuted_long_rule_not_last :
  len w_body240 = 240 /\
  exists w, fs_frame w_body240 = Ok w /\
            fs_unframe (w ++ [3; 3; 129; 17]) = (w_body240 ++ [3; 3; 129; 17], []).
Proof. exact fs_frame_long_not_last_refuted. Qed.
Print Assumptions C07_flowspec_length_prefix_refuted_long_rule_not_last.

(** defects *)
Theorem C07_flowspec_refuted_prefix_length_zero : fs_construct_prefix (0, 0) = Exc.
Proof. exact refuted_prefix_length_zero. Qed.
Print Assumptions C07_flowspec_refuted_prefix_length_zero.

Theorem C07_flowspec_refuted_tcp_flags_dropped :
  fs_construct_nlri (mk_flow (Some (167772160, 8)) None [(9, [(1, 2)])]) = Ok [3; 1; 8; 10] /\
  fs_parse_all [3; 1; 8; 10] = Ok [[(1, CPfx (167772160, 8))]].
Proof. exact refuted_tcp_flags_dropped. Qed.
Print Assumptions C07_flowspec_refuted_tcp_flags_dropped.
