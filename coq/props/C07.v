(** C07 — multiprotocol NLRI round trip: every in-range MP_REACH_NLRI / MP_UNREACH_NLRI value
    decodes back to exactly itself.

    Families proved here: IPv6 unicast, VPNv4, VPNv6, IPv4/IPv6 labeled unicast (MP_REACH).
    IPv4 flowspec: model + correspondence + oracle; theorems for the operator lists
    (C07_flowspec_operators_roundtrip_partial) and for the rule length prefix at every body length
    1..4095, both forms (the C07_flowspec_length_prefix theorems); the full statement is
    C07_flowspec_roundtrip_statement.
    EVPN route types 1-4 (model/YEvpn.v): MAC text, ESI types 0-5, each route type, the NLRI list
    and the MP_REACH / MP_UNREACH (25, 70) attributes, for all in-range values (the C07_evpn theorems
    at the end of this file).

    Values: addresses are integers (text rendering is done by netaddr and is canonicalised by
    the harness); [V4 n] / [V6 n] is the version netaddr.IPAddress(int) picks for the decoded
    integer, so "decodes to itself" for an IPv6 value a means the decoder returns [V6 a].
    The construct theorems give the whole attribute: flag, type, 2-octet length, value; the
    decoder is applied to the value, as Update.parse_attributes does.

    Prefix octets of VPN / labeled unicast routes are modelled as repaired by
    build/proposed/c07-1-construct-prefix-v6.diff and c07-2-construct-prefix-v4-zero.diff; the label
    parser is bounded to the route as by build/proposed/c11-label-stack-bound.diff; flowspec operand
    widths and the 2-octet rule length as by build/proposed/c08-flowspec-framing.diff. *)
From YV Require Import lib.Base gen.Consts model.YMp model.YPrefix6 model.YLabel model.YVpn model.YLu
  model.YFlow4 lib.Dec model.YEvpn
  proof.MpPrefix6Proofs proof.MpLabelProofs proof.MpVpnProofs proof.MpLuProofs proof.MpFlow4Proofs
  proof.MpFlow4Frame proof.MpEvpn.

(** ------------------------------------------------------------------ IPv6 unicast *)

(** MP_REACH (2,1): every next hop (with / without link-local), every list of routes of every
    prefix length 0..128, all addresses >= 2^32 *)
Theorem C07_ipv6_unicast_roundtrip : forall g ll rs,
  2 ^ 32 <= g < 2 ^ 128 -> (forall x, ll = Some x -> 2 ^ 32 <= x < 2 ^ 128) ->
  Forall wf_route6 rs -> Forall (fun r => 2 ^ 32 <= fst r) rs -> len (reach6u_value g ll rs) <= 65535 ->
  exists v, reach6u_construct g ll rs =
              Ok ([c_ATTR_MpReachNLRI_FLAG; c_ATTR_MpReachNLRI_ID] ++ be 2 (len v) ++ v) /\
            reach6u_parse v = Ok (V6 g, option_map V6 ll, map (fun r => (V6 (fst r), snd r)) rs).
Proof. exact reach6u_roundtrip. Qed.
Print Assumptions C07_ipv6_unicast_roundtrip.

Example C07_ipv6_unicast_nonvacuous :
  wf_route6 (2 ^ 125 + 2 ^ 95, 33) /\ 2 ^ 32 <= 2 ^ 125 + 2 ^ 95 /\
  reach6u_parse (reach6u_value (2 ^ 125) (Some (2 ^ 127 + 1)) [(2 ^ 125 + 2 ^ 95, 33)]) =
  Ok (V6 (2 ^ 125), Some (V6 (2 ^ 127 + 1)), [(V6 (2 ^ 125 + 2 ^ 95), 33)]).
Proof. vm_compute. repeat split; discriminate. Qed.

(** MP_UNREACH (2,1) *)
Theorem C07_ipv6_unicast_unreach_roundtrip : forall rs,
  rs <> [] -> Forall wf_route6 rs -> Forall (fun r => 2 ^ 32 <= fst r) rs ->
  len (unreach6u_value rs) <= 65535 ->
  exists v, unreach6u_construct rs =
              Ok (Some ([c_ATTR_MpUnReachNLRI_FLAG; c_ATTR_MpUnReachNLRI_ID] ++ be 2 (len v) ++ v)) /\
            unreach6u_parse v = Ok (map (fun r => (V6 (fst r), snd r)) rs).
Proof. exact unreach6u_roundtrip. Qed.
Print Assumptions C07_ipv6_unicast_unreach_roundtrip.

(** exact behaviour on ALL in-range values (no lower bound on addresses): identity except that
    values below 2^32 come back as IPv4 ([render]), provided the list does not end in two ::/0 *)
Theorem C07_ipv6_unicast_behaviour : forall g ll rs,
  g < 2 ^ 128 -> (forall x, ll = Some x -> x < 2 ^ 128) ->
  Forall wf_route6 rs -> no_double_default rs -> len (reach6u_value g ll rs) <= 65535 ->
  exists v, reach6u_construct g ll rs =
              Ok ([c_ATTR_MpReachNLRI_FLAG; c_ATTR_MpReachNLRI_ID] ++ be 2 (len v) ++ v) /\
            reach6u_parse v = Ok (render g, option_map render ll, map render_route rs).
Proof. exact reach6u_behaviour. Qed.
Print Assumptions C07_ipv6_unicast_behaviour.

Theorem C07_ipv6_unicast_unreach_behaviour : forall rs,
  rs <> [] -> Forall wf_route6 rs -> no_double_default rs -> len (unreach6u_value rs) <= 65535 ->
  exists v, unreach6u_construct rs =
              Ok (Some ([c_ATTR_MpUnReachNLRI_FLAG; c_ATTR_MpUnReachNLRI_ID] ++ be 2 (len v) ++ v)) /\
            unreach6u_parse v = Ok (map render_route rs).
Proof. exact unreach6u_behaviour. Qed.
Print Assumptions C07_ipv6_unicast_unreach_behaviour.

(** defect: ::/0 comes back as 0.0.0.0/0 *)
Theorem C07_ipv6_unicast_refuted_default_route :
  reach6u_construct (2 ^ 125) None [(0, 0)] = Ok ([144; 14] ++ be 2 (len w_default) ++ w_default) /\
  reach6u_parse w_default = Ok (V6 (2 ^ 125), None, [(V4 0, 0)]).
Proof. exact refuted_default_route. Qed.
Print Assumptions C07_ipv6_unicast_refuted_default_route.

(** defect: any value below 2^32 (next hop ::1, prefix ::1.2.3.4/128) comes back as IPv4 *)
Theorem C07_ipv6_unicast_refuted_low_address :
  reach6u_construct 1 None [(16909060, 128)] = Ok ([144; 14] ++ be 2 (len w_low) ++ w_low) /\
  reach6u_parse w_low = Ok (V4 1, None, [(V4 16909060, 128)]).
Proof. exact refuted_low_address. Qed.
Print Assumptions C07_ipv6_unicast_refuted_low_address.

(** defect: two ::/0 routes decode to nothing *)
Theorem C07_ipv6_unicast_refuted_double_default :
  unreach6u_construct [(0, 0); (0, 0)] = Ok (Some ([144; 15] ++ be 2 (len w_dd) ++ w_dd)) /\
  unreach6u_parse w_dd = Ok [].
Proof. exact refuted_double_default. Qed.
Print Assumptions C07_ipv6_unicast_refuted_double_default.

(** ------------------------------------------------------------------ labels, route distinguishers *)

(** every in-range RD of type 0, 1, 2 encodes on 8 octets and decodes to itself *)
Theorem C07_rd_roundtrip : forall r, wf_rd r ->
  exists b, construct_rd r = Ok b /\ length b = 8%nat /\ parse_rd b = Ok (PRd r).
Proof. exact rd_roundtrip. Qed.
Print Assumptions C07_rd_roundtrip.

Example C07_rd_nonvacuous : wf_rd (RdAs 65535 (2 ^ 32 - 1)) /\ wf_rd (RdAs (2 ^ 32 - 1) 65535) /\ wf_rd (RdIp (2 ^ 32 - 1) 65535).
Proof. cbn. repeat split; try (left; split; reflexivity || discriminate); try (right; repeat split; reflexivity || discriminate); reflexivity || discriminate. Qed.

(** every label stack (any depth) of 20-bit labels whose last label is not 0 *)
Theorem C07_label_stack_roundtrip : forall ls, wf_stack ls ->
  exists b, construct_labels ls = Ok b /\ length b = (3 * length ls)%nat /\
            forall rest, parse_labels (b ++ rest) = ls.
Proof. exact label_stack_roundtrip. Qed.
Print Assumptions C07_label_stack_roundtrip.

(** defect: a last label 0 is written without the bottom-of-stack bit; the decoder reads on *)
Theorem C07_label_refuted_zero_without_bottom_of_stack :
  construct_labels [0] = Ok [0; 0; 0] /\
  parse_labels ([0; 0; 0] ++ [0; 0; 0; 100; 0; 0; 0; 1]) = [0; 0; 409600].
Proof. exact refuted_label_zero_no_bottom_of_stack. Qed.
Print Assumptions C07_label_refuted_zero_without_bottom_of_stack.

(** ------------------------------------------------------------------ VPNv4 / VPNv6 *)

(** MP_REACH (1|2,128): next hop RD asn:an + address, every list of routes with one label
    1..2^20-1, every RD type, every prefix length 0..32 / 0..128; [v6 = false] VPNv4,
    [v6 = true] VPNv6 with addresses >= 2^32.  The next hop is crossed with the family:
    [nh6 = false] an IPv4 next hop (RD + 4 octets), [nh6 = true] an IPv6 next hop >= 2^32
    (RD + 16 octets) - VPNv4 routes with an IPv6 next hop are RFC 8950 / the ext_nexthop
    capability, VPNv6 routes with an IPv4 next hop what the code writes for IPv4 text *)
Theorem C07_vpn_roundtrip : forall v6 nh6 asn an ip rs,
  asn <= 65535 -> an < 2 ^ 32 -> ip < 2 ^ abits nh6 -> (nh6 = true -> 2 ^ 32 <= ip) ->
  Forall (wf_vroute v6) rs -> Forall one_label rs ->
  Forall (fun r => v6 = true -> 2 ^ 32 <= v_addr r) rs ->
  forall nlri, construct_vpn v6 false rs = Ok nlri -> len nlri <= 65000 ->
  exists v, reachvpn_construct_x v6 nh6 asn an ip rs =
              Ok ([c_ATTR_MpReachNLRI_FLAG; c_ATTR_MpReachNLRI_ID] ++ be 2 (len v) ++ v) /\
            reachvpn_parse v6 v =
              Ok (PRd (RdAs asn an), (if nh6 then V6 ip else V4 ip),
                  map (fun r => (v_labels r, PRd (v_rd r), (if v6 then V6 (v_addr r) else V4 (v_addr r)), v_len r)) rs).
Proof. exact reachvpn_roundtrip_x. Qed.
Print Assumptions C07_vpn_roundtrip.

(** exact behaviour without the lower bound on IPv6 addresses *)
Theorem C07_vpn_behaviour : forall v6 nh6 asn an ip rs,
  asn <= 65535 -> an < 2 ^ 32 -> ip < 2 ^ abits nh6 ->
  Forall (wf_vroute v6) rs -> Forall one_label rs ->
  forall nlri, construct_vpn v6 false rs = Ok nlri -> len nlri <= 65000 ->
  exists v, reachvpn_construct_x v6 nh6 asn an ip rs =
              Ok ([c_ATTR_MpReachNLRI_FLAG; c_ATTR_MpReachNLRI_ID] ++ be 2 (len v) ++ v) /\
            reachvpn_parse v6 v = Ok (PRd (RdAs asn an), vaddr nh6 ip, map (expect_proute v6 false) rs).
Proof. exact reachvpn_behaviour_x. Qed.
Print Assumptions C07_vpn_behaviour.

(** MP_UNREACH (1|2,128): the decoder reports the withdraw label 524288 for every route *)
Theorem C07_vpn_unreach_behaviour : forall v6 rs,
  rs <> [] -> Forall (wf_vroute v6) rs ->
  forall nlri, construct_vpn v6 true rs = Ok nlri -> len nlri <= 65000 ->
  exists v, unreachvpn_construct v6 rs =
              Ok (Some ([c_ATTR_MpUnReachNLRI_FLAG; c_ATTR_MpUnReachNLRI_ID] ++ be 2 (len v) ++ v)) /\
            unreachvpn_parse v6 v = Ok (map (expect_proute v6 true) rs).
Proof. exact unreachvpn_behaviour. Qed.
Print Assumptions C07_vpn_unreach_behaviour.

(** the encoder succeeds on every in-range list (the hypothesis "construct_vpn ... = Ok nlri" holds) *)
Theorem C07_vpn_construct_total : forall v6 withdraw rs,
  Forall (wf_vroute v6) rs -> (withdraw = false -> Forall one_label rs) ->
  exists nlri, construct_vpn v6 withdraw rs = Ok nlri.
Proof. exact construct_vpn_total. Qed.
Print Assumptions C07_vpn_construct_total.

Example C07_vpn_nonvacuous :
  wf_vroute false (mk_vroute [16] (RdIp 16909060 7) 167772160 8) /\
  wf_vroute true (mk_vroute [2 ^ 20 - 1] (RdAs 70000 7) (2 ^ 125) 3) /\
  parse_vpn_all true false [91; 255; 255; 241; 0; 2; 0; 1; 17; 112; 0; 7; 32] =
    Ok [([2 ^ 20 - 1], PRd (RdAs 70000 7), V6 (2 ^ 125), 3)].
Proof.
  split; [|split]; [| |vm_compute; reflexivity]; unfold wf_vroute, wf_rd; cbn [v_len v_addr v_rd abits];
    repeat split; try reflexivity; try discriminate; right; repeat split; reflexivity || discriminate.
Qed.

(** both next-hop forms on both families: a VPNv4 route with the IPv6 next hop 2000::1 (length
    octet 24) and a VPNv6 route with the IPv4 next hop 10.0.0.1 (length octet 12) read back *)
Example C07_vpn_nexthop_forms_nonvacuous :
  (exists v, reachvpn_construct_x false true 0 0 (2 ^ 125 + 1) [mk_vroute [16] (RdIp 16909060 7) 167772160 8] =
               Ok ([144; 14; 0; 42] ++ v) /\ nth 3 v 0 = 24 /\
             reachvpn_parse false v =
               Ok (PRd (RdAs 0 0), V6 (2 ^ 125 + 1), [([16], PRd (RdIp 16909060 7), V4 167772160, 8)])) /\
  (exists v, reachvpn_construct_x true false 0 0 167772161 [mk_vroute [2 ^ 20 - 1] (RdAs 70000 7) (2 ^ 125) 3] =
               Ok ([144; 14; 0; 30] ++ v) /\ nth 3 v 0 = 12 /\
             reachvpn_parse true v =
               Ok (PRd (RdAs 0 0), V4 167772161, [([2 ^ 20 - 1], PRd (RdAs 70000 7), V6 (2 ^ 125), 3)])).
Proof. split; eexists; (split; [vm_compute; reflexivity|]); split; vm_compute; reflexivity. Qed.

Theorem C07_vpn_refuted_label_zero :
  construct_vpn false false [r_label0] = Ok [96; 0; 0; 0; 0; 0; 0; 100; 0; 0; 0; 1; 10] /\
  parse_vpn_all false false [96; 0; 0; 0; 0; 0; 0; 100; 0; 0; 0; 1; 10] =
    Ok [([0; 0; 409600; 16], PRd (RdAs 100 1), V4 167772160, 8)].
Proof. exact refuted_vpnv4_label_zero. Qed.
Print Assumptions C07_vpn_refuted_label_zero.

Theorem C07_vpn_refuted_two_labels :
  exists b, construct_vpn false false [r_two_labels] = Ok b /\
            parse_vpn_all false false b = Ok [([16; 17], PRd (RdIp 285212672 25600), V4 266, 32)].
Proof. exact refuted_vpnv4_two_labels. Qed.
Print Assumptions C07_vpn_refuted_two_labels.

Theorem C07_vpn_refuted_vpnv6_default_route :
  construct_vpn true false [r_low6] = Ok [88; 0; 1; 1; 0; 0; 0; 100; 0; 0; 0; 1] /\
  parse_vpn_all true false [88; 0; 1; 1; 0; 0; 0; 100; 0; 0; 0; 1] = Ok [([16], PRd (RdAs 100 1), V4 0, 0)].
Proof. exact refuted_vpnv6_default_route. Qed.
Print Assumptions C07_vpn_refuted_vpnv6_default_route.

(** ------------------------------------------------------------------ labeled unicast *)

(** MP_REACH (1|2,4): every next hop of either version ([nh6]: 4 or 16 octets) for routes of
    either family ([v6]), every list of routes with any label stack whose last label is not 0,
    every prefix length; IPv6 addresses >= 2^32 *)
Theorem C07_labeled_unicast_roundtrip : forall v6 nh6 ip rs,
  ip < 2 ^ abits nh6 -> (nh6 = true -> 2 ^ 32 <= ip) -> rs <> [] -> Forall (wf_lroute v6) rs ->
  Forall (fun r => v6 = true -> 2 ^ 32 <= l_addr r) rs ->
  forall nlri, construct_lu v6 false rs = Ok nlri -> len nlri <= 65000 ->
  exists v, reachlu_construct_x v6 nh6 ip rs =
              Ok (Some ([c_ATTR_MpReachNLRI_FLAG; c_ATTR_MpReachNLRI_ID] ++ be 2 (len v) ++ v)) /\
            reachlu_parse v6 v =
              Ok (Some (if nh6 then V6 ip else V4 ip),
                  map (fun r => (l_labels r, (if v6 then V6 (l_addr r) else V4 (l_addr r)), l_len r)) rs).
Proof. exact reachlu_roundtrip_x. Qed.
Print Assumptions C07_labeled_unicast_roundtrip.

Theorem C07_labeled_unicast_behaviour : forall v6 nh6 ip rs,
  ip < 2 ^ abits nh6 -> rs <> [] -> Forall (wf_lroute v6) rs ->
  forall nlri, construct_lu v6 false rs = Ok nlri -> len nlri <= 65000 ->
  exists v, reachlu_construct_x v6 nh6 ip rs =
              Ok (Some ([c_ATTR_MpReachNLRI_FLAG; c_ATTR_MpReachNLRI_ID] ++ be 2 (len v) ++ v)) /\
            reachlu_parse v6 v = Ok (Some (vaddr nh6 ip), map (expect_plroute v6) rs).
Proof. exact reachlu_behaviour_x. Qed.
Print Assumptions C07_labeled_unicast_behaviour.

Theorem C07_labeled_unicast_construct_total : forall v6 rs,
  Forall (wf_lroute v6) rs -> exists nlri, construct_lu v6 false rs = Ok nlri.
Proof. exact construct_lu_total. Qed.
Print Assumptions C07_labeled_unicast_construct_total.

Example C07_labeled_unicast_nonvacuous :
  wf_lroute false (mk_lroute [16; 0; 17] 167837952 24) /\
  parse_lu_all false [96; 0; 1; 0; 0; 0; 0; 0; 1; 17; 10; 1; 1] = Ok [([16; 0; 17], V4 167837952, 24)].
Proof. split; [|vm_compute; reflexivity]. unfold wf_lroute. cbn [l_len l_addr l_labels abits wf_stack length].
  repeat split; try reflexivity; discriminate. Qed.

Theorem C07_labeled_unicast_refuted_label_zero :
  construct_lu false false [mk_lroute [0] 167837952 24] = Ok [48; 0; 0; 0; 10; 1; 1] /\
  parse_lu_all false [48; 0; 0; 0; 10; 1; 1] = Ok [([0; 40976], V4 0, 0)].
Proof. exact refuted_lu4_label_zero. Qed.
Print Assumptions C07_labeled_unicast_refuted_label_zero.

(** defect: MP_UNREACH for labeled unicast is constructed for IPv4 but never decoded ... *)
Theorem C07_labeled_unicast_refuted_unreach_v4_not_parsed :
  unreachlu_construct false [mk_lroute [WITHDRAW_LABEL] 167772160 8] = Ok (Some [144; 15; 0; 8; 0; 1; 4; 32; 128; 0; 0; 10]) /\
  unreachlu_parse false [0; 1; 4; 32; 128; 0; 0; 10] = Ok None.
Proof. exact refuted_lu4_unreach_not_parsed. Qed.
Print Assumptions C07_labeled_unicast_refuted_unreach_v4_not_parsed.

(** ... and not constructed at all for IPv6 *)
Theorem C07_labeled_unicast_refuted_unreach_v6_not_constructed :
  forall rs, unreachlu_construct true rs = Ok None.
Proof. exact refuted_lu6_unreach_not_constructed. Qed.
Print Assumptions C07_labeled_unicast_refuted_unreach_v6_not_constructed.

(** ------------------------------------------------------------------ IPv4 flowspec *)

(** full statement (NOT proved yet): every MP_REACH (1,133) with in-range rules of fewer than
    240 octets decodes to itself *)
Definition C07_flowspec_roundtrip_statement : Prop := forall nh fs nlri,
  (forall (nh6 : bool) a, nh = Some (nh6, a) -> if nh6 then 2 ^ 32 <= a /\ a < 2 ^ 128 else a < 2 ^ 32) -> fs <> [] -> Forall wf_flow fs ->
  fs_construct fs = Ok nlri -> len nlri <= 65000 ->
  Forall (fun f => forall b, fs_construct_nlri f = Ok b -> len b <= 240) fs ->
  exists v, reachfs_construct_x nh fs =
              Ok (Some ([c_ATTR_MpReachNLRI_FLAG; c_ATTR_MpReachNLRI_ID] ++ be 2 (len v) ++ v)) /\
            reachfs_parse v = Ok (option_map (fun p : bool * N => if fst p then V6 (snd p) else V4 (snd p)) nh, map expect_flow fs).

(** proved part: the numeric-operator list of one component (comparisons =, <, >, <=, >= on values
    below 2^32, written on 1, 2 or 4 octets, any number of OR-ed items) encodes and decodes to itself and the decoder
    reports the number of octets it consumed (+1, as parse_operators does).  Missing for the full
    statement: prefix components, the component loop (dict assembly), the rule length framing
    and the attribute framing - these are covered by the model/implementation correspondence and
    the oracle only. *)
Theorem C07_flowspec_operators_roundtrip_partial : forall ops, ops <> [] -> Forall wf_op ops ->
  exists b, fs_construct_ops ops = Ok b /\
            forall rest fuel, (length b < fuel)%nat ->
              fs_parse_ops fuel (b ++ rest) = Ok (map expect_pop ops, S (length b)).
Proof. exact fs_ops_roundtrip. Qed.
Print Assumptions C07_flowspec_operators_roundtrip_partial.

Example C07_flowspec_nonvacuous :
  Forall wf_op [(1, 80); (3, 8080); (5, 4000000000)] /\
  fs_construct_ops [(1, 80); (3, 8080); (5, 4000000000)] = Ok [1; 80; 19; 31; 144; 165; 238; 107; 40; 0].
Proof.
  split; [|vm_compute; reflexivity].
  repeat (constructor; [split; reflexivity|]). constructor.
Qed.

(** proved part: the rule length prefix (RFC 8955 4.1: one octet below 240, 0xfnnn from 240 to
    4095).  For EVERY component string of 1..4095 octets the prefix written by construct_nlri
    ([fs_frame]) is read back by the MP_REACH / MP_UNREACH NLRI loop ([fs_unframe]) as exactly
    those octets with nothing left over; the written size is body + 1 below 240 and body + 2
    from 240 on; below 240 this also holds in front of any following octets.  (From 240 on only
    for the last rule of the attribute: C07_flowspec_length_prefix_refuted_long_rule_not_last.)
    The threshold 240 / maximum 4095 of the model are tied to ipv4_flowspec.py by the
    correspondence cases with bodies of 239, 240, 241, 4095 and 4096 octets (harness c07_flow4). *)
Theorem C07_flowspec_length_prefix_roundtrip : forall b, 1 <= len b <= 4095 ->
  exists w, fs_frame b = Ok w /\
            length w = (length b + (if (len b <? 240)%N then 1 else 2))%nat /\
            fs_unframe w = (b, []) /\
            (len b < 240 -> forall rest, fs_unframe (w ++ rest) = (b, rest)).
Proof. exact fs_frame_roundtrip. Qed.
Print Assumptions C07_flowspec_length_prefix_roundtrip.

(** the first octet tells the reader which form was written, at every body length *)
Theorem C07_flowspec_length_prefix_form : forall b w, 1 <= len b <= 4095 -> fs_frame b = Ok w ->
  exists l0 r, w = l0 :: r /\ ((l0 / 16 =? 15) = negb (len b <? 240)).
Proof. exact fs_frame_first_octet. Qed.
Print Assumptions C07_flowspec_length_prefix_form.

(** nothing is emitted for an empty body or one above 4095 octets *)
Theorem C07_flowspec_length_prefix_out_of_range : forall b,
  len b = 0 \/ 4095 < len b -> fs_frame b = Exc.
Proof. exact fs_frame_out_of_range. Qed.
Print Assumptions C07_flowspec_length_prefix_out_of_range.

(** every rule the model of construct_nlri emits is its component octets behind such a prefix *)
Theorem C07_flowspec_rule_framed : forall f w, fs_construct_nlri f = Ok w ->
  exists body, 1 <= len body <= 4095 /\ fs_frame body = Ok w /\ fs_unframe w = (body, []) /\
               (len body < 240 -> forall rest, fs_unframe (w ++ rest) = (body, rest)).
Proof. exact fs_construct_nlri_framed. Qed.
Print Assumptions C07_flowspec_rule_framed.

Example C07_flowspec_length_prefix_nonvacuous :
  fs_frame (repeat 7 239) = Ok (239 :: repeat 7 239) /\
  fs_frame (repeat 7 240) = Ok (240 :: 240 :: repeat 7 240) /\
  fs_frame (repeat 7 241) = Ok (240 :: 241 :: repeat 7 241) /\
  fs_frame (repeat 7 4095) = Ok (255 :: 255 :: repeat 7 4095) /\
  fs_frame (repeat 7 4096) = Exc /\
  fs_unframe (240 :: 240 :: repeat 7 240) = (repeat 7 240, []).
Proof. repeat split; vm_compute; reflexivity. Qed.

(** defect (known finding C07-flowspec-nlri-240-octets-or-longer): a rule of 240 octets that is
    not the last one swallows the rule after it (0xf000 | length is used unmasked) *)
Theorem C07_flowspec_length_prefix_refuted_long_rule_not_last :
  len w_body240 = 240 /\
  exists w, fs_frame w_body240 = Ok w /\
            fs_unframe (w ++ [3; 3; 129; 17]) = (w_body240 ++ [3; 3; 129; 17], []).
Proof. exact fs_frame_long_not_last_refuted. Qed.
Print Assumptions C07_flowspec_length_prefix_refuted_long_rule_not_last.

(** defects *)
Theorem C07_flowspec_refuted_prefix_length_zero : fs_construct_prefix (0, 0) = Exc.
Proof. exact refuted_prefix_length_zero. Qed.
Print Assumptions C07_flowspec_refuted_prefix_length_zero.

Theorem C07_flowspec_refuted_tcp_flags_dropped :
  fs_construct_nlri (mk_flow (Some (167772160, 8)) None [(9, [(1, 2)])]) = Ok [3; 1; 8; 10] /\
  fs_parse_all [3; 1; 8; 10] = Ok [[(1, CPfx (167772160, 8))]].
Proof. exact refuted_tcp_flags_dropped. Qed.
Print Assumptions C07_flowspec_refuted_tcp_flags_dropped.

(** ------------------------------------------------------------------ EVPN (AFI 25, SAFI 70) *)

(** Values (model/YEvpn.v): a MAC address is its TEXT (the model splits it on '-' and converts the
    groups like the code does), IP addresses are (version, integer), an ESI is [Esi0 .. Esi5], a route
    is [EAutoDiscovery] (type 1), [EMacIp] (2), [EMulticast] (3), [ESegment] (4).  The guards are the
    boolean predicates of proof/MpEvpn.v:
      [canon_macb s]   s is accepted by construct_mac and is spelled as the decoder spells it
                       (six two-digit upper-case groups): true for the text of EVERY six octets
                       (C07_evpn_mac_every_address);
      [wf_esib e]      type 0 value < 2^72; types 1, 2: canonical MAC, 2-octet number; type 3: canonical
                       MAC, 3-octet discriminator; types 4, 5: two 4-octet numbers;
      [wf_routeb x]    RD of type 0 / 1 / 2 in range, [wf_esib], Ethernet tag < 2^32, canonical MAC,
                       IPv4 address < 2^32 / IPv6 address < 2^128, labels < 2^20 (any depth, a last
                       label 0 included), type 1: at least one label, types 3 and 4: the address
                       present, the encoded route at most 255 octets (its length field is one octet);
      [high_ipb a]     a is not an IPv6 address below 2^32 (those decode as IPv4: known finding
                       C07-evpn-low-ipv6-address-as-ipv4, C07_evpn_refuted_low_ipv6_address). *)

(** MAC text: the text of every six octets is canonical ... *)
Theorem C07_evpn_mac_every_address : forall o, length o = 6%nat -> wf_bytes o -> canon_macb (show_mac o) = true.
Proof. exact canon_mac_show. Qed.
Print Assumptions C07_evpn_mac_every_address.

(** ... and every canonical text is written on six octets that decode to the same text *)
Theorem C07_evpn_mac_roundtrip : forall s, canon_macb s = true ->
  exists o, construct_mac s = Ok o /\ length o = 6%nat /\ wf_bytes o /\ parse_mac o = Ok s.
Proof. exact mac_roundtrip. Qed.
Print Assumptions C07_evpn_mac_roundtrip.

(** whatever text construct_mac accepts (lower case, one-digit groups, ...) decodes to the canonical
    text of the same six octets *)
Theorem C07_evpn_mac_behaviour : forall s o, construct_mac s = Ok o ->
  length o = 6%nat /\ wf_bytes o /\ parse_mac o = Ok (show_mac o) /\ canon_macb (show_mac o) = true.
Proof. exact mac_behaviour. Qed.
Print Assumptions C07_evpn_mac_behaviour.

Example C07_evpn_mac_nonvacuous :
  canon_macb ex_mac = true /\ construct_mac ex_mac = Ok [10; 27; 44; 61; 78; 255] /\
  parse_mac [10; 27; 44; 61; 78; 255] = Ok ex_mac /\
  canon_macb ex_mac_lower = false /\ construct_mac ex_mac_lower = Ok [10; 27; 44; 61; 78; 255].
Proof. repeat match goal with |- _ /\ _ => split end; vm_compute; reflexivity. Qed.

(** every in-range ESI of type 0..5 is written on 10 octets and decodes to itself *)
Theorem C07_evpn_esi_roundtrip : forall e, wf_esib e = true ->
  exists b, construct_esi e = Ok b /\ length b = 10%nat /\ parse_esi b = Ok e.
Proof. exact esi_roundtrip. Qed.
Print Assumptions C07_evpn_esi_roundtrip.

Example C07_evpn_esi_nonvacuous :
  wf_esib (Esi0 (2 ^ 72 - 1)) = true /\ wf_esib (Esi1 ex_mac 65535) = true /\ wf_esib (Esi2 ex_mac 256) = true /\
  wf_esib (Esi3 ex_mac 16777215) = true /\ wf_esib (Esi3 ex_mac 1) = true /\
  wf_esib (Esi4 (2 ^ 32 - 1) 1) = true /\ wf_esib (Esi5 65536 (2 ^ 32 - 1)) = true /\
  construct_esi (Esi3 ex_mac 1) = Ok [3; 10; 27; 44; 61; 78; 255; 0; 0; 1].
Proof. repeat match goal with |- _ /\ _ => split end; vm_compute; reflexivity. Qed.

(** every non-empty stack of 20-bit labels at the end of a route, a last label 0 included (the
    decoder stops at the end of the route, so the missing bottom-of-stack bit of label 0 is harmless
    here, unlike C07_label_refuted_zero_without_bottom_of_stack) *)
Theorem C07_evpn_labels_roundtrip : forall ls, ls <> [] -> wf_labelsb ls = true ->
  exists b, construct_labels ls = Ok b /\ length b = (3 * length ls)%nat /\ parse_labels b = ls.
Proof. exact labels_roundtrip. Qed.
Print Assumptions C07_evpn_labels_roundtrip.

Example C07_evpn_labels_nonvacuous :
  wf_labelsb [1048575; 0; 16; 0] = true /\
  construct_labels [1048575; 0; 16; 0] = Ok [255; 255; 240; 0; 0; 0; 0; 1; 0; 0; 0; 0].
Proof. repeat match goal with |- _ /\ _ => split end; vm_compute; reflexivity. Qed.

(** route type 1, Ethernet Auto-Discovery *)
Theorem C07_evpn_ethernet_auto_discovery_roundtrip : forall r e tag ls,
  wf_routeb (EAutoDiscovery r e tag ls) = true ->
  exists b, construct_route (EAutoDiscovery r e tag ls) = Ok b /\
            parse_route c_BGPNLRI_EVPN_ETHERNET_AUTO_DISCOVERY b = Ok (Some (PAutoDiscovery (PRd r) e tag ls)).
Proof. exact autodiscovery_roundtrip. Qed.
Print Assumptions C07_evpn_ethernet_auto_discovery_roundtrip.

(** route type 2, MAC/IP Advertisement: with and without IP address, with and without labels *)
Theorem C07_evpn_mac_ip_advertisement_roundtrip : forall r e tag mac ip ls,
  wf_routeb (EMacIp r e tag mac ip ls) = true -> high_ipob ip = true ->
  exists b, construct_route (EMacIp r e tag mac ip ls) = Ok b /\
            parse_route c_BGPNLRI_EVPN_MAC_IP_ADVERTISEMENT b = Ok (Some (PMacIp (PRd r) e tag mac ip ls)).
Proof. exact macip_roundtrip. Qed.
Print Assumptions C07_evpn_mac_ip_advertisement_roundtrip.

(** route type 3, Inclusive Multicast Ethernet Tag *)
Theorem C07_evpn_inclusive_multicast_roundtrip : forall r tag ip,
  wf_routeb (EMulticast r tag ip) = true -> high_ipob ip = true ->
  exists b, construct_route (EMulticast r tag ip) = Ok b /\
            parse_route c_BGPNLRI_EVPN_INCLUSIVE_MULTICAST_ETHERNET_TAG b = Ok (Some (PMulticast (PRd r) tag ip)).
Proof. exact multicast_roundtrip. Qed.
Print Assumptions C07_evpn_inclusive_multicast_roundtrip.

(** route type 4, Ethernet Segment *)
Theorem C07_evpn_ethernet_segment_roundtrip : forall r e ip,
  wf_routeb (ESegment r e ip) = true -> high_ipob ip = true ->
  exists b, construct_route (ESegment r e ip) = Ok b /\
            parse_route c_BGPNLRI_EVPN_ETHERNET_SEGMENT b = Ok (Some (PSegment (PRd r) e ip)).
Proof. exact segment_roundtrip. Qed.
Print Assumptions C07_evpn_ethernet_segment_roundtrip.

(** exact behaviour of every in-range route of types 1..4 without the restriction on IPv6
    addresses ([rendered_route]: netaddr's rendering of the address), with the facts the list
    encoder needs (not empty, at most 255 octets) *)
Theorem C07_evpn_route_behaviour : forall x, wf_routeb x = true ->
  exists b, construct_route x = Ok b /\ b <> [] /\ (length b <= 255)%nat /\
            parse_route (route_type x) b = Ok (Some (rendered_route x)).
Proof. exact route_behaviour. Qed.
Print Assumptions C07_evpn_route_behaviour.

Example C07_evpn_routes_nonvacuous :
  wf_routeb ex_route1 = true /\ wf_routeb ex_route2 = true /\ wf_routeb ex_route3 = true /\ wf_routeb ex_route4 = true /\
  high_routeb ex_route2 = true /\ high_routeb ex_route3 = true /\ high_routeb ex_route4 = true /\
  wf_routeb (EMacIp (RdAs 1 1) (Esi0 0) 0 ex_mac None []) = true /\
  construct_route ex_route3 = Ok [0; 2; 255; 255; 255; 255; 255; 255; 0; 0; 0; 0; 32; 255; 255; 255; 255] /\
  parse_route 2 [0; 1; 192; 168; 1; 1; 255; 255; 3; 10; 27; 44; 61; 78; 255; 255; 255; 255; 255; 255; 255; 255;
                 48; 10; 27; 44; 61; 78; 255; 128; 128; 0; 0; 0; 0; 0; 0; 0; 0; 0; 0; 0; 0; 0; 0; 1;
                 0; 1; 0; 0; 0; 0] = Ok (Some (same_route ex_route2)).
Proof. repeat match goal with |- _ /\ _ => split end; vm_compute; reflexivity. Qed.

(** MP_REACH (25, 70): next hop IPv4 or IPv6, every list of in-range routes of types 1..4 *)
Theorem C07_evpn_roundtrip : forall nh rs,
  in_ipb nh = true -> high_ipb nh = true -> forallb wf_routeb rs = true -> forallb high_routeb rs = true ->
  forall nlri, construct_evpn rs = Ok nlri -> len nlri + N.of_nat (ip_octets nh) + 5 <= 65535 ->
  exists v, reachevpn_construct nh rs =
              Ok ([c_ATTR_MpReachNLRI_FLAG; c_ATTR_MpReachNLRI_ID] ++ be 2 (len v) ++ v) /\
            reachevpn_parse v = Ok (nh, map same_route rs).
Proof. exact reachevpn_roundtrip. Qed.
Print Assumptions C07_evpn_roundtrip.

(** exact behaviour without the restriction on IPv6 addresses *)
Theorem C07_evpn_behaviour : forall nh rs,
  in_ipb nh = true -> forallb wf_routeb rs = true ->
  forall nlri, construct_evpn rs = Ok nlri -> len nlri + N.of_nat (ip_octets nh) + 5 <= 65535 ->
  exists v, reachevpn_construct nh rs =
              Ok ([c_ATTR_MpReachNLRI_FLAG; c_ATTR_MpReachNLRI_ID] ++ be 2 (len v) ++ v) /\
            reachevpn_parse v = Ok (render_addr nh, map rendered_route rs).
Proof. exact reachevpn_behaviour. Qed.
Print Assumptions C07_evpn_behaviour.

(** MP_UNREACH (25, 70) *)
Theorem C07_evpn_unreach_roundtrip : forall rs,
  rs <> [] -> forallb wf_routeb rs = true -> forallb high_routeb rs = true ->
  forall nlri, construct_evpn rs = Ok nlri -> len nlri + 3 <= 65535 ->
  exists v, unreachevpn_construct rs =
              Ok (Some ([c_ATTR_MpUnReachNLRI_FLAG; c_ATTR_MpUnReachNLRI_ID] ++ be 2 (len v) ++ v)) /\
            unreachevpn_parse v = Ok (map same_route rs).
Proof. exact unreachevpn_roundtrip. Qed.
Print Assumptions C07_evpn_unreach_roundtrip.

Theorem C07_evpn_unreach_behaviour : forall rs,
  rs <> [] -> forallb wf_routeb rs = true ->
  forall nlri, construct_evpn rs = Ok nlri -> len nlri + 3 <= 65535 ->
  exists v, unreachevpn_construct rs =
              Ok (Some ([c_ATTR_MpUnReachNLRI_FLAG; c_ATTR_MpUnReachNLRI_ID] ++ be 2 (len v) ++ v)) /\
            unreachevpn_parse v = Ok (map rendered_route rs).
Proof. exact unreachevpn_behaviour. Qed.
Print Assumptions C07_evpn_unreach_behaviour.

(** the encoder succeeds on every in-range list (the hypothesis "construct_evpn rs = Ok nlri" holds) *)
Theorem C07_evpn_construct_total : forall rs, forallb wf_routeb rs = true ->
  exists nlri, construct_evpn rs = Ok nlri.
Proof. exact construct_evpn_total. Qed.
Print Assumptions C07_evpn_construct_total.

Example C07_evpn_nonvacuous :
  let rs := [ex_route1; ex_route2; ex_route3; ex_route4] in
  in_ipb (V6 (2 ^ 127)) = true /\ high_ipb (V6 (2 ^ 127)) = true /\
  forallb wf_routeb rs = true /\ forallb high_routeb rs = true /\
  match construct_evpn rs with Ok nlri => len nlri = 140 | _ => False end /\
  match reachevpn_construct (V6 (2 ^ 127)) rs with
  | Ok w => reachevpn_parse (drop 4 w) = Ok (V6 (2 ^ 127), map same_route rs)
  | _ => False
  end /\
  match unreachevpn_construct rs with
  | Ok (Some w) => unreachevpn_parse (drop 4 w) = Ok (map same_route rs)
  | _ => False
  end.
Proof. cbv zeta. repeat match goal with |- _ /\ _ => split end; vm_compute; reflexivity. Qed.

(** defect (known finding C07-evpn-low-ipv6-address-as-ipv4): an in-range route ([wf_routeb]) whose
    IPv6 address is below 2^32 - type 3, RD 100:1, tag 1, originator ::1, next hop 10.0.0.1 - comes
    back with the IPv4 address 0.0.0.1 *)
Theorem C07_evpn_refuted_low_ipv6_address :
  wf_routeb (EMulticast (RdAs 100 1) 1 (Some (V6 1))) = true /\
  reachevpn_construct (V4 167772161) [EMulticast (RdAs 100 1) 1 (Some (V6 1))] =
    Ok ([144; 14] ++ be 2 (len w_evpn_low) ++ w_evpn_low) /\
  reachevpn_parse w_evpn_low = Ok (V4 167772161, [PMulticast (PRd (RdAs 100 1)) 1 (Some (V4 1))]).
Proof. exact refuted_evpn_low_address. Qed.
Print Assumptions C07_evpn_refuted_low_ipv6_address.

(** outside the guards the encoder refuses instead of writing a malformed route: types 3 and 4
    without the originating router's address, type 1 without label, MAC text without six groups,
    an ESI type 3 discriminator that does not fit 3 octets *)
Theorem C07_evpn_refuses_unencodable : forall r tag e s m l b,
  construct_route (EMulticast r tag None) <> Ok b /\ construct_route (ESegment r e None) <> Ok b /\
  construct_route (EAutoDiscovery r e tag []) <> Ok b /\
  (length (split_on 45 s) <> 6%nat -> construct_mac s = Exc) /\
  (16777215 < l -> construct_esi (Esi3 m l) <> Ok b).
Proof. exact refuses_unencodable. Qed.
Print Assumptions C07_evpn_refuses_unencodable.

(** "12" and "00-11-22-33-44" (commit 2751f81) are refused; so is a discriminator of 2^24 *)
Example C07_evpn_refuses_nonvacuous :
  length (split_on 45 [49; 50]) <> 6%nat /\ construct_mac [49; 50] = Exc /\
  construct_mac [48; 48; 45; 49; 49; 45; 50; 50; 45; 51; 51; 45; 52; 52] = Exc /\
  construct_esi (Esi3 ex_mac 16777216) = Exc /\
  construct_route (EMulticast (RdAs 100 1) 1 None) = Exc.
Proof. repeat match goal with |- _ /\ _ => split end; try (vm_compute; reflexivity). vm_compute. discriminate. Qed.
