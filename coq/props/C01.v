(** C01 — Session state machine follows the RFC 4271 profile for every event order.

    Specification: spec/RfcFsm.v ([rfc_step], [applicable]) written from RFC 4271 section 8 for
    an active-only speaker.  Model: the FSM methods are GENERATED from yabgp/core/fsm.py on every
    run (gen/FsmGen.v); [apply_ev] maps each RFC event to the method yabgp calls for it.  The
    mapping from wire messages to these events is the dispatch glue (C04, C05, C10). *)
From YV Require Import lib.Base model.YWorld model.YProto gen.Consts gen.FsmGen model.YFraming
  model.YSession spec.RfcFsm proof.SessionC13 proof.SessionC01.

(** Conformance.  For EVERY world of the single-connection regime in state s (any hold times,
    timer values, counters, history: [wfw] only says which connection is tracked and that the
    timers are well formed), every event the profile lets occur in s, outside the departures
    listed below: the reaction of the generated FSM method — next state, NOTIFICATION
    code/subcode, close, messages sent, new connection attempt, restart pending — is the one the
    RFC profile prescribes; where the RFC says "ignore", nothing changes (state, outputs, all
    timers, automatic-start flag). *)
Theorem C01_conforms : forall c s e w,
  s <> StActive -> wfw c s w -> applicable (rstate_of s) e = true -> deviation s e = false ->
  conforms s e w (apply_ev c e w) = true.
Proof. exact fsm_conforms. Qed.
Print Assumptions C01_conforms.

(** the hypotheses are met by reachable worlds: one per state, built by running the model *)
Example C01_wfw_reachable :
  (forall s, In s [StOpenSent; StOpenConfirm; StEstablished] -> wfw 0 s (sample s)) /\ wfw 0 StIdle (sample StIdle) /\
  wfw 0 StConnect (sample StConnect).
Proof.
  split; [|split].
  - intros s [<-|[<-|[<-|[]]]]; vm_compute; repeat split; try reflexivity; intros X; try discriminate; try (exfalso; apply X; reflexivity).
  - vm_compute; repeat split; try reflexivity; intros X; try discriminate; try (exfalso; apply X; reflexivity).
  - vm_compute; repeat split; try reflexivity; intros X; try discriminate; try (exfalso; apply X; reflexivity).
Qed.

(** The departures (REFUTED cells, each a known finding): on the reachable sample worlds the
    conformance check fails exactly for these (state, event) pairs and no others:
      OpenSent + other NOTIFICATION     : closed without FSM-error NOTIFICATION (C01-opensent-notification-silent-close)
      Established + OPEN message error  : answered (2,sub) instead of (5,0)     (C01-established-open-error-code)
    (three further departures of the code as found — no Cease on a manual stop in
    OpenSent/OpenConfirm, KEEPALIVE ignored in OpenSent, NOTIFICATION (2,1) ignored in Established —
    were repaired in /repo; their cells now conform) *)
Theorem C01_departures_exact :
  deviations_on_samples =
  [(StOpenSent, EvNotifOther); (StEstablished, EvOpenErr 2)].
Proof. exact deviations_exact. Qed.
Print Assumptions C01_departures_exact.

(** Established is entered only from OpenConfirm by the peer's KEEPALIVE, OpenConfirm only from
    OpenSent by an acceptable OPEN (answered with KEEPALIVE): read off the profile, which the
    code follows by C01_conforms (none of the departures enters either state) *)
Theorem C01_established_only_after_open_keepalive : forall s e r,
  rfc_step s e = Some r ->
  (r_next r = REstablished -> s = REstablished \/ (s = ROpenConfirm /\ e = EvKeepaliveMsg)) /\
  (r_next r = ROpenConfirm -> s = ROpenConfirm \/ (s = ROpenSent /\ e = EvOpenOk /\ r_sends r = [4])).
Proof.
  intros s e r H. destruct s; destruct e; cbn in H; inversion H; subst; cbn; split; intros X;
    try discriminate; auto.
Qed.
Print Assumptions C01_established_only_after_open_keepalive.

(** every protocol error of the profile is answered with the prescribed NOTIFICATION, then a
    close and Idle with a restart pending (shape of the error rows of the table) *)
Theorem C01_errors_notify_close_idle : forall s e r code sub,
  rfc_step s e = Some r -> r_notif r = Some (code, sub) -> e <> EvManualStop ->
  r_next r = RIdle /\ r_close r = true /\ r_restart_pending r = true /\ r_sends r = [] /\ r_connect r = false.
Proof.
  intros s e r code sub H Hn Hne. destruct s; destruct e; cbn in H; inversion H; subst; cbn in *;
    try discriminate; try congruence; repeat split; reflexivity.
Qed.
Print Assumptions C01_errors_notify_close_idle.
