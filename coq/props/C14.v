(** C14 — OPEN, NOTIFICATION, KEEPALIVE and ROUTE-REFRESH encode and decode faithfully.
    This file: the three small messages.  (OPEN: see C14_open_* below once added.) *)
From YV Require Import lib.Base gen.Consts model.YMsg proof.MsgProofs.

(** every NOTIFICATION the agent can construct (any code/subcode octets, any data that fits
    a 2-octet length field) is a well-framed type-3 message whose body decodes to the same triple *)
Theorem C14_notification_roundtrip : forall e s d,
  e <= 255 -> s <= 255 -> len d + 21 <= 65535 ->
  exists m, notification_construct e s d = Ok m /\
            unframe m = Some (c_MSG_NOTIFICATION, [e; s] ++ d) /\
            notification_parse ([e; s] ++ d) = Ok (e, s, d).
Proof. exact notification_roundtrip. Qed.
Print Assumptions C14_notification_roundtrip.

Example C14_notification_nonvacuous :
  notification_construct 6 2 [1; 2; 3] = Ok (marker16 ++ [0; 24; 3; 6; 2; 1; 2; 3]).
Proof. vm_compute. reflexivity. Qed.

Theorem C14_notification_parse_total : forall body,
  (exists e s d, body = e :: s :: d /\ notification_parse body = Ok (e, s, d)) \/
  (length body < 2 /\ notification_parse body = PyExc)%nat.
Proof. exact notification_parse_total. Qed.
Print Assumptions C14_notification_parse_total.

Theorem C14_keepalive_roundtrip :
  unframe keepalive_construct = Some (c_MSG_KEEPALIVE, []) /\ keepalive_parse [] = Ok tt /\
  length keepalive_construct = 19%nat.
Proof. exact keepalive_roundtrip. Qed.
Print Assumptions C14_keepalive_roundtrip.

Theorem C14_keepalive_rejects_body : forall body, body <> [] ->
  keepalive_parse body = Err c_ERR_MSG_HDR c_ERR_MSG_HDR_BAD_MSG_LEN.
Proof. exact keepalive_parse_rejects. Qed.
Print Assumptions C14_keepalive_rejects_body.

(** ROUTE-REFRESH: every AFI/SAFI/reserved value and both type codes (in fact any type octet) *)
Theorem C14_route_refresh_roundtrip : forall ty afi r safi,
  ty <= 255 -> afi <= 65535 -> r <= 255 -> safi <= 255 ->
  exists m, rr_construct ty afi r safi = Ok m /\
            unframe m = Some (ty, be 2 afi ++ [r] ++ [safi]) /\
            rr_parse (be 2 afi ++ [r] ++ [safi]) = Ok (afi, r, safi).
Proof. exact rr_roundtrip. Qed.
Print Assumptions C14_route_refresh_roundtrip.

Example C14_rr_nonvacuous : rr_construct 128 2 0 128 = Ok (marker16 ++ [0; 23; 128; 0; 2; 0; 128]).
Proof. vm_compute. reflexivity. Qed.

(* ===================================================================================== *)
(** OPEN (yabgp/message/open.py; model/YOpen.v, spec/RefOpen.v, proof/OpenProofs.v).

    [open_parse] is the parser with the return statement moved out of [if self.opt_para_len:]
    (build/proposed/c14_open_parse_return.diff); [open_parse_unpatched] is /repo before that
    patch.  A successful parse yields the pair (attributes left on the Open object, return
    value).  Dictionary form of the capability set: record [capa_dict] of YOpen.v. *)
From YV Require Import model.YOpen spec.RefOpen proof.OpenProofs.

(** Round trip.  For every AS number from 1 (the constructor itself refuses anything above
    2^32-1 when it has to encode it, and [open_construct .. = Ok m] is "the constructor accepts
    the configuration": all AFI/SAFI values in range, at most 255 octets of capabilities, hold
    <= 65535, id < 2^32), the constructed message is a well-framed type-1 message whose body
    parses to version 4, the TRUE AS (also when AS_TRANS went on the wire), the hold time, the
    identifier and the dictionary [cfg_dict asn c]:
      four_bytes_as  iff asn > 65535 or configured;   afi_safi = the configured list (key absent
      when the list is empty or not configured);   route_refresh / cisco_route_refresh /
      enhanced_route_refresh as configured;   add_path = [(ipv4, mode)] iff configured;
      ext_nexthop = the configured list (present, possibly empty, iff the key is configured);
      nothing else.
    With no capability at all (optional parameter length 0) the result is the same record with the
    empty dictionary, both as attributes and as return value. *)
Theorem C14_open_roundtrip : forall asn hold id c m,
  1 <= asn ->
  open_construct 4 asn hold id c = Ok m ->
  exists body, unframe m = Some (c_MSG_OPEN, body) /\
    open_parse body = Ok (mkopen 4 asn hold id (cfg_dict asn c), Some (mkopen 4 asn hold id (cfg_dict asn c))).
Proof. exact open_roundtrip. Qed.
Print Assumptions C14_open_roundtrip.

(** the hypotheses are satisfiable: 4-octet AS with AS_TRANS on the wire, and an OPEN without
    optional parameters *)
Example C14_open_roundtrip_nonvacuous :
  open_construct 4 70000 180 167772161
    (mkcfg (Some [(1, 1); (1, 128)]) true true false (Some [(1, 1, 2)]) 3 true) =
  Ok (marker16 ++ [0; 83; 1;  4; 91; 160; 0; 180; 10; 0; 0; 1; 54;
                   2; 6; 1; 4; 0; 1; 0; 1;  2; 6; 1; 4; 0; 1; 0; 128;  2; 2; 128; 0;  2; 2; 2; 0;
                   2; 6; 65; 4; 0; 1; 17; 112;  2; 8; 5; 6; 0; 1; 0; 1; 0; 2;
                   2; 6; 69; 4; 0; 1; 1; 3;  2; 2; 70; 0]) /\
  open_construct 4 65001 0 1 (mkcfg None false false false None 0 false) =
  Ok (marker16 ++ [0; 29; 1;  4; 253; 233; 0; 0; 0; 0; 0; 1; 0]).
Proof. split; vm_compute; reflexivity. Qed.

(** the unpatched parser violates the round trip exactly as far as the return value goes: an
    OPEN without optional parameters leaves the right attributes but returns None *)
Theorem C14_open_roundtrip_unpatched_refuted :
  exists asn hold id c m body, 1 <= asn <= 4294967295 /\
    open_construct 4 asn hold id c = Ok m /\ unframe m = Some (c_MSG_OPEN, body) /\
    open_parse_unpatched body = Ok (mkopen 4 asn hold id (cfg_dict asn c), None).
Proof. exact open_roundtrip_unpatched_refuted. Qed.
Print Assumptions C14_open_roundtrip_unpatched_refuted.

(** patched and unpatched parser agree on errors and on the attributes, for every input *)
Theorem C14_open_parse_attributes_same : forall b m,
  res_map fst (open_parse_gen b m) = res_map fst (open_parse m).
Proof. exact open_parse_gen_attrs. Qed.
Print Assumptions C14_open_parse_attributes_same.

(** Decoding agrees with the independent RFC encoder: for EVERY list of optional parameters, each
    holding any list of capabilities (any subset, any order, repetitions, any packaging, no bound
    on the lengths of the lists other than the one-octet length fields of the format itself:
    [params_wf] = every field value in its range, unknown codes outside the assigned ones, add-path
    only for known families) the message is well framed and the parser returns version 4, hold,
    id, and (true AS, dictionary) = [decode_caps my_as (concat params)], i.e. the left fold of
    [hl_apply] (OpenProofs.v) over the capabilities in wire order, independent of the packaging. *)
Theorem C14_open_decodes_reference : forall my_as hold id params,
  1 <= my_as <= 65535 -> hold <= 65535 -> id <= 4294967295 -> params_wf params ->
  unframe (ref_open 4 my_as hold id params) = Some (c_MSG_OPEN, ref_open_body 4 my_as hold id params) /\
  open_parse (ref_open_body 4 my_as hold id params) =
    Ok (mkopen 4 (fst (decode_caps my_as (concat params))) hold id (snd (decode_caps my_as (concat params))),
        Some (mkopen 4 (fst (decode_caps my_as (concat params))) hold id (snd (decode_caps my_as (concat params))))).
Proof. exact open_decodes_reference. Qed.
Print Assumptions C14_open_decodes_reference.

Example C14_open_decodes_reference_nonvacuous :
  params_wf [[Mp 1 1; As4 70000; RouteRefresh]; []; [AddPath [(1, 1, 3); (2, 1, 1)]; Llgr [(1, 1, 128, 86400)]];
             [Unknown 3 [1; 2]; GracefulRestart 8 120 [(1, 1, 128)]; ExtNexthop [(1, 1, 2)]; Unknown 3 []]] /\
  decode_caps 23456 [Mp 1 1; As4 70000; RouteRefresh; AddPath [(1, 1, 3); (2, 1, 1)]; Llgr [(1, 1, 128, 86400)];
                     Unknown 3 [1; 2]; GracefulRestart 8 120 [(1, 1, 128)]; ExtNexthop [(1, 1, 2)]; Unknown 3 []] =
  (70000, mkcd true (Some [(1, 1)]) true false true false false (Some [(1, 1, 3); (2, 1, 1)])
                (Some [(1, 1, 86400)]) (Some [(1, 1, 2)]) [(3, [])]).
Proof.
  split; [|vm_compute; reflexivity].
  split; [|split; [|vm_compute; discriminate]];
    repeat (first [apply Forall_nil | apply Forall_cons | split]); cbn [cap_wf fam3_ok fst snd];
    repeat (first [apply Forall_nil | apply Forall_cons | split]); cbn [fst snd In known_families assigned_codes];
    try lia; try tauto; try (unfold tlv_fits; vm_compute; discriminate);
    try (intros K; repeat destruct K as [K|K]; try discriminate K; contradiction).
Qed.

(** Open.construct emits exactly the reference encoding of its configuration, one capability per
    optional parameter, in the order MP*, 128, 2, 65, 5, 69, 70 (used by C05/C08) *)
Theorem C14_open_construct_is_reference : forall asn hold id c m,
  open_construct 4 asn hold id c = Ok m ->
  m = ref_open 4 (open_asn_field asn) hold id (one_per_param (cfg_caps asn c)) /\
  params_wf (one_per_param (cfg_caps asn c)) /\ hold <= 65535 /\ id <= 4294967295.
Proof. exact open_construct_is_reference. Qed.
Print Assumptions C14_open_construct_is_reference.

(** Facts for C05.  (1) the My-AS field is asn when asn <= 65535, else AS_TRANS = 23456, and then
    capability 65 carries asn; below 65536 capability 65 is sent iff 'four_bytes_as' is configured;
    no capability 65 ever carries another number. *)
Theorem C14_open_my_as_field : forall asn hold id c m,
  open_construct 4 asn hold id c = Ok m ->
  m = ref_open 4 (if asn <=? 65535 then asn else 23456) hold id (one_per_param (cfg_caps asn c)) /\
  (65535 < asn -> In (As4 asn) (cfg_caps asn c)) /\
  (asn <= 65535 -> (In (As4 asn) (cfg_caps asn c) <-> cc_four c = true)) /\
  (forall a, In (As4 a) (cfg_caps asn c) -> a = asn).
Proof. exact open_my_as_field. Qed.
Print Assumptions C14_open_my_as_field.

(** (2) the AS number Open.parse reports is the 4-octet value of the (last) capability 65 when one
    is present, else the My-AS field; 'four_bytes_as' is set iff a capability 65 is present *)
Theorem C14_open_parsed_asn_is_as4 : forall my_as cs a cs',
  forallb (fun c => negb (is_as4 c)) cs' = true ->
  fst (decode_caps my_as (cs ++ As4 a :: cs')) = a.
Proof. exact parsed_asn_is_as4. Qed.
Print Assumptions C14_open_parsed_asn_is_as4.

Theorem C14_open_parsed_asn_without_as4 : forall my_as cs,
  forallb (fun c => negb (is_as4 c)) cs = true ->
  fst (decode_caps my_as cs) = my_as /\ cd_four (snd (decode_caps my_as cs)) = false.
Proof. exact parsed_asn_no_as4. Qed.
Print Assumptions C14_open_parsed_asn_without_as4.

Theorem C14_open_four_bytes_as_iff : forall my_as cs,
  cd_four (snd (decode_caps my_as cs)) = true <-> exists a, In (As4 a) cs.
Proof. exact parsed_four_iff. Qed.
Print Assumptions C14_open_four_bytes_as_iff.

(** the fuel [open_parse] gives its two loops is enough for every input: the distinguished
    out-of-fuel value is never returned (the loops of Open.parse terminate) *)
Theorem C14_open_parse_fuel_suffices : forall b m, open_parse_gen b m <> OutOfFuel.
Proof. exact open_parse_fuel_ok. Qed.
Print Assumptions C14_open_parse_fuel_suffices.

(* ===================================================================================== *)
(** Names in the decoded dictionary (model/YOpenNames.v, spec/RefOpenNames.v, proof/OpenNames.v).

    Open.parse reports the families of an ADD-PATH capability by NAME
    ({'afi_safi': AFI_SAFI_DICT[(afi, safi)], 'send/receive': ADD_PATH_ACT_DICT[v]}).
    [afi_safi_dict] / [add_path_act_dict] are the two dictionaries of constants.py as they are in
    /repo (tied to the live module by the correspondence run: keys AND names);
    [family_names] / [mode_names] are the reference tables, written down independently of the
    module under test.  A renamed, dropped or added family breaks the first theorem. *)
From YV Require Import model.YOpenNames spec.RefOpenNames proof.OpenNames.

Theorem C14_open_names_are_reference :
  afi_safi_dict = family_names /\ add_path_act_dict = mode_names /\
  map fst family_names = known_families /\ map fst afi_safi_dict = afi_safi_known /\
  map fst add_path_act_dict = add_path_act_known /\
  names_distinctb (map snd family_names) = true /\ names_distinctb (map snd mode_names) = true.
Proof.
  exact (conj afi_safi_dict_is_reference (conj add_path_act_dict_is_reference (conj family_names_keys
        (conj afi_safi_dict_keys (conj add_path_act_dict_keys (conj family_names_distinct mode_names_distinct)))))).
Qed.
Print Assumptions C14_open_names_are_reference.

(** For every reference OPEN of [C14_open_decodes_reference] (any capability subset, order,
    packaging; ADD-PATH for ANY of the known families with any of the three Send/Receive values,
    any number of entries and of ADD-PATH capabilities): the 'add_path' key is present iff an
    ADD-PATH capability is, and its value lists, in wire order, for every <AFI, SAFI, Send/Receive>
    the pair (reference family name, reference mode name) — each of which exists. *)
Theorem C14_open_addpath_names : forall my_as hold id params,
  1 <= my_as <= 65535 -> hold <= 65535 -> id <= 4294967295 -> params_wf params ->
  exists o, open_parse (ref_open_body 4 my_as hold id params) = Ok (o, Some o) /\
    cd_add_path_named (o_caps o) =
      (if existsb is_addpath (concat params)
       then Some (map ref_addpath_name (addpath_entries (concat params))) else None) /\
    Forall (fun e => ref_addpath_name e <> None) (addpath_entries (concat params)).
Proof. exact open_addpath_names. Qed.
Print Assumptions C14_open_addpath_names.

(** the names spelled out in octets: IPv4 flow specification (1, 133) is 'flowspec', mode 3 is
    'both'; IPv6 flow specification (2, 133) is 'ipv6_flowspec'; an unknown family has no name *)
Example C14_open_addpath_names_nonvacuous :
  ref_addpath_name (1, 133, 3) = Some ([102; 108; 111; 119; 115; 112; 101; 99], [98; 111; 116; 104]) /\
  addpath_entry_names (1, 133, 3) = Some ([102; 108; 111; 119; 115; 112; 101; 99], [98; 111; 116; 104]) /\
  ref_addpath_name (2, 133, 1) =
    Some ([105; 112; 118; 54; 95; 102; 108; 111; 119; 115; 112; 101; 99], [114; 101; 99; 101; 105; 118; 101]) /\
  ref_addpath_name (2, 2, 1) = None /\ ref_addpath_name (1, 1, 4) = None /\
  cd_add_path_named (snd (decode_caps 65001 [AddPath [(1, 133, 2)]; Mp 1 133; AddPath [(25, 70, 3)]])) =
    Some [Some ([102; 108; 111; 119; 115; 112; 101; 99], [115; 101; 110; 100]);
          Some ([101; 118; 112; 110], [98; 111; 116; 104])].
Proof. repeat split; vm_compute; reflexivity. Qed.
