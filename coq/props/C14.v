(** C14 — OPEN, NOTIFICATION, KEEPALIVE and ROUTE-REFRESH encode and decode faithfully.
    This file: the three small messages.  (OPEN: see C14_open_* below once added.) *)
From YV Require Import lib.Base gen.Consts model.YMsg proof.MsgProofs.

(** every NOTIFICATION the agent can construct (any code/subcode octets, any data that fits
    a 2-octet length field) is a well-framed type-3 message whose body decodes to the same triple *)
Theorem C14_notification_roundtrip : forall e s d,
  e <= 255 -> s <= 255 -> len d + 21 <= 65535 ->
  exists m, notification_construct e s d = Ok m /\
            unframe m = Some (c_MSG_NOTIFICATION, [e; s] ++ d) /\
            notification_parse ([e; s] ++ d) = Ok (e, s, d).
Proof. exact notification_roundtrip. Qed.
Print Assumptions C14_notification_roundtrip.

Example C14_notification_nonvacuous :
  notification_construct 6 2 [1; 2; 3] = Ok (marker16 ++ [0; 24; 3; 6; 2; 1; 2; 3]).
Proof. vm_compute. reflexivity. Qed.

Theorem C14_notification_parse_total : forall body,
  (exists e s d, body = e :: s :: d /\ notification_parse body = Ok (e, s, d)) \/
  (length body < 2 /\ notification_parse body = PyExc)%nat.
Proof. exact notification_parse_total. Qed.
Print Assumptions C14_notification_parse_total.

Theorem C14_keepalive_roundtrip :
  unframe keepalive_construct = Some (c_MSG_KEEPALIVE, []) /\ keepalive_parse [] = Ok tt /\
  length keepalive_construct = 19%nat.
Proof. exact keepalive_roundtrip. Qed.
Print Assumptions C14_keepalive_roundtrip.

Theorem C14_keepalive_rejects_body : forall body, body <> [] ->
  keepalive_parse body = Err c_ERR_MSG_HDR c_ERR_MSG_HDR_BAD_MSG_LEN.
Proof. exact keepalive_parse_rejects. Qed.
Print Assumptions C14_keepalive_rejects_body.

(** ROUTE-REFRESH: every AFI/SAFI/reserved value and both type codes (in fact any type octet) *)
Theorem C14_route_refresh_roundtrip : forall ty afi r safi,
  ty <= 255 -> afi <= 65535 -> r <= 255 -> safi <= 255 ->
  exists m, rr_construct ty afi r safi = Ok m /\
            unframe m = Some (ty, be 2 afi ++ [r] ++ [safi]) /\
            rr_parse (be 2 afi ++ [r] ++ [safi]) = Ok (afi, r, safi).
Proof. exact rr_roundtrip. Qed.
Print Assumptions C14_route_refresh_roundtrip.

Example C14_rr_nonvacuous : rr_construct 128 2 0 128 = Ok (marker16 ++ [0; 23; 128; 0; 2; 0; 128]).
Proof. vm_compute. reflexivity. Qed.
