(** C05 — Each session's OPEN and its acceptance policy depend only on configuration. *)
From YV Require Import lib.Base model.YWorld model.YProto gen.Consts gen.FsmGen model.YFraming
  model.YSession proof.SessionFraming proof.SessionC05.

(** The OPEN written when a connection comes up, in ANY world (whatever sessions came before):
    version 4 is implicit in [WOpen] (see C14 for the octets); My-AS = the configured local AS or
    AS_TRANS; hold time = the CONFIGURED hold time; the identifier from the configuration; the
    capability TLVs are computed from the current capability dictionary only. *)
Theorem C05_open_content : forall c w, conn_st_is c CConnecting w = true -> w_out w = [] ->
  let las := cf_local_as (w_cfg w) in
  exists rest,
  w_out (conn_made c w) =
    OHandler HSendOpen ::
    OWrite c (WOpen (open_asn_field las) (cf_hold (w_cfg w)) (cf_bgp_id (w_cfg w))
                    (open_caps las (w_capl (capability_negotiate w)))) :: rest /\
  Forall (fun o => forall c' m, o <> OWrite c' m) rest.
Proof. exact conn_made_open. Qed.
Print Assumptions C05_open_content.

Theorem C05_as_trans_rule : forall asn,
  open_asn_field asn = (if 65535 <? asn then 23456 else asn) /\
  (forall d, 65535 < asn -> In (CiAs4 asn) (open_caps asn d)).
Proof. intros asn. split; [apply asn_field_rule | intros d; apply as4_cap_when_large]. Qed.
Print Assumptions C05_as_trans_rule.

(** After ANY history (every decoder behaviour, every event sequence from boot) the configuration
    record is unchanged and the capability dictionary is a sub-list of the configured one: only
    capabilities from the configured set can be advertised. *)
Theorem C05_caps_subset_of_config : forall (D : decoders) cf capl es,
  let w := run D (world0 cf capl) es in incl (w_capl w) capl /\ w_cfg w = cf.
Proof. exact caps_subset_config. Qed.
Print Assumptions C05_caps_subset_of_config.

(** ... but NOT always the whole configured set (known finding C05-capability-pruning): once a
    peer OPEN has been seen, capability_negotiate pops from the process-wide dictionary every
    local capability that peer did not advertise, and later sessions advertise less. *)
Definition C05_open_is_config_statement : Prop :=
  forall (D : decoders) cf capl es, w_capl (run D (world0 cf capl) es) = capl.
Definition caps2 : list cap := [(KFourBytesAs, CVBool true); (KRouteRefresh, CVBool true); (KAfiSafi, CVAfiSafi [(1, 1)])].
Definition cf0 : cfg := mkCfg 65001 65002 180 60 30 30 10 false 167772161.
Definition Dpeer : decoders :=
  mkDec (fun _ => OpOk 65002 90 [(KAfiSafi, CVAfiSafi [(1, 1)])]) (fun _ _ => UpOk).
Definition open_frame : bytes := repeat 255 16 ++ [0; 29; 1; 4; 0; 0; 0; 90; 10; 0; 0; 2; 0].
Theorem C05_refuted_capability_pruning :
  exists es, w_capl (run Dpeer (world0 cf0 caps2) es) = [(KAfiSafi, CVAfiSafi [(1, 1)])].
Proof.
  exists [EBoot; EConnOk 0; EData 0 open_frame; ELost 0; EFire TIdleHold; EConnOk 1].
  vm_compute. reflexivity.
Qed.
Print Assumptions C05_refuted_capability_pruning.

(** Acceptance policy, peer OPEN arriving in OpenSent on the tracked connection.  Version is
    checked by the decoder ([OpOpenErr 1], model/YOpen.v and C14): answered (2, sub), close, Idle *)
Theorem C05_reject_open_error : forall (D : decoders) c msg sub w, Good c w -> w_state w = StOpenSent ->
  c_closing (get_conn c w) = false -> w_out w = [] ->
  d_open D msg = OpOpenErr sub ->
  let w' := snd (open_received D c msg w) in
  w_state w' = StIdle /\ notif_of (rev (w_out w')) = [(c_ERR_MSG_OPEN, sub)] /\ kinds_of (rev (w_out w')) = [3; 0].
Proof. exact open_rejected_version. Qed.
Print Assumptions C05_reject_open_error.

(** AS (the 4-octet value when the capability is present: that is what the decoder returns) not
    equal to the configured remote AS: (2,2) Bad Peer AS *)
Theorem C05_reject_wrong_as : forall (D : decoders) c msg asn phold caps w, Good c w -> w_state w = StOpenSent ->
  c_closing (get_conn c w) = false -> w_out w = [] ->
  d_open D msg = OpOk asn phold caps -> asn <> cf_remote_as (w_cfg w) ->
  let w' := snd (open_received D c msg w) in
  w_state w' = StIdle /\ notif_of (rev (w_out w')) = [(c_ERR_MSG_OPEN, c_ERR_MSG_OPEN_BAD_PEER_AS)] /\
  kinds_of (rev (w_out w')) = [3; 0].
Proof. exact open_rejected_peer_as. Qed.
Print Assumptions C05_reject_wrong_as.

(** hold time: a PROPOSED hold time of 1 or 2 is refused with (2,6), whatever the own value is
    (since fix of negotiate_hold_time; before, the test was applied to min(own, proposed) only and
    an own hold time of 0 let 1 and 2 through) *)
Theorem C05_reject_hold_1_2 : forall (D : decoders) c msg asn phold caps w, Good c w -> w_state w = StOpenSent ->
  c_closing (get_conn c w) = false -> w_out w = [] ->
  d_open D msg = OpOk asn phold caps -> asn = cf_remote_as (w_cfg w) ->
  (phold = 1 \/ phold = 2) ->
  let w' := snd (open_received D c msg w) in
  w_state w' = StIdle /\
  notif_of (rev (w_out w')) = [(c_ERR_MSG_OPEN, c_ERR_MSG_OPEN_UNACCPT_HOLD_TIME)] /\
  kinds_of (rev (w_out w')) = [3; 0].
Proof.
  intros D c msg asn phold caps w Hg Hs Hcl Ho Hd Heq Hp.
  apply (open_rejected_hold D c msg asn phold caps w Hg Hs Hcl Ho Hd Heq).
  apply hold_refused_true_proposed; lia.
Qed.
Print Assumptions C05_reject_hold_1_2.

(** ... and so is a negotiated value of 1 or 2 (only possible when 1 or 2 is configured locally) *)
Theorem C05_reject_negotiated_1_2 : forall (D : decoders) c msg asn phold caps w, Good c w -> w_state w = StOpenSent ->
  c_closing (get_conn c w) = false -> w_out w = [] ->
  d_open D msg = OpOk asn phold caps -> asn = cf_remote_as (w_cfg w) ->
  N.min (w_hold w) phold <> 0 -> N.min (w_hold w) phold < 3 ->
  let w' := snd (open_received D c msg w) in
  w_state w' = StIdle /\
  notif_of (rev (w_out w')) = [(c_ERR_MSG_OPEN, c_ERR_MSG_OPEN_UNACCPT_HOLD_TIME)] /\
  kinds_of (rev (w_out w')) = [3; 0].
Proof.
  intros D c msg asn phold caps w Hg Hs Hcl Ho Hd Heq H1 H2.
  apply (open_rejected_hold D c msg asn phold caps w Hg Hs Hcl Ho Hd Heq).
  apply hold_refused_true_negotiated; assumption.
Qed.
Print Assumptions C05_reject_negotiated_1_2.

(** otherwise accepted: KEEPALIVE, OpenConfirm, session hold = min(own, proposed); later UPDATEs
    on this connection are read with 4-octet AS numbers iff the PEER advertised the capability *)
Theorem C05_accept : forall (D : decoders) c msg asn phold caps w, Good c w -> w_state w = StOpenSent ->
  c_closing (get_conn c w) = false -> w_out w = [] ->
  d_open D msg = OpOk asn phold caps -> asn = cf_remote_as (w_cfg w) ->
  (phold = 0 \/ 3 <= phold) -> (N.min (w_hold w) phold = 0 \/ 3 <= N.min (w_hold w) phold) ->
  let w' := snd (open_received D c msg w) in
  w_state w' = StOpenConfirm /\ kinds_of (rev (w_out w')) = [4] /\
  w_hold w' = N.min (w_hold w) phold /\
  c_asn4 (get_conn c w') = (cap_has KFourBytesAs caps || c_asn4 (get_conn c w)) /\
  w_capr w' = caps.
Proof.
  intros D c msg asn phold caps w Hg Hs Hcl Ho Hd Heq Hp Hm.
  apply (open_accepted D c msg asn phold caps w Hg Hs Hcl Ho Hd Heq).
  apply hold_refused_false; assumption.
Qed.
Print Assumptions C05_accept.

(** the last clause of the property asks for "exactly when BOTH sides advertised": the code looks
    at the peer's capability only (known finding C05-asn4-without-local-capability: with
    four_bytes_as switched off locally and a 2-octet local AS the agent does not advertise the
    capability yet parses 4-octet AS numbers when the peer does) *)
Definition capsno4 : list cap := [(KFourBytesAs, CVBool false); (KAfiSafi, CVAfiSafi [(1, 1)])].
Definition Dpeer4 : decoders :=
  mkDec (fun _ => OpOk 65002 90 [(KAfiSafi, CVAfiSafi [(1, 1)]); (KFourBytesAs, CVBool true)]) (fun _ _ => UpOk).
Theorem C05_refuted_asn4_without_local_capability :
  let es := [EBoot; EConnOk 0; EData 0 open_frame] in
  c_asn4 (get_conn 0 (run Dpeer4 (world0 cf0 capsno4) es)) = true /\
  In (OWrite 0%nat (WOpen 65001 180 167772161 [CiMp 1 1])) (run_outs Dpeer4 (world0 cf0 capsno4) es).
Proof. vm_compute. split; [reflexivity|]. right; left; reflexivity. Qed.
Print Assumptions C05_refuted_asn4_without_local_capability.
