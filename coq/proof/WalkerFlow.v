(** C08, IPv4 flow specification (1, 133), model/YFlow4.v: the MP_REACH_NLRI / MP_UNREACH_NLRI
    attribute is one block the walker accepts - every rule is framed by its 1- or 2-octet length
    (RFC 8955 4.1), every component is a prefix of ceil(len/8) octets or an operator list whose
    value sizes follow the length bits and whose last operator carries the end-of-list bit. *)
From YV Require Import lib.Base gen.Consts spec.Walker model.YMp model.YLabel model.YVpn model.YLu model.YFlow4 proof.WalkerProofs
  proof.WalkerUpdate proof.MpBytesLemmas proof.MpFlow4Frame proof.WalkerMp.
From Coq Require Import ZArith ZifyBool ZifyNat ZifyN Lia.
Ltac Zify.zify_post_hook ::= Z.to_euclidean_division_equations.

(* ------------------------------------------------------------------------------------- *)
(** * components *)

(** the invariant of the abstraction [op]: comparison bits LT GT EQ are the three low bits - all
    that construct_operator_flag can set from the operator text.  (The prefix length is enforced by
    the code: above 32, or with an address that is not IPv4, construction fails.) *)
Definition ops_ok (ops : list op) : bool := forallb (fun o => fst o <? 8) ops.
Definition flow_ok (f : flow) : bool := forallb (fun p => ops_ok (snd p)) (f_ops f).

Lemma fs_prefix_step p b rest : fs_construct_prefix p = Ok b ->
  step_prefix 32 (b ++ rest) = Some rest /\ wf_bytes b.
Proof.
  destruct p as [a l]. unfold fs_construct_prefix. intros H.
  destruct ((32 <? l) || (2 ^ 32 <=? a)) eqn:Hg; [discriminate|].
  assert (Hl : l <= 32) by lia.
  assert (S : forall k, Walker.ceil8 l = N.of_nat k -> (k <= 4)%nat ->
              step_prefix 32 ((l :: firstn k (be 4 a)) ++ rest) = Some rest /\ wf_bytes (l :: firstn k (be 4 a))).
  { intros k Hk Hk4. split.
    - cbn [app step_prefix]. destruct (l <=? 32) eqn:E; [|lia].
      rewrite Hk, <- (len_firstn_be k 4 a Hk4), splitN_app. reflexivity.
    - apply wf_cons; split; [lia | apply wf_firstn, wf_be]. }
  unfold take in H.
  destruct ((16 <? l) && (l <=? 24)) eqn:E1.
  { apply mOk_inj in H. subst b. apply S; [unfold Walker.ceil8; lia | lia]. }
  destruct ((8 <? l) && (l <=? 16)) eqn:E2.
  { apply mOk_inj in H. subst b. apply S; [unfold Walker.ceil8; lia | lia]. }
  destruct ((0 <? l) && (l <=? 8)) eqn:E3.
  { apply mOk_inj in H. subst b. apply S; [unfold Walker.ceil8; lia | lia]. }
  destruct (l =? 0) eqn:E4; [discriminate|].
  apply mOk_inj in H. subst b.
  change (be 4 a) with (firstn 4 (be 4 a)) at 1 2. apply S; [unfold Walker.ceil8; lia | lia].
Qed.

Lemma fs_opt_prefix_step t p b : (t = 1 \/ t = 2) -> fs_opt_prefix t p = Ok b ->
  (b = [] \/ forall rest, step_flow_comp false (b ++ rest) = Some rest) /\ wf_bytes b.
Proof.
  intros Ht. unfold fs_opt_prefix. destruct p as [p|].
  - intros H. apply mbind_ok in H as (pb & Hp & H). apply mOk_inj in H. subst b.
    split.
    + right. intros rest. cbn [app step_flow_comp].
      assert (E : (t =? 1) || (t =? 2) = true) by lia. rewrite E.
      apply (fs_prefix_step p pb rest Hp).
    + apply wf_cons; split; [lia|]. apply (fs_prefix_step p pb [] Hp).
  - intros H. apply mOk_inj in H. subst b. split; [left; reflexivity | constructor].
Qed.

Lemma len_code_cases n lc : len_code n = Ok lc ->
  (n = 1%nat /\ lc = 0) \/ (n = 2%nat /\ lc = 16) \/ (n = 4%nat /\ lc = 32) \/ (n = 8%nat /\ lc = 48).
Proof.
  unfold len_code.
  destruct (Nat.eqb n 1) eqn:E1; [apply Nat.eqb_eq in E1; intros H; apply mOk_inj in H; auto|].
  destruct (Nat.eqb n 2) eqn:E2; [apply Nat.eqb_eq in E2; intros H; apply mOk_inj in H; auto|].
  destruct (Nat.eqb n 4) eqn:E4; [apply Nat.eqb_eq in E4; intros H; apply mOk_inj in H; auto|].
  destruct (Nat.eqb n 8) eqn:E8; [apply Nat.eqb_eq in E8; intros H; apply mOk_inj in H; auto 6|].
  discriminate.
Qed.

(** one operator octet + value: the length bits say how many value octets follow *)
Lemma flow_op_octet eol lc c n : (eol = 0 \/ eol = 128) -> c < 8 ->
  ((n = 1%nat /\ lc = 0) \/ (n = 2%nat /\ lc = 16) \/ (n = 4%nat /\ lc = 32) \/ (n = 8%nat /\ lc = 48)) ->
  2 ^ (((eol + lc + c) / 16) mod 4) = N.of_nat n /\ eol + lc + c < 256 /\
  (128 <=? eol + lc + c) = (eol =? 128).
Proof.
  intros He Hc Hn.
  destruct He as [-> | ->]; destruct Hn as [[-> ->] | [[-> ->] | [[-> ->] | [-> ->]]]];
    (split; [|lia]);
    match goal with
    | |- 2 ^ (?e mod 4) = _ =>
        let k := fresh "k" in
        first [ assert (k : e mod 4 = 0) by lia | assert (k : e mod 4 = 1) by lia
              | assert (k : e mod 4 = 2) by lia | assert (k : e mod 4 = 3) by lia ]; rewrite k; reflexivity
    end.
Qed.

Lemma flow_ops_constructed : forall ops b, fs_construct_ops ops = Ok b -> ops <> [] -> ops_ok ops = true ->
  (forall fuel rest, (length ops <= fuel)%nat -> flow_ops fuel (b ++ rest) = Some rest) /\
  wf_bytes b /\ (length ops <= length b)%nat.
Proof.
  induction ops as [|[c v] r IH]; intros b H Hne G; [congruence|].
  cbn [fs_construct_ops] in H. apply mbind_ok in H as (lc & Hlc & H). apply mbind_ok in H as (br & Hr & H).
  apply mOk_inj in H. subst b. cbn [ops_ok forallb fst] in G. apply andb_true_iff in G as [Gc Gr].
  pose proof (len_code_cases _ _ Hlc) as Cs.
  set (n := nbytes v) in *. clearbody n.
  set (eol := match r with [] => 128 | _ :: _ => 0 end) in *.
  assert (He : eol = 0 \/ eol = 128) by (unfold eol; destruct r; auto).
  destruct (flow_op_octet eol lc c n He ltac:(lia) Cs) as (P2 & Plt & Peol).
  assert (Wo : wf_bytes ((eol + lc + c) :: be n v)) by (apply wf_cons; split; [exact Plt | apply wf_be]).
  destruct r as [|o2 r'].
  - apply mOk_inj in Hr. subst br. rewrite app_nil_r. repeat split.
    + intros fuel rest Hf. destruct fuel as [|f]; [cbn in Hf; lia|].
      cbn [app flow_ops]. rewrite P2, <- (len_be n v), splitN_app, Peol. reflexivity.
    + exact Wo.
    + cbn [length]. lia.
  - destruct (IH br Hr ltac:(discriminate) Gr) as (Hw & Wr & Hl). repeat split.
    + intros fuel rest Hf. destruct fuel as [|f]; [cbn in Hf; lia|].
      cbn [app flow_ops]. rewrite <- app_assoc. rewrite P2, <- (len_be n v), splitN_app, Peol.
      unfold eol. change (0 =? 128) with false. cbv iota.
      apply Hw. cbn [length] in Hf |- *. lia.
    + change ((eol + lc + c) :: be n v ++ br) with (((eol + lc + c) :: be n v) ++ br).
      apply wf_app; split; assumption.
    + cbn [length] in Hl |- *. rewrite app_length. lia.
Qed.

Lemma lookup_in {A} t (o : list (N * A)) l : lookup t o = Some l -> In (t, l) o.
Proof.
  induction o as [|[k v] r IH]; [discriminate|]. cbn [lookup].
  destruct (k =? t) eqn:E; [apply N.eqb_eq in E; subst; intros H; injection H as <-; left; reflexivity|].
  intros H. right. apply IH. exact H.
Qed.

(** the operator components, in the order construct_nlri writes them *)
Lemma fs_comps_elems o : forallb (fun p => ops_ok (snd p)) o = true ->
  forall ts b, fs_construct_comps ts o = Ok b -> (forall t, In t ts -> 3 <= t <= 12) ->
  exists elems, b = concat elems /\
    forall e, In e elems -> (e = [] \/ forall rest, step_flow_comp false (e ++ rest) = Some rest) /\ wf_bytes e.
Proof.
  intros G. induction ts as [|t ts IH]; intros b H Ht.
  - apply mOk_inj in H. subst. exists []. split; [reflexivity | intros e []].
  - cbn [fs_construct_comps] in H. apply mbind_ok in H as (b1 & H1 & H). apply mbind_ok in H as (br & Hr & H).
    apply mOk_inj in H. subst b.
    destruct (IH br Hr ltac:(intros t' Ht'; apply Ht; right; exact Ht')) as (elems & -> & He).
    exists (b1 :: elems). split; [reflexivity|]. intros e [<- | Hin]; [|apply He; exact Hin].
    destruct (lookup t o) as [[|x xs]|] eqn:El;
      try (apply mOk_inj in H1; subst b1; split; [left; reflexivity | constructor]).
    apply mbind_ok in H1 as (ob & Ho & H1). apply mOk_inj in H1. subst b1.
    apply lookup_in in El. rewrite forallb_forall in G. specialize (G _ El). cbn [snd] in G.
    destruct (flow_ops_constructed (x :: xs) ob Ho ltac:(discriminate) G) as (Hw & Wo & Hl).
    specialize (Ht t (or_introl eq_refl)). split.
    + right. intros rest. cbn [app step_flow_comp].
      assert (E1 : (t =? 1) || (t =? 2) = false) by lia. assert (E2 : (3 <=? t) && (t <=? 12) = true) by lia.
      rewrite E1, E2. apply Hw. rewrite app_length. lia.
    + apply wf_cons; split; [lia | exact Wo].
Qed.

(* ------------------------------------------------------------------------------------- *)
(** * one rule and its length prefix *)

Lemma fs_frame_step body w rest : fs_frame body = Ok w ->
  walk_all (step_flow_comp false) body = true -> wf_bytes body ->
  step_flow false (w ++ rest) = Some rest /\ wf_bytes w /\ w <> [].
Proof.
  intros H V W. pose proof (fs_frame_ok_range _ _ H) as R.
  destruct (len body <? 240) eqn:E.
  - rewrite fs_frame_short in H by (unfold fs_len_threshold; lia). apply mOk_inj in H. subst w.
    repeat split; [|apply wf_cons; split; [lia | exact W] | discriminate].
    cbn [app step_flow]. rewrite E, splitN_app, V.
    assert (E1 : (1 <=? len body) = true) by lia. rewrite E1. reflexivity.
  - rewrite fs_frame_long in H by (unfold fs_len_threshold, fs_len_max; lia). apply mOk_inj in H. subst w.
    set (n := len body) in *.
    rewrite be2 by lia. repeat split;
      [|apply wf_cons; split; [lia|]; apply wf_cons; split; [lia | exact W] | discriminate].
    cbn [app step_flow].
    assert (E1 : ((61440 + n) / 256 <? 240) = false) by lia. rewrite E1.
    assert (E2 : u16 (((61440 + n) / 256) mod 16) ((61440 + n) mod 256) = n) by (unfold u16; lia).
    rewrite E2. unfold n at 1. rewrite splitN_app, V.
    destruct body; [cbn in R; lia | reflexivity].
Qed.

Lemma fs_nlri_step f w rest : fs_construct_nlri f = Ok w -> flow_ok f = true ->
  step_flow false (w ++ rest) = Some rest /\ wf_bytes w /\ w <> [].
Proof.
  unfold fs_construct_nlri, flow_ok. intros H G3.
  apply mbind_ok in H as (b1 & H1 & H). apply mbind_ok in H as (b2 & H2 & H). apply mbind_ok in H as (b3 & H3 & H).
  destruct (fs_opt_prefix_step c_BGPNLRI_FSPEC_DST_PFIX _ _ (or_introl eq_refl) H1) as [S1 W1].
  destruct (fs_opt_prefix_step c_BGPNLRI_FSPEC_SRC_PFIX _ _ (or_intror eq_refl) H2) as [S2 W2].
  destruct (fs_comps_elems _ G3 fs_op_types b3 H3) as (elems & -> & He).
  { assert (B : forallb (fun t => (3 <=? t) && (t <=? 12)) fs_op_types = true) by reflexivity.
    rewrite forallb_forall in B. intros t Ht. specialize (B t Ht). lia. }
  apply (fs_frame_step (b1 ++ b2 ++ concat elems)); [exact H | |].
  - change (b1 ++ b2 ++ concat elems) with (concat (b1 :: b2 :: elems)).
    apply walk_all_concat_opt. intros e [<- | [<- | Hin]]; [exact S1 | exact S2 | apply He; exact Hin].
  - apply wf_app; split; [exact W1|]. apply wf_app; split; [exact W2|].
    clear H3 H. induction elems as [|e es IH]; [constructor|]. cbn [concat]. apply wf_app. split.
    + apply He. left. reflexivity.
    + apply IH. intros e0 H0. apply He. right. exact H0.
Qed.

Lemma fs_construct_valid : forall fs nlri, fs_construct fs = Ok nlri -> forallb flow_ok fs = true ->
  forall w, valid_mp_nlri w (FFlow false) nlri = true /\ wf_bytes nlri.
Proof.
  intros fs nlri H G w.
  assert (K : exists elems, nlri = concat elems /\
            forall e, In e elems -> (e <> [] /\ forall rest, step_flow false (e ++ rest) = Some rest) /\ wf_bytes e).
  { revert nlri H G. induction fs as [|f fs IH]; intros nlri H G.
    - apply mOk_inj in H. subst. exists []. split; [reflexivity | intros e []].
    - cbn [fs_construct] in H. apply mbind_ok in H as (b & Hb & H). apply mbind_ok in H as (bt & Ht & H).
      apply mOk_inj in H. subst nlri. cbn [forallb] in G. apply andb_true_iff in G as [G1 G2].
      destruct (IH bt Ht G2) as (elems & -> & He). exists (b :: elems). split; [reflexivity|].
      intros e [<- | Hin]; [|apply He; exact Hin].
      split; [split|].
      + apply (fs_nlri_step f b [] Hb G1).
      + intros rest. apply (fs_nlri_step f b rest Hb G1).
      + apply (fs_nlri_step f b [] Hb G1). }
  destruct K as (elems & -> & He). split.
  - cbn [valid_mp_nlri]. apply walk_all_concat. intros e Hin. apply He. exact Hin.
  - clear H. induction elems as [|e es IH]; [constructor|]. cbn [concat]. apply wf_app. split.
    + apply He. left. reflexivity.
    + apply IH. intros e0 H0. apply He. right. exact H0.
Qed.

(* ------------------------------------------------------------------------------------- *)
(** * the attributes *)

(** no next hop, an IPv4 or an IPv6 one: 0, 4 or 16 octets *)
Theorem reachfs_block_x c nh fs b : forallb flow_ok fs = true ->
  reachfs_construct_x nh fs = Ok (Some b) -> attr_block c c_ATTR_MpReachNLRI_ID b.
Proof.
  intros G. unfold reachfs_construct_x. intros H. apply mbind_ok in H as (nlri & Hn & H).
  destruct (fs_construct_valid fs nlri Hn G false) as [V W].
  destruct nlri as [|x nl]; [discriminate|].
  apply mbind_ok in H as (b' & H & Hb). apply mOk_inj in Hb. injection Hb as <-.
  eapply reach_attr_block; [exact H | reflexivity | reflexivity | destruct nh as [[[] a]|]; [apply wf_be | apply wf_be | constructor] | exact W | | exact V].
  destruct nh as [[[] a]|]; [rewrite len_be | rewrite len_be |]; reflexivity.
Qed.
Theorem reachfs_block c nh fs b : forallb flow_ok fs = true ->
  reachfs_construct nh fs = Ok (Some b) -> attr_block c c_ATTR_MpReachNLRI_ID b.
Proof. apply reachfs_block_x. Qed.

Theorem unreachfs_block c fs b : forallb flow_ok fs = true ->
  unreachfs_construct fs = Ok (Some b) -> attr_block c c_ATTR_MpUnReachNLRI_ID b.
Proof.
  intros G. unfold unreachfs_construct. destruct fs as [|f fs]; [discriminate|]. intros H.
  apply mbind_ok in H as (nlri & Hn & H). apply mbind_ok in H as (b' & H & Hb).
  apply mOk_inj in Hb. injection Hb as <-.
  destruct (fs_construct_valid (f :: fs) nlri Hn G true) as [V W].
  eapply unreach_attr_block; [exact H | reflexivity | reflexivity | exact W | exact V].
Qed.

(* ------------------------------------------------------------------------------------- *)
(** * instances *)

(** a prefix length above 32, or an address that is not IPv4, is a construction error (it used to
    be written as it stood: fix: a prefix length outside the address size must be an error ...) *)
Lemma flow_prefix_length_is_error :
  reachfs_construct None [mk_flow (Some (3227517696, 33)) None []] = Exc /\
  unreachfs_construct [mk_flow None (Some (3227517696, 255)) []] = Exc /\
  reachfs_construct None [mk_flow (Some (2 ^ 125, 32)) None []] = Exc.
Proof. vm_compute. repeat split. Qed.

Definition ex_flow : flow :=
  mk_flow (Some (3227517696, 24)) (Some (167772160, 8)) [(3, [(1, 6); (1, 17)]); (5, [(3, 8080); (5, 65536)])].
Lemma reachfs_example : exists b,
  reachfs_construct (Some 167772161) [ex_flow] = Ok (Some b) /\ forallb flow_ok [ex_flow] = true /\
  b = [144; 14; 0; 32; 0; 1; 133; 4; 10; 0; 0; 1; 0; 22; 1; 24; 192; 96; 3; 2; 8; 10; 3; 1; 6; 129; 17;
       5; 19; 31; 144; 165; 0; 1; 0; 0] /\ valid_attrs cfg0 b = true.
Proof. eexists. split; [vm_compute; reflexivity|]. repeat split; vm_compute; reflexivity. Qed.
(** a rule of 240 octets and more gets the 2-octet length 0xf0f0 *)
Definition ex_long_flow : flow := mk_flow None None [(3, repeat (1, 6) 120)].
Lemma unreachfs_example : exists b,
  unreachfs_construct [ex_long_flow; ex_flow] = Ok (Some b) /\ forallb flow_ok [ex_long_flow; ex_flow] = true /\
  len b = 273 /\ valid_attrs cfg0 b = true.
Proof. eexists. split; [vm_compute; reflexivity|]. repeat split; vm_compute; reflexivity. Qed.

(** the walker is not permissive about flow specifications: rule length one off, a prefix
    component one octet short, an operator list without the end-of-list bit, value size not what
    the length bits say *)
Lemma flow_near_misses :
  valid_attrs cfg0 [144; 15; 0; 12; 0; 1; 133; 8; 1; 24; 192; 96; 3; 3; 129; 6] = true /\
  valid_attrs cfg0 [144; 15; 0; 12; 0; 1; 133; 7; 1; 24; 192; 96; 3; 3; 129; 6] = false /\
  valid_attrs cfg0 [144; 15; 0; 11; 0; 1; 133; 7; 1; 24; 192; 96; 3; 129; 6] = false /\
  valid_attrs cfg0 [144; 15; 0; 12; 0; 1; 133; 8; 1; 24; 192; 96; 3; 3; 1; 6] = false /\
  valid_attrs cfg0 [144; 15; 0; 12; 0; 1; 133; 8; 1; 24; 192; 96; 3; 3; 145; 6] = false /\
  valid_attrs cfg0 [144; 15; 0; 13; 0; 1; 133; 9; 1; 24; 192; 96; 3; 3; 145; 0; 6] = true /\
  valid_attrs cfg0 [144; 15; 0; 10; 0; 1; 133; 6; 1; 33; 192; 96; 3; 0] = false.
Proof. vm_compute. repeat split. Qed.

(** the statements of props/C08.v *)
Lemma mp_flow4_valid c fs : forallb flow_ok fs = true ->
  (forall nh b, reachfs_construct_x nh fs = Ok (Some b) -> attr_block c c_ATTR_MpReachNLRI_ID b) /\
  (forall b, unreachfs_construct fs = Ok (Some b) -> attr_block c c_ATTR_MpUnReachNLRI_ID b).
Proof. intros H. split; intros; [eapply reachfs_block_x | eapply unreachfs_block]; eassumption. Qed.
