(** C03: hold and keepalive timers keep the negotiated contract (per-step facts for ALL hold
    times, configured and proposed values; time in thirds of a second, so H/3 s = H thirds). *)
From YV Require Import lib.Base model.YWorld model.YProto gen.Consts gen.FsmGen model.YFraming
  model.YSession proof.SessionPres proof.SessionInv proof.SessionSym proof.SessionFraming.
From Coq Require Import Arith PeanoNat.

(** symbolic execution when the tracked connection c is known to be connected:
    E : nth_error conns c = Some k,  Hk : cst_eqb (c_st k) CConnected = true *)
Ltac conn_facts Hg c conns :=
  destruct Hg as [Hp Hc]; unfold conn_connected in Hc; cbn in Hp, Hc;
  destruct (nth_error conns c) as [k|] eqn:E; [|discriminate];
  assert (En : nth c conns conn0 = k) by (apply nth_error_nth; auto);
  assert (Hk : cst_eqb (c_st k) CConnected = true) by exact Hc;
  assert (Hlt : Nat.ltb c (length conns) = true) by (apply Nat.ltb_lt, nth_error_Some; congruence).

Ltac sym_c :=
  cbn;
  repeat (first [ match goal with E : nth_error _ _ = Some _ |- _ => rewrite E end
                | match goal with E : nth _ _ conn0 = _ |- _ => rewrite E end
                | match goal with H : cst_eqb _ CConnected = true |- _ => rewrite H end
                | match goal with H : Nat.ltb _ _ = true |- _ => rewrite H end
                | rewrite length_upd_nth
                | rewrite nth_error_upd_nth | rewrite nth_upd_nth | rewrite Nat.eqb_refl
                | progress unfold conn_connected, get_conn, upd_conn, conn_send_keepalive,
                    conn_send_notification, conn_write, conn_close, on_sent
                | stuck1 | unf1 ]; cbn).

Lemma t_dl_cancel_none t : t_dl (cancel_timer t) = None.
Proof. unfold cancel_timer. destruct (t_dl t) eqn:E; auto. Qed.

Definition in_session (s : bst) : Prop := s = StOpenConfirm \/ s = StEstablished.

(** the keepalive timer expires in session with H > 0: one KEEPALIVE, re-armed H/3 later *)
Lemma keepalive_fire c w : Good c w -> in_session (w_state w) -> w_hold w <> 0 -> w_out w = [] ->
  let w' := F_keep_alive_time_event w in
  w_out w' = [OWrite c WKeepalive] /\
  t_dl (w_tka w') = Some (w_now w + w_ka3 w) /\
  w_state w' = w_state w /\ t_dl (w_th w') = t_dl (w_th w).
Proof.
  intros Hg Hs Hh Ho. destr_world w. cbn in Hs, Hh, Ho. subst.
  conn_facts Hg c conns. subst proto.
  assert (Hz : (0 <? hold) = true) by (apply N.ltb_lt; lia).
  destruct Hs as [-> | ->]; sym_c; rewrite ?Hz; cbn; repeat split; reflexivity.
Qed.

(** the hold timer expires in OpenSent/OpenConfirm/Established: NOTIFICATION (4,0), close, Idle,
    and the idle-hold (restart) timer is armed *)
Lemma hold_fire c w : Good c w ->
  (w_state w = StOpenSent \/ w_state w = StOpenConfirm \/ w_state w = StEstablished) ->
  c_closing (get_conn c w) = false -> w_out w = [] ->
  let w' := F_hold_time_event w in
  w_out w' = [OLose c; OWrite c (WNotif c_ERR_HOLD_TIMER_EXPIRED 0 [])] /\
  w_state w' = StIdle /\
  t_dl (w_tih w') = Some (w_now w + secs (cf_idle_hold (w_cfg w))) /\
  t_dl (w_th w') = None /\ t_dl (w_tka w') = None.
Proof.
  intros Hg Hs Hcl Ho. destr_world w. unfold get_conn in Hcl. cbn in Hs, Hcl, Ho. subst.
  conn_facts Hg c conns. subst proto. rewrite En in Hcl.
  destruct Hs as [-> | [-> | ->]]; sym_c; rewrite ?Hcl in *; cbn in *; try discriminate; repeat split; auto using t_dl_cancel_none.
Qed.

(** a KEEPALIVE or an UPDATE (valid, or malformed but reported) arriving in Established restarts
    the hold timer from now (H <> 0); with H = 0 it leaves the timers alone *)
Lemma keepalive_arrival_est w : w_state w = StEstablished ->
  let w' := F_keep_alive_received w in
  w_state w' = StEstablished /\ w_out w' = w_out w /\ t_dl (w_tka w') = t_dl (w_tka w) /\
  t_dl (w_th w') = (if w_hold w =? 0 then t_dl (w_th w) else Some (w_now w + secs (w_hold w))).
Proof.
  intros Hs. destr_world w. cbn in Hs. subst. sym. destruct (hold =? 0); cbn; repeat split; reflexivity.
Qed.
Lemma update_arrival_est w : w_state w = StEstablished ->
  let w' := F_update_received w in
  w_state w' = StEstablished /\ w_out w' = w_out w /\ t_dl (w_tka w') = t_dl (w_tka w) /\
  t_dl (w_th w') = (if w_hold w =? 0 then t_dl (w_th w) else Some (w_now w + secs (w_hold w))).
Proof.
  intros Hs. destr_world w. cbn in Hs. subst. sym. destruct (hold =? 0); cbn; repeat split; reflexivity.
Qed.

(** the peer's KEEPALIVE in OpenConfirm: Established, hold timer restarted (H <> 0) *)
Lemma keepalive_arrival_openconfirm w : w_state w = StOpenConfirm ->
  let w' := F_keep_alive_received w in
  w_state w' = StEstablished /\
  t_dl (w_th w') = (if w_hold w =? 0 then t_dl (w_th w) else Some (w_now w + secs (w_hold w))).
Proof.
  intros Hs. destr_world w. cbn in Hs. subst. sym. destruct (hold =? 0); cbn; repeat split; reflexivity.
Qed.

(** negotiation: hold := min(own, proposed); keepalive period := hold/3 *)
Lemma negotiate_min h w : let w' := negotiate_hold_time h w in
  (h = 0 \/ 3 <= h) -> (N.min (w_hold w) h = 0 \/ 3 <= N.min (w_hold w) h) ->
  w_hold w' = N.min (w_hold w) h /\ w_ka3 w' = N.min (w_hold w) h /\ w_out w' = w_out w /\ w_state w' = w_state w.
Proof.
  intros w' Hp Hok. unfold w', negotiate_hold_time. cbv zeta. cbn [w_hold set_w_hold].
  rewrite (hold_refused_false h _ Hp Hok). cbn. repeat split; reflexivity.
Qed.

(** the peer's acceptable OPEN in OpenSent (after negotiation, hold = H): KEEPALIVE sent,
    OpenConfirm; H > 0: keepalive timer H/3 from now and hold timer H from now;
    H = 0: neither timer runs (in particular the 4-minute OpenSent timer is cancelled) *)
Lemma open_received_opensent c w : Good c w -> w_state w = StOpenSent -> w_out w = [] ->
  let w' := F_open_received w in
  w_state w' = StOpenConfirm /\ w_out w' = [OWrite c WKeepalive] /\
  t_dl (w_tka w') = (if w_hold w =? 0 then None else Some (w_now w + w_ka3 w)) /\
  t_dl (w_th w') = (if w_hold w =? 0 then None else Some (w_now w + secs (w_hold w))).
Proof.
  intros Hg Hs Ho. destr_world w. cbn in Hs, Ho. subst.
  conn_facts Hg c conns. subst proto.
  sym_c; destruct (0 <? hold) eqn:Hz; destruct (hold =? 0) eqn:Hq;
    try (exfalso; apply N.ltb_lt in Hz; apply N.eqb_eq in Hq; lia);
    try (exfalso; apply N.ltb_ge in Hz; apply N.eqb_neq in Hq; lia);
    cbn; repeat split; auto using t_dl_cancel_none.
Qed.

(** while waiting for the peer's OPEN the limit is the fixed large hold time (240 s) *)
Lemma opensent_large_hold c w : conn_st_is c CConnecting w = true -> w_out w = [] ->
  let w' := conn_made c w in
  w_state w' = StOpenSent /\ t_dl (w_th w') = Some (w_now w + secs c_FSM_large_hold_time) /\
  w_hold w' = cf_hold (w_cfg w) /\ t_dl (w_tcr w') = None.
Proof.
  intros Hc Ho. destr_world w. unfold conn_st_is in Hc. cbn in Hc, Ho. subst.
  destruct (nth_error conns c) as [k|] eqn:E; [|discriminate].
  destruct st; sym_c; repeat split; auto using t_dl_cancel_none.
Qed.

(** nothing but the timer's own expiry and the arrivals above moves the session timers:
    REST sends and the passing of time leave them alone *)
Lemma api_send_keeps_timers ok b w :
  t_dl (w_th (api_send_update ok b w)) = t_dl (w_th w) /\
  t_dl (w_tka (api_send_update ok b w)) = t_dl (w_tka w) /\
  w_state (api_send_update ok b w) = w_state w.
Proof.
  unfold api_send_update, with_proto, conn_write. destruct ok; [|auto].
  destruct (w_proto w); [|auto]. destruct (conn_connected _ _); auto.
Qed.

