(** C12: the single-connection regime holds in every world reachable without the known departures *)
From YV Require Import lib.Base model.YWorld model.YProto gen.Consts gen.FsmGen model.YFraming
  model.YSession proof.SessionPres proof.SessionInv proof.SessionSym proof.SessionFraming
  proof.SessionC03 proof.SessionC13 proof.SessionRP proof.SessionSR proof.SessionSR2 proof.SessionCD
  proof.SessionSR3 proof.SessionSR4 proof.SessionSR5 proof.SessionTW.
From Coq Require Import Arith PeanoNat.

Section Reach.
Variable D : decoders.

Lemma SR_data_received c b w : CD w -> RP w -> SR w ->
  conn_st_is c CConnected w && negb (c_closing (get_conn c w)) = true -> SR (data_received D c b w).
Proof.
  intros Hcd Hrp Hsr He. apply andb_prop in He. destruct He as [He1 He2].
  assert (Hl : Lv c w).
  { unfold Lv, conn_st_is, conn_connected, get_conn in *.
    destruct (nth_error (w_conns w) c) as [k|] eqn:E; [|discriminate].
    rewrite (nth_error_nth _ _ conn0 E) in *.
    destruct (cd_at w c k Hcd E) as [A _].
    destruct (c_closing k); [discriminate|]. repeat split; auto. }
  assert (HJ : J c w) by (split; [|split]; auto; intros _; exact Hl).
  unfold data_received. cbv zeta.
  pose proof (J_frame_loop D c (S (length (c_buf (get_conn c w) ++ b))) (c_buf (get_conn c w) ++ b) w HJ Hl) as (_ & H & _).
  set (r := frame_loop _ _ _ _ _ _ _) in *. clearbody r.
  assert (Hx : SR (upd_conn c (set_c_buf (snd (fst r))) (fst (fst r)))) by auto using SR_upd_conn with ksc.
  destruct (snd r); auto using SR_emit.
Qed.

Lemma SR_conn_write c m w : SR w -> SR (conn_write c m w).
Proof. intros H. unfold conn_write. destruct (conn_connected c w); auto using SR_emit. Qed.
Lemma SR_api_send_bin b w : SR w -> SR (api_send_bin b w).
Proof.
  intros H. unfold api_send_bin, with_proto. destruct (w_proto w); auto using SR_emit.
  apply SR_upd_conn; auto using SR_conn_write with ksc.
Qed.

(** the known departures: an expiry of the connect-retry timer, a manual start, or the start-up
    call while a connection attempt is pending *)
Definition guarded (w : world) (e : event) : Prop :=
  match e with
  | EFire TConnectRetry | EManualStart | EBoot => no_attempt w
  | _ => True
  end.

Definition Inv (w : world) : Prop := CD w /\ timers_wf w /\ RP w /\ SR w.

Lemma no_attempt_out w : no_attempt w -> no_attempt (set_w_out [] w).
Proof. auto. Qed.

Lemma SR_event e w : Inv w -> guarded w e -> enabled w e = true -> SR (do_event D e w).
Proof.
  intros (Hcd & Htw & Hrp & Hsr) Hg He. destruct e; cbn [do_event enabled guarded] in *.
  - apply SR_automatic_start; auto.
  - apply SR_conn_made; auto.
  - apply SR_conn_failed; auto.
  - apply SR_conn_lost; auto.
  - apply SR_data_received; auto.
  - destruct t; [apply SR_fire_cr|apply SR_fire_hold|apply SR_fire_ka|apply SR_fire_do|apply SR_fire_ih]; auto.
  - revert Hsr. apply SR_frame; reflexivity.
  - apply SR_manual_stop; auto.
  - apply SR_manual_start; auto.
  - unfold api_send_update. destruct ok; auto. apply SR_api_send_bin; auto.
  - apply SR_api_send_bin; auto.
Qed.

Lemma Inv_out w : Inv w -> Inv (set_w_out [] w).
Proof.
  intros (A & B & C & E). split; [|split; [|split]].
  - revert A. apply CD_frame. reflexivity.
  - revert B. apply TW_fr; reflexivity.
  - revert C. apply RP_frame; reflexivity.
  - revert E. apply SR_frame; reflexivity.
Qed.

Lemma Inv_step e w : Inv w -> guarded w e -> Inv (step D w e).
Proof.
  intros H Hg. pose proof (Inv_out w H) as H0. unfold step.
  destruct (enabled w e) eqn:He; auto.
  destruct H0 as (A & B & C & E). split; [|split; [|split]].
  - apply CD_event; auto.
  - apply TW_event; auto.
  - apply RP_event; auto.
  - apply SR_event; [split; [|split; [|split]]; auto| |exact He].
    destruct e; auto; try destruct t; auto.
Qed.

Fixpoint guarded_run (w : world) (es : list event) : Prop :=
  match es with
  | [] => True
  | e :: r => guarded w e /\ guarded_run (step D w e) r
  end.

Lemma Inv_run es : forall w, Inv w -> guarded_run w es -> Inv (run D w es).
Proof.
  induction es as [|e es IH]; intros w H Hg; cbn [run fold_left]; auto.
  destruct Hg as [G1 G2]. apply IH; auto. apply Inv_step; auto.
Qed.
End Reach.
