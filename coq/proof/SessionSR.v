(** C12: the single-connection regime.  In every world reachable without the known
    departures (connect-retry expiry, manual start or start-up while an attempt is pending) at
    most one connection is live (an attempt in flight, or connected and not being closed), and
    which one is determined by the FSM state. *)
From YV Require Import lib.Base model.YWorld model.YProto gen.Consts gen.FsmGen model.YFraming
  model.YSession proof.SessionPres proof.SessionInv proof.SessionSym proof.SessionFraming
  proof.SessionC03 proof.SessionC13 proof.SessionRP.
From Coq Require Import Arith PeanoNat.

Definition live (k : conn) : bool :=
  cst_eqb (c_st k) CConnecting || (cst_eqb (c_st k) CConnected && negb (c_closing k)).

Definition SRat (w : world) (i : nat) (k : conn) : Prop :=
  match w_state w with
  | StOpenSent | StOpenConfirm | StEstablished => w_proto w = Some i
  | StConnect => S i = length (w_conns w) /\ c_st k = CConnecting
  | StIdle => S i = length (w_conns w) /\ c_st k = CConnecting /\ w_auto w = false /\ no_timers w
  | StActive => False
  end.

(** outside a session neither the hold nor the keepalive timer is pending *)
Definition ka_off (s : bst) : bool := match s with StOpenConfirm | StEstablished => false | _ => true end.
Definition TQ (w : world) : Prop :=
  (sess (w_state w) = false -> t_dl (w_th w) = None) /\ (ka_off (w_state w) = true -> t_dl (w_tka w) = None).
(** in a session the tracked connection is not being closed *)
Definition TL (w : world) : Prop :=
  sess (w_state w) = true -> forall c, w_proto w = Some c -> c_closing (get_conn c w) = false.

Definition SR (w : world) : Prop :=
  TQ w /\ TL w /\ forall i k, nth_error (w_conns w) i = Some k -> live k = true -> SRat w i k.

Definition no_attempt (w : world) : Prop :=
  forall i k, nth_error (w_conns w) i = Some k -> c_st k <> CConnecting.

Ltac sr_intro w :=
  let Hsr := fresh "Hsr" in let Htq := fresh "Htq" in let Htl := fresh "Htl" in
  let Htk := fresh "Htk" in
  intros (Hdo & Htr & Hna & Hpe) ((Htq & Htk) & Htl & Hsr);
  destr_world w; unfold SR, TQ, TL, SRat, no_timers, tracked_ok, pending, closing_tracked, conn_connected, get_conn in * |-;
  cbn in Hdo, Htr, Hna, Hpe, Hsr, Htq, Htk, Htl;
  match type of Hdo with ?x = None => subst x end.

Ltac sr_goal := unfold SR, TQ, TL, SRat, no_timers, get_conn; cbn; rewrite ?t_dl_cancel_none; cbn.

Lemma live_connected k : cst_eqb (c_st k) CConnected = true -> live k = negb (c_closing k).
Proof. unfold live. destruct (c_st k); cbn; try discriminate. reflexivity. Qed.
Lemma live_connecting k : cst_eqb (c_st k) CConnecting = true -> live k = true.
Proof. unfold live. intros ->. reflexivity. Qed.

Lemma nth_error_snoc {A} (l : list A) x i k :
  nth_error (l ++ [x]) i = Some k -> nth_error l i = Some k \/ (i = length l /\ k = x).
Proof.
  intros H. destruct (Nat.lt_ge_cases i (length l)) as [Hlt|Hge].
  - left. rewrite nth_error_app1 in H; auto.
  - right. rewrite nth_error_app2 in H by exact Hge.
    destruct (i - length l)%nat eqn:E; cbn in H.
    + split; [lia|congruence].
    + destruct n; discriminate.
Qed.

(** use the timer facts of the current state *)
Ltac tq_use :=
  repeat match goal with
         | H : _ = _ -> _ = None |- _ =>
             cbn in H;
             first [ specialize (H eq_refl); try (match type of H with ?x = None => subst x end)
                   | match type of H with true = false -> _ => clear H | false = true -> _ => clear H end ]
         end.

(** session states: facts about the tracked connection, including "not being closed" *)
Ltac sr_sess :=
  rp_sess; tq_use;
  match goal with
  | Htl : _ = true -> forall c, Some ?c0 = Some c -> _ |- _ =>
      let Hcl := fresh "Hcl" in pose proof (Htl eq_refl c0 eq_refl) as Hcl;
      match goal with En : nth c0 _ conn0 = _ |- _ => rewrite En in Hcl end
  end.

Ltac tq_fin :=
  split; (first [ intros X; discriminate X | intros _; first [reflexivity | assumption] ]).

Ltac norm_nth :=
  repeat match goal with
         | H : nth_error ?l ?n = Some ?k |- _ =>
             lazymatch goal with
             | Hn : nth n l conn0 = k |- _ => fail
             | _ => let Hn := fresh "Hn" in pose proof (nth_error_nth l n conn0 H) as Hn; rewrite ?Hn in *
             end
         end.

Ltac decide_st :=
  repeat match goal with
         | H : cst_eqb (c_st ?k) _ = _ |- _ =>
             let Es := fresh "Es" in destruct (c_st k) eqn:Es; cbn in H; try discriminate H; clear H
         end.

(** the tracked connection is not being closed in the result *)
Ltac tl_fin :=
  first [ intros X; discriminate X
        | let c := fresh "c" in let Hc := fresh "Hc" in
          intros _ c Hc; injection Hc as <-;
          repeat first [ rewrite nth_upd_nth | rewrite Nat.eqb_refl | rewrite app_nth1 by (apply Nat.ltb_lt; assumption)
                       | match goal with H : Nat.eqb _ _ = false |- _ => rewrite H end
                       | match goal with H : Nat.ltb _ _ = true |- _ => rewrite H end
                       | match goal with E : nth _ _ conn0 = _ |- _ => rewrite E end
                       | rewrite length_upd_nth ]; cbn;
          first [ assumption | reflexivity
                | match goal with Htl : _ = true -> forall c, _ -> _ |- _ => apply (Htl eq_refl _ eq_refl) end ] ].

Ltac sr_close :=
  repeat match goal with H : _ /\ _ |- _ => destruct H end;
  try discriminate; try congruence;
  repeat split; try assumption; try reflexivity; try congruence;
  try (rewrite ?app_length, ?length_upd_nth; cbn [length]; lia).

Ltac sr_lookup Hi :=
  repeat first
  [ rewrite nth_error_upd_nth in Hi
  | match goal with H : Nat.eqb _ _ = false |- _ => rewrite H in Hi end
  | rewrite Nat.eqb_refl in Hi
  | match goal with E : nth_error _ _ = Some _ |- _ => tryif constr_eq E Hi then fail else rewrite E in Hi end
  | progress cbn [option_map] in Hi
  | match type of Hi with
    | context [Nat.eqb ?i ?c] =>
        let Eic := fresh "Eic" in
        destruct (Nat.eqb i c) eqn:Eic; [apply Nat.eqb_eq in Eic; subst i|]
    end ].

Ltac sr_one Hi Hl :=
  sr_lookup Hi;
  first
  [ (* the connection is one we know: compute its liveness *)
    injection Hi as <-; unfold live in Hl; cbn in Hl; decide_st;
    repeat match goal with H : c_closing _ = _ |- _ => rewrite H in Hl end; cbn in Hl;
    try discriminate Hl
  | (* any other connection: the regime hypothesis *)
    match goal with
    | Hsr : forall i k, nth_error _ i = Some k -> live k = true -> _ |- _ =>
        let P := fresh "P" in pose proof (Hsr _ _ Hi Hl) as P;
        try (injection P as P; subst; rewrite Nat.eqb_refl in *; discriminate)
    end
  | idtac ];
  try match goal with
      | Hg : forall i k, nth_error _ i = Some k -> c_st k <> CConnecting, P : _ /\ c_st _ = CConnecting |- _ =>
          exfalso; destruct P as [_ P]; exact (Hg _ _ Hi P)
      | Hg : forall i k, nth_error _ i = Some k -> c_st k <> CConnecting, P : _ /\ c_st _ = CConnecting /\ _ |- _ =>
          exfalso; destruct P as [_ [P _]]; exact (Hg _ _ Hi P)
      end;
  sr_close.

Ltac absurd_hyp :=
  match goal with
  | H : true = false |- _ => discriminate H
  | H : false = true |- _ => discriminate H
  end.

Ltac sr_fin0 :=
  sr_goal; split; [try tq_fin | split; [norm_nth; try tl_fin |] ];
  [ .. | norm_nth;
  let i := fresh "i" in let k0 := fresh "k0" in let Hi := fresh "Hi" in let Hl := fresh "Hl" in
  intros i k0 Hi Hl;
  first [ apply nth_error_snoc in Hi; destruct Hi as [Hi | [Hi1 Hi2]];
          [ sr_one Hi Hl | subst; sr_close ]
        | sr_one Hi Hl ] ].
Ltac sr_fin := first [ absurd_hyp | sr_fin0 ].

(** message handlers run from dataReceived on a connection that is readable (connected, not being
    closed): in the regime the FSM is then in a session state and tracks that connection *)
Ltac sr_handler w :=
  let Hss := fresh "Hss" in
  sr_intro w; intros Hss;
  match goal with H : ?s <> StActive |- _ => destruct s end; try discriminate Hss;
  sr_sess; sym_r; sr_fin.

Lemma SR_header_error sub d w : RP w -> SR w -> sess (w_state w) = true -> SR (F_header_error sub d w).
Proof. sr_handler w. Qed.
Lemma SR_open_message_error sub d w : RP w -> SR w -> sess (w_state w) = true -> SR (F_open_message_error sub d w).
Proof. sr_handler w. Qed.
Lemma SR_notification_received e s w : RP w -> SR w -> sess (w_state w) = true -> SR (F_notification_received e s w).
Proof. sr_handler w. Qed.
Lemma SR_keep_alive_received w : RP w -> SR w -> sess (w_state w) = true -> SR (F_keep_alive_received w).
Proof. sr_handler w. Qed.
Lemma SR_update_received w : RP w -> SR w -> sess (w_state w) = true -> SR (F_update_received w).
Proof. sr_handler w. Qed.
Lemma SR_open_received w : RP w -> SR w -> sess (w_state w) = true -> SR (F_open_received w).
Proof. sr_handler w. Qed.
