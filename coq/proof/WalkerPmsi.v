(** C08, PMSI tunnel attribute as model/YPmsi.v constructs it: whenever PMSITunnel.construct returns
    octets they are exactly one attribute block of type 22 - optional transitive flags, 1-octet
    length = value, value = flags, type, 3-octet label and an identifier of 4 or 16 octets (ingress
    replication).  Also: what construction does with labels that need more than the field, and the
    parse of what was constructed. *)
From Coq Require Import ZArith.
From YV Require Import lib.Base gen.Consts spec.Walker model.YExtCom model.YPmsi
  proof.WalkerProofs proof.WalkerUpdate proof.WalkerCom.
From Coq Require Import ZifyBool ZifyNat ZifyN Lia.
Ltac Zify.zify_post_hook ::= Z.to_euclidean_division_equations.
Open Scope N_scope.

Lemma pack1 z b : pack 1 z = Some b -> exists n, b = [n] /\ n < 256 /\ Z.of_N n = z.
Proof.
  unfold pack. destruct ((0 <=? z)%Z && (z <? 256 ^ Z.of_nat 1)%Z) eqn:E; [|discriminate].
  intros H; injection H as <-. change (256 ^ Z.of_nat 1)%Z with 256%Z in E.
  exists (Z.to_N z). split; [|split; lia].
  cbn [be]. change (256 ^ N.of_nat 0) with 1. rewrite N.div_1_r. rewrite N.mod_small by lia. reflexivity.
Qed.

Lemma pack3_of_4_shape z b : pack3_of_4 z = Some b -> len b = 3 /\ wf_bytes b.
Proof.
  unfold pack3_of_4. intros H. obind_inv H. injection H as <-.
  destruct (pack_shape _ _ _ E) as [L W]. destruct x as [|a r]; [discriminate L|].
  unfold drop; cbn [skipn]. apply wf_cons in W. destruct W as [_ W]. split; [|exact W].
  unfold len in *. cbn [length] in L. lia.
Qed.

Lemma pmsi_label_shape ov z b : pmsi_label ov z = Some b -> len b = 3 /\ wf_bytes b.
Proof.
  unfold pmsi_label. destruct ov as [|[] enc]; try apply pack3_of_4_shape.
  destruct ((enc =? c_BGP_TUNNEL_ENCAPS_VXLAN) || (enc =? c_BGP_TUNNEL_ENCAPS_NVGRE)); [apply pack3_of_4_shape | discriminate].
Qed.

Lemma Some_inj {A} (a b : A) : Some a = Some b -> a = b.
Proof. intros H; injection H; auto. Qed.

Lemma pmsi_tunnel_id_shape v i : pmsi_tunnel_id v = Some i ->
  p_type v = Z.of_N c_PMSI_TUNNEL_TYPE_INGRESS_REPL /\ (len i = 4 \/ len i = 16) /\ wf_bytes i.
Proof.
  unfold pmsi_tunnel_id. destruct (p_type v =? Z.of_N c_PMSI_TUNNEL_TYPE_INGRESS_REPL)%Z eqn:E; [|discriminate].
  intros H. split; [lia|].
  destruct (p_id6 v); apply Some_inj in H; subst i; (split; [rewrite len_be; auto | apply wf_be]).
Qed.

Theorem pmsi_construct_block c ov v b : pmsi_construct ov v = Some b -> attr_block c c_ATTR_PMSITunnel_ID b.
Proof.
  unfold pmsi_construct. intros H. obind_inv H.
  destruct (pack1 _ _ E) as (fl & -> & Hfl & _).
  destruct (pack1 _ _ E0) as (ty & -> & Hty & Ety).
  destruct (pmsi_label_shape _ _ _ E1) as [Ll Wl].
  destruct (pmsi_tunnel_id_shape _ _ E2) as (Et & Li & Wi).
  destruct (packn1 _ _ E3) as [-> Hl]. injection H as <-. cbn [app].
  assert (Hty6 : ty = 6) by (change c_PMSI_TUNNEL_TYPE_INGRESS_REPL with 6 in Et; lia). subst ty.
  apply (block1 c c_ATTR_PMSITunnel_FLAG c_ATTR_PMSITunnel_ID (fl :: 6 :: x1 ++ x2)); try reflexivity.
  - apply wf_cons; split; [exact Hfl|]. apply wf_cons; split; [lia|]. apply wf_app; split; assumption.
  - cbn [app] in Hl. lia.
  - unfold value_ok. change c_ATTR_PMSITunnel_ID with 22. cbv iota beta.
    destruct x1 as [|a [|a0 [|a1 [|a2 r]]]]; unfold len in Ll; cbn [length] in Ll; try lia.
    cbn [app valid_pmsi]. destruct Li as [Li|Li]; rewrite Li; reflexivity.
Qed.

(** the size of the attribute: 3 + 5 + 4 or 16 octets *)
Theorem pmsi_construct_size ov v b : pmsi_construct ov v = Some b -> len b = 12 \/ len b = 24.
Proof.
  unfold pmsi_construct. intros H. obind_inv H.
  destruct (pack1 _ _ E) as (fl & -> & _). destruct (pack1 _ _ E0) as (ty & -> & _).
  destruct (pmsi_label_shape _ _ _ E1) as [Ll _]. destruct (pmsi_tunnel_id_shape _ _ E2) as (_ & Li & _).
  destruct (packn1 _ _ E3) as [-> _]. injection H as <-.
  cbn [app]. unfold len in *. cbn [length]. rewrite app_length. lia.
Qed.

(** construction succeeds on every in-range input of the only supported tunnel type: nothing is
    refused that the attribute could carry (20-bit label, or 24-bit VNI under a VXLAN/NVGRE overlay) *)
Definition pmsi_in_range (ov : overlay) (v : pmsi) : bool :=
  ((0 <=? p_leaf v) && (p_leaf v <? 256) && (p_type v =? 6) && (0 <=? p_label v))%Z &&
  match ov with
  | OvOn true enc => ((enc =? 8) || (enc =? 9)) && (p_label v <? 2 ^ 24)%Z
  | _ => (p_label v <? 2 ^ 20)%Z
  end.

Theorem pmsi_construct_total ov v : pmsi_in_range ov v = true -> exists b, pmsi_construct ov v = Some b.
Proof.
  unfold pmsi_in_range. intros H.
  assert (H1 : (0 <= p_leaf v < 256 /\ p_type v = 6 /\ 0 <= p_label v)%Z) by lia.
  destruct H1 as (Hl & Ht & Hb).
  unfold pmsi_construct.
  assert (P1 : exists f, pack 1 (p_leaf v) = Some f /\ length f = 1%nat).
  { unfold pack. change (256 ^ Z.of_nat 1)%Z with 256%Z.
    replace ((0 <=? p_leaf v)%Z && (p_leaf v <? 256)%Z) with true by lia. eexists; split; [reflexivity | apply length_be]. }
  destruct P1 as (f & -> & Lf). cbn [obind].
  assert (P2 : exists t, pack 1 (p_type v) = Some t /\ length t = 1%nat).
  { unfold pack. change (256 ^ Z.of_nat 1)%Z with 256%Z. rewrite Ht. eexists; split; [reflexivity | apply length_be]. }
  destruct P2 as (t & -> & Lt). cbn [obind].
  assert (P3 : exists l, pmsi_label ov (p_label v) = Some l /\ length l = 3%nat).
  { assert (Q : forall z, (0 <= z < 2 ^ 32)%Z -> exists l, pack3_of_4 z = Some l /\ length l = 3%nat).
    { intros z Hz. unfold pack3_of_4, pack. change (256 ^ Z.of_nat 4)%Z with (2 ^ 32)%Z.
      replace ((0 <=? z)%Z && (z <? 2 ^ 32)%Z) with true by lia. cbn [obind].
      eexists; split; [reflexivity|]. unfold drop. rewrite skipn_length, length_be. reflexivity. }
    unfold pmsi_label. destruct ov as [|[] enc].
    - apply Q. lia.
    - change c_BGP_TUNNEL_ENCAPS_VXLAN with 8. change c_BGP_TUNNEL_ENCAPS_NVGRE with 9.
      destruct ((enc =? 8) || (enc =? 9)) eqn:Ee; [apply Q; lia | exfalso; lia].
    - apply Q. lia. }
  destruct P3 as (l & -> & Ll). cbn [obind].
  unfold pmsi_tunnel_id. change c_PMSI_TUNNEL_TYPE_INGRESS_REPL with 6. rewrite Ht.
  change (6 =? Z.of_N 6)%Z with true. cbn [obind].
  set (i := if p_id6 v then be 16 (p_id v) else be 4 (p_id v)).
  assert (Li : length i = 4%nat \/ length i = 16%nat) by (unfold i; destruct (p_id6 v); rewrite length_be; auto).
  unfold packn, pack. change (256 ^ Z.of_nat 1)%Z with 256%Z.
  assert (Hlen : len (f ++ t ++ l ++ i) < 256) by (unfold len; rewrite !app_length; lia).
  replace ((0 <=? Z.of_N (len (f ++ t ++ l ++ i)))%Z && (Z.of_N (len (f ++ t ++ l ++ i)) <? 256)%Z) with true by lia.
  cbn [obind]. eexists; reflexivity.
Qed.

(* ------------------------------------------------------------------------------------- *)
(** what the parse of a constructed attribute value returns: flag, type 6, the label (VNI) as
    given when it fits its field, the address VALUE.  [value_of] strips the 3-octet header. *)
Definition value_of (b : bytes) : bytes := drop 3 b.

Lemma unbe3_drop1_be4 z : z < 2 ^ 24 -> unbe (drop 1 (be 4 z)) = z.
Proof.
  intros Hz. change (drop 1 (be 4 z)) with (be 3 z).
  apply unbe_be. change (256 ^ N.of_nat 3) with (2 ^ 24). exact Hz.
Qed.

(** round trip of the label field: a 20-bit label (no overlay) / a 24-bit VNI (VXLAN or NVGRE overlay)
    written by construct_pmsi_label is what parse_mpls_label / parse_vni reads back *)
Theorem pmsi_label_roundtrip_mpls z l : (0 <= z < 2 ^ 20)%Z -> pack3_of_4 (z * 16) = Some l ->
  unbe l / 16 = Z.to_N z.
Proof.
  intros Hz. unfold pack3_of_4, pack. destruct ((0 <=? z * 16)%Z && (z * 16 <? 256 ^ Z.of_nat 4)%Z); [|discriminate].
  cbn [obind]. intros H; apply Some_inj in H; subst l.
  rewrite unbe3_drop1_be4 by (change (2 ^ 24) with 16777216; change (2 ^ 20)%Z with 1048576%Z in Hz; lia).
  lia.
Qed.
Theorem pmsi_label_roundtrip_vni z l : (0 <= z < 2 ^ 24)%Z -> pack3_of_4 z = Some l -> unbe l = Z.to_N z.
Proof.
  intros Hz. unfold pack3_of_4, pack. destruct ((0 <=? z)%Z && (z <? 256 ^ Z.of_nat 4)%Z); [|discriminate].
  cbn [obind]. intros H; apply Some_inj in H; subst l.
  apply unbe3_drop1_be4. change (2 ^ 24) with 16777216; change (2 ^ 24)%Z with 16777216%Z in Hz; lia.
Qed.

(** a label that needs more than 20 bits (more than 24 under an overlay) but fits the 32-bit word is
    NOT refused: the high octet is dropped and a different label goes on the wire (witness) *)
Definition pmsi_truncated_input : pmsi := mk_pmsi 0 6 (2 ^ 20 + 5)%Z false 167772161.
Definition parsed_label (r : option (N * N * N * pid)) : option N :=
  match r with Some (_, _, l, _) => Some l | None => None end.
Theorem pmsi_label_truncated_witness :
  exists b, pmsi_construct OvOff pmsi_truncated_input = Some b /\
            parsed_label (pmsi_parse false (value_of b)) = Some 5.
Proof. eexists; split; [vm_compute; reflexivity | vm_compute; reflexivity]. Qed.
