(** C12, continued: data received, the event step, reachability *)
From YV Require Import lib.Base model.YWorld model.YProto gen.Consts gen.FsmGen model.YFraming
  model.YSession proof.SessionPres proof.SessionInv proof.SessionSym proof.SessionFraming
  proof.SessionC03 proof.SessionC13 proof.SessionRP proof.SessionSR proof.SessionSR2 proof.SessionCD
  proof.SessionSR3 proof.SessionSR4 proof.SessionC05.
From Coq Require Import Arith PeanoNat.

(** ---- frame lemmas for SR ---- *)
Lemma SR_frame w w' :
  w_state w' = w_state w -> w_proto w' = w_proto w -> w_conns w' = w_conns w -> w_auto w' = w_auto w ->
  w_tcr w' = w_tcr w -> w_th w' = w_th w -> w_tka w' = w_tka w -> w_tdo w' = w_tdo w -> w_tih w' = w_tih w ->
  SR w -> SR w'.
Proof.
  unfold SR, TQ, TL, SRat, no_timers, get_conn.
  intros -> -> -> -> -> -> -> -> ->. auto.
Qed.

Definition keeps_sc (f : conn -> conn) : Prop :=
  forall k, c_st (f k) = c_st k /\ c_closing (f k) = c_closing k /\ c_disc (f k) = c_disc k.
Lemma ksc_on_recv f : keeps_sc (on_recv f). Proof. intro; repeat split. Qed.
Lemma ksc_on_sent f : keeps_sc (on_sent f). Proof. intro; repeat split. Qed.
Lemma ksc_asn4 b : keeps_sc (set_c_asn4 b). Proof. intro; repeat split. Qed.
Lemma ksc_buf b : keeps_sc (set_c_buf b). Proof. intro; repeat split. Qed.
#[global] Hint Resolve ksc_on_recv ksc_on_sent ksc_asn4 ksc_buf : ksc.

Lemma nth_error_upd_sc c f (l : list conn) i k' : keeps_sc f ->
  nth_error (upd_nth c f l) i = Some k' ->
  exists k, nth_error l i = Some k /\ c_st k' = c_st k /\ c_closing k' = c_closing k /\ c_disc k' = c_disc k.
Proof.
  intros Hf H. rewrite nth_error_upd_nth in H. destruct (Nat.eqb i c).
  - destruct (nth_error l i) as [k|]; [|discriminate]. cbn in H. injection H as <-.
    exists k. split; [reflexivity|]. apply Hf.
  - exists k'. auto.
Qed.
Lemma get_conn_upd_sc c c' f w : keeps_sc f ->
  c_st (get_conn c (upd_conn c' f w)) = c_st (get_conn c w) /\
  c_closing (get_conn c (upd_conn c' f w)) = c_closing (get_conn c w) /\
  c_disc (get_conn c (upd_conn c' f w)) = c_disc (get_conn c w).
Proof.
  intros Hf. unfold get_conn, upd_conn. cbn. rewrite nth_upd_nth.
  destruct (Nat.eqb c c' && Nat.ltb c (length (w_conns w))); [apply Hf|auto].
Qed.
Lemma live_sc k k' : c_st k' = c_st k -> c_closing k' = c_closing k -> live k' = live k.
Proof. unfold live. intros -> ->. reflexivity. Qed.

Lemma SR_upd_conn c f w : keeps_sc f -> SR w -> SR (upd_conn c f w).
Proof.
  intros Hf ((H1 & H1') & H2 & H3). split; [|split].
  - exact (conj H1 H1').
  - unfold TL in *. intros Hs c0 Hp. destruct (get_conn_upd_sc c0 c f w Hf) as (_ & -> & _). apply H2; auto.
  - intros i k' Hi Hl. unfold upd_conn in Hi. cbn in Hi.
    destruct (nth_error_upd_sc c f _ i k' Hf Hi) as (k & Ek & A & B & _).
    rewrite (live_sc k k' A B) in Hl. specialize (H3 i k Ek Hl).
    unfold SRat in *. change (w_state (upd_conn c f w)) with (w_state w).
    change (w_proto (upd_conn c f w)) with (w_proto w). change (w_auto (upd_conn c f w)) with (w_auto w).
    unfold upd_conn. cbn [w_conns set_w_conns]. rewrite length_upd_nth, A.
    destruct (w_state w); auto.
Qed.
Lemma SR_emit o w : SR w -> SR (emit o w).
Proof. apply SR_frame; reflexivity. Qed.

(** ---- the connection being read stays readable until we close it ---- *)
Definition Lv (c : nat) (w : world) : Prop :=
  conn_connected c w = true /\ c_closing (get_conn c w) = false /\ c_disc (get_conn c w) = false.
Definition L (c : nat) (w : world) : Prop := c_disc (get_conn c w) = false -> Lv c w.

Lemma Lv_frame c w w' : w_conns w' = w_conns w -> Lv c w -> Lv c w'.
Proof. unfold Lv, conn_connected, get_conn. intros ->. auto. Qed.
Lemma L_frame c w w' : w_conns w' = w_conns w -> L c w -> L c w'.
Proof. unfold L, Lv, conn_connected, get_conn. intros ->. auto. Qed.
Lemma connected_upd_sc c c' f w : keeps_sc f -> conn_connected c (upd_conn c' f w) = conn_connected c w.
Proof.
  intros Hf. unfold conn_connected, upd_conn. cbn. rewrite nth_error_upd_nth.
  destruct (Nat.eqb c c'); auto. destruct (nth_error (w_conns w) c); cbn; auto.
  destruct (Hf c0) as (-> & _). reflexivity.
Qed.
Lemma Lv_upd c c' f w : keeps_sc f -> Lv c w -> Lv c (upd_conn c' f w).
Proof.
  intros Hf (A & B & C). split; [|split].
  - rewrite connected_upd_sc; auto.
  - destruct (get_conn_upd_sc c c' f w Hf) as (_ & -> & _). exact B.
  - destruct (get_conn_upd_sc c c' f w Hf) as (_ & _ & ->). exact C.
Qed.
Lemma L_upd c c' f w : keeps_sc f -> L c w -> L c (upd_conn c' f w).
Proof.
  intros Hf H Hd. destruct (get_conn_upd_sc c c' f w Hf) as (_ & _ & E). rewrite E in Hd.
  apply Lv_upd; auto.
Qed.
Lemma L_emit c o w : L c w -> L c (emit o w). Proof. apply L_frame; reflexivity. Qed.
Lemma L_conn_write c c' m w : L c w -> L c (conn_write c' m w).
Proof. intros H. unfold conn_write. destruct (conn_connected c' w); auto using L_emit. Qed.
Lemma L_set_tm c t v w : L c w -> L c (set_tm t v w).
Proof. apply L_frame; destruct t; reflexivity. Qed.
Lemma L_with_proto c f w : (forall c' w, L c w -> L c (f c' w)) -> L c w -> L c (with_proto f w).
Proof. intros Hf H. unfold with_proto. destruct (w_proto w); auto using L_emit. Qed.

Lemma L_lose c c' w : L c w -> L c (upd_conn c' lose_conn w).
Proof.
  intros H Hd. unfold L, Lv, conn_connected, get_conn, upd_conn in *. cbn in *.
  rewrite nth_upd_nth in Hd. rewrite nth_error_upd_nth, nth_upd_nth.
  destruct (Nat.eqb c c') eqn:E; cbn in *.
  - destruct (Nat.ltb c (length (w_conns w))) eqn:E2; cbn in *; [discriminate|].
    destruct (H Hd) as (A & B & _). apply Nat.ltb_ge in E2.
    destruct (nth_error (w_conns w) c) eqn:E3; [|discriminate].
    exfalso. assert (c < length (w_conns w))%nat by (apply nth_error_Some; congruence). lia.
  - apply H; auto.
Qed.

Lemma L_prims c : prims_ok (L c).
Proof.
  constructor.
  - intros s w H. unfold set_state. destruct (bst_eqb s (w_state w)); auto.
    destruct s; eapply L_frame; [|exact H| |exact H| |exact H| |exact H| |exact H| |exact H]; reflexivity.
  - intros; unfold tm_reset; apply L_set_tm; auto.
  - intros; unfold tm_cancel; apply L_set_tm; auto.
  - intros; unfold tm_active; cbn [snd]; apply L_set_tm; auto.
  - intros n w H; eapply L_frame; [|exact H]; reflexivity.
  - intros n w H; eapply L_frame; [|exact H]; reflexivity.
  - intros n w H; eapply L_frame; [|exact H]; reflexivity.
  - intros n w H; eapply L_frame; [|exact H]; reflexivity.
  - intros w H. apply L_with_proto; auto. intros c' w' H'. unfold conn_send_open. cbv beta zeta.
    apply L_emit, L_upd; auto with ksc. apply L_conn_write.
    unfold capability_negotiate. destruct (w_capr w'); auto;
      try (eapply L_frame; [|exact H']; reflexivity).
  - intros w H. apply L_with_proto; auto. intros c' w' H'. unfold conn_send_keepalive.
    apply L_conn_write, L_upd; auto with ksc.
  - intros code s d w H. apply L_with_proto; auto. intros c' w' H'. unfold conn_send_notification.
    apply L_conn_write, L_upd; auto with ksc.
  - intros w H. apply L_with_proto; auto. intros c' w' H'. unfold conn_close.
    destruct (conn_connected c' w'); auto.
    destruct (c_closing (get_conn c' w')); [apply L_lose; auto|apply L_lose, L_emit; auto].
  - intros w H. unfold peering_connect. destruct (st_is w StEstablished); auto.
    apply L_emit. intros Hd. unfold L, Lv, conn_connected, get_conn in *. cbn in *.
    destruct (Nat.lt_ge_cases c (length (w_conns w))) as [Hlt|Hge].
    + rewrite app_nth1 in * by exact Hlt. rewrite nth_error_app1 by exact Hlt. apply H; auto.
    + exfalso. rewrite (nth_overflow (w_conns w) conn0 Hge) in H.
      destruct (H eq_refl) as (A & _). rewrite (proj2 (nth_error_None _ _) Hge) in A. discriminate.
Qed.

Lemma live_sess c w : SR w -> Lv c w -> sess (w_state w) = true /\ w_proto w = Some c.
Proof.
  intros (_ & _ & H) (A & B & _). unfold conn_connected, get_conn in *.
  destruct (nth_error (w_conns w) c) as [k|] eqn:E; [|discriminate].
  rewrite (nth_error_nth _ _ conn0 E) in B.
  assert (Hl : live k = true) by (rewrite live_connected by exact A; rewrite B; reflexivity).
  specialize (H c k E Hl). unfold SRat in H.
  destruct (w_state w); cbn; auto;
    repeat match goal with H : _ /\ _ |- _ => destruct H end; try contradiction;
    match goal with X : c_st k = CConnecting |- _ => rewrite X in A; discriminate end.
Qed.

(** ---- dataReceived ---- *)
Definition J (c : nat) (w : world) : Prop := RP w /\ SR w /\ L c w.

Lemma ksd_of_ksc f : keeps_sc f -> keeps_sd f.
Proof. intros H k. destruct (H k) as (A & _ & B). auto. Qed.

Lemma J_upd c c' f w : keeps_sc f -> J c w -> J c (upd_conn c' f w).
Proof.
  intros Hf (A & B & C). split; [|split].
  - apply RP_upd_conn; auto using ksd_of_ksc.
  - apply SR_upd_conn; auto.
  - apply L_upd; auto.
Qed.
Lemma J_emit c o w : J c w -> J c (emit o w).
Proof. intros (A & B & C). split; [|split]; auto using RP_emit, SR_emit, L_emit. Qed.
Lemma J_frame c w w' :
  w_state w' = w_state w -> w_proto w' = w_proto w -> w_conns w' = w_conns w -> w_estab w' = w_estab w ->
  w_auto w' = w_auto w -> w_tcr w' = w_tcr w -> w_th w' = w_th w -> w_tka w' = w_tka w -> w_tdo w' = w_tdo w ->
  w_tih w' = w_tih w -> J c w -> J c w'.
Proof.
  intros E1 E2 E3 E4 E5 E6 E7 E8 E9 E10 (A & B & C). split; [|split].
  - revert A. apply RP_frame; auto.
  - revert B. apply SR_frame; auto.
  - revert C. apply L_frame; auto.
Qed.

Lemma SR_open_received_idle w : RP w -> SR w -> w_state w = StIdle -> SR (F_open_received w).
Proof.
  sr_intro w. intros Hss. cbn in Hss. subst st. tq_use. sym_r. all: sr_fin.
Qed.

Section Data.
Variable D : decoders.
Variable c : nat.

Lemma J_header_error sub d w : J c w -> Lv c w -> J c (F_header_error sub d w).
Proof.
  intros (A & B & C) Hl. destruct (live_sess c w B Hl) as [Hs _]. split; [|split].
  - apply RP_header_error; auto.
  - apply SR_header_error; auto.
  - apply (pres_header_error (L c) (L_prims c)); auto.
Qed.
Lemma J_open_message_error sub d w : J c w -> Lv c w -> J c (F_open_message_error sub d w).
Proof.
  intros (A & B & C) Hl. destruct (live_sess c w B Hl) as [Hs _]. split; [|split].
  - apply RP_open_message_error; auto.
  - apply SR_open_message_error; auto.
  - apply (pres_open_message_error (L c) (L_prims c)); auto.
Qed.

Lemma J_negotiate_hold_time h w : J c w -> Lv c w -> J c (negotiate_hold_time h w).
Proof.
  intros H Hl. unfold negotiate_hold_time. cbv zeta.
  set (w1 := set_w_hold (N.min (w_hold w) h) w).
  assert (H1 : J c w1) by (revert H; apply J_frame; reflexivity).
  assert (Hl1 : Lv c w1) by (revert Hl; apply Lv_frame; reflexivity).
  apply (J_frame c (if hold_refused h (w_hold w1)
                    then F_open_message_error c_ERR_MSG_OPEN_UNACCPT_HOLD_TIME [] w1 else w1)); try reflexivity.
  destruct (hold_refused _ _); auto using J_open_message_error.
Qed.

Lemma J_open_received w : J c w -> Lv c w -> J c (F_open_received w).
Proof.
  intros (A & B & C) Hl. destruct (live_sess c w B Hl) as [Hs _]. split; [|split].
  - apply RP_open_received; auto.
  - apply SR_open_received; auto.
  - apply (pres_open_received0 (L c) (L_prims c)); auto.
Qed.

Lemma J_negotiate_then_open h w : J c w -> Lv c w -> J c (F_open_received (negotiate_hold_time h w)).
Proof.
  intros H Hl. unfold negotiate_hold_time. cbv zeta.
  set (w1 := set_w_hold (N.min (w_hold w) h) w).
  assert (H1 : J c w1) by (revert H; apply J_frame; reflexivity).
  assert (Hl1 : Lv c w1) by (revert Hl; apply Lv_frame; reflexivity).
  destruct (hold_refused h (w_hold w1)).
  - (* refused: the error handler has closed the connection and gone to Idle; the OPEN handler does nothing *)
    destruct H1 as (A & B & C). destruct (live_sess c w1 B Hl1) as [Hs Hp].
    assert (Hg : Good c w1) by (split; [exact Hp|apply Hl1]).
    destruct (ome_effects c c_ERR_MSG_OPEN_UNACCPT_HOLD_TIME [] w1 Hg (proj1 (proj2 Hl1))) as [Hst _].
    rewrite open_received_idle by exact Hst.
    apply (J_frame c (F_open_message_error c_ERR_MSG_OPEN_UNACCPT_HOLD_TIME [] w1)); try reflexivity.
    apply J_open_message_error; [split; [|split]|]; assumption.
  - apply J_open_received.
    + revert H1. apply J_frame; reflexivity.
    + revert Hl1. apply Lv_frame; reflexivity.
Qed.

(** after one message the world is still in the regime *)
Lemma J_dispatch ty msg w : J c w -> Lv c w -> J c (snd (dispatch D c ty msg w)).
Proof.
  intros H Hl. unfold dispatch.
  destruct (ty =? c_MSG_OPEN).
  { unfold open_received. cbv zeta.
    assert (H0 : J c (upd_conn c (on_recv bump_open) w)) by auto using J_upd with ksc.
    assert (Hl0 : Lv c (upd_conn c (on_recv bump_open) w)) by auto using Lv_upd with ksc.
    destruct (d_open D msg) as [sub|sub| |asn hold caps]; cbn [snd];
      [ apply J_header_error; assumption | apply J_open_message_error; assumption | exact H0 | ].
    destruct (negb _); cbn [snd]; [apply J_open_message_error; assumption|].
    apply J_emit.
    set (w1 := set_w_capr caps (upd_conn c (on_recv bump_open) w)).
    assert (H1 : J c w1) by (revert H0; apply J_frame; reflexivity).
    assert (Hl1 : Lv c w1) by (revert Hl0; apply Lv_frame; reflexivity).
    set (w2 := if cap_has KFourBytesAs caps then upd_conn c (set_c_asn4 true) w1 else w1).
    assert (H2 : J c w2) by (unfold w2; destruct (cap_has _ _); auto using J_upd with ksc).
    assert (Hl2 : Lv c w2) by (unfold w2; destruct (cap_has _ _); auto using Lv_upd with ksc).
    apply J_negotiate_then_open; assumption. }
  destruct (ty =? c_MSG_UPDATE).
  { unfold update_received. destruct (d_update D _ msg); cbn [snd]; [ | | exact H].
    - assert (H0 : J c (upd_conn c (on_recv bump_upd) (emit (OHandler HUpdate) w))) by auto using J_upd, J_emit with ksc.
      assert (Hl0 : Lv c (upd_conn c (on_recv bump_upd) (emit (OHandler HUpdate) w))).
      { apply Lv_upd; [auto with ksc|]. revert Hl. apply Lv_frame. reflexivity. }
      destruct H0 as (A & B & C). destruct (live_sess c _ B Hl0) as [Hs _]. split; [|split].
      + apply RP_update_received; auto.
      + apply SR_update_received; auto.
      + apply (pres_update_received0 (L c) (L_prims c)); auto.
    - assert (H0 : J c (upd_conn c (on_recv bump_upd) (emit (OHandler HUpdateError) w))) by auto using J_upd, J_emit with ksc.
      assert (Hl0 : Lv c (upd_conn c (on_recv bump_upd) (emit (OHandler HUpdateError) w))).
      { apply Lv_upd; [auto with ksc|]. revert Hl. apply Lv_frame. reflexivity. }
      destruct H0 as (A & B & C). destruct (live_sess c _ B Hl0) as [Hs _]. split; [|split].
      + apply RP_update_received; auto.
      + apply SR_update_received; auto.
      + apply (pres_update_received0 (L c) (L_prims c)); auto. }
  destruct (ty =? c_MSG_NOTIFICATION).
  { unfold notification_received. destruct msg as [|e [|s r]]; cbn [snd]; [exact H|exact H|].
    assert (H0 : J c (emit (OHandler HNotification) (upd_conn c (on_recv (bump_notif 1)) w))) by auto using J_upd, J_emit with ksc.
    assert (Hl0 : Lv c (emit (OHandler HNotification) (upd_conn c (on_recv (bump_notif 1)) w))).
    { eapply Lv_frame; [|apply Lv_upd; [|exact Hl]]; [reflexivity|auto with ksc]. }
    destruct H0 as (A & B & C). destruct (live_sess c _ B Hl0) as [Hs _]. split; [|split].
    - apply RP_notification_received; auto.
    - apply SR_notification_received; auto.
    - apply (pres_notification_received0 (L c) (L_prims c)); auto. }
  destruct (ty =? c_MSG_KEEPALIVE).
  { unfold keepalive_received. cbv zeta.
    assert (H0 : J c (emit (OHandler HKeepalive) (upd_conn c (on_recv bump_ka) w))) by auto using J_upd, J_emit with ksc.
    assert (Hl0 : Lv c (emit (OHandler HKeepalive) (upd_conn c (on_recv bump_ka) w))).
    { eapply Lv_frame; [|apply Lv_upd; [|exact Hl]]; [reflexivity|auto with ksc]. }
    destruct msg; cbn [snd]; [|apply J_header_error; assumption].
    destruct H0 as (A & B & C). destruct (live_sess c _ B Hl0) as [Hs _]. split; [|split].
    - apply RP_keep_alive_received; auto.
    - apply SR_keep_alive_received; auto.
    - apply (pres_keep_alive_received (L c) (L_prims c)); auto. }
  destruct (_ || _).
  { unfold route_refresh_received. destruct (Nat.eqb _ _); cbn [snd]; [|exact H].
    apply J_emit, J_upd; auto with ksc. }
  cbn [snd]. apply J_header_error; assumption.
Qed.

Lemma J_frame_loop : forall fuel buf w, J c w -> Lv c w ->
  J c (fst (fst (frame_loop world (dispatch D c) (fun sub d w => F_header_error sub d w)
                            (conn_closed_by_us c) fuel buf w))).
Proof.
  induction fuel as [|fuel IH]; intros buf w H Hl; cbn [frame_loop fst]; auto.
  unfold parse1. cbv zeta.
  destruct (len buf <? c_HDR_LEN); cbn [fst]; auto.
  destruct (negb _); cbn [fst]; [apply J_header_error; assumption|].
  destruct (_ || _); cbn [fst]; [apply J_header_error; assumption|].
  destruct (len buf <? _); cbn [fst]; auto.
  pose proof (J_dispatch (nth 18 buf 0) (slice 19 (N.to_nat (unbe (slice 16 18 buf))) buf) w H Hl) as Hd.
  destruct (fst (dispatch D c _ _ w)); cbn [fst]; auto.
  unfold conn_closed_by_us at 1.
  destruct (c_disc (get_conn c _)) eqn:Ed; cbn [fst]; auto.
  apply IH; auto. destruct Hd as (_ & _ & HL). apply HL; auto.
Qed.
End Data.
