(** Proofs about the structural walker spec/Walker.v (property C08):
    - sanity: what [valid_msg_with c m = true] forces on [m] (so the walker is not vacuously
      permissive): header, UPDATE sections, prefixes, attribute framing;
    - validity of the messages built by the modelled constructors. *)
From YV Require Import lib.Base gen.Consts spec.Walker model.YMsg.
From Coq Require Import ZArith ZifyBool ZifyNat ZifyN Lia.
Ltac Zify.zify_post_hook ::= Z.to_euclidean_division_equations.

(* ------------------------------------------------------------------------------------- *)
(** * cutting *)

Lemma split_spec n : forall b h t, split n b = Some (h, t) -> b = h ++ t /\ length h = n.
Proof.
  induction n as [|n IH]; intros b h t H; cbn in H.
  - inversion H; subst; auto.
  - destruct b as [|x r]; [discriminate|].
    destruct (split n r) as [[h' t']|] eqn:E; [|discriminate].
    inversion H; subst. apply IH in E as [-> <-]. auto.
Qed.

Lemma split_app a b : split (length a) (a ++ b) = Some (a, b).
Proof. induction a as [|x a IH]; cbn; [reflexivity | rewrite IH; reflexivity]. Qed.

Lemma splitN_spec n b h t : splitN n b = Some (h, t) -> b = h ++ t /\ len h = n.
Proof. unfold splitN, len. intros H. apply split_spec in H as [-> H]. split; [reflexivity | lia]. Qed.

Lemma splitN_app a b : splitN (len a) (a ++ b) = Some (a, b).
Proof. unfold splitN, len. rewrite Nnat.Nat2N.id. apply split_app. Qed.

Lemma splitN_all a : splitN (len a) a = Some (a, []).
Proof. rewrite <- (app_nil_r a) at 2. apply splitN_app. Qed.

Lemma len_app a b : len (a ++ b) = len a + len b.
Proof. unfold len. rewrite app_length. lia. Qed.

Lemma len_cons x a : len (x :: a) = 1 + len a.
Proof. unfold len. cbn [length]. lia. Qed.

Lemma wf_bytesb_iff b : wf_bytesb b = true <-> wf_bytes b.
Proof.
  unfold wf_bytesb, wf_bytes. rewrite forallb_forall, Forall_forall.
  split; intros H x Hx; specialize (H x Hx); lia.
Qed.

Lemma wf_app a b : wf_bytes (a ++ b) <-> wf_bytes a /\ wf_bytes b.
Proof. unfold wf_bytes. apply Forall_app. Qed.

Lemma forallb_eqb_repeat x l : forallb (N.eqb x) l = true -> l = repeat x (length l).
Proof.
  induction l as [|y l IH]; cbn; [reflexivity|].
  rewrite andb_true_iff, N.eqb_eq. intros [-> H]. f_equal. auto.
Qed.

(* ------------------------------------------------------------------------------------- *)
(** * sanity: the header *)

Lemma unheader_spec m ty body : unheader m = Some (ty, body) ->
  exists l1 l0, m = repeat 255 16 ++ l1 :: l0 :: ty :: body /\
                l1 * 256 + l0 = len m /\ 19 <= len m /\ len m <= 4096.
Proof.
  unfold unheader. destruct (split 16 m) as [[mk rest]|] eqn:E; [|discriminate].
  destruct rest as [|l1 [|l0 [|ty' body']]]; try discriminate.
  destruct (forallb (N.eqb 255) mk && (u16 l1 l0 =? len m) && (19 <=? len m) && (len m <=? 4096)) eqn:C;
    [|discriminate].
  intros H; inversion H; subst ty' body'; clear H.
  apply split_spec in E as [-> Hl].
  repeat rewrite andb_true_iff in C. destruct C as [[[C1 C2] C3] C4].
  apply forallb_eqb_repeat in C1. rewrite Hl in C1.
  exists l1, l0. unfold u16 in C2. rewrite C1 at 1. repeat split; lia.
Qed.

(** a valid message: every octet is an octet, the marker is all ones, the length field is the
    size of the message, and the size is within 19..4096 *)
Lemma valid_msg_header c m : valid_msg_with c m = true ->
  wf_bytes m /\
  exists l1 l0 ty body, m = repeat 255 16 ++ l1 :: l0 :: ty :: body /\
                        l1 * 256 + l0 = len m /\ 19 <= len m /\ len m <= 4096.
Proof.
  unfold valid_msg_with. rewrite andb_true_iff. intros [Hw H].
  split; [apply wf_bytesb_iff; exact Hw|].
  destruct (unheader m) as [[ty body]|] eqn:E; [|discriminate].
  apply unheader_spec in E as (l1 & l0 & E). exists l1, l0, ty, body. exact E.
Qed.

(** the type octet is one of the five RFC types (or 128 when the session allows it) and the
    body is valid for that type *)
Lemma valid_msg_body c m : valid_msg_with c m = true ->
  exists ty body, unheader m = Some (ty, body) /\
    ((ty = 1 /\ valid_open body = true) \/ (ty = 2 /\ valid_update c body = true) \/
     (ty = 3 /\ valid_notification body = true) \/ (ty = 4 /\ body = []) \/
     (ty = 5 /\ len body = 4) \/ (ty = 128 /\ w_cisco_rr c = true /\ len body = 4)).
Proof.
  unfold valid_msg_with. rewrite andb_true_iff. intros [_ H].
  destruct (unheader m) as [[ty body]|] eqn:E; [|discriminate].
  exists ty, body. split; [reflexivity|].
  destruct ty as [|p]; [discriminate|].
  do 8 (try destruct p as [p|p|]); try discriminate; cbn in H;
    first
    [ left; split; [reflexivity | assumption]
    | right; left; split; [reflexivity | assumption]
    | right; right; left; split; [reflexivity | assumption]
    | right; right; right; left; split; [reflexivity | destruct body; [reflexivity | discriminate]]
    | right; right; right; right; left; split; [reflexivity | unfold valid_route_refresh in H; lia]
    | right; right; right; right; right; rewrite andb_true_iff in H; unfold valid_route_refresh in H;
      destruct H as [H1 H2]; repeat split; [assumption | lia] ].
Qed.

(* ------------------------------------------------------------------------------------- *)
(** * sanity: UPDATE sections, prefixes, attributes *)

Lemma update_sections_spec body wd attrs nlri : update_sections body = Some (wd, attrs, nlri) ->
  exists w1 w0 a1 a0, body = w1 :: w0 :: wd ++ a1 :: a0 :: attrs ++ nlri /\
                      w1 * 256 + w0 = len wd /\ a1 * 256 + a0 = len attrs.
Proof.
  unfold update_sections. destruct body as [|w1 [|w0 r]]; try discriminate.
  destruct (splitN (u16 w1 w0) r) as [[wd' r1]|] eqn:E1; [|discriminate].
  destruct r1 as [|a1 [|a0 r2]]; try discriminate.
  destruct (splitN (u16 a1 a0) r2) as [[attrs' nlri']|] eqn:E2; [|discriminate].
  intros H; inversion H; subst; clear H.
  apply splitN_spec in E1 as [-> H1]. apply splitN_spec in E2 as [-> H2].
  exists w1, w0, a1, a0. unfold u16 in *. auto.
Qed.

(** the two length fields and the NLRI account for the whole body, and each section is valid *)
Lemma valid_update_sum c body : valid_update c body = true ->
  exists wd attrs nlri w1 w0 a1 a0,
    body = w1 :: w0 :: wd ++ a1 :: a0 :: attrs ++ nlri /\
    w1 * 256 + w0 = len wd /\ a1 * 256 + a0 = len attrs /\
    len body = 4 + len wd + len attrs + len nlri /\
    valid_prefixes4 c wd = true /\ valid_attrs c attrs = true /\ valid_prefixes4 c nlri = true.
Proof.
  unfold valid_update. destruct (update_sections body) as [[[wd attrs] nlri]|] eqn:E; [|discriminate].
  repeat rewrite andb_true_iff. intros [[H1 H2] H3].
  apply update_sections_spec in E as (w1 & w0 & a1 & a0 & -> & Hw & Ha).
  exists wd, attrs, nlri, w1, w0, a1, a0. repeat split; auto.
  repeat (rewrite ?len_cons, ?len_app). lia.
Qed.

Lemma step_prefix_spec m b t : step_prefix m b = Some t ->
  exists l p, b = l :: p ++ t /\ l <= m /\ len p = ceil8 l.
Proof.
  unfold step_prefix. destruct b as [|l r]; [discriminate|].
  destruct (l <=? m) eqn:L; [|discriminate].
  destruct (splitN (ceil8 l) r) as [[p t']|] eqn:E; [|discriminate].
  intros H; inversion H; subst. apply splitN_spec in E as [-> E]. exists l, p. repeat split; auto. lia.
Qed.

(** a valid prefix field is a concatenation of <length, ceil(length/8) octets> with length <= max *)
Definition enc_prefixes (ps : list (N * bytes)) : bytes := concat (map (fun lp => fst lp :: snd lp) ps).
Lemma walk_prefix_spec m : forall fuel b, walk fuel (step_prefix m) b = true ->
  exists ps, b = enc_prefixes ps /\ Forall (fun lp => fst lp <= m /\ len (snd lp) = ceil8 (fst lp)) ps.
Proof.
  induction fuel as [|f IH]; intros b H.
  - destruct b; [|discriminate]. exists []. split; [reflexivity | constructor].
  - destruct b as [|x r]; [exists []; split; [reflexivity | constructor]|].
    cbn [walk] in H. destruct (step_prefix m (x :: r)) as [t|] eqn:E; [|discriminate].
    apply step_prefix_spec in E as (l & p & E & Hl & Hp).
    apply IH in H as (ps & -> & Hps). exists ((l, p) :: ps). split.
    + rewrite E. unfold enc_prefixes. cbn. reflexivity.
    + constructor; auto.
Qed.

Lemma valid_prefixes4_spec b : valid_prefixes4 cfg0 b = true ->
  exists ps, b = enc_prefixes ps /\ Forall (fun lp => fst lp <= 32 /\ len (snd lp) = ceil8 (fst lp)) ps.
Proof. unfold valid_prefixes4, walk_all. cbn [w_addpath cfg0]. apply walk_prefix_spec. Qed.

(** the first attribute of a valid attribute field: one length octet iff the extended-length
    bit is clear, the value has exactly the announced size, flags fit the category of the type *)
Lemma valid_attrs_head c b : valid_attrs c b = true -> b <> [] ->
  exists fl ty v rest,
    ((bit 16 fl = false /\ b = fl :: ty :: len v :: v ++ rest) \/
     (bit 16 fl = true /\ exists l1 l0, b = fl :: ty :: l1 :: l0 :: v ++ rest /\ l1 * 256 + l0 = len v)) /\
    flags_ok fl ty = true /\ value_ok c ty v = true.
Proof.
  unfold valid_attrs. destruct b as [|fl r0]; [congruence|]. intros H _.
  cbn [length walk_attrs] in H. destruct r0 as [|ty r]; [discriminate|].
  destruct (bit 16 fl) eqn:B.
  - destruct r as [|l1 [|l0 r']]; try discriminate.
    destruct (splitN (u16 l1 l0) r') as [[v rest]|] eqn:E; [|discriminate].
    repeat rewrite andb_true_iff in H. destruct H as [[[_ Hf] Hv] _].
    apply splitN_spec in E as [-> E]. exists fl, ty, v, rest. split; [right|auto].
    split; [exact B|]. exists l1, l0. unfold u16 in E. auto.
  - destruct r as [|l r']; [discriminate|].
    destruct (splitN l r') as [[v rest]|] eqn:E; [|discriminate].
    repeat rewrite andb_true_iff in H. destruct H as [[[_ Hf] Hv] _].
    apply splitN_spec in E as [-> <-]. exists fl, ty, v, rest. split; [left; auto | auto].
Qed.

(** category table: what [flags_ok] means for the well-known and the optional non-transitive
    attributes (bits: 128 optional, 64 transitive, 32 partial, low four zero) *)
Lemma flags_ok_wellknown fl ty : fl < 256 -> In ty [1; 2; 3; 5; 6] -> flags_ok fl ty = true ->
  fl = 64 \/ fl = 80.
Proof.
  intros Hf Hin H. unfold flags_ok, bit in H.
  assert (Hc : category_of ty = WellKnown) by (cbn in Hin; intuition (subst; reflexivity)).
  rewrite Hc in H. lia.
Qed.
Lemma flags_ok_optnontrans fl ty : fl < 256 -> In ty [4; 9; 10; 14; 15] -> flags_ok fl ty = true ->
  fl = 128 \/ fl = 144.
Proof.
  intros Hf Hin H. unfold flags_ok, bit in H.
  assert (Hc : category_of ty = OptNonTrans) by (cbn in Hin; intuition (subst; reflexivity)).
  rewrite Hc in H. lia.
Qed.

(* ------------------------------------------------------------------------------------- *)
(** * framing lemma for the modelled constructors *)

Lemma be2 l : l < 65536 -> be 2 l = [l / 256; l mod 256].
Proof.
  intros H. cbn [be]. change (N.of_nat 1) with 1. change (N.of_nat 0) with 0.
  rewrite N.pow_1_r, N.pow_0_r, N.div_1_r.
  assert (E : (l / 256) mod 256 = l / 256) by lia. rewrite E. reflexivity.
Qed.

Lemma marker16_wf : wf_bytes marker16.
Proof. apply wf_bytesb_iff. vm_compute. reflexivity. Qed.

(** YMsg.header's output is accepted by the header check whenever it fits 4096 octets *)
Lemma unheader_framed ty body : len body + 19 <= 4096 ->
  unheader (marker16 ++ be 2 (len body + 19) ++ [ty] ++ body) = Some (ty, body).
Proof.
  intros H. set (l := len body + 19) in *.
  rewrite be2 by lia.
  change (marker16 ++ [l / 256; l mod 256] ++ [ty] ++ body)
    with (repeat 255 16 ++ (l / 256) :: (l mod 256) :: ty :: body).
  unfold unheader.
  rewrite (split_app (repeat 255 16)).
  assert (Hl : len (repeat 255 16 ++ l / 256 :: l mod 256 :: ty :: body) = l).
  { rewrite len_app. repeat rewrite len_cons. change (len (repeat 255 16)) with 16. unfold l. lia. }
  rewrite Hl.
  assert (C : forallb (N.eqb 255) (repeat 255 16) && (u16 (l / 256) (l mod 256) =? l) &&
              (19 <=? l) && (l <=? 4096) = true).
  { change (forallb (N.eqb 255) (repeat 255 16)) with true. unfold u16, l in *. lia. }
  rewrite C. reflexivity.
Qed.

Lemma framed_wf ty body : ty < 256 -> wf_bytes body ->
  wf_bytesb (marker16 ++ be 2 (len body + 19) ++ [ty] ++ body) = true.
Proof.
  intros Ht Hb. apply wf_bytesb_iff.
  apply wf_app; split; [apply marker16_wf|].
  apply wf_app; split; [apply wf_be|].
  apply wf_app; split; [constructor; [exact Ht | constructor] | exact Hb].
Qed.

Lemma header_inv ty body b : header ty body = Ok b ->
  b = marker16 ++ be 2 (len body + 19) ++ [ty] ++ body.
Proof. unfold header. destruct (65535 <? len body + 19); [discriminate|]. intros H; inversion H; reflexivity. Qed.

(* ------------------------------------------------------------------------------------- *)
(** * NOTIFICATION, KEEPALIVE, ROUTE-REFRESH (model/YMsg.v) *)

Lemma keepalive_valid : valid_msg keepalive_construct = true.
Proof. vm_compute. reflexivity. Qed.

(** guard: the data must be octets (true of every Python bytes object) and the message must fit
    the 4096-octet maximum; Notification.construct itself checks neither (see [notification_oversize]) *)
Lemma notification_valid e s d b :
  wf_bytes d -> len d + 21 <= 4096 ->
  notification_construct e s d = Ok b -> valid_msg b = true.
Proof.
  intros Hd Hl. unfold notification_construct.
  destruct ((255 <? e) || (255 <? s)) eqn:G; [discriminate|].
  intros H. apply header_inv in H. subst b.
  assert (Hlen : len ([e; s] ++ d) + 19 <= 4096).
  { rewrite len_app. change (len [e; s]) with 2. lia. }
  unfold valid_msg, valid_msg_with.
  rewrite framed_wf, unheader_framed; try exact Hlen.
  - reflexivity.
  - reflexivity.
  - apply wf_app; split; [|exact Hd]. repeat constructor; lia.
Qed.

Lemma notification_oversize :
  exists e s d b, wf_bytes d /\ notification_construct e s d = Ok b /\ valid_msg b = false.
Proof.
  exists 6, 2, (repeat 0 4076). eexists. split; [|split; [vm_compute; reflexivity|]].
  - apply wf_bytesb_iff. vm_compute. reflexivity.
  - vm_compute. reflexivity.
Qed.

Lemma rr_valid ty afi r safi b :
  rr_construct ty afi r safi = Ok b ->
  (ty = 5 -> valid_msg b = true) /\
  (ty = 128 -> valid_msg_with (mkw false false true) b = true).
Proof.
  unfold rr_construct.
  destruct ((65535 <? afi) || (255 <? r) || (255 <? safi) || (255 <? ty)) eqn:G; [discriminate|].
  intros H. apply header_inv in H. subst b.
  assert (Hlen : len (be 2 afi ++ [r] ++ [safi]) + 19 <= 4096) by (unfold len; cbn [be length app]; lia).
  assert (Hwf : wf_bytes (be 2 afi ++ [r] ++ [safi])).
  { apply wf_app; split; [apply wf_be|]. repeat constructor; lia. }
  split; intros ->; unfold valid_msg, valid_msg_with;
    (rewrite framed_wf, unheader_framed; [reflexivity | exact Hlen | reflexivity | exact Hwf]).
Qed.

(** any other type octet is NOT a valid message, even though the model constructs it *)
Lemma rr_other_type_rejected : exists ty afi r safi b,
  rr_construct ty afi r safi = Ok b /\ valid_msg_with (mkw false false true) b = false.
Proof. exists 6, 1, 0, 1. eexists. split; vm_compute; reflexivity. Qed.

(* ------------------------------------------------------------------------------------- *)
(** * IPv4 prefix lists (model/YPrefix4.v) and single attributes (model/YAttr.v) *)
From YV Require Import model.YPrefix4 model.YAttr.

Lemma walk_nil fuel step : Walker.walk fuel step [] = true.
Proof. destruct fuel; reflexivity. Qed.

(** a concatenation of elements each of which [step] consumes exactly is accepted *)
Lemma walk_concat step (elems : list bytes) :
  (forall e, In e elems -> e <> [] /\ forall rest, step (e ++ rest) = Some rest) ->
  forall fuel, (length (concat elems) <= fuel)%nat -> Walker.walk fuel step (concat elems) = true.
Proof.
  induction elems as [|e es IH]; intros H fuel Hf; cbn [concat].
  - apply walk_nil.
  - destruct (H e (or_introl eq_refl)) as [Hne Hs].
    destruct e as [|x e']; [congruence|].
    cbn [concat] in Hf. rewrite app_length in Hf. cbn [length] in Hf.
    destruct fuel as [|f]; [lia|].
    cbn [app Walker.walk]. change (x :: e' ++ concat es) with ((x :: e') ++ concat es). rewrite Hs.
    apply IH; [intros e0 He0; apply H; right; exact He0 | lia].
Qed.

Lemma walk_all_concat step (elems : list bytes) :
  (forall e, In e elems -> e <> [] /\ forall rest, step (e ++ rest) = Some rest) ->
  walk_all step (concat elems) = true.
Proof. intros H. unfold walk_all. apply walk_concat; [exact H | lia]. Qed.

Lemma v4_octets_ceil l : l <= 32 -> N.of_nat (v4_octets l) = ceil8 l.
Proof.
  intros H. unfold v4_octets, ceil8.
  destruct ((16 <? l) && (l <=? 24)) eqn:A; [cbn; lia|].
  destruct ((8 <? l) && (l <=? 16)) eqn:B; [cbn; lia|].
  destruct ((0 <? l) && (l <=? 8)) eqn:C; [cbn; lia|].
  destruct (l =? 0) eqn:D; cbn; lia.
Qed.

Lemma len_take_be4 k a : (k <= 4)%nat -> len (take k (be 4 a)) = N.of_nat k.
Proof. intros H. unfold len, take. rewrite firstn_length, length_be. lia. Qed.

Lemma v4_octets_le4 l : (v4_octets l <= 4)%nat.
Proof. unfold v4_octets. repeat match goal with |- context [if ?c then _ else _] => destruct c end; lia. Qed.

Lemma step_prefix_enc p rest : pfx_ok p = true ->
  step_prefix 32 (enc_prefix p ++ rest) = Some rest.
Proof.
  destruct p as [a l]. unfold pfx_ok, enc_prefix. cbn [fst snd]. intros H.
  assert (Hl : l <= 32) by lia.
  cbn [app step_prefix].
  destruct (l <=? 32) eqn:E; [|lia].
  rewrite <- (v4_octets_ceil l Hl), <- (len_take_be4 _ a (v4_octets_le4 l)), splitN_app. reflexivity.
Qed.

(** every prefix list Update.construct_prefix_v4 returns is a valid NLRI / withdrawn field:
    each prefix is its length followed by exactly ceil(length/8) octets *)
Lemma construct_prefix_v4_valid ps b : construct_prefix_v4 ps = Ok b -> valid_prefixes4 cfg0 b = true.
Proof.
  unfold construct_prefix_v4. destruct (forallb pfx_ok ps) eqn:F; [|discriminate].
  intros H; inversion H; subst b; clear H.
  unfold valid_prefixes4. cbn [w_addpath cfg0]. apply walk_all_concat.
  intros e He. apply in_map_iff in He as (p & <- & Hp).
  rewrite forallb_forall in F. split; [destruct p; discriminate|].
  intros rest. apply step_prefix_enc. apply F. exact Hp.
Qed.

Lemma construct_prefix_v4_ap_valid ps b :
  construct_prefix_v4_ap ps = Ok b -> valid_prefixes4 (mkw false true false) b = true.
Proof.
  unfold construct_prefix_v4_ap.
  destruct (forallb (fun p => (fst p <? 4294967296) && pfx_ok (snd p)) ps) eqn:F; [|discriminate].
  intros H; inversion H; subst b; clear H.
  unfold valid_prefixes4. cbn [w_addpath]. apply walk_all_concat.
  intros e He. apply in_map_iff in He as (p & <- & Hp).
  rewrite forallb_forall in F. specialize (F p Hp). rewrite andb_true_iff in F. destruct F as [_ F].
  unfold enc_aprefix. split.
  - cbn [be app]. discriminate.
  - intros rest. unfold step_prefix_ap. rewrite <- app_assoc.
    assert (E : split 4 (be 4 (fst p) ++ enc_prefix (snd p) ++ rest) = Some (be 4 (fst p), enc_prefix (snd p) ++ rest)).
    { rewrite <- (length_be 4 (fst p)) at 1. apply split_app. }
    rewrite E. apply step_prefix_enc. exact F.
Qed.

(** one attribute with a 1-octet length *)
Lemma attr1_valid c fl ty v : bit 16 fl = false -> flags_ok fl ty = true -> value_ok c ty v = true ->
  valid_attrs c (fl :: ty :: len v :: v) = true.
Proof.
  intros B F V. unfold valid_attrs. cbn [length walk_attrs]. rewrite B, splitN_all.
  cbn [existsb negb andb]. rewrite F, V. destruct (length v); reflexivity.
Qed.
(** one attribute with a 2-octet length and the extended-length bit *)
Lemma attr2_valid c fl ty v : len v < 65536 -> bit 16 fl = true -> flags_ok fl ty = true ->
  value_ok c ty v = true -> valid_attrs c (fl :: ty :: be 2 (len v) ++ v) = true.
Proof.
  intros L B F V. unfold valid_attrs. rewrite be2 by exact L. cbn [app length walk_attrs]. rewrite B.
  assert (E : u16 (len v / 256) (len v mod 256) = len v) by (unfold u16; lia).
  rewrite E, splitN_all. cbn [existsb negb andb]. rewrite F, V. destruct (length v); reflexivity.
Qed.

Lemma len_be k n : len (be k n) = N.of_nat k.
Proof. unfold len. rewrite length_be. reflexivity. Qed.

Ltac attr_inv H := match type of H with (if ?c then _ else _) = Ok _ => destruct c eqn:?; try discriminate H end;
                   inversion H; subst; clear H.

(** ORIGIN, NEXT_HOP, MED, LOCAL_PREF, ATOMIC_AGGREGATE, AGGREGATOR, ORIGINATOR_ID: the flags
    constant of the yabgp class (gen/Consts.v) fits the RFC category of its type code, the length
    octet equals the fixed size *)
Lemma construct_origin_valid c v b : construct_origin v = Ok b -> valid_attrs c b = true.
Proof. unfold construct_origin. intros H. attr_inv H. apply attr1_valid; reflexivity. Qed.
Lemma construct_nexthop_valid c a b : construct_nexthop a = Ok b -> valid_attrs c b = true.
Proof.
  unfold construct_nexthop. intros H. attr_inv H. apply attr1_valid; first [reflexivity | unfold value_ok; change c_ATTR_NextHop_ID with 3; cbv iota beta; rewrite len_be; reflexivity].
Qed.
Lemma construct_med_valid c v b : construct_med v = Ok b -> valid_attrs c b = true.
Proof.
  unfold construct_med, construct_u32. intros H. attr_inv H. apply attr1_valid; first [reflexivity | unfold value_ok; change c_ATTR_MED_ID with 4; cbv iota beta; rewrite len_be; reflexivity].
Qed.
Lemma construct_localpref_valid c v b : construct_localpref v = Ok b -> valid_attrs c b = true.
Proof.
  unfold construct_localpref, construct_u32. intros H. attr_inv H. apply attr1_valid; first [reflexivity | unfold value_ok; change c_ATTR_LocalPreference_ID with 5; cbv iota beta; rewrite len_be; reflexivity].
Qed.
Lemma construct_atomic_valid c b : construct_atomic = Ok b -> valid_attrs c b = true.
Proof. unfold construct_atomic. intros H. inversion H. reflexivity. Qed.
Lemma construct_originator_valid c a b : construct_originator a = Ok b -> valid_attrs c b = true.
Proof.
  unfold construct_originator. intros H. attr_inv H. apply attr1_valid; first [reflexivity | unfold value_ok; change c_ATTR_OriginatorID_ID with 9; cbv iota beta; rewrite len_be; reflexivity].
Qed.
Lemma construct_aggregator_valid asn4 ap cr asn a b :
  construct_aggregator asn4 asn a = Ok b -> valid_attrs (mkw asn4 ap cr) b = true.
Proof.
  unfold construct_aggregator. intros H. attr_inv H. apply attr1_valid; first [reflexivity | unfold value_ok; change c_ATTR_Aggregator_ID with 7; cbv iota beta; cbn [w_asn4];
  rewrite len_app, !len_be; destruct asn4; reflexivity].
Qed.

(** COMMUNITIES, CLUSTER_LIST, LARGE_COMMUNITY: multiples of 4 / 4 / 12 *)
Lemma len_concat_be4 {A} (f : A -> N) l : len (concat (map (fun x => be 4 (f x)) l)) = 4 * N.of_nat (length l).
Proof.
  induction l as [|x l IH]; [reflexivity|].
  cbn [map concat]. rewrite len_app, IH, len_be. cbn [length]. lia.
Qed.
Lemma construct_community_valid c l b : construct_community l = Ok b -> valid_attrs c b = true.
Proof.
  unfold construct_community. intros H.
  destruct (forallb (fun c0 => comm_value c0 <? two32) l); [|discriminate]. cbv zeta in H. attr_inv H.
  apply attr1_valid; first [reflexivity | unfold value_ok; change c_ATTR_Community_ID with 8; cbv iota beta;
  rewrite (len_concat_be4 comm_value); lia].
Qed.
Lemma construct_clusterlist_valid c l b : construct_clusterlist l = Ok b -> valid_attrs c b = true.
Proof.
  unfold construct_clusterlist. cbv zeta. intros H. attr_inv H.
  apply attr1_valid; first [reflexivity | unfold value_ok; change c_ATTR_ClusterList_ID with 10; cbv iota beta;
  rewrite (len_concat_be4 (fun x => x)); lia].
Qed.

(** AS_PATH.  ASPath.construct rejects a segment type outside 1..4 (fix: reject an undefined
    AS_PATH segment type when constructing), so whatever it returns has valid segment types. *)
Lemma len_concat_be k l : len (concat (map (be k) l)) = N.of_nat (length l) * N.of_nat k.
Proof.
  induction l as [|x l IH]; [reflexivity|].
  cbn [map concat]. rewrite len_app, IH, len_be. cbn [length]. lia.
Qed.
Lemma step_segment_enc (asn4 : bool) (s : N * list N) rest : 1 <= fst s <= 4 ->
  step_segment (if asn4 then 4 else 2) (enc_segment asn4 s ++ rest) = Some rest.
Proof.
  destruct s as [t asns]. cbn [fst]. intros Ht. unfold enc_segment. cbn [fst snd app step_segment].
  destruct ((1 <=? t) && (t <=? 4)) eqn:E; [|lia].
  assert (L : len asns * (if asn4 then 4 else 2) = len (concat (map (be (asn_size asn4)) asns))).
  { rewrite len_concat_be. unfold len, asn_size. destruct asn4; reflexivity. }
  rewrite L, splitN_app. reflexivity.
Qed.
Lemma check_segments_types asn4 segs u :
  check_segments asn4 segs = Ok u -> Forall (fun s => 1 <= fst s <= 4) segs.
Proof.
  induction segs as [|s segs IH]; intros H; [constructor|].
  cbn [check_segments] in H. unfold seg_type_ok in H.
  destruct ((1 <=? fst s) && (fst s <=? 4)) eqn:E; [|discriminate].
  destruct (segment_ok asn4 s); [|discriminate].
  constructor; [lia | exact (IH H)].
Qed.
Lemma construct_aspath_valid asn4 ap cr segs b :
  construct_aspath asn4 segs = Ok b -> valid_attrs (mkw asn4 ap cr) b = true.
Proof.
  unfold construct_aspath.
  destruct (check_segments asn4 segs) as [u| |] eqn:C; [|discriminate|discriminate].
  pose proof (check_segments_types asn4 segs u C) as G. cbv zeta.
  assert (V : value_ok (mkw asn4 ap cr) 2 (enc_aspath asn4 segs) = true).
  { unfold value_ok. cbv iota beta. cbn [w_asn4]. unfold enc_aspath. apply walk_all_concat.
    intros e He. apply in_map_iff in He as (s & <- & Hs). rewrite Forall_forall in G.
    split; [destruct s; discriminate|]. intros rest. apply step_segment_enc. apply G. exact Hs. }
  destruct (255 <? len (enc_aspath asn4 segs)) eqn:L.
  - destruct (65535 <? len (enc_aspath asn4 segs)) eqn:L2; [discriminate|].
    intros H; inversion H; subst b.
    change (c_ATTR_ASPath_FLAG + 16) with 80. change c_ATTR_ASPath_ID with 2.
    apply attr2_valid; [lia | reflexivity | reflexivity | exact V].
  - intros H; inversion H; subst b. unfold tlv1. change c_ATTR_ASPath_ID with 2.
    apply attr1_valid; [reflexivity | reflexivity | exact V].
Qed.
