(** C12 / C13: consequences of the single-connection regime *)
From YV Require Import lib.Base model.YWorld model.YProto gen.Consts gen.FsmGen model.YFraming
  model.YSession proof.SessionPres proof.SessionInv proof.SessionSym proof.SessionFraming
  proof.SessionC03 proof.SessionC13 proof.SessionRP proof.SessionSR proof.SessionSR2 proof.SessionCD
  proof.SessionSR3 proof.SessionSR4 proof.SessionSR5 proof.SessionTW proof.SessionSR6.
From Coq Require Import Arith PeanoNat.

Lemma filter_none {A} (P : A -> bool) l : (forall y, In y l -> P y = false) -> filter P l = [].
Proof.
  induction l as [|x l IH]; intros H; cbn; auto.
  rewrite (H x (or_introl eq_refl)). apply IH. intros y Hy. apply H. right. exact Hy.
Qed.
Lemma filter_le1 {A} (P : A -> bool) : forall l,
  (forall i j ki kj, nth_error l i = Some ki -> nth_error l j = Some kj -> P ki = true -> P kj = true -> i = j) ->
  (length (filter P l) <= 1)%nat.
Proof.
  induction l as [|x l IH]; intros H; cbn; [lia|].
  destruct (P x) eqn:Px; cbn.
  - rewrite filter_none; [cbn; lia|].
    intros y Hy. destruct (P y) eqn:Py; auto. exfalso.
    destruct (In_nth_error _ _ Hy) as [j Ej].
    specialize (H 0%nat (S j) x y eq_refl Ej Px Py). discriminate.
  - apply IH. intros i j ki kj Ei Ej Li Lj.
    specialize (H (S i) (S j) ki kj Ei Ej Li Lj). lia.
Qed.

Lemma SR_unique w : SR w -> forall i j ki kj,
  nth_error (w_conns w) i = Some ki -> nth_error (w_conns w) j = Some kj ->
  live ki = true -> live kj = true -> i = j.
Proof.
  intros (_ & _ & H) i j ki kj Ei Ej Li Lj.
  pose proof (H i ki Ei Li) as Pi. pose proof (H j kj Ej Lj) as Pj. unfold SRat in *.
  destruct (w_state w); try contradiction;
    repeat match goal with X : _ /\ _ |- _ => destruct X end; try congruence; lia.
Qed.

(** a connection that is open and not being closed is the one the FSM tracks, in a session state *)
Lemma SR_open_is_tracked w : SR w -> forall i k,
  nth_error (w_conns w) i = Some k -> c_st k = CConnected -> c_closing k = false ->
  w_proto w = Some i /\ sess (w_state w) = true.
Proof.
  intros (_ & _ & H) i k E Hc Hcl.
  assert (Hl : live k = true) by (unfold live; rewrite Hc, Hcl; reflexivity).
  specialize (H i k E Hl). unfold SRat in H.
  destruct (w_state w); cbn; try contradiction; auto;
    repeat match goal with X : _ /\ _ |- _ => destruct X end; congruence.
Qed.

Section Reach.
Variable D : decoders.

Lemma SR_boot cf capl : SR (step D (world0 cf capl) EBoot).
Proof.
  unfold step, world0. cbn [enabled]. cbv iota. sym_r.
  sr_goal. split; [split; intros _; reflexivity|split; [intros X; discriminate X|]].
  intros i k Hi Hl. destruct i as [|[|i]]; cbn in Hi; try discriminate. injection Hi as <-. split; reflexivity.
Qed.

Lemma Inv_boot cf capl : Inv (step D (world0 cf capl) EBoot).
Proof.
  split; [|split; [|split]].
  - apply CD_step, CD_world0.
  - apply TW_step, TW_world0.
  - apply RP_boot.
  - apply SR_boot.
Qed.

(** C12: along every event sequence after start-up that avoids the known departures, at most one
    connection is live, and any open connection that is not being closed is the tracked one *)
Theorem single_connection cf capl es :
  guarded_run D (step D (world0 cf capl) EBoot) es ->
  let w := run D (world0 cf capl) (EBoot :: es) in
  Inv w /\
  (forall i j ki kj, nth_error (w_conns w) i = Some ki -> nth_error (w_conns w) j = Some kj ->
     live ki = true -> live kj = true -> i = j) /\
  (forall i k, nth_error (w_conns w) i = Some k -> c_st k = CConnected -> c_closing k = false ->
     w_proto w = Some i /\ sess (w_state w) = true).
Proof.
  intros Hg. cbn [run fold_left].
  pose proof (Inv_run D es _ (Inv_boot cf capl) Hg) as H.
  split; [exact H|]. destruct H as (_ & _ & _ & Hsr).
  split; [apply SR_unique; auto|apply SR_open_is_tracked; auto].
Qed.
End Reach.

(** ---- C13: a stop in the regime, with no attempt pending, reaches the stopped state ---- *)
Lemma stop_no_new_attempt w : RP w -> SR w ->
  forall i k', nth_error (w_conns (fsm__close_connection (stop_w1 w))) i = Some k' -> c_st k' = CConnecting ->
  exists k, nth_error (w_conns w) i = Some k /\ c_st k = CConnecting.
Proof.
  unfold stop_w1. sr_intro w.
  match goal with H : ?s <> StActive |- _ => destruct s end;
  [ tq_use | tq_use | congruence | sr_sess | sr_sess | sr_sess ];
  sym_r; cbn; norm_nth;
  let i := fresh "i" in let k0 := fresh "k0" in let Hi := fresh "Hi" in let Hs := fresh "Hs" in
  intros i k0 Hi Hs; sr_lookup Hi;
  first [ injection Hi as <-; cbn in Hs; decide_st; discriminate
        | eexists; split; [exact Hi|exact Hs] ].
Qed.

Theorem stop_reaches_stopped w : timers_wf w -> RP w -> SR w -> no_attempt w -> Stopped (peering_manual_stop w).
Proof.
  intros Hwf Hrp Hsr Hna.
  destruct (stop_effects w Hwf) as (Hs & Ha & Hn & _).
  unfold Stopped. repeat split; auto; try apply Hn.
  rewrite stop_conns. apply Forall_forall. intros k' Hin.
  destruct (In_nth_error _ _ Hin) as [i Ei].
  assert (Hnc : c_st k' <> CConnecting).
  { intros X. destruct (stop_no_new_attempt w Hrp Hsr i k' Ei X) as (k & Ek & Hk). exact (Hna i k Ek Hk). }
  split; [exact Hnc|].
  intros Hc. destruct (c_closing k') eqn:Hcl; auto. exfalso.
  assert (Hl : live k' = true) by (unfold live; rewrite Hc, Hcl; reflexivity).
  destruct (stop_conns_live w Hrp Hsr i k' Ei Hl) as [_ B]. congruence.
Qed.
