(** C07: label stacks of depth one and route distinguishers decode to themselves. *)
From YV Require Import lib.Base gen.Consts model.YMp model.YLabel proof.MpBytesLemmas.
From Coq Require Import ZArith ZifyBool ZifyNat ZifyN.
Ltac Zify.zify_post_hook ::= Z.to_euclidean_division_equations.

Lemma be3_unfold x : be 3 x = [(x / 65536) mod 256; (x / 256) mod 256; x mod 256].
Proof.
  cbn [be]. change (256 ^ N.of_nat 2) with 65536. change (256 ^ N.of_nat 1) with 256.
  change (256 ^ N.of_nat 0) with 1. rewrite N.div_1_r. reflexivity.
Qed.

Lemma construct_labels_single l : 0 < l < 2 ^ 20 -> construct_labels [l] = Ok (be 3 (l * 16 + 1)).
Proof.
  intros H. cbn [construct_labels]. destruct (l =? 0) eqn:E; [apply N.eqb_eq in E; lia|].
  unfold pack24. destruct (2 ^ 32 <=? l * 16 + 1) eqn:E2; [apply N.leb_le in E2; lia | reflexivity].
Qed.

Lemma parse_labels_single l rest : 0 < l < 2 ^ 20 -> parse_labels (be 3 (l * 16 + 1) ++ rest) = [l].
Proof.
  intros H. rewrite be3_unfold. cbn [app parse_labels].
  set (x := l * 16 + 1).
  assert (Hx : (x / 65536) mod 256 * 65536 + (x / 256) mod 256 * 256 + x mod 256 = x) by (unfold x; lia).
  rewrite Hx.
  assert (H2 : x mod 2 =? 1 = true) by (apply N.eqb_eq; unfold x; lia).
  rewrite H2. f_equal. unfold x. lia.
Qed.

(** in-range route distinguishers: type 0 (2-octet ASN : 4-octet number), type 2 (4-octet ASN
    above 65535 : 2-octet number), type 1 (IPv4 address : 2-octet number) *)
Definition wf_rd (r : rd) : Prop :=
  match r with
  | RdAs asn an => (asn <= 65535 /\ an < 2 ^ 32) \/ (65535 < asn < 2 ^ 32 /\ an <= 65535)
  | RdIp ip an => ip < 2 ^ 32 /\ an <= 65535
  end.

Lemma parse_rd_fields t x y (kx ky : nat) :
  (kx + ky = 6)%nat -> t < 65536 ->
  parse_rd (be 2 t ++ be kx x ++ be ky y) =
  if t =? c_BGP_ROUTE_DISTINGUISHER_TYPE_0 then
    Ok (PRd (RdAs (unbe (take 2 (be kx x ++ be ky y))) (unbe (drop 2 (be kx x ++ be ky y)))))
  else if t =? c_BGP_ROUTE_DISTINGUISHER_TYPE_1 then
    Ok (PRd (RdIp (unbe (take 4 (be kx x ++ be ky y))) (unbe (drop 4 (be kx x ++ be ky y)))))
  else if t =? c_BGP_ROUTE_DISTINGUISHER_TYPE_2 then
    Ok (PRd (RdAs (unbe (take 4 (be kx x ++ be ky y))) (unbe (drop 4 (be kx x ++ be ky y)))))
  else Ok POther.
Proof.
  intros Hk Ht. unfold parse_rd, take.
  rewrite firstn_app_len by apply length_be. rewrite length_be. cbn [Nat.eqb negb].
  rewrite unbe_be by exact Ht.
  assert (Hs : slice 2 8 (be 2 t ++ be kx x ++ be ky y) = be kx x ++ be ky y).
  { unfold slice. rewrite skipn_app_len by apply length_be.
    apply firstn_all2. rewrite app_length, !length_be. lia. }
  rewrite Hs.
  assert (Hl : Nat.eqb (length (be kx x ++ be ky y)) 6 = true).
  { rewrite app_length, !length_be. apply Nat.eqb_eq. exact Hk. }
  rewrite Hl. reflexivity.
Qed.

Lemma rd_roundtrip r : wf_rd r ->
  exists b, construct_rd r = Ok b /\ length b = 8%nat /\ parse_rd b = Ok (PRd r).
Proof.
  destruct r as [asn an | ip an]; cbn [wf_rd construct_rd].
  - intros [(Ha & Hn) | (Ha & Hn)].
    + destruct (asn <=? 65535) eqn:E1; [|apply N.leb_gt in E1; lia].
      destruct (2 ^ 32 <=? an) eqn:E2; [apply N.leb_le in E2; lia|].
      eexists. split; [reflexivity|]. split; [rewrite !app_length, !length_be; reflexivity|].
      rewrite parse_rd_fields by (try reflexivity; vm_compute; reflexivity).
      change (c_BGP_ROUTE_DISTINGUISHER_TYPE_0 =? c_BGP_ROUTE_DISTINGUISHER_TYPE_0) with true. cbv iota.
      unfold take, drop. rewrite firstn_app_len, skipn_app_len by apply length_be.
      rewrite !unbe_be; [reflexivity | exact Hn | change (256 ^ N.of_nat 2) with 65536; lia].
    + destruct (asn <=? 65535) eqn:E1; [apply N.leb_le in E1; lia|].
      destruct ((2 ^ 32 <=? asn) || (65535 <? an)) eqn:E2; [exfalso; lia|].
      eexists. split; [reflexivity|]. split; [rewrite !app_length, !length_be; reflexivity|].
      rewrite parse_rd_fields by (try reflexivity; vm_compute; reflexivity).
      change (c_BGP_ROUTE_DISTINGUISHER_TYPE_2 =? c_BGP_ROUTE_DISTINGUISHER_TYPE_0) with false.
      change (c_BGP_ROUTE_DISTINGUISHER_TYPE_2 =? c_BGP_ROUTE_DISTINGUISHER_TYPE_1) with false.
      change (c_BGP_ROUTE_DISTINGUISHER_TYPE_2 =? c_BGP_ROUTE_DISTINGUISHER_TYPE_2) with true. cbv iota.
      unfold take, drop. rewrite firstn_app_len, skipn_app_len by apply length_be.
      rewrite !unbe_be; [reflexivity | change (256 ^ N.of_nat 2) with 65536; lia | change (256 ^ N.of_nat 4) with (2 ^ 32); lia].
  - intros (Hi & Hn).
    destruct (65535 <? an) eqn:E1; [apply N.ltb_lt in E1; lia|].
    eexists. split; [reflexivity|]. split; [rewrite !app_length, !length_be; reflexivity|].
    rewrite parse_rd_fields by (try reflexivity; vm_compute; reflexivity).
    change (c_BGP_ROUTE_DISTINGUISHER_TYPE_1 =? c_BGP_ROUTE_DISTINGUISHER_TYPE_0) with false.
    change (c_BGP_ROUTE_DISTINGUISHER_TYPE_1 =? c_BGP_ROUTE_DISTINGUISHER_TYPE_1) with true. cbv iota.
    unfold take, drop. rewrite firstn_app_len, skipn_app_len by apply length_be.
    rewrite !unbe_be; [reflexivity | change (256 ^ N.of_nat 2) with 65536; lia | exact Hi].
Qed.

(** defects of the label codec, on concrete inputs *)
Lemma refuted_label_zero_no_bottom_of_stack :
  construct_labels [0] = Ok [0; 0; 0] /\
  parse_labels ([0; 0; 0] ++ [0; 0; 0; 100; 0; 0; 0; 1]) = [0; 0; 409600].
Proof. split; vm_compute; reflexivity. Qed.
