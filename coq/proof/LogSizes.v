(** C20 -- record sizes.  Three results about the message-log model (model/YLog.v):

    1. octet level: `for line in fh: pass` ends with the LAST line of the text, for every length
       of that line and of the text before it ([last_line_complete], [last_line_fragment]);
       a reader that only looks at the last B octets of the file does not ([block_reader_differs]);
    2. the octet-level recovery ([recover_octets]: newest file with an octet, its last line, branch
       on the first character, json.loads / eval left abstract) is exactly the abstract [scan] on
       the abstraction of the directory ([recover_refines]);
    3. for the repaired code, neither the sizes of the records nor the rotation threshold have any
       influence on what the auditor reads (the sequence of lines of all files, refusals, number
       of reported events) or on the next sequence number: they only decide in which file a line
       lands ([sizes_irrelevant]). *)
From YV Require Import lib.Base model.YLog spec.LogSpec proof.LogProofs.
From Coq Require Import ZArith Lia ZifyBool ZifyNat ZifyN.

(** ---- 1. octets ---- *)
(** the text is empty or ends with a newline *)
Definition terminated (b : bytes) : Prop := last b 10 = 10.

Lemma terminated_tail x a : terminated (x :: a) -> terminated a.
Proof. unfold terminated. destruct a; [reflexivity | intros H; exact H]. Qed.

Lemma terminated_single x a : terminated (x :: a) -> (x =? 10) = false -> a <> [].
Proof.
  unfold terminated. intros H E ->. cbn [last] in H. subst x. discriminate.
Qed.

Lemma lines_of_nonnil b : b <> [] -> lines_of b <> [].
Proof.
  destruct b as [|x r]; [contradiction|]. intros _. cbn [lines_of].
  destruct (x =? 10); [discriminate|]. destruct (lines_of r); discriminate.
Qed.

Lemma lines_of_pieces b : Forall (fun l => l <> []) (lines_of b).
Proof.
  induction b as [|x r IH]; cbn [lines_of]; [constructor|].
  destruct (x =? 10).
  - constructor; [discriminate | exact IH].
  - destruct (lines_of r) as [|l ls].
    + constructor; [discriminate | constructor].
    + inversion IH; subst. constructor; [discriminate | assumption].
Qed.

Lemma lines_of_app a b : terminated a -> lines_of (a ++ b) = lines_of a ++ lines_of b.
Proof.
  induction a as [|x a IH]; intros Ht; [reflexivity|].
  cbn [app lines_of]. rewrite (IH (terminated_tail _ _ Ht)).
  destruct (x =? 10) eqn:E; [reflexivity|].
  pose proof (lines_of_nonnil a (terminated_single _ _ Ht E)) as Hn.
  destruct (lines_of a); [contradiction | reflexivity].
Qed.

Lemma lines_of_line l : ~ In 10 l -> lines_of (l ++ [10]) = [l ++ [10]].
Proof.
  induction l as [|x l IH]; intros Hn; [reflexivity|].
  cbn [app lines_of]. rewrite IH by (intros H; apply Hn; right; exact H).
  destruct (x =? 10) eqn:E; [|reflexivity].
  exfalso. apply Hn. left. apply N.eqb_eq in E. exact E.
Qed.

Lemma lines_of_fragment l : ~ In 10 l -> l <> [] -> lines_of l = [l].
Proof.
  induction l as [|x l IH]; intros Hn Hne; [contradiction|].
  cbn [lines_of].
  destruct (x =? 10) eqn:E.
  - exfalso. apply Hn. left. apply N.eqb_eq in E. exact E.
  - destruct l as [|y l]; [reflexivity|].
    rewrite IH; [reflexivity | intros H; apply Hn; right; exact H | discriminate].
Qed.

(** whatever precedes it and however long it is, the last terminated line is what the loop ends
    with *)
Lemma last_line_complete pre l :
  terminated pre -> ~ In 10 l -> last_line (pre ++ l ++ [10]) = l ++ [10].
Proof.
  intros Ht Hn. unfold last_line. rewrite (lines_of_app _ _ Ht), (lines_of_line _ Hn).
  apply last_last.
Qed.

(** ... and an unterminated fragment after the last newline is what the loop ends with *)
Lemma last_line_fragment pre l :
  terminated pre -> ~ In 10 l -> l <> [] -> last_line (pre ++ l) = l.
Proof.
  intros Ht Hn Hne. unfold last_line. rewrite (lines_of_app _ _ Ht), (lines_of_fragment _ Hn Hne).
  apply last_last.
Qed.

Lemma last_line_any_length pre l : terminated pre -> ~ In 10 l ->
  last_line (pre ++ l ++ [10]) = l ++ [10] /\ (l <> [] -> last_line (pre ++ l) = l).
Proof. intros Ht Hn. split; [apply last_line_complete | apply last_line_fragment]; assumption. Qed.

Lemma last_line_empty : last_line [] = [].
Proof. reflexivity. Qed.

(** a reader that looks at the last [B] octets of the file only: with a last line of B+1 octets it
    is handed text that does not start with the record's first character (here B = 4096, a
    2-octet record followed by one of 4097 octets); with B+1 octets it would still be right *)
Definition block_tail (B : nat) (b : bytes) : bytes := skipn (length b - B) b.

Lemma block_reader_differs :
  let b := [123; 125; 10] ++ 123 :: rep 120 4094 ++ [125; 10] in
  len (last_line b) = 4097 /\ hd 0 (last_line b) = 123 /\
  hd 0 (last_line (block_tail 4096 b)) = 120 /\
  last_line (block_tail 4097 b) = last_line b.
Proof. vm_compute. repeat split; reflexivity. Qed.

(** ---- 2. the octet-level recovery is the abstract scan ---- *)
Lemma recover_refines pj pl fs :
  recover_octets pj pl fs = scan (map (abs_file pj pl) fs).
Proof.
  unfold recover_octets. induction fs as [|f r IH]; [reflexivity|].
  cbn [newest_line map scan abs_file flines]. unfold last_line.
  pose proof (lines_of_pieces f) as Hp.
  destruct (lines_of f) as [|l0 ls0].
  - cbn [last map rev]. exact IH.
  - destruct (@exists_last _ (l0 :: ls0)) as (ls & l & E); [discriminate|].
    rewrite E in *. rewrite last_last, map_app, rev_app_distr. cbn [map rev app].
    apply Forall_app in Hp. destruct Hp as (_ & Hl). inversion Hl; subst.
    destruct l; [contradiction | reflexivity].
Qed.

(** ---- 3. sizes and thresholds only decide where a line lands ---- *)
Inductive cutclass := CNone | CAll | CNoNl | CMid.

(** how a crash cuts the write in progress: nothing on disk / everything / everything but the
    newline / a proper part of the record *)
Definition cut_class (sz k : N) : cutclass :=
  if k =? 0 then CNone else if sz <=? k then CAll else if k =? sz - 1 then CNoNl else CMid.

(** an event without its sizes *)
Inductive shape :=
| SEv (cb : callback) (ok : bool)
| SRestart
| SCrash (cb : callback) (ok : bool) (cc : cutclass).

Definition shape_of (e : event) : shape :=
  match e with
  | Ev cb ok _ => SEv cb ok
  | Restart => SRestart
  | Crash cb ok sz k => SCrash cb ok (cut_class sz k)
  end.

(** the log as one sequence of lines (newest first) with the flag "the newest line is not
    terminated": no files, no sizes *)
Record astate := AState { alines : list line; aopen : bool; aalive : option N; aexits : N; anrep : N }.

Definition a_append (l : line) (ls : list line) (op : bool) : list line :=
  if op then Torn :: tl ls else l :: ls.

Definition a_cut (l : line) (cc : cutclass) (ls : list line) (op : bool) : list line * bool :=
  match cc with
  | CNone => (ls, op)
  | CAll => (a_append l ls op, false)
  | CNoNl => (if op then Torn :: tl ls else l :: ls, true)
  | CMid => (if op then Torn :: tl ls else Torn :: ls, true)
  end.

Definition a_last (ls : list line) : option N :=
  match ls with [] => Some 0 | l :: _ => seq_of_line l end.

Definition a_init (a : astate) : astate :=
  match a_last (alines a) with
  | None => AState (alines a) (aopen a) None (aexits a + 1) (anrep a)
  | Some s => AState (alines a) (aopen a) (Some (s + 1)) (aexits a) (anrep a)
  end.

Definition a_step (c : cfg) (a : astate) (s : shape) : astate :=
  match s with
  | SEv cb ok =>
      if writes cb then
        match aalive a with
        | None => a
        | Some n => AState (a_append (the_line c cb ok n) (alines a) (aopen a)) false (Some (n + 1))
                           (aexits a) (anrep a + 1)
        end
      else a
  | SRestart => a_init a
  | SCrash cb ok cc =>
      match aalive a with
      | None => a_init a
      | Some n =>
          if writes cb then
            a_init (AState (fst (a_cut (the_line c cb ok n) cc (alines a) (aopen a)))
                           (snd (a_cut (the_line c cb ok n) cc (alines a) (aopen a))) None (aexits a)
                           (anrep a + match cc with CAll => 1 | _ => 0 end))
          else a_init a
      end
  end.

Definition abs (st : state) : astate :=
  AState (dlines (disk st)) (fopen (head_file (disk st))) (alive st) (exits st) (nrep st).

(** only the newest file can end in an unterminated line, and then it has a line *)
Definition okd (d : list file) : Prop :=
  (fopen (head_file d) = true -> flines (head_file d) <> []) /\
  Forall (fun g => fopen g = false) (tl d).

Lemma dlines_head d : dlines d = flines (head_file d) ++ dlines (tl d).
Proof. destruct d; reflexivity. Qed.

Lemma dlines_set_head f d : dlines (set_head f d) = flines f ++ dlines (tl d).
Proof. destruct d; unfold dlines; cbn [set_head map concat tl]; reflexivity. Qed.

Lemma head_set_head f d : head_file (set_head f d) = f.
Proof. destruct d; reflexivity. Qed.

Lemma tl_set_head f d : tl (set_head f d) = tl d.
Proof. destruct d; reflexivity. Qed.

Lemma app_tl {A} (ls r : list A) : ls <> [] -> tl ls ++ r = tl (ls ++ r).
Proof. destruct ls; [contradiction | reflexivity]. Qed.

Lemma scan_dlines d : scan d = a_last (dlines d).
Proof.
  induction d as [|f r IH]; [reflexivity|].
  unfold dlines in *. cbn [scan map concat]. destruct (flines f); [exact IH | reflexivity].
Qed.

Lemma a_init_alive ls op a a' ex nr : a_init (AState ls op a ex nr) = a_init (AState ls op a' ex nr).
Proof. reflexivity. Qed.

Lemma abs_init c d a ex nr : fix_scan c = true -> okd d ->
  okd (disk (init c (State d a ex nr))) /\
  abs (init c (State d a ex nr)) = a_init (AState (dlines d) (fopen (head_file d)) a ex nr).
Proof.
  intros Hc Hd. unfold init, get_last. rewrite Hc. cbn [disk exits nrep].
  rewrite scan_dlines. unfold a_init. cbn [alines aopen aexits anrep].
  destruct (a_last (dlines d)).
  - destruct d as [|f r].
    + split; [split; [discriminate | constructor] | reflexivity].
    + split; [exact Hd | reflexivity].
  - split; [exact Hd | reflexivity].
Qed.

(** appending to the newest file = appending to the sequence *)
Lemma append_lines l sz d : okd d ->
  flines (append l sz (head_file d)) ++ dlines (tl d) = a_append l (dlines d) (fopen (head_file d)) /\
  fopen (append l sz (head_file d)) = false.
Proof.
  intros (Ho & _). rewrite (dlines_head d). unfold append, a_append.
  destruct (fopen (head_file d)); cbn [flines fopen]; split; try reflexivity.
  cbn [app]. rewrite app_tl by (apply Ho; reflexivity). reflexivity.
Qed.

Lemma okd_set_head f d : okd d -> (fopen f = true -> flines f <> []) -> okd (set_head f d).
Proof.
  intros (_ & Ht) Hf. split; [rewrite head_set_head; exact Hf | rewrite tl_set_head; exact Ht].
Qed.

Lemma okd_rotate d : okd d -> fopen (head_file d) = false -> d <> [] -> okd (empty_file :: d).
Proof.
  intros (_ & Ht) Hc Hne. split; [discriminate|]. destruct d as [|f r]; [contradiction|].
  cbn [tl head_file] in *. constructor; assumption.
Qed.

Lemma set_head_nonnil f d : set_head f d <> [].
Proof. destruct d; discriminate. Qed.

Lemma callback_abs c thr cb ok sz st : okd (disk st) ->
  okd (disk (callback_step c thr cb ok sz st)) /\
  abs (callback_step c thr cb ok sz st) = a_step c (abs st) (SEv cb ok).
Proof.
  destruct st as [d a ex nr]. cbn [disk]. intros Hd.
  unfold callback_step, a_step, abs. cbn [disk alive exits nrep aalive alines aopen aexits anrep].
  destruct (writes cb); [|split; [exact Hd | reflexivity]].
  unfold write_msg. cbn [alive disk exits nrep].
  destruct a as [n|].
  - destruct (append_lines (the_line c cb ok n) sz d Hd) as (El & Eo).
    set (f' := append (the_line c cb ok n) sz (head_file d)) in *.
    assert (Hd' : okd (set_head f' d)) by (apply okd_set_head; [exact Hd | rewrite Eo; discriminate]).
    assert (Ea : abs (State (set_head f' d) (Some (n + 1)) ex (nr + 1)) =
                 AState (a_append (the_line c cb ok n) (dlines d) (fopen (head_file d))) false
                        (Some (n + 1)) ex (nr + 1)).
    { unfold abs. cbn [disk alive exits nrep]. rewrite dlines_set_head, head_set_head, El, Eo. reflexivity. }
    destruct (checks_size cb); [|split; [exact Hd' | exact Ea]].
    unfold check_file_size. cbn [alive disk exits nrep].
    destruct (thr <=? fsize (head_file (set_head f' d))); [|split; [exact Hd' | exact Ea]].
    split.
    + apply okd_rotate; [exact Hd' | rewrite head_set_head; exact Eo | apply set_head_nonnil].
    + rewrite <- Ea. unfold abs. cbn [disk alive exits nrep head_file].
      rewrite head_set_head, Eo. reflexivity.
  - destruct (checks_size cb); (split; [exact Hd | reflexivity]).
Qed.

Lemma cut_lines l sz k d : okd d ->
  let f' := cut_append l sz k (head_file d) in
  flines f' ++ dlines (tl d) = fst (a_cut l (cut_class sz k) (dlines d) (fopen (head_file d))) /\
  fopen f' = snd (a_cut l (cut_class sz k) (dlines d) (fopen (head_file d))) /\
  (fopen f' = true -> flines f' <> []).
Proof.
  intros Hd. cbn zeta. unfold cut_append, cut_class.
  destruct (k =? 0).
  - cbn [a_cut fst snd]. rewrite <- dlines_head. repeat split. apply Hd.
  - destruct (sz <=? k).
    + cbn [a_cut fst snd]. destruct (append_lines l sz d Hd) as (El & Eo).
      rewrite El, Eo. repeat split. discriminate.
    + destruct Hd as (Ho & _). rewrite (dlines_head d).
      destruct (fopen (head_file d)) eqn:Eop.
      * destruct (k =? sz - 1); cbn [a_cut fst snd flines fopen app];
          rewrite app_tl by (apply Ho; reflexivity); repeat split; discriminate.
      * destruct (k =? sz - 1); cbn [a_cut fst snd flines fopen app]; repeat split; discriminate.
Qed.

Lemma crash_count sz k :
  (if (sz <=? k) && negb (k =? 0) then 1 else 0) = match cut_class sz k with CAll => 1 | _ => 0 end.
Proof.
  unfold cut_class. destruct (k =? 0); [rewrite andb_false_r; reflexivity|].
  destruct (sz <=? k); [reflexivity|]. destruct (k =? sz - 1); reflexivity.
Qed.

Lemma step_abs c thr st e : fix_scan c = true -> okd (disk st) ->
  okd (disk (step c thr st e)) /\ abs (step c thr st e) = a_step c (abs st) (shape_of e).
Proof.
  intros Hc Hd. destruct e as [cb ok sz | | cb ok sz k]; cbn [step shape_of].
  - apply callback_abs; exact Hd.
  - destruct st as [d a ex nr]. unfold kill. cbn [disk exits nrep] in *.
    destruct (abs_init c d None ex nr Hc Hd) as (H1 & H2). split; [exact H1|].
    rewrite H2. unfold a_step, abs. cbn [disk alive exits nrep]. apply a_init_alive.
  - destruct st as [d a ex nr]. cbn [disk] in Hd.
    unfold crash_write, kill, a_step, abs.
    cbn [disk alive exits nrep aalive alines aopen aexits anrep].
    destruct a as [n|].
    + destruct (writes cb).
      * cbn [disk alive exits nrep].
        destruct (cut_lines (the_line c cb ok n) sz k d Hd) as (El & Eo & Hn). cbn zeta in *.
        set (f' := cut_append (the_line c cb ok n) sz k (head_file d)) in *.
        assert (Hd' : okd (set_head f' d)) by (apply okd_set_head; assumption).
        destruct (abs_init c (set_head f' d) None ex
                    (nr + (if (sz <=? k) && negb (k =? 0) then 1 else 0)) Hc Hd') as (H1 & H2).
        split; [exact H1|]. etransitivity; [exact H2|].
        rewrite dlines_set_head, head_set_head, El, Eo, crash_count. reflexivity.
      * cbn [disk alive exits nrep].
        destruct (abs_init c d None ex nr Hc Hd) as (H1 & H2). split; [exact H1|].
        etransitivity; [exact H2|]. apply a_init_alive.
    + cbn [disk alive exits nrep].
      destruct (abs_init c d None ex nr Hc Hd) as (H1 & H2). split; [exact H1 | exact H2].
Qed.

Lemma run_abs c thr : fix_scan c = true -> forall h st, okd (disk st) ->
  okd (disk (fold_left (step c thr) h st)) /\
  abs (fold_left (step c thr) h st) = fold_left (a_step c) (map shape_of h) (abs st).
Proof.
  intros Hc. induction h as [|e r IH]; intros st Hd; cbn [fold_left map].
  - split; [exact Hd | reflexivity].
  - destruct (step_abs c thr st e Hc Hd) as (H1 & H2).
    destruct (IH _ H1) as (H3 & H4). split; [exact H3|]. rewrite H4, H2. reflexivity.
Qed.

Lemma start_okd c : fix_scan c = true -> okd (disk (start_on c [])) /\
  abs (start_on c []) = a_init (AState [] false None 0 0).
Proof.
  intros Hc. unfold start_on.
  apply (abs_init c [] None 0 0 Hc). split; [discriminate | constructor].
Qed.

(** what the auditor reads is a function of the size-free state *)
Definition a_olines (a : astate) : list oline :=
  rev (if aopen a then match map oline_of (alines a) with _ :: r => OBad :: r | [] => [] end
       else map oline_of (alines a)).

Lemma observe_abs st : okd (disk st) -> all_lines (observe st) = a_olines (abs st).
Proof.
  destruct st as [d a ex nr]. cbn [disk]. intros (Ho & Ht).
  unfold all_lines, observe, a_olines, abs. cbn [files disk alines aopen].
  destruct d as [|f r]; [reflexivity|].
  cbn [head_file tl] in *. cbn [map rev]. rewrite concat_app. cbn [concat]. rewrite app_nil_r.
  rewrite (closed_olines _ Ht), concat_rev_rev, <- concat_map.
  change (concat (map flines r)) with (dlines r).
  unfold dlines at 2 3. cbn [map concat]. fold (dlines r).
  unfold file_olines. destruct (fopen f).
  - destruct (flines f) as [|l t]; [exfalso; apply Ho; reflexivity|].
    cbn [map app]. rewrite map_app. cbn [rev]. rewrite rev_app_distr, app_assoc. reflexivity.
  - rewrite map_app, rev_app_distr. reflexivity.
Qed.

(** MAIN: two runs of the repaired code whose histories differ only in the sizes of the records,
    in the offsets at which crashes cut (within the same class) and in the rotation threshold
    leave the same sequence of lines, the same refusals, the same number of reported events and
    the same next sequence number; in particular the audit has the same outcome *)
Lemma sizes_irrelevant c thr1 thr2 h1 h2 :
  fix_scan c = true -> map shape_of h1 = map shape_of h2 ->
  all_lines (observe (run c thr1 h1)) = all_lines (observe (run c thr2 h2)) /\
  refused (observe (run c thr1 h1)) = refused (observe (run c thr2 h2)) /\
  reported (observe (run c thr1 h1)) = reported (observe (run c thr2 h2)) /\
  alive (run c thr1 h1) = alive (run c thr2 h2) /\
  audit (observe (run c thr1 h1)) = audit (observe (run c thr2 h2)).
Proof.
  intros Hc Hs. unfold run, run_from.
  destruct (start_okd c Hc) as (H0 & _).
  destruct (run_abs c thr1 Hc h1 _ H0) as (Hd1 & Ha1).
  destruct (run_abs c thr2 Hc h2 _ H0) as (Hd2 & Ha2).
  assert (E : abs (fold_left (step c thr1) h1 (start_on c [])) =
              abs (fold_left (step c thr2) h2 (start_on c []))) by (rewrite Ha1, Ha2, Hs; reflexivity).
  set (s1 := fold_left (step c thr1) h1 (start_on c [])) in *.
  set (s2 := fold_left (step c thr2) h2 (start_on c [])) in *.
  assert (El : all_lines (observe s1) = all_lines (observe s2))
    by (rewrite (observe_abs _ Hd1), (observe_abs _ Hd2), E; reflexivity).
  assert (Ee : exits s1 = exits s2) by (apply (f_equal aexits) in E; exact E).
  assert (En : nrep s1 = nrep s2) by (apply (f_equal anrep) in E; exact E).
  assert (Ea : alive s1 = alive s2) by (apply (f_equal aalive) in E; exact E).
  assert (Er : refused (observe s1) = refused (observe s2))
    by (unfold observe; cbn [refused]; rewrite Ee; reflexivity).
  assert (Ep : reported (observe s1) = reported (observe s2))
    by (unfold observe; cbn [reported]; exact En).
  repeat split; try assumption.
  unfold audit. rewrite El, Er, Ep. reflexivity.
Qed.

(** the shape forgets sizes only: e.g. a 52-octet and a 70000-octet record, a cut 10 octets or
    69000 octets into it, thresholds below and above either *)
Lemma shape_example :
  map shape_of [Ev SendOpen true 52; Ev UpdateReceived true 147; Crash UpdateReceived true 147 10; Restart] =
  map shape_of [Ev SendOpen true 70000; Ev UpdateReceived true 4097; Crash UpdateReceived true 70000 69000; Restart].
Proof. vm_compute. reflexivity. Qed.

Lemma sizes_irrelevant_fixed thr1 thr2 h1 h2 :
  map shape_of h1 = map shape_of h2 ->
  all_lines (observe (run cfg_fixed thr1 h1)) = all_lines (observe (run cfg_fixed thr2 h2)) /\
  refused (observe (run cfg_fixed thr1 h1)) = refused (observe (run cfg_fixed thr2 h2)) /\
  reported (observe (run cfg_fixed thr1 h1)) = reported (observe (run cfg_fixed thr2 h2)) /\
  alive (run cfg_fixed thr1 h1) = alive (run cfg_fixed thr2 h2) /\
  audit (observe (run cfg_fixed thr1 h1)) = audit (observe (run cfg_fixed thr2 h2)).
Proof. apply sizes_irrelevant. reflexivity. Qed.

(** it is not a property of every code version: the original code's start-up looks at the newest
    file only, so the same events give another numbering when the threshold makes the first
    update rotate *)
Lemma sizes_matter_orig :
  let h := [Ev UpdateReceived true 147; Restart] in
  alive (run cfg_orig 100 h) = Some 1 /\ alive (run cfg_orig 1000 h) = Some 2.
Proof. vm_compute. split; reflexivity. Qed.
