(** Proofs for C19: the RIB bookkeeping model (model/YRib.v) refines the finite-map
    specification (spec/MapSpec.v) and the version counters count exactly the table changes. *)
From YV Require Import lib.Base model.YRib spec.MapSpec.
From Coq Require Import ZArith Lia ZifyBool ZifyNat ZifyN Permutation.

(** * decidable equalities of the model are equalities *)
Lemma rule_eqb_eq a b : rule_eqb a b = true <-> a = b.
Proof.
  revert b; induction a as [|[k v] a IH]; destruct b as [|[k' v'] b]; cbn; try (split; congruence).
  rewrite !andb_true_iff, !N.eqb_eq, IH.
  split; [intros [[-> ->] ->]; reflexivity | intros H; inversion H; auto].
Qed.

Lemma rules_eqb_eq a b : rules_eqb a b = true <-> a = b.
Proof.
  revert b; induction a as [|x a IH]; destruct b as [|y b]; cbn; try (split; congruence).
  rewrite andb_true_iff, rule_eqb_eq, IH.
  split; [intros [-> ->]; reflexivity | intros H; inversion H; auto].
Qed.

Lemma mp_eqb_eq a b : mp_eqb a b = true <-> a = b.
Proof.
  destruct a as [a1 a2 a3 a4], b as [b1 b2 b3 b4]; unfold mp_eqb; cbn.
  rewrite !andb_true_iff, !N.eqb_eq, rules_eqb_eq.
  split; [intros [[[-> ->] ->] ->]; reflexivity | intros H; inversion H; auto].
Qed.

Lemma omp_eqb_eq a b : omp_eqb a b = true <-> a = b.
Proof.
  destruct a, b; cbn; try (split; congruence).
  rewrite mp_eqb_eq. split; [intros ->; reflexivity | intros H; inversion H; auto].
Qed.

Lemma attrs_eqb_eq a b : attrs_eqb a b = true <-> a = b.
Proof.
  destruct a as [a1 a2 a3], b as [b1 b2 b3]; unfold attrs_eqb; cbn.
  rewrite !andb_true_iff, N.eqb_eq, !omp_eqb_eq.
  split; [intros [[-> ->] ->]; reflexivity | intros H; inversion H; auto].
Qed.

Lemma rkey_eqb_eq a b : rkey_eqb a b = true <-> a = b.
Proof. apply rule_eqb_eq. Qed.

(** * the key built from an NLRI dictionary identifies the dictionary *)
Lemma rk_insert_perm x l : Permutation (rk_insert x l) (x :: l).
Proof.
  induction l as [|y l IH]; cbn; [reflexivity|].
  destruct (fst x <=? fst y); [reflexivity|].
  rewrite IH. apply perm_swap.
Qed.

Lemma rule_key_perm r : Permutation (rule_key r) r.
Proof.
  induction r as [|x r IH]; cbn; [reflexivity|].
  rewrite rk_insert_perm. constructor. exact IH.
Qed.

(** two NLRI dictionaries with the same key have the same items *)
Lemma rule_key_inj r1 r2 : rule_key r1 = rule_key r2 -> Permutation r1 r2.
Proof.
  intros H. rewrite <- (rule_key_perm r1), <- (rule_key_perm r2), H. reflexivity.
Qed.

(** the key is sorted by component name *)
Inductive sorted_keys : rkey -> Prop :=
| sk_nil : sorted_keys []
| sk_one x : sorted_keys [x]
| sk_cons x y l : fst x <= fst y -> sorted_keys (y :: l) -> sorted_keys (x :: y :: l).

Lemma rk_insert_sorted x l : sorted_keys l -> sorted_keys (rk_insert x l).
Proof.
  induction 1 as [|y|y z l Hyz Hs IH]; cbn.
  - constructor.
  - destruct (N.leb_spec (fst x) (fst y)); repeat constructor; lia.
  - destruct (N.leb_spec (fst x) (fst y)).
    + repeat constructor; auto.
    + cbn in IH. destruct (N.leb_spec (fst x) (fst z)).
      * repeat constructor; auto; lia.
      * constructor; auto.
Qed.

Lemma rule_key_sorted r : sorted_keys (rule_key r).
Proof. induction r; cbn; [constructor | apply rk_insert_sorted; assumption]. Qed.

(** * dictionaries of the model against the maps of the specification *)
Section Sim.
  Context {K : Type} (eqb : K -> K -> bool).
  Hypothesis eqb_eq : forall a b, eqb a b = true <-> a = b.

  Local Notation map_eq := (map_eq (V:=attrs) eqb).
  Local Notation lookup := (lookup (V:=attrs) eqb).

  Lemma eqb_spec a b : reflect (a = b) (eqb a b).
  Proof. destruct (eqb a b) eqn:E; constructor; [apply eqb_eq; auto | intros H; apply eqb_eq in H; congruence]. Qed.

  Lemma dget_lookup k (d : list (K * attrs)) : dget eqb k d = lookup k d.
  Proof. induction d as [|[k' v] d IH]; cbn; [reflexivity | rewrite IH; reflexivity]. Qed.

  Lemma lookup_dset k' k v (d : list (K * attrs)) :
    lookup k' (dset eqb k v d) = if eqb k' k then Some v else lookup k' d.
  Proof.
    induction d as [|[k0 v0] d IH]; cbn; [reflexivity|].
    destruct (eqb_spec k k0) as [->|Hn]; cbn.
    - destruct (eqb k' k0); reflexivity.
    - rewrite IH. destruct (eqb_spec k' k0) as [->|]; [|reflexivity].
      destruct (eqb_spec k0 k); [congruence | reflexivity].
  Qed.

  Lemma lookup_ddel k' k (d : list (K * attrs)) :
    lookup k' (ddel eqb k d) = if eqb k' k then None else lookup k' d.
  Proof.
    induction d as [|[k0 v0] d IH]; cbn; [destruct (eqb k' k); reflexivity|].
    destruct (eqb_spec k k0) as [->|Hn]; cbn.
    - rewrite IH. destruct (eqb k' k0); reflexivity.
    - rewrite IH. destruct (eqb_spec k' k0) as [->|]; [|reflexivity].
      destruct (eqb_spec k0 k); [congruence | reflexivity].
  Qed.

  Lemma lookup_remove k' k (m : list (K * attrs)) :
    lookup k' (remove eqb k m) = if eqb k' k then None else lookup k' m.
  Proof.
    unfold remove. induction m as [|[k0 v0] m IH]; cbn; [destruct (eqb k' k); reflexivity|].
    destruct (eqb_spec k k0) as [->|Hn]; cbn.
    - rewrite IH. destruct (eqb k' k0); reflexivity.
    - rewrite IH. destruct (eqb_spec k' k0) as [->|]; [|reflexivity].
      destruct (eqb_spec k0 k); [congruence | reflexivity].
  Qed.

  Lemma lookup_insert k' k v (m : list (K * attrs)) :
    lookup k' (insert k v m) = if eqb k' k then Some v else lookup k' m.
  Proof. reflexivity. Qed.

  (** the specification only looks at bindings *)
  Lemma apply_op_ext m m' o : map_eq m m' -> map_eq (apply_op eqb m o) (apply_op eqb m' o).
  Proof.
    intros H k'. destruct o as [k|k v]; cbn [apply_op].
    - rewrite !lookup_remove, H. reflexivity.
    - rewrite !lookup_insert, H. reflexivity.
  Qed.

  Lemma is_change_ext m m' o : map_eq m m' -> is_change eqb attrs_eqb m o = is_change eqb attrs_eqb m' o.
  Proof. intros H. destruct o; cbn; rewrite H; reflexivity. Qed.

  Lemma apply_ops_ext ops : forall m m', map_eq m m' -> map_eq (apply_ops eqb m ops) (apply_ops eqb m' ops).
  Proof.
    unfold apply_ops. induction ops as [|o ops IH]; intros m m' H; cbn; [exact H|].
    apply IH, apply_op_ext, H.
  Qed.

  Lemma changes_ops_ext ops : forall m m', map_eq m m' ->
    changes_ops eqb attrs_eqb m ops = changes_ops eqb attrs_eqb m' ops.
  Proof.
    induction ops as [|o ops IH]; intros m m' H; cbn; [reflexivity|].
    rewrite (is_change_ext m m' o H), (IH _ _ (apply_op_ext m m' o H)). reflexivity.
  Qed.

  Lemma apply_ops_app (m : list (K * attrs)) a b : apply_ops eqb m (a ++ b) = apply_ops eqb (apply_ops eqb m a) b.
  Proof. unfold apply_ops. apply fold_left_app. Qed.

  Lemma changes_ops_app a : forall m b,
    changes_ops eqb attrs_eqb m (a ++ b)
    = changes_ops eqb attrs_eqb m a + changes_ops eqb attrs_eqb (apply_ops eqb m a) b.
  Proof.
    induction a as [|o a IH]; intros m b; cbn; [reflexivity|].
    rewrite IH. unfold apply_ops. cbn. lia.
  Qed.

  (** the loop bodies of the code, over any key type *)
  Definition gwd (st : list (K * attrs) * N) (k : K) : list (K * attrs) * N :=
    if dmem eqb k (fst st) then (ddel eqb k (fst st), snd st + 1) else st.
  (** IPv4 flavour: the binding is always (re)written *)
  Definition gann4 (a : attrs) (st : list (K * attrs) * N) (k : K) : list (K * attrs) * N :=
    match dget eqb k (fst st) with
    | None => (dset eqb k a (fst st), snd st + 1)
    | Some old => if attrs_eqb a old then (dset eqb k a (fst st), snd st)
                  else (dset eqb k a (fst st), snd st + 1)
    end.
  (** flowspec/sr/vpn flavour: an equal value is left alone *)
  Definition gannm (a : attrs) (st : list (K * attrs) * N) (k : K) : list (K * attrs) * N :=
    match dget eqb k (fst st) with
    | None => (dset eqb k a (fst st), snd st + 1)
    | Some old => if attrs_eqb a old then st else (dset eqb k a (fst st), snd st + 1)
    end.

  (** "one step of the code = one operation of the specification, counted iff it is a change" *)
  Definition sim_step {X} (stepf : list (K * attrs) * N -> X -> list (K * attrs) * N)
             (opf : X -> op K attrs) : Prop :=
    forall d m v x, map_eq d m ->
      map_eq (fst (stepf (d, v) x)) (apply_op eqb m (opf x)) /\
      snd (stepf (d, v) x) = v + (if is_change eqb attrs_eqb m (opf x) then 1 else 0).

  Lemma gwd_sim : sim_step gwd (fun k => Withdraw k).
  Proof.
    intros d m v k H. unfold gwd, dmem. cbn [fst snd]. rewrite dget_lookup.
    cbn [is_change apply_op]. rewrite <- (H k).
    destruct (lookup k d) eqn:E; cbn [fst snd].
    - split; [|lia]. intros k'. rewrite lookup_ddel, lookup_remove, H. reflexivity.
    - split; [|lia]. intros k'. rewrite lookup_remove.
      destruct (eqb_spec k' k) as [->|]; [rewrite E; reflexivity | apply H].
  Qed.

  Lemma gann4_sim a : sim_step (gann4 a) (fun k => Announce k a).
  Proof.
    intros d m v k H. unfold gann4. cbn [fst snd]. rewrite dget_lookup.
    cbn [is_change apply_op]. rewrite <- (H k).
    assert (G : map_eq (dset eqb k a d) (insert k a m)).
    { intros k'. rewrite lookup_dset, lookup_insert, H. reflexivity. }
    destruct (lookup k d) as [old|] eqn:E; [destruct (attrs_eqb a old)|]; cbn [fst snd negb];
      (split; [exact G | lia]).
  Qed.

  Lemma gannm_sim a : sim_step (gannm a) (fun k => Announce k a).
  Proof.
    intros d m v k H. unfold gannm. cbn [fst snd]. rewrite dget_lookup.
    cbn [is_change apply_op]. rewrite <- (H k).
    assert (G : map_eq (dset eqb k a d) (insert k a m)).
    { intros k'. rewrite lookup_dset, lookup_insert, H. reflexivity. }
    destruct (lookup k d) as [old|] eqn:E; [destruct (attrs_eqb a old) eqn:Ea|]; cbn [fst snd negb];
      try (split; [exact G | lia]).
    split; [|lia]. apply attrs_eqb_eq in Ea. subst old.
    intros k'. rewrite lookup_insert.
    destruct (eqb_spec k' k) as [->|]; [exact E | apply H].
  Qed.

  (** a loop of the code = the list of operations *)
  Lemma fold_sim {X} stepf (opf : X -> op K attrs) : sim_step stepf opf ->
    forall xs d m v, map_eq d m ->
      map_eq (fst (fold_left stepf xs (d, v))) (apply_ops eqb m (List.map opf xs)) /\
      snd (fold_left stepf xs (d, v)) = v + changes_ops eqb attrs_eqb m (List.map opf xs).
  Proof.
    intros Hs. induction xs as [|x xs IH]; intros d m v H; cbn [fold_left List.map changes_ops].
    - unfold apply_ops; cbn. split; [exact H | lia].
    - destruct (Hs d m v x H) as [H1 H2].
      destruct (stepf (d, v) x) as [d' v'] eqn:E. cbn [fst snd] in *.
      destruct (IH d' (apply_op eqb m (opf x)) v' H1) as [H3 H4].
      unfold apply_ops in *. cbn [fold_left]. split; [exact H3 |].
      etransitivity; [exact H4|]. rewrite H2. symmetry. apply N.add_assoc.
  Qed.

  (** two loops in sequence *)
  Lemma fold2_sim {X Y} f1 (o1 : X -> op K attrs) f2 (o2 : Y -> op K attrs) :
    sim_step f1 o1 -> sim_step f2 o2 ->
    forall xs ys d m v, map_eq d m ->
      let r := fold_left f2 ys (fold_left f1 xs (d, v)) in
      let ops := List.map o1 xs ++ List.map o2 ys in
      map_eq (fst r) (apply_ops eqb m ops) /\ snd r = v + changes_ops eqb attrs_eqb m ops.
  Proof.
    intros S1 S2 xs ys d m v H. cbn zeta.
    destruct (fold_sim f1 o1 S1 xs d m v H) as [A1 A2].
    destruct (fold_left f1 xs (d, v)) as [d1 v1]. cbn [fst snd] in *.
    destruct (fold_sim f2 o2 S2 ys d1 _ v1 A1) as [B1 B2].
    rewrite apply_ops_app, changes_ops_app. split; [exact B1 |].
    etransitivity; [exact B2|]. rewrite A2. symmetry. apply N.add_assoc.
  Qed.

  (** whatever else happens, a key that went through the withdraw loop is absent afterwards *)
  Lemma gwd_keeps_absent (st : list (K * attrs) * N) k k' : lookup k (fst st) = None -> lookup k (fst (gwd st k')) = None.
  Proof.
    intros H. unfold gwd. destruct (dmem eqb k' (fst st)); cbn [fst]; [|exact H].
    rewrite lookup_ddel. destruct (eqb k k'); [reflexivity | exact H].
  Qed.

  Lemma gwd_removes (st : list (K * attrs) * N) k : lookup k (fst (gwd st k)) = None.
  Proof.
    unfold gwd, dmem. destruct (dget eqb k (fst st)) eqn:E; cbn [fst];
      [|rewrite <- dget_lookup; exact E].
    rewrite lookup_ddel. destruct (eqb_spec k k); [reflexivity | congruence].
  Qed.

  Lemma fold_gwd_keeps_absent {X} (kf : X -> K) xs : forall (st : list (K * attrs) * N) k, lookup k (fst st) = None ->
    lookup k (fst (fold_left (fun st x => gwd st (kf x)) xs st)) = None.
  Proof.
    induction xs as [|x xs IH]; intros st k H; cbn [fold_left]; [exact H|].
    apply IH, gwd_keeps_absent, H.
  Qed.

  Lemma fold_gwd_removes {X} (kf : X -> K) xs : forall (st : list (K * attrs) * N) x, In x xs ->
    lookup (kf x) (fst (fold_left (fun st x => gwd st (kf x)) xs st)) = None.
  Proof.
    induction xs as [|x0 xs IH]; intros st x Hin; [destruct Hin|]. cbn [fold_left].
    destruct Hin as [->|Hin]; [apply fold_gwd_keeps_absent, gwd_removes | apply IH, Hin].
  Qed.

  (** writing the value a key already has leaves the dictionary as it is *)
  Lemma dset_same k v (d : list (K * attrs)) : dget eqb k d = Some v -> dset eqb k v d = d.
  Proof.
    induction d as [|[k0 v0] d IH]; cbn; [discriminate|].
    destruct (eqb k k0); [intros H; inversion H; reflexivity | intros H; rewrite IH by exact H; reflexivity].
  Qed.

  (** a sequence of messages *)
  Lemma run_sim {S U} (step : S -> U -> S) (tbl : S -> list (K * attrs)) (ver : S -> N)
        (ops : U -> list (op K attrs)) :
    (forall s u m, map_eq (tbl s) m ->
       map_eq (tbl (step s u)) (apply_ops eqb m (ops u)) /\
       ver (step s u) = ver s + changes_ops eqb attrs_eqb m (ops u)) ->
    forall us s m, map_eq (tbl s) m ->
      map_eq (tbl (fold_left step us s)) (apply_run eqb m (List.map ops us)) /\
      ver (fold_left step us s) = ver s + changes_run eqb attrs_eqb m (List.map ops us).
  Proof.
    intros H. induction us as [|u us IH]; intros s m Hm; cbn [fold_left List.map changes_run].
    - unfold apply_run; cbn. split; [exact Hm | lia].
    - destruct (H s u m Hm) as [H1 H2].
      destruct (IH (step s u) _ H1) as [H3 H4].
      unfold apply_run in *. cbn [fold_left]. split; [exact H3 |].
      etransitivity; [exact H4|]. rewrite H2. symmetry. apply N.add_assoc.
  Qed.
End Sim.

Lemma N_eqb_eq' : forall a b : N, N.eqb a b = true <-> a = b.
Proof. exact N.eqb_eq. Qed.

Lemma map_eq_refl {K} (eqb : K -> K -> bool) (m : list (K * attrs)) : map_eq eqb m m.
Proof. intros k; reflexivity. Qed.

(** * IPv4: update_rib_in_ipv4 / update_rib_out_ipv4 *)
Definition ops4 (u : update) : list (op prefix attrs) :=
  update_ops (u_withdraw u) (u_nlri u) (u_attr u).

Lemma rib_ipv4_loops_sim u d m v : map_eq N.eqb d m ->
  map_eq N.eqb (fst (rib_ipv4_loops u (d, v))) (apply_ops N.eqb m (ops4 u)) /\
  snd (rib_ipv4_loops u (d, v)) = v + changes_ops N.eqb attrs_eqb m (ops4 u).
Proof.
  intros H. unfold rib_ipv4_loops, ops4, update_ops.
  exact (fold2_sim N.eqb wd_step (fun k => Withdraw k) (ann_step (u_attr u))
                   (fun k => Announce k (u_attr u))
                   (gwd_sim N.eqb N_eqb_eq') (gann4_sim N.eqb N_eqb_eq' (u_attr u))
                   (u_withdraw u) (u_nlri u) d m v H).
Qed.

(** update_receive_verion / update_send_version leave the IPv4 tables and counters alone *)
Lemma recv_ver_frame s a :
  rib_in (update_receive_verion s a) = rib_in s /\
  v_ipv4 (recv_v (update_receive_verion s a)) = v_ipv4 (recv_v s) /\
  rib_out (update_receive_verion s a) = rib_out s /\
  send_v (update_receive_verion s a) = send_v s.
Proof.
  unfold update_receive_verion, mp_unreach_part, mp_reach_part.
  destruct (a_reach a) as [m1|]; [destruct (fam_of m1) as [[]|]|];
    (destruct (a_unreach a) as [m2|]; [destruct (fam_of m2) as [[]|]|]); cbn; auto.
Qed.

Lemma send_ver_frame s a :
  rib_out (update_send_version s a) = rib_out s /\
  v_ipv4 (send_v (update_send_version s a)) = v_ipv4 (send_v s) /\
  rib_in (update_send_version s a) = rib_in s /\
  recv_v (update_send_version s a) = recv_v s.
Proof.
  unfold update_send_version, mp_unreach_part, mp_reach_part.
  destruct (a_reach a) as [m1|]; [destruct (fam_of m1) as [[]|]|];
    (destruct (a_unreach a) as [m2|]; [destruct (fam_of m2) as [[]|]|]); cbn; auto.
Qed.

Lemma recv_step_ipv4 s u m : map_eq N.eqb (rib_in s) m ->
  map_eq N.eqb (rib_in (recv_step true s u)) (apply_ops N.eqb m (ops4 u)) /\
  v_ipv4 (recv_v (recv_step true s u))
  = v_ipv4 (recv_v s) + changes_ops N.eqb attrs_eqb m (ops4 u).
Proof.
  intros H. unfold recv_step.
  destruct (recv_ver_frame s (u_attr u)) as (F1 & F2 & _).
  set (s1 := update_receive_verion s (u_attr u)) in *.
  destruct (true && negb (is_nil (u_nlri u) && is_nil (u_withdraw u))) eqn:E.
  - unfold update_rib_in_ipv4. cbn [rib_in recv_v set_recv_ipv4 v_ipv4].
    rewrite <- F1 in H. rewrite <- F2.
    exact (rib_ipv4_loops_sim u (rib_in s1) m (v_ipv4 (recv_v s1)) H).
  - unfold ops4. destruct (u_nlri u), (u_withdraw u); try discriminate E.
    unfold update_ops, apply_ops; cbn. rewrite F1, F2. split; [exact H | lia].
Qed.

Lemma send_step_ipv4 s u m : map_eq N.eqb (rib_out s) m ->
  map_eq N.eqb (rib_out (send_step s u)) (apply_ops N.eqb m (ops4 u)) /\
  v_ipv4 (send_v (send_step s u))
  = v_ipv4 (send_v s) + changes_ops N.eqb attrs_eqb m (ops4 u).
Proof.
  intros H. unfold send_step.
  destruct (send_ver_frame (update_rib_out_ipv4 s u) (u_attr u)) as (F1 & F2 & _).
  rewrite F1, F2. unfold update_rib_out_ipv4. cbn [rib_out send_v set_recv_ipv4 v_ipv4].
  exact (rib_ipv4_loops_sim u (rib_out s) m (v_ipv4 (send_v s)) H).
Qed.

(** * flowspec / sr_policy / mpls_vpn: update_send_version / update_receive_verion *)
Definition fam_eqb (f g : family) : bool :=
  match f, g with
  | Flowspec, Flowspec | SrPolicy, SrPolicy | MplsVpn, MplsVpn => true
  | _, _ => false
  end.

(** the elementary operations an attribute dictionary carries for family [f]: the routes of
    MP_REACH_NLRI (each with the stored value), then those of MP_UNREACH_NLRI -- the order in
    which the code walks them *)
Definition mp_reach_ops (f : family) (a : attrs) : list (op rkey attrs) :=
  match a_reach a with
  | Some m => match fam_of m with
              | Some g => if fam_eqb f g
                          then List.map (fun r => Announce (rule_key r) (reach_value f a)) (reach_rules f m)
                          else []
              | None => []
              end
  | None => []
  end.
Definition mp_unreach_ops (f : family) (a : attrs) : list (op rkey attrs) :=
  match a_unreach a with
  | Some m => match fam_of m with
              | Some g => if fam_eqb f g
                          then List.map (fun r => Withdraw (rule_key r)) (reach_rules f m)
                          else []
              | None => []
              end
  | None => []
  end.
Definition mp_ops (f : family) (a : attrs) : list (op rkey attrs) :=
  mp_reach_ops f a ++ mp_unreach_ops f a.

Section MpSim.
  Variable get : rib -> family -> list (rkey * attrs) * N.
  Variable set : rib -> family -> list (rkey * attrs) * N -> rib.
  Variable P : family -> Prop.      (* the families this direction keeps a table for *)
  Hypothesis get_set_same : forall s f r, P f -> get (set s f r) f = r.
  Hypothesis get_set_other : forall s f g r, fam_eqb f g = false -> get (set s g r) f = get s f.

  Local Notation meq := (map_eq (V:=attrs) rkey_eqb).

  Lemma fam_eqb_true f g : fam_eqb f g = true -> f = g.
  Proof. destruct f, g; cbn; congruence. Qed.

  Lemma mp_reach_sim f : P f -> forall s a m, meq (fst (get s f)) m ->
    let s' := mp_reach_part get set s a in
    meq (fst (get s' f)) (apply_ops rkey_eqb m (mp_reach_ops f a)) /\
    snd (get s' f) = snd (get s f) + changes_ops rkey_eqb attrs_eqb m (mp_reach_ops f a).
  Proof.
    intros Pf s a m H. cbn zeta. unfold mp_reach_part, mp_reach_ops.
    assert (Triv : meq (fst (get s f)) (apply_ops rkey_eqb m []) /\
                   snd (get s f) = snd (get s f) + changes_ops rkey_eqb attrs_eqb m []).
    { unfold apply_ops; cbn. split; [exact H | lia]. }
    destruct (a_reach a) as [mm|]; [|exact Triv].
    destruct (fam_of mm) as [g|]; [|exact Triv].
    destruct (fam_eqb f g) eqn:E.
    - apply fam_eqb_true in E. subst g. rewrite get_set_same by exact Pf.
      destruct (get s f) as [d v] eqn:G. cbn [fst snd] in *.
      exact (fold_sim rkey_eqb (mp_ann_step (reach_value f a))
               (fun r => Announce (rule_key r) (reach_value f a))
               (fun d m v r => gannm_sim rkey_eqb rkey_eqb_eq (reach_value f a) d m v (rule_key r))
               (reach_rules f mm) d m v H).
    - rewrite get_set_other by exact E. exact Triv.
  Qed.

  Lemma mp_unreach_sim f : P f -> forall s a m, meq (fst (get s f)) m ->
    let s' := mp_unreach_part get set s a in
    meq (fst (get s' f)) (apply_ops rkey_eqb m (mp_unreach_ops f a)) /\
    snd (get s' f) = snd (get s f) + changes_ops rkey_eqb attrs_eqb m (mp_unreach_ops f a).
  Proof.
    intros Pf s a m H. cbn zeta. unfold mp_unreach_part, mp_unreach_ops.
    assert (Triv : meq (fst (get s f)) (apply_ops rkey_eqb m []) /\
                   snd (get s f) = snd (get s f) + changes_ops rkey_eqb attrs_eqb m []).
    { unfold apply_ops; cbn. split; [exact H | lia]. }
    destruct (a_unreach a) as [mm|]; [|exact Triv].
    destruct (fam_of mm) as [g|]; [|exact Triv].
    destruct (fam_eqb f g) eqn:E.
    - apply fam_eqb_true in E. subst g. rewrite get_set_same by exact Pf.
      destruct (get s f) as [d v] eqn:G. cbn [fst snd] in *.
      exact (fold_sim rkey_eqb mp_wd_step
               (fun r => Withdraw (rule_key r))
               (fun d m v r => gwd_sim rkey_eqb rkey_eqb_eq d m v (rule_key r))
               (reach_rules f mm) d m v H).
    - rewrite get_set_other by exact E. exact Triv.
  Qed.

  Lemma mp_parts_sim f : P f -> forall s a m, meq (fst (get s f)) m ->
    let s' := mp_unreach_part get set (mp_reach_part get set s a) a in
    meq (fst (get s' f)) (apply_ops rkey_eqb m (mp_ops f a)) /\
    snd (get s' f) = snd (get s f) + changes_ops rkey_eqb attrs_eqb m (mp_ops f a).
  Proof.
    intros Pf s a m H. cbn zeta.
    destruct (mp_reach_sim f Pf s a m H) as [A1 A2].
    destruct (mp_unreach_sim f Pf (mp_reach_part get set s a) a _ A1) as [B1 B2].
    unfold mp_ops. rewrite apply_ops_app, changes_ops_app. split; [exact B1 |].
    etransitivity; [exact B2|]. rewrite A2. symmetry. apply N.add_assoc.
  Qed.
End MpSim.

Lemma get_set_send_same s f r : True -> get_send (set_send s f r) f = r.
Proof. intros _. destruct f, r; reflexivity. Qed.
Lemma get_set_send_other s f g r : fam_eqb f g = false -> get_send (set_send s g r) f = get_send s f.
Proof. destruct f, g; cbn; congruence. Qed.
Lemma get_set_recv_same s f r : f <> SrPolicy -> get_recv (set_recv s f r) f = r.
Proof. intros H. destruct f, r; try reflexivity. congruence. Qed.
Lemma get_set_recv_other s f g r : fam_eqb f g = false -> get_recv (set_recv s g r) f = get_recv s f.
Proof. destruct f, g; cbn; congruence. Qed.

Lemma rib_out_frame_mp s u f : get_send (update_rib_out_ipv4 s u) f = get_send s f.
Proof. destruct f; reflexivity. Qed.
Lemma rib_in_frame_mp s u f : get_recv (update_rib_in_ipv4 s u) f = get_recv s f.
Proof. destruct f; reflexivity. Qed.

Lemma send_step_mp f s u m : map_eq rkey_eqb (fst (get_send s f)) m ->
  map_eq rkey_eqb (fst (get_send (send_step s u) f)) (apply_ops rkey_eqb m (mp_ops f (u_attr u))) /\
  snd (get_send (send_step s u) f)
  = snd (get_send s f) + changes_ops rkey_eqb attrs_eqb m (mp_ops f (u_attr u)).
Proof.
  intros H. unfold send_step, update_send_version.
  rewrite <- (rib_out_frame_mp s u f) in H |- *.
  exact (mp_parts_sim get_send set_send (fun _ => True) get_set_send_same get_set_send_other
                      f I (update_rib_out_ipv4 s u) (u_attr u) m H).
Qed.

Lemma recv_step_mp b f s u m : f <> SrPolicy -> map_eq rkey_eqb (fst (get_recv s f)) m ->
  map_eq rkey_eqb (fst (get_recv (recv_step b s u) f)) (apply_ops rkey_eqb m (mp_ops f (u_attr u))) /\
  snd (get_recv (recv_step b s u) f)
  = snd (get_recv s f) + changes_ops rkey_eqb attrs_eqb m (mp_ops f (u_attr u)).
Proof.
  intros Hf H. unfold recv_step.
  destruct (b && negb (is_nil (u_nlri u) && is_nil (u_withdraw u)));
    rewrite ?rib_in_frame_mp; unfold update_receive_verion;
    exact (mp_parts_sim get_recv set_recv (fun f => f <> SrPolicy) get_set_recv_same
                        get_set_recv_other f Hf s (u_attr u) m H).
Qed.

(** the receive side has no sr_policy table and never counts *)
Lemma recv_step_sr b s u : get_recv (recv_step b s u) SrPolicy = get_recv s SrPolicy.
Proof.
  unfold recv_step.
  destruct (b && negb (is_nil (u_nlri u) && is_nil (u_withdraw u)));
    rewrite ?rib_in_frame_mp; unfold update_receive_verion, mp_unreach_part, mp_reach_part;
    (destruct (a_reach (u_attr u)) as [m1|]; [destruct (fam_of m1) as [[]|]|]);
    (destruct (a_unreach (u_attr u)) as [m2|]; [destruct (fam_of m2) as [[]|]|]); reflexivity.
Qed.

(** MP_UNREACH_NLRI is processed whatever else the UPDATE carries (MP_REACH_NLRI of the same or of
    another family, IPv4 NLRI, IPv4 withdrawals): every route it names is absent afterwards *)
Lemma mp_unreach_removes (get : rib -> family -> list (rkey * attrs) * N)
      (set : rib -> family -> list (rkey * attrs) * N -> rib) (P : family -> Prop) :
  (forall s f r, P f -> get (set s f r) f = r) ->
  forall f s a m15 r, P f -> a_unreach a = Some m15 -> fam_of m15 = Some f -> In r (reach_rules f m15) ->
    lookup rkey_eqb (rule_key r) (fst (get (mp_unreach_part get set s a) f)) = None.
Proof.
  intros GS f s a m15 r Pf Hu Hf Hin. unfold mp_unreach_part. rewrite Hu, Hf, GS by exact Pf.
  exact (fold_gwd_removes rkey_eqb rkey_eqb_eq rule_key (reach_rules f m15) (get s f) r Hin).
Qed.

Theorem recv_unreach_applied b f s u m15 r : f <> SrPolicy ->
  a_unreach (u_attr u) = Some m15 -> fam_of m15 = Some f -> In r (reach_rules f m15) ->
  lookup rkey_eqb (rule_key r) (fst (get_recv (recv_step b s u) f)) = None.
Proof.
  intros Hf Hu Hm Hin. unfold recv_step.
  destruct (b && negb (is_nil (u_nlri u) && is_nil (u_withdraw u)));
    rewrite ?rib_in_frame_mp; unfold update_receive_verion;
    exact (mp_unreach_removes get_recv set_recv (fun f => f <> SrPolicy) get_set_recv_same
                              f _ (u_attr u) m15 r Hf Hu Hm Hin).
Qed.

Theorem send_unreach_applied f s u m15 r :
  a_unreach (u_attr u) = Some m15 -> fam_of m15 = Some f -> In r (reach_rules f m15) ->
  lookup rkey_eqb (rule_key r) (fst (get_send (send_step s u) f)) = None.
Proof.
  intros Hu Hm Hin. unfold send_step, update_send_version.
  exact (mp_unreach_removes get_send set_send (fun _ => True) get_set_send_same
                            f _ (u_attr u) m15 r I Hu Hm Hin).
Qed.

(** the two directions do not touch each other's state *)
Lemma recv_step_frame_send b s u :
  rib_out (recv_step b s u) = rib_out s /\ send_v (recv_step b s u) = send_v s /\
  forall f, get_send (recv_step b s u) f = get_send s f.
Proof.
  unfold recv_step.
  destruct (b && negb (is_nil (u_nlri u) && is_nil (u_withdraw u)));
    unfold update_rib_in_ipv4, update_receive_verion, mp_unreach_part, mp_reach_part;
    (destruct (a_reach (u_attr u)) as [m1|]; [destruct (fam_of m1) as [[]|]|]);
    (destruct (a_unreach (u_attr u)) as [m2|]; [destruct (fam_of m2) as [[]|]|]);
    cbn; (split; [reflexivity | split; [reflexivity | intros []; reflexivity]]).
Qed.

Lemma send_step_frame_recv s u :
  rib_in (send_step s u) = rib_in s /\ recv_v (send_step s u) = recv_v s /\
  forall f, get_recv (send_step s u) f = get_recv s f.
Proof.
  unfold send_step, update_rib_out_ipv4, update_send_version, mp_unreach_part, mp_reach_part.
  (destruct (a_reach (u_attr u)) as [m1|]; [destruct (fam_of m1) as [[]|]|]);
    (destruct (a_unreach (u_attr u)) as [m2|]; [destruct (fam_of m2) as [[]|]|]);
    cbn; (split; [reflexivity | split; [reflexivity | intros []; reflexivity]]).
Qed.

(** * statements used by props/C19.v *)

(** Adj-RIB-In after any sequence of UPDATEs = the specification's table; counter = number of changes *)
Theorem rib_in_run us : forall s m, map_eq N.eqb (rib_in s) m ->
  map_eq N.eqb (rib_in (fold_left (recv_step true) us s)) (apply_run N.eqb m (List.map ops4 us)) /\
  v_ipv4 (recv_v (fold_left (recv_step true) us s))
  = v_ipv4 (recv_v s) + changes_run N.eqb attrs_eqb m (List.map ops4 us).
Proof.
  exact (run_sim N.eqb (recv_step true) rib_in (fun s => v_ipv4 (recv_v s)) ops4
                 (fun s u m => recv_step_ipv4 s u m) us).
Qed.

Theorem rib_out_run us : forall s m, map_eq N.eqb (rib_out s) m ->
  map_eq N.eqb (rib_out (fold_left send_step us s)) (apply_run N.eqb m (List.map ops4 us)) /\
  v_ipv4 (send_v (fold_left send_step us s))
  = v_ipv4 (send_v s) + changes_run N.eqb attrs_eqb m (List.map ops4 us).
Proof.
  exact (run_sim N.eqb send_step rib_out (fun s => v_ipv4 (send_v s)) ops4
                 (fun s u m => send_step_ipv4 s u m) us).
Qed.

Theorem mp_send_run f us : forall s m, map_eq rkey_eqb (fst (get_send s f)) m ->
  map_eq rkey_eqb (fst (get_send (fold_left send_step us s) f))
         (apply_run rkey_eqb m (List.map (fun u => mp_ops f (u_attr u)) us)) /\
  snd (get_send (fold_left send_step us s) f)
  = snd (get_send s f) + changes_run rkey_eqb attrs_eqb m (List.map (fun u => mp_ops f (u_attr u)) us).
Proof.
  exact (run_sim rkey_eqb send_step (fun s => fst (get_send s f)) (fun s => snd (get_send s f))
                 (fun u => mp_ops f (u_attr u)) (fun s u m => send_step_mp f s u m) us).
Qed.

Theorem mp_recv_run b f us : f <> SrPolicy -> forall s m, map_eq rkey_eqb (fst (get_recv s f)) m ->
  map_eq rkey_eqb (fst (get_recv (fold_left (recv_step b) us s) f))
         (apply_run rkey_eqb m (List.map (fun u => mp_ops f (u_attr u)) us)) /\
  snd (get_recv (fold_left (recv_step b) us s) f)
  = snd (get_recv s f) + changes_run rkey_eqb attrs_eqb m (List.map (fun u => mp_ops f (u_attr u)) us).
Proof.
  intros Hf.
  exact (run_sim rkey_eqb (recv_step b) (fun s => fst (get_recv s f)) (fun s => snd (get_recv s f))
                 (fun u => mp_ops f (u_attr u)) (fun s u m => recv_step_mp b f s u m Hf) us).
Qed.

Theorem sr_recv_run b us : forall s,
  get_recv (fold_left (recv_step b) us s) SrPolicy = get_recv s SrPolicy.
Proof.
  induction us as [|u us IH]; intros s; cbn [fold_left]; [reflexivity|].
  rewrite IH. apply recv_step_sr.
Qed.

(** flush: connectionLost empties both tables whatever the `disconnected` flag says, i.e. whether
    the peer dropped the session or yabgp closed it itself; the counters of the dead object stay *)
Theorem empty_after_drop c :
  rib_in (c_rib (connection_lost c)) = [] /\ rib_out (c_rib (connection_lost c)) = [] /\
  recv_v (c_rib (connection_lost c)) = recv_v (c_rib c) /\
  send_v (c_rib (connection_lost c)) = send_v (c_rib c) /\
  c_disconnected (connection_lost c) = c_disconnected c.
Proof. destruct c as [s []]; repeat split. Qed.

(** closeConnection itself flushes nothing: the tables live until connectionLost *)
Theorem close_keeps_tables c :
  c_rib (close_connection c) = c_rib c /\ c_disconnected (close_connection c) = true.
Proof. split; reflexivity. Qed.

(** any history (received and sent UPDATEs, earlier drops and reconnections, local closes) that
    ends with the session dropping -- by the peer (ELost) or by yabgp (EClose then ELost) --
    leaves both tables empty, and the two kinds of drop leave the same tables and counters *)
Theorem empty_after_any_drop b es c :
  let remote := run b c (es ++ [ELost]) in
  let loc := run b c (es ++ [EClose; ELost]) in
  (rib_in (c_rib remote) = [] /\ rib_out (c_rib remote) = []) /\
  (rib_in (c_rib loc) = [] /\ rib_out (c_rib loc) = []) /\
  c_disconnected loc = true /\ c_rib loc = c_rib remote.
Proof.
  cbn zeta. unfold run. rewrite !fold_left_app. cbn [fold_left ev_step].
  destruct (fold_left (ev_step b) es c) as [s []]; repeat split.
Qed.

Theorem new_conn_fresh : sx_rib new_conn = sx_rib rib0 /\ new_conn = rib0.
Proof. split; reflexivity. Qed.

(** * the same statements in the vocabulary of the specification *)
Definition spec_apply (m : list (prefix * attrs)) (u : update) : list (prefix * attrs) :=
  apply_update N.eqb m (u_withdraw u) (u_nlri u) (u_attr u).
Definition spec_changes (m : list (prefix * attrs)) (u : update) : N :=
  changes N.eqb attrs_eqb m (u_withdraw u) (u_nlri u) (u_attr u).

Lemma apply_run_map {K U} (eqb : K -> K -> bool) (f : U -> list (op K attrs)) us : forall m,
  apply_run eqb m (List.map f us) = fold_left (fun m u => apply_ops eqb m (f u)) us m.
Proof. unfold apply_run. induction us as [|u us IH]; intros m; cbn; [reflexivity | apply IH]. Qed.

Theorem rib_in_refines us :
  map_eq N.eqb (rib_in (fold_left (recv_step true) us new_conn)) (fold_left spec_apply us empty).
Proof.
  destruct (rib_in_run us new_conn empty (map_eq_refl N.eqb [])) as [H _].
  rewrite apply_run_map in H. exact H.
Qed.

Theorem rib_out_refines us :
  map_eq N.eqb (rib_out (fold_left send_step us new_conn)) (fold_left spec_apply us empty).
Proof.
  destruct (rib_out_run us new_conn empty (map_eq_refl N.eqb [])) as [H _].
  rewrite apply_run_map in H. exact H.
Qed.

Theorem recv_ipv4_version s u :
  v_ipv4 (recv_v (recv_step true s u)) = v_ipv4 (recv_v s) + spec_changes (rib_in s) u.
Proof. exact (proj2 (recv_step_ipv4 s u (rib_in s) (map_eq_refl N.eqb _))). Qed.

Theorem send_ipv4_version s u :
  v_ipv4 (send_v (send_step s u)) = v_ipv4 (send_v s) + spec_changes (rib_out s) u.
Proof. exact (proj2 (send_step_ipv4 s u (rib_out s) (map_eq_refl N.eqb _))). Qed.

Theorem send_mp_version f s u :
  snd (get_send (send_step s u) f)
  = snd (get_send s f) + changes_ops rkey_eqb attrs_eqb (fst (get_send s f)) (mp_ops f (u_attr u)).
Proof. exact (proj2 (send_step_mp f s u _ (map_eq_refl rkey_eqb _))). Qed.

Theorem recv_mp_version b f s u : f <> SrPolicy ->
  snd (get_recv (recv_step b s u) f)
  = snd (get_recv s f) + changes_ops rkey_eqb attrs_eqb (fst (get_recv s f)) (mp_ops f (u_attr u)).
Proof. intros Hf. exact (proj2 (recv_step_mp b f s u _ Hf (map_eq_refl rkey_eqb _))). Qed.

(** totals over a whole session, from a fresh connection *)
Theorem recv_ipv4_total us :
  v_ipv4 (recv_v (fold_left (recv_step true) us new_conn))
  = changes_run N.eqb attrs_eqb empty (List.map ops4 us).
Proof. exact (proj2 (rib_in_run us new_conn empty (map_eq_refl N.eqb []))). Qed.

Theorem send_ipv4_total us :
  v_ipv4 (send_v (fold_left send_step us new_conn))
  = changes_run N.eqb attrs_eqb empty (List.map ops4 us).
Proof. exact (proj2 (rib_out_run us new_conn empty (map_eq_refl N.eqb []))). Qed.

Theorem send_mp_total f us :
  map_eq rkey_eqb (fst (get_send (fold_left send_step us new_conn) f))
         (apply_run rkey_eqb empty (List.map (fun u => mp_ops f (u_attr u)) us)) /\
  snd (get_send (fold_left send_step us new_conn) f)
  = changes_run rkey_eqb attrs_eqb empty (List.map (fun u => mp_ops f (u_attr u)) us).
Proof.
  destruct (mp_send_run f us new_conn empty) as [A B]; [destruct f; apply map_eq_refl|].
  split; [exact A|]. rewrite B. destruct f; reflexivity.
Qed.

Theorem recv_mp_total b f us : f <> SrPolicy ->
  map_eq rkey_eqb (fst (get_recv (fold_left (recv_step b) us new_conn) f))
         (apply_run rkey_eqb empty (List.map (fun u => mp_ops f (u_attr u)) us)) /\
  snd (get_recv (fold_left (recv_step b) us new_conn) f)
  = changes_run rkey_eqb attrs_eqb empty (List.map (fun u => mp_ops f (u_attr u)) us).
Proof.
  intros Hf.
  destruct (mp_recv_run b f us Hf new_conn empty) as [A B]; [destruct f; apply map_eq_refl|].
  split; [exact A|]. rewrite B. destruct f; reflexivity.
Qed.

(** * known finding: a VPNv4 withdrawal parsed from the wire carries the label 0x800000, the key
    string contains the label, so the withdrawal never meets the announced route.
    Route identity of RFC 4364 = (rd, prefix) = the NLRI dictionary without its 'label' member. *)
Definition route_id (label_code : N) (r : rule) : rkey :=
  filter (fun kv => negb (fst kv =? label_code)) (rule_key r).

(** key codes: 0 = 'label', 1 = 'prefix', 2 = 'rd'; value codes: 29 and 524288 the labels *)
Definition vpn_w_announce : update :=
  mkUpdate (mkAttrs 7 (Some (mkMp 1 128 3 [[(0, 29); (1, 100); (2, 200)]])) None) [] [].
Definition vpn_w_withdraw : update :=
  mkUpdate (mkAttrs 8 None (Some (mkMp 1 128 0 [[(0, 524288); (1, 100); (2, 200)]]))) [] [].

Lemma vpn_withdraw_label_witness :
  let s := recv_step true (recv_step true new_conn vpn_w_announce) vpn_w_withdraw in
  (* the two messages name the same route *)
  List.map (route_id 0) (mp_rules (mkMp 1 128 3 [[(0, 29); (1, 100); (2, 200)]]))
  = List.map (route_id 0) (mp_rules (mkMp 1 128 0 [[(0, 524288); (1, 100); (2, 200)]])) /\
  (* specification on route identities: announced, then removed: two changes, empty table *)
  changes_ops rkey_eqb attrs_eqb empty
    [Announce (route_id 0 [(0, 29); (1, 100); (2, 200)]) (strip (u_attr vpn_w_announce));
     Withdraw (route_id 0 [(0, 524288); (1, 100); (2, 200)])] = 2 /\
  (* the code: one change counted, the route is still in mpls_vpn_receive_dict *)
  v_mpls_vpn (recv_v s) = 1 /\ length (vpn_recv s) = 1%nat.
Proof. vm_compute. repeat split. Qed.

Lemma vpnv4_received_refuted :
  exists (u1 u2 : update) (r1 r2 : rule) (label : N),
    a_reach (u_attr u1) = Some (mkMp 1 128 3 [r1]) /\
    a_unreach (u_attr u2) = Some (mkMp 1 128 0 [r2]) /\
    route_id label r1 = route_id label r2 /\
    changes_ops rkey_eqb attrs_eqb empty
      [Announce (route_id label r1) (strip (u_attr u1)); Withdraw (route_id label r2)] = 2 /\
    let s := recv_step true (recv_step true new_conn u1) u2 in
    v_mpls_vpn (recv_v s) = 1 /\ length (vpn_recv s) = 1%nat.
Proof.
  exists vpn_w_announce, vpn_w_withdraw, [(0, 29); (1, 100); (2, 200)],
         [(0, 524288); (1, 100); (2, 200)], 0.
  vm_compute. repeat split.
Qed.

Lemma directions_independent b s u :
  (rib_out (recv_step b s u) = rib_out s /\ send_v (recv_step b s u) = send_v s /\
   forall f, get_send (recv_step b s u) f = get_send s f) /\
  (rib_in (send_step s u) = rib_in s /\ recv_v (send_step s u) = recv_v s /\
   forall f, get_recv (send_step s u) f = get_recv s f).
Proof. exact (conj (recv_step_frame_send b s u) (send_step_frame_recv s u)). Qed.

(** * prefixes as sent: the key of the Adj-RIB-In is the prefix up to its padding bits *)
Definition same_wprefix (w w' : wprefix) : Prop :=
  snd w = snd w' /\ fst w / 2 ^ (32 - snd w) = fst w' / 2 ^ (32 - snd w).
Definition same_wupdate (a b : wupdate) : Prop :=
  w_attr a = w_attr b /\ Forall2 same_wprefix (w_nlri a) (w_nlri b) /\
  Forall2 same_wprefix (w_withdraw a) (w_withdraw b).

Lemma parse_prefix_same w w' : same_wprefix w w' -> parse_prefix w = parse_prefix w'.
Proof.
  destruct w as [v l], w' as [v' l']. unfold same_wprefix, parse_prefix. cbn [fst snd].
  intros [<- H]. rewrite H. reflexivity.
Qed.

(** and only up to padding: different prefixes (length at most 32) get different keys *)
Lemma parse_prefix_inj w w' : snd w <= 32 -> snd w' <= 32 ->
  parse_prefix w = parse_prefix w' -> same_wprefix w w'.
Proof.
  destruct w as [v l], w' as [v' l']. unfold same_wprefix, parse_prefix, pfx. cbn [fst snd].
  intros Hl Hl' H.
  set (a := v / 2 ^ (32 - l) * 2 ^ (32 - l)) in *.
  set (b := v' / 2 ^ (32 - l') * 2 ^ (32 - l')) in *.
  assert (E : l = l' /\ a = b) by lia. destruct E as [<- E]. split; [reflexivity|].
  subst a b. apply N.mul_cancel_r in E; [exact E|]. apply N.pow_nonzero. discriminate.
Qed.

Theorem prefix_key_exact (w w' : wprefix) : snd w <= 32 -> snd w' <= 32 ->
  (parse_prefix w = parse_prefix w' <-> same_wprefix w w').
Proof. intros H H'. split; [apply parse_prefix_inj; assumption | apply parse_prefix_same]. Qed.

Lemma map_parse_same l l' : Forall2 same_wprefix l l' -> List.map parse_prefix l = List.map parse_prefix l'.
Proof. induction 1 as [|x y l l' H _ IH]; cbn; [reflexivity|]. rewrite (parse_prefix_same x y H), IH. reflexivity. Qed.

Lemma decode_same a b : same_wupdate a b -> decode_update a = decode_update b.
Proof.
  intros (Ha & Hn & Hw). unfold decode_update.
  rewrite Ha, (map_parse_same _ _ Hn), (map_parse_same _ _ Hw). reflexivity.
Qed.

Theorem padding_irrelevant b ws ws' : Forall2 same_wupdate ws ws' ->
  forall s, fold_left (recv_wire b) ws s = fold_left (recv_wire b) ws' s.
Proof.
  induction 1 as [|w w' ws ws' H _ IH]; intros s; cbn [fold_left]; [reflexivity|].
  unfold recv_wire at 2 4. rewrite (decode_same w w' H). apply IH.
Qed.

Lemma fold_recv_wire b ws : forall s,
  fold_left (recv_wire b) ws s = fold_left (recv_step b) (List.map decode_update ws) s.
Proof. induction ws as [|w ws IH]; intros s; cbn [fold_left List.map]; [reflexivity | apply IH]. Qed.

Theorem rib_in_refines_wire ws :
  map_eq N.eqb (rib_in (fold_left (recv_wire true) ws new_conn))
         (fold_left spec_apply (List.map decode_update ws) empty).
Proof. rewrite fold_recv_wire. apply rib_in_refines. Qed.

(** * an identical re-announcement changes nothing (IPv4 table and counter, both directions) *)
Lemma fst_ann_step a st q : fst (ann_step a st q) = dset N.eqb q a (fst st).
Proof.
  unfold ann_step. destruct (dget N.eqb q (fst st)) as [old|]; [destruct (attrs_eqb a old)|]; reflexivity.
Qed.

Lemma ann_step_keeps a st p q :
  dget N.eqb p (fst st) = Some a -> dget N.eqb p (fst (ann_step a st q)) = Some a.
Proof.
  intros H. rewrite fst_ann_step. rewrite (dget_lookup N.eqb) in *.
  rewrite (lookup_dset N.eqb N_eqb_eq'). destruct (p =? q); [reflexivity | exact H].
Qed.

Lemma ann_step_binds a st p : dget N.eqb p (fst (ann_step a st p)) = Some a.
Proof.
  rewrite fst_ann_step. rewrite (dget_lookup N.eqb), (lookup_dset N.eqb N_eqb_eq'), N.eqb_refl. reflexivity.
Qed.

Lemma fold_ann_keeps a ps : forall st p, dget N.eqb p (fst st) = Some a ->
  dget N.eqb p (fst (fold_left (ann_step a) ps st)) = Some a.
Proof.
  induction ps as [|q ps IH]; intros st p H; cbn [fold_left]; [exact H | apply IH, ann_step_keeps, H].
Qed.

Lemma fold_ann_binds a ps : forall st p, In p ps ->
  dget N.eqb p (fst (fold_left (ann_step a) ps st)) = Some a.
Proof.
  induction ps as [|q ps IH]; intros st p Hin; [destruct Hin|]. cbn [fold_left].
  destruct Hin as [->|Hin]; [apply fold_ann_keeps, ann_step_binds | apply IH, Hin].
Qed.

Lemma ann_step_noop a (st : list (prefix * attrs) * N) p :
  dget N.eqb p (fst st) = Some a -> ann_step a st p = st.
Proof.
  intros H. unfold ann_step. rewrite H.
  assert (E : attrs_eqb a a = true) by (apply attrs_eqb_eq; reflexivity). rewrite E.
  rewrite (dset_same N.eqb p a (fst st) H). destruct st; reflexivity.
Qed.

Lemma fold_ann_noop a ps : forall (st : list (prefix * attrs) * N),
  (forall p, In p ps -> dget N.eqb p (fst st) = Some a) -> fold_left (ann_step a) ps st = st.
Proof.
  induction ps as [|q ps IH]; intros st H; cbn [fold_left]; [reflexivity|].
  rewrite (ann_step_noop a st q) by (apply H; left; reflexivity).
  apply IH. intros p Hp. apply H. right. exact Hp.
Qed.

Lemma loops_idem u st : u_withdraw u = [] ->
  rib_ipv4_loops u (rib_ipv4_loops u st) = rib_ipv4_loops u st.
Proof.
  intros Hw. unfold rib_ipv4_loops. rewrite Hw. cbn [fold_left].
  apply fold_ann_noop. intros p Hp. apply fold_ann_binds, Hp.
Qed.

Theorem recv_reannounce_noop s u : u_withdraw u = [] ->
  let s1 := recv_step true s u in
  rib_in (recv_step true s1 u) = rib_in s1 /\
  v_ipv4 (recv_v (recv_step true s1 u)) = v_ipv4 (recv_v s1).
Proof.
  intros Hw. cbn zeta.
  assert (G : forall s, rib_in (recv_step true s u) =
                        (if negb (is_nil (u_nlri u) && is_nil (u_withdraw u))
                         then fst (rib_ipv4_loops u (rib_in s, v_ipv4 (recv_v s))) else rib_in s) /\
                        v_ipv4 (recv_v (recv_step true s u)) =
                        (if negb (is_nil (u_nlri u) && is_nil (u_withdraw u))
                         then snd (rib_ipv4_loops u (rib_in s, v_ipv4 (recv_v s))) else v_ipv4 (recv_v s))).
  { intros s0. unfold recv_step. destruct (recv_ver_frame s0 (u_attr u)) as (F1 & F2 & _).
    cbn [andb]. destruct (negb (is_nil (u_nlri u) && is_nil (u_withdraw u))).
    - unfold update_rib_in_ipv4. cbn [rib_in recv_v set_recv_ipv4 v_ipv4]. rewrite F1, F2. split; reflexivity.
    - split; assumption. }
  destruct (G (recv_step true s u)) as [A B]. destruct (G s) as [C D].
  rewrite A, B. destruct (negb (is_nil (u_nlri u) && is_nil (u_withdraw u))); [|split; reflexivity].
  rewrite C, D. rewrite <- surjective_pairing. rewrite (loops_idem u _ Hw). split; reflexivity.
Qed.

Theorem send_reannounce_noop s u : u_withdraw u = [] ->
  let s1 := send_step s u in
  rib_out (send_step s1 u) = rib_out s1 /\
  v_ipv4 (send_v (send_step s1 u)) = v_ipv4 (send_v s1).
Proof.
  intros Hw. cbn zeta.
  assert (G : forall s, rib_out (send_step s u) = fst (rib_ipv4_loops u (rib_out s, v_ipv4 (send_v s))) /\
                        v_ipv4 (send_v (send_step s u)) = snd (rib_ipv4_loops u (rib_out s, v_ipv4 (send_v s)))).
  { intros s0. unfold send_step.
    destruct (send_ver_frame (update_rib_out_ipv4 s0 u) (u_attr u)) as (F1 & F2 & _).
    rewrite F1, F2. unfold update_rib_out_ipv4. cbn [rib_out send_v set_recv_ipv4 v_ipv4]. split; reflexivity. }
  destruct (G (send_step s u)) as [A B]. destruct (G s) as [C D].
  rewrite A, B, C, D. rewrite <- surjective_pairing. rewrite (loops_idem u _ Hw). split; reflexivity.
Qed.
