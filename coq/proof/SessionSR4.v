(** C12, continued: connection lost *)
From YV Require Import lib.Base model.YWorld model.YProto gen.Consts gen.FsmGen model.YFraming
  model.YSession proof.SessionPres proof.SessionInv proof.SessionSym proof.SessionFraming
  proof.SessionC03 proof.SessionC13 proof.SessionRP proof.SessionSR proof.SessionSR2 proof.SessionCD proof.SessionSR3.
From Coq Require Import Arith PeanoNat.

Lemma SR_conn_lost c w : CD w -> RP w -> SR w -> conn_st_is c CConnected w = true -> SR (conn_lost c w).
Proof.
  unfold conn_st_is. intros Hcd. sr_intro w. cbn. intros Hc.
  assert (Hcd' : forall k, nth_error conns c = Some k -> c_closing k = c_disc k) by (intros k Ek; apply (cd_at _ c k Hcd Ek)).
  clear Hcd.
  match goal with H : ?s <> StActive |- _ => destruct s end.
  - tq_use. ev_conn conns c Hc. pose proof (Hcd' kc eq_refl) as Hcdk.
    assert (Hclk : c_closing kc = true).
    { destruct (c_closing kc) eqn:X; auto. exfalso.
      assert (Hlv : live kc = true) by (rewrite live_connected by exact Hc; rewrite X; reflexivity).
      destruct (Hsr c kc Ec Hlv) as (_ & P & _). destruct (c_st kc); discriminate. }
    rewrite Hclk in Hcdk. sym_r. all: try (exfalso; unify_conns; congruence). all: sr_fin.
  - tq_use. ev_conn conns c Hc. pose proof (Hcd' kc eq_refl) as Hcdk.
    assert (Hclk : c_closing kc = true).
    { destruct (c_closing kc) eqn:X; auto. exfalso.
      assert (Hlv : live kc = true) by (rewrite live_connected by exact Hc; rewrite X; reflexivity).
      destruct (Hsr c kc Ec Hlv) as (_ & P). destruct (c_st kc); discriminate. }
    rewrite Hclk in Hcdk. sym_r. all: try (exfalso; unify_conns; congruence). all: sr_fin.
  - congruence.
  - sr_sess. destruct (Nat.eqb c c0) eqn:Ecc.
    + apply Nat.eqb_eq in Ecc. subst c0. pose proof (Hcd' k E) as Hcdk. rewrite Hcl in Hcdk.
      sym_r. all: try (exfalso; congruence). all: sr_fin.
    + assert (Ecc' : Nat.eqb c0 c = false) by (rewrite Nat.eqb_sym; exact Ecc).
      ev_conn conns c Hc. pose proof (Hcd' kc eq_refl) as Hcdk. sym_r. all: sr_fin.
  - sr_sess. destruct (Nat.eqb c c0) eqn:Ecc.
    + apply Nat.eqb_eq in Ecc. subst c0. pose proof (Hcd' k E) as Hcdk. rewrite Hcl in Hcdk.
      sym_r. all: try (exfalso; congruence). all: sr_fin.
    + assert (Ecc' : Nat.eqb c0 c = false) by (rewrite Nat.eqb_sym; exact Ecc).
      ev_conn conns c Hc. pose proof (Hcd' kc eq_refl) as Hcdk. sym_r. all: sr_fin.
  - sr_sess. destruct (Nat.eqb c c0) eqn:Ecc.
    + apply Nat.eqb_eq in Ecc. subst c0. pose proof (Hcd' k E) as Hcdk. rewrite Hcl in Hcdk.
      sym_r. all: try (exfalso; congruence). all: sr_fin.
    + assert (Ecc' : Nat.eqb c0 c = false) by (rewrite Nat.eqb_sym; exact Ecc).
      ev_conn conns c Hc. pose proof (Hcd' kc eq_refl) as Hcdk. sym_r. all: sr_fin.
Qed.
