(** C12, continued: connection events *)
From YV Require Import lib.Base model.YWorld model.YProto gen.Consts gen.FsmGen model.YFraming
  model.YSession proof.SessionPres proof.SessionInv proof.SessionSym proof.SessionFraming
  proof.SessionC03 proof.SessionC13 proof.SessionRP proof.SessionSR proof.SessionSR2 proof.SessionCD.
From Coq Require Import Arith PeanoNat.

(** facts about the connection [c] the event is about *)
Ltac ev_conn conns c Hc :=
  let kc := fresh "kc" in
  destruct (nth_error conns c) as [kc|] eqn:Ec; [|discriminate];
  assert (Enc : nth c conns conn0 = kc) by (apply nth_error_nth; auto);
  assert (Hltc : Nat.ltb c (length conns) = true) by (apply Nat.ltb_lt, nth_error_Some; congruence).

Ltac unify_conns :=
  repeat match goal with H : Nat.eqb _ _ = true |- _ => apply Nat.eqb_eq in H; subst end;
  repeat match goal with
         | H1 : nth_error ?l ?n = Some ?a, H2 : nth_error ?l ?n = Some ?b |- _ =>
             rewrite H1 in H2; injection H2 as <-
         end;
  repeat match goal with H : Nat.ltb ?a ?b = true |- _ => rewrite H in * end; cbn in *.

(** a connecting connection in a session state contradicts the regime *)
Ltac no_attempt_in_session Hsr c kc Ec Hc :=
  let Pc := fresh "Pc" in
  pose proof (Hsr c kc Ec (live_connecting kc Hc)) as Pc;
  injection Pc as Pc; subst;
  repeat match goal with
         | H1 : nth_error ?l ?n = Some ?a, H2 : nth_error ?l ?n = Some ?b |- _ =>
             rewrite H1 in H2; injection H2 as H2; subst
         end;
  match goal with Hk : cst_eqb (c_st ?k) CConnected = true |- _ => destruct (c_st k); discriminate end.

Lemma SR_conn_failed c w : RP w -> SR w -> conn_st_is c CConnecting w = true -> SR (conn_failed c w).
Proof.
  unfold conn_st_is. sr_intro w. cbn. intros Hc.
  match goal with H : ?s <> StActive |- _ => destruct s end.
  - tq_use. ev_conn conns c Hc. pose proof (Hsr c kc Ec (live_connecting kc Hc)) as Pc. sym_r. all: sr_fin.
  - tq_use. ev_conn conns c Hc. pose proof (Hsr c kc Ec (live_connecting kc Hc)) as Pc. sym_r. all: sr_fin.
  - congruence.
  - sr_sess. ev_conn conns c Hc. no_attempt_in_session Hsr c kc Ec Hc.
  - sr_sess. ev_conn conns c Hc. no_attempt_in_session Hsr c kc Ec Hc.
  - sr_sess. ev_conn conns c Hc. no_attempt_in_session Hsr c kc Ec Hc.
Qed.

Lemma cd_at w c k : CD w -> nth_error (w_conns w) c = Some k ->
  c_closing k = c_disc k /\ (c_st k = CConnecting -> c_closing k = false).
Proof. intros H E. unfold CD in H. rewrite Forall_forall in H. apply H. eapply nth_error_In; eauto. Qed.

Lemma SR_conn_made c w : CD w -> RP w -> SR w -> conn_st_is c CConnecting w = true -> SR (conn_made c w).
Proof.
  unfold conn_st_is. intros Hcd. sr_intro w. cbn. intros Hc.
  assert (Hcd' : forall k, nth_error conns c = Some k -> c_st k = CConnecting -> c_closing k = false)
    by (intros k Ek; apply (cd_at _ c k Hcd Ek)).
  clear Hcd.
  match goal with H : ?s <> StActive |- _ => destruct s end.
  - tq_use. ev_conn conns c Hc. pose proof (Hsr c kc Ec (live_connecting kc Hc)) as Pc.
    assert (Hclk : c_closing kc = false) by (apply Hcd'; auto; apply Pc).
    sym_r. all: sr_fin.
  - tq_use. ev_conn conns c Hc. pose proof (Hsr c kc Ec (live_connecting kc Hc)) as Pc.
    assert (Hclk : c_closing kc = false) by (apply Hcd'; auto; apply Pc).
    sym_r. all: sr_fin.
  - congruence.
  - sr_sess. ev_conn conns c Hc. no_attempt_in_session Hsr c kc Ec Hc.
  - sr_sess. ev_conn conns c Hc. no_attempt_in_session Hsr c kc Ec Hc.
  - sr_sess. ev_conn conns c Hc. no_attempt_in_session Hsr c kc Ec Hc.
Qed.

