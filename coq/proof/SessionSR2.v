(** C12, continued: operator stop / start and the connection events preserve the regime *)
From YV Require Import lib.Base model.YWorld model.YProto gen.Consts gen.FsmGen model.YFraming
  model.YSession proof.SessionPres proof.SessionInv proof.SessionSym proof.SessionFraming
  proof.SessionC03 proof.SessionC13 proof.SessionRP proof.SessionSR.
From Coq Require Import Arith PeanoNat.

(** ---- manual stop: the timers play no part in what happens to the connections ---- *)
Definition same_cp (x y : world) : Prop := w_conns x = w_conns y /\ w_proto x = w_proto y.
Lemma same_cp_refl x : same_cp x x. Proof. split; reflexivity. Qed.
Lemma same_cp_trans x y z : same_cp x y -> same_cp y z -> same_cp x z.
Proof. intros [A B] [C D]. split; congruence. Qed.
Lemma same_cp_cancel t x : same_cp (tm_cancel t x) x.
Proof. destruct t; split; reflexivity. Qed.
Lemma close_conns_same x y : same_cp x y ->
  w_conns (fsm__close_connection x) = w_conns (fsm__close_connection y).
Proof.
  intros [A B]. unfold fsm__close_connection, p_close_connection, with_proto, conn_close, conn_connected, get_conn, upd_conn.
  rewrite A, B. destruct (w_proto y) as [c|]; cbn; auto.
  destruct (nth_error (w_conns y) c) as [k|]; cbn; [|rewrite A; reflexivity].
  destruct (cst_eqb (c_st k) CConnected); cbn; [|rewrite A; reflexivity].
  destruct (c_closing (nth c (w_conns y) conn0)); cbn; rewrite A; reflexivity.
Qed.

Definition stop_w1 (w : world) : world :=
  if st_in w [StOpenSent; StOpenConfirm; StEstablished] then p_send_notification c_ERR_CEASE 0 [] w else w.

Lemma stop_conns w :
  w_conns (peering_manual_stop w) = w_conns (fsm__close_connection (stop_w1 w)).
Proof.
  unfold peering_manual_stop, F_manual_stop, fsmU_manual_stop, fsm_manual_stop, stop_w1. cbv beta zeta.
  set (w1 := if st_in w [StOpenSent; StOpenConfirm; StEstablished] then p_send_notification c_ERR_CEASE 0 [] w else w).
  assert (G : forall x, same_cp x w1 ->
     w_conns (snd (true, set_state StIdle (set_w_auto false (set_w_crc 0 (fsm__close_connection x))))) =
     w_conns (fsm__close_connection w1)).
  { intros x Hx. cbn [snd]. rewrite <- (close_conns_same x w1 Hx).
    unfold set_state. destruct (bst_eqb _ _); reflexivity. }
  destruct (st_in w [StOpenSent; StOpenConfirm; StEstablished]); fold w1;
  repeat match goal with |- context [if tm_status ?t ?x then _ else _] => destruct (tm_status t x) end;
  apply G; repeat first [ apply same_cp_refl | eapply same_cp_trans; [apply same_cp_cancel|] ].
Qed.

Lemma stop_conns_live w : RP w -> SR w ->
  forall i k, nth_error (w_conns (fsm__close_connection (stop_w1 w))) i = Some k -> live k = true ->
  S i = length (w_conns (fsm__close_connection (stop_w1 w))) /\ c_st k = CConnecting.
Proof.
  unfold stop_w1. sr_intro w.
  match goal with H : ?s <> StActive |- _ => destruct s end;
  [ tq_use | tq_use | congruence | sr_sess | sr_sess | sr_sess ];
  sym_r; cbn; norm_nth;
  let i := fresh "i" in let k0 := fresh "k0" in let Hi := fresh "Hi" in let Hl := fresh "Hl" in
  intros i k0 Hi Hl; sr_one Hi Hl.
Qed.

Lemma SR_manual_stop w : timers_wf w -> RP w -> SR w -> SR (peering_manual_stop w).
Proof.
  intros Hwf Hrp Hsr.
  destruct (stop_effects w Hwf) as (Hs & Ha & Hn & _).
  split; [|split].
  - unfold TQ. destruct Hn as (_ & A & B & _). split; intros _; assumption.
  - unfold TL. rewrite Hs. intros X; discriminate X.
  - intros i k Hi Hl. rewrite stop_conns in Hi.
    destruct (stop_conns_live w Hrp Hsr i k Hi Hl) as [A B].
    unfold SRat. rewrite Hs. rewrite stop_conns. repeat split; auto; apply Hn.
Qed.

Ltac sr_method w :=
  sr_intro w;
  match goal with H : ?s <> StActive |- _ => destruct s end;
  [ tq_use; sym_r; sr_fin | tq_use; sym_r; sr_fin | congruence
  | sr_sess; sym_r; sr_fin | sr_sess; sym_r; sr_fin | sr_sess; sym_r; sr_fin ].

Ltac sr_method_g w :=
  let Hg := fresh "Hg" in
  unfold no_attempt; intros H1 H2 Hg; revert H1 H2; sr_intro w; cbn in Hg;
  match goal with H : ?s <> StActive |- _ => destruct s end;
  [ tq_use; sym_r; sr_fin | tq_use; sym_r; sr_fin | congruence
  | sr_sess; sym_r; sr_fin | sr_sess; sym_r; sr_fin | sr_sess; sym_r; sr_fin ].

Lemma SR_fire_hold w : RP w -> SR w -> SR (fire_timer THold w).
Proof. sr_method w. Qed.
Lemma SR_fire_ka w : RP w -> SR w -> SR (fire_timer TKeepAlive w).
Proof. sr_method w. Qed.
Lemma SR_fire_do w : RP w -> SR w -> SR (fire_timer TDelayOpen w).
Proof. sr_method w. Qed.
Lemma SR_fire_ih w : RP w -> SR w -> SR (fire_timer TIdleHold w).
Proof. sr_method w. Qed.
Lemma SR_fire_cr w : RP w -> SR w -> no_attempt w -> SR (fire_timer TConnectRetry w).
Proof. sr_method_g w. Qed.
Lemma SR_manual_start w : RP w -> SR w -> no_attempt w -> SR (peering_manual_start w).
Proof. sr_method_g w. Qed.
Lemma SR_automatic_start b w : RP w -> SR w -> no_attempt w -> SR (peering_automatic_start b w).
Proof. sr_method_g w. Qed.
