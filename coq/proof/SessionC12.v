(** C13 (manual start) and C12 (every message goes to the tracked connection). *)
From YV Require Import lib.Base model.YWorld model.YProto gen.Consts gen.FsmGen model.YFraming
  model.YSession proof.SessionPres proof.SessionInv proof.SessionSym proof.SessionFraming proof.SessionC13.
From Coq Require Import Arith PeanoNat.

(** ---- manual start ---- *)
Lemma start_connects w : Stopped w -> w_out w = [] ->
  let w' := peering_manual_start w in
  w_state w' = StConnect /\ w_auto w' = true /\
  t_dl (w_tcr w') = Some (w_now w + secs (cf_retry (w_cfg w))) /\
  w_out w' = [OConnect (length (w_conns w))].
Proof.
  intros H Ho. revert H. stopped_start w. sym. repeat split; reflexivity.
Qed.

Lemma start_noop_when_up w : w_state w = StEstablished -> peering_manual_start w = w.
Proof. intros Hs. destr_world w. cbn in Hs. subst. reflexivity. Qed.

(** ---- C12: every message goes to the connection the FSM tracks ---- *)
Definition PW (w : world) : Prop :=
  forall c m, In (OWrite c m) (w_out w) -> w_proto w = Some c.

Lemma PW_frame w w' : w_proto w' = w_proto w -> w_out w' = w_out w -> PW w -> PW w'.
Proof. unfold PW. intros -> ->. auto. Qed.
Lemma PW_emit o w : (forall c m, o <> OWrite c m) -> PW w -> PW (emit o w).
Proof.
  unfold PW, emit. cbn. intros Ho H c m [Hi|Hi]; [exfalso; eapply Ho; eauto | eauto].
Qed.
Lemma PW_set_tm t v w : PW w -> PW (set_tm t v w).
Proof. apply PW_frame; destruct t; reflexivity. Qed.
Lemma PW_write c m w : w_proto w = Some c -> PW w -> PW (conn_write c m w).
Proof.
  intros Hp H. unfold conn_write. destruct (conn_connected c w); auto.
  unfold PW, emit. cbn. intros c' m' [Hi|Hi]; [inversion Hi; subst; auto | eauto].
Qed.
Lemma PW_with_proto f w :
  (forall c w, w_proto w = Some c -> PW w -> PW (f c w)) -> PW w -> PW (with_proto f w).
Proof.
  intros Hf H. unfold with_proto. destruct (w_proto w) eqn:E; auto.
  apply PW_emit; auto. intros; discriminate.
Qed.

Lemma PW_prims : prims_ok PW.
Proof.
  constructor.
  - intros s w H. unfold set_state. destruct (bst_eqb s (w_state w)); auto.
    destruct s; try (eapply PW_frame; [| |exact H]; reflexivity).
    apply PW_emit; [intros; discriminate|]. eapply PW_frame; [| |exact H]; reflexivity.
  - intros; unfold tm_reset; apply PW_set_tm; auto.
  - intros; unfold tm_cancel; apply PW_set_tm; auto.
  - intros; unfold tm_active; cbn [snd]; apply PW_set_tm; auto.
  - intros x w H; eapply PW_frame; [| |exact H]; reflexivity.
  - intros x w H; eapply PW_frame; [| |exact H]; reflexivity.
  - intros x w H; eapply PW_frame; [| |exact H]; reflexivity.
  - intros x w H; eapply PW_frame; [| |exact H]; reflexivity.
  - intros w H. apply PW_with_proto; auto. intros c w' Hp H'. unfold conn_send_open. cbv beta zeta.
    apply PW_emit; [intros; discriminate|]. eapply PW_frame; [reflexivity|reflexivity|].
    apply PW_write.
    + unfold capability_negotiate. destruct (w_capr w'); auto.
    + unfold capability_negotiate. destruct (w_capr w'); auto; try (eapply PW_frame; [| |exact H']; reflexivity).
  - intros w H. apply PW_with_proto; auto. intros c w' Hp H'. unfold conn_send_keepalive.
    apply PW_write; auto; try (eapply PW_frame; [| |exact H']; reflexivity).
  - intros code s d w H. apply PW_with_proto; auto. intros c w' Hp H'. unfold conn_send_notification.
    apply PW_write; auto; try (eapply PW_frame; [| |exact H']; reflexivity).
  - intros w H. apply PW_with_proto; auto. intros c w' Hp H'. unfold conn_close.
    destruct (conn_connected c w'); auto. eapply PW_frame; [reflexivity|reflexivity|].
    destruct (c_closing (get_conn c w')); auto; try (apply PW_emit; auto; intros; discriminate).
  - intros w H. unfold peering_connect. destruct (st_is w StEstablished); auto.
    apply PW_emit; [intros; discriminate|]. eapply PW_frame; [| |exact H]; reflexivity.
Qed.
Lemma PW_glue : glue_ok PW.
Proof.
  constructor.
  - intros h w H. apply PW_emit; auto. intros; discriminate.
  - intros c f w _ H. eapply PW_frame; [| |exact H]; reflexivity.
  - intros x w H; eapply PW_frame; [| |exact H]; reflexivity.
  - intros x w H; eapply PW_frame; [| |exact H]; reflexivity.
  - intros x w H; eapply PW_frame; [| |exact H]; reflexivity.
Qed.

Section Tracked.
Variable D : decoders.

Lemma PW_frame_loop c : forall fuel buf w, PW w ->
  PW (fst (fst (frame_loop world (dispatch D c) (fun sub d w => F_header_error sub d w)
                  (conn_closed_by_us c) fuel buf w))).
Proof.
  pose proof PW_prims as OK. pose proof PW_glue as GK.
  induction fuel as [|fuel IH]; intros buf w H; cbn [frame_loop fst]; auto.
  unfold parse1. cbv zeta.
  repeat match goal with
         | |- context [if ?b then _ else _] =>
             lazymatch b with
             | fst _ => fail
             | conn_closed_by_us _ _ => fail
             | _ => destruct b
             end
         end; cbn [fst]; auto; try (apply pres_header_error; auto).
  assert (Hd : PW (snd (dispatch D c (nth 18 buf 0)
              (slice 19 (N.to_nat (unbe (slice 16 18 buf))) buf) w))) by (apply pres_dispatch; auto).
  destruct (fst (dispatch D c _ _ w)); cbn [fst]; auto.
  destruct (conn_closed_by_us c _); cbn [fst]; auto.
Qed.

(** every message written during a step went to the connection the FSM tracks after the step *)
Theorem writes_to_tracked e w : PW (step D w e).
Proof.
  unfold step. pose proof PW_prims as OK. pose proof PW_glue as GK.
  assert (H0 : PW (set_w_out [] w)) by (intros c m []).
  destruct (enabled w e); auto.
  set (w0 := set_w_out [] w) in *.
  destruct e; cbn [do_event].
  - apply pres_peering_automatic_start; auto.
  - unfold conn_made. cbv zeta. apply pres_connection_made; auto.
    eapply PW_frame; [reflexivity|reflexivity|]. eapply PW_frame; [reflexivity|reflexivity|].
    eapply PW_frame; [reflexivity|reflexivity|]. apply (ok_estab _ OK). apply (ok_set_state _ OK).
    intros c' m []. 
  - unfold conn_failed. cbv zeta. apply pres_connection_failed; auto. apply (g_handler _ GK).
    eapply PW_frame; [| |exact H0]; reflexivity.
  - unfold conn_lost. cbv zeta.
    assert (H1 : PW (emit (OHandler HConnLost) (upd_conn c (set_c_st CClosed) w0))).
    { apply (g_handler _ GK). eapply PW_frame; [| |exact H0]; reflexivity. }
    destruct (c_disc _).
    + apply pres_peering_connection_closed; auto.
    + apply pres_connection_failed; auto.
  - unfold data_received. cbv zeta.
    set (r := frame_loop _ _ _ _ _ _ _).
    assert (Hr : PW (upd_conn c (set_c_buf (snd (fst r))) (fst (fst r)))).
    { eapply PW_frame; [reflexivity|reflexivity|]. apply PW_frame_loop. exact H0. }
    destruct (snd r); auto. apply PW_emit; auto. intros; discriminate.
  - unfold fire_timer. destruct (t_dl (get_tm t w0)) as [d|] eqn:E; auto. cbv zeta.
    assert (H1 : PW (set_tm t (mkTimer None (t_status (get_tm t (set_w_now d w0)))) (set_w_now d w0))).
    { apply PW_set_tm. eapply PW_frame; [| |exact H0]; reflexivity. }
    destruct t.
    + apply pres_connect_retry_time_event; auto.
    + apply pres_hold_time_event; auto.
    + apply pres_keep_alive_time_event; auto.
    + apply pres_delay_open_time_event; auto.
    + apply pres_idle_hold_time_event; auto.
  - eapply PW_frame; [| |exact H0]; reflexivity.
  - unfold peering_manual_stop. apply pres_manual_stop; auto.
  - apply pres_peering_manual_start; auto.
  - unfold api_send_update. destruct ok; auto. apply PW_with_proto; auto. intros c' w' Hp H'.
    eapply PW_frame; [reflexivity|reflexivity|]. apply PW_write; auto.
  - unfold api_send_bin. apply PW_with_proto; auto. intros c' w' Hp H'.
    eapply PW_frame; [reflexivity|reflexivity|]. apply PW_write; auto.
Qed.
End Tracked.
