(** C07, IPv6 unicast: the decoder inverts the encoder on every in-range attribute, up to the
    netaddr rendering of values below 2^32 and the "== b'\x00\x00'" special case. *)
From YV Require Import lib.Base gen.Consts model.YMp model.YPrefix6 proof.MpBytesLemmas.
From Coq Require Import ZArith ZifyBool ZifyNat ZifyN.
Ltac Zify.zify_post_hook ::= Z.to_euclidean_division_equations.

(** in-range route: length 0..128, 128-bit address with no bit set beyond the length *)
Definition wf_route6 (r : route6) : Prop :=
  snd r <= 128 /\ fst r < 2 ^ 128 /\ fst r mod 2 ^ (128 - snd r) = 0.

(** what str(netaddr.IPAddress(int)) shows for a 128-bit value *)
Definition render (a : N) : addr := if a <? 2 ^ 32 then V4 a else V6 a.
Definition render_route (r : route6) : addr * N := (render (fst r), snd r).

(** no two ::/0 routes at the very end *)
Definition no_double_default (rs : list route6) : Prop := forall p, rs <> p ++ [(0, 0); (0, 0)].

Lemma of_int_render a : a < 2 ^ 128 -> of_int a = Ok (render a).
Proof.
  intros H. unfold of_int, render. destruct (a <? 2 ^ 32); [reflexivity|].
  destruct (a <? 2 ^ 128) eqn:E; [reflexivity|]. apply N.ltb_ge in E. lia.
Qed.

Lemma render_high a : 2 ^ 32 <= a -> render a = V6 a.
Proof. intros H. unfold render. destruct (a <? 2 ^ 32) eqn:E; [apply N.ltb_lt in E; lia | reflexivity]. Qed.

Lemma ceil8_bounds l : l <= 128 ->
  (N.to_nat (ceil8 l) <= 16)%nat /\ N.to_nat ((128 - l) / 8) = (16 - N.to_nat (ceil8 l))%nat /\
  8 * N.of_nat (16 - N.to_nat (ceil8 l)) <= 128 - l.
Proof. intros H. unfold ceil8. destruct (l mod 8 =? 0) eqn:E; lia. Qed.

Lemma int_of_hex_nonempty b : (0 < length b)%nat -> int_of_hex b = Ok (unbe b).
Proof. destruct b; cbn; [lia | reflexivity]. Qed.

(** the arithmetic core: truncated prefix octets + zero padding give the address back *)
Lemma addr_of_prefix_octets a l : wf_route6 (a, l) ->
  addr_of_bytes (firstn (N.to_nat (ceil8 l)) (be 16 a) ++ repeat 0 (N.to_nat ((128 - l) / 8)))
  = Ok (render a).
Proof.
  intros (Hl & Ha & Hm). cbn [fst snd] in *.
  destruct (ceil8_bounds l Hl) as (Hk & Hz & Hb). rewrite Hz.
  set (k := N.to_nat (ceil8 l)) in *.
  unfold addr_of_bytes. rewrite int_of_hex_nonempty.
  2:{ rewrite app_length, firstn_length_le, repeat_length by (rewrite length_be; lia). lia. }
  cbn [bind]. rewrite unbe_take_pad.
  - apply of_int_render; assumption.
  - assumption.
  - change (256 ^ N.of_nat 16) with (2 ^ 128). assumption.
  - rewrite pow256_pow2. eapply mod_pow2_le; [exact Hb | exact Hm].
Qed.

Lemma enc_route6_length a l : l <= 128 ->
  length (firstn (N.to_nat (ceil8 l)) (be 16 a)) = N.to_nat (ceil8 l).
Proof. intros H. destruct (ceil8_bounds l H) as (Hk & _). rewrite firstn_length_le; [reflexivity | rewrite length_be; lia]. Qed.

(** one iteration of the decoder on an encoded route followed by anything *)
Lemma parse6_step f a l rest : wf_route6 (a, l) ->
  bytes_eqb (enc_route6 (a, l) ++ rest) [0; 0] = false ->
  parse6 (S f) (enc_route6 (a, l) ++ rest) =
  bind (parse6 f rest) (fun r => Ok ((render a, l) :: r)).
Proof.
  intros Hw Hne. pose proof Hw as (Hl & _). cbn [snd] in Hl.
  unfold enc_route6 in *. cbn [app] in *. cbn [parse6]. rewrite Hne.
  set (k := N.to_nat (ceil8 l)).
  assert (Hlen : length (firstn k (be 16 a)) = k) by (apply enc_route6_length; assumption).
  assert (Hs : slice 1 (1 + k) (l :: firstn k (be 16 a) ++ rest) = firstn k (be 16 a)).
  { unfold slice. cbn [skipn]. replace (1 + k - 1)%nat with k by lia. apply firstn_app_len; assumption. }
  assert (Hd : drop (1 + k) (l :: firstn k (be 16 a) ++ rest) = rest).
  { unfold drop. cbn [skipn Nat.add]. apply skipn_app_len; assumption. }
  unfold take in *. rewrite Hs, Hd. unfold k. rewrite addr_of_prefix_octets by assumption.
  reflexivity.
Qed.

Lemma enc_route6_nonempty r : enc_route6 r <> [].
Proof. destruct r as (a, l). cbn. discriminate. Qed.

Lemma construct6_nil rs : construct6 rs = [] -> rs = [].
Proof.
  destruct rs as [|r rs]; [reflexivity|]. cbn [construct6 flat_map].
  destruct r as (a, l). cbn. discriminate.
Qed.

Lemma wf_len0 a : wf_route6 (a, 0) -> a = 0.
Proof.
  intros (_ & Ha & Hm). cbn [fst snd] in *. change (128 - 0) with 128 in Hm.
  rewrite N.mod_small in Hm; assumption.
Qed.

(** the encoded list is exactly 00 00 only for two default routes *)
Lemma double_default_char r rs : Forall wf_route6 (r :: rs) ->
  enc_route6 r ++ construct6 rs = [0; 0] -> r :: rs = [(0, 0); (0, 0)].
Proof.
  intros Hw He. inversion Hw as [|? ? Hr Hrs]; subst.
  destruct r as (a, l). cbn [enc_route6 app] in He.
  injection He as Hl He. subst l.
  change (N.to_nat (ceil8 0)) with 0%nat in He. cbn [take firstn app] in He.
  rewrite (wf_len0 a Hr).
  destruct rs as [|(a', l') rs']; [discriminate|].
  inversion Hrs as [|? ? Hr' Hrs']; subst.
  cbn [construct6 flat_map enc_route6 app] in He.
  injection He as Hl' He. subst l'.
  change (N.to_nat (ceil8 0)) with 0%nat in He. cbn [take firstn app] in He.
  apply construct6_nil in He. subst rs'.
  rewrite (wf_len0 a' Hr'). reflexivity.
Qed.

Lemma parse6_construct6 rs : Forall wf_route6 rs -> no_double_default rs ->
  forall fuel, (length (construct6 rs) < fuel)%nat ->
  parse6 fuel (construct6 rs) = Ok (map render_route rs).
Proof.
  induction rs as [|r rs IH]; intros Hw Hd fuel Hf.
  - destruct fuel; [cbn in Hf; lia | reflexivity].
  - destruct fuel as [|f]; [lia|].
    inversion Hw as [|? ? Hr Hrs]; subst.
    cbn [construct6 flat_map] in *. fold (construct6 rs) in *.
    destruct r as (a, l).
    assert (Hne : bytes_eqb (enc_route6 (a, l) ++ construct6 rs) [0; 0] = false).
    { destruct (bytes_eqb (enc_route6 (a, l) ++ construct6 rs) [0; 0]) eqn:E; [|reflexivity].
      apply bytes_eqb_eq in E. apply double_default_char in E; [|assumption].
      exfalso. apply (Hd []). exact E. }
    rewrite parse6_step by assumption.
    rewrite IH.
    + reflexivity.
    + assumption.
    + intros p Hp. apply (Hd ((a, l) :: p)). rewrite Hp. reflexivity.
    + rewrite app_length in Hf. cbn [enc_route6 length] in Hf. lia.
Qed.

Lemma parse6_all_construct6 rs : Forall wf_route6 rs -> no_double_default rs ->
  parse6_all (construct6 rs) = Ok (map render_route rs).
Proof. intros. apply parse6_construct6; auto. Qed.

Lemma high_no_double_default rs : Forall (fun r => 2 ^ 32 <= fst r) rs -> no_double_default rs.
Proof.
  intros H p Hp. subst rs. apply Forall_app in H. destruct H as (_ & H).
  inversion H as [|? ? H0 _]; subst. cbn in H0. lia.
Qed.

Lemma map_render_high rs : Forall (fun r => 2 ^ 32 <= fst r) rs ->
  map render_route rs = map (fun r => (V6 (fst r), snd r)) rs.
Proof.
  induction 1 as [|r rs Hr _ IH]; [reflexivity|]. cbn [map]. rewrite IH. unfold render_route at 1.
  rewrite render_high by assumption. reflexivity.
Qed.

(** ---- MP_REACH_NLRI (2, 1) ---- *)
Definition nh6 (g : N) (ll : option N) : bytes :=
  be 16 g ++ match ll with Some x => be 16 x | None => [] end.
Definition nhl6 (ll : option N) : N := match ll with Some _ => 32 | None => 16 end.
Definition reach6u_value (g : N) (ll : option N) (rs : list route6) : bytes :=
  be 2 AFI_INET6 ++ [SAFI_UNICAST] ++ [nhl6 ll] ++ nh6 g ll ++ [0] ++ construct6 rs.

Lemma addr_of_be16 a : a < 2 ^ 128 -> addr_of_bytes (be 16 a) = Ok (render a).
Proof.
  intros H. unfold addr_of_bytes. rewrite int_of_hex_nonempty by (rewrite length_be; lia).
  cbn [bind]. rewrite unbe_be by exact H. apply of_int_render; exact H.
Qed.

Lemma reach6u_parse_value g ll rs :
  g < 2 ^ 128 -> (forall x, ll = Some x -> x < 2 ^ 128) ->
  Forall wf_route6 rs -> no_double_default rs ->
  reach6u_parse (reach6u_value g ll rs) =
  Ok (render g, option_map render ll, map render_route rs).
Proof.
  intros Hg Hll Hw Hd. unfold reach6u_parse, reach6u_value.
  change (be 2 AFI_INET6) with [0; 2]. cbn [app reach_split bind].
  change (0 * 256 + 2 =? AFI_INET6) with true. change (SAFI_UNICAST =? SAFI_UNICAST) with true.
  cbn [andb].
  assert (Hn : length (nh6 g ll) = N.to_nat (nhl6 ll)).
  { unfold nh6, nhl6. destruct ll; rewrite app_length, !length_be; reflexivity. }
  unfold take, drop.
  rewrite firstn_app_len by exact Hn.
  replace (1 + N.to_nat (nhl6 ll))%nat with (length (nh6 g ll ++ [0])) by (rewrite app_length, Hn; cbn; lia).
  replace (nh6 g ll ++ 0 :: construct6 rs) with ((nh6 g ll ++ [0]) ++ construct6 rs) by (rewrite <- app_assoc; reflexivity).
  rewrite skipn_app_len by reflexivity.
  rewrite parse6_all_construct6 by assumption.
  unfold nh6. destruct ll as [x|].
  - rewrite firstn_app_len by apply length_be.
    rewrite skipn_app_len by apply length_be.
    rewrite addr_of_be16 by assumption.
    unfold len. rewrite app_length, !length_be. change (N.of_nat (16 + 16) =? 32) with true.
    cbn [bind]. rewrite addr_of_be16 by (apply Hll; reflexivity). reflexivity.
  - rewrite app_nil_r. rewrite firstn_all2 by (rewrite length_be; lia).
    rewrite addr_of_be16 by assumption.
    unfold len. rewrite length_be. change (N.of_nat 16 =? 32) with false. reflexivity.
Qed.

Lemma reach6u_construct_value g ll rs :
  len (reach6u_value g ll rs) <= 65535 ->
  reach6u_construct g ll rs =
  Ok ([c_ATTR_MpReachNLRI_FLAG; c_ATTR_MpReachNLRI_ID] ++ be 2 (len (reach6u_value g ll rs)) ++ reach6u_value g ll rs).
Proof.
  intros H. unfold reach6u_construct, reach_attr, reach_value.
  replace (255 <? match ll with Some _ => 32 | None => 16 end) with false by (destruct ll; reflexivity).
  cbn [bind]. unfold attr. fold (nh6 g ll). fold (nhl6 ll). fold (reach6u_value g ll rs).
  destruct (65535 <? len (reach6u_value g ll rs)) eqn:E; [apply N.ltb_lt in E; lia | reflexivity].
Qed.

(** behaviour on every in-range IPv6 unicast MP_REACH_NLRI *)
Theorem reach6u_behaviour g ll rs :
  g < 2 ^ 128 -> (forall x, ll = Some x -> x < 2 ^ 128) ->
  Forall wf_route6 rs -> no_double_default rs -> len (reach6u_value g ll rs) <= 65535 ->
  exists v, reach6u_construct g ll rs =
              Ok ([c_ATTR_MpReachNLRI_FLAG; c_ATTR_MpReachNLRI_ID] ++ be 2 (len v) ++ v) /\
            reach6u_parse v = Ok (render g, option_map render ll, map render_route rs).
Proof.
  intros. exists (reach6u_value g ll rs). split.
  - apply reach6u_construct_value; assumption.
  - apply reach6u_parse_value; assumption.
Qed.

(** the round trip proper: every address (next hops and prefixes) at or above 2^32 *)
Theorem reach6u_roundtrip g ll rs :
  2 ^ 32 <= g < 2 ^ 128 -> (forall x, ll = Some x -> 2 ^ 32 <= x < 2 ^ 128) ->
  Forall wf_route6 rs -> Forall (fun r => 2 ^ 32 <= fst r) rs -> len (reach6u_value g ll rs) <= 65535 ->
  exists v, reach6u_construct g ll rs =
              Ok ([c_ATTR_MpReachNLRI_FLAG; c_ATTR_MpReachNLRI_ID] ++ be 2 (len v) ++ v) /\
            reach6u_parse v = Ok (V6 g, option_map V6 ll, map (fun r => (V6 (fst r), snd r)) rs).
Proof.
  intros Hg Hll Hw Hh Hlen.
  destruct (reach6u_behaviour g ll rs) as (v & Hc & Hp); try assumption.
  - lia.
  - intros x Hx. apply Hll in Hx. lia.
  - apply high_no_double_default; assumption.
  - exists v. split; [exact Hc|]. rewrite Hp. rewrite render_high by lia.
    rewrite map_render_high by assumption.
    destruct ll as [x|]; [|reflexivity]. cbn [option_map]. rewrite render_high; [reflexivity|].
    apply (Hll x eq_refl).
Qed.

(** ---- MP_UNREACH_NLRI (2, 1) ---- *)
Definition unreach6u_value (rs : list route6) : bytes := be 2 AFI_INET6 ++ [SAFI_UNICAST] ++ construct6 rs.

Theorem unreach6u_behaviour rs :
  rs <> [] -> Forall wf_route6 rs -> no_double_default rs -> len (unreach6u_value rs) <= 65535 ->
  exists v, unreach6u_construct rs =
              Ok (Some ([c_ATTR_MpUnReachNLRI_FLAG; c_ATTR_MpUnReachNLRI_ID] ++ be 2 (len v) ++ v)) /\
            unreach6u_parse v = Ok (map render_route rs).
Proof.
  intros Hne Hw Hd Hlen. exists (unreach6u_value rs). split.
  - unfold unreach6u_construct. destruct (construct6 rs) eqn:E.
    + apply construct6_nil in E. contradiction.
    + rewrite <- E. unfold unreach_attr, attr. fold (unreach6u_value rs).
      destruct (65535 <? len (unreach6u_value rs)) eqn:E2; [apply N.ltb_lt in E2; lia | reflexivity].
  - unfold unreach6u_parse, unreach6u_value. change (be 2 AFI_INET6) with [0; 2].
    cbn [app unreach_split bind].
    change (0 * 256 + 2 =? AFI_INET6) with true. change (SAFI_UNICAST =? SAFI_UNICAST) with true.
    cbn [andb]. apply parse6_all_construct6; assumption.
Qed.

Theorem unreach6u_roundtrip rs :
  rs <> [] -> Forall wf_route6 rs -> Forall (fun r => 2 ^ 32 <= fst r) rs ->
  len (unreach6u_value rs) <= 65535 ->
  exists v, unreach6u_construct rs =
              Ok (Some ([c_ATTR_MpUnReachNLRI_FLAG; c_ATTR_MpUnReachNLRI_ID] ++ be 2 (len v) ++ v)) /\
            unreach6u_parse v = Ok (map (fun r => (V6 (fst r), snd r)) rs).
Proof.
  intros Hne Hw Hh Hlen.
  destruct (unreach6u_behaviour rs) as (v & Hc & Hp); try assumption.
  - apply high_no_double_default; assumption.
  - exists v. split; [exact Hc|]. rewrite Hp. f_equal. apply map_render_high; assumption.
Qed.

(** ---- the defects, on concrete inputs ---- *)
Definition w_default : bytes := [0; 2; 1; 16] ++ be 16 (2 ^ 125) ++ [0] ++ [0].
Lemma refuted_default_route :
  reach6u_construct (2 ^ 125) None [(0, 0)] = Ok ([144; 14] ++ be 2 (len w_default) ++ w_default) /\
  reach6u_parse w_default = Ok (V6 (2 ^ 125), None, [(V4 0, 0)]).
Proof. split; vm_compute; reflexivity. Qed.

Definition w_low : bytes := [0; 2; 1; 16] ++ be 16 1 ++ [0] ++ [128] ++ be 16 16909060.
Lemma refuted_low_address :
  reach6u_construct 1 None [(16909060, 128)] = Ok ([144; 14] ++ be 2 (len w_low) ++ w_low) /\
  reach6u_parse w_low = Ok (V4 1, None, [(V4 16909060, 128)]).
Proof. split; vm_compute; reflexivity. Qed.

Definition w_dd : bytes := [0; 2; 1; 0; 0].
Lemma refuted_double_default :
  unreach6u_construct [(0, 0); (0, 0)] = Ok (Some ([144; 15] ++ be 2 (len w_dd) ++ w_dd)) /\
  unreach6u_parse w_dd = Ok [].
Proof. split; vm_compute; reflexivity. Qed.
