(** C10: containment of hostile input (beyond no_escape): report counting, malformed UPDATE. *)
From YV Require Import lib.Base model.YWorld model.YProto gen.Consts gen.FsmGen model.YFraming
  model.YSession proof.SessionPres proof.SessionInv proof.SessionSym proof.SessionFraming.
From Coq Require Import Arith PeanoNat.

(** a "report to the application about a received message" *)
Definition is_report (o : out) : bool :=
  match o with
  | OHandler HOpenReceived | OHandler HKeepalive | OHandler HUpdate | OHandler HUpdateError
  | OHandler HNotification | OHandler (HRouteRefresh _) => true
  | _ => false
  end.
Fixpoint reports (l : list out) : nat :=
  match l with [] => 0 | o :: r => (if is_report o then 1 else 0) + reports r end.

Definition PR (n : nat) (w : world) : Prop := reports (w_out w) = n.

Lemma PR_frame n w w' : w_out w' = w_out w -> PR n w -> PR n w'.
Proof. unfold PR. intros ->. auto. Qed.
Lemma PR_emit n o w : is_report o = false -> PR n w -> PR n (emit o w).
Proof. unfold PR, emit. cbn. intros ->. auto. Qed.
Lemma PR_conn_write n c m w : PR n w -> PR n (conn_write c m w).
Proof. intros H. unfold conn_write. destruct (conn_connected c w); auto; try (apply PR_emit; auto). Qed.
Lemma PR_set_tm n t v w : PR n w -> PR n (set_tm t v w).
Proof. apply PR_frame. destruct t; reflexivity. Qed.
Lemma PR_with_proto n f w : (forall c w, PR n w -> PR n (f c w)) -> PR n w -> PR n (with_proto f w).
Proof. intros Hf H. unfold with_proto. destruct (w_proto w); auto; try (apply PR_emit; auto). Qed.

Lemma PR_prims n : prims_ok (PR n).
Proof.
  constructor.
  - intros s w H. unfold set_state. destruct (bst_eqb s (w_state w)); auto.
    destruct s; try (eapply PR_frame; [|exact H]; reflexivity).
    apply PR_emit; [reflexivity|]. eapply PR_frame; [|exact H]. reflexivity.
  - intros; unfold tm_reset; apply PR_set_tm; auto.
  - intros; unfold tm_cancel; apply PR_set_tm; auto.
  - intros; unfold tm_active; cbn [snd]; apply PR_set_tm; auto.
  - intros x w H; eapply PR_frame; [|exact H]; reflexivity.
  - intros x w H; eapply PR_frame; [|exact H]; reflexivity.
  - intros x w H; eapply PR_frame; [|exact H]; reflexivity.
  - intros x w H; eapply PR_frame; [|exact H]; reflexivity.
  - intros w H. apply PR_with_proto; auto. intros c w' H'. unfold conn_send_open. cbv beta zeta.
    apply PR_emit; auto. eapply PR_frame; [reflexivity|]. apply PR_conn_write.
    unfold capability_negotiate. destruct (w_capr w'); auto;
      try (eapply PR_frame; [|exact H']; reflexivity).
  - intros w H. apply PR_with_proto; auto. intros c w' H'. unfold conn_send_keepalive.
    apply PR_conn_write. eapply PR_frame; [|exact H']; reflexivity.
  - intros code s d w H. apply PR_with_proto; auto. intros c w' H'. unfold conn_send_notification.
    apply PR_conn_write. eapply PR_frame; [|exact H']; reflexivity.
  - intros w H. apply PR_with_proto; auto. intros c w' H'. unfold conn_close.
    destruct (conn_connected c w'); [|exact H'].
    apply (PR_frame n (if c_closing (get_conn c w') then w' else emit (OLose c) w')); [reflexivity|].
    destruct (c_closing (get_conn c w')); [exact H'|apply PR_emit; [reflexivity|exact H']].
  - intros w H. unfold peering_connect. destruct (st_is w StEstablished); auto.
Qed.

Lemma PR_negotiate n h w : PR n w -> PR n (negotiate_hold_time h w).
Proof.
  intros H. unfold negotiate_hold_time. cbv zeta.
  apply (PR_frame n (if hold_refused h (w_hold (set_w_hold (N.min (w_hold w) h) w))
                     then F_open_message_error c_ERR_MSG_OPEN_UNACCPT_HOLD_TIME [] (set_w_hold (N.min (w_hold w) h) w)
                     else set_w_hold (N.min (w_hold w) h) w)); [reflexivity|].
  match goal with |- PR n (if ?b then _ else _) => destruct b end.
  - apply pres_open_message_error; auto using PR_prims.
  - exact H.
Qed.

Section C10.
Variable D : decoders.

(** one well-framed message => at most one report (whatever the decoders return) *)
Lemma dispatch_reports c ty msg w n : PR n w ->
  PR n (snd (dispatch D c ty msg w)) \/ PR (S n) (snd (dispatch D c ty msg w)).
Proof.
  intros H. pose proof (PR_prims n) as OK. pose proof (PR_prims (S n)) as OK1.
  assert (Hup : forall c f w k, PR k w -> PR k (upd_conn c f w))
    by (intros; eapply PR_frame; [|eassumption]; reflexivity).
  assert (Hrep : forall o w, is_report o = true -> PR n w -> PR (S n) (emit o w))
    by (intros o w0 Ho Hw; unfold PR, emit in *; cbn; rewrite Ho, Hw; reflexivity).
  unfold dispatch.
  repeat match goal with |- context [snd (if ?b then _ else _)] => destruct b end.
  - unfold open_received. cbv zeta.
    destruct (d_open D msg) as [sub|sub| |asn hold caps]; cbn [snd].
    + left. apply pres_header_error; auto.
    + left. apply pres_open_message_error; auto.
    + left. auto.
    + destruct (negb _); cbn [snd].
      * left. apply pres_open_message_error; auto.
      * right. apply Hrep; auto. apply pres_open_received0; auto.
        apply PR_negotiate.
        match goal with |- PR n (if ?b then _ else _) => destruct b end; auto.
  - unfold update_received. destruct (d_update D _ msg); cbn [snd].
    + right. apply pres_update_received0; auto.
    + right. apply pres_update_received0; auto.
    + left. auto.
  - unfold notification_received. destruct msg as [|e [|s r]]; cbn [snd]; auto.
    right. apply pres_notification_received0; auto.
  - unfold keepalive_received. cbv zeta. destruct msg; cbn [snd]; right.
    + apply pres_keep_alive_received; auto.
    + apply pres_header_error; auto.
  - unfold route_refresh_received. destruct (Nat.eqb (length msg) 4); cbn [snd]; auto.
  - cbn [snd]. left. apply pres_header_error; auto.
Qed.

(** a malformed UPDATE (decoder reports a sub-error) in Established: one report, the session
    stays Established, the hold timer is re-armed (when the hold time is not 0), the connection
    is not closed and its decode mode is unchanged *)
Lemma bad_update_keeps_session c msg w :
  w_state w = StEstablished ->
  d_update D (c_asn4 (get_conn c w)) msg = UpSubErr ->
  let r := dispatch D c c_MSG_UPDATE msg w in
  fst r = true /\
  w_state (snd r) = StEstablished /\
  w_out (snd r) = OHandler HUpdateError :: w_out w /\
  t_dl (w_th (snd r)) = (if w_hold w =? 0 then t_dl (w_th w) else Some (w_now w + secs (w_hold w))) /\
  w_conns (snd r) = upd_nth c (on_recv bump_upd) (w_conns w).
Proof.
  intros Hs Hd. unfold dispatch.
  change (c_MSG_UPDATE =? c_MSG_OPEN) with false. change (c_MSG_UPDATE =? c_MSG_UPDATE) with true.
  cbv iota. unfold update_received. rewrite Hd. cbv zeta. cbn [fst snd].
  destr_world w. cbn in Hs. subst.
  sym; destruct (hold =? 0); cbn; auto.
Qed.
End C10.
