(** C03: an Established session fed with KEEPALIVEs, by induction over event lists. *)
From YV Require Import lib.Base model.YWorld model.YProto gen.Consts gen.FsmGen model.YFraming
  model.YSession proof.SessionPres proof.SessionInv proof.SessionSym proof.SessionFraming
  proof.SessionField proof.SessionC18 proof.SessionC03.
From Coq Require Import Arith PeanoNat.

Definition ka_frame : bytes := repeat 255 16 ++ [0; 19; 4].

Lemma parse1_keepalive (S : Type) dispatch (hdr : N -> bytes -> S -> S) (s : S) :
  parse1 S dispatch hdr ka_frame s =
  (if fst (dispatch 4 [] s) then PMsg (snd (dispatch 4 [] s)) [] else PStuck (snd (dispatch 4 [] s))).
Proof. reflexivity. Qed.

Definition fed_event (c : nat) (e : event) : bool :=
  match e with
  | EData c' b => Nat.eqb c' c && bytes_eqb b ka_frame
  | EFire TKeepAlive => true
  | EAdvance _ => true
  | ESendUpdate _ _ | ESendBin _ => true
  | _ => false
  end.

(** Established on connection c with negotiated hold time H > 0, nothing buffered *)
Definition EstInv (c : nat) (H : N) (w : world) : Prop :=
  Good c w /\ w_state w = StEstablished /\ w_hold w = H /\ H <> 0 /\
  c_closing (get_conn c w) = false /\ c_disc (get_conn c w) = false /\ c_buf (get_conn c w) = [] /\
  t_dl (w_th w) <> None.

Lemma keepalive_est_exact w : w_state w = StEstablished ->
  F_keep_alive_received w =
  (if w_hold w =? 0 then w else set_w_th (mkTimer (Some (w_now w + secs (w_hold w))) true) w).
Proof.
  intros Hs. destr_world w. cbn in Hs. subst. sym; destruct (hold =? 0); reflexivity.
Qed.

Section Fed.
Variable D : decoders.

Lemma est_keepalive_data c H w : EstInv c H w ->
  let w' := data_received D c ka_frame w in
  EstInv c H w' /\ t_dl (w_th w') = Some (w_now w + secs H) /\
  w_out w' = OHandler HKeepalive :: w_out w.
Proof.
  intros (Hg & Hs & Hh & Hz & Hcl & Hdi & Hb & Hth).
  unfold data_received. cbv zeta. rewrite Hb. cbn [app].
  change (length ka_frame) with 19%nat. cbn [frame_loop].
  rewrite parse1_keepalive.
  unfold dispatch. change (4 =? c_MSG_OPEN) with false. change (4 =? c_MSG_UPDATE) with false.
  change (4 =? c_MSG_NOTIFICATION) with false. change (4 =? c_MSG_KEEPALIVE) with true. cbv iota.
  unfold keepalive_received. cbv zeta. cbn [fst snd].
  set (w1 := emit (OHandler HKeepalive) (upd_conn c (on_recv bump_ka) w)).
  assert (S1 : w_state w1 = StEstablished) by exact Hs.
  rewrite (keepalive_est_exact w1 S1).
  change (w_hold w1) with (w_hold w). rewrite Hh.
  destruct (H =? 0) eqn:EH; [apply N.eqb_eq in EH; congruence|].
  set (w2 := set_w_th _ w1).
  assert (Cw : get_conn c w2 = on_recv bump_ka (get_conn c w)).
  { unfold w2, w1, get_conn, upd_conn, emit. cbn. rewrite nth_upd_nth. rewrite Nat.eqb_refl.
    pose proof (Good_lt c w Hg) as Hl. apply Nat.ltb_lt in Hl. rewrite Hl. reflexivity. }
  unfold conn_closed_by_us. rewrite Cw. change (c_disc (on_recv bump_ka (get_conn c w))) with (c_disc (get_conn c w)).
  rewrite Hdi.
  cbn [frame_loop fst snd]. change (parse1 _ _ _ [] w2) with (@PNeed world). cbv iota. cbn [fst snd].
  set (w3 := upd_conn c (set_c_buf []) w2).
  assert (G3 : Good c w3).
  { assert (G1 : Good c w1) by (apply Good_emit, Good_upd; auto; apply keeps_on_recv).
    destruct G1 as [Gp Gc]. split; [exact Gp|]. unfold w3. rewrite connected_upd_st; auto. }
  assert (C3 : get_conn c w3 = set_c_buf [] (on_recv bump_ka (get_conn c w))).
  { unfold w3, get_conn, upd_conn. cbn [w_conns set_w_conns]. rewrite nth_upd_nth. rewrite Nat.eqb_refl.
    assert (Hl : (c < length (w_conns w2))%nat).
    { unfold w2, w1, upd_conn, emit. cbn. rewrite length_upd_nth. apply Good_lt; auto. }
    apply Nat.ltb_lt in Hl. rewrite Hl. fold (get_conn c w2). rewrite Cw. reflexivity. }
  split; [|split].
  - unfold EstInv. rewrite C3. cbn [c_closing c_disc c_buf set_c_buf on_recv set_c_recv].
    split; [exact G3|]. split; [exact Hs|]. split; [exact Hh|]. split; [exact Hz|].
    split; [exact Hcl|]. split; [exact Hdi|]. split; [reflexivity|].
    unfold w3, w2. cbn. discriminate.
  - reflexivity.
  - reflexivity.
Qed.

Lemma est_keepalive_fire c H w : EstInv c H w ->
  let w' := fire_timer TKeepAlive w in
  EstInv c H w' /\ t_dl (w_th w') = t_dl (w_th w) /\
  (forall o, In o (w_out w') -> In o (w_out w) \/ o = OWrite c WKeepalive).
Proof.
  intros (Hg & Hs & Hh & Hz & Hcl & Hdi & Hb & Hth).
  destr_world w. unfold get_conn in Hcl, Hdi, Hb. cbn in Hs, Hh, Hcl, Hdi, Hb, Hth. subst st.
  conn_facts Hg c conns. subst proto. rewrite En in Hcl, Hdi, Hb.
  assert (Hzz : (0 <? hold) = true) by (apply N.ltb_lt; lia).
  unfold EstInv, Good.
  destruct tka_dl as [d|]; [|cbn; unfold conn_connected, get_conn; cbn; rewrite E, En; repeat split; auto].
  sym_c; rewrite ?Hzz; cbn; rewrite ?E, ?En, ?Hlt, ?Nat.eqb_refl; cbn; rewrite ?Hk; cbn;
    repeat split; auto; try (intros o Ho; cbn in Ho; destruct Ho as [Ho|Ho]; [right; symmetry; exact Ho | left; exact Ho]);
    rewrite ?nth_error_upd_nth, ?nth_upd_nth, ?Nat.eqb_refl, ?E, ?En, ?Hlt; cbn; auto.
Qed.

Lemma est_advance c H d w : EstInv c H w -> EstInv c H (set_w_now (w_now w + d) w).
Proof. intros X. exact X. Qed.

Lemma est_api c H w f b : EstInv c H w ->
  let w' := with_proto (fun c w => upd_conn c (on_sent f) (conn_write c (WRaw b) w)) w in
  EstInv c H w' /\ t_dl (w_th w') = t_dl (w_th w) /\
  (forall o, In o (w_out w') -> In o (w_out w) \/ o = OWrite c (WRaw b)).
Proof.
  intros (Hg & Hs & Hh & Hz & Hcl & Hdi & Hb & Hth).
  destr_world w. unfold get_conn in Hcl, Hdi, Hb. cbn in Hs, Hh, Hcl, Hdi, Hb, Hth. subst st.
  conn_facts Hg c conns. subst proto. rewrite En in Hcl, Hdi, Hb.
  unfold EstInv, Good.
  sym_c; cbn; rewrite ?E, ?En, ?Hlt, ?Nat.eqb_refl; cbn; rewrite ?Hk; cbn; repeat split; auto;
    try (intros o Ho; cbn in Ho; destruct Ho as [Ho|Ho]; [right; symmetry; exact Ho | left; exact Ho]);
    rewrite ?nth_error_upd_nth, ?nth_upd_nth, ?Nat.eqb_refl, ?E, ?En, ?Hlt; cbn; auto.
Qed.

(** outputs a fed Established session may produce: nothing that ends it *)
Definition fed_out (c : nat) (o : out) : Prop :=
  o = OHandler HKeepalive \/ o = OWrite c WKeepalive \/ exists b, o = OWrite c (WRaw b).

Lemma est_step c H e w : EstInv c H w -> fed_event c e = true ->
  EstInv c H (step D w e) /\ Forall (fed_out c) (w_out (step D w e)) /\
  (forall b, e = EData c b -> enabled w e = true -> t_dl (w_th (step D w e)) = Some (w_now w + secs H)).
Proof.
  intros Hi Hf. unfold step.
  assert (H0 : EstInv c H (set_w_out [] w)) by exact Hi.
  destruct (enabled w e) eqn:En; [|split; [exact H0|split; [constructor|discriminate]]].
  destruct e; cbn in Hf; try discriminate; cbn [do_event].
  - apply andb_true_iff in Hf. destruct Hf as [Hc Hb]. apply Nat.eqb_eq in Hc. apply bytes_eqb_eq in Hb. subst.
    pose proof (est_keepalive_data c H (set_w_out [] w) H0) as X. cbv zeta in X. destruct X as (A & B & C).
    split; [exact A|]. split; [|intros; exact B].
    change (Forall (fed_out c) (w_out (data_received D c ka_frame (set_w_out [] w)))). rewrite C.
    constructor; [left; reflexivity|constructor].
  - destruct t; try discriminate.
    destruct (est_keepalive_fire c H (set_w_out [] w) H0) as (A & B & C).
    split; [exact A|]. split; [|discriminate].
    apply Forall_forall. intros o Ho. destruct (C o Ho) as [ [] | -> ]. right; left; reflexivity.
  - split; [exact H0|]. split; [constructor|discriminate].
  - unfold api_send_update. destruct ok; [|split; [exact H0|split; [constructor|discriminate]]].
    destruct (est_api c H (set_w_out [] w) bump_upd b H0) as (A & B & C).
    split; [exact A|]. split; [|discriminate].
    apply Forall_forall. intros o Ho. destruct (C o Ho) as [ [] | -> ]. right; right; eauto.
  - unfold api_send_bin.
    destruct (est_api c H (set_w_out [] w) bump_upd b H0) as (A & B & C).
    split; [exact A|]. split; [|discriminate].
    apply Forall_forall. intros o Ho. destruct (C o Ho) as [ [] | -> ]. right; right; eauto.
Qed.

(** as long as the peer's KEEPALIVEs keep arriving (the event list contains only such arrivals,
    the agent's own keepalive timer, REST sends and time passing — in any number and order), the
    session stays Established on the same connection and nothing but KEEPALIVEs, the reports of
    the arrivals and the REST messages is output *)
Theorem alive_while_fed : forall c H es w,
  EstInv c H w -> forallb (fed_event c) es = true ->
  EstInv c H (run D w es) /\ Forall (fed_out c) (run_outs D w es).
Proof.
  intros c H es. induction es as [|e es IH]; intros w Hi Hf; cbn [run fold_left run_outs].
  - split; [exact Hi|constructor].
  - cbn in Hf. apply andb_true_iff in Hf. destruct Hf as [Hf1 Hf2].
    destruct (est_step c H e w Hi Hf1) as (A & B & _).
    destruct (IH (step D w e) A Hf2) as (A' & B').
    split; [exact A'|]. apply Forall_app. split; [apply Forall_rev; exact B|exact B'].
Qed.

(** and each arrival moves the hold deadline to exactly H seconds after it *)
Theorem hold_deadline_after_arrival : forall c H w,
  EstInv c H w -> enabled w (EData c ka_frame) = true ->
  t_dl (w_th (step D w (EData c ka_frame))) = Some (w_now w + secs H).
Proof.
  intros c H w Hi En. destruct (est_step c H (EData c ka_frame) w Hi) as (_ & _ & X).
  - cbn. rewrite Nat.eqb_refl. reflexivity.
  - apply (X ka_frame); auto.
Qed.
End Fed.
