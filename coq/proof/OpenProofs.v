(** Proofs about the OPEN codec model (model/YOpen.v) against the reference encoder
    (spec/RefOpen.v). *)
From YV Require Import lib.Base gen.Consts model.YMsg model.YOpen spec.RefOpen proof.MsgProofs.
From Coq Require Import ZArith ZifyBool ZifyNat ZifyN.
Ltac Zify.zify_post_hook ::= Z.to_euclidean_division_equations.

(* ------------------------------------------------------------------------------------- *)
(** * What a receiver must report for a sequence of capabilities (the decoder's dictionary form)

    One update of (true AS, dictionary) per capability, in wire order:
    - [Mp]: appended to 'afi_safi';  flags: key set;  [As4 a]: 'four_bytes_as' set and the AS
      becomes [a] (the last one wins);  [AddPath l]: entries appended to 'add_path';
    - [ExtNexthop l] / [Llgr l]: the key holds the entries of the LAST such capability
      (LLGR flags octet dropped);  [GracefulRestart]: only the key (value ignored);
    - [Unknown code v]: str(code) -> repr(v), a later value replacing an earlier one in place. *)
Definition llgr_view (x : N * N * N * N) : N * N * N := (fst (fst (fst x)), snd (fst (fst x)), snd x).

Definition hl_apply (c : capability) (st : N * capa_dict) : N * capa_dict :=
  let asn := fst st in
  let d := snd st in
  match c with
  | Mp afi safi => (asn, set_afi_safi (Some (olist (cd_afi_safi d) ++ [(afi, safi)])) d)
  | RouteRefresh => (asn, set_rr d)
  | CiscoRouteRefresh => (asn, set_cisco_rr d)
  | EnhancedRR => (asn, set_err d)
  | GracefulRestart _ _ _ => (asn, set_gr d)
  | As4 a => (a, set_four d)
  | AddPath l => (asn, set_add_path (Some (olist (cd_add_path d) ++ l)) d)
  | ExtNexthop l => (asn, set_ext_nh (Some l) d)
  | Llgr l => (asn, set_llgr (Some (map llgr_view l)) d)
  | Unknown code v => (asn, set_other (other_set code v (cd_other d)) d)
  end.

Definition decode_from (cs : list capability) (st : N * capa_dict) : N * capa_dict :=
  fold_left (fun st c => hl_apply c st) cs st.
Definition decode_caps (my_as : N) (cs : list capability) : N * capa_dict :=
  decode_from cs (my_as, cd_empty).

(* ------------------------------------------------------------------------------------- *)
(** * list / length helpers *)
Lemma to_nat_len (a : bytes) : N.to_nat (len a) = length a.
Proof. unfold len. apply Nnat.Nat2N.id. Qed.

Lemma take_len_app (a b : bytes) : take (N.to_nat (len a)) (a ++ b) = a.
Proof.
  rewrite to_nat_len. unfold take. induction a as [|x a IH]; cbn.
  - destruct b; reflexivity.
  - f_equal. exact IH.
Qed.

Lemma drop_len_app (a b : bytes) : drop (N.to_nat (len a)) (a ++ b) = b.
Proof. rewrite to_nat_len. unfold drop. induction a as [|x a IH]; cbn; auto. Qed.

Lemma len_nil : len [] = 0. Proof. reflexivity. Qed.
Lemma len_cons x (a : bytes) : len (x :: a) = len a + 1.
Proof. unfold len. cbn [length]. lia. Qed.

Lemma be2_shape n : exists x y, be 2 n = [x; y]. Proof. cbn; eauto. Qed.
Lemma be3_shape n : exists x y z, be 3 n = [x; y; z]. Proof. cbn; eauto. Qed.
Lemma be4_shape n : exists x y z w, be 4 n = [x; y; z; w]. Proof. cbn; eauto. Qed.

Lemma unbe_be2 n : n <= 65535 -> unbe (be 2 n) = n.
Proof. intros. apply unbe_be. cbn. lia. Qed.
Lemma unbe_be3 n : n < 16777216 -> unbe (be 3 n) = n.
Proof. intros. apply unbe_be. cbn. lia. Qed.
Lemma unbe_be4 n : n <= 4294967295 -> unbe (be 4 n) = n.
Proof. intros. apply unbe_be. cbn. lia. Qed.
Lemma unbe_0_cons l : unbe (0 :: l) = unbe l.
Proof. reflexivity. Qed.

(* ------------------------------------------------------------------------------------- *)
(** * the two loops on well-formed TLV sequences *)
Fixpoint apply_tlvs (ts : list tlv) (asn : N) (d : capa_dict) : res (N * capa_dict) :=
  match ts with
  | [] => Ok (asn, d)
  | t :: r => res_bind (cap_apply (fst t) (snd t) asn d) (fun st => apply_tlvs r (fst st) (snd st))
  end.

Fixpoint apply_params (ps : list (list tlv)) (asn : N) (d : capa_dict) : res (N * capa_dict) :=
  match ps with
  | [] => Ok (asn, d)
  | p :: r => res_bind (apply_tlvs p asn d) (fun st => apply_params r (fst st) (snd st))
  end.

Lemma enc_tlvs_cons t ts : enc_tlvs (t :: ts) = fst t :: len (snd t) :: (snd t ++ enc_tlvs ts).
Proof. reflexivity. Qed.
Lemma enc_params_cons p ps :
  enc_params (p :: ps) = 2 :: len (enc_tlvs p) :: (enc_tlvs p ++ enc_params ps).
Proof. reflexivity. Qed.

Lemma caps_loop_tlvs : forall ts fuel asn d, (length ts <= fuel)%nat ->
  caps_loop fuel (enc_tlvs ts) asn d = apply_tlvs ts asn d.
Proof.
  induction ts as [|t ts IH]; intros fuel asn d Hf.
  - destruct fuel; reflexivity.
  - destruct fuel as [|f]; [cbn in Hf; lia|].
    rewrite enc_tlvs_cons. cbn [caps_loop apply_tlvs].
    rewrite take_len_app, drop_len_app.
    destruct (cap_apply (fst t) (snd t) asn d) as [[a' d']| |]; cbn [res_bind fst snd]; auto.
    apply IH. cbn in Hf. lia.
Qed.

Lemma length_enc_tlvs ts : (length ts <= length (enc_tlvs ts))%nat.
Proof.
  induction ts as [|t ts IH]; [cbn; lia|].
  rewrite enc_tlvs_cons. cbn [length]. rewrite app_length. lia.
Qed.

Lemma length_enc_params ps : (length ps <= length (enc_params ps))%nat.
Proof.
  induction ps as [|p ps IH]; [cbn; lia|].
  rewrite enc_params_cons. cbn [length]. rewrite app_length. lia.
Qed.

Lemma params_loop_params : forall ps fuel asn d, (length ps <= fuel)%nat ->
  params_loop fuel (enc_params ps) asn d = apply_params ps asn d.
Proof.
  induction ps as [|p ps IH]; intros fuel asn d Hf.
  - destruct fuel; reflexivity.
  - destruct fuel as [|f]; [cbn in Hf; lia|].
    rewrite enc_params_cons. cbn [params_loop apply_params].
    change (negb (2 =? 2)) with false. cbv iota.
    rewrite take_len_app, drop_len_app.
    rewrite caps_loop_tlvs by (rewrite app_length; pose proof (length_enc_tlvs p); lia).
    destruct (apply_tlvs p asn d) as [[a' d']| |]; cbn [res_bind fst snd]; auto.
    apply IH. cbn in Hf. lia.
Qed.

Lemma apply_tlvs_app a b asn d :
  apply_tlvs (a ++ b) asn d = res_bind (apply_tlvs a asn d) (fun st => apply_tlvs b (fst st) (snd st)).
Proof.
  revert asn d; induction a as [|t a IH]; intros asn d; [reflexivity|].
  cbn [app apply_tlvs].
  destruct (cap_apply (fst t) (snd t) asn d) as [[a' d']| |]; cbn [res_bind fst snd]; auto.
Qed.

Lemma apply_params_concat ps : forall asn d, apply_params ps asn d = apply_tlvs (concat ps) asn d.
Proof.
  induction ps as [|p ps IH]; intros asn d; [reflexivity|].
  cbn [apply_params concat]. rewrite apply_tlvs_app.
  destruct (apply_tlvs p asn d) as [[a' d']| |]; cbn [res_bind fst snd]; auto.
Qed.

(* ------------------------------------------------------------------------------------- *)
(** * the value loops on reference encodings *)
Lemma known_family_b p : In p known_families -> afi_safi_knownb (fst p) (snd p) = true.
Proof.
  intros H. unfold afi_safi_knownb. apply existsb_exists. exists p. split; [exact H|].
  unfold pair_eqb. destruct p; cbn [fst snd]. rewrite !N.eqb_refl. reflexivity.
Qed.

Lemma act_b v : 1 <= v <= 3 -> add_path_actb v = true.
Proof.
  intros H. assert (E : v = 1 \/ v = 2 \/ v = 3) by lia.
  destruct E as [-> | [-> | ->]]; reflexivity.
Qed.

Lemma length_concat_fam3 l : length (concat (map enc_fam3 l)) = (4 * length l)%nat.
Proof.
  induction l as [|x l IH]; [reflexivity|].
  cbn [map concat]. rewrite app_length, IH. unfold enc_fam3. rewrite app_length, length_be. cbn [length]. lia.
Qed.

Lemma addpath_loop_ref l :
  Forall (fun x => In (fst x) known_families /\ 1 <= snd x <= 3) l ->
  addpath_loop (concat (map enc_fam3 l)) = Ok l.
Proof.
  induction 1 as [|x l [Hk Hs] Hl IH]; [reflexivity|].
  cbn [map concat].
  assert (Hlen : len (enc_fam3 x ++ concat (map enc_fam3 l)) = 4 * N.of_nat (length l) + 4).
  { unfold len. rewrite app_length, length_concat_fam3. unfold enc_fam3.
    rewrite app_length, length_be. cbn [length]. lia. }
  destruct x as [[afi safi] sr]. unfold enc_fam3 in *. cbn [fst snd] in *.
  destruct (be2_shape afi) as (a1 & a0 & E). rewrite E in *.
  cbn [app] in *. cbn [addpath_loop].
  rewrite Hlen.
  assert (Hc : ((4 * N.of_nat (length l) + 4) mod 4 =? 0) && negb (4 * N.of_nat (length l) + 4 =? 0) = true) by lia.
  rewrite Hc. rewrite <- E.
  assert (Ha : afi <= 65535).
  { clear - Hk. cbn in Hk.
    repeat (destruct Hk as [Hk|Hk]; [inversion Hk; subst; lia|]). contradiction. }
  rewrite unbe_be2 by exact Ha.
  pose proof (known_family_b (afi, safi) Hk) as Hkb. cbn [fst snd] in Hkb.
  rewrite Hkb, (act_b sr Hs). cbn [andb].
  rewrite IH. reflexivity.
Qed.

Lemma ext_loop_ref l :
  Forall (fun x => fst (fst x) <= 65535 /\ snd (fst x) <= 65535 /\ snd x <= 65535) l ->
  ext_loop (concat (map enc_ext l)) = Ok l.
Proof.
  induction 1 as [|x l (Ha & Hs & Hn) Hl IH]; [reflexivity|].
  cbn [map concat]. destruct x as [[afi safi] nh]. cbn [fst snd] in *.
  change (enc_ext (afi, safi, nh)) with (be 2 afi ++ be 2 safi ++ be 2 nh).
  destruct (be2_shape afi) as (a1 & a0 & Ea). destruct (be2_shape safi) as (s1 & s0 & Es).
  destruct (be2_shape nh) as (n1 & n0 & En). rewrite Ea, Es, En.
  cbn [app ext_loop]. rewrite <- Ea, <- Es, <- En.
  rewrite !unbe_be2 by assumption. rewrite IH. reflexivity.
Qed.

Lemma llgr_loop_ref l :
  Forall (fun x => fam3_ok (fst x) /\ snd x < 16777216) l ->
  llgr_loop (concat (map enc_llgr l)) = map llgr_view l.
Proof.
  induction 1 as [|x l ((Ha & Hs & Hf) & Ht) Hl IH]; [reflexivity|].
  cbn [map concat]. destruct x as [[[afi safi] fl] tm]. cbn [fst snd] in *.
  change (enc_llgr (afi, safi, fl, tm)) with (be 2 afi ++ [safi; fl] ++ be 3 tm).
  change (llgr_view (afi, safi, fl, tm)) with (afi, safi, tm).
  destruct (be2_shape afi) as (a1 & a0 & Ea). destruct (be3_shape tm) as (t2 & t1 & t0 & Et).
  rewrite Ea, Et. cbn [app llgr_loop]. rewrite unbe_0_cons. rewrite <- Ea, <- Et.
  rewrite unbe_be2, unbe_be3 by assumption. rewrite IH. reflexivity.
Qed.

(** one capability: the dispatch on the code does what [hl_apply] says *)
Lemma cap_apply_ref c asn d : cap_wf c ->
  cap_apply (fst (cap_tlv c)) (snd (cap_tlv c)) asn d = Ok (hl_apply c (asn, d)).
Proof.
  intros W. destruct c as [afi safi| | | |fl tm fams|a|l|l|l|code v]; cbn [cap_tlv fst snd hl_apply] in *.
  - destruct W as [Ha Hs]. unfold cap_apply.
    change (1 =? cap_FOUR_BYTES_ASN) with false. change (1 =? cap_MULTIPROTOCOL_EXTENSIONS) with true. cbv iota.
    destruct (be2_shape afi) as (a1 & a0 & E). rewrite E. cbn [app]. rewrite <- E, unbe_be2 by assumption.
    reflexivity.
  - reflexivity.
  - reflexivity.
  - reflexivity.
  - reflexivity.
  - unfold cap_apply. change (65 =? cap_FOUR_BYTES_ASN) with true. cbv iota.
    destruct (be4_shape a) as (x & y & z & w & E). rewrite E. rewrite <- E, unbe_be4 by exact W. reflexivity.
  - unfold cap_apply.
    change (69 =? cap_FOUR_BYTES_ASN) with false. change (69 =? cap_MULTIPROTOCOL_EXTENSIONS) with false.
    change (69 =? cap_ROUTE_REFRESH) with false. change (69 =? cap_CISCO_ROUTE_REFRESH) with false.
    change (69 =? cap_GRACEFUL_RESTART) with false. change (69 =? cap_CISCO_MULTISESSION_BGP) with false.
    change (69 =? cap_ENHANCED_ROUTE_REFRESH) with false. change (69 =? cap_ADD_PATH) with true. cbv iota.
    rewrite addpath_loop_ref by exact W. reflexivity.
  - unfold cap_apply.
    change (5 =? cap_FOUR_BYTES_ASN) with false. change (5 =? cap_MULTIPROTOCOL_EXTENSIONS) with false.
    change (5 =? cap_ROUTE_REFRESH) with false. change (5 =? cap_CISCO_ROUTE_REFRESH) with false.
    change (5 =? cap_GRACEFUL_RESTART) with false. change (5 =? cap_CISCO_MULTISESSION_BGP) with false.
    change (5 =? cap_ENHANCED_ROUTE_REFRESH) with false. change (5 =? cap_ADD_PATH) with false.
    change (5 =? cap_LLGR) with false. change (5 =? cap_EXTENDED_NEXT_HOP) with true. cbv iota.
    rewrite ext_loop_ref by exact W. reflexivity.
  - unfold cap_apply.
    change (71 =? cap_FOUR_BYTES_ASN) with false. change (71 =? cap_MULTIPROTOCOL_EXTENSIONS) with false.
    change (71 =? cap_ROUTE_REFRESH) with false. change (71 =? cap_CISCO_ROUTE_REFRESH) with false.
    change (71 =? cap_GRACEFUL_RESTART) with false. change (71 =? cap_CISCO_MULTISESSION_BGP) with false.
    change (71 =? cap_ENHANCED_ROUTE_REFRESH) with false. change (71 =? cap_ADD_PATH) with false.
    change (71 =? cap_LLGR) with true. cbv iota.
    rewrite llgr_loop_ref by exact W. reflexivity.
  - destruct W as [_ Hn]. unfold cap_apply.
    assert (F : forall k, In k assigned_codes -> (code =? k) = false).
    { intros k Hk. apply N.eqb_neq. intros ->. exact (Hn Hk). }
    rewrite (F cap_FOUR_BYTES_ASN), (F cap_MULTIPROTOCOL_EXTENSIONS), (F cap_ROUTE_REFRESH),
      (F cap_CISCO_ROUTE_REFRESH), (F cap_GRACEFUL_RESTART), (F cap_CISCO_MULTISESSION_BGP),
      (F cap_ENHANCED_ROUTE_REFRESH), (F cap_ADD_PATH), (F cap_LLGR), (F cap_EXTENDED_NEXT_HOP)
      by (cbn; tauto).
    reflexivity.
Qed.

Lemma apply_tlvs_ref cs : Forall cap_wf cs -> forall asn d,
  apply_tlvs (map cap_tlv cs) asn d = Ok (decode_from cs (asn, d)).
Proof.
  induction 1 as [|c cs Hc Hcs IH]; intros asn d; [reflexivity|].
  cbn [map apply_tlvs]. rewrite cap_apply_ref by exact Hc. cbn [res_bind].
  rewrite IH. unfold decode_from. cbn [fold_left].
  destruct (hl_apply c (asn, d)); reflexivity.
Qed.

(* ------------------------------------------------------------------------------------- *)
(** * Open.parse on a reference-encoded OPEN *)
Lemma concat_map_map {A B} (f : A -> B) (ps : list (list A)) :
  concat (map (map f) ps) = map f (concat ps).
Proof. induction ps as [|p ps IH]; [reflexivity|]. cbn [map concat]. rewrite map_app, IH. reflexivity. Qed.

Lemma len_zero_nil (b : bytes) : len b = 0 -> b = [].
Proof. destruct b; [reflexivity|]. rewrite len_cons. lia. Qed.

Lemma open_parse_reference_body my_as hold id params :
  1 <= my_as <= 65535 -> hold <= 65535 -> id <= 4294967295 -> Forall (Forall cap_wf) params ->
  let st := decode_caps my_as (concat params) in
  let r := mkopen 4 (fst st) hold id (snd st) in
  open_parse (ref_open_body 4 my_as hold id params) = Ok (r, Some r).
Proof.
  intros Has Hh Hi Hw st r.
  unfold ref_open_body, ref_open_body_tlv.
  set (ps := map (map cap_tlv) params).
  destruct (be2_shape my_as) as (a1 & a0 & Ea). destruct (be2_shape hold) as (h1 & h0 & Eh).
  destruct (be4_shape id) as (i3 & i2 & i1 & i0 & Ei). rewrite Ea, Eh, Ei.
  cbn [app]. unfold open_parse, open_parse_gen.
  change (negb (4 =? 4)) with false. cbv iota.
  rewrite <- Ea, <- Eh, <- Ei. rewrite !unbe_be2, unbe_be4 by lia.
  destruct (my_as =? 0) eqn:E0; [lia|].
  assert (Hst : apply_tlvs (concat ps) my_as cd_empty = Ok st).
  { unfold ps. rewrite concat_map_map. apply apply_tlvs_ref.
    apply Forall_concat. exact Hw. }
  destruct (len (enc_params ps) =? 0) eqn:EL.
  - apply N.eqb_eq in EL. apply len_zero_nil in EL.
    assert (Hps : ps = []).
    { destruct ps as [|p ps']; [reflexivity|]. rewrite enc_params_cons in EL. discriminate. }
    rewrite Hps in Hst. cbn in Hst. injection Hst as Hst.
    unfold r. rewrite <- Hst. reflexivity.
  - rewrite params_loop_params by apply length_enc_params.
    rewrite apply_params_concat, Hst. reflexivity.
Qed.

Lemma ref_message_unframe ty body : len body + 19 <= 65535 ->
  unframe (ref_message ty body) = Some (ty, body).
Proof.
  intros H. unfold ref_message. rewrite (N.add_comm 19).
  exact (unframe_framed ty body H).
Qed.

Lemma len_ref_open_body_tlv v a h i ps : len (ref_open_body_tlv v a h i ps) = 10 + len (enc_params ps).
Proof.
  unfold ref_open_body_tlv. unfold len. rewrite !app_length, !length_be. cbn [length]. lia.
Qed.

Lemma open_decodes_reference my_as hold id params :
  1 <= my_as <= 65535 -> hold <= 65535 -> id <= 4294967295 -> params_wf params ->
  unframe (ref_open 4 my_as hold id params) = Some (c_MSG_OPEN, ref_open_body 4 my_as hold id params) /\
  let st := decode_caps my_as (concat params) in
  let r := mkopen 4 (fst st) hold id (snd st) in
  open_parse (ref_open_body 4 my_as hold id params) = Ok (r, Some r).
Proof.
  intros Has Hh Hi [Hw [_ Hfit]]. split.
  - unfold ref_open, ref_open_tlv, ref_open_body. change c_MSG_OPEN with 1.
    apply ref_message_unframe. rewrite len_ref_open_body_tlv. lia.
  - apply open_parse_reference_body; assumption.
Qed.

(* ------------------------------------------------------------------------------------- *)
(** * Open.construct produces exactly the reference encoding of its configuration *)
Definition cfg_caps (asn : N) (c : capcfg) : list capability :=
  map (fun p => Mp (fst p) (snd p)) (olist (cc_afi_safi c)) ++
  (if cc_cisco_rr c then [CiscoRouteRefresh] else []) ++
  (if cc_rr c then [RouteRefresh] else []) ++
  (if (65535 <? asn) || cc_four c then [As4 asn] else []) ++
  (match cc_ext_nh c with Some l => [ExtNexthop l] | None => [] end) ++
  (if cc_add_path c =? 0 then [] else [AddPath [(1, 1, cc_add_path c)]]) ++
  (if cc_err c then [EnhancedRR] else []).

(** the wire form of a capability list sent one capability per parameter *)
Definition wire1 (cs : list capability) : bytes := enc_params (map (map cap_tlv) (one_per_param cs)).

Lemma wire1_app a b : wire1 (a ++ b) = wire1 a ++ wire1 b.
Proof. unfold wire1, one_per_param, enc_params. rewrite !map_app, concat_app. reflexivity. Qed.
Lemma wire1_nil : wire1 [] = []. Proof. reflexivity. Qed.

Lemma wire1_mp afi safi :
  wire1 [Mp afi safi] = [2; 6; cap_MULTIPROTOCOL_EXTENSIONS; 4] ++ be 2 afi ++ [0; safi].
Proof.
  reflexivity.
Qed.

Lemma capa_mp_ref l t : capa_mp l = Ok t ->
  t = wire1 (map (fun p => Mp (fst p) (snd p)) l) /\ Forall cap_wf (map (fun p => Mp (fst p) (snd p)) l).
Proof.
  revert t; induction l as [|[afi safi] l IH]; intros t H.
  - cbn in H. injection H as <-. split; [reflexivity|constructor].
  - cbn [capa_mp] in H.
    destruct ((afi <=? 65535) && (safi <=? 255)) eqn:E; [|discriminate].
    destruct (capa_mp l) as [t'| |]; cbn [res_map res_bind] in H; try discriminate.
    injection H as <-. destruct (IH t' eq_refl) as [-> Hw].
    split.
    + cbn [map fst snd]. change (Mp afi safi :: ?x) with ([Mp afi safi] ++ x). rewrite wire1_app.
      rewrite wire1_mp. rewrite <- !app_assoc. reflexivity.
    + cbn [map fst snd]. constructor; [cbn; lia | exact Hw].
Qed.

Lemma flag_cap_ref (b : bool) code c : cap_tlv c = (code, []) ->
  flag_cap b code = wire1 (if b then [c] else []).
Proof.
  intros H. destruct b; [|reflexivity].
  unfold wire1, one_per_param, enc_params, enc_param, enc_tlvs, enc_tlv. cbn [map concat]. rewrite H. reflexivity.
Qed.

Lemma capa_as4_ref asn t : capa_as4 asn = Ok t -> t = wire1 [As4 asn] /\ cap_wf (As4 asn).
Proof.
  unfold capa_as4. destruct (asn <=? 4294967295) eqn:E; [|discriminate]. intros H; injection H as <-.
  split; [reflexivity|cbn; lia].
Qed.

Lemma capa_ext_value_ref l v : capa_ext_value l = Ok v ->
  v = concat (map enc_ext l) /\
  Forall (fun x => fst (fst x) <= 65535 /\ snd (fst x) <= 65535 /\ snd x <= 65535) l.
Proof.
  revert v; induction l as [|[[afi safi] nh] l IH]; intros v H.
  - cbn in H. injection H as <-. split; [reflexivity|constructor].
  - cbn [capa_ext_value] in H.
    destruct ((afi <=? 65535) && (safi <=? 65535) && (nh <=? 65535)) eqn:E; [|discriminate].
    destruct (capa_ext_value l) as [v'| |]; cbn [res_map res_bind] in H; try discriminate.
    injection H as <-. destruct (IH v' eq_refl) as [-> Hw]. split.
    + reflexivity.
    + constructor; [cbn [fst snd]; lia | exact Hw].
Qed.

Lemma capa_ext_ref l t : capa_ext l = Ok t -> t = wire1 [ExtNexthop l] /\ cap_wf (ExtNexthop l).
Proof.
  unfold capa_ext. destruct (capa_ext_value l) as [v| |] eqn:Ev; cbn [res_bind]; try discriminate.
  destruct (len v + 2 <=? 255) eqn:E; [|discriminate]. intros H; injection H as <-.
  destruct (capa_ext_value_ref l v Ev) as [-> Hw]. split; [|exact Hw].
  unfold wire1, one_per_param, enc_params, enc_param, enc_tlvs, enc_tlv. cbn [map concat cap_tlv fst snd].
  rewrite !app_nil_r. cbn [app]. f_equal. f_equal.
  rewrite !len_cons. lia.
Qed.

Lemma capa_add_path_ref v t : capa_add_path v = Ok t ->
  t = wire1 (if v =? 0 then [] else [AddPath [(1, 1, v)]]) /\
  Forall cap_wf (if v =? 0 then [] else [AddPath [(1, 1, v)]]).
Proof.
  unfold capa_add_path. destruct (v =? 0) eqn:E0.
  - intros H; injection H as <-. split; [reflexivity|constructor].
  - destruct ((1 <=? v) && (v <=? 3)) eqn:E; [|discriminate]. intros H; injection H as <-. split.
    + reflexivity.
    + constructor; [|constructor]. cbn. constructor; [|constructor]. cbn [fst snd]. split; [tauto|lia].
Qed.

Lemma res_bind_ok {A B} (r : res A) (f : A -> res B) b :
  res_bind r f = Ok b -> exists a, r = Ok a /\ f a = Ok b.
Proof. destruct r; cbn; try discriminate. eauto. Qed.

Lemma open_capas_ref asn c capas : open_capas asn c = Ok capas ->
  capas = wire1 (cfg_caps asn c) /\ Forall cap_wf (cfg_caps asn c).
Proof.
  unfold open_capas. intros H.
  apply res_bind_ok in H as (c1 & H1 & H). apply res_bind_ok in H as (c4 & H4 & H).
  apply res_bind_ok in H as (c5 & H5 & H). apply res_bind_ok in H as (c6 & H6 & H).
  injection H as <-.
  unfold cfg_caps. rewrite !wire1_app, !Forall_app.
  assert (G1 : c1 = wire1 (map (fun p => Mp (fst p) (snd p)) (olist (cc_afi_safi c))) /\
               Forall cap_wf (map (fun p => Mp (fst p) (snd p)) (olist (cc_afi_safi c)))).
  { destruct (cc_afi_safi c) as [l|]; cbn [olist].
    - apply capa_mp_ref; exact H1.
    - injection H1 as <-. split; [reflexivity|constructor]. }
  assert (G4 : c4 = wire1 (if (65535 <? asn) || cc_four c then [As4 asn] else []) /\
               Forall cap_wf (if (65535 <? asn) || cc_four c then [As4 asn] else [])).
  { destruct ((65535 <? asn) || cc_four c).
    - destruct (capa_as4_ref asn c4 H4) as [-> W]. split; [reflexivity|constructor; [exact W|constructor]].
    - injection H4 as <-. split; [reflexivity|constructor]. }
  assert (G5 : c5 = wire1 (match cc_ext_nh c with Some l => [ExtNexthop l] | None => [] end) /\
               Forall cap_wf (match cc_ext_nh c with Some l => [ExtNexthop l] | None => [] end)).
  { destruct (cc_ext_nh c) as [l|].
    - destruct (capa_ext_ref l c5 H5) as [-> W]. split; [reflexivity|constructor; [exact W|constructor]].
    - injection H5 as <-. split; [reflexivity|constructor]. }
  destruct (capa_add_path_ref _ _ H6) as [G6 W6].
  destruct G1 as [<- W1], G4 as [<- W4], G5 as [<- W5]. rewrite <- G6.
  rewrite <- (flag_cap_ref (cc_cisco_rr c) cap_CISCO_ROUTE_REFRESH CiscoRouteRefresh eq_refl).
  rewrite <- (flag_cap_ref (cc_rr c) cap_ROUTE_REFRESH RouteRefresh eq_refl).
  rewrite <- (flag_cap_ref (cc_err c) cap_ENHANCED_ROUTE_REFRESH EnhancedRR eq_refl).
  split; [reflexivity|].
  repeat split; try assumption.
  - destruct (cc_cisco_rr c); repeat constructor.
  - destruct (cc_rr c); repeat constructor.
  - destruct (cc_err c); repeat constructor.
Qed.

(** lengths: a total that fits one octet makes every nested length fit *)
Lemma len_enc_tlvs_cons t ts : len (enc_tlvs (t :: ts)) = 2 + len (snd t) + len (enc_tlvs ts).
Proof. rewrite enc_tlvs_cons. rewrite !len_cons, len_app. lia. Qed.
Lemma len_enc_params_cons p ps : len (enc_params (p :: ps)) = 2 + len (enc_tlvs p) + len (enc_params ps).
Proof. rewrite enc_params_cons. rewrite !len_cons, len_app. lia. Qed.

Lemma tlvs_fit ts : len (enc_tlvs ts) <= 255 -> Forall tlv_fits ts.
Proof.
  induction ts as [|t ts IH]; intros H; constructor.
  - unfold tlv_fits. rewrite len_enc_tlvs_cons in H. lia.
  - apply IH. rewrite len_enc_tlvs_cons in H. lia.
Qed.

Lemma params_fit_total ps : len (enc_params ps) <= 255 -> params_fit ps.
Proof.
  intros H. split; [|exact H].
  induction ps as [|p ps IH]; constructor.
  - rewrite len_enc_params_cons in H. split; [apply tlvs_fit; lia | lia].
  - apply IH. rewrite len_enc_params_cons in H. lia.
Qed.

Lemma Forall_one_per_param (P : capability -> Prop) cs :
  Forall P cs -> Forall (Forall P) (one_per_param cs).
Proof. induction 1; cbn; constructor; auto. Qed.

Lemma concat_one_per_param cs : concat (one_per_param cs) = cs.
Proof. induction cs as [|c cs IH]; [reflexivity|]. cbn. f_equal. exact IH. Qed.

Lemma open_construct_is_reference asn hold id c m :
  open_construct 4 asn hold id c = Ok m ->
  m = ref_open 4 (open_asn_field asn) hold id (one_per_param (cfg_caps asn c)) /\
  params_wf (one_per_param (cfg_caps asn c)) /\ hold <= 65535 /\ id <= 4294967295.
Proof.
  unfold open_construct. intros H. apply res_bind_ok in H as (body & Hb & Hh).
  unfold open_body in Hb. apply res_bind_ok in Hb as (capas & Hc & Hb).
  destruct ((4 <=? 255) && (hold <=? 65535) && (id <=? 4294967295) && (len capas <=? 255)) eqn:E;
    [|discriminate].
  injection Hb as <-. destruct (open_capas_ref asn c capas Hc) as [-> W].
  unfold header in Hh.
  match type of Hh with (if ?b then _ else _) = _ => destruct b eqn:E2; [discriminate|] end.
  injection Hh as <-.
  split; [|split; [split|]].
  - unfold ref_open, ref_open_tlv, ref_message, ref_open_body_tlv, wire1, marker16.
    rewrite (N.add_comm 19). reflexivity.
  - apply Forall_one_per_param. exact W.
  - apply params_fit_total. fold (wire1 (cfg_caps asn c)). lia.
  - lia.
Qed.

(* ------------------------------------------------------------------------------------- *)
(** * round trip *)

(** the dictionary Open.parse builds from an OPEN constructed for configuration [c] *)
Definition cfg_dict (asn : N) (c : capcfg) : capa_dict :=
  mkcd ((65535 <? asn) || cc_four c)
       (match cc_afi_safi c with Some (x :: l) => Some (x :: l) | _ => None end)
       (cc_rr c) (cc_cisco_rr c) false false (cc_err c)
       (if cc_add_path c =? 0 then None else Some [(1, 1, cc_add_path c)])
       None (cc_ext_nh c) [].

Lemma decode_from_app a b st : decode_from (a ++ b) st = decode_from b (decode_from a st).
Proof. unfold decode_from. apply fold_left_app. Qed.

Lemma decode_from_mp l : forall asn d,
  decode_from (map (fun p => Mp (fst p) (snd p)) l) (asn, d) =
  (asn, match l with [] => d | _ => set_afi_safi (Some (olist (cd_afi_safi d) ++ l)) d end).
Proof.
  induction l as [|[afi safi] l IH]; intros asn d; [reflexivity|].
  cbn [map]. unfold decode_from in *. cbn [fold_left hl_apply fst snd]. rewrite IH.
  destruct l as [|y l]; [reflexivity|].
  f_equal. destruct d; cbn. unfold set_afi_safi; cbn. rewrite <- app_assoc. reflexivity.
Qed.

Lemma decode_cfg_caps asn c :
  decode_caps (open_asn_field asn) (cfg_caps asn c) = (asn, cfg_dict asn c).
Proof.
  unfold decode_caps, cfg_caps. rewrite decode_from_app, decode_from_mp.
  unfold open_asn_field, cfg_dict.
  destruct c as [afs crr rr four ext ap err]; cbn [cc_afi_safi cc_cisco_rr cc_rr cc_four cc_ext_nh cc_add_path cc_err].
  destruct (65535 <? asn) eqn:Ea, afs as [[|x l]|], crr, rr, four, ext as [e|], (ap =? 0), err; reflexivity.
Qed.

Lemma open_roundtrip asn hold id c m :
  1 <= asn ->
  open_construct 4 asn hold id c = Ok m ->
  exists body, unframe m = Some (c_MSG_OPEN, body) /\
    let r := mkopen 4 asn hold id (cfg_dict asn c) in
    open_parse body = Ok (r, Some r).
Proof.
  intros Ha H. destruct (open_construct_is_reference asn hold id c m H) as (-> & W & Hh & Hi).
  assert (Hf : 1 <= open_asn_field asn <= 65535).
  { unfold open_asn_field. destruct (65535 <? asn) eqn:E; lia. }
  destruct (open_decodes_reference (open_asn_field asn) hold id _ Hf Hh Hi W) as [U P].
  eexists; split; [exact U|].
  rewrite concat_one_per_param, decode_cfg_caps in P. exact P.
Qed.

(** the same OPEN through the unpatched parser: attributes as above, return value None exactly
    when no capability was encoded *)
Lemma open_parse_gen_attrs b m : res_map fst (open_parse_gen b m) = res_map fst (open_parse m).
Proof.
  unfold open_parse, open_parse_gen.
  do 10 (destruct m as [|? m]; [reflexivity|]).
  repeat match goal with |- context [if ?x then _ else _] => destruct x; try reflexivity end.
  all: destruct (params_loop _ _ _ _) as [[? ?]| |]; reflexivity.
Qed.

Lemma open_roundtrip_unpatched_refuted :
  exists asn hold id c m body, 1 <= asn <= 4294967295 /\
    open_construct 4 asn hold id c = Ok m /\ unframe m = Some (c_MSG_OPEN, body) /\
    open_parse_unpatched body = Ok (mkopen 4 asn hold id (cfg_dict asn c), None).
Proof.
  exists 65001, 180, 167772161, (mkcfg None false false false None 0 false).
  eexists. eexists. split; [lia|]. split; [vm_compute; reflexivity|]. split; vm_compute; reflexivity.
Qed.

(* ------------------------------------------------------------------------------------- *)
(** * facts used by C05 *)
Lemma open_my_as_field asn hold id c m :
  open_construct 4 asn hold id c = Ok m ->
  m = ref_open 4 (if asn <=? 65535 then asn else 23456) hold id (one_per_param (cfg_caps asn c)) /\
  (65535 < asn -> In (As4 asn) (cfg_caps asn c)) /\
  (asn <= 65535 -> (In (As4 asn) (cfg_caps asn c) <-> cc_four c = true)) /\
  (forall a, In (As4 a) (cfg_caps asn c) -> a = asn).
Proof.
  intros H. destruct (open_construct_is_reference asn hold id c m H) as (-> & _).
  assert (Hin : forall a, In (As4 a) (cfg_caps asn c) <-> (a = asn /\ (65535 <? asn) || cc_four c = true)).
  { intros a. unfold cfg_caps. rewrite !in_app_iff, in_map_iff.
    destruct (cc_cisco_rr c), (cc_rr c), ((65535 <? asn) || cc_four c), (cc_ext_nh c),
      (cc_add_path c =? 0), (cc_err c); cbn [In];
      (split; [intros K; repeat destruct K as [K|K]; try discriminate; try contradiction;
               try (destruct K as (? & K & _); discriminate); try (injection K as <-; auto)
              | intros [-> K]; try discriminate; tauto]). }
  split; [|split; [|split]].
  - unfold open_asn_field. destruct (65535 <? asn) eqn:E1, (asn <=? 65535) eqn:E2; try lia; reflexivity.
  - intros Hgt. apply Hin. split; [reflexivity|]. destruct (65535 <? asn) eqn:E; [reflexivity|lia].
  - intros Hle. rewrite Hin. destruct (65535 <? asn) eqn:E; [lia|]. cbn [orb]. tauto.
  - intros a Ha. apply Hin in Ha. tauto.
Qed.

(** the AS number Open.parse reports: the value of the last capability 65, else the My AS field *)
Definition is_as4 (c : capability) : bool := match c with As4 _ => true | _ => false end.

Lemma decode_from_fst_no_as4 cs : forall st, forallb (fun c => negb (is_as4 c)) cs = true ->
  fst (decode_from cs st) = fst st.
Proof.
  induction cs as [|c cs IH]; intros st H; [reflexivity|].
  cbn [forallb] in H. apply andb_true_iff in H as [Hc Hcs].
  unfold decode_from in *. cbn [fold_left]. rewrite IH by exact Hcs.
  destruct c; try discriminate; reflexivity.
Qed.

Lemma parsed_asn_is_as4 my_as cs a cs' : forallb (fun c => negb (is_as4 c)) cs' = true ->
  fst (decode_caps my_as (cs ++ As4 a :: cs')) = a.
Proof.
  intros H. unfold decode_caps. rewrite decode_from_app.
  change (As4 a :: cs') with ([As4 a] ++ cs'). rewrite decode_from_app.
  rewrite decode_from_fst_no_as4 by exact H. reflexivity.
Qed.

Lemma parsed_asn_no_as4 my_as cs : forallb (fun c => negb (is_as4 c)) cs = true ->
  fst (decode_caps my_as cs) = my_as /\ cd_four (snd (decode_caps my_as cs)) = false.
Proof.
  intros H. split; [apply decode_from_fst_no_as4; exact H|].
  unfold decode_caps.
  assert (G : forall st, cd_four (snd st) = false -> cd_four (snd (decode_from cs st)) = false).
  { induction cs as [|c cs IH]; intros st Hst; [exact Hst|].
    cbn [forallb] in H. apply andb_true_iff in H as [Hc Hcs].
    unfold decode_from in *. cbn [fold_left]. apply IH; [exact Hcs|].
    destruct c; try discriminate; exact Hst. }
  apply G. reflexivity.
Qed.

Lemma parsed_four_iff my_as cs :
  cd_four (snd (decode_caps my_as cs)) = true <-> exists a, In (As4 a) cs.
Proof.
  unfold decode_caps.
  assert (G : forall st, cd_four (snd (decode_from cs st)) = true <->
                         (cd_four (snd st) = true \/ exists a, In (As4 a) cs)).
  { induction cs as [|c cs IH]; intros st.
    - cbn. split; [auto|]. intros [K|[a []]]; exact K.
    - unfold decode_from in *. cbn [fold_left]. rewrite IH.
      split.
      + intros [K|[a K]]; [|right; exists a; right; exact K].
        destruct c; cbn in K; auto. right; eexists; left; reflexivity.
      + intros [K|[a [K|K]]].
        * left. destruct c; cbn; auto.
        * subst c. left. reflexivity.
        * right; exists a; exact K. }
  rewrite G. cbn. split; [intros [K|K]; [discriminate|exact K] | auto].
Qed.

(* ------------------------------------------------------------------------------------- *)
(** * the fuel given by [open_parse] is always enough *)
Ltac nofuel :=
  unfold OutOfFuel; change c_ERR_MSG_OPEN with 2; change c_ERR_MSG_HDR with 1; discriminate.

Lemma addpath_loop_no_err : forall n v, (length v <= n)%nat -> forall c s, addpath_loop v <> Err c s.
Proof.
  induction n as [|n IH]; intros v Hl c s.
  - destruct v; [|cbn in Hl; lia]. cbn. discriminate.
  - destruct v as [|a1 [|a0 [|sf [|sr rest]]]]; cbn [addpath_loop];
      try (match goal with |- context [if ?b then _ else _] => destruct b end; discriminate).
    destruct ((len (a1 :: a0 :: sf :: sr :: rest) mod 4 =? 0) && negb (len (a1 :: a0 :: sf :: sr :: rest) =? 0));
      [|discriminate].
    destruct (afi_safi_knownb (unbe [a1; a0]) sf && add_path_actb sr); [|discriminate].
    destruct (addpath_loop rest) as [l|c' s'|] eqn:E; cbn [res_map res_bind]; try discriminate.
    exfalso. apply (IH rest ltac:(cbn in Hl; lia) c' s' E).
Qed.

Lemma ext_loop_no_err : forall n v, (length v <= n)%nat -> forall c s, ext_loop v <> Err c s.
Proof.
  induction n as [|n IH]; intros v Hl c s.
  - destruct v; [|cbn in Hl; lia]. cbn. discriminate.
  - destruct v as [|a1 [|a0 [|s1 [|s0 [|n1 [|n0 rest]]]]]]; cbn [ext_loop]; try discriminate.
    destruct (ext_loop rest) as [l|c' s'|] eqn:E; cbn [res_map res_bind]; try discriminate.
    exfalso. apply (IH rest ltac:(cbn in Hl; lia) c' s' E).
Qed.

(** the only exceptions raised while interpreting one capability are plain Python ones *)
Lemma cap_apply_no_err code v asn d c s : cap_apply code v asn d <> Err c s.
Proof.
  unfold cap_apply.
  repeat match goal with |- context [if ?b then _ else _] => destruct b end; try discriminate.
  - destruct v as [|? [|? [|? [|? [|? ?]]]]]; discriminate.
  - destruct v as [|? [|? [|? [|? [|? ?]]]]]; discriminate.
  - destruct (addpath_loop v) as [l|c' s'|] eqn:E; cbn [res_map res_bind]; try discriminate.
    exfalso. exact (addpath_loop_no_err _ v (le_n _) _ _ E).
  - destruct (ext_loop v) as [l|c' s'|] eqn:E; cbn [res_map res_bind]; try discriminate.
    exfalso. exact (ext_loop_no_err _ v (le_n _) _ _ E).
Qed.

Lemma caps_loop_fuel : forall fuel caps asn d, (length caps <= fuel)%nat ->
  caps_loop fuel caps asn d <> OutOfFuel.
Proof.
  induction fuel as [|f IH]; intros caps asn d Hl.
  - destruct caps as [|x [|y r]]; cbn in *; try nofuel; lia.
  - destruct caps as [|x [|y r]]; cbn [caps_loop]; try nofuel.
    destruct (cap_apply x (take (N.to_nat y) r) asn d) as [[a' d']| c s|] eqn:E; cbn [res_bind fst snd];
      try nofuel.
    + apply IH. unfold drop. rewrite skipn_length. cbn in Hl. lia.
    + exfalso. exact (cap_apply_no_err _ _ _ _ _ _ E).
Qed.

Lemma params_loop_fuel : forall fuel paras asn d, (length paras <= fuel)%nat ->
  params_loop fuel paras asn d <> OutOfFuel.
Proof.
  induction fuel as [|f IH]; intros paras asn d Hl.
  - destruct paras as [|x [|y r]]; cbn in *; try nofuel; lia.
  - destruct paras as [|x [|y r]]; cbn [params_loop]; try nofuel.
    destruct (negb (x =? 2)); [nofuel|].
    destruct (caps_loop (length r) (take (N.to_nat y) r) asn d) as [[a' d']| c s|] eqn:E;
      cbn [res_bind fst snd]; try nofuel.
    + apply IH. unfold drop. rewrite skipn_length. cbn in Hl. lia.
    + intros K. apply (caps_loop_fuel (length r) (take (N.to_nat y) r) asn d).
      * unfold take. rewrite firstn_length. lia.
      * rewrite E. exact K.
Qed.

Lemma open_parse_fuel_ok b m : open_parse_gen b m <> OutOfFuel.
Proof.
  unfold open_parse_gen.
  do 10 (destruct m as [|? m]; [nofuel|]).
  repeat match goal with
         | |- context [if ?x then _ else _] => destruct x; try nofuel
         end.
  pose proof (params_loop_fuel (length m) m (unbe [n0; n1]) cd_empty (le_n _)) as K.
  destruct (params_loop (length m) m (unbe [n0; n1]) cd_empty) as [[? ?]| |]; cbn [res_map res_bind];
    try nofuel. intros E. apply K. unfold OutOfFuel in *. injection E as -> ->. reflexivity.
Qed.
