(** C08, OPEN: the structural walker (spec/Walker.v) accepts
    - every reference OPEN (spec/RefOpen.v) whose capabilities are in range, and
    - every message Open.construct (model/YOpen.v) returns, for every field value and every
      capability configuration: header length = size, optional-parameter length = the octets that
      follow, every parameter / capability length = its value, capability values of the size their
      RFC fixes. *)
From YV Require Import lib.Base gen.Consts spec.Walker spec.RefOpen model.YMsg model.YOpen
  proof.WalkerProofs proof.OpenProofs.
From Coq Require Import ZArith ZifyBool ZifyNat ZifyN Lia.
Ltac Zify.zify_post_hook ::= Z.to_euclidean_division_equations.

(* ------------------------------------------------------------------------------------- *)
(** * TLV sequences *)

Lemma step_tlv11_enc chk t v rest : chk t v = true ->
  step_tlv11 chk (t :: len v :: v ++ rest) = Some rest.
Proof. intros H. unfold step_tlv11. rewrite splitN_app, H. reflexivity. Qed.

(** what the walker checks of a capability / what a well-formed octet string needs of it *)
Definition tlv_chk (t : tlv) : Prop := chk_cap (fst t) (snd t) = true.
Definition tlv_wf (t : tlv) : Prop := fst t < 256 /\ wf_bytes (snd t).

Lemma walk_enc_tlvs ts : Forall tlv_chk ts -> walk_all (step_tlv11 chk_cap) (enc_tlvs ts) = true.
Proof.
  intros H. unfold enc_tlvs. apply walk_all_concat.
  intros e He. apply in_map_iff in He as (t & <- & Ht). rewrite Forall_forall in H.
  split; [discriminate|]. intros rest. unfold enc_tlv. cbn [app].
  apply step_tlv11_enc. exact (H t Ht).
Qed.

Lemma walk_enc_params ps : Forall (Forall tlv_chk) ps ->
  walk_all (step_tlv11 chk_param) (enc_params ps) = true.
Proof.
  intros H. unfold enc_params. apply walk_all_concat.
  intros e He. apply in_map_iff in He as (p & <- & Hp). rewrite Forall_forall in H.
  split; [discriminate|]. intros rest. unfold enc_param. cbn [app].
  apply step_tlv11_enc. unfold chk_param. change (2 =? 2) with true. cbv iota.
  apply walk_enc_tlvs. exact (H p Hp).
Qed.

Lemma wf_cons x (b : bytes) : wf_bytes (x :: b) <-> x < 256 /\ wf_bytes b.
Proof. unfold wf_bytes. split; [intros H; inversion H; auto | intros [? ?]; constructor; auto]. Qed.

Lemma wf_enc_tlvs ts : Forall tlv_wf ts -> Forall tlv_fits ts -> wf_bytes (enc_tlvs ts).
Proof.
  induction ts as [|t ts IH]; intros Hw Hf; [constructor|].
  inversion Hw as [|? ? [Hc Hv] Hw']; inversion Hf as [|? ? Hl Hf']; subst.
  rewrite enc_tlvs_cons. apply wf_cons. split; [exact Hc|]. apply wf_cons.
  unfold tlv_fits in Hl. split; [lia|]. apply wf_app. split; [exact Hv | apply IH; assumption].
Qed.

Lemma wf_enc_params ps : Forall (Forall tlv_wf) ps -> params_fit ps -> wf_bytes (enc_params ps).
Proof.
  intros Hw [Hf _]. induction ps as [|p ps IH]; [constructor|].
  inversion Hw as [|? ? Hp Hw']; inversion Hf as [|? ? [Hpf Hpl] Hf']; subst.
  rewrite enc_params_cons. apply wf_cons. split; [lia|]. apply wf_cons. split; [lia|].
  apply wf_app. split; [apply wf_enc_tlvs; assumption | apply IH; assumption].
Qed.

(* ------------------------------------------------------------------------------------- *)
(** * capabilities by meaning *)

Lemma len_concat_const {A} (f : A -> bytes) k l : (forall x, len (f x) = k) ->
  len (concat (map f l)) = k * N.of_nat (length l).
Proof.
  intros H. induction l as [|x l IH]; [cbn; lia|].
  cbn [map concat length]. rewrite WalkerProofs.len_app, IH, H. lia.
Qed.

Lemma wf_concat_map {A} (f : A -> bytes) l : (forall x, In x l -> wf_bytes (f x)) ->
  wf_bytes (concat (map f l)).
Proof.
  induction l as [|x l IH]; intros H; [constructor|].
  cbn [map concat]. apply wf_app. split; [apply H; left; reflexivity | apply IH; intros y Hy; apply H; right; exact Hy].
Qed.

Lemma wf_be2_app n b : wf_bytes b -> wf_bytes (be 2 n ++ b).
Proof. intros H. apply wf_app. split; [apply wf_be | exact H]. Qed.

(** a capability code without a fixed value size *)
Lemma chk_cap_other code v : ~ In code [1; 2; 5; 64; 65; 69; 70; 71] -> chk_cap code v = true.
Proof.
  intros H. destruct code as [|p]; [reflexivity|].
  do 7 (try destruct p as [p|p|]); try reflexivity; exfalso; apply H; cbn; tauto.
Qed.

(** the capabilities the walker has to accept: in range (RefOpen.cap_wf), an ADD-PATH capability
    names at least one family, an unknown capability carries octets *)
Definition cap_good (c : capability) : Prop :=
  cap_wf c /\
  match c with
  | AddPath l => l <> []
  | Unknown _ v => wf_bytes v
  | _ => True
  end.

Lemma len_enc_fam3 x : len (enc_fam3 x) = 4. Proof. reflexivity. Qed.
Lemma len_enc_ext x : len (RefOpen.enc_ext x) = 6. Proof. reflexivity. Qed.
Lemma len_enc_llgr x : len (enc_llgr x) = 7. Proof. reflexivity. Qed.

Lemma cap_good_chk c : cap_good c -> tlv_chk (cap_tlv c).
Proof.
  intros [Hw Hx]. unfold tlv_chk. destruct c; cbn [cap_tlv fst snd]; try reflexivity.
  - (* GracefulRestart *)
    unfold chk_cap. rewrite WalkerProofs.len_app, (len_concat_const enc_fam3 4) by apply len_enc_fam3.
    change (len (be 2 (flags * 4096 + time))) with 2. lia.
  - (* AddPath *)
    unfold chk_cap. rewrite (len_concat_const enc_fam3 4) by apply len_enc_fam3.
    destruct l; [congruence|]. cbn [length]. lia.
  - (* ExtNexthop *)
    unfold chk_cap. rewrite (len_concat_const RefOpen.enc_ext 6) by apply len_enc_ext. lia.
  - (* Llgr *)
    unfold chk_cap. rewrite (len_concat_const enc_llgr 7) by apply len_enc_llgr. lia.
  - (* Unknown *)
    cbn [cap_wf] in Hw. destruct Hw as [_ Hn]. apply chk_cap_other.
    intros Hin. apply Hn. unfold assigned_codes. cbn in Hin |- *. tauto.
Qed.

Lemma cap_good_wf c : cap_good c -> tlv_wf (cap_tlv c).
Proof.
  intros [Hw Hx]. unfold tlv_wf. destruct c; cbn [cap_tlv fst snd cap_wf] in *.
  - split; [lia|]. apply wf_be2_app. repeat constructor; lia.
  - split; [lia | constructor].
  - split; [lia | constructor].
  - split; [lia | constructor].
  - split; [lia|]. apply wf_be2_app. apply wf_concat_map. intros x Hx'.
    destruct Hw as (_ & _ & Hf). rewrite Forall_forall in Hf. destruct (Hf x Hx') as (? & ? & ?).
    unfold enc_fam3. apply wf_be2_app. repeat constructor; lia.
  - split; [lia | apply wf_be].
  - split; [lia|]. apply wf_concat_map. intros x Hx'. rewrite Forall_forall in Hw.
    destruct (Hw x Hx') as [Hk Hr]. unfold enc_fam3. apply wf_be2_app.
    assert (snd (fst x) <= 255).
    { unfold known_families in Hk. cbn in Hk.
      repeat (destruct Hk as [Hk|Hk]; [rewrite <- Hk; cbn; lia|]). contradiction. }
    repeat constructor; lia.
  - split; [lia|]. apply wf_concat_map. intros x Hx'. unfold RefOpen.enc_ext.
    apply wf_be2_app, wf_be2_app, wf_be.
  - split; [lia|]. apply wf_concat_map. intros x Hx'. rewrite Forall_forall in Hw.
    destruct (Hw x Hx') as [(? & ? & ?) ?]. unfold enc_llgr. apply wf_be2_app.
    apply wf_cons; split; [lia|]. apply wf_cons; split; [lia|]. apply wf_be.
  - split; [lia | exact Hx].
Qed.

(* ------------------------------------------------------------------------------------- *)
(** * the OPEN message *)

(** an OPEN body whose optional parameters are [ps] is accepted when the capabilities are *)
Lemma valid_open_body v a h i (ps : list (list tlv)) : Forall (Forall tlv_chk) ps ->
  valid_open (ref_open_body_tlv v a h i ps) = true.
Proof.
  intros H. unfold valid_open, ref_open_body_tlv. cbn [be app split].
  rewrite N.eqb_refl. cbn [andb]. apply walk_enc_params. exact H.
Qed.

Lemma wf_open_body v a h i ps : v < 256 -> Forall (Forall tlv_wf) ps -> params_fit ps ->
  wf_bytes (ref_open_body_tlv v a h i ps).
Proof.
  intros Hv Hw Hf. unfold ref_open_body_tlv.
  apply wf_cons; split; [exact Hv|].
  apply wf_be2_app, wf_be2_app. apply wf_app; split; [apply wf_be|].
  apply wf_cons; split; [destruct Hf; lia|]. apply wf_enc_params; assumption.
Qed.

Lemma len_open_body v a h i ps : len (ref_open_body_tlv v a h i ps) = 10 + len (enc_params ps).
Proof. apply len_ref_open_body_tlv. Qed.

(** every reference OPEN with in-range fields and capabilities is structurally valid *)
Theorem ref_open_valid version my_as hold id params :
  version < 256 -> params_wf params -> Forall (Forall cap_good) params ->
  valid_msg (ref_open version my_as hold id params) = true.
Proof.
  intros Hv [_ Hfit] Hg.
  assert (Hc : Forall (Forall tlv_chk) (map (map cap_tlv) params)).
  { clear Hfit. induction Hg as [|p ps Hp _ IH]; cbn [map]; constructor; [|exact IH].
    induction Hp as [|c cs Hc' _ IH2]; cbn [map]; constructor; [apply cap_good_chk; exact Hc' | exact IH2]. }
  assert (Hw : Forall (Forall tlv_wf) (map (map cap_tlv) params)).
  { clear Hfit Hc. induction Hg as [|p ps Hp _ IH]; cbn [map]; constructor; [|exact IH].
    induction Hp as [|c cs Hc' _ IH2]; cbn [map]; constructor; [apply cap_good_wf; exact Hc' | exact IH2]. }
  unfold ref_open, ref_open_tlv, ref_message.
  set (body := ref_open_body_tlv version my_as hold id (map (map cap_tlv) params)).
  assert (Hl : len body + 19 <= 4096).
  { unfold body. rewrite len_open_body. destruct Hfit as [_ Hfit]. lia. }
  rewrite (N.add_comm 19). change (repeat 255 16) with marker16.
  unfold valid_msg, valid_msg_with.
  rewrite framed_wf, unheader_framed; [ | exact Hl | lia | apply wf_open_body; assumption].
  cbn [andb]. apply valid_open_body. exact Hc.
Qed.

(** the capabilities Open.construct writes are all of the accepted kind *)
Lemma cfg_caps_good asn c : Forall cap_wf (cfg_caps asn c) -> Forall cap_good (cfg_caps asn c).
Proof.
  intros H. rewrite Forall_forall in *. intros x Hx. split; [apply H; exact Hx|].
  unfold cfg_caps in Hx. repeat (apply in_app_or in Hx as [Hx|Hx]).
  - apply in_map_iff in Hx as (p & <- & _). exact I.
  - destruct (cc_cisco_rr c); [destruct Hx as [<-|[]]; exact I | destruct Hx].
  - destruct (cc_rr c); [destruct Hx as [<-|[]]; exact I | destruct Hx].
  - destruct ((65535 <? asn) || cc_four c); [destruct Hx as [<-|[]]; exact I | destruct Hx].
  - destruct (cc_ext_nh c); [destruct Hx as [<-|[]]; exact I | destruct Hx].
  - destruct (cc_add_path c =? 0); [destruct Hx|]. destruct Hx as [<-|[]]. discriminate.
  - destruct (cc_err c); [destruct Hx as [<-|[]]; exact I | destruct Hx].
Qed.

(** Open.construct: for EVERY version, AS number, hold time, identifier and capability
    configuration, what it returns is a structurally valid OPEN (a field or a length that does
    not fit its octets is an exception in the model, as struct.pack raises in the code) *)
Theorem open_construct_valid version asn hold id c m :
  open_construct version asn hold id c = Ok m -> valid_msg m = true.
Proof.
  unfold open_construct. intros H. apply res_bind_ok in H as (body & Hb & Hh).
  unfold open_body in Hb. apply res_bind_ok in Hb as (capas & Hc & Hb).
  destruct ((version <=? 255) && (hold <=? 65535) && (id <=? 4294967295) && (len capas <=? 255)) eqn:E;
    [|discriminate].
  injection Hb as <-. destruct (open_capas_ref asn c capas Hc) as [-> W].
  apply header_inv in Hh. subst m.
  pose proof (ref_open_valid version (open_asn_field asn) hold id (one_per_param (cfg_caps asn c))) as V.
  unfold ref_open, ref_open_tlv, ref_message, ref_open_body_tlv in V.
  rewrite (N.add_comm 19) in V. unfold wire1. apply V.
  - lia.
  - split; [apply Forall_one_per_param; exact W|].
    apply params_fit_total. fold (wire1 (cfg_caps asn c)). lia.
  - apply Forall_one_per_param. apply cfg_caps_good. exact W.
Qed.

(** non-vacuous: an OPEN with a 4-octet AS, six capabilities in six parameters *)
Definition ex_capcfg : capcfg :=
  mkcfg (Some [(1, 1); (2, 128)]) true true false (Some [(1, 1, 2)]) 3 true.
Lemma open_construct_example : exists m,
  open_construct 4 4200000000 180 167772161 ex_capcfg = Ok m /\ len m = 83 /\ valid_msg m = true.
Proof. eexists. split; [vm_compute; reflexivity|]. split; vm_compute; reflexivity. Qed.

(** the walker is not permissive about OPENs: the same message with the optional-parameter
    length, a parameter length or a capability length one off is rejected *)
Lemma open_near_misses :
  let good := marker16 ++ [0; 45; 1; 4; 253; 233; 0; 180; 10; 0; 0; 1; 16;
                           2; 6; 1; 4; 0; 1; 0; 1;  2; 6; 65; 4; 0; 0; 253; 233] in
  valid_msg good = true /\
  valid_msg (marker16 ++ [0; 45; 1; 4; 253; 233; 0; 180; 10; 0; 0; 1; 15;
                          2; 6; 1; 4; 0; 1; 0; 1;  2; 6; 65; 4; 0; 0; 253; 233]) = false /\
  valid_msg (marker16 ++ [0; 45; 1; 4; 253; 233; 0; 180; 10; 0; 0; 1; 16;
                          2; 6; 1; 4; 0; 1; 0; 1;  2; 7; 65; 4; 0; 0; 253; 233]) = false /\
  valid_msg (marker16 ++ [0; 45; 1; 4; 253; 233; 0; 180; 10; 0; 0; 1; 16;
                          2; 6; 1; 4; 0; 1; 0; 1;  2; 6; 65; 3; 0; 0; 253; 233]) = false /\
  valid_msg (marker16 ++ [0; 45; 1; 4; 253; 233; 0; 180; 10; 0; 0; 1; 16;
                          2; 6; 1; 4; 0; 1; 0; 1;  2; 6; 69; 4; 0; 0; 253; 233]) = true /\
  valid_msg (marker16 ++ [0; 43; 1; 4; 253; 233; 0; 180; 10; 0; 0; 1; 14;
                          2; 6; 1; 4; 0; 1; 0; 1;  2; 4; 65; 2; 253; 233]) = false.
Proof. vm_compute. repeat split. Qed.
