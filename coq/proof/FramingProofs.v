(** C04: the framing machine's observable behaviour does not depend on how the byte stream
    is cut into chunks; it always terminates (fuel = buffer length + 1 suffices). *)
From YV Require Import lib.Base gen.Consts model.YFraming.
From Coq Require Import ZArith ZifyBool ZifyNat ZifyN Arith.

Section FramingProofs.
Variable S : Type.
Variable dispatch : N -> bytes -> S -> bool * S.
Variable hdr_err : N -> bytes -> S -> S.
Variable closed : S -> bool.
(** [good]: the connection being read is the one the session reacts on (so that an error
    reaction closes THIS connection) *)
Variable good : S -> Prop.
Hypothesis good_dispatch : forall ty m s, good s -> good (snd (dispatch ty m s)).
Hypothesis good_err : forall sub d s, good s -> good (hdr_err sub d s).
Hypothesis err_closes : forall sub d s, good s -> closed (hdr_err sub d s) = true.
Hypothesis stuck_closes : forall ty m s, good s ->
  fst (dispatch ty m s) = false -> closed (snd (dispatch ty m s)) = true.

Notation parse1 := (parse1 S dispatch hdr_err).
Notation frame_loop := (frame_loop S dispatch hdr_err closed).
Notation feed := (feed S dispatch hdr_err closed).
Notation feed_all := (feed_all S dispatch hdr_err closed).

Lemma take_app_le (n : nat) (a x : bytes) : (n <= length a)%nat -> take n (a ++ x) = take n a.
Proof.
  intros H. unfold take. rewrite firstn_app. replace (n - length a)%nat with 0%nat by lia.
  cbn. apply app_nil_r.
Qed.
Lemma drop_app_le (n : nat) (a x : bytes) : (n <= length a)%nat -> drop n (a ++ x) = drop n a ++ x.
Proof.
  intros H. unfold drop. rewrite skipn_app. replace (n - length a)%nat with 0%nat by lia. reflexivity.
Qed.
Lemma slice_app_le (i j : nat) (a x : bytes) : (j <= length a)%nat -> slice i j (a ++ x) = slice i j a.
Proof.
  intros H. unfold slice.
  destruct (Nat.le_gt_cases i j) as [Hij|Hij].
  - rewrite skipn_app. replace (i - length a)%nat with 0%nat by lia. cbn [skipn].
    rewrite firstn_app. rewrite skipn_length. replace (j - i - (length a - i))%nat with 0%nat by lia.
    cbn. apply app_nil_r.
  - replace (j - i)%nat with 0%nat by lia. reflexivity.
Qed.
Lemma nth_app_lt (n : nat) (a x : bytes) d : (n < length a)%nat -> nth n (a ++ x) d = nth n a d.
Proof. intros; apply app_nth1; auto. Qed.
Lemma len_app a x : len (a ++ x) = len a + len x.
Proof. unfold len. rewrite app_length. lia. Qed.

(** what a successful parse consumed *)
Lemma parse1_msg_shorter buf s s' rest :
  parse1 buf s = PMsg s' rest -> (length rest + 19 <= length buf)%nat.
Proof.
  unfold YFraming.parse1. cbv zeta. intros E.
  destruct (len buf <? c_HDR_LEN) eqn:E1; [discriminate|].
  destruct (negb (bytes_eqb (take 16 buf) YFraming.marker)); [discriminate|].
  destruct ((unbe (slice 16 18 buf) <? c_HDR_LEN) || (c_MAX_LEN <? unbe (slice 16 18 buf))) eqn:E2; [discriminate|].
  destruct (len buf <? unbe (slice 16 18 buf)) eqn:E3; [discriminate|].
  destruct (fst (dispatch (nth 18 buf 0) (slice 19 (N.to_nat (unbe (slice 16 18 buf))) buf) s)); [|discriminate].
  inversion E; subst. unfold drop. rewrite skipn_length.
  unfold c_HDR_LEN, c_MAX_LEN, len in *. lia.
Qed.

(** prefix stability: more bytes behind a decided buffer do not change the decision *)
Lemma parse1_app buf x s :
  match parse1 buf s with
  | PNeed => True
  | PErr s' => parse1 (buf ++ x) s = PErr s'
  | PStuck s' => parse1 (buf ++ x) s = PStuck s'
  | PMsg s' rest => parse1 (buf ++ x) s = PMsg s' (rest ++ x)
  end.
Proof.
  unfold YFraming.parse1. cbv zeta.
  destruct (len buf <? c_HDR_LEN) eqn:E1; [exact I|].
  assert (Hl : (19 <= length buf)%nat) by (unfold len, c_HDR_LEN in E1; lia).
  assert (E1' : (len (buf ++ x) <? c_HDR_LEN) = false) by (rewrite len_app; unfold len, c_HDR_LEN in *; lia).
  rewrite E1'.
  rewrite (take_app_le 16) by lia. rewrite (slice_app_le 16 18) by lia. rewrite (nth_app_lt 18) by lia.
  destruct (negb _); [reflexivity|].
  set (L := unbe (slice 16 18 buf)).
  destruct ((L <? c_HDR_LEN) || (c_MAX_LEN <? L)) eqn:E2; [reflexivity|].
  destruct (len buf <? L) eqn:E3; [exact I|].
  assert (E3' : (len (buf ++ x) <? L) = false) by (rewrite len_app; unfold len in *; lia).
  rewrite E3'.
  assert (HL : (N.to_nat L <= length buf)%nat) by (unfold len in E3; lia).
  rewrite (slice_app_le 19) by exact HL. rewrite drop_app_le by exact HL.
  destruct (fst _); reflexivity.
Qed.

(** enough fuel: the result does not depend on it and the fuel is never exhausted *)
Lemma frame_loop_fuel : forall f1 f2 buf s,
  (length buf < f1)%nat -> (length buf < f2)%nat ->
  frame_loop f1 buf s = frame_loop f2 buf s /\ snd (frame_loop f1 buf s) = true.
Proof.
  induction f1 as [|f1 IH]; intros f2 buf s H1 H2; [lia|].
  destruct f2 as [|f2]; [lia|]. cbn [YFraming.frame_loop].
  destruct (parse1 buf s) as [|s'|s'|s' rest] eqn:E; auto.
  destruct (closed s'); auto.
  apply parse1_msg_shorter in E. apply IH; lia.
Qed.

Definition run (buf : bytes) (s : S) : S * bytes :=
  fst (frame_loop (Datatypes.S (length buf)) buf s).

Lemma run_unfold buf s :
  run buf s = match parse1 buf s with
              | PNeed => (s, buf)
              | PErr s' => (s', buf)
              | PStuck s' => (s', buf)
              | PMsg s' rest => if closed s' then (s', rest) else run rest s'
              end.
Proof.
  unfold run. cbn [YFraming.frame_loop].
  destruct (parse1 buf s) as [|s'|s'|s' rest] eqn:E; auto.
  destruct (closed s'); auto.
  apply parse1_msg_shorter in E.
  destruct (frame_loop_fuel (length buf) (Datatypes.S (length rest)) rest s') as [-> _]; auto; lia.
Qed.

(** the state a run ends in is quiescent: closed, or waiting for more data *)
Definition quiescent (st : S * bytes) : Prop :=
  closed (fst st) = true \/ parse1 (snd st) (fst st) = PNeed.

Lemma run_ind (P : bytes -> S -> S * bytes -> Prop) :
  (forall buf s, parse1 buf s = PNeed -> P buf s (s, buf)) ->
  (forall buf s s', parse1 buf s = PErr s' -> P buf s (s', buf)) ->
  (forall buf s s', parse1 buf s = PStuck s' -> P buf s (s', buf)) ->
  (forall buf s s' rest, parse1 buf s = PMsg s' rest -> closed s' = true -> P buf s (s', rest)) ->
  (forall buf s s' rest, parse1 buf s = PMsg s' rest -> closed s' = false ->
     P rest s' (run rest s') -> P buf s (run rest s')) ->
  forall buf s, P buf s (run buf s).
Proof.
  intros H1 H2 H3 H4 H5.
  assert (G : forall n buf s, (length buf < n)%nat -> P buf s (run buf s)).
  { induction n as [|n IH]; intros buf s Hn; [lia|].
    rewrite run_unfold. destruct (parse1 buf s) as [|s'|s'|s' rest] eqn:E; auto.
    destruct (closed s') eqn:Ec; auto.
    apply H5; auto. apply IH. apply parse1_msg_shorter in E. lia. }
  intros buf s. apply (G (Datatypes.S (length buf))). lia.
Qed.

Lemma run_good buf s : good s -> good (fst (run buf s)).
Proof.
  revert buf s. apply (run_ind (fun buf s r => good s -> good (fst r))); cbn [fst]; auto.
  - intros buf s s' E Hg. unfold YFraming.parse1 in E. cbv zeta in E.
    repeat match type of E with (if ?c then _ else _) = _ => destruct c; try discriminate end;
      inversion E; subst; auto.
  - intros buf s s' E Hg. unfold YFraming.parse1 in E. cbv zeta in E.
    repeat match type of E with (if ?c then _ else _) = _ => destruct c eqn:?; try discriminate end.
    inversion E; subst; auto.
  - intros buf s s' rest E Hc Hg. unfold YFraming.parse1 in E. cbv zeta in E.
    repeat match type of E with (if ?c then _ else _) = _ => destruct c eqn:?; try discriminate end.
    inversion E; subst; auto.
  - intros buf s s' rest E Hc IH Hg. apply IH. unfold YFraming.parse1 in E. cbv zeta in E.
    repeat match type of E with (if ?c then _ else _) = _ => destruct c eqn:?; try discriminate end.
    inversion E; subst; auto.
Qed.

Lemma parse1_err_closed buf s s' : good s -> parse1 buf s = PErr s' -> closed s' = true.
Proof.
  intros Hg E. unfold YFraming.parse1 in E. cbv zeta in E.
  repeat match type of E with (if ?c then _ else _) = _ => destruct c; try discriminate end;
    inversion E; subst; auto.
Qed.
Lemma parse1_stuck_closed buf s s' : good s -> parse1 buf s = PStuck s' -> closed s' = true.
Proof.
  intros Hg E. unfold YFraming.parse1 in E. cbv zeta in E.
  repeat match type of E with (if ?c then _ else _) = _ => destruct c eqn:?; try discriminate end.
  inversion E; subst. apply stuck_closes; auto.
Qed.
Lemma parse1_msg_good buf s s' rest : good s -> parse1 buf s = PMsg s' rest -> good s'.
Proof.
  intros Hg E. unfold YFraming.parse1 in E. cbv zeta in E.
  repeat match type of E with (if ?c then _ else _) = _ => destruct c eqn:?; try discriminate end.
  inversion E; subst. auto.
Qed.

Lemma run_quiescent buf s : good s -> quiescent (run buf s).
Proof.
  revert buf s. apply (run_ind (fun buf s r => good s -> quiescent r)); unfold quiescent; cbn [fst snd].
  - auto.
  - intros; left; eapply parse1_err_closed; eauto.
  - intros; left; eapply parse1_stuck_closed; eauto.
  - auto.
  - intros buf s s' rest E Hc IH Hg. apply IH. eapply parse1_msg_good; eauto.
Qed.

(** appending data behind a buffer: the run goes through the same steps first *)
Lemma run_app x buf s : good s -> closed s = false ->
  let r := run buf s in
  if closed (fst r) then fst (run (buf ++ x) s) = fst r
  else run (buf ++ x) s = run (snd r ++ x) (fst r).
Proof.
  revert buf s.
  apply (run_ind (fun buf s r => good s -> closed s = false ->
           if closed (fst r) then fst (run (buf ++ x) s) = fst r
           else run (buf ++ x) s = run (snd r ++ x) (fst r))); cbn [fst snd].
  - intros buf s E Hg Hc. rewrite Hc. reflexivity.
  - intros buf s s' E Hg Hc. rewrite (parse1_err_closed _ _ _ Hg E).
    rewrite run_unfold. pose proof (parse1_app buf x s) as Ha. rewrite E in Ha. rewrite Ha. reflexivity.
  - intros buf s s' E Hg Hc. rewrite (parse1_stuck_closed _ _ _ Hg E).
    rewrite run_unfold. pose proof (parse1_app buf x s) as Ha. rewrite E in Ha. rewrite Ha. reflexivity.
  - intros buf s s' rest E Hcl Hg Hc. rewrite Hcl.
    rewrite run_unfold. pose proof (parse1_app buf x s) as Ha. rewrite E in Ha. rewrite Ha, Hcl. reflexivity.
  - intros buf s s' rest E Hcl IH Hg Hc.
    specialize (IH (parse1_msg_good _ _ _ _ Hg E) Hcl).
    rewrite (run_unfold (buf ++ x)). pose proof (parse1_app buf x s) as Ha. rewrite E in Ha.
    rewrite Ha, Hcl. exact IH.
Qed.

(** observational equality of machine states: same session state, and the same buffer unless
    the connection has been closed (nothing reads the buffer of a closed connection) *)
Definition equiv (a b : S * bytes) : Prop :=
  fst a = fst b /\ (closed (fst a) = false -> snd a = snd b).

Lemma feed_run st data : closed (fst st) = false -> feed st data = run (snd st ++ data) (fst st).
Proof.
  intros Hc. unfold YFraming.feed. rewrite Hc. cbv zeta. unfold run.
  destruct (frame_loop (Datatypes.S (length (snd st ++ data))) (snd st ++ data) (fst st)) as [[a b] c].
  reflexivity.
Qed.
Lemma feed_closed st data : closed (fst st) = true -> feed st data = st.
Proof. intros Hc. unfold YFraming.feed. rewrite Hc. reflexivity. Qed.

Lemma feed_good st data : good (fst st) -> good (fst (feed st data)).
Proof.
  intros Hg. destruct (closed (fst st)) eqn:Hc.
  - rewrite feed_closed; auto.
  - rewrite feed_run; auto. apply run_good; auto.
Qed.
Lemma feed_quiescent st data : good (fst st) -> quiescent st -> quiescent (feed st data).
Proof.
  intros Hg Hq. destruct (closed (fst st)) eqn:Hc.
  - rewrite feed_closed; auto.
  - rewrite feed_run; auto. apply run_quiescent; auto.
Qed.

Lemma feed_equiv st1 st2 data : equiv st1 st2 -> equiv (feed st1 data) (feed st2 data).
Proof.
  intros [H1 H2]. destruct st1 as [s1 b1], st2 as [s2 b2]. cbn [fst snd] in *. subst s2.
  destruct (closed s1) eqn:Hc.
  - rewrite !feed_closed by (cbn; auto). split; cbn; auto. congruence.
  - rewrite (H2 eq_refl). split; auto.
Qed.

Lemma equiv_refl a : equiv a a. Proof. split; auto. Qed.
Lemma equiv_trans a b c : equiv a b -> equiv b c -> equiv a c.
Proof.
  intros [H1 H2] [H3 H4]. split; [congruence|]. intros Hc. rewrite H2 by auto. apply H4. congruence.
Qed.

(** two chunks = one chunk *)
Lemma feed_split st a b : good (fst st) -> equiv (feed (feed st a) b) (feed st (a ++ b)).
Proof.
  intros Hg. destruct st as [s buf]. cbn [fst] in Hg.
  destruct (closed s) eqn:Hc.
  - rewrite (feed_closed (s, buf) a) by (cbn; auto). rewrite (feed_closed (s, buf) b) by (cbn; auto).
    rewrite (feed_closed (s, buf) (a ++ b)) by (cbn; auto). apply equiv_refl.
  - rewrite (feed_run (s, buf) a) by (cbn; auto). rewrite (feed_run (s, buf) (a ++ b)) by (cbn; auto).
    cbn [fst snd]. rewrite app_assoc.
    pose proof (run_app b (buf ++ a) s Hg Hc) as Hr. cbv zeta in Hr.
    destruct (closed (fst (run (buf ++ a) s))) eqn:Hc1.
    + rewrite feed_closed by auto. split; [congruence|]. intros Hx; congruence.
    + rewrite feed_run by auto. rewrite Hr. apply equiv_refl.
Qed.

Lemma feed_nil st : quiescent st -> feed st [] = st.
Proof.
  intros [Hq|Hq].
  - apply feed_closed; auto.
  - destruct (closed (fst st)) eqn:Hc; [apply feed_closed; auto|].
    rewrite feed_run by auto. rewrite app_nil_r, run_unfold, Hq. destruct st; reflexivity.
Qed.

(** C04, chunking: however the stream is cut, the machine ends in the same state *)
Theorem chunking_independent : forall chunks st,
  good (fst st) -> quiescent st ->
  equiv (feed_all st chunks) (feed st (concat chunks)).
Proof.
  induction chunks as [|ch chs IH]; intros st Hg Hq.
  - cbn. rewrite feed_nil by auto. apply equiv_refl.
  - cbn [YFraming.feed_all fold_left concat].
    eapply equiv_trans; [apply (IH (feed st ch)); auto using feed_good, feed_quiescent|].
    apply feed_split; auto.
Qed.

(** C04, termination: the loop needs at most one iteration per 19 octets of buffer *)
Theorem loop_terminates : forall buf s,
  snd (frame_loop (Datatypes.S (length buf)) buf s) = true.
Proof. intros. apply (frame_loop_fuel (Datatypes.S (length buf)) (Datatypes.S (length buf))); lia. Qed.

Fixpoint iterations (fuel : nat) (buf : bytes) (s : S) : nat :=
  match fuel with
  | O => O
  | Datatypes.S f =>
      match parse1 buf s with
      | PMsg s' rest => if closed s' then 1%nat else Datatypes.S (iterations f rest s')
      | _ => 1%nat
      end
  end.
Theorem iterations_bound : forall fuel buf s, (19 * (iterations fuel buf s) <= length buf + 19)%nat.
Proof.
  induction fuel as [|f IH]; intros buf s; cbn [iterations]; [lia|].
  destruct (parse1 buf s) as [|s'|s'|s' rest] eqn:E; try lia.
  destruct (closed s'); [lia|]. apply parse1_msg_shorter in E. specialize (IH rest s'). lia.
Qed.
End FramingProofs.

(** termination does not depend on the hypotheses about the session reaction *)
Lemma loop_terminates_any (S : Type) dispatch hdr_err closed (buf : bytes) (s : S) :
  snd (frame_loop S dispatch hdr_err closed (Datatypes.S (length buf)) buf s) = true.
Proof.
  apply (loop_terminates S dispatch hdr_err closed (fun _ => False)); intros; contradiction.
Qed.
Lemma iterations_bound_any (S : Type) dispatch hdr_err closed fuel (buf : bytes) (s : S) :
  (19 * iterations S dispatch hdr_err closed fuel buf s <= length buf + 19)%nat.
Proof.
  apply (iterations_bound S dispatch hdr_err closed (fun _ => False)); intros; contradiction.
Qed.
