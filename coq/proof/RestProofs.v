(** Proofs about the REST model (model/YRest.v) for property C16. *)
From Coq Require Import String.
From YV Require Import lib.Base model.YWorld model.YProto gen.Consts gen.FsmGen model.YSession
  model.YSessionSx gen.RestInventory model.YRest.

(** ---- the model's route table is the live one ---- *)
Lemma inventory_matches : gen_routes = modelled_routes.
Proof. reflexivity. Qed.
Lemma hooks_match : gen_hooks = modelled_hooks.
Proof. reflexivity. Qed.

(** the literal 5 of v1.py is the LOCAL_PREF type code of yabgp/common/constants.py, 14/15 are
    MP_REACH / MP_UNREACH *)
Lemma literals_are_constants :
  5 = c_BGPTYPE_LOCAL_PREF /\ 14 = c_BGPTYPE_MP_REACH_NLRI /\ 15 = c_BGPTYPE_MP_UNREACH_NLRI.
Proof. repeat split; reflexivity. Qed.

(** ---- classification of the route table ---- *)
Lemma all_views_known :
  forall r, In r modelled_routes -> exists v, view_of (r_endpoint r) = Some v.
Proof.
  intros r H. cbn in H.
  repeat (destruct H as [<- | H]; [eexists; vm_compute; reflexivity|]). destruct H.
Qed.

Definition route_ok (r : route) : bool :=
  (* under /v1/peer/  <->  classified as revealing or changing peer state *)
  Bool.eqb (under_peer r) (peer_state_route r)
  (* ... and then authentication is the outermost decorator *)
  && implb (peer_state_route r) (requires_auth r)
  (* every sender is authenticated (outermost) and gated on Established *)
  && match effect_of r with
     | Some e => implb (sends e) (requires_auth r && gated r)
     | None => false
     end.

Lemma table_ok : forallb route_ok modelled_routes = true.
Proof. vm_compute. reflexivity. Qed.

Lemma route_ok_in r : In r modelled_routes -> route_ok r = true.
Proof. intros H. exact (proj1 (forallb_forall _ _) table_ok r H). Qed.

Lemma all_peer_routes_require_auth :
  forall r, In r modelled_routes ->
    (under_peer r = true <-> peer_state_route r = true) /\
    (peer_state_route r = true -> requires_auth r = true).
Proof.
  intros r H. apply route_ok_in in H. unfold route_ok in H.
  apply andb_true_iff in H; destruct H as [H _].
  apply andb_true_iff in H; destruct H as [H1 H2].
  apply Bool.eqb_prop in H1. split.
  - rewrite H1. tauto.
  - intros E. rewrite E in H2. exact H2.
Qed.

Lemma senders_authenticated_and_gated :
  forall r e, In r modelled_routes -> effect_of r = Some e -> sends e = true ->
    requires_auth r = true /\ gated r = true.
Proof.
  intros r e H E S. apply route_ok_in in H. unfold route_ok in H.
  apply andb_true_iff in H; destruct H as [_ H]. rewrite E, S in H. cbn in H.
  apply andb_true_iff in H. exact H.
Qed.

(** ---- basic facts ---- *)
Lemma st_is_est w : st_is w StEstablished = true <-> w_state w = StEstablished.
Proof. unfold st_is. destruct (w_state w); cbn; split; congruence. Qed.
Lemma st_is_not_est w : w_state w <> StEstablished -> st_is w StEstablished = false.
Proof. intros H. destruct (st_is w StEstablished) eqn:E; auto. apply st_is_est in E. contradiction. Qed.

Lemma quiet_out w : w_out (quiet w) = [].
Proof. reflexivity. Qed.
Lemma quiet_state w : w_state (quiet w) = w_state w.
Proof. reflexivity. Qed.
Lemma quiet_idem w : quiet (quiet w) = quiet w.
Proof. reflexivity. Qed.

Definition rejected (r : resp) : Prop := r = R401 \/ r = R405 \/ r = ROptions.

Section Rest.
Variable conf : string * string.
Variable D : decoders.
Variable construct : bool -> bool -> umsg -> option bytes.

Notation rest_step := (rest_step conf D construct).
Notation run_decos := (run_decos conf).

(** ---- no valid credentials: 401 and no effect ---- *)
Lemma unauth_401_no_effect :
  forall w q,
    requires_auth (q_route q) = true -> auth conf (q_creds q) = false ->
    q_meth q <> MOPTIONS -> method_allowed (q_meth q) (q_route q) = true ->
    rest_step w q = (quiet w, R401).
Proof.
  intros w [r m cr p] Ha Hc Hm Hal. cbn in *.
  unfold YRest.rest_step. cbn [q_route q_meth q_payload].
  unfold requires_auth in Ha. destruct (r_decos r) as [|[] ds]; try discriminate.
  destruct m; try congruence; rewrite Hal; cbn [YRest.run_decos q_creds]; rewrite Hc; reflexivity.
Qed.

(** whatever the method: nothing happens and the answer is never a success *)
Lemma unauth_never_served :
  forall w q,
    requires_auth (q_route q) = true -> auth conf (q_creds q) = false ->
    fst (rest_step w q) = quiet w /\ rejected (snd (rest_step w q)).
Proof.
  intros w [r m cr p] Ha Hc. cbn in *.
  unfold YRest.rest_step, rejected. cbn [q_route q_meth q_payload].
  unfold requires_auth in Ha. destruct (r_decos r) as [|[] ds]; try discriminate.
  destruct m; try (destruct (method_allowed _ r)); cbn [YRest.run_decos q_creds]; rewrite ?Hc; cbn; auto.
Qed.

(** ---- the Established gate ---- *)
Lemma run_decos_gate :
  forall ds q k w,
    existsb is_gate ds = true -> st_is w StEstablished = false ->
    fst (run_decos ds q k w) = w /\
    (snd (run_decos ds q k w) = R401 \/ snd (run_decos ds q k w) = RErr \/ snd (run_decos ds q k w) = RNotEstab).
Proof.
  induction ds as [|d ds IH]; intros q k w Hg Hs; cbn in Hg; try discriminate.
  destruct d; cbn in *.
  - destruct (auth conf (q_creds q)); cbn; auto.
  - destruct (meth_eqb (q_meth q) MPOST && is_pnone (q_payload q)); cbn; auto.
  - rewrite Hs. cbn. auto.
Qed.

Lemma not_established_no_effect :
  forall w q,
    gated (q_route q) = true -> w_state w <> StEstablished ->
    fst (rest_step w q) = quiet w /\ w_out (fst (rest_step w q)) = [] /\ snd (rest_step w q) <> ROk.
Proof.
  intros w [r m cr p] Hg Hs. cbn in *.
  assert (E : st_is (quiet w) StEstablished = false) by (apply st_is_not_est; exact Hs).
  assert (G : forall k, fst (run_decos (r_decos r) (mkReq r m cr p) k (quiet w)) = quiet w /\
                        snd (run_decos (r_decos r) (mkReq r m cr p) k (quiet w)) <> ROk).
  { intros k. destruct (run_decos_gate (r_decos r) (mkReq r m cr p) k (quiet w) Hg E) as [A B].
    split; [exact A|]. destruct B as [B|[B|B]]; rewrite B; discriminate. }
  unfold YRest.rest_step. cbn.
  destruct m; cbn;
    try (destruct (method_allowed _ r); cbn;
         [ destruct (G (run_view D construct r p)) as [A B]; rewrite A; repeat split; auto
         | repeat split; auto; discriminate ]).
  repeat split; auto; discriminate.
Qed.

(** with valid credentials, an allowed method and a JSON body the answer is exactly the gate's *)
Lemma not_established_refused :
  forall w q,
    In (q_route q) modelled_routes -> gated (q_route q) = true -> w_state w <> StEstablished ->
    auth conf (q_creds q) = true -> q_meth q = MPOST -> q_payload q <> PNone ->
    rest_step w q = (quiet w, RNotEstab).
Proof.
  intros w [r m cr p] Hin Hg Hs Ha Hm Hp. cbn in *. subst m.
  assert (E : st_is (quiet w) StEstablished = false) by (apply st_is_not_est; exact Hs).
  assert (P : is_pnone p = false) by (destruct p; try reflexivity; congruence).
  unfold YRest.rest_step. cbn [q_meth q_route q_payload].
  repeat (destruct Hin as [<- | Hin]; [try discriminate Hg; cbn; rewrite ?Ha, ?P; cbn; rewrite ?E; reflexivity|]).
  destruct Hin.
Qed.

(** ---- effects: a view classified EfNone / EfBookkeeping never touches the session world ---- *)
Lemma run_decos_fst :
  forall ds q k w, (forall w', fst (k w') = w') -> fst (run_decos ds q k w) = w.
Proof.
  induction ds as [|d ds IH]; intros q k w Hk; cbn; auto.
  destruct d.
  - destruct (auth conf (q_creds q)); cbn; auto.
  - destruct (meth_eqb (q_meth q) MPOST && is_pnone (q_payload q)); cbn; auto.
  - destruct (st_is w StEstablished); cbn; auto.
Qed.

Lemma effect_sound :
  forall w q e,
    effect_of (q_route q) = Some e -> (e = EfNone \/ e = EfBookkeeping) ->
    fst (rest_step w q) = quiet w.
Proof.
  intros w [r m cr p] e He Hn. cbn in *.
  unfold effect_of in He. destruct (view_of (r_endpoint r)) as [v|] eqn:Ev; try discriminate.
  cbn in He. injection He as He.
  assert (K : forall w', fst (run_view D construct r p w') = w').
  { intros w'. unfold run_view. rewrite Ev.
    destruct v; cbn in He; subst e; destruct Hn as [Hn|Hn]; try discriminate Hn; cbn; auto.
    - destruct p as [| |[]| | | | |]; reflexivity.
    - destruct p as [| | | | | |[]|]; destruct (w_proto w'); reflexivity.
    - destruct p as [| | | | | |[]|]; destruct (w_proto w'); reflexivity.
    - unfold view_json_to_bin, json_to_bin_core. destruct p; try reflexivity.
      + destruct (sendable _); try reflexivity. destruct (wire_of _ _ _); reflexivity.
      + destruct (cap_lookup w'); try reflexivity.
        destruct (sendable _); try reflexivity. destruct (wire_of _ _ _); reflexivity. }
  unfold YRest.rest_step. cbn.
  destruct m; cbn; try (destruct (method_allowed _ r); cbn; auto; apply run_decos_fst; exact K); auto.
Qed.

(** ---- the default LOCAL_PREF rule ---- *)
Lemma default_local_pref_ebgp m : default_local_pref false m = m.
Proof. unfold default_local_pref. rewrite andb_false_r. reflexivity. Qed.
Lemma default_local_pref_present ib m : has_attr 5 (u_attr m) = true -> default_local_pref ib m = m.
Proof. intros H. unfold default_local_pref. rewrite H. cbn. rewrite andb_false_r. reflexivity. Qed.
Lemma default_local_pref_no_attr ib m : u_attr m = [] -> default_local_pref ib m = m.
Proof. intros H. unfold default_local_pref. rewrite H. reflexivity. Qed.
Lemma default_local_pref_ibgp m :
  u_attr m <> [] -> has_attr 5 (u_attr m) = false ->
  default_local_pref true m = mkU (u_attr m ++ [(5, AVNum 100)]) (u_nlri m) (u_withdraw m).
Proof.
  intros H1 H2. unfold default_local_pref. rewrite H2. destruct (u_attr m); [congruence|reflexivity].
Qed.
(** in every case: nothing but a LOCAL_PREF 100 at the end is ever added *)
Lemma default_local_pref_spec ib m :
  let m' := default_local_pref ib m in
  u_nlri m' = u_nlri m /\ u_withdraw m' = u_withdraw m /\
  (u_attr m' = u_attr m \/
   (ib = true /\ has_attr 5 (u_attr m) = false /\ u_attr m <> [] /\ u_attr m' = u_attr m ++ [(5, AVNum 100)])).
Proof.
  unfold default_local_pref.
  destruct (nonempty (u_attr m) && negb (has_attr 5 (u_attr m)) && ib) eqn:C; cbn.
  - apply andb_true_iff in C. destruct C as [C Hib].
    apply andb_true_iff in C. destruct C as [Hne Hno].
    apply negb_true_iff in Hno.
    repeat split; auto. right. repeat split; auto.
    destruct (u_attr m); discriminate.
  - auto.
Qed.

(** ---- a send reported successful: exactly the requested message on the tracked connection ---- *)
Definition tracked_live (w : world) (c : nat) : Prop :=
  w_proto w = Some c /\ conn_connected c w = true.

(** the message the request asks for, as it should appear on the wire *)
Definition requested_wire (w : world) (q : request) : option wmsg :=
  match effect_of (q_route q), q_payload q with
  | Some EfSendUpdate, PUpdate m | Some EfSendUpdate, PUpdateCap m =>
      option_map WRaw (wire_of construct w (default_local_pref (ibgp w) m))
  | Some EfSendBin, PBin b => Some (WRaw b)
  | Some EfRouteRefresh, PRefresh afi safi res =>
      option_map (fun ty => WRouteRefresh ty afi res safi) (rr_type w)
  | _, _ => None
  end.

(** what a successful send changes besides the output: the per-connection sent counter *)
Definition count_sent (e : effect) (c : nat) (w : world) : world :=
  match e with
  | EfSendUpdate | EfSendBin => upd_conn c (on_sent bump_upd) w
  | EfRouteRefresh => upd_conn c (on_sent bump_rr) w
  | _ => w
  end.

Lemma conn_connected_quiet c w : conn_connected c (quiet w) = conn_connected c w.
Proof. reflexivity. Qed.

Lemma send_exact :
  forall w q w' c e,
    In (q_route q) modelled_routes -> effect_of (q_route q) = Some e -> sends e = true ->
    tracked_live w c ->
    rest_step w q = (w', ROk) ->
    exists msg, requested_wire w q = Some msg /\
                w_out w' = [OWrite c msg] /\
                w' = count_sent e c (emit (OWrite c msg) (quiet w)) /\
                w_state w = StEstablished /\ auth conf (q_creds q) = true.
Proof.
  intros w [r m cr p] w' c e Hin He Hs [Hp Hc] Hstep. cbn [q_route q_meth q_creds q_payload] in *.
  unfold requested_wire. cbn [q_route q_payload].
  assert (Hc' : conn_connected c (quiet w) = true) by exact Hc.
  assert (Hp' : w_proto (quiet w) = Some c) by exact Hp.
  repeat (destruct Hin as [<- | Hin];
          [ vm_compute in He; injection He as <-; try discriminate Hs | ]); try (destruct Hin).
  (* send/bin_update *)
  - unfold YRest.rest_step in Hstep. cbn [q_route q_meth] in Hstep.
    destruct m; try discriminate Hstep.
    cbn in Hstep.
    destruct (auth conf cr) eqn:Ea; try discriminate Hstep.
    destruct (is_pnone p) eqn:En; try discriminate Hstep. cbn in Hstep.
    destruct (st_is (quiet w) StEstablished) eqn:Est; try discriminate Hstep.
    unfold run_view in Hstep. cbn in Hstep.
    destruct p as [| | | | |b| |]; try discriminate Hstep.
    destruct b as [|x b]; try discriminate Hstep.
    unfold view_send_bin in Hstep. rewrite Hp' in Hstep.
    cbn [do_event] in Hstep. unfold api_send_bin, with_proto in Hstep.
    rewrite Hp' in Hstep. unfold conn_write in Hstep. rewrite Hc' in Hstep.
    injection Hstep as <-.
    exists (WRaw (x :: b)). vm_compute effect_of. cbn [count_sent].
    repeat split; auto. apply st_is_est in Est. exact Est.
  (* send/route-refresh *)
  - unfold YRest.rest_step in Hstep. cbn [q_route q_meth] in Hstep.
    destruct m; try discriminate Hstep.
    cbn in Hstep.
    destruct (auth conf cr) eqn:Ea; try discriminate Hstep.
    destruct (is_pnone p) eqn:En; try discriminate Hstep. cbn in Hstep.
    destruct (st_is (quiet w) StEstablished) eqn:Est; try discriminate Hstep.
    unfold run_view in Hstep. cbn in Hstep.
    destruct p as [| | | |afi safi res| | |]; try discriminate Hstep.
    unfold view_route_refresh in Hstep.
    change (rr_type (quiet w)) with (rr_type w) in Hstep.
    destruct (rr_type w) as [ty|] eqn:Ety; try discriminate Hstep.
    rewrite Hp' in Hstep.
    destruct (rr_family_ok afi safi (quiet w) && (afi <? 65536) && (safi <? 256) && (res <? 256));
      try discriminate Hstep.
    unfold conn_write in Hstep. rewrite Hc' in Hstep.
    injection Hstep as <-.
    exists (WRouteRefresh ty afi res safi). vm_compute effect_of. cbn [count_sent option_map].
    repeat split; auto. apply st_is_est in Est. exact Est.
  (* send/update *)
  - unfold YRest.rest_step in Hstep. cbn [q_route q_meth] in Hstep.
    destruct m; try discriminate Hstep.
    cbn in Hstep.
    destruct (auth conf cr) eqn:Ea; try discriminate Hstep.
    destruct (is_pnone p) eqn:En; try discriminate Hstep. cbn in Hstep.
    destruct (st_is (quiet w) StEstablished) eqn:Est; try discriminate Hstep.
    unfold run_view in Hstep. cbn in Hstep.
    unfold view_send_update in Hstep.
    assert (Core : forall u, send_update_core D construct u (quiet w) = (w', ROk) ->
              exists msg, option_map WRaw (wire_of construct w (default_local_pref (ibgp w) u)) = Some msg /\
                w_out w' = [OWrite c msg] /\
                w' = count_sent EfSendUpdate c (emit (OWrite c msg) (quiet w))).
    { intros u Hu. unfold send_update_core in Hu.
      change (ibgp (quiet w)) with (ibgp w) in Hu.
      destruct (sendable (default_local_pref (ibgp w) u)); try discriminate Hu.
      rewrite Hp' in Hu.
      change (wire_of construct (quiet w) (default_local_pref (ibgp w) u))
        with (wire_of construct w (default_local_pref (ibgp w) u)) in Hu.
      destruct (wire_of construct w (default_local_pref (ibgp w) u)) as [b|] eqn:Ew; try discriminate Hu.
      cbn [do_event] in Hu. unfold api_send_update, with_proto in Hu.
      rewrite Hp' in Hu. unfold conn_write in Hu. rewrite Hc' in Hu.
      injection Hu as <-.
      exists (WRaw b). cbn [count_sent option_map]. repeat split; auto. }
    apply st_is_est in Est. change (w_state (quiet w)) with (w_state w) in Est.
    vm_compute effect_of.
    destruct p as [| | |u| | | |u]; try discriminate Hstep.
    + destruct (Core u Hstep) as [msg [A [B C]]]. exists msg. repeat split; auto.
    + destruct (cap_lookup (quiet w)) as [r|] eqn:El.
      { exfalso. unfold cap_lookup in El. destruct (w_capr (quiet w)).
        - injection El as <-. discriminate Hstep.
        - destruct (cap_has KFourBytesAs _); [discriminate El|]. injection El as <-. discriminate Hstep. }
      destruct (Core u Hstep) as [msg [A [B C]]]. exists msg. repeat split; auto.
Qed.

(** the manual routes are exactly the session model's operator events *)
Lemma manual_routes_are_events :
  forall w q,
    In (q_route q) modelled_routes -> auth conf (q_creds q) = true -> q_meth q = MGET ->
    (effect_of (q_route q) = Some EfManualStop -> fst (rest_step w q) = step D w EManualStop) /\
    (effect_of (q_route q) = Some EfManualStart -> fst (rest_step w q) = step D w EManualStart).
Proof.
  intros w [r m cr p] Hin Ha Hm. cbn [q_route q_meth q_creds q_payload] in *. subst m.
  split; intros He;
  repeat (destruct Hin as [<- | Hin];
          [ vm_compute in He; try discriminate He;
            unfold YRest.rest_step; cbn; rewrite Ha; reflexivity | ]); destruct Hin.
Qed.

End Rest.
