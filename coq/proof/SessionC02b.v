(** C02: the cooperative continuation from "Idle, restart pending" reaches Established. *)
From YV Require Import lib.Base model.YWorld model.YProto gen.Consts gen.FsmGen model.YFraming
  model.YSession proof.SessionPres proof.SessionInv proof.SessionSym proof.SessionFraming
  proof.SessionField proof.SessionC18 proof.SessionC03 proof.SessionC03b proof.SessionC05 proof.SessionC13 proof.SessionC02.
From Coq Require Import Arith PeanoNat.

(** list facts for the connection appended by peering_connect *)
Lemma nth_error_app_last {A} (l : list A) x : nth_error (l ++ [x]) (length l) = Some x.
Proof. rewrite nth_error_app2 by lia. rewrite Nat.sub_diag. reflexivity. Qed.
Lemma nth_app_last {A} (l : list A) x d : nth (length l) (l ++ [x]) d = x.
Proof. rewrite app_nth2 by lia. rewrite Nat.sub_diag. reflexivity. Qed.
Lemma upd_nth_app_last {A} (f : A -> A) (l : list A) x : upd_nth (length l) f (l ++ [x]) = l ++ [f x].
Proof. induction l as [|y l IH]; cbn; [reflexivity|]. rewrite IH. reflexivity. Qed.

(** an OPEN frame whose body the decoder accepts *)
Definition open_body : bytes := [4; 0; 0; 0; 90; 10; 0; 0; 2; 0].
Definition open_frame : bytes := repeat 255 16 ++ [0; 29; 1] ++ open_body.
Lemma parse1_open (S : Type) dispatch (hdr : N -> bytes -> S -> S) (s : S) :
  parse1 S dispatch hdr open_frame s =
  (if fst (dispatch 1 open_body s) then PMsg (snd (dispatch 1 open_body s)) [] else PStuck (snd (dispatch 1 open_body s))).
Proof. reflexivity. Qed.

(** the shape of a session just started on connection n: OpenSent, nothing buffered *)
Definition Fresh (n : nat) (w : world) : Prop :=
  Good n w /\ c_closing (get_conn n w) = false /\ c_disc (get_conn n w) = false /\
  c_buf (get_conn n w) = [] /\ w_auto w = true.

Lemma keepalive_oc_exact w : w_state w = StOpenConfirm ->
  F_keep_alive_received w =
  set_state StEstablished (if w_hold w =? 0 then w else set_w_th (mkTimer (Some (w_now w + secs (w_hold w))) true) w).
Proof.
  intros Hs. destr_world w. cbn in Hs. subst. sym; destruct (hold =? 0); reflexivity.
Qed.

Section Recover.
Variable D : decoders.

(** acceptable OPEN on a fresh OpenSent session: OpenConfirm, still fresh *)
Lemma open_accept_fresh n msg asn phold caps w :
  Fresh n w -> w_state w = StOpenSent ->
  d_open D msg = OpOk asn phold caps -> asn = cf_remote_as (w_cfg w) ->
  hold_refused phold (N.min (w_hold w) phold) = false ->
  let r := open_received D n msg w in
  fst r = true /\ w_state (snd r) = StOpenConfirm /\ Fresh n (snd r) /\
  w_hold (snd r) = N.min (w_hold w) phold /\ w_cfg (snd r) = w_cfg w /\ w_now (snd r) = w_now w.
Proof.
  intros (Hg & Hcl & Hdi & Hb & Ha) Hs Hd Heq Hok. unfold open_received. cbv zeta. rewrite Hd.
  destr_world w. unfold Fresh, Good, get_conn, conn_connected in *. cbn in Hs, Hcl, Hdi, Hb, Ha, Heq, Hok. subst st auto.
  destruct Hg as [Hp Hc]. cbn in Hp, Hc. subst proto.
  destruct (nth_error conns n) as [k|] eqn:E; [|discriminate].
  assert (En : nth n conns conn0 = k) by (apply nth_error_nth; auto).
  assert (Hk : cst_eqb (c_st k) CConnected = true) by exact Hc.
  assert (Hlt : Nat.ltb n (length conns) = true) by (apply Nat.ltb_lt, nth_error_Some; congruence).
  rewrite En in Hcl, Hdi, Hb.
  assert (Hq : (asn =? cf_remote_as cfg) = true) by (apply N.eqb_eq; exact Heq).
  cbn [w_cfg upd_conn set_w_conns]. rewrite Hq. cbn [negb snd fst].
  unfold negotiate_hold_time. cbv zeta.
  assert (Hm : hold_refused phold (N.min hold phold) = false) by exact Hok.
  destruct (cap_has KFourBytesAs caps); cbn [w_hold set_w_hold upd_conn set_w_conns set_w_capr];
    rewrite Hm; sym_c; rewrite ?Hcl, ?Hdi in *; cbn in *; try discriminate;
    destruct (0 <? N.min hold phold); cbn;
    rewrite ?nth_error_upd_nth, ?nth_upd_nth, ?Nat.eqb_refl, ?length_upd_nth, ?Hlt, ?E, ?En; cbn;
    rewrite ?Hk; repeat split; auto.
Qed.

(** step 1: the restart timer fires *)
Lemma rec_fire w d : w_state w = StIdle -> w_auto w = true ->
  t_dl (w_tih w) = Some d -> no_earlier d w = true -> t_dl (w_tdo w) = None ->
  let w1 := step D w (EFire TIdleHold) in
  w_state w1 = StConnect /\ w_auto w1 = true /\ w_conns w1 = w_conns w ++ [conn0] /\ w_now w1 = d /\
  w_cfg w1 = w_cfg w /\ t_dl (w_tdo w1) = None /\ w_out w1 = [OConnect (length (w_conns w))].
Proof.
  intros Hs Ha Ht Hn Hd. unfold step. cbn [enabled get_tm]. rewrite Ht, Hn.
  cbn [do_event]. unfold fire_timer. cbn [get_tm set_w_out w_tih]. rewrite Ht. cbv zeta.
  destr_world w. cbn in Hs, Ha, Ht, Hd. subst. sym. repeat split; reflexivity.
Qed.

(** step 2: the peer accepts the TCP connection *)
Lemma rec_connok n w : nth_error (w_conns w) n = Some conn0 -> w_auto w = true ->
  t_dl (w_tdo w) = None ->
  let w2 := step D w (EConnOk n) in
  w_state w2 = StOpenSent /\ Fresh n w2 /\ w_hold w2 = cf_hold (w_cfg w) /\ w_cfg w2 = w_cfg w /\
  w_now w2 = w_now w /\
  (exists a h i caps, In (OWrite n (WOpen a h i caps)) (w_out w2) /\ h = cf_hold (w_cfg w)).
Proof.
  intros E Ha Hd. unfold step. cbn [enabled]. unfold conn_st_is. cbn [w_conns set_w_out]. rewrite E. cbn [cst_eqb c_st conn0].
  cbn [do_event].
  destr_world w. cbn in E, Ha, Hd. subst.
  assert (En : nth n conns conn0 = conn0) by (apply nth_error_nth; auto).
  assert (Hlt : Nat.ltb n (length conns) = true) by (apply Nat.ltb_lt, nth_error_Some; congruence).
  unfold Fresh, Good.
  destruct st; destruct capr; sym_c; rewrite ?nth_error_upd_nth, ?nth_upd_nth, ?Nat.eqb_refl, ?length_upd_nth, ?Hlt, ?E, ?En; cbn;
    repeat split; auto; do 4 eexists; (split; [right; left; reflexivity|reflexivity]).
Qed.

(** step 3: the peer's acceptable OPEN *)
Lemma rec_open n asn phold caps w :
  Fresh n w -> w_state w = StOpenSent ->
  d_open D open_body = OpOk asn phold caps -> asn = cf_remote_as (w_cfg w) ->
  hold_refused phold (N.min (w_hold w) phold) = false ->
  let w3 := step D w (EData n open_frame) in
  w_state w3 = StOpenConfirm /\ Fresh n w3 /\ w_hold w3 = N.min (w_hold w) phold /\ w_cfg w3 = w_cfg w /\
  w_now w3 = w_now w.
Proof.
  intros Hf Hs Hd Heq Hok.
  assert (Hf0 : Fresh n (set_w_out [] w)) by exact Hf.
  destruct Hf as ((Hp & Hc) & Hcl & Hdi & Hb & Ha).
  unfold step. cbn [enabled]. unfold conn_st_is, conn_connected in *.
  destruct (nth_error (w_conns w) n) as [k|] eqn:E; [|discriminate]. rewrite Hc, Hcl. cbn [negb andb].
  cbn [do_event]. unfold data_received. cbv zeta.
  change (c_buf (get_conn n (set_w_out [] w))) with (c_buf (get_conn n w)). rewrite Hb. cbn [app].
  change (length open_frame) with 29%nat. cbn [frame_loop]. rewrite parse1_open.
  change (dispatch D n 1 open_body (set_w_out [] w)) with (open_received D n open_body (set_w_out [] w)).
  destruct (open_accept_fresh n open_body asn phold caps (set_w_out [] w) Hf0 Hs Hd Heq Hok)
    as (R1 & R2 & (R3 & R4 & R5 & R6 & R7) & R8 & R9 & R10).
  rewrite R1. unfold conn_closed_by_us. rewrite R5.
  cbn [frame_loop fst snd]. change (parse1 _ _ _ [] _) with (@PNeed world). cbv iota. cbn [fst snd].
  set (w' := snd (open_received D n open_body (set_w_out [] w))) in *.
  assert (Hgc : get_conn n (upd_conn n (set_c_buf []) w') = set_c_buf [] (get_conn n w')).
  { unfold get_conn, upd_conn. cbn [w_conns set_w_conns]. rewrite nth_upd_nth, Nat.eqb_refl.
    pose proof (Good_lt n w' R3) as Hl. apply Nat.ltb_lt in Hl. rewrite Hl. reflexivity. }
  split; [exact R2|]. split; [|split; [exact R8|split; [exact R9|exact R10]]].
  unfold Fresh. rewrite Hgc. cbn [c_closing c_disc c_buf set_c_buf].
  split; [|repeat split; auto].
  destruct R3 as [Rp Rc]. split; [exact Rp|]. rewrite connected_upd_st; auto.
Qed.

(** step 4: the peer's KEEPALIVE *)
Lemma rec_keepalive n w : Fresh n w -> w_state w = StOpenConfirm ->
  let w4 := step D w (EData n ka_frame) in
  w_state w4 = StEstablished /\ w_proto w4 = Some n /\ w_hold w4 = w_hold w /\ w_now w4 = w_now w /\
  In (OHandler HEstablished) (w_out w4).
Proof.
  intros ((Hp & Hc) & Hcl & Hdi & Hb & Ha) Hs.
  unfold step. cbn [enabled]. unfold conn_st_is, conn_connected in *.
  destruct (nth_error (w_conns w) n) as [k|] eqn:E; [|discriminate]. rewrite Hc, Hcl. cbn [negb andb].
  cbn [do_event]. unfold data_received. cbv zeta.
  change (c_buf (get_conn n (set_w_out [] w))) with (c_buf (get_conn n w)). rewrite Hb. cbn [app].
  change (length ka_frame) with 19%nat. cbn [frame_loop]. rewrite parse1_keepalive.
  unfold dispatch. change (4 =? c_MSG_OPEN) with false. change (4 =? c_MSG_UPDATE) with false.
  change (4 =? c_MSG_NOTIFICATION) with false. change (4 =? c_MSG_KEEPALIVE) with true. cbv iota.
  unfold keepalive_received. cbv zeta. cbn [fst snd].
  set (w1 := emit (OHandler HKeepalive) (upd_conn n (on_recv bump_ka) (set_w_out [] w))).
  assert (S1 : w_state w1 = StOpenConfirm) by exact Hs.
  rewrite (keepalive_oc_exact w1 S1).
  set (w2 := if w_hold w1 =? 0 then w1 else set_w_th _ w1).
  assert (Hst : w_state w2 = StOpenConfirm) by (unfold w2; destruct (w_hold w1 =? 0); exact S1).
  unfold set_state. rewrite Hst. cbn [bst_eqb].
  set (w3 := emit (OHandler HEstablished) (set_w_state StEstablished w2)).
  assert (Cw : c_disc (get_conn n w3) = false).
  { unfold w3, w2, w1, get_conn, upd_conn, emit. destruct (w_hold _ =? 0); cbn; rewrite nth_upd_nth;
      destruct (_ && _); cbn; exact Hdi. }
  unfold conn_closed_by_us. rewrite Cw.
  cbn [frame_loop fst snd]. change (parse1 _ _ _ [] w3) with (@PNeed world). cbv iota. cbn [fst snd].
  unfold w3, w2, w1. destruct (w_hold _ =? 0); cbn; repeat split; auto.
Qed.

(** C02: from ANY world that is Idle with the restart timer pending (the operator has not stopped
    the peer) — whatever history of refusals, resets, errors and malformed messages led there —
    once the peer behaves (accepts the connection, sends an acceptable OPEN and a KEEPALIVE) the
    session is Established on the new connection; the virtual time spent is exactly what was left
    of the idle-hold period; the OPEN offered carries the CONFIGURED hold time *)
Theorem recovers : forall w d asn phold caps,
  w_state w = StIdle -> w_auto w = true ->
  t_dl (w_tih w) = Some d -> no_earlier d w = true -> t_dl (w_tdo w) = None ->
  d_open D open_body = OpOk asn phold caps -> asn = cf_remote_as (w_cfg w) ->
  hold_refused phold (N.min (cf_hold (w_cfg w)) phold) = false ->
  let n := length (w_conns w) in
  let es := [EFire TIdleHold; EConnOk n; EData n open_frame; EData n ka_frame] in
  let w' := run D w es in
  w_state w' = StEstablished /\ w_proto w' = Some n /\
  w_hold w' = N.min (cf_hold (w_cfg w)) phold /\ w_now w' = d /\
  (exists a i cs, In (OWrite n (WOpen a (cf_hold (w_cfg w)) i cs)) (run_outs D w es)).
Proof.
  intros w d asn phold caps Hs Ha Ht Hn Hd Ho Heq Hok n es w'.
  destruct (rec_fire w d Hs Ha Ht Hn Hd) as (A1 & A2 & A3 & A4 & A5 & A6 & A7).
  set (w1 := step D w (EFire TIdleHold)) in *.
  assert (E1 : nth_error (w_conns w1) n = Some conn0) by (rewrite A3; apply nth_error_app_last).
  destruct (rec_connok n w1 E1 A2 A6) as (B1 & B2 & B3 & B4 & B5 & (a & h & i & cs & B6 & B7)).
  set (w2 := step D w1 (EConnOk n)) in *.
  assert (Heq2 : asn = cf_remote_as (w_cfg w2)) by (rewrite B4, A5; exact Heq).
  assert (Hok2 : hold_refused phold (N.min (w_hold w2) phold) = false) by (rewrite B3, A5; exact Hok).
  destruct (rec_open n asn phold caps w2 B2 B1 Ho Heq2 Hok2) as (C1 & C2 & C3 & C4 & C5).
  set (w3 := step D w2 (EData n open_frame)) in *.
  destruct (rec_keepalive n w3 C2 C1) as (D1 & D2 & D3 & D4 & D5).
  unfold w', es. cbn [run fold_left]. fold w1. fold w2. fold w3.
  split; [exact D1|]. split; [exact D2|]. split; [rewrite D3, C3, B3, A5; reflexivity|].
  split; [rewrite D4, C5, B5; exact A4|].
  exists a, i, cs. cbn [run_outs]. fold w1. fold w2.
  apply in_or_app. right. apply in_or_app. left. rewrite <- in_rev.
  subst h. rewrite A5 in B6. exact B6.
Qed.
End Recover.
