(** C09: the model of yabgp's UPDATE decoder (model/YUpdateExt.v on top of YPrefix4 / YAttr / YUpdate)
    decodes every encoding the RFC reference encoder (spec/RefUpdate.v) can produce, in every
    variant, to the encoded values; and reports an error for the single-field malformations. *)
From YV Require Import lib.Base gen.Consts model.YMsg model.YPrefix4 model.YAttr model.YUpdate
  model.YUpdateExt proof.UpdateProofsPrefix proof.UpdateProofsAttr proof.UpdateProofs spec.RefUpdate
  proof.RefUpdateProofsPrefix.
From Coq Require Import ZArith Lia ZifyBool ZifyNat ZifyN Permutation.
Ltac Zify.zify_post_hook ::= Z.to_euclidean_division_equations.

(** ================= what the property expects to be decoded ================= *)
Definition canon_rext (e : rext) : N * list N :=
  (ext_canon_code (fst e), [fst (snd e); snd (snd e)]).

Definition canon_aval (a : rattr) : aval :=
  match a with
  | ROrigin o => VNum o
  | RAsPath s => VPath s
  | RNextHop x | RMed x | RLocalPref x | ROriginator x => VNum x
  | RAtomic => VEmpty
  | RAggregator asn addr => VPair asn addr
  | RCommunities l => VComms (map comm_of_value l)
  | RClusterList l => VNums l
  | RExtCommunities l => VExts (map canon_rext l)
  | RLargeCommunities l => VLarge (map (fun c => [fst c; fst (snd c); snd (snd c)]) l)
  | RAs4Path s => VPath s
  | RAs4Aggregator asn addr => VPair asn addr
  end.

Definition canon_attr (a : rattr) : N * aval := (attr_code a, canon_aval a).

(** the encoded values: prefixes (with their path identifiers when add-path is on; trailing bits are
    not part of the value), the attributes under their type codes *)
Definition canon (var : variants) (v : rupdate) : xupd :=
  mkXU (map (canon_pfx (v_addpath var)) (r_withdraw v)) (map canon_attr (r_attrs v))
       (map (canon_pfx (v_addpath var)) (r_nlri v)).

Definition mode_of (var : variants) : mode := (v_asn4 var, v_addpath var).


(** ================= one attribute ================= *)
(** flags, type, 1- or 2-octet length as announced by the Extended Length bit *)
Lemma parse_tlv_ser w rest :
  (wa_flags w / 16) mod 2 = 0 -> len (wa_payload w) <= 65535 ->
  (wa_ext w = false -> len (wa_payload w) <= 255) ->
  parse_tlv (ser_attr w ++ rest) = Some (wa_code w, wa_payload w, rest).
Proof.
  destruct w as [flag tc ext payload]. cbn [wa_flags wa_code wa_ext wa_payload].
  intros Hf Hl Hs. unfold ser_attr. cbn [wa_flags wa_code wa_ext wa_payload]. destruct ext.
  - rewrite be2_eq. cbn [app parse_tlv].
    destruct (((flag + 16) / 16) mod 2 =? 1) eqn:E2; [|lia].
    assert (Hn : N.to_nat (len payload / 256 mod 256 * 256 + len payload mod 256) = length payload).
    { unfold len in *. lia. }
    rewrite Hn. unfold take, drop. rewrite firstn_app_exact, skipn_app_exact. reflexivity.
  - specialize (Hs eq_refl). cbn [app parse_tlv].
    destruct ((flag / 16) mod 2 =? 1) eqn:E2; [lia|].
    assert (Hn : N.to_nat (len payload) = length payload) by (unfold len; lia).
    rewrite Hn. unfold take, drop. rewrite firstn_app_exact, skipn_app_exact. reflexivity.
Qed.

Lemma attr_flags_ok a : (attr_flags a / 16) mod 2 = 0.
Proof. destruct a; reflexivity. Qed.

Lemma ser_attr_nonempty w : ser_attr w <> [].
Proof. unfold ser_attr. destruct (wa_ext w); discriminate. Qed.

(** ---- AS paths: any number of segments of the four types ---- *)
Lemma wf_seg_segment asn4 s : wf_seg (as_lim asn4) s -> wf_segment asn4 s.
Proof.
  intros (Ht & Hn & Hx). split; [exact Ht|]. split; [unfold len; lia|].
  destruct asn4; exact Hx.
Qed.

Lemma parse_path asn4 segs : Forall (wf_seg (as_lim asn4)) segs ->
  parse_aspath asn4 (enc_path (as_octets asn4) segs) = Ok (VPath segs).
Proof.
  intros H. unfold parse_aspath.
  change (enc_path (as_octets asn4) segs) with (concat (map (enc_segment asn4) segs)).
  rewrite (walk_concat (parse_segment asn4) (enc_segment asn4) (wf_segment asn4)).
  - reflexivity.
  - intros x rest Hx. apply parse_segment_enc. exact Hx.
  - intros x _. unfold enc_segment. discriminate.
  - eapply Forall_impl; [|exact H]. intros s. apply wf_seg_segment.
  - lia.
Qed.

(** ---- extended communities: route target / route origin in the three forms ---- *)
Lemma rext_codes code : (code mod 256 = 2 \/ code mod 256 = 3) -> (code / 256 = 0 \/ code / 256 = 1 \/ code / 256 = 2) ->
  In code [2; 3; 258; 259; 514; 515].
Proof. intros H1 H2. cbn [In]. lia. Qed.

Ltac rext_case :=
  unfold enc_rext; cbn [fst snd];
  match goal with |- context [ext_type ?c] => let v := eval vm_compute in (ext_type c) in change (ext_type c) with v end;
  cbn [N.eqb Pos.eqb];
  rewrite ?be2_eq, ?be4_eq;
  match goal with |- context [?a / 256 mod 256 :: ?a mod 256 :: _] => idtac end;
  cbn [app];
  do 8 eexists; split; [reflexivity|];
  unfold canon_rext; cbn [fst snd];
  match goal with |- dec_ext ?t ?s _ _ _ _ _ _ = _ =>
    let t' := eval vm_compute in t in let s' := eval vm_compute in s in change t with t'; change s with s' end;
  cbv [dec_ext];
  match goal with |- context [?a * 256 + ?b =? c_BGP_EXT_TRA_ACTION] =>
    let v := eval vm_compute in (a * 256 + b) in change (a * 256 + b) with v end;
  match goal with |- context [?a =? c_BGP_EXT_TRA_ACTION] =>
    let v := eval vm_compute in (a =? c_BGP_EXT_TRA_ACTION) in change (a =? c_BGP_EXT_TRA_ACTION) with v end;
  cbv iota;
  match goal with |- context [ext_kind ?c] => let v := eval vm_compute in (ext_kind c) in change (ext_kind c) with v end;
  match goal with |- context [ext_canon_code ?c] => let v := eval vm_compute in (ext_canon_code c) in change (ext_canon_code c) with v end;
  cbv iota; rewrite ?unbe2, ?unbe4; repeat f_equal; unfold p16, p32 in *; lia.

Lemma dec_rext_enc e : wf_rext e ->
  exists t s v0 v1 v2 v3 v4 v5,
    enc_rext e = [t; s; v0; v1; v2; v3; v4; v5] /\
    dec_ext t s v0 v1 v2 v3 v4 v5 = Some (canon_rext e).
Proof.
  destruct e as [code [g l]]. intros (Hs & Hk).
  assert (K : In code [2; 3; 258; 259; 514; 515]) by (apply rext_codes; lia).
  cbn [In] in K.
  repeat (destruct K as [<- | K]; [ rext_case | ]).
  destruct K.
Qed.

Lemma dec_rexts l : Forall wf_rext l ->
  length (concat (map enc_rext l)) = (length l * 8)%nat /\
  dec_exts (concat (map enc_rext l)) = Some (map canon_rext l).
Proof.
  intros H. induction H as [|e l He H IH].
  { split; reflexivity. }
  destruct IH as (IH1 & IH2).
  destruct (dec_rext_enc e He) as (t & s & v0 & v1 & v2 & v3 & v4 & v5 & D1 & D2).
  cbn [map concat]. rewrite D1. split.
  - rewrite app_length, IH1. cbn [length]. lia.
  - cbn [app dec_exts]. rewrite D2, IH2. reflexivity.
Qed.

(** ---- large communities ---- *)
Definition large_list (c : N * (N * N)) : list N := [fst c; fst (snd c); snd (snd c)].

Lemma enc_large_ref l :
  concat (map (fun c => be 4 (fst c) ++ be 4 (fst (snd c)) ++ be 4 (snd (snd c))) l) = enc_large (map large_list l).
Proof.
  unfold enc_large. induction l as [|c l IH]; [reflexivity|].
  cbn [map concat]. rewrite IH. change (large_list c) with [fst c; fst (snd c); snd (snd c)]. cbn [map concat]. rewrite app_nil_r, <- !app_assoc.
  reflexivity.
Qed.

Lemma parse_large l : Forall wf_large l -> parse_largecommunity (enc_large l) = Ok (VLarge l).
Proof.
  intros H.
  assert (Hall : Forall (fun x => x < 4294967296) (concat l)).
  { rewrite Forall_forall in *. intros x Hx. apply in_concat in Hx. destruct Hx as (c & Hc & Hx).
    destruct (H c Hc) as (_ & Hf). rewrite Forall_forall in Hf. auto. }
  unfold parse_largecommunity. rewrite enc_large_flat, length_concat_be, length_concat3 by exact H.
  replace (length l * 3 * 4)%nat with (length l * 12)%nat by lia.
  rewrite mod_mul_eqb by discriminate.
  rewrite chunks4_be4 by auto. rewrite triples_concat by exact H. reflexivity.
Qed.

(** ---- every attribute value of the reference encoder, in both AS-number modes ---- *)
Lemma parse_payload asn4 a : wf_rattr asn4 a ->
  parse_attr_x asn4 (attr_code a) (attr_payload asn4 a) = Ok (canon_aval a).
Proof.
  destruct a as [o|segs|x|x|x| |asn addr|l|x|l|l|l|segs|asn addr];
    cbn [wf_rattr attr_code attr_payload canon_aval]; intros H;
    unfold parse_attr_x, parse_attr; eqb_consts.
  - unfold parse_origin_x. destruct (o <=? 2) eqn:E; [reflexivity | lia].
  - apply parse_path. exact H.
  - exact (proj2 (nexthop_roundtrip x H)).
  - exact (proj2 (u32_roundtrip 0 0 x H)).
  - exact (proj2 (u32_roundtrip 0 0 x H)).
  - reflexivity.
  - destruct H as (H1 & H2).
    exact (proj2 (aggregator_roundtrip asn4 asn addr ltac:(destruct asn4; exact H1) H2)).
  - unfold parse_community. rewrite length_concat_be, mod_mul_eqb by discriminate.
    rewrite chunks4_be4 by exact H. reflexivity.
  - exact (proj2 (originator_roundtrip x H)).
  - unfold parse_clusterlist. rewrite length_concat_be, mod_mul_eqb by discriminate.
    rewrite chunks4_be4 by exact H. reflexivity.
  - destruct (dec_rexts l H) as (E1 & E2).
    unfold parse_extcommunity. rewrite E1, mod_mul_eqb by discriminate. rewrite E2. reflexivity.
  - rewrite enc_large_ref. rewrite parse_large; [reflexivity|].
    rewrite Forall_forall in *. intros c Hc. apply in_map_iff in Hc. destruct Hc as (c0 & <- & Hc0).
    destruct (H c0 Hc0) as (A & B & C). split; [reflexivity|].
    unfold large_list.
    apply Forall_cons; [exact A|]. apply Forall_cons; [exact B|]. apply Forall_cons; [exact C|]. apply Forall_nil.
  - apply (parse_path true). exact H.
  - destruct H as (H1 & H2).
    exact (proj2 (aggregator_roundtrip true asn addr H1 H2)).
Qed.

(** ================= the attribute list: any order, any mix of length forms ================= *)
Lemma parse_attrs_fx_nil fuel asn4 acc : parse_attrs_fx fuel asn4 acc [] = (acc, None).
Proof. destruct fuel; reflexivity. Qed.

Lemma parse_attrs_fx_step fuel asn4 acc d tc v rest a :
  d <> [] -> parse_tlv d = Some (tc, v, rest) -> parse_attr_x asn4 tc v = Ok a ->
  parse_attrs_fx (S fuel) asn4 acc d = parse_attrs_fx fuel asn4 (dict_set tc a acc) rest.
Proof.
  intros Hd H1 H2. destruct d; [congruence|]. cbn [parse_attrs_fx]. rewrite H1, H2. reflexivity.
Qed.

Lemma parse_attrs_fx_err fuel asn4 acc d tc v rest c s :
  d <> [] -> parse_tlv d = Some (tc, v, rest) -> parse_attr_x asn4 tc v = Err c s ->
  parse_attrs_fx (S fuel) asn4 acc d = (acc, Some s).
Proof.
  intros Hd H1 H2. destruct d; [congruence|]. cbn [parse_attrs_fx]. rewrite H1, H2. reflexivity.
Qed.

Lemma lay_attr_tlv var a rest : len (attr_payload (v_asn4 var) a) <= 65535 ->
  parse_tlv (ser_attr (lay_attr var a) ++ rest) = Some (attr_code a, attr_payload (v_asn4 var) a, rest).
Proof.
  intros H. rewrite parse_tlv_ser; unfold lay_attr; cbn [wa_flags wa_code wa_ext wa_payload].
  - reflexivity.
  - apply attr_flags_ok.
  - exact H.
  - intros E. apply orb_false_iff in E. destruct E as (E & _). lia.
Qed.

Lemma ser_attrs_cons w ws : ser_attrs (w :: ws) = ser_attr w ++ ser_attrs ws.
Proof. reflexivity. Qed.

Lemma length_ser_attr_pos w : (1 <= length (ser_attr w))%nat.
Proof. pose proof (ser_attr_nonempty w). destruct (ser_attr w); [congruence | cbn; lia]. Qed.

Lemma attrs_walk var l :
  Forall (wf_rattr (v_asn4 var)) l -> NoDup (map attr_code l) ->
  Forall (fun a => len (attr_payload (v_asn4 var) a) <= 65535) l ->
  forall acc fuel, (forall k, In k (map fst acc) -> ~ In k (map attr_code l)) ->
    (length (ser_attrs (map (lay_attr var) l)) <= fuel)%nat ->
    parse_attrs_fx fuel (v_asn4 var) acc (ser_attrs (map (lay_attr var) l)) = (acc ++ map canon_attr l, None).
Proof.
  intros H. induction H as [|a l Ha H IH]; intros Hnd Hlen acc fuel Hacc Hfuel.
  - cbn [map]. rewrite parse_attrs_fx_nil, app_nil_r. reflexivity.
  - cbn [map] in *. inversion Hnd as [|? ? Hnotin Hnd']; subst.
    inversion Hlen as [|? ? Hla Hlen']; subst.
    rewrite ser_attrs_cons in *. rewrite app_length in Hfuel.
    pose proof (length_ser_attr_pos (lay_attr var a)) as Hpos.
    destruct fuel as [|fuel]; [lia|].
    rewrite (parse_attrs_fx_step fuel (v_asn4 var) acc _ (attr_code a) (attr_payload (v_asn4 var) a)
               (ser_attrs (map (lay_attr var) l)) (canon_aval a)).
    + rewrite dict_set_fresh.
      * rewrite IH.
        -- rewrite <- app_assoc. reflexivity.
        -- exact Hnd'.
        -- exact Hlen'.
        -- intros k Hk. rewrite map_app, in_app_iff in Hk. cbn [map fst In] in Hk.
           destruct Hk as [Hk | [<- | []]].
           ++ intro Hin. apply (Hacc k Hk). right. exact Hin.
           ++ exact Hnotin.
        -- lia.
      * intro Hin. apply (Hacc _ Hin). left. reflexivity.
    + intro Hc. apply app_eq_nil in Hc. destruct Hc as (Hc & _). exact (ser_attr_nonempty _ Hc).
    + apply lay_attr_tlv. exact Hla.
    + apply parse_payload. exact Ha.
Qed.

(** ================= the message ================= *)
(** what Update.parse does once the three parts are cut out *)
Definition assemble (asn4 ap : bool) (wd ad nd : bytes) : res xparsed :=
  let '(w, n, sub1) :=
    match parse_prefixes_x ap wd with
    | Ok w =>
      match parse_prefixes_x ap nd with
      | Ok n => (w, n, None)
      | _ => (w, [], Some c_ERR_MSG_UPDATE_INVALID_NETWORK_FIELD)
      end
    | _ => ([], [], Some c_ERR_MSG_UPDATE_INVALID_NETWORK_FIELD)
    end in
  let '(a, sub2) := parse_attributes_x asn4 ad in
  Ok (mkXP w a n (match sub2 with Some s => Some s | None => sub1 end)).

Lemma parse_full_x_parts asn4 ap wd ad nd : len wd <= 65535 -> len ad <= 65535 ->
  parse_full_x asn4 ap (construct_body wd ad nd) = assemble asn4 ap wd ad nd.
Proof.
  intros Hw Ha.
  destruct (body_slices wd ad nd Hw Ha) as (B1 & B2 & B3 & B4 & B5 & B6).
  unfold parse_full_x. rewrite B1. cbn [Nat.eqb].
  rewrite B3, B4, length_be. cbn [Nat.eqb].
  rewrite unbe_be2 by lia.
  assert (A : N.to_nat (len ad) = length ad) by (unfold len; lia). rewrite A.
  rewrite B5, B6. reflexivity.
Qed.

Lemma serialise_body w :
  serialise w = construct_body (ser_pfxs (w_withdraw w)) (ser_attrs (w_attrs w)) (ser_pfxs (w_nlri w)).
Proof. reflexivity. Qed.

Lemma len_construct_body wd ad nd : len (construct_body wd ad nd) = 4 + len wd + len ad + len nd.
Proof. unfold construct_body. rewrite !len_app2, !len_be. lia. Qed.

Lemma len_ser_attr_ge w : len (wa_payload w) <= len (ser_attr w).
Proof.
  unfold ser_attr. destruct (wa_ext w); rewrite ?len_cons, ?len_app2, ?len_cons; lia.
Qed.

Lemma len_ser_attrs_ge ws : Forall (fun w => len (ser_attr w) <= len (ser_attrs ws)) ws.
Proof.
  induction ws as [|w ws IH]; [constructor|].
  rewrite ser_attrs_cons, len_app2. constructor; [lia|].
  eapply Forall_impl; [|exact IH]. cbv beta. intros; lia.
Qed.

Lemma payload_bounds var l : len (ser_attrs (map (lay_attr var) l)) <= 65535 ->
  Forall (fun a => len (attr_payload (v_asn4 var) a) <= 65535) l.
Proof.
  intros H. pose proof (len_ser_attrs_ge (map (lay_attr var) l)) as G.
  rewrite Forall_forall in *. intros a Ha.
  specialize (G (lay_attr var a) (in_map _ _ _ Ha)).
  pose proof (len_ser_attr_ge (lay_attr var a)) as P. unfold lay_attr in P at 1. cbn [wa_payload] in P. lia.
Qed.

(** C09, first half, at the decoder (Update.parse given the negotiated modes) *)
Theorem decodes_reference var v : wf var v ->
  parse_x (mode_of var) (ref_encode var v) = Ok (canon var v).
Proof.
  intros (Hw & Hn & Ha & Hnd & Hsize).
  unfold ref_encode in *. rewrite serialise_body in *. rewrite len_construct_body in Hsize.
  unfold layout in *. cbn [w_withdraw w_attrs w_nlri] in *.
  set (wd := ser_pfxs (lay_pfxs (v_addpath var) (v_fill_w var) (r_withdraw v))) in *.
  set (nd := ser_pfxs (lay_pfxs (v_addpath var) (v_fill_n var) (r_nlri v))) in *.
  set (ad := ser_attrs (map (lay_attr var) (r_attrs v))) in *.
  unfold parse_x, mode_of. cbn [fst snd].
  rewrite parse_full_x_parts by lia. unfold assemble.
  unfold wd, nd. rewrite !parse_prefixes_lay by assumption.
  unfold parse_attributes_x.
  unfold ad at 2. rewrite attrs_walk.
  - cbn [bind xp_sub xp_withdraw xp_attrs xp_nlri app]. reflexivity.
  - exact Ha.
  - exact Hnd.
  - apply payload_bounds. fold ad. lia.
  - intros k [].
  - fold ad. lia.
Qed.

(** ================= the variants, one at a time ================= *)
Definition with_fill (var : variants) (fw fn : list N) : variants :=
  mkVar (v_asn4 var) (v_addpath var) (v_ext var) fw fn.
Definition with_ext (var : variants) (ext : list N) : variants :=
  mkVar (v_asn4 var) (v_addpath var) ext (v_fill_w var) (v_fill_n var).

(** the size of an encoded prefix list does not depend on the fillers *)
Lemma length_lay_pfxs ap ps : forall f1 f2,
  length (ser_pfxs (lay_pfxs ap f1 ps)) = length (ser_pfxs (lay_pfxs ap f2 ps)).
Proof.
  induction ps as [|[pid [a l]] ps IH]; intros f1 f2; [reflexivity|].
  cbn [lay_pfxs]. unfold ser_pfxs in *. cbn [map concat]. rewrite !app_length.
  rewrite (IH (tl f1) (tl f2)). f_equal.
  unfold lay_pfx, ser_pfx. cbn [wp_id wp_len wp_octets].
  rewrite !app_length. cbn [length]. rewrite !firstn_length, !length_be. reflexivity.
Qed.

Lemma wf_with_fill var v fw fn : wf var v -> wf (with_fill var fw fn) v.
Proof.
  intros (Hw & Hn & Ha & Hnd & Hsize). repeat split; try assumption.
  unfold ref_encode in *. rewrite serialise_body in *. rewrite len_construct_body in *.
  unfold layout, with_fill in *. cbn [w_withdraw w_attrs w_nlri v_asn4 v_addpath v_ext v_fill_w v_fill_n] in *.
  unfold len in *.
  rewrite (length_lay_pfxs (v_addpath var) (r_withdraw v) fw (v_fill_w var)).
  rewrite (length_lay_pfxs (v_addpath var) (r_nlri v) fn (v_fill_n var)).
  exact Hsize.
Qed.

(** whatever is put behind the prefix bits, the same values are decoded *)
Theorem trailing_bits var v fw fn : wf var v ->
  parse_x (mode_of var) (ref_encode (with_fill var fw fn) v) = Ok (canon var v).
Proof.
  intros H. exact (decodes_reference (with_fill var fw fn) v (wf_with_fill var v fw fn H)).
Qed.

(** the Extended Length flag on any set of attributes, short ones included *)
Theorem extended_length var v ext : wf (with_ext var ext) v ->
  parse_x (mode_of var) (ref_encode (with_ext var ext) v) = Ok (canon var v).
Proof. intros H. exact (decodes_reference (with_ext var ext) v H). Qed.

(** any order of the attributes: the same prefixes and the same attribute map *)
Theorem attr_order var v v' :
  Permutation (r_attrs v) (r_attrs v') -> r_withdraw v = r_withdraw v' -> r_nlri v = r_nlri v' ->
  wf var v -> wf var v' ->
  exists u u', parse_x (mode_of var) (ref_encode var v) = Ok u /\
               parse_x (mode_of var) (ref_encode var v') = Ok u' /\
               xu_withdraw u = xu_withdraw u' /\ xu_nlri u = xu_nlri u' /\
               NoDup (map fst (xu_attrs u)) /\ Permutation (xu_attrs u) (xu_attrs u').
Proof.
  intros Hp Hw Hn H H'. exists (canon var v), (canon var v').
  split; [apply decodes_reference; exact H|]. split; [apply decodes_reference; exact H'|].
  unfold canon. cbn [xu_withdraw xu_nlri xu_attrs]. rewrite Hw, Hn.
  split; [reflexivity|]. split; [reflexivity|]. split.
  - rewrite map_map. cbn [canon_attr fst]. destruct H as (_ & _ & _ & Hnd & _). exact Hnd.
  - apply Permutation_map. exact Hp.
Qed.

(** AS_PATH with any number of segments of the four types, in both AS-number modes *)
Theorem multi_segment asn4 segs : Forall (wf_seg (as_lim asn4)) segs ->
  parse_attr_x asn4 2 (enc_path (as_octets asn4) segs) = Ok (VPath segs).
Proof. intros H. exact (parse_payload asn4 (RAsPath segs) H). Qed.

(** AS4_PATH / AS4_AGGREGATOR: 4-octet AS numbers whatever was negotiated, reported under 17 / 18 *)
Theorem as4_attrs asn4 segs asn addr : Forall (wf_seg p32) segs -> asn < p32 -> addr < p32 ->
  parse_attr_x asn4 17 (enc_path 4 segs) = Ok (VPath segs) /\
  parse_attr_x asn4 18 (be 4 asn ++ be 4 addr) = Ok (VPair asn addr).
Proof.
  intros H1 H2 H3. split.
  - exact (parse_payload asn4 (RAs4Path segs) H1).
  - exact (parse_payload asn4 (RAs4Aggregator asn addr) (conj H2 H3)).
Qed.

(** add-path, at the decoder: every prefix comes back with its path identifier *)
Theorem addpath_decoder var v : v_addpath var = true -> wf var v ->
  parse_x (v_asn4 var, true) (ref_encode var v) =
  Ok (mkXU (map (fun p => (Some (fst p), snd p)) (r_withdraw v)) (map canon_attr (r_attrs v))
           (map (fun p => (Some (fst p), snd p)) (r_nlri v))).
Proof.
  intros E H. pose proof (decodes_reference var v H) as D. unfold mode_of, canon, canon_pfx in D.
  rewrite E in D. exact D.
Qed.

(** ================= the agent: BGP._update_received ================= *)
(** without add-path the call site is the decoder in the negotiated AS-number mode *)
Theorem received_reference var v b : v_addpath var = false -> wf var v ->
  received_update (v_asn4 var) b (ref_encode var v) = Ok (canon var v).
Proof.
  intros E H. pose proof (decodes_reference var v H) as D. unfold mode_of in D. rewrite E in D. exact D.
Qed.

(** with add-path negotiated the call site still decodes without path identifiers: witness
    (observed on the implementation, harness/props/c09.py): 0.0.0.0/32 with path id 474356743 *)
Definition addpath_var : variants := mkVar true true [] [] [].
Definition addpath_witness : rupdate :=
  mkR [] [ROrigin 0; RNextHop 167772161] [(474356743, (0, 32))].

Lemma addpath_witness_wf : wf addpath_var addpath_witness.
Proof.
  unfold wf, addpath_var, addpath_witness. cbn [r_withdraw r_nlri r_attrs v_asn4].
  split; [constructor|]. split.
  { constructor; [|constructor]. repeat split; vm_compute; congruence. }
  split.
  { constructor; [vm_compute; congruence|]. constructor; [vm_compute; reflexivity|]. constructor. }
  split.
  { cbn [map attr_code]. constructor; [cbn [In]; lia|]. constructor; [cbn [In]; tauto|]. constructor. }
  vm_compute. congruence.
Qed.

Theorem addpath_session_refuted :
  wf addpath_var addpath_witness /\ v_addpath addpath_var = true /\
  ref_encode addpath_var addpath_witness =
    [0; 0; 0; 11; 64; 1; 1; 0; 64; 3; 4; 10; 0; 0; 1; 28; 70; 28; 7; 32; 0; 0; 0; 0] /\
  received_update (v_asn4 addpath_var) (v_addpath addpath_var) (ref_encode addpath_var addpath_witness) =
    Ok (mkXU [] [(1, VNum 0); (3, VNum 167772161)]
             [(None, (1176241952, 28)); (None, (0, 0)); (None, (0, 0)); (None, (0, 0)); (None, (0, 0))]) /\
  received_update (v_asn4 addpath_var) (v_addpath addpath_var) (ref_encode addpath_var addpath_witness) <>
    Ok (canon addpath_var addpath_witness).
Proof.
  split; [exact addpath_witness_wf|]. split; [reflexivity|]. split; [vm_compute; reflexivity|].
  split; [vm_compute; reflexivity|]. vm_compute. discriminate.
Qed.

(** ================= the error half: field level, for all inputs ================= *)
Definition E3 {A} (s : N) : res A := Err c_ERR_MSG_UPDATE s.

Lemma reject_origin_value asn4 o : 2 < o ->
  parse_attr_x asn4 1 [o] = E3 c_ERR_MSG_UPDATE_INVALID_ORIGIN.
Proof.
  intros H. unfold parse_attr_x. eqb_consts. unfold parse_origin_x.
  destruct (o <=? 2) eqn:E; [lia | reflexivity].
Qed.

(** a length other than the fixed one (NEXT_HOP: not a multiple of 4) *)
Definition wrong_len (asn4 : bool) (code : N) (n : nat) : Prop :=
  (code = 1 /\ n <> 1%nat) \/
  ((code = 4 \/ code = 5 \/ code = 9) /\ n <> 4%nat) \/
  (code = 6 /\ n <> 0%nat) \/
  (code = 7 /\ n <> (as_octets asn4 + 4)%nat) \/
  (code = 3 /\ Nat.modulo n 4 <> 0%nat).

Lemma reject_length asn4 code p : wrong_len asn4 code (length p) ->
  exists s, parse_attr_x asn4 code p = E3 s.
Proof.
  unfold wrong_len.
  intros [(-> & H) | [([-> | [-> | ->]] & H) | [(-> & H) | [(-> & H) | (-> & H)]]]];
    unfold parse_attr_x, parse_attr; eqb_consts.
  - unfold parse_origin_x. destruct p as [|x [|y r]]; [eexists; reflexivity | cbn in H; congruence | eexists; reflexivity].
  - unfold parse_u32. destruct (Nat.eqb_spec (length p) 4); [congruence | eexists; reflexivity].
  - unfold parse_u32. destruct (Nat.eqb_spec (length p) 4); [congruence | eexists; reflexivity].
  - unfold parse_originator. destruct (Nat.eqb_spec (length p) 4); [congruence | eexists; reflexivity].
  - unfold parse_atomic. destruct p; [cbn in H; congruence | eexists; reflexivity].
  - unfold parse_aggregator. change (asn_size asn4) with (as_octets asn4).
    destruct (Nat.eqb_spec (length p) (as_octets asn4 + 4)); [congruence | eexists; reflexivity].
  - unfold parse_nexthop. destruct (Nat.eqb_spec (Nat.modulo (length p) 4) 0); [congruence | eexists; reflexivity].
Qed.

Lemma walk_err_here {A} (step : bytes -> res (A * bytes)) fuel d c s :
  d <> [] -> step d = Err c s -> walk step (S fuel) d = Err c s.
Proof. intros Hd Hs. destruct d; [congruence|]. cbn [walk]. rewrite Hs. reflexivity. Qed.

Lemma walk_err_later {A} (step : bytes -> res (A * bytes)) fuel d x rest c s :
  d <> [] -> step d = Ok (x, rest) -> walk step fuel rest = Err c s -> walk step (S fuel) d = Err c s.
Proof. intros Hd Hs Hw. destruct d; [congruence|]. cbn [walk]. rewrite Hs, Hw. reflexivity. Qed.

Definition bad_seg_type (t : N) : Prop := t = 0 \/ 4 < t.

(** a segment type outside 1..4 anywhere in the path *)
Lemma reject_segtype_walk asn4 segs : Forall (wf_segment asn4) segs -> forall i t fuel,
  (i < length segs)%nat -> bad_seg_type t ->
  (length (concat (map (enc_segment asn4) (set_nth i (fun s => (t, snd s)) segs))) <= fuel)%nat ->
  walk (parse_segment asn4) fuel (concat (map (enc_segment asn4) (set_nth i (fun s => (t, snd s)) segs))) =
  E3 c_ERR_MSG_UPDATE_MALFORMED_ASPATH.
Proof.
  intros H. induction H as [|s segs Hs H IH]; intros i t fuel Hi Ht Hf; [cbn in Hi; lia|].
  destruct i as [|i]; cbn [set_nth map concat] in *; rewrite app_length in Hf.
  - unfold enc_segment at 1 in Hf. unfold enc_segment at 1. cbn [fst snd app length] in *.
    destruct fuel as [|fuel]; [lia|].
    apply walk_err_here; [discriminate|].
    unfold parse_segment. destruct ((1 <=? t) && (t <=? 4)) eqn:E; [unfold bad_seg_type in Ht; lia | reflexivity].
  - assert (Hl : (1 <= length (enc_segment asn4 s))%nat) by (unfold enc_segment; cbn [length]; lia).
    destruct fuel as [|fuel]; [lia|].
    eapply walk_err_later.
    + unfold enc_segment. discriminate.
    + apply parse_segment_enc. exact Hs.
    + apply IH; [cbn [length] in Hi; lia | exact Ht | lia].
Qed.

Theorem reject_segtype asn4 segs i t : Forall (wf_seg (as_lim asn4)) segs ->
  (i < length segs)%nat -> bad_seg_type t ->
  parse_attr_x asn4 2 (enc_path (as_octets asn4) (set_nth i (fun s => (t, snd s)) segs)) =
  E3 c_ERR_MSG_UPDATE_MALFORMED_ASPATH.
Proof.
  intros H Hi Ht. unfold parse_attr_x, parse_attr. eqb_consts. unfold parse_aspath.
  change (enc_path (as_octets asn4) ?x) with (concat (map (enc_segment asn4) x)).
  rewrite reject_segtype_walk; [reflexivity | | exact Hi | exact Ht | lia].
  eapply Forall_impl; [|exact H]. intros s. apply wf_seg_segment.
Qed.

(** a prefix length octet above 32, anywhere in a prefix list, with or without path identifiers *)
Lemma parse_one_badlen l xs : 32 < l -> parse_one (l :: xs) = E3 c_ERR_MSG_UPDATE_INVALID_NETWORK_FIELD.
Proof. intros H. unfold parse_one. destruct (32 <? l) eqn:E; [reflexivity | lia]. Qed.

Definition set_len (l : N) (p : wpfx) : wpfx := mkWP (wp_id p) l (wp_octets p).

Lemma reject_prefix_len ap ps : Forall wf_rpfx ps -> forall fills i l,
  (i < length ps)%nat -> 32 < l ->
  exists c s, parse_prefixes_x ap (ser_pfxs (set_nth i (set_len l) (lay_pfxs ap fills ps))) = Err c s.
Proof.
  intros H fills i l Hi Hl.
  assert (G : forall fuel,
    (length (ser_pfxs (set_nth i (set_len l) (lay_pfxs ap fills ps))) <= fuel)%nat ->
    (ap = false -> walk parse_one fuel (ser_pfxs (set_nth i (set_len l) (lay_pfxs ap fills ps))) =
                   E3 c_ERR_MSG_UPDATE_INVALID_NETWORK_FIELD) /\
    (ap = true -> walk parse_one_ap fuel (ser_pfxs (set_nth i (set_len l) (lay_pfxs ap fills ps))) =
                  E3 c_ERR_MSG_UPDATE_INVALID_NETWORK_FIELD)).
  { revert fills i Hi. induction H as [|p ps Hp H IH]; intros fills i Hi fuel Hf; [cbn in Hi; lia|].
    destruct i as [|i]; cbn [lay_pfxs set_nth] in *; unfold ser_pfxs in *; cbn [map concat] in *;
      rewrite app_length in Hf.
    - destruct p as [pid [a l0]]. unfold lay_pfx, set_len, ser_pfx in *. cbn [wp_id wp_len wp_octets] in *.
      split; intros ->.
      + cbn [app] in *. destruct fuel as [|fuel]; [cbn [length] in Hf; lia|].
        apply walk_err_here; [discriminate|]. apply parse_one_badlen. exact Hl.
      + rewrite be4_eq in *. cbn [app] in *. destruct fuel as [|fuel]; [cbn [length] in Hf; lia|].
        apply walk_err_here; [discriminate|].
        unfold parse_one_ap. cbn [take firstn length Nat.eqb drop skipn].
        rewrite parse_one_badlen by exact Hl. reflexivity.
    - pose proof (ser_pfx_nonempty ap (hd 0 fills) p) as Hne.
      assert (Hpos : (1 <= length (ser_pfx (lay_pfx ap (hd 0%N fills) p)))%nat).
      { destruct (ser_pfx (lay_pfx ap (hd 0 fills) p)); [congruence | cbn; lia]. }
      destruct fuel as [|fuel]; [lia|].
      assert (Hi2 : (i < length ps)%nat) by (cbn [length] in Hi; lia).
      destruct (IH (List.tl fills) i Hi2 fuel) as (I1 & I2); [lia|].
      split; intros ->.
      + eapply walk_err_later; [| apply parse_one_lay; exact Hp | apply I1; reflexivity].
        intro Hc. apply app_eq_nil in Hc. destruct Hc as (Hc & _). exact (Hne Hc).
      + eapply walk_err_later; [| apply parse_one_ap_lay; exact Hp | apply I2; reflexivity].
        intro Hc. apply app_eq_nil in Hc. destruct Hc as (Hc & _). exact (Hne Hc). }
  destruct (G _ (le_n _)) as (G1 & G2).
  unfold parse_prefixes_x, parse_prefix_list, parse_prefix_list_ap. destruct ap.
  - rewrite G2 by reflexivity. do 2 eexists. reflexivity.
  - rewrite G1 by reflexivity. do 2 eexists. reflexivity.
Qed.

(** an error found in a prefix list or in an attribute is the result of the whole message *)
Lemma rejects_funnel asn4 ap wd ad nd : len wd <= 65535 -> len ad <= 65535 ->
  (forall c s, parse_prefixes_x ap wd = Err c s \/ parse_prefixes_x ap nd = Err c s ->
               exists s', parse_x (asn4, ap) (construct_body wd ad nd) = Err c_ERR_MSG_UPDATE s') /\
  (forall a s, parse_attributes_x asn4 ad = (a, Some s) ->
               parse_x (asn4, ap) (construct_body wd ad nd) = Err c_ERR_MSG_UPDATE s).
Proof.
  intros Hw Ha. unfold parse_x. cbn [fst snd]. rewrite parse_full_x_parts by assumption. unfold assemble.
  split.
  - intros c s [E | E]; rewrite E.
    + destruct (parse_attributes_x asn4 ad) as [a [s2|]]; cbn; eexists; reflexivity.
    + destruct (parse_prefixes_x ap wd) as [w|c' s'|];
        destruct (parse_attributes_x asn4 ad) as [a [s2|]]; cbn; eexists; reflexivity.
  - intros a s E. rewrite E.
    destruct (parse_prefixes_x ap wd) as [w|c' s'|]; [destruct (parse_prefixes_x ap nd) as [n|c' s'|]| |];
      reflexivity.
Qed.

(** ================= the error half: whole messages ================= *)
(** the attribute walk stops at the first attribute whose value is rejected: the attributes in
    front of it (any well-formed ones, any length form) are kept, the sub-error is reported *)
Lemma attrs_walk_err var l w ws c s :
  Forall (wf_rattr (v_asn4 var)) l -> NoDup (map attr_code l) ->
  Forall (fun a => len (attr_payload (v_asn4 var) a) <= 65535) l ->
  (wa_flags w / 16) mod 2 = 0 -> len (wa_payload w) <= 65535 ->
  (wa_ext w = false -> len (wa_payload w) <= 255) ->
  parse_attr_x (v_asn4 var) (wa_code w) (wa_payload w) = Err c s ->
  forall acc fuel, (forall k, In k (map fst acc) -> ~ In k (map attr_code l)) ->
    (length (ser_attrs (map (lay_attr var) l ++ w :: ws)) <= fuel)%nat ->
    parse_attrs_fx fuel (v_asn4 var) acc (ser_attrs (map (lay_attr var) l ++ w :: ws)) =
    (acc ++ map canon_attr l, Some s).
Proof.
  intros H. induction H as [|a l Ha H IH]; intros Hnd Hlen Hf Hp Hs He acc fuel Hacc Hfuel.
  - cbn [map app] in *. rewrite ser_attrs_cons in *. rewrite app_length in Hfuel.
    pose proof (length_ser_attr_pos w) as Hpos.
    destruct fuel as [|fuel]; [lia|].
    rewrite (parse_attrs_fx_err fuel (v_asn4 var) acc _ (wa_code w) (wa_payload w) (ser_attrs ws) c s).
    + rewrite app_nil_r. reflexivity.
    + intro Hc. apply app_eq_nil in Hc. destruct Hc as (Hc & _). exact (ser_attr_nonempty _ Hc).
    + apply parse_tlv_ser; assumption.
    + exact He.
  - cbn [map app] in *. inversion Hnd as [|? ? Hnotin Hnd']; subst.
    inversion Hlen as [|? ? Hla Hlen']; subst.
    rewrite ser_attrs_cons in *. rewrite app_length in Hfuel.
    pose proof (length_ser_attr_pos (lay_attr var a)) as Hpos.
    destruct fuel as [|fuel]; [lia|].
    rewrite (parse_attrs_fx_step fuel (v_asn4 var) acc _ (attr_code a) (attr_payload (v_asn4 var) a)
               (ser_attrs (map (lay_attr var) l ++ w :: ws)) (canon_aval a)).
    + rewrite dict_set_fresh.
      * rewrite IH; try assumption.
        -- rewrite <- app_assoc. reflexivity.
        -- intros k Hk. rewrite map_app, in_app_iff in Hk. cbn [map fst In] in Hk.
           destruct Hk as [Hk | [<- | []]].
           ++ intro Hin. apply (Hacc k Hk). right. exact Hin.
           ++ exact Hnotin.
        -- lia.
      * intro Hin. apply (Hacc _ Hin). left. reflexivity.
    + intro Hc. apply app_eq_nil in Hc. destruct Hc as (Hc & _). exact (ser_attr_nonempty _ Hc).
    + apply lay_attr_tlv. exact Hla.
    + apply parse_payload. exact Ha.
Qed.

(** a message that carries, behind any well-formed attributes, one attribute whose value is rejected
    (C09_rejects_origin_value / _fixed_length / _segment_type), whatever follows it and whatever the
    prefix lists are: the decoder reports that sub-error and no value *)
Theorem rejects_attribute var l w ws wps nps c s :
  Forall (wf_rattr (v_asn4 var)) l -> NoDup (map attr_code l) ->
  (wa_flags w / 16) mod 2 = 0 -> (wa_ext w = false -> len (wa_payload w) <= 255) ->
  parse_attr_x (v_asn4 var) (wa_code w) (wa_payload w) = Err c s ->
  len (serialise (mkW wps (map (lay_attr var) l ++ w :: ws) nps)) <= 65535 ->
  parse_x (mode_of var) (serialise (mkW wps (map (lay_attr var) l ++ w :: ws) nps)) = Err c_ERR_MSG_UPDATE s.
Proof.
  intros Hl Hnd Hf Hs He Hsize.
  rewrite serialise_body in *. cbn [w_withdraw w_attrs w_nlri] in *. rewrite len_construct_body in Hsize.
  set (ad := ser_attrs (map (lay_attr var) l ++ w :: ws)) in *.
  assert (Hin : Forall (fun x => len (ser_attr x) <= len ad) (map (lay_attr var) l ++ w :: ws))
    by apply len_ser_attrs_ge.
  apply Forall_app in Hin. destruct Hin as (Hin1 & Hin2). inversion Hin2 as [|? ? Hw _]; subst.
  pose proof (len_ser_attr_ge w) as Hpw.
  destruct (rejects_funnel (v_asn4 var) (v_addpath var) (ser_pfxs wps) ad (ser_pfxs nps)) as (_ & F); [lia | lia |].
  apply (F (map canon_attr l)). unfold parse_attributes_x. unfold ad at 2.
  rewrite (attrs_walk_err var l w ws c s); try assumption.
  - reflexivity.
  - rewrite Forall_forall in *. intros a Ha.
    specialize (Hin1 (lay_attr var a) (in_map _ _ _ Ha)).
    pose proof (len_ser_attr_ge (lay_attr var a)) as P. unfold lay_attr in P at 1. cbn [wa_payload] in P. lia.
  - lia.
  - intros k [].
  - fold ad. lia.
Qed.

(** a prefix length above 32 in the withdrawn or in the announced prefixes of a reference encoding *)
Lemma length_set_len l ws : forall i, length (ser_pfxs (set_nth i (set_len l) ws)) = length (ser_pfxs ws).
Proof.
  induction ws as [|w ws IH]; intros i; [destruct i; reflexivity|].
  destruct i as [|i]; cbn [set_nth]; unfold ser_pfxs in *; cbn [map concat]; rewrite !app_length.
  - f_equal. unfold ser_pfx, set_len. cbn [wp_id wp_len wp_octets]. rewrite !app_length. reflexivity.
  - rewrite IH. reflexivity.
Qed.

Lemma corrupt_attr_plen nlri i l attrs : map (corrupt_attr (KPrefixLen nlri i l)) attrs = attrs.
Proof. induction attrs as [|a r IH]; [reflexivity|]. cbn [map]. rewrite IH. reflexivity. Qed.

Lemma corrupt_wattr_plen nlri i l ws : map (corrupt_wattr (KPrefixLen nlri i l)) ws = ws.
Proof. induction ws as [|a r IH]; [reflexivity|]. cbn [map]. rewrite IH. reflexivity. Qed.

Theorem rejects_prefix_length var v nlri i l : wf var v ->
  malformation var v (KPrefixLen nlri i l) ->
  exists s, parse_x (mode_of var) (ref_corrupt var (KPrefixLen nlri i l) v) = Err c_ERR_MSG_UPDATE s.
Proof.
  intros (Hw & Hn & Ha & Hnd & Hsize) (Hi & Hl).
  unfold ref_corrupt. rewrite corrupt_attr_plen.
  unfold ref_encode in Hsize. rewrite serialise_body in *. rewrite len_construct_body in Hsize.
  unfold layout in *. cbn [r_withdraw r_attrs r_nlri w_withdraw w_attrs w_nlri] in *.
  unfold mode_of. unfold len in Hsize.
  destruct nlri; unfold corrupt_wire; cbn [w_withdraw w_attrs w_nlri].
  - change (fun p : wpfx => mkWP (wp_id p) l (wp_octets p)) with (set_len l).
    destruct (reject_prefix_len (v_addpath var) (r_nlri v) Hn (v_fill_n var) i l Hi ltac:(lia)) as (c & s & E).
    eapply (proj1 (rejects_funnel _ _ _ _ _ _ _)). right. exact E.
    Unshelve. all: unfold len; lia.
  - change (fun p : wpfx => mkWP (wp_id p) l (wp_octets p)) with (set_len l).
    destruct (reject_prefix_len (v_addpath var) (r_withdraw v) Hw (v_fill_w var) i l Hi ltac:(lia)) as (c & s & E).
    eapply (proj1 (rejects_funnel _ _ _ _ _ _ _)). left. exact E.
    Unshelve. all: unfold len; rewrite ?length_set_len; lia.
Qed.

(** ---- the corrupted attribute inside a reference encoding ---- *)
Definition target_code (k : corruption) : N :=
  match k with KOrigin _ => 1 | KSegType _ _ => 2 | KAttrLen code _ => code | KPrefixLen _ _ _ => 0 end.

(** an attribute with another type code is laid out as without the corruption *)
Lemma corrupt_other var k b : attr_code b <> target_code k ->
  corrupt_wattr k (lay_attr var (corrupt_attr k b)) = lay_attr var b.
Proof.
  intros Hc. destruct k as [o|i t|nl i l|code n]; cbn [target_code] in Hc.
  - destruct b; try reflexivity. cbn [attr_code] in Hc. congruence.
  - destruct b; try reflexivity. cbn [attr_code] in Hc. congruence.
  - destruct b; reflexivity.
  - assert (E : corrupt_attr (KAttrLen code n) b = b) by (destruct b; reflexivity). rewrite E.
    unfold corrupt_wattr, lay_attr. cbn [wa_code].
    destruct (N.eqb_spec (attr_code b) code); [congruence | reflexivity].
Qed.

Lemma corrupt_others var k l : Forall (fun b => attr_code b <> target_code k) l ->
  map (corrupt_wattr k) (map (lay_attr var) (map (corrupt_attr k) l)) = map (lay_attr var) l.
Proof.
  intros H. induction H as [|b l Hb H IH]; [reflexivity|].
  cbn [map]. rewrite IH, corrupt_other by exact Hb. reflexivity.
Qed.

Lemma split_code code l : In code (map attr_code l) -> NoDup (map attr_code l) ->
  exists l1 a l2, l = l1 ++ a :: l2 /\ attr_code a = code /\
    Forall (fun b => attr_code b <> code) l1 /\ Forall (fun b => attr_code b <> code) l2.
Proof.
  intros Hin Hnd. apply in_map_iff in Hin. destruct Hin as (a & Ea & Hin).
  apply in_split in Hin. destruct Hin as (l1 & l2 & ->).
  exists l1, a, l2. split; [reflexivity|]. split; [exact Ea|].
  rewrite map_app in Hnd. cbn [map] in Hnd. apply NoDup_remove_2 in Hnd.
  rewrite in_app_iff in Hnd.
  split; apply Forall_forall; intros b Hb E; apply Hnd; [left | right];
    apply in_map_iff; exists b; (split; [congruence | exact Hb]).
Qed.

Lemma find_first code l1 a l2 : Forall (fun b => attr_code b <> code) l1 -> attr_code a = code ->
  find (fun b => attr_code b =? code) (l1 ++ a :: l2) = Some a.
Proof.
  intros H Ea. induction H as [|b l1 Hb H IH]; cbn [app find].
  - destruct (N.eqb_spec (attr_code a) code); [reflexivity | congruence].
  - destruct (N.eqb_spec (attr_code b) code); [congruence | exact IH].
Qed.

Lemma length_enc_path_set k t segs : forall i,
  length (enc_path k (set_nth i (fun s => (t, snd s)) segs)) = length (enc_path k segs).
Proof.
  induction segs as [|s segs IH]; intros i; [destruct i; reflexivity|].
  destruct i as [|i]; cbn [set_nth]; unfold enc_path in *; cbn [map concat]; rewrite !app_length.
  - reflexivity.
  - rewrite IH. reflexivity.
Qed.

Lemma len_ser_attr_le w : len (ser_attr w) <= 4 + len (wa_payload w).
Proof. unfold ser_attr. destruct (wa_ext w); rewrite ?len_cons, ?len_app2, ?len_cons, ?len_be; lia. Qed.

Lemma len_ser_attrs_app a b : len (ser_attrs (a ++ b)) = len (ser_attrs a) + len (ser_attrs b).
Proof. unfold ser_attrs. rewrite map_app, concat_app, len_app2. reflexivity. Qed.

Lemma length_resize n p : length (resize n p) = n.
Proof. unfold resize. rewrite firstn_length, app_length, repeat_length. lia. Qed.

Lemma nodup_app_l {A} (a b : list A) : NoDup (a ++ b) -> NoDup a.
Proof.
  induction a as [|x a IH]; intros H; [constructor|].
  cbn [app] in H. inversion H as [|? ? Hx Hr]; subst. constructor.
  - intro Hin. apply Hx. apply in_or_app. left. exact Hin.
  - apply IH. exact Hr.
Qed.

(** C09, second half, for whole messages: every malformation of every well-formed value *)
Theorem rejects var v k : wf var v -> malformation var v k ->
  exists s, parse_x (mode_of var) (ref_corrupt var k v) = Err c_ERR_MSG_UPDATE s.
Proof.
  intros Hwf Hm.
  destruct k as [o|i t|nl i l|code n]; [| |exact (rejects_prefix_length var v nl i l Hwf Hm)|].
  all: pose proof Hwf as (Hw & Hn & Ha & Hnd & Hsize).
  all: unfold ref_encode in Hsize; rewrite serialise_body in Hsize; rewrite len_construct_body in Hsize;
       unfold layout in Hsize; cbn [w_withdraw w_attrs w_nlri] in Hsize.
  - (* ORIGIN value *)
    destruct Hm as (Hc & Ho).
    destruct (split_code 1 (r_attrs v) Hc Hnd) as (l1 & a & l2 & E & Ea & H1 & H2).
    destruct a; cbn [attr_code] in Ea; try discriminate Ea.
    unfold ref_corrupt, layout, corrupt_wire. cbn [r_withdraw r_attrs r_nlri w_withdraw w_attrs w_nlri].
    rewrite E in *. rewrite !map_app in *. cbn [map] in *.
    rewrite (corrupt_others var (KOrigin o) l1 H1), (corrupt_others var (KOrigin o) l2 H2).
    cbn [corrupt_attr corrupt_wattr].
    apply Forall_app in Ha. destruct Ha as (Ha1 & Ha2).
    apply NoDup_remove_1 in Hnd. rewrite <- map_app in Hnd.
    rewrite !len_ser_attrs_app, !ser_attrs_cons, !len_app2 in Hsize.
    eexists. eapply (rejects_attribute var l1 (lay_attr var (ROrigin o))).
    + exact Ha1.
    + rewrite map_app in Hnd. apply nodup_app_l in Hnd. exact Hnd.
    + reflexivity.
    + intros _. vm_compute. congruence.
    + unfold lay_attr. cbn [wa_code wa_payload attr_code attr_payload]. apply reject_origin_value. lia.
    + rewrite serialise_body, len_construct_body. cbn [w_withdraw w_attrs w_nlri].
      rewrite len_ser_attrs_app, ser_attrs_cons, len_app2.
      pose proof (len_ser_attr_le (lay_attr var (ROrigin o))) as P. unfold lay_attr in P at 2.
      cbn [wa_payload attr_payload] in P. change (len [o]) with 1 in P. lia.
  - (* segment type *)
    destruct Hm as ((segs & Es & Hi) & Ht).
    assert (Hc : In 2 (map attr_code (r_attrs v))).
    { unfold as_path_segs in Es. destruct (find (fun a => attr_code a =? 2) (r_attrs v)) as [a|] eqn:F; [|discriminate].
      apply find_some in F. destruct F as (F1 & F2). apply in_map_iff. exists a. split; [lia | exact F1]. }
    destruct (split_code 2 (r_attrs v) Hc Hnd) as (l1 & a & l2 & E & Ea & H1 & H2).
    unfold as_path_segs in Es. rewrite E, (find_first 2 l1 a l2 H1 Ea) in Es.
    destruct a; try discriminate Es. inversion Es; subst segs0. clear Es.
    unfold ref_corrupt, layout, corrupt_wire. cbn [r_withdraw r_attrs r_nlri w_withdraw w_attrs w_nlri].
    rewrite E in *. rewrite !map_app in *. cbn [map] in *.
    rewrite (corrupt_others var (KSegType i t) l1 H1), (corrupt_others var (KSegType i t) l2 H2).
    cbn [corrupt_attr corrupt_wattr].
    apply Forall_app in Ha. destruct Ha as (Ha1 & Ha2). inversion Ha2 as [|? ? Hsegs _]; subst.
    cbn [wf_rattr] in Hsegs.
    apply NoDup_remove_1 in Hnd. rewrite <- map_app in Hnd.
    rewrite !len_ser_attrs_app, !ser_attrs_cons, !len_app2 in Hsize.
    pose proof (len_ser_attr_ge (lay_attr var (RAsPath segs))) as Q. unfold lay_attr in Q at 1.
    cbn [wa_payload attr_payload] in Q.
    set (w := lay_attr var (RAsPath (set_nth i (fun s => (t, snd s)) segs))).
    assert (Lp : len (wa_payload w) = len (enc_path (as_octets (v_asn4 var)) segs)).
    { unfold w, lay_attr. cbn [wa_payload attr_payload]. unfold len. rewrite length_enc_path_set. reflexivity. }
    eexists. eapply (rejects_attribute var l1 w).
    + exact Ha1.
    + rewrite map_app in Hnd. apply nodup_app_l in Hnd. exact Hnd.
    + reflexivity.
    + unfold w, lay_attr. cbn [wa_ext wa_payload attr_payload]. intros Ef.
      apply orb_false_iff in Ef. destruct Ef as (Ef & _). lia.
    + unfold w, lay_attr. cbn [wa_code wa_payload attr_code attr_payload].
      apply reject_segtype; [exact Hsegs | exact Hi | unfold bad_seg_type; lia].
    + rewrite serialise_body, len_construct_body. cbn [w_withdraw w_attrs w_nlri].
      rewrite len_ser_attrs_app, ser_attrs_cons, len_app2.
      pose proof (len_ser_attr_le w) as P. lia.
  - (* wrong fixed length *)
    destruct Hm as (Hc & Hn255 & Hwrong).
    destruct (split_code code (r_attrs v) Hc Hnd) as (l1 & a & l2 & E & Ea & H1 & H2).
    unfold ref_corrupt, layout, corrupt_wire. cbn [r_withdraw r_attrs r_nlri w_withdraw w_attrs w_nlri].
    rewrite E in *. rewrite !map_app in *. cbn [map] in *.
    rewrite (corrupt_others var (KAttrLen code n) l1 H1), (corrupt_others var (KAttrLen code n) l2 H2).
    assert (Ec : corrupt_attr (KAttrLen code n) a = a) by (destruct a; reflexivity). rewrite Ec.
    unfold corrupt_wattr. change (wa_code (lay_attr var a)) with (attr_code a).
    rewrite Ea, N.eqb_refl.
    apply Forall_app in Ha. destruct Ha as (Ha1 & Ha2).
    apply NoDup_remove_1 in Hnd. rewrite <- map_app in Hnd.
    rewrite !len_ser_attrs_app, !ser_attrs_cons, !len_app2 in Hsize.
    set (w := mkWA (wa_flags (lay_attr var a)) code (wa_ext (lay_attr var a)) (resize n (wa_payload (lay_attr var a)))).
    assert (Lp : len (wa_payload w) = N.of_nat n) by (unfold w, len; cbn [wa_payload]; rewrite length_resize; reflexivity).
    destruct (reject_length (v_asn4 var) code (wa_payload w)) as (s & Es).
    { unfold w. cbn [wa_payload]. rewrite length_resize. unfold wrong_len. exact Hwrong. }
    exists s. eapply (rejects_attribute var l1 w).
    + exact Ha1.
    + rewrite map_app in Hnd. apply nodup_app_l in Hnd. exact Hnd.
    + unfold w, lay_attr. cbn [wa_flags]. apply attr_flags_ok.
    + intros _. lia.
    + exact Es.
    + rewrite serialise_body, len_construct_body. cbn [w_withdraw w_attrs w_nlri].
      rewrite len_ser_attrs_app, ser_attrs_cons, len_app2.
      pose proof (len_ser_attr_le w) as P. lia.
Qed.
