From YV Require Import lib.Base gen.Consts model.YMsg.
From Coq Require Import ZArith ZifyBool ZifyNat ZifyN.

Lemma bytes_eqb_refl b : bytes_eqb b b = true.
Proof. apply bytes_eqb_eq; reflexivity. Qed.

Lemma len_app a b : len (a ++ b) = len a + len b.
Proof. unfold len. rewrite app_length. lia. Qed.

Lemma header_ok ty body : len body + 19 <= 65535 ->
  header ty body = Ok (marker16 ++ be 2 (len body + 19) ++ [ty] ++ body).
Proof.
  intros H. unfold header. destruct (65535 <? len body + 19) eqn:E; [exfalso; lia|reflexivity].
Qed.

Lemma unframe_framed ty body : len body + 19 <= 65535 ->
  unframe (marker16 ++ be 2 (len body + 19) ++ [ty] ++ body) = Some (ty, body).
Proof.
  intros H. unfold unframe.
  set (l := len body + 19) in *.
  assert (Hb : exists x y, be 2 l = [x; y]) by (cbn; eauto).
  destruct Hb as (x & y & Hb).
  assert (Hu : unbe (be 2 l) = l) by (apply unbe_be; cbn; lia).
  rewrite Hb in *.
  change (marker16 ++ [x; y] ++ [ty] ++ body)
    with (repeat 255 16 ++ x :: y :: ty :: body).
  cbn [repeat app take firstn slice skipn Nat.sub drop nth].
  rewrite bytes_eqb_refl. rewrite Hu.
  assert (Hl : len (255 :: 255 :: 255 :: 255 :: 255 :: 255 :: 255 :: 255 :: 255 :: 255 :: 255 :: 255
                  :: 255 :: 255 :: 255 :: 255 :: x :: y :: ty :: body) = l).
  { unfold l, len. cbn [length]. lia. }
  rewrite Hl. rewrite N.eqb_refl.
  destruct (19 <=? l) eqn:E; [reflexivity | unfold l in *; lia].
Qed.

Lemma notification_roundtrip e s d :
  e <= 255 -> s <= 255 -> len d + 21 <= 65535 ->
  exists m, notification_construct e s d = Ok m /\
            unframe m = Some (c_MSG_NOTIFICATION, [e; s] ++ d) /\
            notification_parse ([e; s] ++ d) = Ok (e, s, d).
Proof.
  intros He Hs Hd. unfold notification_construct.
  destruct ((255 <? e) || (255 <? s)) eqn:E; [exfalso; lia|].
  assert (Hl : len ([e; s] ++ d) + 19 <= 65535) by (unfold len in *; cbn [length app]; lia).
  rewrite header_ok by exact Hl.
  eexists; split; [reflexivity|]. split; [apply unframe_framed; exact Hl | reflexivity].
Qed.

Lemma notification_parse_total body :
  (exists e s d, body = e :: s :: d /\ notification_parse body = Ok (e, s, d)) \/
  (length body < 2 /\ notification_parse body = PyExc)%nat.
Proof.
  destruct body as [|e [|s d]]; cbn; [right; split; [lia|reflexivity] .. | left; eauto].
Qed.

Lemma keepalive_roundtrip :
  unframe keepalive_construct = Some (c_MSG_KEEPALIVE, []) /\ keepalive_parse [] = Ok tt /\
  length keepalive_construct = 19%nat.
Proof. vm_compute. auto. Qed.

Lemma keepalive_parse_rejects body : body <> [] ->
  keepalive_parse body = Err c_ERR_MSG_HDR c_ERR_MSG_HDR_BAD_MSG_LEN.
Proof. destruct body; [congruence | reflexivity]. Qed.

Lemma rr_roundtrip ty afi r safi :
  ty <= 255 -> afi <= 65535 -> r <= 255 -> safi <= 255 ->
  exists m, rr_construct ty afi r safi = Ok m /\
            unframe m = Some (ty, be 2 afi ++ [r] ++ [safi]) /\
            rr_parse (be 2 afi ++ [r] ++ [safi]) = Ok (afi, r, safi).
Proof.
  intros Ht Ha Hr Hs. unfold rr_construct.
  destruct ((65535 <? afi) || (255 <? r) || (255 <? safi) || (255 <? ty)) eqn:E; [exfalso; lia|].
  assert (Hl : len (be 2 afi ++ [r] ++ [safi]) + 19 <= 65535) by (unfold len; cbn [be length app]; lia).
  rewrite header_ok by exact Hl.
  eexists; split; [reflexivity|]. split; [apply unframe_framed; exact Hl|].
  cbn [be app rr_parse]. f_equal. f_equal. f_equal.
  change (N.of_nat 1) with 1. change (N.of_nat 0) with 0. rewrite N.pow_1_r, N.pow_0_r, N.div_1_r.
  assert (afi / 256 < 256) by (apply N.div_lt_upper_bound; lia).
  rewrite (N.mod_small (afi / 256)) by assumption.
  pose proof (N.div_mod afi 256 ltac:(lia)). lia.
Qed.
