(** C08, UPDATE: one attribute as a block, the concatenation of attribute blocks, the assembly
    of a whole UPDATE message (model/YUpdate.v [construct]), EXTENDED / LARGE COMMUNITIES of
    model/YAttr.v. *)
From YV Require Import lib.Base gen.Consts spec.Walker model.YMsg model.YPrefix4 model.YAttr model.YUpdate
  proof.WalkerProofs.
From Coq Require Import ZArith ZifyBool ZifyNat ZifyN Lia.
Ltac Zify.zify_post_hook ::= Z.to_euclidean_division_equations.

(* ------------------------------------------------------------------------------------- *)
(** * one attribute *)

(** [attr_block c ty b] (spec/Walker.v): [b] is exactly one path attribute of type [ty] *)

Lemma wf_cons x (b : bytes) : wf_bytes (x :: b) <-> x < 256 /\ wf_bytes b.
Proof. unfold wf_bytes. split; [intros H; inversion H; auto | intros [? ?]; constructor; auto]. Qed.

Lemma attr_block_wf c ty b : attr_block c ty b -> wf_bytes b.
Proof.
  intros (fl & v & Hf & Ht & Hv & _ & _ & [(_ & Hl & ->) | (_ & Hl & ->)]).
  - apply wf_cons; split; [exact Hf|]. apply wf_cons; split; [exact Ht|]. apply wf_cons; split; [lia | exact Hv].
  - apply wf_cons; split; [exact Hf|]. apply wf_cons; split; [exact Ht|]. apply wf_app; split; [apply wf_be | exact Hv].
Qed.

Lemma attr_block_nonempty c ty b : attr_block c ty b -> b <> [].
Proof. intros (fl & v & _ & _ & _ & _ & _ & [(_ & _ & ->) | (_ & _ & ->)]); discriminate. Qed.

(** the walker consumes a block in front of anything, recording its type *)
Lemma attr_block_step c ty b : attr_block c ty b -> forall f seen rest,
  walk_attrs (S f) c seen (b ++ rest) = negb (existsb (N.eqb ty) seen) && walk_attrs f c (ty :: seen) rest.
Proof.
  intros (fl & v & _ & _ & _ & Hfl & Hv & [(B & Hl & ->) | (B & Hl & ->)]) f seen rest.
  - cbn [app walk_attrs]. rewrite B, splitN_app, Hfl, Hv.
    destruct (negb (existsb (N.eqb ty) seen)); reflexivity.
  - rewrite be2 by lia. cbn [app walk_attrs]. rewrite B.
    assert (E : u16 (len v / 256) (len v mod 256) = len v) by (unfold u16; lia).
    rewrite E, splitN_app, Hfl, Hv. destruct (negb (existsb (N.eqb ty) seen)); reflexivity.
Qed.

Lemma existsb_eqb_false x l : ~ In x l -> existsb (N.eqb x) l = false.
Proof.
  intros H. destruct (existsb (N.eqb x) l) eqn:E; [|reflexivity].
  apply existsb_exists in E as (y & Hy & Hxy). apply N.eqb_eq in Hxy. subst. contradiction.
Qed.

(** a block alone is a valid attribute field *)
Lemma attr_block_valid c ty b : attr_block c ty b -> valid_attrs c b = true.
Proof.
  intros H. unfold valid_attrs. pose proof (attr_block_nonempty _ _ _ H) as Hn.
  destruct b as [|x b']; [congruence|]. cbn [length].
  rewrite <- (app_nil_r (x :: b')). rewrite (attr_block_step c ty _ H). cbn [existsb negb andb].
  destruct (length b'); reflexivity.
Qed.

(** a sequence of blocks (some possibly empty: a type code the constructor skips) with pairwise
    different type codes, none of them seen before, is accepted *)
Lemma walk_attrs_blocks c : forall (l : list (N * bytes)) seen fuel,
  Forall (fun p => snd p = [] \/ attr_block c (fst p) (snd p)) l ->
  NoDup (map fst l) -> (forall t, In t (map fst l) -> ~ In t seen) ->
  (length (concat (map snd l)) <= fuel)%nat ->
  walk_attrs fuel c seen (concat (map snd l)) = true.
Proof.
  induction l as [|[ty b] l IH]; intros seen fuel Hb Hd Hs Hf.
  - cbn. destruct fuel; reflexivity.
  - inversion Hb as [|? ? Hb1 Hb2]; subst. cbn [map fst snd] in Hd. inversion Hd as [|? ? Hnin Hd']; subst.
    cbn [map concat snd]. cbn [fst snd] in Hb1. destruct Hb1 as [-> | Hblk].
    + cbn [app]. apply IH; try assumption.
      * intros t Ht. apply Hs. right. exact Ht.
    + pose proof (attr_block_nonempty _ _ _ Hblk) as Hne.
      cbn [map concat snd] in Hf. rewrite app_length in Hf.
      destruct fuel as [|f]; [destruct b; [congruence | cbn in Hf; lia]|].
      rewrite (attr_block_step c ty b Hblk).
      rewrite existsb_eqb_false by (apply Hs; left; reflexivity). cbn [negb andb].
      apply IH; try assumption.
      * intros t Ht [<- | Hin]; [contradiction | exact (Hs t (or_intror Ht) Hin)].
      * destruct b; [congruence | cbn [length] in Hf; lia].
Qed.

(** attribute blocks with pairwise different type codes form a valid attribute field *)
Theorem attr_blocks_valid c (l : list (N * bytes)) :
  Forall (fun p => attr_block c (fst p) (snd p)) l -> NoDup (map fst l) ->
  valid_attrs c (concat (map snd l)) = true /\ wf_bytes (concat (map snd l)).
Proof.
  intros Hb Hd. split.
  - unfold valid_attrs. apply walk_attrs_blocks; [ | exact Hd | intros t _ [] | apply Nat.le_refl].
    eapply Forall_impl; [|exact Hb]. intros p Hp. right. exact Hp.
  - clear Hd. induction Hb as [|p l Hp _ IH]; [constructor|].
    cbn [map concat]. apply wf_app. split; [eapply attr_block_wf; exact Hp | exact IH].
Qed.

(* ------------------------------------------------------------------------------------- *)
(** * the twelve attribute constructors of model/YAttr.v yield blocks *)

Lemma block1 c fl ty v : fl < 256 -> ty < 256 -> wf_bytes v -> len v <= 255 -> bit 16 fl = false ->
  flags_ok fl ty = true -> value_ok c ty v = true -> attr_block c ty (tlv1 fl ty v).
Proof. intros. exists fl, v. repeat split; auto. Qed.
Lemma block2 c fl ty v : fl < 256 -> ty < 256 -> wf_bytes v -> len v <= 65535 -> bit 16 fl = true ->
  flags_ok fl ty = true -> value_ok c ty v = true -> attr_block c ty (fl :: ty :: be 2 (len v) ++ v).
Proof. intros. exists fl, v. repeat split; auto. Qed.

Lemma Ok_inj {A} (a b : A) : Ok a = Ok b -> a = b.
Proof. intros H; injection H; auto. Qed.
Ltac attr_inv H := match type of H with (if ?c then _ else _) = Ok _ => destruct c eqn:?; try discriminate H end;
                   apply Ok_inj in H; subst.

Lemma wf1 x : x < 256 -> wf_bytes [x].
Proof. intros. constructor; [assumption | constructor]. Qed.

Lemma origin_block c v b : construct_origin v = Ok b -> attr_block c c_ATTR_Origin_ID b.
Proof.
  unfold construct_origin. intros H. attr_inv H.
  apply block1; try reflexivity; [apply wf1; lia | cbn; lia].
Qed.
Lemma nexthop_block c a b : construct_nexthop a = Ok b -> attr_block c c_ATTR_NextHop_ID b.
Proof.
  unfold construct_nexthop. intros H. attr_inv H.
  apply block1; try reflexivity; [apply wf_be | rewrite len_be; cbn; lia].
Qed.
Lemma u32_block c fl ty v b : fl < 256 -> ty < 256 -> bit 16 fl = false -> flags_ok fl ty = true ->
  (forall x, len x = 4 -> value_ok c ty x = true) ->
  construct_u32 fl ty v = Ok b -> attr_block c ty b.
Proof.
  intros Hf Ht B F V. unfold construct_u32. intros H. attr_inv H.
  apply block1; [exact Hf | exact Ht | apply wf_be | rewrite len_be; cbn; lia | exact B | exact F
                | apply V; rewrite len_be; reflexivity].
Qed.
Lemma med_block c v b : construct_med v = Ok b -> attr_block c c_ATTR_MED_ID b.
Proof.
  apply u32_block; try reflexivity. intros x Hx. unfold value_ok. change c_ATTR_MED_ID with 4. cbv iota beta. lia.
Qed.
Lemma localpref_block c v b : construct_localpref v = Ok b -> attr_block c c_ATTR_LocalPreference_ID b.
Proof.
  apply u32_block; try reflexivity. intros x Hx. unfold value_ok. change c_ATTR_LocalPreference_ID with 5. cbv iota beta. lia.
Qed.
Lemma atomic_block c b : construct_atomic = Ok b -> attr_block c c_ATTR_AtomicAggregate_ID b.
Proof.
  unfold construct_atomic. intros H. inversion H; subst.
  change [c_ATTR_AtomicAggregate_FLAG; c_ATTR_AtomicAggregate_ID; 0]
    with (tlv1 c_ATTR_AtomicAggregate_FLAG c_ATTR_AtomicAggregate_ID []).
  apply block1; try reflexivity; [constructor | cbn; lia].
Qed.
Lemma originator_block c a b : construct_originator a = Ok b -> attr_block c c_ATTR_OriginatorID_ID b.
Proof.
  unfold construct_originator. intros H. attr_inv H.
  apply block1; try reflexivity; [apply wf_be | rewrite len_be; cbn; lia].
Qed.
Lemma aggregator_block asn4 ap cr asn a b :
  construct_aggregator asn4 asn a = Ok b -> attr_block (mkw asn4 ap cr) c_ATTR_Aggregator_ID b.
Proof.
  unfold construct_aggregator. intros H. attr_inv H.
  apply block1; try reflexivity.
  - apply wf_app; split; apply wf_be.
  - rewrite len_app, !len_be. destruct asn4; cbn; lia.
  - unfold value_ok. change c_ATTR_Aggregator_ID with 7. cbv iota beta. cbn [w_asn4].
    rewrite len_app, !len_be. destruct asn4; reflexivity.
Qed.

Lemma wf_concat_map {A} (f : A -> bytes) l : (forall x, In x l -> wf_bytes (f x)) ->
  wf_bytes (concat (map f l)).
Proof.
  induction l as [|x l IH]; intros H; [constructor|].
  cbn [map concat]. apply wf_app. split; [apply H; left; reflexivity | apply IH; intros y Hy; apply H; right; exact Hy].
Qed.

Lemma community_block c l b : construct_community l = Ok b -> attr_block c c_ATTR_Community_ID b.
Proof.
  unfold construct_community. intros H.
  destruct (forallb (fun c0 => comm_value c0 <? two32) l); [|discriminate]. cbv zeta in H. attr_inv H.
  apply block1; try reflexivity.
  - apply wf_concat_map. intros; apply wf_be.
  - lia.
  - unfold value_ok. change c_ATTR_Community_ID with 8. cbv iota beta.
    rewrite (len_concat_be4 comm_value). lia.
Qed.
Lemma clusterlist_block c l b : construct_clusterlist l = Ok b -> attr_block c c_ATTR_ClusterList_ID b.
Proof.
  unfold construct_clusterlist. cbv zeta. intros H. attr_inv H.
  apply block1; try reflexivity.
  - apply wf_concat_map. intros; apply wf_be.
  - lia.
  - unfold value_ok. change c_ATTR_ClusterList_ID with 10. cbv iota beta.
    rewrite (len_concat_be4 (fun x => x)). lia.
Qed.

Lemma aspath_block asn4 ap cr segs b :
  construct_aspath asn4 segs = Ok b -> attr_block (mkw asn4 ap cr) c_ATTR_ASPath_ID b.
Proof.
  unfold construct_aspath.
  destruct (check_segments asn4 segs) as [u| |] eqn:C; [|discriminate|discriminate].
  pose proof (check_segments_types asn4 segs u C) as G. cbv zeta.
  assert (V : value_ok (mkw asn4 ap cr) 2 (enc_aspath asn4 segs) = true).
  { unfold value_ok. cbv iota beta. cbn [w_asn4]. unfold enc_aspath. apply walk_all_concat.
    intros e He. apply in_map_iff in He as (s & <- & Hs). rewrite Forall_forall in G.
    split; [destruct s; discriminate|]. intros rest. apply step_segment_enc. apply G. exact Hs. }
  assert (W : wf_bytes (enc_aspath asn4 segs)).
  { clear V G. revert u C. induction segs as [|s segs IH]; intros u C; [constructor|].
    cbn [check_segments] in C. unfold seg_type_ok, segment_ok in C.
    destruct ((1 <=? fst s) && (fst s <=? 4)) eqn:E1; [|discriminate].
    destruct ((len (snd s) <? 256) && forallb (fun a => a <? asn_lim asn4) (snd s)) eqn:E2; [|discriminate].
    unfold enc_aspath. cbn [map concat]. apply wf_app. split; [|exact (IH u C)].
    unfold enc_segment. apply wf_cons; split; [lia|]. apply wf_cons; split; [lia|].
    apply wf_concat_map. intros; apply wf_be. }
  destruct (255 <? len (enc_aspath asn4 segs)) eqn:L.
  - destruct (65535 <? len (enc_aspath asn4 segs)) eqn:L2; [discriminate|].
    intros H; inversion H; subst b.
    change (c_ATTR_ASPath_FLAG + 16) with 80. change c_ATTR_ASPath_ID with 2.
    apply block2; try reflexivity; [exact W | lia | exact V].
  - intros H; inversion H; subst b. change c_ATTR_ASPath_ID with 2.
    apply block1; try reflexivity; [exact W | lia | exact V].
Qed.

(** EXTENDED COMMUNITIES (YAttr.construct_extcommunity): every community is 8 octets *)
Lemma wf_drop1_be4 x : wf_bytes (drop 1 (be 4 x)).
Proof. pose proof (wf_be 4 x) as H. cbn [be] in H. apply wf_cons in H as [_ H]. exact H. Qed.

Lemma enc_ext_shape e a : enc_ext e = Some a -> len a = 8 /\ wf_bytes a.
Proof.
  unfold enc_ext. destruct e as [code vals]. cbn [fst snd].
  destruct (ext_kind code) as [|p]; [destruct vals; discriminate|].
  do 3 (try destruct p as [p|p|]); try (destruct vals as [|? [|? [|? ?]]]; discriminate);
    destruct vals as [|x [|y [|z r]]]; try discriminate;
    (intros H; match type of H with (if ?g then _ else _) = _ => destruct g eqn:G; [|discriminate] end;
     injection H as <-; split;
     [ repeat rewrite ?len_app, ?len_be, ?len_cons; try reflexivity
     | repeat first [apply wf_be | apply wf_drop1_be4 | apply wf_app; split | apply wf_cons; split; [lia|] | constructor] ]).
Qed.

Lemma enc_exts_shape l raw : enc_exts l = Some raw ->
  len raw = 8 * N.of_nat (length l) /\ wf_bytes raw.
Proof.
  revert raw; induction l as [|e l IH]; intros raw H.
  - cbn in H. injection H as <-. split; [reflexivity | constructor].
  - cbn [enc_exts] in H. destruct (enc_ext e) as [a|] eqn:Ea; [|discriminate].
    destruct (enc_exts l) as [r|]; [|discriminate]. injection H as <-.
    destruct (enc_ext_shape e a Ea) as [La Wa]. destruct (IH r eq_refl) as [Lr Wr].
    split; [rewrite len_app, La, Lr; cbn [length]; lia | apply wf_app; split; assumption].
Qed.

Lemma extcommunity_block c l b : construct_extcommunity l = Ok b -> attr_block c c_ATTR_ExtCommunity_ID b.
Proof.
  unfold construct_extcommunity. destruct (enc_exts l) as [raw|] eqn:E; [|discriminate].
  destruct (enc_exts_shape l raw E) as [L W]. intros H. attr_inv H.
  apply block1; try reflexivity; [exact W | lia |].
  unfold value_ok. change c_ATTR_ExtCommunity_ID with 16. cbv iota beta. lia.
Qed.

(** LARGE COMMUNITIES (YAttr.construct_largecommunity): a non-zero multiple of 12 octets *)
Lemma largecommunity_block c l b : construct_largecommunity l = Ok b -> attr_block c c_ATTR_LargeCommunity_ID b.
Proof.
  unfold construct_largecommunity. destruct (forallb (forallb (fun x => x <? two32)) l); [|discriminate].
  cbv zeta. set (raw := concat (map (fun c0 => concat (map (be 4) c0)) l)).
  destruct ((len raw =? 0) || negb (len raw mod 12 =? 0)) eqn:G; [discriminate|].
  intros H. attr_inv H.
  apply block1; try reflexivity.
  - apply wf_concat_map. intros x _. apply wf_concat_map. intros; apply wf_be.
  - lia.
  - unfold value_ok. change c_ATTR_LargeCommunity_ID with 32. cbv iota beta. lia.
Qed.

(** the single-attribute validity theorems for the two community attributes that had none *)
Lemma construct_extcommunity_valid c l b : construct_extcommunity l = Ok b -> valid_attrs c b = true.
Proof. intros H. eapply attr_block_valid, extcommunity_block, H. Qed.
Lemma construct_largecommunity_valid c l b : construct_largecommunity l = Ok b -> valid_attrs c b = true.
Proof. intros H. eapply attr_block_valid, largecommunity_block, H. Qed.

(* ------------------------------------------------------------------------------------- *)
(** * construct_attributes *)

(** the dispatch of Update.construct_attributes: nothing for a type code without a branch,
    otherwise one block whose type octet is the dictionary key *)
Lemma construct_attr_block asn4 ap cr tc v a : construct_attr asn4 tc v = Ok a ->
  a = [] \/ attr_block (mkw asn4 ap cr) tc a.
Proof.
  unfold construct_attr.
  repeat match goal with
         | |- (if ?x =? ?k then _ else _) = _ -> _ =>
             let E := fresh "E" in destruct (x =? k) eqn:E;
             [apply N.eqb_eq in E; subst x; destruct v; try discriminate; intros H; right | clear E]
         end;
    [ exact (origin_block _ _ _ H) | exact (aspath_block _ _ _ _ _ H) | exact (nexthop_block _ _ _ H)
    | exact (med_block _ _ _ H) | exact (localpref_block _ _ _ H) | exact (atomic_block _ _ H)
    | exact (aggregator_block _ _ _ _ _ _ H) | exact (community_block _ _ _ H)
    | exact (originator_block _ _ _ H) | exact (clusterlist_block _ _ _ H)
    | exact (extcommunity_block _ _ _ H) | exact (largecommunity_block _ _ _ H)
    | intros H; left; inversion H; reflexivity ].
Qed.

Lemma bind_ok {A B} (r : res A) (f : A -> res B) b : bind r f = Ok b -> exists a, r = Ok a /\ f a = Ok b.
Proof. destruct r; cbn; try discriminate. eauto. Qed.

(** [construct_attributes] returns the concatenation of one block (or nothing) per key *)
Lemma construct_attributes_blocks asn4 ap cr l ad : construct_attributes asn4 l = Ok ad ->
  exists bl, map fst bl = map fst l /\ ad = concat (map snd bl) /\
    Forall (fun p => snd p = [] \/ attr_block (mkw asn4 ap cr) (fst p) (snd p)) bl.
Proof.
  revert ad; induction l as [|[tc v] l IH]; intros ad H.
  - cbn in H. injection H as <-. exists []. repeat split. constructor.
  - cbn [construct_attributes] in H. apply bind_ok in H as (a & Ha & H). apply bind_ok in H as (r & Hr & H).
    injection H as <-. destruct (IH r Hr) as (bl & Hk & -> & Hb).
    exists ((tc, a) :: bl). cbn [map fst snd concat]. repeat split; [f_equal; exact Hk|].
    constructor; [|exact Hb]. cbn [fst snd]. eapply construct_attr_block; exact Ha.
Qed.

(** a dictionary has every key once ([NoDup]): what construct_attributes returns for it is a
    valid attribute field *)
Theorem construct_attributes_valid asn4 ap cr l ad : NoDup (map fst l) ->
  construct_attributes asn4 l = Ok ad -> valid_attrs (mkw asn4 ap cr) ad = true /\ wf_bytes ad.
Proof.
  intros Hd H. destruct (construct_attributes_blocks asn4 ap cr l ad H) as (bl & Hk & -> & Hb). split.
  - unfold valid_attrs. rewrite <- Hk in Hd.
    apply walk_attrs_blocks; [exact Hb | exact Hd | intros t _ [] | apply Nat.le_refl].
  - clear Hk Hd H. induction Hb as [|p bl [E | Hp] _ IH]; [constructor | cbn [map concat]; rewrite E; exact IH |].
    cbn [map concat]. apply wf_app. split; [eapply attr_block_wf; exact Hp | exact IH].
Qed.

(* ------------------------------------------------------------------------------------- *)
(** * the whole UPDATE *)

Lemma wf_take k : forall b, wf_bytes b -> wf_bytes (take k b).
Proof.
  unfold take, wf_bytes. induction k as [|k IH]; intros b H; [constructor|].
  destruct b as [|x b]; [constructor|]. inversion H; subst. cbn [firstn]. constructor; auto.
Qed.

Lemma construct_prefix_v4_wf ps b : construct_prefix_v4 ps = Ok b -> wf_bytes b.
Proof.
  unfold construct_prefix_v4. destruct (forallb pfx_ok ps) eqn:F; [|discriminate].
  intros H; inversion H; subst b; clear H. apply wf_concat_map. intros p Hp.
  rewrite forallb_forall in F. specialize (F p Hp). unfold pfx_ok in F. unfold enc_prefix.
  apply wf_cons; split; [lia|]. apply wf_take, wf_be.
Qed.
Lemma construct_prefix_v4_ap_wf ps b : construct_prefix_v4_ap ps = Ok b -> wf_bytes b.
Proof.
  unfold construct_prefix_v4_ap.
  destruct (forallb (fun p => (fst p <? 4294967296) && pfx_ok (snd p)) ps) eqn:F; [|discriminate].
  intros H; inversion H; subst b; clear H. apply wf_concat_map. intros p Hp.
  rewrite forallb_forall in F. specialize (F p Hp). unfold pfx_ok in F. unfold enc_aprefix, enc_prefix.
  apply wf_app; split; [apply wf_be|]. apply wf_cons; split; [lia|]. apply wf_take, wf_be.
Qed.

Lemma len_construct_body wd ad nd : len (construct_body wd ad nd) = 4 + len wd + len ad + len nd.
Proof. unfold construct_body. rewrite !len_app, !len_be. lia. Qed.

Lemma len_header ty body b : header ty body = Ok b -> len b = len body + 19.
Proof.
  intros H. apply header_inv in H. subst b. rewrite !len_app, len_be.
  change (len marker16) with 16. change (len [ty]) with 1. lia.
Qed.

(** the sections of an assembled body are found again by the walker *)
Lemma update_sections_body wd ad nd : len wd <= 65535 -> len ad <= 65535 ->
  update_sections (construct_body wd ad nd) = Some (wd, ad, nd).
Proof.
  intros Hw Ha. unfold construct_body. rewrite !be2 by lia. cbn [app update_sections].
  assert (E : forall l, u16 (l / 256) (l mod 256) = l) by (intros; unfold u16; lia).
  rewrite !E, splitN_app. cbn [app]. rewrite E, splitN_app. reflexivity.
Qed.

(** ASSEMBLY: valid sections, put together by Update.construct's framing
    (2-octet withdrawn length, withdrawn routes, 2-octet attribute length, attributes, NLRI,
    under the 19-octet header) make a structurally valid UPDATE exactly when the message fits
    4096 octets.  [c] is any session context (add-path or not, 2- or 4-octet AS). *)
Theorem update_assembly c wd ad nd b :
  wf_bytes wd -> wf_bytes ad -> wf_bytes nd ->
  valid_prefixes4 c wd = true -> valid_attrs c ad = true -> valid_prefixes4 c nd = true ->
  header c_MSG_UPDATE (construct_body wd ad nd) = Ok b ->
  (valid_msg_with c b = true <-> len b <= 4096).
Proof.
  intros Ww Wa Wn Vw Va Vn H. split.
  - intros V. apply valid_msg_header in V as (_ & l1 & l0 & ty & body & _ & _ & _ & Hl). exact Hl.
  - intros Hl. pose proof (len_header _ _ _ H) as Lb. rewrite len_construct_body in Lb.
    apply header_inv in H. subst b.
    unfold valid_msg_with. rewrite framed_wf, unheader_framed.
    + change c_MSG_UPDATE with 2. cbv iota beta. cbn [andb]. unfold valid_update.
      rewrite update_sections_body by lia. rewrite Vw, Va, Vn. reflexivity.
    + rewrite len_construct_body. lia.
    + reflexivity.
    + unfold construct_body. repeat (apply wf_app; split); auto using wf_be.
Qed.

(** Update.construct (IPv4 unicast UPDATE with the twelve attributes of YAttr.v; [asn4] = 4-octet
    AS numbers): whatever it returns for a dictionary of attributes is structurally valid exactly
    when it is not longer than 4096 octets.  The code has no such limit (known finding
    C08-oversize): [update_construct_oversize]. *)
Theorem update_construct_valid asn4 cr m b : NoDup (map fst (u_attrs m)) ->
  construct asn4 m = Ok (Some b) ->
  (valid_msg_with (mkw asn4 false cr) b = true <-> len b <= 4096).
Proof.
  intros Hd. unfold construct. intros H.
  apply bind_ok in H as (ad & Ha & H). apply bind_ok in H as (nd & Hn & H). apply bind_ok in H as (wd & Hw & H).
  destruct (construct_attributes_valid asn4 false cr _ _ Hd Ha) as [Va Wa].
  pose proof (construct_prefix_v4_valid _ _ Hn) as Vn. pose proof (construct_prefix_v4_valid _ _ Hw) as Vw.
  pose proof (construct_prefix_v4_wf _ _ Hn) as Wn. pose proof (construct_prefix_v4_wf _ _ Hw) as Ww.
  destruct ad as [|x ad'].
  - destruct wd as [|y wd']; [discriminate|].
    destruct (65535 <? len (y :: wd')); [discriminate|].
    apply bind_ok in H as (b' & Hh & H). injection H as <-.
    eapply update_assembly; [exact Ww | constructor | constructor | exact Vw | reflexivity | reflexivity | exact Hh].
  - destruct ((65535 <? len wd) || (65535 <? len (x :: ad'))); [discriminate|].
    apply bind_ok in H as (b' & Hh & H). injection H as <-.
    eapply update_assembly; [exact Ww | exact Wa | exact Wn | exact Vw | exact Va | exact Vn | exact Hh].
Qed.

(** 1100 withdrawn /24 routes: a 4423-octet "message" is returned *)
Definition big_withdraw : upd := mkUpd (repeat (167772160, 24) 1100) [] [].
Lemma update_construct_oversize : exists asn4 m b,
  NoDup (map fst (u_attrs m)) /\ construct asn4 m = Ok (Some b) /\
  valid_msg_with (mkw asn4 false false) b = false /\ len b = 4423.
Proof.
  exists false, big_withdraw. eexists. split; [constructor|].
  split; [vm_compute; reflexivity|]. split; vm_compute; reflexivity.
Qed.

(** non-vacuous: withdrawn routes, five attributes (one with an extended length), NLRI *)
Definition ex_upd : upd :=
  mkUpd [(167772160, 8); (0, 0)]
        [(1, VNum 0); (2, VPath [(2, repeat 7 64); (1, repeat 9 64)]); (3, VNum 167772161);
         (16, VExts [(2, [65001; 100]); (1537, [1; 1000])]); (32, VLarge [[1; 2; 3]; [4294967295; 0; 7]])]
        [(3232235776, 23); (167837696, 17)].
Lemma update_construct_example : exists b,
  construct true ex_upd = Ok (Some b) /\ NoDup (map fst (u_attrs ex_upd)) /\ len b = 611 /\
  valid_msg_with (mkw true false false) b = true.
Proof.
  eexists. split; [vm_compute; reflexivity|]. split.
  - cbn. repeat constructor; cbn; intuition discriminate.
  - split; vm_compute; reflexivity.
Qed.

(** the walker is not permissive about repeated attributes and about the sections *)
Lemma update_near_misses :
  valid_attrs cfg0 [64; 1; 1; 0; 64; 3; 4; 10; 0; 0; 1] = true /\
  valid_attrs cfg0 [64; 1; 1; 0; 64; 3; 4; 10; 0; 0; 1; 64; 1; 1; 0] = false /\
  valid_attrs cfg0 [64; 1; 1; 0; 64; 3; 5; 10; 0; 0; 1] = false /\
  valid_attrs cfg0 [192; 16; 8; 0; 2; 253; 233; 0; 0; 0; 100] = true /\
  valid_attrs cfg0 [192; 16; 7; 0; 2; 253; 233; 0; 0; 0] = false /\
  valid_attrs cfg0 [224; 32; 12; 0; 0; 0; 1; 0; 0; 0; 2; 0; 0; 0; 3] = true /\
  valid_attrs cfg0 [224; 32; 0] = false /\
  valid_attrs cfg0 [224; 32; 8; 0; 0; 0; 1; 0; 0; 0; 2] = false.
Proof. vm_compute. repeat split. Qed.

(** the statements of props/C08.v *)
Lemma ext_large_valid c :
  (forall l b, construct_extcommunity l = Ok b -> valid_attrs c b = true) /\
  (forall l b, construct_largecommunity l = Ok b -> valid_attrs c b = true).
Proof. split; intros; [eapply construct_extcommunity_valid | eapply construct_largecommunity_valid]; eassumption. Qed.
Lemma attr_block_valid_wf c ty b : attr_block c ty b -> valid_attrs c b = true /\ wf_bytes b.
Proof. intros H. split; [eapply attr_block_valid | eapply attr_block_wf]; exact H. Qed.

(** an UPDATE assembled from ANY attribute blocks with pairwise different type codes (the twelve
    standard attributes, MP_REACH_NLRI / MP_UNREACH_NLRI, ...) around valid prefix fields *)
Theorem update_of_blocks c wd (l : list (N * bytes)) nd b :
  wf_bytes wd -> wf_bytes nd -> valid_prefixes4 c wd = true -> valid_prefixes4 c nd = true ->
  Forall (fun p => attr_block c (fst p) (snd p)) l -> NoDup (map fst l) ->
  header c_MSG_UPDATE (construct_body wd (concat (map snd l)) nd) = Ok b ->
  (valid_msg_with c b = true <-> len b <= 4096).
Proof.
  intros Ww Wn Vw Vn Hb Hd H. destruct (attr_blocks_valid c l Hb Hd) as [Va Wa].
  exact (update_assembly c wd (concat (map snd l)) nd b Ww Wa Wn Vw Va Vn H).
Qed.
