(** Generic preservation: a predicate on worlds that every primitive preserves is preserved
    by every FSM method (generated code, whatever its control flow) and by the peering glue.
    The proofs only walk the term structure, so they survive edits of fsm.py that stay inside
    the translated subset. *)
From YV Require Import lib.Base model.YWorld model.YProto gen.Consts gen.FsmGen model.YSession.

Section Pres.
Variable P : world -> Prop.

Record prims_ok : Prop := {
  ok_set_state : forall s w, P w -> P (set_state s w);
  ok_tm_reset : forall t d w, t <> TDelayOpen -> P w -> P (tm_reset t d w);
  ok_tm_cancel : forall t w, P w -> P (tm_cancel t w);
  ok_tm_active : forall t w, P w -> P (snd (tm_active t w));
  ok_crc : forall n w, P w -> P (set_w_crc n w);
  ok_auto : forall b w, P w -> P (set_w_auto b w);
  ok_status : forall b w, P w -> P (set_w_status b w);
  ok_estab : forall o w, P w -> P (set_w_estab o w);
  ok_send_open : forall w, P w -> P (p_send_open w);
  ok_send_ka : forall w, P w -> P (p_send_keepalive w);
  ok_send_notif : forall c s d w, P w -> P (p_send_notification c s d w);
  ok_close : forall w, P w -> P (p_close_connection w);
  ok_connect : forall w, P w -> P (peering_connect w)
}.

Hypothesis OK : prims_ok.

Lemma P_if (c : bool) (a b : world) : P a -> P b -> P (if c then a else b).
Proof. destruct c; auto. Qed.
Lemma P_snd_if (c : bool) (a b : bool * world) : P (snd a) -> P (snd b) -> P (snd (if c then a else b)).
Proof. destruct c; auto. Qed.
Lemma P_snd_pair (x : bool) (w : world) : P w -> P (snd (x, w)).
Proof. auto. Qed.

Ltac pres1 :=
  lazymatch goal with
  | H : P ?w |- P ?w => exact H
  | |- P (if _ then _ else _) => apply P_if
  | |- P (snd (if _ then _ else _)) => apply P_snd_if
  | |- P (snd (_, _)) => apply P_snd_pair
  | |- P (set_state _ _) => apply (ok_set_state OK)
  | |- P (tm_reset _ _ _) => apply (ok_tm_reset OK); [discriminate|]
  | |- P (tm_cancel _ _) => apply (ok_tm_cancel OK)
  | |- P (snd (tm_active _ _)) => apply (ok_tm_active OK)
  | |- P (set_w_crc _ _) => apply (ok_crc OK)
  | |- P (set_w_auto _ _) => apply (ok_auto OK)
  | |- P (set_w_status _ _) => apply (ok_status OK)
  | |- P (set_w_estab _ _) => apply (ok_estab OK)
  | |- P (p_send_open _) => apply (ok_send_open OK)
  | |- P (p_send_keepalive _) => apply (ok_send_ka OK)
  | |- P (p_send_notification _ _ _ _) => apply (ok_send_notif OK)
  | |- P (p_close_connection _) => apply (ok_close OK)
  | |- P (peering_connect _) => apply (ok_connect OK)
  end.
Ltac pres := repeat pres1.

(** leaf FSM methods *)
Lemma pres_close_connection w : P w -> P (fsm__close_connection w).
Proof. intros H. unfold fsm__close_connection. cbv beta iota zeta. pres. Qed.
Lemma pres_error_close w : P w -> P (fsm__error_close w).
Proof.
  intros H. unfold fsm__error_close. cbv beta iota zeta.
  repeat first [ pres1 | lazymatch goal with |- P (fsm__close_connection _) => apply pres_close_connection end ].
Qed.
Lemma pres_automatic_start ih w : P w -> P (snd (fsm_automatic_start ih w)).
Proof. intros H. unfold fsm_automatic_start. cbv beta iota zeta. pres. Qed.
Lemma pres_manual_start ih w : P w -> P (snd (fsm_manual_start ih w)).
Proof. intros H. unfold fsm_manual_start. cbv beta iota zeta. pres. Qed.

(** peering glue *)
Lemma pres_peering_automatic_start ih w : P w -> P (peering_automatic_start ih w).
Proof.
  intros H. unfold peering_automatic_start. cbv beta iota zeta.
  repeat first [ pres1 | lazymatch goal with |- P (snd (fsm_automatic_start _ _)) => apply pres_automatic_start end ].
Qed.
Lemma pres_peering_connection_closed pro w : P w -> P (peering_connection_closed pro w).
Proof.
  intros H. unfold peering_connection_closed. cbv beta iota zeta.
  repeat first [ pres1 | lazymatch goal with |- P (peering_automatic_start _ _) => apply pres_peering_automatic_start end ].
Qed.
Lemma pres_peering_manual_start w : P w -> P (peering_manual_start w).
Proof.
  intros H. unfold peering_manual_start. cbv beta iota zeta.
  repeat first [ pres1 | lazymatch goal with |- P (snd (fsm_manual_start _ _)) => apply pres_manual_start end ].
Qed.

Ltac pres_all :=
  repeat first
    [ pres1
    | lazymatch goal with
      | |- P (fsm__close_connection _) => apply pres_close_connection
      | |- P (fsm__error_close _) => apply pres_error_close
      | |- P (peering_automatic_start _ _) => apply pres_peering_automatic_start
      | |- P (peering_connection_closed _ _) => apply pres_peering_connection_closed
      | |- P (snd (fsm_automatic_start _ _)) => apply pres_automatic_start
      | |- P (snd (fsm_manual_start _ _)) => apply pres_manual_start
      end ].

Ltac fsm_pres f := intros H; unfold f; cbv beta iota zeta; pres_all.

(** every FSM method, callbacks tied *)
Lemma pres_manual_stop w : P w -> P (snd (F_manual_stop w)).
Proof. intros H. unfold F_manual_stop, fsmU_manual_stop, fsm_manual_stop. cbv beta iota zeta. pres_all. Qed.
Lemma pres_connect_retry_time_event w : P w -> P (F_connect_retry_time_event w).
Proof. intros H. unfold F_connect_retry_time_event, fsmU_connect_retry_time_event, fsm_connect_retry_time_event, peering_connect_retry. cbv beta iota zeta. pres_all. Qed.
Lemma pres_hold_time_event w : P w -> P (F_hold_time_event w).
Proof. intros H. unfold F_hold_time_event, fsmU_hold_time_event, fsm_hold_time_event. cbv beta iota zeta. pres_all. Qed.
Lemma pres_keep_alive_time_event w : P w -> P (F_keep_alive_time_event w).
Proof. intros H. unfold F_keep_alive_time_event, fsmU_keep_alive_time_event, fsm_keep_alive_time_event. cbv beta iota zeta. pres_all. Qed.
Lemma pres_delay_open_time_event w : P w -> P (F_delay_open_time_event w).
Proof. intros H. unfold F_delay_open_time_event, fsmU_delay_open_time_event, fsm_delay_open_time_event. cbv beta iota zeta. pres_all. Qed.
Lemma pres_idle_hold_time_event w : P w -> P (F_idle_hold_time_event w).
Proof. intros H. unfold F_idle_hold_time_event, fsmU_idle_hold_time_event, fsm_idle_hold_time_event. cbv beta iota zeta. pres_all. Qed.
Lemma pres_connection_made w : P w -> P (F_connection_made w).
Proof. intros H. unfold F_connection_made, fsmU_connection_made, fsm_connection_made. cbv beta iota zeta. pres_all. Qed.
Lemma pres_connection_failed w : P w -> P (F_connection_failed w).
Proof. intros H. unfold F_connection_failed, fsmU_connection_failed, fsm_connection_failed. cbv beta iota zeta. pres_all. Qed.
Lemma pres_open_received0 w : P w -> P (F_open_received w).
Proof. intros H. unfold F_open_received, fsmU_open_received, fsm_open_received. cbv beta iota zeta. pres_all. Qed.
Lemma pres_header_error s d w : P w -> P (F_header_error s d w).
Proof. intros H. unfold F_header_error, fsmU_header_error, fsm_header_error. cbv beta iota zeta. pres_all. Qed.
Lemma pres_open_message_error s d w : P w -> P (F_open_message_error s d w).
Proof. intros H. unfold F_open_message_error, fsmU_open_message_error, fsm_open_message_error. cbv beta iota zeta. pres_all. Qed.
Lemma pres_notification_received0 e s w : P w -> P (F_notification_received e s w).
Proof.
  intros H. unfold F_notification_received, fsmU_notification_received, fsm_notification_received,
    fsm_notimsg_version_error. cbv beta iota zeta. pres_all.
Qed.
Lemma pres_keep_alive_received w : P w -> P (F_keep_alive_received w).
Proof. intros H. unfold F_keep_alive_received, fsmU_keep_alive_received, fsm_keep_alive_received. cbv beta iota zeta. pres_all. Qed.
Lemma pres_update_received0 w : P w -> P (F_update_received w).
Proof. intros H. unfold F_update_received, fsmU_update_received, fsm_update_received. cbv beta iota zeta. pres_all. Qed.

End Pres.

(** ---- the hand-written dispatch glue, for predicates that its extra primitives preserve ---- *)
(** connection updates that leave buffer and connection state alone and never clear [c_disc] *)
Definition keeps_buf (f : conn -> conn) : Prop :=
  forall k, c_buf (f k) = c_buf k /\ c_st (f k) = c_st k /\ (c_disc k = true -> c_disc (f k) = true).
(** ... and, for the updates the dispatch glue makes (receive counters, 4-octet-AS flag), that
    also leave the sent counters alone *)
Definition keeps_glue (f : conn -> conn) : Prop := keeps_buf f /\ forall k, c_sent (f k) = c_sent k.

Section PresGlue.
Variable P : world -> Prop.
Hypothesis OK : prims_ok P.
Record glue_ok : Prop := {
  g_handler : forall h w, P w -> P (emit (OHandler h) w);
  g_upd : forall c f w, keeps_glue f -> P w -> P (upd_conn c f w);
  g_hold : forall n w, P w -> P (set_w_hold n w);
  g_ka3 : forall n w, P w -> P (set_w_ka3 n w);
  g_capr : forall l w, P w -> P (set_w_capr l w)
}.
Hypothesis GK : glue_ok.
Variable D : decoders.

Lemma keeps_on_recv f : keeps_glue (on_recv f). Proof. split; intro; repeat split; auto. Qed.
Lemma keeps_asn4 s : keeps_glue (set_c_asn4 s). Proof. split; intro; repeat split; auto. Qed.

Lemma pres_negotiate_hold_time h w : P w -> P (negotiate_hold_time h w).
Proof.
  intros H. unfold negotiate_hold_time. cbv beta zeta.
  apply (g_ka3 GK).
  match goal with |- P (if ?c then _ else _) => destruct c end.
  - apply pres_open_message_error; auto. apply (g_hold GK); auto.
  - apply (g_hold GK); auto.
Qed.

Lemma pres_open_received c msg w : P w -> P (snd (open_received D c msg w)).
Proof.
  intros H. unfold open_received. cbv beta zeta.
  assert (H1 : P (upd_conn c (on_recv bump_open) w)) by (apply (g_upd GK); auto using keeps_on_recv).
  destruct (d_open D msg) as [sub|sub| |asn hold caps]; cbn [snd].
  - apply pres_header_error; auto.
  - apply pres_open_message_error; auto.
  - exact H1.
  - match goal with |- P (snd (if ?c then _ else _)) => destruct c end; cbn [snd].
    + apply pres_open_message_error; auto.
    + apply (g_handler GK). apply pres_open_received0; auto.
      apply pres_negotiate_hold_time.
      match goal with |- P (if ?c then _ else _) => destruct c end.
      * apply (g_upd GK); auto using keeps_asn4. apply (g_capr GK); auto.
      * apply (g_capr GK); auto.
Qed.

Lemma pres_update_received c msg w : P w -> P (snd (update_received D c msg w)).
Proof.
  intros H. unfold update_received.
  destruct (d_update D (c_asn4 (get_conn c w)) msg); cbn [snd]; auto;
    apply pres_update_received0; auto; apply (g_upd GK); auto using keeps_on_recv; apply (g_handler GK); auto.
Qed.

Lemma pres_notification_received c msg w : P w -> P (snd (notification_received c msg w)).
Proof.
  intros H. unfold notification_received. destruct msg as [|e [|s r]]; cbn [snd]; auto.
  apply pres_notification_received0; auto. apply (g_handler GK). apply (g_upd GK); auto using keeps_on_recv.
Qed.

Lemma pres_keepalive_received c msg w : P w -> P (snd (keepalive_received c msg w)).
Proof.
  intros H. unfold keepalive_received. cbv beta zeta.
  assert (H1 : P (emit (OHandler HKeepalive) (upd_conn c (on_recv bump_ka) w)))
    by (apply (g_handler GK); apply (g_upd GK); auto using keeps_on_recv).
  destruct msg; cbn [snd].
  - apply pres_keep_alive_received; auto.
  - apply pres_header_error; auto.
Qed.

Lemma pres_route_refresh_received c ty msg w : P w -> P (snd (route_refresh_received c ty msg w)).
Proof.
  intros H. unfold route_refresh_received. destruct (Nat.eqb (length msg) 4); cbn [snd]; auto.
  apply (g_handler GK). apply (g_upd GK); auto using keeps_on_recv.
Qed.

Lemma pres_dispatch c ty msg w : P w -> P (snd (dispatch D c ty msg w)).
Proof.
  intros H. unfold dispatch.
  repeat match goal with |- P (snd (if ?c then _ else _)) => destruct c end.
  - apply pres_open_received; auto.
  - apply pres_update_received; auto.
  - apply pres_notification_received; auto.
  - apply pres_keepalive_received; auto.
  - apply pres_route_refresh_received; auto.
  - cbn [snd]. apply pres_header_error; auto.
Qed.
End PresGlue.
