(** C20 -- peer addresses.  The handler keeps one log per LOWER-CASED peer address (model/YLog.v,
    "peer addresses").  Results:
    - the spelling of the address an event arrives with is irrelevant ([spelling_irrelevant]);
    - the log of a registered peer after any handler history is exactly the single-peer run of
      that peer's share of the history: its own callbacks, every restart, and a plain restart for
      a crash inside another peer's write ([peers_independent]); hence the guarded audit theorem
      holds for every peer of a handler that serves several ([audit_every_peer]). *)
From YV Require Import lib.Base model.YLog spec.LogSpec proof.LogProofs.
From Coq Require Import ZArith Lia ZifyBool ZifyNat ZifyN.

Lemma lower_octet_idem x : lower_octet (lower_octet x) = lower_octet x.
Proof.
  unfold lower_octet.
  destruct ((65 <=? x) && (x <=? 90)) eqn:E; [|rewrite E; reflexivity].
  destruct ((65 <=? x + 32) && (x + 32 <=? 90)) eqn:E'; [exfalso; lia | reflexivity].
Qed.

Lemma lower_idem a : lower (lower a) = lower a.
Proof.
  unfold lower. rewrite map_map. apply map_ext. intros x. apply lower_octet_idem.
Qed.

Lemma bytes_eqb_spec a b : reflect (a = b) (bytes_eqb a b).
Proof.
  destruct (bytes_eqb a b) eqn:E; constructor.
  - apply bytes_eqb_eq. exact E.
  - intros H. apply bytes_eqb_eq in H. rewrite H in E. discriminate.
Qed.

Lemma spelling_irrelevant c thr h a b cb ok sz k :
  lower a = lower b ->
  hstep c thr h (HEv a cb ok sz) = hstep c thr h (HEv b cb ok sz) /\
  hstep c thr h (HCrash a cb ok sz k) = hstep c thr h (HCrash b cb ok sz k) /\
  hregister c h a = hregister c h b.
Proof. intros E. unfold hstep, hregister. rewrite E. repeat split. Qed.

Lemma hget_hupd k k' f h :
  hget k (hupd k' f h) = if bytes_eqb k k' then option_map f (hget k h) else hget k h.
Proof.
  induction h as [|[k0 s] r IH]; cbn [hupd hget].
  - destruct (bytes_eqb k k'); reflexivity.
  - destruct (bytes_eqb_spec k' k0) as [E1|E1]; cbn [hget].
    + subst k0. destruct (bytes_eqb_spec k k'); reflexivity.
    + destruct (bytes_eqb_spec k k0) as [E2|E2].
      * subst k0. destruct (bytes_eqb_spec k k') as [E3|E3]; [subst; contradiction | reflexivity].
      * exact IH.
Qed.

Lemma hget_hall k f h : hget k (hall f h) = option_map f (hget k h).
Proof.
  induction h as [|[k0 s] r IH]; [reflexivity|].
  cbn [hall map hget fst snd]. destruct (bytes_eqb k k0); [reflexivity | exact IH].
Qed.

Lemma bytes_eqb_sym a b : bytes_eqb a b = bytes_eqb b a.
Proof.
  destruct (bytes_eqb_spec a b), (bytes_eqb_spec b a); try reflexivity; subst; contradiction.
Qed.

Lemma hstep_get c thr k h e :
  hget k (hstep c thr h e) = option_map (fun s => fold_left (step c thr) (proj k e) s) (hget k h).
Proof.
  destruct e as [a cb ok sz | | a cb ok sz j]; cbn [hstep proj].
  - rewrite hget_hupd, (bytes_eqb_sym (lower a) k).
    destruct (bytes_eqb k (lower a)); destruct (hget k h); reflexivity.
  - rewrite hget_hall. destruct (hget k h); reflexivity.
  - rewrite hget_hall, hget_hupd, (bytes_eqb_sym (lower a) k).
    destruct (bytes_eqb k (lower a)); destruct (hget k h); reflexivity.
Qed.

Lemma hfold_get c thr k : forall es h,
  hget k (fold_left (hstep c thr) es h) =
  option_map (fun s => fold_left (step c thr) (flat_map (proj k) es) s) (hget k h).
Proof.
  induction es as [|e r IH]; intros h; cbn [fold_left flat_map].
  - destruct (hget k h); reflexivity.
  - rewrite IH, hstep_get. destruct (hget k h); cbn [option_map]; [|reflexivity].
    rewrite fold_left_app. reflexivity.
Qed.

Lemma hget_snoc k h k' s :
  hget k (h ++ [(k', s)]) =
  match hget k h with Some x => Some x | None => if bytes_eqb k k' then Some s else None end.
Proof.
  induction h as [|[k0 s0] r IH]; cbn [app hget]; [reflexivity|].
  destruct (bytes_eqb k k0); [reflexivity | exact IH].
Qed.

Definition fresh_logs (c : cfg) (h : handler) : Prop :=
  forall k s, hget k h = Some s -> s = start_on c [].

Lemma register_fresh c h a : fresh_logs c h -> fresh_logs c (hregister c h a).
Proof.
  intros Hf k s. unfold hregister. destruct (hget (lower a) h) eqn:E; [apply Hf|].
  rewrite hget_snoc. destruct (hget k h) eqn:E'.
  - intros H. injection H as <-. apply (Hf k). exact E'.
  - destruct (bytes_eqb k (lower a)); [intros H; injection H as <-; reflexivity | discriminate].
Qed.

Lemma register_keeps c h a k : hget k h <> None -> hget k (hregister c h a) <> None.
Proof.
  intros H. unfold hregister. destruct (hget (lower a) h); [exact H|].
  rewrite hget_snoc. destruct (hget k h); [discriminate | contradiction].
Qed.

Lemma register_adds c h a : hget (lower a) (hregister c h a) <> None.
Proof.
  unfold hregister. destruct (hget (lower a) h) eqn:E; [rewrite E; discriminate|].
  rewrite hget_snoc, E. destruct (bytes_eqb_spec (lower a) (lower a)); [discriminate | contradiction].
Qed.

Lemma hstart_get_gen c k : forall peers h, fresh_logs c h ->
  In k (map lower peers) \/ hget k h <> None ->
  hget k (fold_left (hregister c) peers h) = Some (start_on c []).
Proof.
  induction peers as [|a r IH]; intros h Hf Hk; cbn [fold_left map In] in *.
  - destruct Hk as [[]|Hk]. destruct (hget k h) eqn:E; [|contradiction].
    f_equal. apply (Hf k). exact E.
  - apply IH; [apply register_fresh; exact Hf|].
    destruct Hk as [[<-|Hin]|Hk].
    + right. apply register_adds.
    + left. exact Hin.
    + right. apply register_keeps. exact Hk.
Qed.

Lemma hstart_get c peers k : In k (map lower peers) -> hget k (hstart c peers) = Some (start_on c []).
Proof.
  intros H. apply hstart_get_gen; [intros k' s; discriminate | left; exact H].
Qed.

(** the log of a registered peer is the single-peer run of its share of the history *)
Lemma peers_independent c thr peers es k :
  In k (map lower peers) ->
  hget k (hrun c thr peers es) = Some (run c thr (flat_map (proj k) es)).
Proof.
  intros H. unfold hrun. rewrite hfold_get, (hstart_get c peers k H). reflexivity.
Qed.

(** repaired code: every peer's log passes the audit when no crash cuts a line of THAT peer *)
Lemma audit_every_peer thr peers es a :
  In a peers -> no_torn (flat_map (proj (lower a)) es) = true ->
  exists s, hget (lower a) (hrun cfg_fixed thr peers es) = Some s /\ audit (observe s) = true.
Proof.
  intros Hin Hn. eexists. split.
  - apply peers_independent. apply in_map. exact Hin.
  - apply audit_fixed. exact Hn.
Qed.

(** the key of "2001:DB8::1" is "2001:db8::1"; digits, colons and dots are left alone *)
Lemma lower_example :
  lower [50; 48; 48; 49; 58; 68; 66; 56; 58; 58; 49] = [50; 48; 48; 49; 58; 100; 98; 56; 58; 58; 49].
Proof. vm_compute. reflexivity. Qed.

(** two spellings of one address and a second peer: the first two share a log, the third has its
    own; a rotation (threshold 100) in the shared log does not disturb either *)
Lemma peers_example :
  let A := [50; 48; 48; 49; 58; 68; 66; 56; 58; 58; 49] in
  let a := [50; 48; 48; 49; 58; 100; 98; 56; 58; 58; 49] in
  let b := [49; 48; 46; 48; 46; 48; 46; 50] in
  let es := [HEv A UpdateReceived true 147; HEv b SendOpen true 52; HEv a UpdateReceived true 147;
             HRestart; HEv A SendOpen true 52] in
  length (hrun cfg_fixed 100 [A; a; b] es) = 2%nat /\
  option_map alive (hget a (hrun cfg_fixed 100 [A; a; b] es)) = Some (Some 4) /\
  option_map alive (hget b (hrun cfg_fixed 100 [A; a; b] es)) = Some (Some 2) /\
  no_torn (flat_map (proj a) es) = true.
Proof. vm_compute. repeat split; reflexivity. Qed.

(** the agent's wiring: an event the session layer reports for the configured peer reaches the log
    that init() registered for it *)
Lemma agent_wiring a cb ok sz k :
  proj (lower a) (HEv (factory_peer_addr a) cb ok sz) = [Ev cb ok sz] /\
  proj (lower a) (HCrash (factory_peer_addr a) cb ok sz k) = [Crash cb ok sz k] /\
  hget (lower (factory_peer_addr a)) (hstart cfg_fixed [a]) = Some (start_on cfg_fixed []).
Proof.
  unfold factory_peer_addr, proj.
  destruct (bytes_eqb_spec (lower a) (lower a)) as [_|H]; [|contradiction].
  repeat split. apply hstart_get. left. reflexivity.
Qed.
