(** The names in the 'add_path' entries of a decoded OPEN (model/YOpenNames.v) against the
    independent reference table (spec/RefOpenNames.v). *)
From YV Require Import lib.Base gen.Consts model.YMsg model.YOpen model.YOpenNames
  spec.RefOpen spec.RefOpenNames proof.MsgProofs proof.OpenProofs.
From Coq Require Import ZArith ZifyBool ZifyNat ZifyN.

(* ------------------------------------------------------------------------------------- *)
(** * the tables *)

(** the dictionaries with names have exactly the keys YOpen.v (addpath_loop) tests for *)
Lemma afi_safi_dict_keys : map fst afi_safi_dict = afi_safi_known.
Proof. reflexivity. Qed.
Lemma add_path_act_dict_keys : map fst add_path_act_dict = add_path_act_known.
Proof. reflexivity. Qed.

(** the reference table names exactly the families of RefOpen.known_families *)
Lemma family_names_keys : map fst family_names = known_families.
Proof. reflexivity. Qed.

(** the implementation's dictionaries ARE the reference tables: same keys, same names *)
Lemma afi_safi_dict_is_reference : afi_safi_dict = family_names.
Proof. vm_compute. reflexivity. Qed.
Lemma add_path_act_dict_is_reference : add_path_act_dict = mode_names.
Proof. vm_compute. reflexivity. Qed.

Lemma family_names_distinct : names_distinctb (map snd family_names) = true.
Proof. vm_compute. reflexivity. Qed.
Lemma mode_names_distinct : names_distinctb (map snd mode_names) = true.
Proof. vm_compute. reflexivity. Qed.

Lemma afi_safi_get_ref l k : afi_safi_get l k = family_name_in l k.
Proof.
  induction l as [|[k' v] l IH]; [reflexivity|].
  cbn [afi_safi_get family_name_in]. unfold pair_eqb. rewrite IH. reflexivity.
Qed.
Lemma act_get_ref l k : act_get l k = mode_name_in l k.
Proof.
  induction l as [|[k' v] l IH]; [reflexivity|].
  cbn [act_get mode_name_in]. rewrite IH. reflexivity.
Qed.

(** one entry: the implementation's two strings are the reference's *)
Lemma addpath_entry_names_ref e : addpath_entry_names e = ref_addpath_name e.
Proof.
  unfold addpath_entry_names, ref_addpath_name, family_name, mode_name.
  rewrite afi_safi_dict_is_reference, add_path_act_dict_is_reference.
  rewrite afi_safi_get_ref, act_get_ref. reflexivity.
Qed.

Lemma family_name_in_some l f : In f (map fst l) -> family_name_in l f <> None.
Proof.
  induction l as [|[k v] l IH]; intros H; [contradiction|].
  cbn [family_name_in]. cbn [map fst In] in H.
  destruct ((fst k =? fst f) && (snd k =? snd f)) eqn:E; [discriminate|].
  destruct H as [H|H]; [|exact (IH H)].
  subst k. rewrite !N.eqb_refl in E. discriminate.
Qed.
Lemma mode_name_some m : 1 <= m <= 3 -> mode_name m <> None.
Proof.
  intros H. assert (E : m = 1 \/ m = 2 \/ m = 3) by lia.
  destruct E as [-> | [-> | ->]]; vm_compute; discriminate.
Qed.

(** every entry the property speaks about (known family, defined mode) has a reference name *)
Lemma ref_addpath_name_some e :
  In (fst e) known_families -> 1 <= snd e <= 3 -> ref_addpath_name e <> None.
Proof.
  intros Hf Hm. unfold ref_addpath_name, family_name.
  rewrite <- family_names_keys in Hf.
  pose proof (family_name_in_some family_names (fst e) Hf) as H1.
  pose proof (mode_name_some (snd e) Hm) as H2.
  destruct (family_name_in family_names (fst e)); [|contradiction].
  destruct (mode_name (snd e)); [discriminate|contradiction].
Qed.

(* ------------------------------------------------------------------------------------- *)
(** * 'add_path' of a decoded reference OPEN *)
Definition is_addpath (c : capability) : bool := match c with AddPath _ => true | _ => false end.
Definition addpath_entries (cs : list capability) : list (N * N * N) :=
  flat_map (fun c => match c with AddPath l => l | _ => [] end) cs.

Lemma decode_from_add_path cs : forall st,
  cd_add_path (snd (decode_from cs st)) =
  if existsb is_addpath cs then Some (olist (cd_add_path (snd st)) ++ addpath_entries cs)
  else cd_add_path (snd st).
Proof.
  induction cs as [|c cs IH]; intros [a d]; [reflexivity|].
  unfold decode_from in *. cbn [fold_left]. rewrite IH. clear IH.
  destruct c; cbn [hl_apply fst snd existsb is_addpath orb addpath_entries flat_map app
                   set_afi_safi set_rr set_cisco_rr set_err set_gr set_four set_add_path set_ext_nh
                   set_llgr set_other cd_add_path]; try reflexivity.
  (* AddPath l *)
  assert (E : forall cs', existsb is_addpath cs' = false -> addpath_entries cs' = []).
  { clear. induction cs' as [|c cs' IH]; [reflexivity|].
    cbn [existsb]. intros H. apply orb_false_iff in H. destruct H as [H1 H2].
    destruct c; try discriminate H1; cbn [addpath_entries flat_map app]; exact (IH H2). }
  change (flat_map _ cs) with (addpath_entries cs).
  cbn [olist]. destruct (existsb is_addpath cs) eqn:Ex.
  - rewrite <- app_assoc. reflexivity.
  - rewrite (E cs Ex), app_nil_r. reflexivity.
Qed.

Lemma addpath_entries_wf cs : Forall cap_wf cs ->
  Forall (fun e => In (fst e) known_families /\ 1 <= snd e <= 3) (addpath_entries cs).
Proof.
  induction 1 as [|c cs Hc Hcs IH]; [constructor|].
  destruct c; cbn [addpath_entries flat_map app]; try exact IH.
  apply Forall_app. split; [exact Hc|exact IH].
Qed.

(** Names.  For every reference OPEN of C14_open_decodes_reference the 'add_path' key of the
    decoded dictionary is present iff some ADD-PATH capability is, and it lists — in wire order,
    over all ADD-PATH capabilities — for every <AFI, SAFI, Send/Receive> the pair
    (reference family name, reference mode name); every such pair exists. *)
Lemma open_addpath_names my_as hold id params :
  1 <= my_as <= 65535 -> hold <= 65535 -> id <= 4294967295 -> params_wf params ->
  exists o, open_parse (ref_open_body 4 my_as hold id params) = Ok (o, Some o) /\
    cd_add_path_named (o_caps o) =
      (if existsb is_addpath (concat params)
       then Some (map ref_addpath_name (addpath_entries (concat params))) else None) /\
    Forall (fun e => ref_addpath_name e <> None) (addpath_entries (concat params)).
Proof.
  intros Ha Hh Hi Hw.
  destruct (open_decodes_reference my_as hold id params Ha Hh Hi Hw) as [_ Hp].
  cbv zeta in Hp. eexists. split; [exact Hp|]. cbn [o_caps].
  split.
  - unfold cd_add_path_named, decode_caps. rewrite decode_from_add_path. cbn [snd cd_empty cd_add_path olist app].
    destruct (existsb is_addpath (concat params)); [|reflexivity].
    rewrite (map_ext _ _ addpath_entry_names_ref). reflexivity.
  - destruct Hw as [Hw _]. apply Forall_concat in Hw.
    pose proof (addpath_entries_wf _ Hw) as H.
    eapply Forall_impl; [|exact H]. intros e [H1 H2]. apply ref_addpath_name_some; assumption.
Qed.
