(** "being closed by us" is one fact: on every connection record the transport's
    disconnecting flag and the protocol's disconnected flag are set together *)
From YV Require Import lib.Base model.YWorld model.YProto gen.Consts gen.FsmGen model.YFraming
  model.YSession proof.SessionPres proof.SessionInv proof.SessionSym proof.SessionFraming proof.SessionC13.
From Coq Require Import Arith PeanoNat.

Definition cdk (k : conn) : Prop := c_closing k = c_disc k /\ (c_st k = CConnecting -> c_closing k = false).
Definition CD (w : world) : Prop := Forall cdk (w_conns w).
Definition keeps_cd (f : conn -> conn) : Prop := forall k, cdk k -> cdk (f k).

Lemma CD_frame w w' : w_conns w' = w_conns w -> CD w -> CD w'.
Proof. unfold CD. intros ->. auto. Qed.
Lemma CD_upd c f w : keeps_cd f -> CD w -> CD (upd_conn c f w).
Proof. intros Hf H. unfold CD, upd_conn. cbn. apply Forall_upd_nth; auto. Qed.
Lemma CD_emit o w : CD w -> CD (emit o w). Proof. apply CD_frame; reflexivity. Qed.
Lemma CD_conn_write c m w : CD w -> CD (conn_write c m w).
Proof. intros H. unfold conn_write. destruct (conn_connected c w); auto using CD_emit. Qed.
Lemma CD_set_tm t v w : CD w -> CD (set_tm t v w).
Proof. apply CD_frame; destruct t; reflexivity. Qed.
Lemma CD_with_proto f w : (forall c w, CD w -> CD (f c w)) -> CD w -> CD (with_proto f w).
Proof. intros Hf H. unfold with_proto. destruct (w_proto w); auto using CD_emit. Qed.
Lemma kcd_on_sent f : keeps_cd (on_sent f). Proof. intros k H; exact H. Qed.
Lemma kcd_on_recv f : keeps_cd (on_recv f). Proof. intros k H; exact H. Qed.
Lemma kcd_asn4 b : keeps_cd (set_c_asn4 b). Proof. intros k H; exact H. Qed.
Lemma kcd_buf b : keeps_cd (set_c_buf b). Proof. intros k H; exact H. Qed.
Lemma kcd_st s : s <> CConnecting -> keeps_cd (set_c_st s).
Proof. intros Hs k [H1 H2]. split; [exact H1|]. cbn. intros X. congruence. Qed.
#[global] Hint Resolve kcd_on_sent kcd_on_recv kcd_asn4 kcd_buf : kcd.

Lemma Forall_upd_nth_at {A} (P : A -> Prop) f : forall l c,
  (forall x, nth_error l c = Some x -> P x -> P (f x)) -> Forall P l -> Forall P (upd_nth c f l).
Proof.
  induction l as [|x l IH]; intros c Hf H; [destruct c; constructor|].
  inversion H; subst. destruct c; cbn; constructor; auto.
Qed.
Lemma CD_lose c w : conn_connected c w = true -> CD w -> CD (upd_conn c lose_conn w).
Proof.
  intros Hc H. unfold CD, upd_conn. cbn. apply Forall_upd_nth_at; auto.
  intros k E [H1 H2]. unfold conn_connected in Hc. rewrite E in Hc.
  split; [reflexivity|]. cbn. intros X. rewrite X in Hc. discriminate.
Qed.

Lemma CD_prims : prims_ok CD.
Proof.
  constructor.
  - intros s w H. unfold set_state. destruct (bst_eqb s (w_state w)); auto.
    destruct s; eapply CD_frame; [|exact H| |exact H| |exact H| |exact H| |exact H| |exact H]; reflexivity.
  - intros; unfold tm_reset; apply CD_set_tm; auto.
  - intros; unfold tm_cancel; apply CD_set_tm; auto.
  - intros; unfold tm_active; cbn [snd]; apply CD_set_tm; auto.
  - intros n w H; eapply CD_frame; [|exact H]; reflexivity.
  - intros n w H; eapply CD_frame; [|exact H]; reflexivity.
  - intros n w H; eapply CD_frame; [|exact H]; reflexivity.
  - intros n w H; eapply CD_frame; [|exact H]; reflexivity.
  - intros w H. apply CD_with_proto; auto. intros c w' H'. unfold conn_send_open. cbv beta zeta.
    apply CD_emit, CD_upd; auto with kcd. apply CD_conn_write.
    unfold capability_negotiate. destruct (w_capr w'); auto;
      try (eapply CD_frame; [|exact H']; reflexivity).
  - intros w H. apply CD_with_proto; auto. intros c w' H'. unfold conn_send_keepalive.
    apply CD_conn_write, CD_upd; auto with kcd.
  - intros code s d w H. apply CD_with_proto; auto. intros c w' H'. unfold conn_send_notification.
    apply CD_conn_write, CD_upd; auto with kcd.
  - intros w H. apply CD_with_proto; auto. intros c w' H'. unfold conn_close.
    destruct (conn_connected c w') eqn:Ecc; auto.
    destruct (c_closing (get_conn c w')); [apply CD_lose; auto|].
    apply CD_lose; [exact Ecc|apply CD_emit; auto].
  - intros w H. unfold peering_connect. destruct (st_is w StEstablished); auto.
    apply CD_emit. unfold CD in *. cbn. apply Forall_app. split; auto. constructor; [split; reflexivity|constructor].
Qed.

Section Events.
Variable D : decoders.

Lemma CD_negotiate_hold_time h w : CD w -> CD (negotiate_hold_time h w).
Proof.
  intros H. unfold negotiate_hold_time. cbv zeta.
  apply (CD_frame (if hold_refused h (w_hold (set_w_hold (N.min (w_hold w) h) w))
                   then F_open_message_error c_ERR_MSG_OPEN_UNACCPT_HOLD_TIME [] (set_w_hold (N.min (w_hold w) h) w)
                   else set_w_hold (N.min (w_hold w) h) w)); try reflexivity.
  assert (H0 : CD (set_w_hold (N.min (w_hold w) h) w)) by (revert H; apply CD_frame; reflexivity).
  destruct (hold_refused _ _); auto. apply (pres_open_message_error CD CD_prims); auto.
Qed.

Lemma CD_dispatch c ty msg w : CD w -> CD (snd (dispatch D c ty msg w)).
Proof.
  intros H. unfold dispatch.
  destruct (ty =? c_MSG_OPEN).
  { unfold open_received. cbv zeta.
    assert (H0 : CD (upd_conn c (on_recv bump_open) w)) by auto using CD_upd with kcd.
    destruct (d_open D msg) as [sub|sub| |asn hold caps]; cbn [snd];
      [ apply (pres_header_error CD CD_prims); exact H0
      | apply (pres_open_message_error CD CD_prims); exact H0
      | exact H0 | ].
    destruct (negb _); cbn [snd]; [apply (pres_open_message_error CD CD_prims); auto|].
    apply CD_emit, (pres_open_received0 CD CD_prims), CD_negotiate_hold_time.
    assert (H1 : CD (set_w_capr caps (upd_conn c (on_recv bump_open) w))) by (revert H0; apply CD_frame; reflexivity).
    destruct (cap_has _ _); auto using CD_upd with kcd. }
  destruct (ty =? c_MSG_UPDATE).
  { unfold update_received. destruct (d_update D _ msg); cbn [snd]; [ | | exact H];
      apply (pres_update_received0 CD CD_prims), CD_upd, CD_emit; auto with kcd. }
  destruct (ty =? c_MSG_NOTIFICATION).
  { unfold notification_received. destruct msg as [|e [|s r]]; cbn [snd]; [exact H|exact H|].
    apply (pres_notification_received0 CD CD_prims), CD_emit, CD_upd; auto with kcd. }
  destruct (ty =? c_MSG_KEEPALIVE).
  { unfold keepalive_received. cbv zeta.
    assert (H0 : CD (emit (OHandler HKeepalive) (upd_conn c (on_recv bump_ka) w)))
      by (apply CD_emit, CD_upd; auto with kcd).
    destruct msg; cbn [snd]; [apply (pres_keep_alive_received CD CD_prims)|apply (pres_header_error CD CD_prims)]; auto. }
  destruct (_ || _).
  { unfold route_refresh_received. destruct (Nat.eqb _ _); cbn [snd]; [|exact H].
    apply CD_emit, CD_upd; auto with kcd. }
  cbn [snd]. apply (pres_header_error CD CD_prims); auto.
Qed.

Lemma CD_frame_loop c : forall fuel buf w, CD w ->
  CD (fst (fst (frame_loop world (dispatch D c) (fun sub d w => F_header_error sub d w)
                           (conn_closed_by_us c) fuel buf w))).
Proof.
  induction fuel as [|fuel IH]; intros buf w H; cbn [frame_loop fst]; auto.
  unfold parse1. cbv zeta.
  destruct (len buf <? c_HDR_LEN); cbn [fst]; auto.
  destruct (negb _); cbn [fst]; [apply (pres_header_error CD CD_prims); auto|].
  destruct (_ || _); cbn [fst]; [apply (pres_header_error CD CD_prims); auto|].
  destruct (len buf <? _); cbn [fst]; auto.
  pose proof (CD_dispatch c (nth 18 buf 0) (slice 19 (N.to_nat (unbe (slice 16 18 buf))) buf) w H) as Hd.
  destruct (fst (dispatch D c _ _ w)); cbn [fst]; auto.
  destruct (conn_closed_by_us c _); cbn [fst]; auto.
Qed.

Lemma CD_event e w : CD w -> CD (do_event D e w).
Proof.
  intros H. destruct e; cbn [do_event].
  - apply (pres_peering_automatic_start CD CD_prims); auto.
  - unfold conn_made. cbv zeta. apply (pres_connection_made CD CD_prims).
    eapply CD_frame; [|apply (CD_upd c (set_c_st CConnected)); [apply kcd_st; discriminate|]]; [reflexivity|].
    eapply CD_frame; [|apply (ok_set_state CD CD_prims StConnect)]; [reflexivity|].
    eapply CD_frame; [|exact H]; reflexivity.
  - unfold conn_failed. cbv zeta. apply (pres_connection_failed CD CD_prims), CD_emit, CD_upd; auto. apply kcd_st; discriminate.
  - unfold conn_lost. cbv zeta.
    assert (H0 : CD (emit (OHandler HConnLost) (upd_conn c (set_c_st CClosed) w))) by (apply CD_emit, CD_upd; auto; apply kcd_st; discriminate).
    destruct (c_disc _); [apply (pres_peering_connection_closed CD CD_prims)|apply (pres_connection_failed CD CD_prims)]; auto.
  - unfold data_received. cbv zeta.
    pose proof (CD_frame_loop c (S (length (c_buf (get_conn c w) ++ b))) (c_buf (get_conn c w) ++ b) w H) as Hl.
    set (r := frame_loop _ _ _ _ _ _ _) in *. clearbody r.
    assert (Hx : CD (upd_conn c (set_c_buf (snd (fst r))) (fst (fst r)))) by auto using CD_upd with kcd.
    destruct (snd r); auto using CD_emit.
  - unfold fire_timer. destruct (t_dl (get_tm t w)); auto.
    assert (H0 : CD (set_tm t {| t_dl := None; t_status := t_status (get_tm t (set_w_now n w)) |} (set_w_now n w))).
    { apply CD_set_tm. revert H. apply CD_frame. reflexivity. }
    destruct t; [apply (pres_connect_retry_time_event CD CD_prims)|apply (pres_hold_time_event CD CD_prims)
                |apply (pres_keep_alive_time_event CD CD_prims)|apply (pres_delay_open_time_event CD CD_prims)
                |apply (pres_idle_hold_time_event CD CD_prims)]; exact H0.
  - revert H. apply CD_frame. reflexivity.
  - apply (pres_manual_stop CD CD_prims); auto.
  - apply (pres_peering_manual_start CD CD_prims); auto.
  - unfold api_send_update. destruct ok; auto. apply CD_with_proto; auto. intros c' w' H'. apply CD_upd, CD_conn_write; auto with kcd.
  - unfold api_send_bin. apply CD_with_proto; auto. intros c' w' H'. apply CD_upd, CD_conn_write; auto with kcd.
Qed.

Lemma CD_step e w : CD w -> CD (step D w e).
Proof.
  intros H. unfold step.
  assert (H0 : CD (set_w_out [] w)) by (revert H; apply CD_frame; reflexivity).
  destruct (enabled w e); auto using CD_event.
Qed.
Lemma CD_run es : forall w, CD w -> CD (run D w es).
Proof. induction es as [|e es IH]; intros w H; cbn [run fold_left]; auto. apply IH, CD_step, H. Qed.
Lemma CD_world0 cf capl : CD (world0 cf capl). Proof. constructor. Qed.
End Events.
