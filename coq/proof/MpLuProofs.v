(** C07, labeled unicast (SAFI 4) MP_REACH: round trip for every label stack whose last label
    is not 0 and every prefix length. *)
From YV Require Import lib.Base gen.Consts model.YMp model.YPrefix6 model.YLabel model.YVpn model.YLu
  proof.MpBytesLemmas proof.MpPrefix6Proofs proof.MpLabelProofs proof.MpVpnProofs.
From Coq Require Import ZArith ZifyBool ZifyNat ZifyN.
Ltac Zify.zify_post_hook ::= Z.to_euclidean_division_equations.

(** in-range label stack: not empty, 20-bit labels, last label not 0 *)
Fixpoint wf_stack (ls : list N) : Prop :=
  match ls with
  | [] => False
  | [l] => 0 < l < 2 ^ 20
  | l :: r => l < 2 ^ 20 /\ wf_stack r
  end.

Lemma parse_labels_inner l more : l < 2 ^ 20 ->
  parse_labels (be 3 (l * 16) ++ more) = l :: parse_labels more.
Proof.
  intros H. rewrite be3_unfold. cbn [app parse_labels].
  set (x := l * 16).
  assert (Hx : (x / 65536) mod 256 * 65536 + (x / 256) mod 256 * 256 + x mod 256 = x) by (unfold x; lia).
  rewrite Hx.
  assert (H2 : x mod 2 =? 1 = false) by (apply N.eqb_neq; unfold x; lia).
  rewrite H2. f_equal. unfold x. lia.
Qed.

Lemma label_stack_roundtrip ls : wf_stack ls ->
  exists b, construct_labels ls = Ok b /\ length b = (3 * length ls)%nat /\
            forall rest, parse_labels (b ++ rest) = ls.
Proof.
  induction ls as [|l r IH]; [intros []|].
  destruct r as [|l2 r'].
  - intros H. exists (be 3 (l * 16 + 1)). split; [apply construct_labels_single; exact H|].
    split; [apply length_be|]. intros rest. apply parse_labels_single; exact H.
  - intros (Hl & Hr). destruct (IH Hr) as (br & Hc & Hlen & Hp).
    exists (be 3 (l * 16) ++ br). split.
    + change (construct_labels (l :: l2 :: r')) with
        (bind (pack24 (l * 16)) (fun b => bind (construct_labels (l2 :: r')) (fun br => Ok (b ++ br)))).
      unfold pack24. destruct (2 ^ 32 <=? l * 16) eqn:E; [apply N.leb_le in E; lia|].
      cbn [bind]. rewrite Hc. reflexivity.
    + split; [rewrite app_length, length_be, Hlen; cbn [length]; lia|].
      intros rest. rewrite <- app_assoc. rewrite parse_labels_inner by exact Hl. rewrite Hp. reflexivity.
Qed.

Definition wf_lroute (v6 : bool) (r : lroute) : Prop :=
  l_len r <= abits v6 /\ l_addr r < 2 ^ abits v6 /\ l_addr r mod 2 ^ (abits v6 - l_len r) = 0 /\
  wf_stack (l_labels r) /\ 24 * N.of_nat (length (l_labels r)) + l_len r <= 255.

Definition expect_plroute (v6 : bool) (r : lroute) : plroute :=
  (l_labels r, vaddr v6 (l_addr r), l_len r).

Lemma ceil8_plus24 n l : ceil8 (24 * n + l) = 3 * n + ceil8 l.
Proof. unfold ceil8. destruct (l mod 8 =? 0) eqn:E; destruct ((24 * n + l) mod 8 =? 0) eqn:E2; lia. Qed.

Lemma lroute_roundtrip v6 r : wf_lroute v6 r ->
  exists b, construct_lroute v6 false r = Ok b /\ b <> [] /\
            forall f rest, parse_lu v6 (S f) (b ++ rest) =
                           bind (parse_lu v6 f rest) (fun t => Ok (expect_plroute v6 r :: t)).
Proof.
  intros (Hl & Ha & Hm & Hs & Hdepth).
  destruct (label_stack_roundtrip _ Hs) as (lab & Hc & HlenL & HpL).
  destruct (pfx_decode v6 (l_addr r) (l_len r) Hl Ha Hm) as (Hplen & Hdec).
  pose proof (ceil8_abytes v6 (l_len r) Hl) as Hk.
  set (p := firstn (N.to_nat (ceil8 (l_len r))) (be (abytes v6) (l_addr r))) in *.
  set (k := N.to_nat (ceil8 (l_len r))) in *.
  set (n := N.of_nat (length (l_labels r))) in *.
  assert (HlenN : len lab = 3 * n) by (unfold len, n; rewrite HlenL; lia).
  exists ([24 * n + l_len r] ++ lab ++ p). split.
  - unfold construct_lroute. rewrite Hc. cbn [bind]. rewrite HlenN.
    replace (8 * (3 * n) + l_len r) with (24 * n + l_len r) by lia.
    assert (Hok : pfx_len_ok v6 (l_len r) = true) by (unfold pfx_len_ok; destruct v6; cbn [abits] in Hl; lia).
    rewrite Hok. cbn [negb].
    destruct (255 <? 24 * n + l_len r) eqn:E; [apply N.ltb_lt in E; lia|].
    fold (pfx_octets v6 (l_addr r) (l_len r)). rewrite pfx_octets_eq by exact Hl. reflexivity.
  - split; [discriminate|]. intros f rest.
    cbn [app]. cbn [parse_lu].
    rewrite ceil8_plus24. fold k.
    set (d := 24 * n + l_len r :: (lab ++ p) ++ rest).
    assert (Hd1 : d = [24 * n + l_len r] ++ lab ++ p ++ rest) by (unfold d; cbn [app]; rewrite <- app_assoc; reflexivity).
    replace (N.to_nat (3 * n + ceil8 (l_len r) + 1)) with (1 + length lab + k)%nat
      by (rewrite HlenL; unfold n, k; lia).
    assert (Hs4 : slice 1 (1 + length lab + k) d = lab ++ p).
    { rewrite Hd1. replace ([24 * n + l_len r] ++ lab ++ p ++ rest) with ([24 * n + l_len r] ++ (lab ++ p) ++ rest)
        by (rewrite <- !app_assoc; reflexivity).
      apply slice_app_mid; [reflexivity | rewrite app_length, Hplen; lia]. }
    rewrite Hs4, HpL. fold n.
    replace (3 * n <=? 3 * n + ceil8 (l_len r)) with true by (symmetry; apply N.leb_le; lia).
    replace (8 * (3 * n) <=? 24 * n + l_len r) with true by (symmetry; apply N.leb_le; lia).
    replace (24 * n + l_len r - 8 * (3 * n)) with (l_len r) by lia.
    replace (3 * n + ceil8 (l_len r) - 3 * n) with (ceil8 (l_len r)) by lia.
    replace (N.to_nat (3 * n + ceil8 (l_len r) + 1 - ceil8 (l_len r))) with (1 + length lab)%nat
      by (rewrite HlenL; unfold n; lia).
    assert (Hs2 : slice (1 + length lab) (1 + length lab + k) d = p).
    { rewrite Hd1. replace ([24 * n + l_len r] ++ lab ++ p ++ rest) with (([24 * n + l_len r] ++ lab) ++ p ++ rest)
        by (rewrite <- !app_assoc; reflexivity).
      apply slice_app_mid; [rewrite app_length; reflexivity | rewrite Hplen; reflexivity]. }
    assert (Hs3 : drop (1 + length lab + k) d = rest).
    { rewrite Hd1. replace ([24 * n + l_len r] ++ lab ++ p ++ rest) with (([24 * n + l_len r] ++ lab ++ p) ++ rest)
        by (rewrite <- !app_assoc; reflexivity).
      apply skipn_app_len. rewrite !app_length, Hplen. cbn [length]. lia. }
    rewrite Hs2, Hs3.
    assert (Hz : N.to_nat (if v6 then (128 - l_len r) / 8 else 4 - ceil8 (l_len r)) = (abytes v6 - length p)%nat).
    { rewrite Hplen. unfold k. destruct v6; cbn [abytes abits] in *.
      - unfold ceil8 in *. destruct (l_len r mod 8 =? 0) eqn:E; lia.
      - lia. }
    rewrite Hz. fold (pad_to (abytes v6) p).
    assert (HA : addr_of_bytes (pad_to (abytes v6) p) = Ok (vaddr v6 (l_addr r))).
    { unfold addr_of_bytes. rewrite int_of_hex_nonempty.
      2:{ unfold pad_to. rewrite app_length, repeat_length, Hplen. fold k. destruct v6; cbn [abytes] in *; lia. }
      cbn [bind]. rewrite Hdec. destruct v6; cbn [vaddr abits] in *.
      - apply of_int_render; exact Ha.
      - unfold of_int. destruct (l_addr r <? 2 ^ 32) eqn:E; [reflexivity | apply N.ltb_ge in E; lia]. }
    rewrite HA. reflexivity.
Qed.

Lemma lu_nlri_roundtrip v6 rs : Forall (wf_lroute v6) rs ->
  exists b, construct_lu v6 false rs = Ok b /\ (rs <> [] -> b <> []) /\
            forall fuel, (length b < fuel)%nat -> parse_lu v6 fuel b = Ok (map (expect_plroute v6) rs).
Proof.
  induction rs as [|r rs IH]; intros Hw.
  - exists []. split; [reflexivity|]. split; [congruence|]. intros [|f] Hf; [cbn in Hf; lia | reflexivity].
  - inversion Hw as [|? ? Hr Hrs]; subst.
    destruct (IH Hrs) as (bt & Hct & _ & Hpt).
    destruct (lroute_roundtrip v6 r Hr) as (b & Hc & Hne & Hp).
    exists (b ++ bt). split; [cbn [construct_lu]; rewrite Hc, Hct; reflexivity|].
    split; [intros _ E; apply app_eq_nil in E; destruct E; contradiction|].
    intros [|f] Hf; [lia|]. rewrite Hp. rewrite Hpt; [reflexivity|].
    rewrite app_length in Hf. destruct b; [contradiction|]. cbn [length] in Hf. lia.
Qed.

(** ---- MP_REACH_NLRI (1|2, 4) ---- *)
Theorem reachlu_behaviour_x v6 nh6 ip rs :
  ip < 2 ^ abits nh6 -> rs <> [] -> Forall (wf_lroute v6) rs ->
  forall nlri, construct_lu v6 false rs = Ok nlri -> len nlri <= 65000 ->
  exists v, reachlu_construct_x v6 nh6 ip rs =
              Ok (Some ([c_ATTR_MpReachNLRI_FLAG; c_ATTR_MpReachNLRI_ID] ++ be 2 (len v) ++ v)) /\
            reachlu_parse v6 v = Ok (Some (vaddr nh6 ip), map (expect_plroute v6) rs).
Proof.
  intros Hip Hne Hw nlri Hc Hlen.
  destruct (lu_nlri_roundtrip v6 rs Hw) as (b & Hc' & Hnn & Hp).
  rewrite Hc in Hc'. injection Hc' as <-.
  set (nh := be (abytes nh6) ip).
  assert (Hnhl : length nh = abytes nh6) by apply length_be.
  set (v := be 2 (vpn_afi v6) ++ [SAFI_MPLS_LABEL] ++ [len nh] ++ nh ++ [0] ++ nlri).
  exists v. split.
  - unfold reachlu_construct_x. rewrite Hc. cbn [bind].
    assert (Hnz : nlri <> []) by (apply Hnn, Hne).
    assert (G : forall A (f g : A), match nlri with [] => f | _ :: _ => g end = g)
      by (intros; destruct nlri; [congruence | reflexivity]).
    rewrite G.
    assert (G2 : forall x, x = nh ->
      bind (reach_attr (vpn_afi v6) SAFI_MPLS_LABEL (len x) x nlri) (fun b => Ok (Some b)) =
      Ok (Some ([c_ATTR_MpReachNLRI_FLAG; c_ATTR_MpReachNLRI_ID] ++ be 2 (len v) ++ v)));
    [|apply G2; unfold nh; destruct nh6; reflexivity].
    intros x ->. unfold reach_attr, reach_value.
    destruct (255 <? len nh) eqn:E2; [unfold len in E2; rewrite Hnhl in E2; destruct nh6; discriminate|].
    cbn [bind]. fold v. unfold attr.
    destruct (65535 <? len v) eqn:E3; [|reflexivity].
    exfalso. apply N.ltb_lt in E3. unfold v in E3. rewrite !len_app, len_be in E3.
    unfold len in *. rewrite Hnhl in E3. cbn [length] in E3. destruct nh6; cbn [abytes] in E3; lia.
  - unfold reachlu_parse, v.
    assert (Hbe : be 2 (vpn_afi v6) = [0; vpn_afi v6]) by (destruct v6; reflexivity).
    rewrite Hbe. cbn [app reach_split bind].
    replace (0 * 256 + vpn_afi v6 =? vpn_afi v6) with true by (destruct v6; reflexivity).
    change (SAFI_MPLS_LABEL =? SAFI_MPLS_LABEL) with true. cbn [andb].
    assert (Ht : take (N.to_nat (len nh)) (nh ++ 0 :: nlri) = nh)
      by (unfold take; apply firstn_app_len; unfold len; lia).
    assert (Hd : drop (1 + N.to_nat (len nh)) (nh ++ 0 :: nlri) = nlri).
    { replace (nh ++ 0 :: nlri) with ((nh ++ [0]) ++ nlri) by (rewrite <- app_assoc; reflexivity).
      unfold drop. apply skipn_app_len. rewrite app_length. unfold len. cbn [length]. lia. }
    rewrite Ht, Hd.
    assert (HA : addr_of_bytes nh = Ok (vaddr nh6 ip)).
    { unfold nh, addr_of_bytes. rewrite int_of_hex_nonempty by (rewrite length_be; destruct nh6; cbn; lia).
      cbn [bind]. rewrite unbe_be by (destruct nh6; exact Hip).
      destruct nh6; cbn [vaddr abits] in *.
      - apply of_int_render; exact Hip.
      - unfold of_int. destruct (ip <? 2 ^ 32) eqn:E; [reflexivity | apply N.ltb_ge in E; lia]. }
    assert (G : match nh with [] => Ok None | _ :: _ => bind (addr_of_bytes nh) (fun a => Ok (Some a)) end
                = Ok (Some (vaddr nh6 ip))).
    { rewrite HA. destruct nh eqn:En; [cbn in Hnhl; destruct nh6; discriminate | reflexivity]. }
    rewrite G. cbn [bind]. unfold parse_lu_all. rewrite Hp by lia. reflexivity.
Qed.

Theorem reachlu_behaviour v6 ip rs :
  ip < 2 ^ abits v6 -> rs <> [] -> Forall (wf_lroute v6) rs ->
  forall nlri, construct_lu v6 false rs = Ok nlri -> len nlri <= 65000 ->
  exists v, reachlu_construct v6 ip rs =
              Ok (Some ([c_ATTR_MpReachNLRI_FLAG; c_ATTR_MpReachNLRI_ID] ++ be 2 (len v) ++ v)) /\
            reachlu_parse v6 v = Ok (Some (vaddr v6 ip), map (expect_plroute v6) rs).
Proof. exact (reachlu_behaviour_x v6 v6 ip rs). Qed.

Lemma construct_lu_total v6 rs : Forall (wf_lroute v6) rs -> exists nlri, construct_lu v6 false rs = Ok nlri.
Proof. intros Hw. destruct (lu_nlri_roundtrip v6 rs Hw) as (b & Hc & _). eauto. Qed.

Theorem reachlu_roundtrip_x : forall v6 nh6 ip rs,
  ip < 2 ^ abits nh6 -> (nh6 = true -> 2 ^ 32 <= ip) -> rs <> [] -> Forall (wf_lroute v6) rs ->
  Forall (fun r => v6 = true -> 2 ^ 32 <= l_addr r) rs ->
  forall nlri, construct_lu v6 false rs = Ok nlri -> len nlri <= 65000 ->
  exists v, reachlu_construct_x v6 nh6 ip rs =
              Ok (Some ([c_ATTR_MpReachNLRI_FLAG; c_ATTR_MpReachNLRI_ID] ++ be 2 (len v) ++ v)) /\
            reachlu_parse v6 v =
              Ok (Some (if nh6 then V6 ip else V4 ip),
                  map (fun r => (l_labels r, (if v6 then V6 (l_addr r) else V4 (l_addr r)), l_len r)) rs).
Proof.
  intros v6 nh6 ip rs Hip Hhi Hne Hw Hh nlri Hc Hlen.
  destruct (reachlu_behaviour_x v6 nh6 ip rs Hip Hne Hw nlri Hc Hlen) as (v & H1 & H2).
  exists v. split; [exact H1|]. rewrite H2. rewrite vaddr_high by exact Hhi.
  do 2 f_equal. apply map_ext_in. intros r Hr. unfold expect_plroute.
  rewrite vaddr_high; [reflexivity|]. rewrite Forall_forall in Hh. exact (Hh r Hr).
Qed.

Theorem reachlu_roundtrip : forall v6 ip rs,
  ip < 2 ^ abits v6 -> (v6 = true -> 2 ^ 32 <= ip) -> rs <> [] -> Forall (wf_lroute v6) rs ->
  Forall (fun r => v6 = true -> 2 ^ 32 <= l_addr r) rs ->
  forall nlri, construct_lu v6 false rs = Ok nlri -> len nlri <= 65000 ->
  exists v, reachlu_construct v6 ip rs =
              Ok (Some ([c_ATTR_MpReachNLRI_FLAG; c_ATTR_MpReachNLRI_ID] ++ be 2 (len v) ++ v)) /\
            reachlu_parse v6 v =
              Ok (Some (if v6 then V6 ip else V4 ip),
                  map (fun r => (l_labels r, (if v6 then V6 (l_addr r) else V4 (l_addr r)), l_len r)) rs).
Proof. intros v6. exact (reachlu_roundtrip_x v6 v6). Qed.

(** defects, on concrete inputs *)
Lemma refuted_lu4_label_zero :
  construct_lu false false [mk_lroute [0] 167837952 24] = Ok [48; 0; 0; 0; 10; 1; 1] /\
  parse_lu_all false [48; 0; 0; 0; 10; 1; 1] = Ok [([0; 40976], V4 0, 0)].
Proof. split; vm_compute; reflexivity. Qed.

Lemma refuted_lu4_unreach_not_parsed :
  unreachlu_construct false [mk_lroute [WITHDRAW_LABEL] 167772160 8] = Ok (Some [144; 15; 0; 8; 0; 1; 4; 32; 128; 0; 0; 10]) /\
  unreachlu_parse false [0; 1; 4; 32; 128; 0; 0; 10] = Ok None.
Proof. split; vm_compute; reflexivity. Qed.

Lemma refuted_lu6_unreach_not_constructed : forall rs, unreachlu_construct true rs = Ok None.
Proof. reflexivity. Qed.
