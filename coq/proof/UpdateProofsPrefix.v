(** C06, part 1: IPv4 prefix lists.  decode (encode ps) = ps for every list of prefixes of
    every length 0..32 whose host bits are zero (model/YPrefix4.v). *)
From YV Require Import lib.Base gen.Consts model.YMsg model.YPrefix4.
From Coq Require Import ZArith Lia ZifyBool ZifyNat ZifyN.
Ltac Zify.zify_post_hook ::= Z.to_euclidean_division_equations.

(** ---- list / octet helpers shared by the C06 proofs ---- *)
Lemma firstn_app_exact {A} (a b : list A) : firstn (length a) (a ++ b) = a.
Proof. induction a; cbn; congruence. Qed.
Lemma skipn_app_exact {A} (a b : list A) : skipn (length a) (a ++ b) = b.
Proof. induction a; cbn; congruence. Qed.
Lemma firstn_app_exact' {A} n (a b : list A) : n = length a -> firstn n (a ++ b) = a.
Proof. intros ->. apply firstn_app_exact. Qed.
Lemma skipn_app_exact' {A} n (a b : list A) : n = length a -> skipn n (a ++ b) = b.
Proof. intros ->. apply skipn_app_exact. Qed.

Lemma len_app2 a b : len (a ++ b) = len a + len b.
Proof. unfold len. rewrite app_length. lia. Qed.
Lemma len_cons x (a : bytes) : len (x :: a) = 1 + len a.
Proof. unfold len. cbn [length]. lia. Qed.
Lemma len_be k n : len (be k n) = N.of_nat k.
Proof. unfold len. rewrite length_be. reflexivity. Qed.

Lemma be4_eq a : be 4 a = [a / 16777216 mod 256; a / 65536 mod 256; a / 256 mod 256; a mod 256].
Proof.
  unfold be. change (256 ^ N.of_nat 3) with 16777216. change (256 ^ N.of_nat 2) with 65536.
  change (256 ^ N.of_nat 1) with 256. change (256 ^ N.of_nat 0) with 1. rewrite N.div_1_r. reflexivity.
Qed.
Lemma be2_eq a : be 2 a = [a / 256 mod 256; a mod 256].
Proof.
  unfold be. change (256 ^ N.of_nat 1) with 256. change (256 ^ N.of_nat 0) with 1.
  rewrite N.div_1_r. reflexivity.
Qed.
Lemma unbe4 a b c d : unbe [a; b; c; d] = ((a * 256 + b) * 256 + c) * 256 + d.
Proof. unfold unbe. cbn [unbe_acc]. lia. Qed.
Lemma unbe2 a b : unbe [a; b] = a * 256 + b.
Proof. unfold unbe. cbn [unbe_acc]. lia. Qed.
Lemma unbe_be4 a : a < 4294967296 -> unbe (be 4 a) = a.
Proof. intros H. apply unbe_be. exact H. Qed.
Lemma unbe_be2 a : a < 65536 -> unbe (be 2 a) = a.
Proof. intros H. apply unbe_be. exact H. Qed.

(** ---- the generic loop ---- *)
Lemma walk_nil {A} (step : bytes -> res (A * bytes)) fuel : walk step fuel [] = Ok [].
Proof. destruct fuel; reflexivity. Qed.

Lemma walk_step_ok {A} (step : bytes -> res (A * bytes)) fuel d x rest l :
  d <> [] -> step d = Ok (x, rest) -> walk step fuel rest = Ok l ->
  walk step (S fuel) d = Ok (x :: l).
Proof.
  intros Hd Hs Hw. destruct d as [|b d]; [congruence|].
  cbn [walk]. rewrite Hs, Hw. reflexivity.
Qed.

Lemma walk_concat {A} (step : bytes -> res (A * bytes)) (enc : A -> bytes) (P : A -> Prop) :
  (forall x rest, P x -> step (enc x ++ rest) = Ok (x, rest)) ->
  (forall x, P x -> enc x <> []) ->
  forall xs, Forall P xs -> forall fuel, (length (concat (map enc xs)) <= fuel)%nat ->
  walk step fuel (concat (map enc xs)) = Ok xs.
Proof.
  intros Hstep Hne xs HP. induction HP as [|x xs Hx HP IH]; intros fuel Hf.
  - apply walk_nil.
  - cbn [map concat] in *. rewrite app_length in Hf.
    assert (Hl : (1 <= length (enc x))%nat).
    { specialize (Hne x Hx). destruct (enc x); [congruence | cbn; lia]. }
    destruct fuel as [|fuel]; [lia|].
    eapply walk_step_ok.
    + specialize (Hne x Hx). destruct (enc x); [congruence | discriminate].
    + apply Hstep; exact Hx.
    + apply IH. lia.
Qed.

(** ---- one prefix ---- *)
(** the stated domain: length at most 32, a 32-bit address, host bits zero *)
Definition wf_pfx (p : pfx) : Prop :=
  snd p <= 32 /\ fst p < 4294967296 /\ fst p mod 2 ^ (32 - snd p) = 0.

Lemma le32_cases l : l <= 32 ->
  In l [0;1;2;3;4;5;6;7;8;9;10;11;12;13;14;15;16;17;18;19;20;21;22;23;24;25;26;27;28;29;30;31;32].
Proof. intros H. cbn [In]. lia. Qed.

(** what one loop iteration computes from the length octet and the address octets *)
Definition dec_addr (l : N) (xs : bytes) : option N :=
  match (if 0 <? l mod 8 then mask_last (l mod 8) xs else Some xs) with
  | None => None
  | Some pd => Some (unbe (take 4 (pd ++ [0; 0; 0; 0])))
  end.

Ltac prefix_case Hm :=
  match type of Hm with
    context [2 ^ ?e] => let c := eval vm_compute in (2 ^ e) in change (2 ^ e) with c in Hm
  end;
  cbn; f_equal; lia.

(** octet truncation, zero padding and trailing-bit mask, for all 33 lengths, address symbolic *)
Lemma dec_addr_enc a l : wf_pfx (a, l) -> dec_addr l (take (v4_octets l) (be 4 a)) = Some a.
Proof.
  intros (Hl & Ha & Hm). cbn [fst snd] in *. rewrite be4_eq.
  remember (a / 16777216 mod 256) as b3 eqn:E3.
  remember (a / 65536 mod 256) as b2 eqn:E2.
  remember (a / 256 mod 256) as b1 eqn:E1.
  remember (a mod 256) as b0 eqn:E0.
  apply le32_cases in Hl. cbn [In] in Hl.
  repeat (destruct Hl as [<- | Hl]; [ prefix_case Hm | ]).
  destruct Hl.
Qed.

Lemma v4_octets_ceil l : l <= 32 ->
  v4_octets l = N.to_nat (l / 8 + (if 0 <? l mod 8 then 1 else 0)).
Proof.
  intros Hl. apply le32_cases in Hl. cbn [In] in Hl.
  repeat (destruct Hl as [<- | Hl]; [ vm_compute; reflexivity | ]).
  destruct Hl.
Qed.

Lemma v4_octets_le4 l : (v4_octets l <= 4)%nat.
Proof.
  unfold v4_octets.
  repeat match goal with |- context [if ?c then _ else _] => destruct c end; lia.
Qed.

Lemma length_enc_octets a l : length (take (v4_octets l) (be 4 a)) = v4_octets l.
Proof.
  unfold take. rewrite firstn_length, length_be. pose proof (v4_octets_le4 l). lia.
Qed.

(** shape of one iteration on  length octet :: exactly the announced octets ++ rest *)
Lemma parse_one_shape l xs rest :
  l <= 32 -> length xs = N.to_nat (l / 8 + (if 0 <? l mod 8 then 1 else 0)) ->
  parse_one (l :: xs ++ rest) =
  match dec_addr l xs with None => PyExc | Some a => Ok ((a, l), rest) end.
Proof.
  intros Hl Hx. unfold parse_one, dec_addr.
  destruct (32 <? l) eqn:E; [lia|]. clear E.
  set (ol := N.to_nat (l / 8 + (if 0 <? l mod 8 then 1 else 0))) in *.
  assert (Hs : slice 1 (ol + 1) (l :: xs ++ rest) = xs).
  { unfold slice. replace (ol + 1 - 1)%nat with ol by lia. cbn [skipn].
    apply firstn_app_exact'. lia. }
  assert (Hd : drop (ol + 1) (l :: xs ++ rest) = rest).
  { unfold drop. replace (ol + 1)%nat with (S ol) by lia. cbn [skipn].
    apply skipn_app_exact'. lia. }
  rewrite Hs, Hd.
  destruct (0 <? l mod 8); [destruct (mask_last (l mod 8) xs)|]; reflexivity.
Qed.

Lemma parse_one_enc p rest : wf_pfx p -> parse_one (enc_prefix p ++ rest) = Ok (p, rest).
Proof.
  destruct p as [a l]. intros H. pose proof H as (Hl & _ & _). cbn [fst snd] in Hl.
  unfold enc_prefix. cbn [fst snd]. rewrite <- app_comm_cons.
  rewrite parse_one_shape.
  - rewrite dec_addr_enc by exact H. reflexivity.
  - exact Hl.
  - rewrite length_enc_octets. apply v4_octets_ceil. exact Hl.
Qed.

Lemma enc_prefix_nonempty p : enc_prefix p <> [].
Proof. unfold enc_prefix. discriminate. Qed.

Lemma wf_pfx_ok p : wf_pfx p -> pfx_ok p = true.
Proof. intros (Hl & Ha & _). unfold pfx_ok. lia. Qed.

(** ---- lists ---- *)
Lemma parse_prefix_list_enc ps :
  Forall wf_pfx ps -> parse_prefix_list (concat (map enc_prefix ps)) = Ok ps.
Proof.
  intros H. unfold parse_prefix_list.
  apply (walk_concat parse_one enc_prefix wf_pfx).
  - intros x rest Hx. apply parse_one_enc. exact Hx.
  - intros x _. apply enc_prefix_nonempty.
  - exact H.
  - lia.
Qed.

Lemma construct_prefix_v4_ok ps :
  Forall wf_pfx ps -> construct_prefix_v4 ps = Ok (concat (map enc_prefix ps)).
Proof.
  intros H. unfold construct_prefix_v4.
  replace (forallb pfx_ok ps) with true; [reflexivity|].
  symmetry. apply forallb_forall. intros p Hp.
  apply wf_pfx_ok. rewrite Forall_forall in H. auto.
Qed.

Lemma prefix_roundtrip ps :
  Forall wf_pfx ps ->
  exists b, construct_prefix_v4 ps = Ok b /\ b = concat (map enc_prefix ps) /\ parse_prefix_list b = Ok ps.
Proof.
  intros H. eexists. split; [apply construct_prefix_v4_ok; exact H|]. split; [reflexivity|].
  apply parse_prefix_list_enc. exact H.
Qed.

(** ---- add-path variant ---- *)
Definition wf_apfx (p : apfx) : Prop := fst p < 4294967296 /\ wf_pfx (snd p).

Lemma parse_one_ap_enc p rest : wf_apfx p -> parse_one_ap (enc_aprefix p ++ rest) = Ok (p, rest).
Proof.
  destruct p as [i q]. intros (Hi & Hq). cbn [fst snd] in *.
  unfold parse_one_ap, enc_aprefix. cbn [fst snd]. rewrite <- app_assoc.
  assert (Ht : take 4 (be 4 i ++ enc_prefix q ++ rest) = be 4 i).
  { unfold take. apply firstn_app_exact'. rewrite length_be. reflexivity. }
  assert (Hd : drop 4 (be 4 i ++ enc_prefix q ++ rest) = enc_prefix q ++ rest).
  { unfold drop. apply skipn_app_exact'. rewrite length_be. reflexivity. }
  rewrite Ht, Hd, length_be. cbn [Nat.eqb].
  rewrite parse_one_enc by exact Hq. rewrite unbe_be4 by exact Hi. reflexivity.
Qed.

Lemma parse_prefix_list_ap_enc ps :
  Forall wf_apfx ps -> parse_prefix_list_ap (concat (map enc_aprefix ps)) = Ok ps.
Proof.
  intros H. unfold parse_prefix_list_ap.
  apply (walk_concat parse_one_ap enc_aprefix wf_apfx).
  - intros x rest Hx. apply parse_one_ap_enc. exact Hx.
  - intros x _. unfold enc_aprefix. rewrite be4_eq. discriminate.
  - exact H.
  - lia.
Qed.

Lemma construct_prefix_v4_ap_ok ps :
  Forall wf_apfx ps -> construct_prefix_v4_ap ps = Ok (concat (map enc_aprefix ps)).
Proof.
  intros H. unfold construct_prefix_v4_ap.
  match goal with |- (if ?c then _ else _) = _ => replace c with true; [reflexivity|] end.
  symmetry. apply forallb_forall. intros p Hp.
  rewrite Forall_forall in H. destruct (H p Hp) as (Hi & Hq).
  rewrite (wf_pfx_ok _ Hq). lia.
Qed.
