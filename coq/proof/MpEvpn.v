(** C07, EVPN (model/YEvpn.v): MAC text, ESI types 0..5, route types 1..4, the NLRI list and the
    MP_REACH / MP_UNREACH (25, 70) attributes decode to themselves, for all in-range values.
    Guards are boolean predicates ([canon_macb], [wf_esib], [wf_routeb], ...). *)
From YV Require Import lib.Base lib.Dec gen.Consts model.YMp model.YPrefix6 model.YLabel model.YEvpn
  proof.MpBytesLemmas proof.MpPrefix6Proofs proof.MpLabelProofs proof.MpLuProofs.
From Coq Require Import ZArith ZifyBool ZifyNat ZifyN.
Ltac Zify.zify_post_hook ::= Z.to_euclidean_division_equations.
Open Scope N_scope.

(** * octet strings of a known length as explicit lists (slices then compute) *)
Ltac explode b H :=
  repeat (destruct b as [|? b]; [cbn in H; discriminate H | cbn [length] in H; apply eq_add_S in H]);
  apply length_zero_iff_nil in H; subst b.

(** * big-endian: [be] after [unbe] *)
Lemma unbe_acc_split r : forall acc, unbe_acc acc r = acc * 256 ^ N.of_nat (length r) + unbe r.
Proof.
  induction r as [|x r IH]; intros acc.
  - cbn. lia.
  - unfold unbe. cbn [unbe_acc length]. rewrite (IH (acc * 256 + x)), (IH (0 * 256 + x)), pow256_S. lia.
Qed.

Lemma be_unbe_acc b : wf_bytes b -> forall acc, be (length b) (unbe_acc acc b) = b.
Proof.
  induction b as [|x r IH]; intros Hw acc; [reflexivity|].
  inversion Hw as [|? ? Hx Hr]; subst.
  cbn [length be unbe_acc]. rewrite (IH Hr). f_equal.
  rewrite unbe_acc_split.
  pose proof (unbe_lt r Hr) as Hu. unfold len in Hu.
  set (p := 256 ^ N.of_nat (length r)) in *.
  assert (Hp : p <> 0) by apply pow256_pos.
  rewrite N.div_add_l by exact Hp. rewrite (N.div_small (unbe r) p Hu), N.add_0_r.
  replace (acc * 256 + x) with (x + acc * 256) by lia. rewrite N.mod_add by discriminate. apply N.mod_small. exact Hx.
Qed.

Lemma be_unbe b : wf_bytes b -> be (length b) (unbe b) = b.
Proof. intros H. apply be_unbe_acc. exact H. Qed.

(** * pk / unpk *)
Lemma pk_ok k n : n < 256 ^ N.of_nat k -> pk k n = Ok (be k n).
Proof. intros H. unfold pk. destruct (n <? 256 ^ N.of_nat k) eqn:E; [reflexivity | apply N.ltb_ge in E; lia]. Qed.

Lemma unpk_be k n : n < 256 ^ N.of_nat k -> unpk k (be k n) = Ok n.
Proof. intros H. unfold unpk. rewrite length_be, Nat.eqb_refl, unbe_be by exact H. reflexivity. Qed.

Lemma int_of_hex_be k n : (0 < k)%nat -> n < 256 ^ N.of_nat k -> int_of_hex (be k n) = Ok n.
Proof. intros Hk H. rewrite int_of_hex_nonempty by (rewrite length_be; exact Hk). rewrite unbe_be by exact H. reflexivity. Qed.

(** * MAC text *)

(** the text is accepted by construct_mac and is the text the decoder prints for the six octets *)
Definition octet_zb (z : Z) : bool := ((0 <=? z) && (z <=? 255))%Z.
Definition canon_macb (s : str) : bool :=
  match parse_mac_parts s with
  | Some zs => Nat.eqb (length zs) 6 && forallb octet_zb zs && str_eqb s (show_mac (map Z.to_N zs))
  | None => false
  end.

Lemma map_opt_length {A B} (f : A -> option B) l r : map_opt f l = Some r -> length l = length r.
Proof.
  revert r; induction l as [|a l IH]; cbn [map_opt]; intros r H.
  - injection H as <-. reflexivity.
  - destruct (f a); [|discriminate]. destruct (map_opt f l) eqn:E; [|discriminate].
    injection H as <-. cbn [length]. f_equal. apply IH. reflexivity.
Qed.

Lemma pack_octets_ok zs : forallb octet_zb zs = true ->
  pack_octets zs = Ok (map Z.to_N zs) /\ wf_bytes (map Z.to_N zs).
Proof.
  induction zs as [|z r IH]; cbn [forallb pack_octets map]; intros H.
  - split; [reflexivity | constructor].
  - apply andb_prop in H. destruct H as [Hz Hr]. destruct (IH Hr) as [E W].
    unfold octet_zb in Hz. rewrite Hz, E. cbn [bind]. split; [reflexivity|].
    constructor; [lia | exact W].
Qed.

(** every six octets have a canonical text ... *)
Lemma canon_mac_show o : length o = 6%nat -> wf_bytes o -> canon_macb (show_mac o) = true.
Proof.
  intros Hl Hw. unfold canon_macb.
  rewrite parse_show_mac by (try exact Hw; intros ->; discriminate Hl).
  rewrite map_length, Hl. cbn [Nat.eqb andb].
  assert (Hid : map Z.to_N (map Z.of_N o) = o).
  { rewrite map_map. erewrite map_ext; [apply map_id|]. intros a. apply N2Z.id. }
  rewrite Hid, str_eqb_refl, andb_true_r.
  apply forallb_forall. intros z Hz. apply in_map_iff in Hz. destruct Hz as (x & <- & Hx).
  unfold wf_bytes in Hw. rewrite Forall_forall in Hw. specialize (Hw x Hx). unfold octet_zb. lia.
Qed.

(** ... and a canonical text is the text of six octets *)
Lemma canon_mac_inv s : canon_macb s = true ->
  exists o, length o = 6%nat /\ wf_bytes o /\ s = show_mac o /\ construct_mac s = Ok o.
Proof.
  unfold canon_macb. destruct (parse_mac_parts s) as [zs|] eqn:E; [|discriminate].
  intros H. apply andb_prop in H. destruct H as [H Hs]. apply andb_prop in H. destruct H as [Hl Hz].
  apply Nat.eqb_eq in Hl. apply str_eqb_eq in Hs.
  destruct (pack_octets_ok zs Hz) as [Hp Hw].
  exists (map Z.to_N zs). split; [rewrite map_length; exact Hl|]. split; [exact Hw|]. split; [exact Hs|].
  unfold construct_mac. unfold parse_mac_parts in E.
  rewrite (map_opt_length _ _ _ E), Hl. cbn [Nat.eqb negb].
  unfold parse_mac_parts. rewrite E. exact Hp.
Qed.

Lemma parse_mac_six o : length o = 6%nat -> wf_bytes o -> parse_mac o = Ok (show_mac o).
Proof.
  intros Hl Hw. unfold parse_mac. rewrite int_of_hex_nonempty by lia. cbn [bind].
  pose proof (unbe_lt o Hw) as Hu. unfold len in Hu. rewrite Hl in Hu.
  change (256 ^ N.of_nat 6) with (2 ^ 48) in Hu.
  destruct (unbe o <? 2 ^ 48) eqn:E; [|apply N.ltb_ge in E; lia].
  rewrite <- Hl at 1. rewrite be_unbe by exact Hw. reflexivity.
Qed.

Lemma mac_roundtrip s : canon_macb s = true ->
  exists o, construct_mac s = Ok o /\ length o = 6%nat /\ wf_bytes o /\ parse_mac o = Ok s.
Proof.
  intros H. destruct (canon_mac_inv s H) as (o & Hl & Hw & Hs & Hc).
  exists o. repeat split; try assumption. rewrite Hs. apply parse_mac_six; assumption.
Qed.

(** any accepted text decodes to the canonical text of the same six octets *)
Lemma mac_behaviour s o : construct_mac s = Ok o ->
  length o = 6%nat /\ wf_bytes o /\ parse_mac o = Ok (show_mac o) /\ canon_macb (show_mac o) = true.
Proof.
  unfold construct_mac. destruct (Nat.eqb (length (split_on 45 s)) 6) eqn:El; [|discriminate].
  cbn [negb]. destruct (parse_mac_parts s) as [zs|] eqn:E; [|discriminate].
  intros Hp. apply Nat.eqb_eq in El. unfold parse_mac_parts in E.
  rewrite (map_opt_length _ _ _ E) in El.
  assert (G : forall zs o, pack_octets zs = Ok o -> length o = length zs /\ wf_bytes o).
  { clear. induction zs as [|z r IH]; cbn [pack_octets]; intros o H.
    - injection H as <-. split; [reflexivity | constructor].
    - destruct ((0 <=? z)%Z && (z <=? 255)%Z) eqn:Ez; [|discriminate].
      destruct (pack_octets r) as [t| |] eqn:Er; cbn [bind] in H; try discriminate.
      injection H as <-. destruct (IH t eq_refl) as [L W]. cbn [length]. split; [congruence|].
      constructor; [lia | exact W]. }
  destruct (G zs o Hp) as [L W]. rewrite El in L.
  repeat split; [exact L | exact W | apply parse_mac_six; assumption | apply canon_mac_show; assumption].
Qed.

(** * Ethernet segment identifier *)
Definition wf_esib (e : esi) : bool :=
  match e with
  | Esi0 v => v <? 2 ^ 72
  | Esi1 m k | Esi2 m k => canon_macb m && (k <=? 65535)
  | Esi3 m l => canon_macb m && (l <=? 16777215)
  | Esi4 a l | Esi5 a l => (a <? 2 ^ 32) && (l <? 2 ^ 32)
  | EsiOther _ => false
  end.

Lemma hex_digits_le v : v < 2 ^ 72 -> hex_digits v <= 18.
Proof.
  unfold hex_digits. destruct (v =? 0) eqn:E; [lia|]. intros H.
  assert (N.log2 v < 72) by (apply N.log2_lt_pow2; lia). lia.
Qed.

(** closed comparisons (type codes against the constants of constants.py) *)
Ltac closed_eqb :=
  repeat match goal with
         | |- context [?a =? ?b] =>
             let v := eval vm_compute in (a =? b) in
             lazymatch v with
             | true => change (a =? b) with true
             | false => change (a =? b) with false
             end
         end.
Ltac slices := cbn [app slice take drop firstn skipn Nat.sub Nat.add].

Lemma esi_roundtrip e : wf_esib e = true ->
  exists b, construct_esi e = Ok b /\ length b = 10%nat /\ parse_esi b = Ok e.
Proof.
  destruct e as [v | m k | m k | m l | a l | a l | t]; cbn [wf_esib]; intros H; try discriminate.
  - (* type 0 *)
    assert (Hv : v < 2 ^ 72) by lia.
    assert (Hh : (if hex_digits v <? 18 then 18 else hex_digits v) = 18).
    { pose proof (hex_digits_le v Hv). destruct (hex_digits v <? 18) eqn:E; lia. }
    assert (Hr : (4722366482869645213696 <=? v) = false) by (apply N.leb_gt; exact Hv).
    exists ([0] ++ be 9 v). split; [cbn [construct_esi]; cbv zeta; rewrite Hr, Hh; reflexivity|].
    split; [rewrite app_length, length_be; reflexivity|].
    cbn [app parse_esi]. closed_eqb. slices.
    rewrite int_of_hex_be by (try exact Hv; lia). reflexivity.
  - (* type 1 *)
    apply andb_prop in H. destruct H as [Hm Hk].
    destruct (mac_roundtrip m Hm) as (o & Hc & Hl & Hw & Hp).
    assert (Hk' : k < 256 ^ N.of_nat 2) by (change (256 ^ N.of_nat 2) with 65536; lia).
    exists ([1] ++ o ++ be 2 k ++ [0]). split; [cbn [construct_esi]; rewrite Hc, (pk_ok 2 k Hk'); reflexivity|].
    split; [rewrite !app_length, length_be, Hl; reflexivity|].
    pose proof (length_be 2 k) as Hkb. remember (be 2 k) as kb eqn:Ekb.
    explode o Hl. explode kb Hkb.
    cbn [app parse_esi]. closed_eqb. slices. rewrite Hp. cbn [bind]. rewrite Ekb, unpk_be by exact Hk'. reflexivity.
  - (* type 2 *)
    apply andb_prop in H. destruct H as [Hm Hk].
    destruct (mac_roundtrip m Hm) as (o & Hc & Hl & Hw & Hp).
    assert (Hk' : k < 256 ^ N.of_nat 2) by (change (256 ^ N.of_nat 2) with 65536; lia).
    exists ([2] ++ o ++ be 2 k ++ [0]). split; [cbn [construct_esi]; rewrite Hc, (pk_ok 2 k Hk'); reflexivity|].
    split; [rewrite !app_length, length_be, Hl; reflexivity|].
    pose proof (length_be 2 k) as Hkb. remember (be 2 k) as kb eqn:Ekb.
    explode o Hl. explode kb Hkb.
    cbn [app parse_esi]. closed_eqb. slices. rewrite Hp. cbn [bind]. rewrite Ekb, unpk_be by exact Hk'. reflexivity.
  - (* type 3: 3-octet local discriminator *)
    apply andb_prop in H. destruct H as [Hm Hk].
    destruct (mac_roundtrip m Hm) as (o & Hc & Hl & Hw & Hp).
    assert (Hl4 : l < 256 ^ N.of_nat 4) by (change (256 ^ N.of_nat 4) with 4294967296; lia).
    assert (Hl3 : l < 256 ^ N.of_nat 3) by (change (256 ^ N.of_nat 3) with 16777216; lia).
    exists ([3] ++ o ++ be 3 l). split.
    { cbn [construct_esi]. rewrite Hc. cbn [bind].
      destruct (16777215 <? l) eqn:E; [apply N.ltb_lt in E; lia|].
      rewrite (pk_ok 4 l Hl4). reflexivity. }
    split; [rewrite !app_length, length_be, Hl; reflexivity|].
    pose proof (length_be 3 l) as Hkb. remember (be 3 l) as kb eqn:Ekb.
    explode o Hl. explode kb Hkb.
    cbn [app parse_esi]. closed_eqb. slices. rewrite Hp. cbn [bind].
    rewrite Ekb, int_of_hex_be by (try exact Hl3; lia). reflexivity.
  - (* type 4 *)
    assert (Ha : a < 256 ^ N.of_nat 4) by (change (256 ^ N.of_nat 4) with 4294967296; lia).
    assert (Hl : l < 256 ^ N.of_nat 4) by (change (256 ^ N.of_nat 4) with 4294967296; lia).
    exists ([4] ++ be 4 a ++ be 4 l ++ [0]). split; [cbn [construct_esi]; rewrite (pk_ok 4 a Ha), (pk_ok 4 l Hl); reflexivity|].
    split; [rewrite !app_length, !length_be; reflexivity|].
    pose proof (length_be 4 a) as Hab. remember (be 4 a) as ab eqn:Eab.
    pose proof (length_be 4 l) as Hlb. remember (be 4 l) as lb eqn:Elb.
    explode ab Hab. explode lb Hlb.
    cbn [app parse_esi]. closed_eqb. slices.
    rewrite Eab, Elb, int_of_hex_be by (try exact Ha; lia). cbn [bind]. rewrite unpk_be by exact Hl. reflexivity.
  - (* type 5 *)
    assert (Ha : a < 256 ^ N.of_nat 4) by (change (256 ^ N.of_nat 4) with 4294967296; lia).
    assert (Hl : l < 256 ^ N.of_nat 4) by (change (256 ^ N.of_nat 4) with 4294967296; lia).
    exists ([5] ++ be 4 a ++ be 4 l ++ [0]). split; [cbn [construct_esi]; rewrite (pk_ok 4 a Ha), (pk_ok 4 l Hl); reflexivity|].
    split; [rewrite !app_length, !length_be; reflexivity|].
    pose proof (length_be 4 a) as Hab. remember (be 4 a) as ab eqn:Eab.
    pose proof (length_be 4 l) as Hlb. remember (be 4 l) as lb eqn:Elb.
    explode ab Hab. explode lb Hlb.
    cbn [app parse_esi]. closed_eqb. slices.
    rewrite Eab, Elb, int_of_hex_be by (try exact Ha; lia). cbn [bind]. rewrite unpk_be by exact Hl. reflexivity.
Qed.

(** * label stacks at the end of a route: every stack of 20-bit labels, a last label 0 included *)
Definition wf_labelsb (ls : list N) : bool := forallb (fun l => l <? 2 ^ 20) ls.

Lemma labels_roundtrip ls : ls <> [] -> wf_labelsb ls = true ->
  exists b, construct_labels ls = Ok b /\ length b = (3 * length ls)%nat /\ parse_labels b = ls.
Proof.
  induction ls as [|l r IH]; [congruence|]. intros _ H.
  cbn [wf_labelsb forallb] in H. apply andb_prop in H. destruct H as [Hl Hr].
  destruct r as [|l2 r'].
  - destruct (l =? 0) eqn:E.
    + apply N.eqb_eq in E. subst l. exists [0; 0; 0]. repeat split; vm_compute; reflexivity.
    + assert (Hl' : 0 < l < 2 ^ 20) by lia.
      exists (be 3 (l * 16 + 1)). split; [apply construct_labels_single; exact Hl'|].
      split; [apply length_be|]. rewrite <- (app_nil_r (be 3 _)). apply parse_labels_single; exact Hl'.
  - destruct (IH ltac:(discriminate) Hr) as (br & Hc & Hlen & Hp).
    exists (be 3 (l * 16) ++ br). split.
    + change (construct_labels (l :: l2 :: r')) with
        (bind (pack24 (l * 16)) (fun b => bind (construct_labels (l2 :: r')) (fun br => Ok (b ++ br)))).
      unfold pack24. destruct (2 ^ 32 <=? l * 16) eqn:E; [apply N.leb_le in E; lia|].
      cbn [bind]. rewrite Hc. reflexivity.
    + split; [rewrite app_length, length_be, Hlen; cbn [length]; lia|].
      rewrite parse_labels_inner by lia. rewrite Hp. reflexivity.
Qed.

(** * IP addresses *)
Definition in_ipb (a : addr) : bool := match a with V4 n => n <? 2 ^ 32 | V6 n => n <? 2 ^ 128 end.
(** not an IPv6 address below 2^32 (those come back as IPv4: known finding) *)
Definition high_ipb (a : addr) : bool := match a with V4 _ => true | V6 n => 2 ^ 32 <=? n end.
(** str(netaddr.IPAddress(int)) of the packed address *)
Definition render_addr (a : addr) : addr := match a with V4 n => V4 n | V6 n => render n end.
Definition ip_octets (a : addr) : nat := match a with V4 _ => 4%nat | V6 _ => 16%nat end.
Definition ip_bits (a : addr) : N := match a with V4 _ => 32 | V6 _ => 128 end.

Lemma render_addr_high a : high_ipb a = true -> render_addr a = a.
Proof. destruct a as [n|n]; cbn [high_ipb render_addr]; intros H; [reflexivity | apply render_high; lia]. Qed.

Lemma construct_ip_ok a : in_ipb a = true ->
  exists ib, construct_ip a = Ok ib /\ length ib = ip_octets a /\ addr_of_bytes ib = Ok (render_addr a).
Proof.
  destruct a as [n|n]; cbn [in_ipb construct_ip ip_octets render_addr]; intros H.
  - assert (Hn : n < 256 ^ N.of_nat 4) by (change (256 ^ N.of_nat 4) with (2 ^ 32); lia).
    exists (be 4 n). split; [apply pk_ok; exact Hn|]. split; [apply length_be|].
    unfold addr_of_bytes. rewrite int_of_hex_be by (try exact Hn; lia). cbn [bind].
    unfold of_int. rewrite H. reflexivity.
  - assert (Hn : n < 256 ^ N.of_nat 16) by (change (256 ^ N.of_nat 16) with (2 ^ 128); lia).
    exists (be 16 n). split; [apply pk_ok; exact Hn|]. split; [apply length_be|].
    apply addr_of_be16. lia.
Qed.

Lemma construct_len_ip_ok a : in_ipb a = true ->
  exists ib, construct_len_ip a = Ok (ip_bits a :: ib) /\ length ib = ip_octets a /\
             addr_of_bytes ib = Ok (render_addr a).
Proof.
  intros H. destruct (construct_ip_ok a H) as (ib & Hc & Hl & Hp).
  exists ib. split; [|split; assumption].
  unfold construct_len_ip. rewrite Hc. cbn [bind]. unfold len. rewrite Hl.
  destruct a; reflexivity.
Qed.

Lemma parse_len_ip_cons o x v : parse_len_ip (S o) (x :: v) = parse_len_ip o v.
Proof. reflexivity. Qed.

Ltac closed_tonat :=
  repeat match goal with
         | |- context [N.to_nat ?e] =>
             let v := eval vm_compute in (N.to_nat e) in
             lazymatch v with
             | context [N.to_nat] => fail
             | _ => change (N.to_nat e) with v
             end
         end.
Ltac crunch := repeat (progress (slices; closed_eqb; closed_tonat; cbn [ord1 bind])).

(** * routes *)
Definition wf_rdb (r : rd) : bool :=
  match r with
  | RdAs asn an => ((asn <=? 65535) && (an <? 2 ^ 32)) || ((65535 <? asn) && (asn <? 2 ^ 32) && (an <=? 65535))
  | RdIp ip an => (ip <? 2 ^ 32) && (an <=? 65535)
  end.
Lemma wf_rdb_wf r : wf_rdb r = true <-> wf_rd r.
Proof. destruct r; cbn [wf_rdb wf_rd]; lia. Qed.

Definition wf_ipob (ip : option addr) : bool := match ip with Some a => in_ipb a | None => true end.
Definition high_ipob (ip : option addr) : bool := match ip with Some a => high_ipb a | None => true end.
Definition ipo_octets (ip : option addr) : nat := match ip with Some a => ip_octets a | None => 0%nat end.

(** the exact guard of each route type: fields in range, MAC text canonical, the originating
    router's address present (types 3, 4), at least one label (type 1), at most 255 octets *)
Definition wf_routeb (x : eroute) : bool :=
  match x with
  | EAutoDiscovery r e tag ls =>
      wf_rdb r && wf_esib e && (tag <? 2 ^ 32) && negb (Nat.eqb (length ls) 0) && wf_labelsb ls &&
      Nat.leb (22 + 3 * length ls) 255
  | EMacIp r e tag mac ip ls =>
      wf_rdb r && wf_esib e && (tag <? 2 ^ 32) && canon_macb mac && wf_ipob ip && wf_labelsb ls &&
      Nat.leb (30 + ipo_octets ip + 3 * length ls) 255
  | EMulticast r tag ip =>
      wf_rdb r && (tag <? 2 ^ 32) && match ip with Some a => in_ipb a | None => false end
  | ESegment r e ip =>
      wf_rdb r && wf_esib e && match ip with Some a => in_ipb a | None => false end
  | EUnknown _ => false
  end.
(** no IPv6 address below 2^32 in it *)
Definition high_routeb (x : eroute) : bool :=
  match x with
  | EMacIp _ _ _ _ ip _ | EMulticast _ _ ip | ESegment _ _ ip => high_ipob ip
  | _ => true
  end.

(** what the decoder returns for a route: [f] is applied to the address *)
Definition expect_with (f : addr -> addr) (x : eroute) : proute :=
  match x with
  | EAutoDiscovery r e tag ls => PAutoDiscovery (PRd r) e tag ls
  | EMacIp r e tag mac ip ls => PMacIp (PRd r) e tag mac (option_map f ip) ls
  | EMulticast r tag ip => PMulticast (PRd r) tag (option_map f ip)
  | ESegment r e ip => PSegment (PRd r) e (option_map f ip)
  | EUnknown t => PMulticast POther t None         (* not a value: excluded by every guard *)
  end.
(** the route itself *)
Definition same_route : eroute -> proute := expect_with (fun a => a).
(** the route with netaddr's rendering of the addresses *)
Definition rendered_route : eroute -> proute := expect_with render_addr.

Lemma rendered_high x : high_routeb x = true -> rendered_route x = same_route x.
Proof.
  destruct x as [r e tag ls | r e tag mac ip ls | r tag ip | r e ip | t]; cbn [high_routeb];
    intros H; try reflexivity; destruct ip as [a|]; try reflexivity; cbn [high_ipob] in H;
    unfold rendered_route, same_route, expect_with, option_map; rewrite render_addr_high by exact H; reflexivity.
Qed.

Lemma rd_ok r : wf_rdb r = true ->
  exists b, construct_rd r = Ok b /\ length b = 8%nat /\ parse_rd b = Ok (PRd r).
Proof. intros H. apply rd_roundtrip, wf_rdb_wf, H. Qed.

Lemma tag_ok tag : tag <? 2 ^ 32 = true -> pk 4 tag = Ok (be 4 tag) /\ unpk 4 (be 4 tag) = Ok tag.
Proof.
  intros H. assert (Ht : tag < 256 ^ N.of_nat 4) by (change (256 ^ N.of_nat 4) with (2 ^ 32); lia).
  split; [apply pk_ok | apply unpk_be]; exact Ht.
Qed.

Lemma autodiscovery_ok r e tag ls : wf_routeb (EAutoDiscovery r e tag ls) = true ->
  exists b, construct_route (EAutoDiscovery r e tag ls) = Ok b /\ b <> [] /\ (length b <= 255)%nat /\
            parse_route c_BGPNLRI_EVPN_ETHERNET_AUTO_DISCOVERY b = Ok (Some (PAutoDiscovery (PRd r) e tag ls)).
Proof.
  cbn [wf_routeb]. intros H.
  repeat (apply andb_prop in H; let H' := fresh "G" in destruct H as [H H']).
  destruct (rd_ok r H) as (rdb & Hc1 & Hl1 & Hp1).
  destruct (esi_roundtrip e G3) as (eb & Hc2 & Hl2 & Hp2).
  destruct (tag_ok tag G2) as (Hc3 & Hp3).
  assert (Hne : ls <> []) by (destruct ls; [discriminate G1 | discriminate]).
  destruct (labels_roundtrip ls Hne G0) as (lb & Hc4 & Hl4 & Hp4).
  exists (rdb ++ eb ++ be 4 tag ++ lb).
  split; [cbn [construct_route]; rewrite Hc1, Hc2, Hc3, Hc4; reflexivity|].
  pose proof (length_be 4 tag) as Hl3. remember (be 4 tag) as tb eqn:Etb.
  explode rdb Hl1. explode eb Hl2. explode tb Hl3.
  split; [discriminate|].
  split; [cbn [app length]; apply Nat.leb_le in G; lia|].
  unfold parse_route. closed_eqb. unfold parse_autodiscovery. crunch.
  rewrite Hp1. cbn [bind]. rewrite Hp2. cbn [bind]. rewrite Hp3. cbn [bind]. rewrite Hp4. reflexivity.
Qed.

Lemma multicast_ok r tag ip : wf_routeb (EMulticast r tag ip) = true ->
  exists b, construct_route (EMulticast r tag ip) = Ok b /\ b <> [] /\ (length b <= 255)%nat /\
            parse_route c_BGPNLRI_EVPN_INCLUSIVE_MULTICAST_ETHERNET_TAG b =
              Ok (Some (PMulticast (PRd r) tag (option_map render_addr ip))).
Proof.
  cbn [wf_routeb]. intros H. destruct ip as [a|]; [|rewrite andb_false_r in H; discriminate H].
  repeat (apply andb_prop in H; let H' := fresh "G" in destruct H as [H H']).
  destruct (rd_ok r H) as (rdb & Hc1 & Hl1 & Hp1).
  destruct (tag_ok tag G0) as (Hc3 & Hp3).
  destruct (construct_len_ip_ok a G) as (ib & Hc5 & Hl5 & Hp5).
  exists (rdb ++ be 4 tag ++ ip_bits a :: ib).
  split; [cbn [construct_route]; rewrite Hc1, Hc3, Hc5; reflexivity|].
  pose proof (length_be 4 tag) as Hl3. remember (be 4 tag) as tb eqn:Etb.
  explode rdb Hl1. explode tb Hl3.
  split; [discriminate|].
  cbn [option_map].
  destruct a as [av|av]; cbn [ip_octets ip_bits] in *; explode ib Hl5;
    (split; [cbn [app length]; lia|]);
    unfold parse_route; closed_eqb; unfold parse_multicast, parse_len_ip; crunch;
    rewrite Hp1; cbn [bind]; rewrite Hp3; cbn [bind]; crunch; rewrite Hp5; reflexivity.
Qed.

Lemma segment_ok r e ip : wf_routeb (ESegment r e ip) = true ->
  exists b, construct_route (ESegment r e ip) = Ok b /\ b <> [] /\ (length b <= 255)%nat /\
            parse_route c_BGPNLRI_EVPN_ETHERNET_SEGMENT b =
              Ok (Some (PSegment (PRd r) e (option_map render_addr ip))).
Proof.
  cbn [wf_routeb]. intros H. destruct ip as [a|]; [|rewrite andb_false_r in H; discriminate H].
  repeat (apply andb_prop in H; let H' := fresh "G" in destruct H as [H H']).
  destruct (rd_ok r H) as (rdb & Hc1 & Hl1 & Hp1).
  destruct (esi_roundtrip e G0) as (eb & Hc2 & Hl2 & Hp2).
  destruct (construct_len_ip_ok a G) as (ib & Hc5 & Hl5 & Hp5).
  exists (rdb ++ eb ++ ip_bits a :: ib).
  split; [cbn [construct_route]; rewrite Hc1, Hc2, Hc5; reflexivity|].
  explode rdb Hl1. explode eb Hl2.
  split; [discriminate|].
  cbn [option_map].
  destruct a as [av|av]; cbn [ip_octets ip_bits] in *; explode ib Hl5;
    (split; [cbn [app length]; lia|]);
    unfold parse_route; closed_eqb; unfold parse_segment, parse_len_ip; crunch;
    rewrite Hp1; cbn [bind]; rewrite Hp2; cbn [bind]; crunch; rewrite Hp5; reflexivity.
Qed.

Lemma opt_labels_ok ls : wf_labelsb ls = true ->
  exists lb, match ls with [] => Ok [] | _ => construct_labels ls end = Ok lb /\
             length lb = (3 * length ls)%nat /\ parse_labels lb = ls.
Proof.
  intros H. destruct ls as [|l r]; [exists []; repeat split; reflexivity|].
  apply labels_roundtrip; [discriminate | exact H].
Qed.

Lemma macip_ok r e tag mac ip ls : wf_routeb (EMacIp r e tag mac ip ls) = true ->
  exists b, construct_route (EMacIp r e tag mac ip ls) = Ok b /\ b <> [] /\ (length b <= 255)%nat /\
            parse_route c_BGPNLRI_EVPN_MAC_IP_ADVERTISEMENT b =
              Ok (Some (PMacIp (PRd r) e tag mac (option_map render_addr ip) ls)).
Proof.
  cbn [wf_routeb]. intros H.
  repeat (apply andb_prop in H; let H' := fresh "G" in destruct H as [H H']).
  destruct (rd_ok r H) as (rdb & Hc1 & Hl1 & Hp1).
  destruct (esi_roundtrip e G4) as (eb & Hc2 & Hl2 & Hp2).
  destruct (tag_ok tag G3) as (Hc3 & Hp3).
  destruct (mac_roundtrip mac G2) as (o & Hcm & Hlm & _ & Hpm).
  destruct (opt_labels_ok ls G0) as (lb & Hc6 & Hl6 & Hp6).
  apply Nat.leb_le in G.
  pose proof (length_be 4 tag) as Hl3.
  destruct ip as [a|]; cbn [wf_ipob ipo_octets option_map] in *.
  - destruct (construct_len_ip_ok a G1) as (ib & Hc5 & Hl5 & Hp5).
    exists (rdb ++ eb ++ be 4 tag ++ [48] ++ o ++ (ip_bits a :: ib) ++ lb).
    split.
    { cbn [construct_route]. rewrite Hc1, Hc2, Hc3, Hcm. cbn [bind]. unfold len at 1. rewrite Hlm.
      change (pk 1 (N.of_nat 6 * 8)) with (Ok (A := bytes) [48]). cbn [bind]. rewrite Hc5. cbn [bind].
      rewrite Hc6. reflexivity. }
    remember (be 4 tag) as tb eqn:Etb.
    explode rdb Hl1. explode eb Hl2. explode tb Hl3. explode o Hlm.
    split; [discriminate|].
    destruct a as [av|av]; cbn [ip_octets ip_bits] in *; explode ib Hl5;
      (split; [cbn [app length]; lia|]);
      unfold parse_route; closed_eqb; unfold parse_macip, parse_len_ip; crunch;
      rewrite Hp1; cbn [bind]; rewrite Hp2; cbn [bind]; rewrite Hp3; cbn [bind]; rewrite Hpm; cbn [bind];
      crunch; rewrite Hp5; cbn [bind]; crunch; rewrite Hp6; reflexivity.
  - exists (rdb ++ eb ++ be 4 tag ++ [48] ++ o ++ [0] ++ lb).
    split.
    { cbn [construct_route]. rewrite Hc1, Hc2, Hc3, Hcm. cbn [bind]. unfold len at 1. rewrite Hlm.
      change (pk 1 (N.of_nat 6 * 8)) with (Ok (A := bytes) [48]). cbn [bind].
      rewrite Hc6. reflexivity. }
    remember (be 4 tag) as tb eqn:Etb.
    explode rdb Hl1. explode eb Hl2. explode tb Hl3. explode o Hlm.
    split; [discriminate|].
    split; [cbn [app length]; lia|].
    unfold parse_route; closed_eqb; unfold parse_macip, parse_len_ip; crunch.
    rewrite Hp1; cbn [bind]; rewrite Hp2; cbn [bind]; rewrite Hp3; cbn [bind]; rewrite Hpm; cbn [bind].
    crunch. rewrite Hp6. reflexivity.
Qed.

(** every in-range route of types 1..4 *)
Lemma route_behaviour x : wf_routeb x = true ->
  exists b, construct_route x = Ok b /\ b <> [] /\ (length b <= 255)%nat /\
            parse_route (route_type x) b = Ok (Some (rendered_route x)).
Proof.
  destruct x as [r e tag ls | r e tag mac ip ls | r tag ip | r e ip | t]; intros H.
  - apply autodiscovery_ok, H.
  - apply macip_ok, H.
  - apply multicast_ok, H.
  - apply segment_ok, H.
  - discriminate H.
Qed.

Lemma route_roundtrip x : wf_routeb x = true -> high_routeb x = true ->
  exists b, construct_route x = Ok b /\ parse_route (route_type x) b = Ok (Some (same_route x)).
Proof.
  intros H Hh. destruct (route_behaviour x H) as (b & Hc & _ & _ & Hp).
  exists b. split; [exact Hc|]. rewrite Hp, rendered_high by exact Hh. reflexivity.
Qed.

(** * the NLRI list (EVPN.construct / EVPN.parse) *)
Lemma be1 n : n < 256 -> be 1 n = [n].
Proof. intros H. cbn [be]. change (256 ^ N.of_nat 0) with 1. rewrite N.div_1_r, N.mod_small by exact H. reflexivity. Qed.

Lemma route_type_small x : wf_routeb x = true -> pk 1 (route_type x) = Ok [route_type x].
Proof. destruct x; intros H; try reflexivity. discriminate H. Qed.

Lemma evpn_nlri_behaviour rs : forallb wf_routeb rs = true ->
  exists b, construct_evpn rs = Ok b /\ (rs <> [] -> b <> []) /\
            forall fuel, (length b < fuel)%nat -> parse_evpn fuel b = Ok (map rendered_route rs).
Proof.
  induction rs as [|x rs IH]; intros Hw.
  - exists []. split; [reflexivity|]. split; [congruence|]. intros [|f] Hf; [cbn in Hf; lia | reflexivity].
  - cbn [forallb] in Hw. apply andb_prop in Hw. destruct Hw as [Hx Hrs].
    destruct (IH Hrs) as (bt & Hct & _ & Hpt).
    destruct (route_behaviour x Hx) as (b & Hc & Hne & Hlen & Hp).
    assert (Hlb : pk 1 (len b) = Ok [len b]).
    { rewrite pk_ok by (change (256 ^ N.of_nat 1) with 256; unfold len; lia).
      rewrite be1 by (unfold len; lia). reflexivity. }
    exists (([route_type x] ++ [len b] ++ b) ++ bt). split.
    { cbn [construct_evpn]. rewrite Hc. cbn [bind].
      destruct b as [|b0 b']; [congruence|]. rewrite (route_type_small x Hx), Hlb. cbn [bind]. rewrite Hct. reflexivity. }
    split; [intros _; discriminate|].
    intros [|f] Hf; [lia|].
    assert (Hn : (N.to_nat (len b) + 2 = 2 + length b)%nat) by (unfold len; lia).
    cbn [app parse_evpn]. rewrite Hn.
    assert (Hs : slice 2 (2 + length b) (route_type x :: len b :: b ++ bt) = b).
    { change (route_type x :: len b :: b ++ bt) with ([route_type x; len b] ++ b ++ bt).
      apply slice_app_mid; reflexivity. }
    assert (Hd : drop (2 + length b) (route_type x :: len b :: b ++ bt) = bt).
    { change (route_type x :: len b :: b ++ bt) with (([route_type x; len b] ++ b) ++ bt).
      unfold drop. apply skipn_app_len. rewrite app_length. reflexivity. }
    rewrite Hs, Hd, Hp. cbn [bind].
    rewrite Hpt; [reflexivity|]. rewrite !app_length in Hf. cbn [length] in Hf. lia.
Qed.

Lemma construct_evpn_total rs : forallb wf_routeb rs = true -> exists nlri, construct_evpn rs = Ok nlri.
Proof. intros H. destruct (evpn_nlri_behaviour rs H) as (b & Hc & _). eauto. Qed.

Lemma map_rendered_high rs : forallb high_routeb rs = true -> map rendered_route rs = map same_route rs.
Proof.
  induction rs as [|x rs IH]; [reflexivity|]. cbn [forallb map]. intros H. apply andb_prop in H. destruct H as [Hx Hr].
  rewrite rendered_high, IH by assumption. reflexivity.
Qed.

(** * MP_REACH_NLRI (25, 70) *)
Theorem reachevpn_behaviour nh rs : in_ipb nh = true -> forallb wf_routeb rs = true ->
  forall nlri, construct_evpn rs = Ok nlri -> len nlri + N.of_nat (ip_octets nh) + 5 <= 65535 ->
  exists v, reachevpn_construct nh rs =
              Ok ([c_ATTR_MpReachNLRI_FLAG; c_ATTR_MpReachNLRI_ID] ++ be 2 (len v) ++ v) /\
            reachevpn_parse v = Ok (render_addr nh, map rendered_route rs).
Proof.
  intros Hnh Hw nlri Hc Hlen.
  destruct (evpn_nlri_behaviour rs Hw) as (b & Hc' & _ & Hp).
  rewrite Hc in Hc'. injection Hc' as <-.
  destruct (construct_ip_ok nh Hnh) as (nhb & Hcn & Hln & Hpn).
  set (v := be 2 AFI_L2VPN ++ [SAFI_EVPN] ++ [len nhb] ++ nhb ++ [0] ++ nlri).
  assert (Hlv : len v = len nlri + N.of_nat (ip_octets nh) + 5).
  { unfold v. rewrite !len_app, len_be. unfold len. rewrite Hln. cbn [length]. lia. }
  exists v. split.
  - unfold reachevpn_construct. rewrite Hcn, Hc. cbn [bind]. unfold reach_attr, reach_value.
    destruct (255 <? len nhb) eqn:E; [unfold len in E; rewrite Hln in E; destruct nh; discriminate E|].
    cbn [bind]. fold v. unfold attr.
    destruct (65535 <? len v) eqn:E3; [exfalso; lia | reflexivity].
  - unfold reachevpn_parse, v. change (be 2 AFI_L2VPN) with [0; 25]. cbn [app reach_split bind].
    closed_eqb. cbn [andb].
    assert (Ht : take (N.to_nat (len nhb)) (nhb ++ 0 :: nlri) = nhb)
      by (unfold take; apply firstn_app_len; unfold len; lia).
    assert (Hd : drop (1 + N.to_nat (len nhb)) (nhb ++ 0 :: nlri) = nlri).
    { change (nhb ++ 0 :: nlri) with (nhb ++ [0] ++ nlri). rewrite app_assoc.
      unfold drop. apply skipn_app_len. rewrite app_length. unfold len. cbn [length]. lia. }
    rewrite Ht, Hd, Hpn. cbn [bind]. unfold parse_evpn_all. rewrite Hp by lia. reflexivity.
Qed.

Theorem reachevpn_roundtrip nh rs : in_ipb nh = true -> high_ipb nh = true ->
  forallb wf_routeb rs = true -> forallb high_routeb rs = true ->
  forall nlri, construct_evpn rs = Ok nlri -> len nlri + N.of_nat (ip_octets nh) + 5 <= 65535 ->
  exists v, reachevpn_construct nh rs =
              Ok ([c_ATTR_MpReachNLRI_FLAG; c_ATTR_MpReachNLRI_ID] ++ be 2 (len v) ++ v) /\
            reachevpn_parse v = Ok (nh, map same_route rs).
Proof.
  intros Hnh Hhi Hw Hh nlri Hc Hlen.
  destruct (reachevpn_behaviour nh rs Hnh Hw nlri Hc Hlen) as (v & H1 & H2).
  exists v. split; [exact H1|]. rewrite H2, render_addr_high, map_rendered_high by assumption. reflexivity.
Qed.

(** * MP_UNREACH_NLRI (25, 70) *)
Theorem unreachevpn_behaviour rs : rs <> [] -> forallb wf_routeb rs = true ->
  forall nlri, construct_evpn rs = Ok nlri -> len nlri + 3 <= 65535 ->
  exists v, unreachevpn_construct rs =
              Ok (Some ([c_ATTR_MpUnReachNLRI_FLAG; c_ATTR_MpUnReachNLRI_ID] ++ be 2 (len v) ++ v)) /\
            unreachevpn_parse v = Ok (map rendered_route rs).
Proof.
  intros Hne Hw nlri Hc Hlen.
  destruct (evpn_nlri_behaviour rs Hw) as (b & Hc' & Hnn & Hp).
  rewrite Hc in Hc'. injection Hc' as <-.
  set (v := be 2 AFI_L2VPN ++ [SAFI_EVPN] ++ nlri).
  exists v. split.
  - unfold unreachevpn_construct. rewrite Hc. cbn [bind].
    assert (Hnz : nlri <> []) by (apply Hnn, Hne).
    destruct nlri as [|n0 nl]; [congruence|].
    unfold unreach_attr, attr. fold v.
    destruct (65535 <? len v) eqn:E3; [|reflexivity].
    exfalso. apply N.ltb_lt in E3. unfold v in E3. rewrite !len_app, len_be in E3. unfold len in *. cbn [length] in *. lia.
  - unfold unreachevpn_parse, v. change (be 2 AFI_L2VPN) with [0; 25]. cbn [app unreach_split bind].
    closed_eqb. cbn [andb]. unfold parse_evpn_all. apply Hp. lia.
Qed.

Theorem unreachevpn_roundtrip rs : rs <> [] -> forallb wf_routeb rs = true -> forallb high_routeb rs = true ->
  forall nlri, construct_evpn rs = Ok nlri -> len nlri + 3 <= 65535 ->
  exists v, unreachevpn_construct rs =
              Ok (Some ([c_ATTR_MpUnReachNLRI_FLAG; c_ATTR_MpUnReachNLRI_ID] ++ be 2 (len v) ++ v)) /\
            unreachevpn_parse v = Ok (map same_route rs).
Proof.
  intros Hne Hw Hh nlri Hc Hlen.
  destruct (unreachevpn_behaviour rs Hne Hw nlri Hc Hlen) as (v & H1 & H2).
  exists v. split; [exact H1|]. rewrite H2, map_rendered_high by assumption. reflexivity.
Qed.

(** * values outside the guards *)

(** defect (known finding C07-evpn-low-ipv6-address-as-ipv4): the originating router ::1 of a
    type 3 route comes back as 0.0.0.1 *)
Definition w_evpn_low : bytes :=
  [0; 25; 70; 4; 10; 0; 0; 1; 0; 3; 29; 0; 0; 0; 100; 0; 0; 0; 1; 0; 0; 0; 1; 128;
   0; 0; 0; 0; 0; 0; 0; 0; 0; 0; 0; 0; 0; 0; 0; 1].
Lemma refuted_evpn_low_address :
  wf_routeb (EMulticast (RdAs 100 1) 1 (Some (V6 1))) = true /\
  reachevpn_construct (V4 167772161) [EMulticast (RdAs 100 1) 1 (Some (V6 1))] =
    Ok ([144; 14] ++ be 2 (len w_evpn_low) ++ w_evpn_low) /\
  reachevpn_parse w_evpn_low = Ok (V4 167772161, [PMulticast (PRd (RdAs 100 1)) 1 (Some (V4 1))]).
Proof. repeat match goal with |- _ /\ _ => split end; vm_compute; reflexivity. Qed.

(** the construct side refuses what cannot be written: route types 3 and 4 without the originating
    router's address (commit 4aa533e), a route type 1 without label, MAC text that does not have
    six groups (commit 2751f81), an ESI type 3 discriminator above 3 octets (commit 1a23553) *)
Lemma originator_required r tag e b :
  construct_route (EMulticast r tag None) <> Ok b /\ construct_route (ESegment r e None) <> Ok b.
Proof.
  split; cbn [construct_route]; destruct (construct_rd r); cbn [bind]; try discriminate.
  - destruct (pk 4 tag); cbn [bind]; discriminate.
  - destruct (construct_esi e); cbn [bind]; discriminate.
Qed.

Lemma label_required r e tag b : construct_route (EAutoDiscovery r e tag []) <> Ok b.
Proof.
  cbn [construct_route]. destruct (construct_rd r); cbn [bind]; try discriminate.
  destruct (construct_esi e); cbn [bind]; try discriminate. destruct (pk 4 tag); cbn [bind construct_labels]; discriminate.
Qed.

Lemma mac_six_groups s : length (split_on 45 s) <> 6%nat -> construct_mac s = Exc.
Proof. intros H. unfold construct_mac. apply Nat.eqb_neq in H. rewrite H. reflexivity. Qed.

Lemma esi3_discriminator_width m l b : 16777215 < l -> construct_esi (Esi3 m l) <> Ok b.
Proof.
  intros H. cbn [construct_esi]. destruct (construct_mac m); cbn [bind]; try discriminate.
  destruct (16777215 <? l) eqn:E; [discriminate | apply N.ltb_ge in E; lia].
Qed.

(** * per route type, with the address returned unchanged *)
Lemma option_map_render_high ip : high_ipob ip = true -> option_map render_addr ip = ip.
Proof. destruct ip as [a|]; cbn [high_ipob option_map]; intros H; [rewrite render_addr_high by exact H|]; reflexivity. Qed.

Lemma autodiscovery_roundtrip r e tag ls : wf_routeb (EAutoDiscovery r e tag ls) = true ->
  exists b, construct_route (EAutoDiscovery r e tag ls) = Ok b /\
            parse_route c_BGPNLRI_EVPN_ETHERNET_AUTO_DISCOVERY b = Ok (Some (PAutoDiscovery (PRd r) e tag ls)).
Proof. intros H. destruct (autodiscovery_ok r e tag ls H) as (b & Hc & _ & _ & Hp). eauto. Qed.

Lemma macip_roundtrip r e tag mac ip ls : wf_routeb (EMacIp r e tag mac ip ls) = true -> high_ipob ip = true ->
  exists b, construct_route (EMacIp r e tag mac ip ls) = Ok b /\
            parse_route c_BGPNLRI_EVPN_MAC_IP_ADVERTISEMENT b = Ok (Some (PMacIp (PRd r) e tag mac ip ls)).
Proof.
  intros H Hh. destruct (macip_ok r e tag mac ip ls H) as (b & Hc & _ & _ & Hp).
  rewrite option_map_render_high in Hp by exact Hh. eauto.
Qed.

Lemma multicast_roundtrip r tag ip : wf_routeb (EMulticast r tag ip) = true -> high_ipob ip = true ->
  exists b, construct_route (EMulticast r tag ip) = Ok b /\
            parse_route c_BGPNLRI_EVPN_INCLUSIVE_MULTICAST_ETHERNET_TAG b = Ok (Some (PMulticast (PRd r) tag ip)).
Proof.
  intros H Hh. destruct (multicast_ok r tag ip H) as (b & Hc & _ & _ & Hp).
  rewrite option_map_render_high in Hp by exact Hh. eauto.
Qed.

Lemma segment_roundtrip r e ip : wf_routeb (ESegment r e ip) = true -> high_ipob ip = true ->
  exists b, construct_route (ESegment r e ip) = Ok b /\
            parse_route c_BGPNLRI_EVPN_ETHERNET_SEGMENT b = Ok (Some (PSegment (PRd r) e ip)).
Proof.
  intros H Hh. destruct (segment_ok r e ip H) as (b & Hc & _ & _ & Hp).
  rewrite option_map_render_high in Hp by exact Hh. eauto.
Qed.

(** * example values *)
(** "0A-1B-2C-3D-4E-FF" and the same address in lower case *)
Definition ex_mac : str := [48; 65; 45; 49; 66; 45; 50; 67; 45; 51; 68; 45; 52; 69; 45; 70; 70].
Definition ex_mac_lower : str := [48; 97; 45; 49; 98; 45; 50; 99; 45; 51; 100; 45; 52; 101; 45; 102; 102].
Definition ex_route1 : eroute := EAutoDiscovery (RdAs 65535 4294967295) (Esi0 (2 ^ 72 - 1)) 4294967295 [1048575; 0].
Definition ex_route2 : eroute :=
  EMacIp (RdIp 3232235777 65535) (Esi3 ex_mac 16777215) 4294967295 ex_mac (Some (V6 (2 ^ 127 + 1))) [16; 0].
Definition ex_route3 : eroute := EMulticast (RdAs 4294967295 65535) 0 (Some (V4 4294967295)).
Definition ex_route4 : eroute := ESegment (RdAs 0 0) (Esi1 ex_mac 65535) (Some (V6 (2 ^ 32))).

Lemma refuses_missing_fields r tag e b :
  construct_route (EMulticast r tag None) <> Ok b /\ construct_route (ESegment r e None) <> Ok b /\
  construct_route (EAutoDiscovery r e tag []) <> Ok b.
Proof.
  destruct (originator_required r tag e b) as [H1 H2].
  split; [exact H1 | split; [exact H2 | apply label_required]].
Qed.

Lemma refuses_malformed_fields s m l b :
  (length (split_on 45 s) <> 6%nat -> construct_mac s = Exc) /\
  (16777215 < l -> construct_esi (Esi3 m l) <> Ok b).
Proof. split; [apply mac_six_groups | apply esi3_discriminator_width]. Qed.

Lemma refuses_unencodable r tag e s m l b :
  construct_route (EMulticast r tag None) <> Ok b /\ construct_route (ESegment r e None) <> Ok b /\
  construct_route (EAutoDiscovery r e tag []) <> Ok b /\
  (length (split_on 45 s) <> 6%nat -> construct_mac s = Exc) /\
  (16777215 < l -> construct_esi (Esi3 m l) <> Ok b).
Proof.
  destruct (refuses_missing_fields r tag e b) as (H1 & H2 & H3).
  destruct (refuses_malformed_fields s m l b) as (H4 & H5). repeat split; assumption.
Qed.
