(** C09, part 1: prefixes of the reference encoder (trailing bits, add-path identifiers) through the
    model of Update.parse_prefix_list. *)
From YV Require Import lib.Base gen.Consts model.YMsg model.YPrefix4 model.YAttr model.YUpdate
  model.YUpdateExt proof.UpdateProofsPrefix spec.RefUpdate.
From Coq Require Import ZArith Lia ZifyBool ZifyNat ZifyN.
Ltac Zify.zify_post_hook ::= Z.to_euclidean_division_equations.

Definition canon_pfx (ap : bool) (p : rpfx) : xpfx := (if ap then Some (fst p) else None, snd p).

(** ================= prefixes: trailing bits, add-path ================= *)
Lemma ceil8_eq l : ceil8 l = N.to_nat (l / 8 + (if 0 <? l mod 8 then 1 else 0)).
Proof. unfold ceil8. destruct (0 <? l mod 8) eqn:E; lia. Qed.

Ltac fill_case Hm Hg :=
  match type of Hm with
    context [2 ^ ?e] => let c := eval vm_compute in (2 ^ e) in change (2 ^ e) with c in Hm, Hg
  end;
  match goal with
    |- context [ceil8 ?l] => let c := eval vm_compute in (ceil8 l) in change (ceil8 l) with c
  end;
  cbn; f_equal; lia.

(** the decoder zeroes whatever follows the prefix bits: all 33 lengths, address and filler symbolic *)
Lemma dec_addr_fill a l f : l <= 32 -> a < 4294967296 -> a mod 2 ^ (32 - l) = 0 ->
  dec_addr l (firstn (ceil8 l) (be 4 (a + f mod 2 ^ (32 - l)))) = Some a.
Proof.
  intros Hl Ha Hm.
  assert (Hg : f mod 2 ^ (32 - l) < 2 ^ (32 - l)).
  { apply N.mod_lt. apply N.pow_nonzero. discriminate. }
  set (g := f mod 2 ^ (32 - l)) in *. clearbody g.
  rewrite be4_eq.
  remember ((a + g) / 16777216 mod 256) as b3 eqn:E3.
  remember ((a + g) / 65536 mod 256) as b2 eqn:E2.
  remember ((a + g) / 256 mod 256) as b1 eqn:E1.
  remember ((a + g) mod 256) as b0 eqn:E0.
  apply le32_cases in Hl. cbn [In] in Hl.
  repeat (destruct Hl as [<- | Hl]; [ fill_case Hm Hg | ]).
  destruct Hl.
Qed.

(** one prefix as the reference encoder lays it out, whatever the filler *)
Lemma parse_one_lay fill p rest : wf_rpfx p ->
  parse_one (ser_pfx (lay_pfx false fill p) ++ rest) = Ok (snd p, rest).
Proof.
  destruct p as [pid [a l]]. intros (Hi & Hl & Ha & Hm).
  unfold lay_pfx, ser_pfx. cbn [wp_id wp_len wp_octets app snd].
  rewrite parse_one_shape.
  - rewrite dec_addr_fill by assumption. reflexivity.
  - exact Hl.
  - rewrite firstn_length, length_be, <- ceil8_eq.
    assert (ceil8 l <= 4)%nat by (unfold ceil8; lia). lia.
Qed.

Lemma parse_one_ap_lay fill p rest : wf_rpfx p ->
  parse_one_ap (ser_pfx (lay_pfx true fill p) ++ rest) = Ok ((fst p, snd p), rest).
Proof.
  destruct p as [pid [a l]]. intros H. pose proof H as (Hi & _).
  pose proof (parse_one_lay fill (pid, (a, l)) rest H) as P.
  unfold lay_pfx, ser_pfx in *. cbn [wp_id wp_len wp_octets app fst snd] in *.
  unfold parse_one_ap. rewrite <- app_assoc. cbn [app] in *.
  set (tl := l :: firstn (ceil8 l) (be 4 (a + fill mod 2 ^ (32 - l))) ++ rest) in *.
  assert (Ht : take 4 (be 4 pid ++ tl) = be 4 pid).
  { unfold take. apply firstn_app_exact'. rewrite length_be. reflexivity. }
  assert (Hd : drop 4 (be 4 pid ++ tl) = tl).
  { unfold drop. apply skipn_app_exact'. rewrite length_be. reflexivity. }
  rewrite Ht, Hd, length_be. cbn [Nat.eqb]. rewrite P.
  rewrite unbe_be4 by exact Hi. reflexivity.
Qed.

Lemma ser_pfx_nonempty ap fill p : ser_pfx (lay_pfx ap fill p) <> [].
Proof.
  destruct p as [pid [a l]]. unfold lay_pfx, ser_pfx. cbn [wp_id wp_len wp_octets].
  destruct ap; [rewrite be4_eq|]; discriminate.
Qed.

(** the list: every prefix has its own filler *)
Lemma walk_lay_plain ps : Forall wf_rpfx ps -> forall fills fuel,
  (length (ser_pfxs (lay_pfxs false fills ps)) <= fuel)%nat ->
  walk parse_one fuel (ser_pfxs (lay_pfxs false fills ps)) = Ok (map snd ps).
Proof.
  intros H. induction H as [|p ps Hp H IH]; intros fills fuel Hf.
  - apply walk_nil.
  - cbn [lay_pfxs] in *. unfold ser_pfxs in *. cbn [map concat] in *.
    rewrite app_length in Hf.
    pose proof (ser_pfx_nonempty false (hd 0 fills) p) as Hne.
    destruct fuel as [|fuel]; [destruct (ser_pfx (lay_pfx false (hd 0 fills) p)); [congruence | cbn in Hf; lia]|].
    eapply walk_step_ok.
    + destruct (ser_pfx (lay_pfx false (hd 0 fills) p)); [congruence | discriminate].
    + apply parse_one_lay. exact Hp.
    + apply IH. destruct (ser_pfx (lay_pfx false (hd 0 fills) p)); [congruence | cbn in Hf; lia].
Qed.

Lemma walk_lay_ap ps : Forall wf_rpfx ps -> forall fills fuel,
  (length (ser_pfxs (lay_pfxs true fills ps)) <= fuel)%nat ->
  walk parse_one_ap fuel (ser_pfxs (lay_pfxs true fills ps)) = Ok (map (fun p => (fst p, snd p)) ps).
Proof.
  intros H. induction H as [|p ps Hp H IH]; intros fills fuel Hf.
  - apply walk_nil.
  - cbn [lay_pfxs] in *. unfold ser_pfxs in *. cbn [map concat] in *.
    rewrite app_length in Hf.
    pose proof (ser_pfx_nonempty true (hd 0 fills) p) as Hne.
    destruct fuel as [|fuel]; [destruct (ser_pfx (lay_pfx true (hd 0 fills) p)); [congruence | cbn in Hf; lia]|].
    eapply walk_step_ok.
    + destruct (ser_pfx (lay_pfx true (hd 0 fills) p)); [congruence | discriminate].
    + apply parse_one_ap_lay. exact Hp.
    + apply IH. destruct (ser_pfx (lay_pfx true (hd 0 fills) p)); [congruence | cbn in Hf; lia].
Qed.

(** Update.parse_prefix_list on the reference encoding of a prefix list: the prefixes, with their
    path identifiers when add-path is on; the fillers do not show *)
Lemma parse_prefixes_lay ap fills ps : Forall wf_rpfx ps ->
  parse_prefixes_x ap (ser_pfxs (lay_pfxs ap fills ps)) = Ok (map (canon_pfx ap) ps).
Proof.
  intros H. unfold parse_prefixes_x, parse_prefix_list, parse_prefix_list_ap. destruct ap.
  - rewrite walk_lay_ap by (try exact H; lia). cbn [bind]. rewrite map_map. reflexivity.
  - rewrite walk_lay_plain by (try exact H; lia). cbn [bind]. rewrite map_map. reflexivity.
Qed.
