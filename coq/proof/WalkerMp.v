(** C08, MP_REACH_NLRI / MP_UNREACH_NLRI of the modelled families (model/YMp.v with YPrefix6,
    YVpn, YLu, YFlow4): the attribute each constructor returns is ONE attribute block the walker
    accepts - flags 0x90 (optional, extended length) with a 2-octet length equal to the value,
    AFI/SAFI, next-hop length octet = the next-hop octets that follow and of a size the family
    allows, reserved octet 0, and an NLRI field that is exactly a sequence of well-framed routes. *)
From YV Require Import lib.Base gen.Consts spec.Walker model.YMp model.YPrefix6 model.YLabel model.YVpn
  model.YLu model.YFlow4 proof.WalkerProofs proof.WalkerUpdate proof.MpBytesLemmas proof.MpVpnProofs
  proof.MpFlow4Frame.
From Coq Require Import ZArith ZifyBool ZifyNat ZifyN Lia.
Ltac Zify.zify_post_hook ::= Z.to_euclidean_division_equations.

(* ------------------------------------------------------------------------------------- *)
(** * generic *)

Lemma mbind_ok {A B} (r : res A) (f : A -> res B) b : bind r f = Ok b -> exists a, r = Ok a /\ f a = Ok b.
Proof. destruct r; cbn; try discriminate. eauto. Qed.
Lemma mOk_inj {A} (a b : A) : Ok a = Ok b -> a = b.
Proof. intros H; injection H; auto. Qed.

(** the models round the number of octets up exactly as the walker does *)
Lemma ceil8_eq l : YMp.ceil8 l = Walker.ceil8 l.
Proof. unfold YMp.ceil8, Walker.ceil8. destruct (l mod 8 =? 0) eqn:E; lia. Qed.

(** elements, some possibly empty, each of which [step] consumes exactly *)
Lemma walk_concat_opt step (elems : list bytes) :
  (forall e, In e elems -> e = [] \/ forall rest, step (e ++ rest) = Some rest) ->
  forall fuel, (length (concat elems) <= fuel)%nat -> Walker.walk fuel step (concat elems) = true.
Proof.
  induction elems as [|e es IH]; intros H fuel Hf; cbn [concat].
  - apply walk_nil.
  - destruct e as [|x e'].
    + cbn [app]. apply IH; [intros e0 He0; apply H; right; exact He0 | exact Hf].
    + destruct (H (x :: e') (or_introl eq_refl)) as [Hn | Hs]; [discriminate|].
      cbn [concat] in Hf. rewrite app_length in Hf. cbn [length] in Hf.
      destruct fuel as [|f]; [lia|].
      cbn [app Walker.walk]. change (x :: e' ++ concat es) with ((x :: e') ++ concat es). rewrite Hs.
      apply IH; [intros e0 He0; apply H; right; exact He0 | lia].
Qed.
Lemma walk_all_concat_opt step (elems : list bytes) :
  (forall e, In e elems -> e = [] \/ forall rest, step (e ++ rest) = Some rest) ->
  walk_all step (concat elems) = true.
Proof. intros H. unfold walk_all. apply walk_concat_opt; [exact H | lia]. Qed.

Lemma wf_firstn k (b : bytes) : wf_bytes b -> wf_bytes (firstn k b).
Proof. apply (wf_take k). Qed.

(** the attribute header every MP branch writes: FLAG, ID, 2-octet length *)
Lemma mp_attr_block c flag id v b : attr flag id v = Ok b ->
  flag < 256 -> id < 256 -> bit 16 flag = true -> flags_ok flag id = true ->
  wf_bytes v -> value_ok c id v = true -> attr_block c id b.
Proof.
  unfold attr. destruct (65535 <? len v) eqn:L; [discriminate|]. intros H. apply mOk_inj in H. subst b.
  intros. cbn [app]. apply block2; auto. lia.
Qed.

Lemma valid_mp_reach_value afi safi nh nlri : afi < 65536 ->
  nh_len_ok (family_of afi safi) (len nh) = true ->
  valid_mp_nlri false (family_of afi safi) nlri = true ->
  valid_mp_reach (be 2 afi ++ [safi] ++ [len nh] ++ nh ++ [0] ++ nlri) = true.
Proof.
  intros Ha Hn Hv. rewrite be2 by exact Ha. cbn [app valid_mp_reach].
  assert (E : u16 (afi / 256) (afi mod 256) = afi) by (unfold u16; lia).
  rewrite E, Hn, splitN_app. cbn [app andb]. exact Hv.
Qed.

Lemma valid_mp_unreach_value afi safi nlri : afi < 65536 ->
  valid_mp_nlri true (family_of afi safi) nlri = true ->
  valid_mp_unreach (be 2 afi ++ [safi] ++ nlri) = true.
Proof.
  intros Ha Hv. rewrite be2 by exact Ha. cbn [app valid_mp_unreach].
  assert (E : u16 (afi / 256) (afi mod 256) = afi) by (unfold u16; lia).
  rewrite E. exact Hv.
Qed.

(** MP_REACH_NLRI as [reach_attr] assembles it, with the next-hop length octet the size of
    the next hop *)
Lemma reach_attr_block c afi safi nh nlri b : reach_attr afi safi (len nh) nh nlri = Ok b ->
  afi < 65536 -> safi < 256 -> wf_bytes nh -> wf_bytes nlri ->
  nh_len_ok (family_of afi safi) (len nh) = true ->
  valid_mp_nlri false (family_of afi safi) nlri = true ->
  attr_block c c_ATTR_MpReachNLRI_ID b.
Proof.
  unfold reach_attr, reach_value. intros H Ha Hs Wn Wl Hn Hv.
  destruct (255 <? len nh) eqn:L; [discriminate|]. cbn [bind] in H.
  eapply mp_attr_block; [exact H | reflexivity | reflexivity | reflexivity | reflexivity | |].
  - apply wf_app; split; [apply wf_be|]. cbn [app].
    apply wf_cons; split; [exact Hs|]. apply wf_cons; split; [lia|].
    apply wf_app; split; [exact Wn|]. apply wf_cons; split; [lia | exact Wl].
  - unfold value_ok. change c_ATTR_MpReachNLRI_ID with 14. cbv iota beta.
    apply valid_mp_reach_value; assumption.
Qed.

Lemma unreach_attr_block c afi safi nlri b : unreach_attr afi safi nlri = Ok b ->
  afi < 65536 -> safi < 256 -> wf_bytes nlri ->
  valid_mp_nlri true (family_of afi safi) nlri = true ->
  attr_block c c_ATTR_MpUnReachNLRI_ID b.
Proof.
  unfold unreach_attr. intros H Ha Hs Wl Hv.
  eapply mp_attr_block; [exact H | reflexivity | reflexivity | reflexivity | reflexivity | |].
  - apply wf_app; split; [apply wf_be|]. cbn [app]. apply wf_cons; split; [exact Hs | exact Wl].
  - unfold value_ok. change c_ATTR_MpUnReachNLRI_ID with 15. cbv iota beta.
    apply valid_mp_unreach_value; assumption.
Qed.

(* ------------------------------------------------------------------------------------- *)
(** * IPv6 unicast (2, 1) *)

(** the prefix lengths netaddr.IPNetwork accepts *)
Definition routes6_ok (rs : list route6) : bool := forallb (fun r => snd r <=? 128) rs.

Lemma len_firstn_be k n a : (k <= n)%nat -> len (firstn k (be n a)) = N.of_nat k.
Proof. intros H. unfold len. rewrite firstn_length, length_be. lia. Qed.

Lemma ceil8_le_n l n : l <= 8 * n -> Walker.ceil8 l <= n.
Proof. unfold Walker.ceil8. lia. Qed.

Lemma step_prefix_enc6 a l rest : l <= 128 ->
  step_prefix 128 (enc_route6 (a, l) ++ rest) = Some rest.
Proof.
  intros H. unfold enc_route6, take. cbn [app step_prefix].
  destruct (l <=? 128) eqn:E; [|lia]. rewrite ceil8_eq.
  pose proof (ceil8_le_n l 16 ltac:(lia)) as K.
  rewrite <- (N2Nat.id (Walker.ceil8 l)) at 1.
  rewrite <- (len_firstn_be (N.to_nat (Walker.ceil8 l)) 16 a) by lia.
  rewrite splitN_app. reflexivity.
Qed.

Lemma construct6_concat rs : construct6 rs = concat (map enc_route6 rs).
Proof. unfold construct6. apply flat_map_concat_map. Qed.

Lemma construct6_valid rs : routes6_ok rs = true -> forall w,
  valid_mp_nlri w (FPrefix 128) (construct6 rs) = true /\ wf_bytes (construct6 rs).
Proof.
  intros H w. unfold routes6_ok in H. rewrite forallb_forall in H. rewrite construct6_concat. split.
  - cbn [valid_mp_nlri]. apply walk_all_concat. intros e He. apply in_map_iff in He as ([a l] & <- & Hr).
    specialize (H _ Hr). cbn [snd] in H. split; [discriminate|]. intros rest. apply step_prefix_enc6. lia.
  - apply wf_concat_map. intros [a l] Hr. specialize (H _ Hr). cbn [snd] in H.
    unfold enc_route6, take. apply wf_cons; split; [lia|]. apply wf_firstn, wf_be.
Qed.

Theorem reach6u_block c g ll rs b : routes6_ok rs = true ->
  reach6u_construct g ll rs = Ok b -> attr_block c c_ATTR_MpReachNLRI_ID b.
Proof.
  intros G. unfold reach6u_construct.
  set (nh := be 16 g ++ match ll with Some x => be 16 x | None => [] end).
  assert (L : len nh = match ll with Some _ => 32 | None => 16 end).
  { unfold nh. destruct ll; rewrite len_app, !len_be; reflexivity. }
  rewrite <- L. intros H. destruct (construct6_valid rs G false) as [V W].
  eapply reach_attr_block; [exact H | reflexivity | reflexivity | | exact W | | exact V].
  - unfold nh. apply wf_app; split; [apply wf_be | destruct ll; [apply wf_be | constructor]].
  - rewrite L. destruct ll; reflexivity.
Qed.

Theorem unreach6u_block c rs b : routes6_ok rs = true ->
  unreach6u_construct rs = Ok (Some b) -> attr_block c c_ATTR_MpUnReachNLRI_ID b.
Proof.
  intros G. unfold unreach6u_construct. destruct (construct6_valid rs G true) as [V W].
  destruct (construct6 rs) as [|x nl] eqn:E; [discriminate|].
  intros H. apply mbind_ok in H as (b' & H & Hb). apply mOk_inj in Hb. injection Hb as <-.
  eapply unreach_attr_block; [exact H | reflexivity | reflexivity | exact W | exact V].
Qed.

(* ------------------------------------------------------------------------------------- *)
(** * label stacks *)

(** the last label of the list; [1] for an empty list (which construct_labels refuses anyway) *)
Definition last_label (ls : list N) : N := last ls 1.

Lemma be3_cons x : be 3 x = [(x / 65536) mod 256; (x / 256) mod 256; x mod 256].
Proof. cbn [be]. change (256 ^ N.of_nat 2) with 65536. change (256 ^ N.of_nat 1) with 256.
       change (256 ^ N.of_nat 0) with 1. rewrite N.div_1_r. reflexivity. Qed.

(** a constructed label stack whose last label is not 0 is read back by the walker as
    exactly its labels, whatever follows *)
Lemma labels_constructed : forall ls lab, construct_labels ls = Ok lab -> last_label ls <> 0 ->
  forall fuel tail, (length ls <= fuel)%nat ->
  Walker.labels fuel (lab ++ tail) = Some (N.of_nat (length ls), tail) /\
  len lab = 3 * N.of_nat (length ls) /\ wf_bytes lab.
Proof.
  induction ls as [|l r IH]; intros lab H Hl fuel tail Hf; [discriminate|].
  destruct r as [|l2 r'].
  - cbn [construct_labels] in H. unfold last_label in Hl. cbn [last] in Hl.
    destruct (l =? 0) eqn:E0; [lia|]. unfold pack24 in H.
    destruct (2 ^ 32 <=? l * 16 + 1); [discriminate|]. apply mOk_inj in H. subst lab.
    destruct fuel as [|f]; [cbn in Hf; lia|].
    rewrite be3_cons. cbn [app Walker.labels].
    assert (B : (l * 16 + 1) mod 256 mod 2 =? 1 = true) by lia. rewrite B.
    repeat split; [apply wf_cons; split; [lia|]; apply wf_cons; split; [lia|]; apply wf_cons; split; [lia | constructor]].
  - remember (l2 :: r') as r eqn:Er. cbn [construct_labels] in H. rewrite Er in H. rewrite <- Er in H.
    assert (H' : bind (pack24 (l * 16)) (fun b => bind (construct_labels r) (fun br => Ok (b ++ br))) = Ok lab).
    { rewrite Er. rewrite Er in H. exact H. }
    clear H. apply mbind_ok in H' as (b1 & H1 & H'). apply mbind_ok in H' as (br & Hr & H').
    apply mOk_inj in H'. subst lab. unfold pack24 in H1.
    destruct (2 ^ 32 <=? l * 16); [discriminate|]. apply mOk_inj in H1. subst b1.
    assert (Hl' : last_label r <> 0). { unfold last_label in *. rewrite Er in *. exact Hl. }
    destruct fuel as [|f]; [cbn in Hf; lia|].
    destruct (IH br Hr Hl' f tail ltac:(cbn [length] in Hf; lia)) as (Hw & Hlen & Hwf).
    rewrite be3_cons. cbn [app Walker.labels].
    assert (B : (l * 16) mod 256 mod 2 =? 1 = false) by lia. rewrite B.
    change ([(l * 16 / 65536) mod 256; (l * 16 / 256) mod 256; (l * 16) mod 256] ++ br)
      with ((l * 16 / 65536) mod 256 :: (l * 16 / 256) mod 256 :: (l * 16) mod 256 :: br) in *.
    rewrite Hw. repeat split.
    + f_equal. f_equal. cbn [length]. lia.
    + cbn [length]. rewrite !WalkerProofs.len_cons, Hlen. lia.
    + apply wf_cons; split; [lia|]. apply wf_cons; split; [lia|]. apply wf_cons; split; [lia | exact Hwf].
Qed.

Lemma len_construct_rd r b : construct_rd r = Ok b -> len b = 8 /\ wf_bytes b.
Proof.
  unfold construct_rd. destruct r as [asn an | ip an];
    repeat match goal with |- (if ?g then _ else _) = _ -> _ => destruct g; try discriminate end;
    intros H; apply mOk_inj in H; subst b;
    (split; [rewrite !len_app, !len_be; reflexivity | repeat (apply wf_app; split); apply wf_be]).
Qed.

(** the prefix octets of a route, both address families *)
Lemma len_pfx_octets v6 a l : l <= abits v6 ->
  len (if v6 then prefix6_octets a l else prefix4_octets a l) = Walker.ceil8 l /\
  wf_bytes (if v6 then prefix6_octets a l else prefix4_octets a l).
Proof.
  intros H. change (if v6 then prefix6_octets a l else prefix4_octets a l) with (pfx_octets v6 a l).
  rewrite pfx_octets_eq by exact H. pose proof (ceil8_abytes v6 l H) as K. split.
  - rewrite len_firstn_be by exact K. rewrite ceil8_eq. lia.
  - apply wf_firstn, wf_be.
Qed.

(* ------------------------------------------------------------------------------------- *)
(** * VPNv4 / VPNv6 (1|2, 128) *)

(** the one field range the code does not enforce: a label stack that does not end in label 0
    (known finding C08-label0-no-bos: that one is written without the bottom-of-stack bit).
    The prefix length is enforced: above 32 / 128 construction fails ([pfx_len_ok]). *)
Definition vroute_ok (r : vroute) : bool := negb (last_label (v_labels r) =? 0).

Lemma step_labeled_vroute v6 withdraw r b rest :
  construct_vroute v6 withdraw r = Ok b ->
  (withdraw = false -> vroute_ok r = true) ->
  step_labeled withdraw true (abits v6) (b ++ rest) = Some rest /\ wf_bytes b /\ b <> [].
Proof.
  unfold construct_vroute. intros H G.
  apply mbind_ok in H as (lab & Hlab & H). apply mbind_ok in H as (rdb & Hrd & H).
  set (pfx := if v6 then prefix6_octets (v_addr r) (v_len r) else prefix4_octets (v_addr r) (v_len r)) in *.
  destruct (pfx_len_ok v6 (v_len r)) eqn:Hok; [|discriminate]. cbn [negb] in H.
  destruct (255 <? v_len r + len (lab ++ rdb) * 8) eqn:L; [discriminate|]. apply mOk_inj in H. subst b.
  destruct (len_construct_rd _ _ Hrd) as [Lrd Wrd].
  assert (Hlen : v_len r <= abits v6) by (unfold pfx_len_ok in Hok; destruct v6; cbn [abits]; lia).
  destruct (len_pfx_octets v6 (v_addr r) (v_len r) Hlen) as [Lp Wp]. fold pfx in Lp, Wp.
  rewrite len_app, Lrd in L.
  assert (K : exists n, len lab = 3 * n /\ wf_bytes lab /\
                        (if withdraw then match Walker.split 3 (lab ++ rdb ++ pfx) with Some (_, t) => Some (1, t) | None => None end
                         else Walker.labels 11 (lab ++ rdb ++ pfx)) = Some (n, rdb ++ pfx)).
  { destruct withdraw.
    - apply mOk_inj in Hlab. subst lab. exists 1. repeat split.
      apply wf_cons; split; [lia|]. apply wf_cons; split; [lia|]. apply wf_cons; split; [lia | constructor].
    - specialize (G eq_refl). unfold vroute_ok in G.
      assert (Hne : last_label (v_labels r) <> 0) by lia.
      assert (Hn : (length (v_labels r) <= 11)%nat).
      { destruct (labels_constructed _ _ Hlab Hne (length (v_labels r)) [] (Nat.le_refl _)) as (_ & Hl3 & _).
        rewrite Hl3 in L. lia. }
      destruct (labels_constructed _ _ Hlab Hne 11%nat (rdb ++ pfx) Hn) as (Hw & Hl3 & Wl).
      exists (N.of_nat (length (v_labels r))). repeat split; assumption. }
  destruct K as (n & Ln & Wl & Hw). rewrite Ln in L.
  set (plen := v_len r + (3 * n + 8) * 8) in *.
  assert (C : Walker.ceil8 plen = len (lab ++ rdb ++ pfx)).
  { rewrite !len_app, Ln, Lrd, Lp. unfold plen, Walker.ceil8. lia. }
  assert (Ep : v_len r + len (lab ++ rdb) * 8 = plen) by (rewrite len_app, Ln, Lrd; unfold plen; lia).
  rewrite Ep. repeat split.
  - cbn [app]. rewrite <- !app_assoc. cbn [step_labeled].
    rewrite C. replace (lab ++ rdb ++ pfx ++ rest) with ((lab ++ rdb ++ pfx) ++ rest) by (rewrite <- !app_assoc; reflexivity).
    rewrite splitN_app.
    rewrite Hw. cbv zeta.
    assert (T : (24 * n + 64 <=? plen) && (plen - (24 * n + 64) <=? abits v6) = true) by (unfold plen; lia).
    rewrite T. reflexivity.
  - cbn [app]. apply wf_cons; split; [lia|].
    repeat (apply wf_app; split); assumption.
  - discriminate.
Qed.

Lemma construct_vpn_valid v6 withdraw : forall rs nlri, construct_vpn v6 withdraw rs = Ok nlri ->
  (withdraw = false -> forallb vroute_ok rs = true) ->
  valid_mp_nlri withdraw (FVpn (abits v6)) nlri = true /\ wf_bytes nlri.
Proof.
  intros rs nlri H G.
  assert (K : exists elems, nlri = concat elems /\
            forall e, In e elems -> (e <> [] /\ forall rest, step_labeled withdraw true (abits v6) (e ++ rest) = Some rest) /\ wf_bytes e).
  { revert nlri H G. induction rs as [|r rs IH]; intros nlri H G.
    - apply mOk_inj in H. subst. exists []. split; [reflexivity | intros e []].
    - cbn [construct_vpn] in H. apply mbind_ok in H as (b & Hb & H). apply mbind_ok in H as (bt & Ht & H).
      apply mOk_inj in H. subst nlri.
      assert (G1' : withdraw = false -> vroute_ok r = true).
      { intros E. specialize (G E). cbn [forallb] in G. apply andb_true_iff in G as [G1 _]. exact G1. }
      assert (G2 : withdraw = false -> forallb vroute_ok rs = true).
      { intros E. specialize (G E). cbn [forallb] in G. apply andb_true_iff in G as [_ G2]. exact G2. }
      destruct (IH bt Ht G2) as (elems & -> & He). exists (b :: elems). split; [reflexivity|].
      intros e [<- | Hin]; [|apply He; exact Hin].
      split; [split|].
      + apply (step_labeled_vroute v6 withdraw r b [] Hb G1').
      + intros rest. apply (step_labeled_vroute v6 withdraw r b rest Hb G1').
      + apply (step_labeled_vroute v6 withdraw r b [] Hb G1'). }
  destruct K as (elems & -> & He). split.
  - cbn [valid_mp_nlri]. apply walk_all_concat. intros e Hin. apply He. exact Hin.
  - clear H. induction elems as [|e es IH]; [constructor|]. cbn [concat]. apply wf_app. split.
    + apply He. left. reflexivity.
    + apply IH. intros e0 H0. apply He. right. exact H0.
Qed.

Lemma family_vpn v6 : family_of (vpn_afi v6) SAFI_LAB_VPNUNICAST = FVpn (abits v6).
Proof. destruct v6; reflexivity. Qed.
Lemma family_lu v6 : family_of (vpn_afi v6) SAFI_MPLS_LABEL = FLabeled (abits v6).
Proof. destruct v6; reflexivity. Qed.
Lemma vpn_afi_small v6 : vpn_afi v6 < 65536.
Proof. destruct v6; reflexivity. Qed.

(** routes of family [v6], next hop of version [nh6]: 8 + 4 or 8 + 16 octets, both accepted for
    both families (RFC 4364 / 4659 / 8950) *)
Theorem reachvpn_block_x c v6 nh6 asn an ip rs b : forallb vroute_ok rs = true ->
  reachvpn_construct_x v6 nh6 asn an ip rs = Ok b -> attr_block c c_ATTR_MpReachNLRI_ID b.
Proof.
  intros G. unfold reachvpn_construct_x. intros H.
  apply mbind_ok in H as (nh & Hnh & H). apply mbind_ok in H as (nlri & Hn & H).
  destruct (construct_vpn_valid v6 false rs nlri Hn (fun _ => G)) as [V W].
  unfold construct_vpn_nexthop_x in Hnh. destruct ((65535 <? asn) || (2 ^ 32 <=? an)); [discriminate|].
  apply mOk_inj in Hnh.
  assert (Lnh : len nh = if nh6 then 24 else 12).
  { subst nh. destruct nh6; rewrite !len_app, !len_be; reflexivity. }
  assert (Wnh : wf_bytes nh).
  { subst nh. cbn [app]. apply wf_cons; split; [lia|]. apply wf_cons; split; [lia|].
    repeat (apply wf_app; split); try apply wf_be. destruct nh6; apply wf_be. }
  eapply reach_attr_block; [exact H | apply vpn_afi_small | reflexivity | exact Wnh | exact W | | ].
  - rewrite family_vpn, Lnh. destruct nh6; reflexivity.
  - rewrite family_vpn. exact V.
Qed.
Theorem reachvpn_block c v6 asn an ip rs b : forallb vroute_ok rs = true ->
  reachvpn_construct v6 asn an ip rs = Ok b -> attr_block c c_ATTR_MpReachNLRI_ID b.
Proof. exact (reachvpn_block_x c v6 v6 asn an ip rs b). Qed.

Theorem unreachvpn_block c v6 rs b :
  unreachvpn_construct v6 rs = Ok (Some b) -> attr_block c c_ATTR_MpUnReachNLRI_ID b.
Proof.
  unfold unreachvpn_construct. intros H. apply mbind_ok in H as (nlri & Hn & H).
  destruct (construct_vpn_valid v6 true rs nlri Hn ltac:(discriminate)) as [V W].
  destruct nlri as [|x nl]; [discriminate|].
  apply mbind_ok in H as (b' & H & Hb). apply mOk_inj in Hb. injection Hb as <-.
  eapply unreach_attr_block; [exact H | apply vpn_afi_small | reflexivity | exact W |].
  rewrite family_vpn. exact V.
Qed.

(* ------------------------------------------------------------------------------------- *)
(** * labeled unicast (1|2, 4) *)

Definition lroute_ok (r : lroute) : bool := negb (last_label (l_labels r) =? 0).

Lemma step_labeled_lroute v6 withdraw r b rest :
  construct_lroute v6 withdraw r = Ok b ->
  (withdraw = false -> lroute_ok r = true) ->
  step_labeled withdraw false (abits v6) (b ++ rest) = Some rest /\ wf_bytes b /\ b <> [].
Proof.
  unfold construct_lroute. intros H G.
  apply mbind_ok in H as (lab & Hlab & H).
  set (pfx := if v6 then prefix6_octets (l_addr r) (l_len r) else prefix4_octets (l_addr r) (l_len r)) in *.
  destruct (pfx_len_ok v6 (l_len r)) eqn:Hok; [|discriminate]. cbn [negb] in H.
  destruct (255 <? 8 * len lab + l_len r) eqn:L; [discriminate|]. apply mOk_inj in H. subst b.
  assert (Hlen : l_len r <= abits v6) by (unfold pfx_len_ok in Hok; destruct v6; cbn [abits]; lia).
  destruct (len_pfx_octets v6 (l_addr r) (l_len r) Hlen) as [Lp Wp]. fold pfx in Lp, Wp.
  assert (K : exists n, len lab = 3 * n /\ wf_bytes lab /\
                        (if withdraw then match Walker.split 3 (lab ++ pfx) with Some (_, t) => Some (1, t) | None => None end
                         else Walker.labels 11 (lab ++ pfx)) = Some (n, pfx)).
  { destruct withdraw.
    - apply mOk_inj in Hlab. subst lab. exists 1. repeat split.
      apply wf_cons; split; [lia|]. apply wf_cons; split; [lia|]. apply wf_cons; split; [lia | constructor].
    - specialize (G eq_refl). unfold lroute_ok in G.
      assert (Hne : last_label (l_labels r) <> 0) by lia.
      assert (Hn : (length (l_labels r) <= 11)%nat).
      { destruct (labels_constructed _ _ Hlab Hne (length (l_labels r)) [] (Nat.le_refl _)) as (_ & Hl3 & _).
        rewrite Hl3 in L. lia. }
      destruct (labels_constructed _ _ Hlab Hne 11%nat pfx Hn) as (Hw & Hl3 & Wl).
      exists (N.of_nat (length (l_labels r))). repeat split; assumption. }
  destruct K as (n & Ln & Wl & Hw). rewrite Ln in L.
  set (plen := 8 * (3 * n) + l_len r) in *.
  assert (C : Walker.ceil8 plen = len (lab ++ pfx)).
  { rewrite !len_app, Ln, Lp. unfold plen, Walker.ceil8. lia. }
  assert (Ep : 8 * len lab + l_len r = plen) by (rewrite Ln; reflexivity).
  rewrite Ep. repeat split.
  - cbn [app]. rewrite <- !app_assoc. cbn [step_labeled].
    rewrite C. replace (lab ++ pfx ++ rest) with ((lab ++ pfx) ++ rest) by (rewrite <- !app_assoc; reflexivity).
    rewrite splitN_app.
    rewrite Hw. cbv zeta.
    assert (T : (24 * n + 0 <=? plen) && (plen - (24 * n + 0) <=? abits v6) = true) by (unfold plen; lia).
    rewrite T. reflexivity.
  - cbn [app]. apply wf_cons; split; [lia|].
    repeat (apply wf_app; split); assumption.
  - discriminate.
Qed.

Lemma construct_lu_valid v6 withdraw : forall rs nlri, construct_lu v6 withdraw rs = Ok nlri ->
  (withdraw = false -> forallb lroute_ok rs = true) ->
  valid_mp_nlri withdraw (FLabeled (abits v6)) nlri = true /\ wf_bytes nlri.
Proof.
  intros rs nlri H G.
  assert (K : exists elems, nlri = concat elems /\
            forall e, In e elems -> (e <> [] /\ forall rest, step_labeled withdraw false (abits v6) (e ++ rest) = Some rest) /\ wf_bytes e).
  { revert nlri H G. induction rs as [|r rs IH]; intros nlri H G.
    - apply mOk_inj in H. subst. exists []. split; [reflexivity | intros e []].
    - cbn [construct_lu] in H. apply mbind_ok in H as (b & Hb & H). apply mbind_ok in H as (bt & Ht & H).
      apply mOk_inj in H. subst nlri.
      assert (G1' : withdraw = false -> lroute_ok r = true).
      { intros E. specialize (G E). cbn [forallb] in G. apply andb_true_iff in G as [G1 _]. exact G1. }
      assert (G2 : withdraw = false -> forallb lroute_ok rs = true).
      { intros E. specialize (G E). cbn [forallb] in G. apply andb_true_iff in G as [_ G2]. exact G2. }
      destruct (IH bt Ht G2) as (elems & -> & He). exists (b :: elems). split; [reflexivity|].
      intros e [<- | Hin]; [|apply He; exact Hin].
      split; [split|].
      + apply (step_labeled_lroute v6 withdraw r b [] Hb G1').
      + intros rest. apply (step_labeled_lroute v6 withdraw r b rest Hb G1').
      + apply (step_labeled_lroute v6 withdraw r b [] Hb G1'). }
  destruct K as (elems & -> & He). split.
  - cbn [valid_mp_nlri]. apply walk_all_concat. intros e Hin. apply He. exact Hin.
  - clear H. induction elems as [|e es IH]; [constructor|]. cbn [concat]. apply wf_app. split.
    + apply He. left. reflexivity.
    + apply IH. intros e0 H0. apply He. right. exact H0.
Qed.

Theorem reachlu_block_x c v6 nh6 ip rs b : forallb lroute_ok rs = true ->
  reachlu_construct_x v6 nh6 ip rs = Ok (Some b) -> attr_block c c_ATTR_MpReachNLRI_ID b.
Proof.
  intros G. unfold reachlu_construct_x. intros H. apply mbind_ok in H as (nlri & Hn & H).
  destruct (construct_lu_valid v6 false rs nlri Hn (fun _ => G)) as [V W].
  destruct nlri as [|x nl]; [discriminate|].
  apply mbind_ok in H as (b' & H & Hb). apply mOk_inj in Hb. injection Hb as <-.
  eapply reach_attr_block; [exact H | apply vpn_afi_small | reflexivity | destruct nh6; apply wf_be | exact W | |].
  - rewrite family_lu. destruct nh6; rewrite len_be; reflexivity.
  - rewrite family_lu. exact V.
Qed.
Theorem reachlu_block c v6 ip rs b : forallb lroute_ok rs = true ->
  reachlu_construct v6 ip rs = Ok (Some b) -> attr_block c c_ATTR_MpReachNLRI_ID b.
Proof. exact (reachlu_block_x c v6 v6 ip rs b). Qed.

Theorem unreachlu_block c v6 rs b :
  unreachlu_construct v6 rs = Ok (Some b) -> attr_block c c_ATTR_MpUnReachNLRI_ID b.
Proof.
  unfold unreachlu_construct. destruct v6; [discriminate|].
  destruct rs as [|r rs]; [discriminate|]. intros H.
  apply mbind_ok in H as (nlri & Hn & H). apply mbind_ok in H as (b' & H & Hb).
  apply mOk_inj in Hb. injection Hb as <-.
  destruct (construct_lu_valid false true (r :: rs) nlri Hn ltac:(discriminate)) as [V W].
  eapply unreach_attr_block; [exact H | reflexivity | reflexivity | exact W | exact V].
Qed.

(* ------------------------------------------------------------------------------------- *)
(** * the guards are needed (and instances) *)

(** a block is a valid attribute field on its own *)
Lemma block_valid c ty b : attr_block c ty b -> valid_attrs c b = true /\ wf_bytes b.
Proof. intros H. split; [eapply attr_block_valid | eapply attr_block_wf]; exact H. Qed.

(** a prefix length that does not fit the address is a construction error (it used to be written
    as it stood: fix: a prefix length outside the address size must be an error ...) *)
Lemma prefix_length_is_error :
  reachvpn_construct false 0 0 167772161 [mk_vroute [25] (RdAs 100 100) 167772160 40] = Exc /\
  unreachvpn_construct false [mk_vroute [25] (RdAs 100 100) 167772160 33] = Exc /\
  reachvpn_construct true 0 0 1 [mk_vroute [25] (RdAs 100 100) (2 ^ 125) 129] = Exc /\
  reachlu_construct false 167772161 [mk_lroute [25] 167772160 40] = Exc /\
  unreachlu_construct false [mk_lroute [25] 167772160 33] = Exc /\
  reachlu_construct true 1 [mk_lroute [25] (2 ^ 125) 129] = Exc.
Proof. vm_compute. repeat split. Qed.

(** a label stack ending in label 0 has no bottom-of-stack bit (known finding C08-label0-no-bos) *)
Lemma reachvpn_label0_refuted : exists b,
  reachvpn_construct false 0 0 167772161 [mk_vroute [0] (RdAs 100 1) 167772160 8] = Ok b /\
  valid_attrs cfg0 b = false.
Proof. eexists. split; vm_compute; reflexivity. Qed.
Lemma reachlu_label0_refuted : exists b,
  reachlu_construct false 167772161 [mk_lroute [0] 3221225472 8] = Ok (Some b) /\ valid_attrs cfg0 b = false.
Proof. eexists. split; vm_compute; reflexivity. Qed.

(** instances: the guards hold and an attribute comes back *)
Lemma reach6u_example : exists b,
  reach6u_construct (2 ^ 125) (Some (2 ^ 127 + 1)) [(2 ^ 125, 3); (0, 0); (2 ^ 125 + 5, 128)] = Ok b /\
  routes6_ok [(2 ^ 125, 3); (0, 0); (2 ^ 125 + 5, 128)] = true /\ len b = 61 /\ valid_attrs cfg0 b = true.
Proof. eexists. split; [vm_compute; reflexivity|]. repeat split; vm_compute; reflexivity. Qed.
Lemma unreach6u_example : exists b,
  unreach6u_construct [(2 ^ 125, 3); (2 ^ 125 + 5, 127)] = Ok (Some b) /\
  b = [144; 15; 0; 22; 0; 2; 1; 3; 32; 127; 32; 0; 0; 0; 0; 0; 0; 0; 0; 0; 0; 0; 0; 0; 0; 5].
Proof. eexists. split; vm_compute; reflexivity. Qed.
Definition ex_vroutes : list vroute :=
  [mk_vroute [25; 0; 1048575] (RdAs 100 100) 167772160 8; mk_vroute [16] (RdIp 167772161 7) 0 0;
   mk_vroute [3] (RdAs 4200000000 1) 3232235777 32].
Lemma reachvpn_example : exists b,
  reachvpn_construct false 0 0 167772161 ex_vroutes = Ok b /\ forallb vroute_ok ex_vroutes = true /\
  len b = 68 /\ valid_attrs cfg0 b = true.
Proof. eexists. split; [vm_compute; reflexivity|]. repeat split; vm_compute; reflexivity. Qed.
Lemma reachvpn_nh6_example : exists b,
  reachvpn_construct_x false true 0 0 (2 ^ 125 + 1) ex_vroutes = Ok b /\ len b = 80 /\ valid_attrs cfg0 b = true.
Proof. eexists. split; [vm_compute; reflexivity|]. split; vm_compute; reflexivity. Qed.
Lemma unreachvpn_example : exists b,
  unreachvpn_construct true [mk_vroute [] (RdAs 100 100) (2 ^ 125) 61] = Ok (Some b) /\ valid_attrs cfg0 b = true.
Proof. eexists. split; vm_compute; reflexivity. Qed.
Definition ex_lroutes : list lroute := [mk_lroute [25; 26] (2 ^ 125) 64; mk_lroute [7] 0 0].
Lemma reachlu_example : exists b,
  reachlu_construct true (2 ^ 125 + 1) ex_lroutes = Ok (Some b) /\ forallb lroute_ok ex_lroutes = true /\
  valid_attrs cfg0 b = true.
Proof. eexists. split; [vm_compute; reflexivity|]. repeat split; vm_compute; reflexivity. Qed.
Lemma unreachlu_example : exists b,
  unreachlu_construct false [mk_lroute [] 167772160 8; mk_lroute [] 3232235776 23] = Ok (Some b) /\
  b = [144; 15; 0; 15; 0; 1; 4; 32; 128; 0; 0; 10; 47; 128; 0; 0; 192; 168; 1].
Proof. eexists. split; vm_compute; reflexivity. Qed.

(** the walker is not permissive about MP attributes: next-hop length octet one off, non-zero
    reserved octet, a next-hop size the family does not have, a labeled route one octet short,
    a 1-octet length under the extended-length flag *)
Lemma mp_near_misses :
  valid_attrs cfg0 [144; 14; 0; 30; 0; 2; 1; 16; 32; 0; 0; 0; 0; 0; 0; 0; 0; 0; 0; 0; 0; 0; 0; 1; 0; 64; 32; 1; 13; 184; 0; 0; 0; 1] = true /\
  valid_attrs cfg0 [144; 14; 0; 30; 0; 2; 1; 15; 32; 0; 0; 0; 0; 0; 0; 0; 0; 0; 0; 0; 0; 0; 0; 1; 0; 64; 32; 1; 13; 184; 0; 0; 0; 1] = false /\
  valid_attrs cfg0 [144; 14; 0; 30; 0; 2; 1; 16; 32; 0; 0; 0; 0; 0; 0; 0; 0; 0; 0; 0; 0; 0; 0; 1; 1; 64; 32; 1; 13; 184; 0; 0; 0; 1] = false /\
  valid_attrs cfg0 [144; 14; 0; 18; 0; 2; 1; 4; 10; 0; 0; 1; 0; 64; 32; 1; 13; 184; 0; 0; 0; 1] = true /\
  valid_attrs cfg0 [144; 14; 0; 19; 0; 2; 1; 5; 10; 0; 0; 1; 9; 0; 64; 32; 1; 13; 184; 0; 0; 0; 1] = false /\
  valid_attrs cfg0 [144; 15; 0; 7; 0; 1; 4; 32; 128; 0; 0] = false /\
  valid_attrs cfg0 [144; 15; 0; 8; 0; 1; 4; 32; 128; 0; 0; 10] = true /\
  valid_attrs cfg0 [144; 15; 8; 0; 1; 4; 32; 128; 0; 0; 10] = false /\
  valid_attrs cfg0 [128; 15; 8; 0; 1; 4; 32; 128; 0; 0; 10] = true.
Proof. vm_compute. repeat split. Qed.

(* ------------------------------------------------------------------------------------- *)
(** * the statements of props/C08.v *)
Lemma mp_ipv6_valid c rs : routes6_ok rs = true ->
  (forall g ll b, reach6u_construct g ll rs = Ok b -> attr_block c c_ATTR_MpReachNLRI_ID b) /\
  (forall b, unreach6u_construct rs = Ok (Some b) -> attr_block c c_ATTR_MpUnReachNLRI_ID b).
Proof. intros H. split; intros; [eapply reach6u_block | eapply unreach6u_block]; eassumption. Qed.
Lemma mp_vpn_valid c v6 rs :
  (forallb vroute_ok rs = true -> forall nh6 asn an ip b,
     reachvpn_construct_x v6 nh6 asn an ip rs = Ok b -> attr_block c c_ATTR_MpReachNLRI_ID b) /\
  (forall b, unreachvpn_construct v6 rs = Ok (Some b) -> attr_block c c_ATTR_MpUnReachNLRI_ID b).
Proof. split; intros; [eapply reachvpn_block_x | eapply unreachvpn_block]; eassumption. Qed.
Lemma mp_lu_valid c v6 rs :
  (forallb lroute_ok rs = true -> forall nh6 ip b,
     reachlu_construct_x v6 nh6 ip rs = Ok (Some b) -> attr_block c c_ATTR_MpReachNLRI_ID b) /\
  (forall b, unreachlu_construct v6 rs = Ok (Some b) -> attr_block c c_ATTR_MpUnReachNLRI_ID b).
Proof. split; intros; [eapply reachlu_block_x | eapply unreachlu_block]; eassumption. Qed.
Lemma mp_label0_refuted :
  (exists b, reachvpn_construct false 0 0 167772161 [mk_vroute [0] (RdAs 100 1) 167772160 8] = Ok b /\
             valid_attrs cfg0 b = false) /\
  (exists b, reachlu_construct false 167772161 [mk_lroute [0] 3221225472 8] = Ok (Some b) /\
             valid_attrs cfg0 b = false).
Proof. exact (conj reachvpn_label0_refuted reachlu_label0_refuted). Qed.
