(** C18: the sent-message counters of the tracked connection equal what was written to it. *)
From YV Require Import lib.Base model.YWorld model.YProto gen.Consts gen.FsmGen model.YFraming
  model.YSession proof.SessionPres proof.SessionInv proof.SessionFraming.
From Coq Require Import Arith PeanoNat.

Definition stats_add (a b : stats) : stats :=
  mkStats (s_open a + s_open b) (s_notif a + s_notif b) (s_upd a + s_upd b) (s_ka a + s_ka b) (s_rr a + s_rr b).

(** what one output contributes to the per-type count of messages written to connection c *)
Definition wcount1 (c : nat) (o : out) : stats :=
  match o with
  | OWrite c' m =>
      if Nat.eqb c' c then
        match m with
        | WOpen _ _ _ _ => mkStats 1 0 0 0 0
        | WNotif _ _ _ => mkStats 0 1 0 0 0
        | WRaw _ => mkStats 0 0 1 0 0
        | WKeepalive => mkStats 0 0 0 1 0
        | WRouteRefresh _ _ _ _ => mkStats 0 0 0 0 1
        end
      else stats0
  | _ => stats0
  end.
Fixpoint wcount (c : nat) (l : list out) : stats :=
  match l with [] => stats0 | o :: r => stats_add (wcount1 c o) (wcount c r) end.

Lemma stats_eq a b : s_open a = s_open b -> s_notif a = s_notif b -> s_upd a = s_upd b ->
  s_ka a = s_ka b -> s_rr a = s_rr b -> a = b.
Proof. destruct a, b; cbn; intros; subst; reflexivity. Qed.

Ltac stats_tac := apply stats_eq; unfold stats_add, stats0; cbn [s_open s_notif s_upd s_ka s_rr]; lia.

Lemma stats_add_0_l a : stats_add stats0 a = a.
Proof. apply stats_eq; cbn; lia. Qed.
Lemma stats_add_assoc a b c : stats_add (stats_add a b) c = stats_add a (stats_add b c).
Proof. apply stats_eq; cbn; lia. Qed.
Lemma stats_add_comm a b : stats_add a b = stats_add b a.
Proof. apply stats_eq; cbn; lia. Qed.
Lemma wcount_app c a b : wcount c (a ++ b) = stats_add (wcount c a) (wcount c b).
Proof. induction a; cbn; [rewrite stats_add_0_l; auto|]. rewrite IHa, stats_add_assoc. reflexivity. Qed.

(** the balance: counters of c = k + what this step has written to c so far *)
Definition PS (c : nat) (k : stats) (w : world) : Prop :=
  Good c w /\ c_sent (get_conn c w) = stats_add k (wcount c (w_out w)).

Lemma sent_upd_other c c' f w : (forall x, c_sent (f x) = c_sent x) ->
  c_sent (get_conn c (upd_conn c' f w)) = c_sent (get_conn c w).
Proof.
  intros Hf. unfold get_conn, upd_conn. cbn. rewrite nth_upd_nth.
  destruct (Nat.eqb c c' && Nat.ltb c (length (w_conns w))); auto.
Qed.

Lemma Good_lt c w : Good c w -> (c < length (w_conns w))%nat.
Proof.
  intros [_ H]. unfold conn_connected in H. destruct (nth_error (w_conns w) c) eqn:E; [|discriminate].
  apply nth_error_Some. congruence.
Qed.

Lemma sent_upd_same c f w : Good c w ->
  c_sent (get_conn c (upd_conn c (on_sent f) w)) = f (c_sent (get_conn c w)).
Proof.
  intros H. unfold get_conn, upd_conn. cbn. rewrite nth_upd_nth.
  rewrite Nat.eqb_refl. pose proof (Good_lt c w H) as Hl. apply Nat.ltb_lt in Hl. rewrite Hl. reflexivity.
Qed.

Lemma PS_frame c k w w' : w_proto w' = w_proto w -> w_conns w' = w_conns w -> w_out w' = w_out w ->
  PS c k w -> PS c k w'.
Proof.
  intros Hp Hc Ho [H1 H2]. split; [eapply Good_frame; eauto|].
  unfold get_conn in *. rewrite Hc, Ho. exact H2.
Qed.
Lemma PS_emit c k o w : wcount1 c o = stats0 -> PS c k w -> PS c k (emit o w).
Proof.
  intros Ho [H1 H2]. split; [apply Good_emit; auto|].
  unfold emit, get_conn in *. cbn. rewrite Ho, stats_add_0_l. exact H2.
Qed.
Lemma PS_set_tm c k t v w : PS c k w -> PS c k (set_tm t v w).
Proof. apply PS_frame; destruct t; reflexivity. Qed.

(** a send on the tracked connection: counter and wire move together *)
Lemma PS_send c k f m w :
  wcount1 c (OWrite c m) = f stats0 ->
  (forall a, f a = stats_add a (f stats0)) ->
  PS c k w -> PS c k (conn_write c m (upd_conn c (on_sent f) w)).
Proof.
  intros Hm Hf [H1 H2].
  assert (G1 : Good c (upd_conn c (on_sent f) w)) by (apply Good_upd; auto with keeps).
  unfold conn_write. destruct G1 as [Gp Gc]. rewrite Gc.
  split; [apply Good_emit; split; auto|].
  unfold emit. cbn [w_out set_w_out w_conns].
  change (get_conn c (set_w_out (OWrite c m :: w_out (upd_conn c (on_sent f) w)) (upd_conn c (on_sent f) w)))
    with (get_conn c (upd_conn c (on_sent f) w)).
  rewrite sent_upd_same by auto. rewrite H2. cbn [wcount].
  change (w_out (upd_conn c (on_sent f) w)) with (w_out w).
  rewrite Hm, Hf. generalize (f stats0) (wcount c (w_out w)). intros x y.
  apply stats_eq; cbn; lia.
Qed.

Lemma PS_with_proto c k f w : (forall w, PS c k w -> PS c k (f c w)) -> PS c k w -> PS c k (with_proto f w).
Proof. intros Hf H. unfold with_proto. destruct H as ((Hp & Hc) & Hr). rewrite Hp. apply Hf. repeat split; auto. Qed.

Lemma PS_upd_other c k c' f w : keeps_buf f -> (forall x, c_sent (f x) = c_sent x) ->
  PS c k w -> PS c k (upd_conn c' f w).
Proof.
  intros Hk Hf [H1 H2]. split; [apply Good_upd; auto|].
  rewrite sent_upd_other by auto. exact H2.
Qed.

Lemma PS_prims c k : prims_ok (PS c k).
Proof.
  constructor.
  - intros s w H. unfold set_state. destruct (bst_eqb s (w_state w)); auto.
    destruct s; try (eapply PS_frame; [| | |exact H]; reflexivity).
    apply PS_emit; [reflexivity|]. eapply PS_frame; [| | |exact H]; reflexivity.
  - intros; unfold tm_reset; apply PS_set_tm; auto.
  - intros; unfold tm_cancel; apply PS_set_tm; auto.
  - intros; unfold tm_active; cbn [snd]; apply PS_set_tm; auto.
  - intros x w H; eapply PS_frame; [| | |exact H]; reflexivity.
  - intros x w H; eapply PS_frame; [| | |exact H]; reflexivity.
  - intros x w H; eapply PS_frame; [| | |exact H]; reflexivity.
  - intros x w H; eapply PS_frame; [| | |exact H]; reflexivity.
  - (* send_open *)
    intros w H. apply PS_with_proto; auto. intros w' H'. unfold conn_send_open. cbv beta zeta.
    apply PS_emit; [reflexivity|].
    assert (H1 : PS c k (capability_negotiate w')).
    { unfold capability_negotiate. destruct (w_capr w'); auto; try (eapply PS_frame; [| | |exact H']; reflexivity). }
    set (m := WOpen _ _ _ _). set (w1 := capability_negotiate w') in *.
    (* counter bump and write commute *)
    assert (E : upd_conn c (on_sent bump_open) (conn_write c m w1) = conn_write c m (upd_conn c (on_sent bump_open) w1)).
    { unfold conn_write. rewrite connected_upd by auto with keeps. destruct (conn_connected c w1); reflexivity. }
    rewrite E. apply (PS_send c k bump_open m w1); auto.
    + cbn. rewrite Nat.eqb_refl. reflexivity.
    + intros a. apply stats_eq; cbn; lia.
  - intros w H. apply PS_with_proto; auto. intros w' H'. unfold conn_send_keepalive.
    apply (PS_send c k bump_ka WKeepalive w'); auto.
    + cbn. rewrite Nat.eqb_refl. reflexivity.
    + intros a. apply stats_eq; cbn; lia.
  - intros code s d w H. apply PS_with_proto; auto. intros w' H'. unfold conn_send_notification.
    apply (PS_send c k (bump_notif 1) (WNotif code s d) w'); auto.
    + cbn. rewrite Nat.eqb_refl. reflexivity.
    + intros a. apply stats_eq; cbn; lia.
  - intros w H. apply PS_with_proto; auto. intros w' H'. unfold conn_close.
    destruct (conn_connected c w'); auto.
    apply PS_upd_other; auto with keeps.
    destruct (c_closing (get_conn c w')); auto; try (apply PS_emit; auto).
  - intros w H. unfold peering_connect. destruct (st_is w StEstablished); auto.
    apply PS_emit; [reflexivity|]. destruct H as [[H1 H1'] H2]. split.
    + split; auto. apply connected_app; auto.
    + unfold get_conn in *. cbn. rewrite nth_app_default. exact H2.
Qed.

Lemma PS_glue c k : glue_ok (PS c k).
Proof.
  constructor.
  - intros h w H. apply PS_emit; auto.
  - intros c' f w [Hf Hs] H. apply PS_upd_other; auto.
  - intros x w H; eapply PS_frame; [| | |exact H]; reflexivity.
  - intros x w H; eapply PS_frame; [| | |exact H]; reflexivity.
  - intros x w H; eapply PS_frame; [| | |exact H]; reflexivity.
Qed.

(** ---- event level ---- *)
Lemma connected_upd_st c c' f w : (forall x, c_st (f x) = c_st x) ->
  conn_connected c (upd_conn c' f w) = conn_connected c w.
Proof.
  intros Hf. unfold conn_connected, upd_conn. cbn. rewrite nth_error_upd_nth.
  destruct (Nat.eqb c c'); auto. destruct (nth_error (w_conns w) c); cbn; auto. rewrite Hf. reflexivity.
Qed.
Lemma connected_upd_ne c c' f w : c <> c' ->
  conn_connected c (upd_conn c' f w) = conn_connected c w.
Proof.
  intros Hn. unfold conn_connected, upd_conn. cbn. rewrite nth_error_upd_nth.
  apply Nat.eqb_neq in Hn. rewrite Hn. reflexivity.
Qed.
Lemma PS_upd_st c k c' f w : (forall x, c_st (f x) = c_st x) -> (forall x, c_sent (f x) = c_sent x) ->
  PS c k w -> PS c k (upd_conn c' f w).
Proof.
  intros Hst Hs [[Hp Hc] H2]. split; [split; auto; rewrite connected_upd_st; auto|].
  rewrite sent_upd_other by auto. exact H2.
Qed.
Lemma PS_upd_ne c k c' f w : c <> c' -> PS c k w -> PS c k (upd_conn c' f w).
Proof.
  intros Hn [[Hp Hc] H2]. split; [split; auto; rewrite connected_upd_ne; auto|].
  unfold get_conn, upd_conn in *. cbn. rewrite nth_upd_nth.
  apply Nat.eqb_neq in Hn. rewrite Hn. exact H2.
Qed.

(** events during the lifetime of connection c: everything except "c is lost" and "another
    connection succeeds" (which makes the FSM track that one instead) *)
Definition lifetime_event (c : nat) (e : event) : bool :=
  match e with
  | EConnOk _ => false
  | ELost c' => negb (Nat.eqb c' c)
  | EConnFail c' => negb (Nat.eqb c' c)
  | _ => true
  end.

Section Events.
Variable D : decoders.

Lemma PS_frame_loop c k c' : forall fuel buf w, PS c k w ->
  PS c k (fst (fst (frame_loop world (dispatch D c') (fun sub d w => F_header_error sub d w)
                      (conn_closed_by_us c') fuel buf w))).
Proof.
  pose proof (PS_prims c k) as OK. pose proof (PS_glue c k) as GK.
  induction fuel as [|fuel IH]; intros buf w H; cbn [frame_loop fst]; auto.
  unfold parse1. cbv zeta.
  repeat match goal with
         | |- context [if ?b then _ else _] =>
             lazymatch b with
             | fst _ => fail
             | conn_closed_by_us _ _ => fail
             | _ => destruct b
             end
         end; cbn [fst]; auto; try (apply pres_header_error; auto).
  assert (Hd : PS c k (snd (dispatch D c' (nth 18 buf 0)
              (slice 19 (N.to_nat (unbe (slice 16 18 buf))) buf) w))) by (apply pres_dispatch; auto).
  destruct (fst (dispatch D c' _ _ w)); cbn [fst]; auto.
  destruct (conn_closed_by_us c' _); cbn [fst]; auto.
Qed.

Lemma PS_event c k e w : PS c k w -> lifetime_event c e = true -> PS c k (do_event D e w).
Proof.
  intros H Hl. pose proof (PS_prims c k) as OK. pose proof (PS_glue c k) as GK.
  destruct e; cbn [do_event]; cbn in Hl; try discriminate.
  - apply pres_peering_automatic_start; auto.
  - unfold conn_failed. cbv zeta. apply pres_connection_failed; auto.
    apply (g_handler _ GK). apply PS_upd_ne; auto.
    apply Bool.negb_true_iff, Nat.eqb_neq in Hl. auto.
  - unfold conn_lost. cbv zeta.
    assert (H1 : PS c k (emit (OHandler HConnLost) (upd_conn c0 (set_c_st CClosed) w))).
    { apply (g_handler _ GK). apply PS_upd_ne; auto. apply Bool.negb_true_iff, Nat.eqb_neq in Hl. auto. }
    destruct (c_disc _).
    + apply pres_peering_connection_closed; auto.
    + apply pres_connection_failed; auto.
  - unfold data_received. cbv zeta.
    set (r := frame_loop _ _ _ _ _ _ _).
    assert (Hr : PS c k (upd_conn c0 (set_c_buf (snd (fst r))) (fst (fst r)))).
    { apply PS_upd_st; auto. apply PS_frame_loop. exact H. }
    destruct (snd r); auto; try (apply PS_emit; auto).
  - unfold fire_timer. destruct (t_dl (get_tm t w)) as [d|] eqn:E; auto. cbv zeta.
    assert (H1 : PS c k (set_tm t (mkTimer None (t_status (get_tm t (set_w_now d w)))) (set_w_now d w))).
    { apply PS_set_tm. eapply PS_frame; [| | |exact H]; reflexivity. }
    destruct t.
    + apply pres_connect_retry_time_event; auto.
    + apply pres_hold_time_event; auto.
    + apply pres_keep_alive_time_event; auto.
    + apply pres_delay_open_time_event; auto.
    + apply pres_idle_hold_time_event; auto.
  - eapply PS_frame; [| | |exact H]; reflexivity.
  - unfold peering_manual_stop. apply pres_manual_stop; auto.
  - apply pres_peering_manual_start; auto.
  - unfold api_send_update. destruct ok; auto. apply PS_with_proto; auto. intros w' H'.
    assert (E : upd_conn c (on_sent bump_upd) (conn_write c (WRaw b) w') = conn_write c (WRaw b) (upd_conn c (on_sent bump_upd) w')).
    { unfold conn_write. rewrite connected_upd by auto with keeps. destruct (conn_connected c w'); reflexivity. }
    rewrite E. apply (PS_send c k bump_upd (WRaw b) w'); auto.
    + cbn. rewrite Nat.eqb_refl. reflexivity.
    + intros a. apply stats_eq; cbn; lia.
  - unfold api_send_bin. apply PS_with_proto; auto. intros w' H'.
    assert (E : upd_conn c (on_sent bump_upd) (conn_write c (WRaw b) w') = conn_write c (WRaw b) (upd_conn c (on_sent bump_upd) w')).
    { unfold conn_write. rewrite connected_upd by auto with keeps. destruct (conn_connected c w'); reflexivity. }
    rewrite E. apply (PS_send c k bump_upd (WRaw b) w'); auto.
    + cbn. rewrite Nat.eqb_refl. reflexivity.
    + intros a. apply stats_eq; cbn; lia.
Qed.

(** over a whole history on the current connection: counters = what was there + everything
    written to it since *)
Theorem sent_counters_match : forall c es w,
  Good c w ->
  forallb (lifetime_event c) es = true ->
  c_sent (get_conn c (run D w es)) =
  stats_add (c_sent (get_conn c w)) (wcount c (run_outs D w es)).
Proof.
  intros c es. induction es as [|e es IH]; intros w Hg Hl.
  - cbn [run fold_left run_outs wcount]. stats_tac.
  - cbn in Hl. apply andb_true_iff in Hl. destruct Hl as [Hl1 Hl2].
    cbn [run fold_left run_outs].
    assert (Hs : PS c (c_sent (get_conn c w)) (step D w e)).
    { unfold step. 
      assert (H0 : PS c (c_sent (get_conn c w)) (set_w_out [] w)).
      { split; [eapply Good_frame; [| |exact Hg]; reflexivity|].
        change (c_sent (get_conn c w) = stats_add (c_sent (get_conn c w)) stats0). stats_tac. }
      destruct (enabled w e); auto. apply PS_event; auto. }
    destruct Hs as [Hg' Hc'].
    change (fold_left (step D) es (step D w e)) with (run D (step D w e) es).
    rewrite (IH (step D w e) Hg' Hl2). rewrite Hc'.
    rewrite wcount_app.
    assert (Hrev : forall l, wcount c (rev l) = wcount c l).
    { induction l as [|o l IHl]; cbn; auto. rewrite wcount_app, IHl. cbn.
      stats_tac. }
    rewrite Hrev. stats_tac.
Qed.
End Events.

(** ---- receive counters: what one dispatched frame adds ---- *)
From YV Require Import proof.SessionField.

Definition PRc := PG stats c_recv.
Lemma PRc_prims c v : prims_ok (PRc c v).
Proof. apply PG_prims; intros; reflexivity. Qed.

Definition recv_effect (D : decoders) (asn4 : bool) (ty : N) (msg : bytes) : stats -> stats :=
  if ty =? c_MSG_OPEN then bump_open
  else if ty =? c_MSG_UPDATE then
    match d_update D asn4 msg with UpExc => (fun s => s) | _ => bump_upd end
  else if ty =? c_MSG_NOTIFICATION then
    match msg with _ :: _ :: _ => bump_notif 1 | _ => (fun s => s) end
  else if ty =? c_MSG_KEEPALIVE then bump_ka
  else if (ty =? c_MSG_ROUTEREFRESH) || (ty =? c_MSG_CISCOROUTEREFRESH) then
    (if Nat.eqb (length msg) 4 then bump_rr else (fun s => s))
  else (fun s => s).

Lemma recv_bump c f w : (c < length (w_conns w))%nat ->
  PRc c (f (c_recv (get_conn c w))) (upd_conn c (on_recv f) w).
Proof.
  intros Hl. unfold PRc, PG, get_conn, upd_conn. cbn. rewrite nth_upd_nth.
  rewrite Nat.eqb_refl. apply Nat.ltb_lt in Hl. rewrite Hl. reflexivity.
Qed.

Lemma PRc_ka3 c v n w : PRc c v w -> PRc c v (set_w_ka3 n w). Proof. exact (fun H => H). Qed.
Lemma PRc_hold c v n w : PRc c v w -> PRc c v (set_w_hold n w). Proof. exact (fun H => H). Qed.
Lemma PRc_capr c v n w : PRc c v w -> PRc c v (set_w_capr n w). Proof. exact (fun H => H). Qed.

Lemma PRc_negotiate c v h w : PRc c v w -> PRc c v (negotiate_hold_time h w).
Proof.
  intros H. unfold negotiate_hold_time. cbv zeta.
  apply PRc_ka3.
  match goal with |- PRc _ _ (if ?b then _ else _) => destruct b end.
  - apply pres_open_message_error; [apply PRc_prims|]. apply PRc_hold. exact H.
  - apply PRc_hold. exact H.
Qed.

Lemma recv_counts D c ty msg w : (c < length (w_conns w))%nat ->
  c_recv (get_conn c (snd (dispatch D c ty msg w))) =
  recv_effect D (c_asn4 (get_conn c w)) ty msg (c_recv (get_conn c w)).
Proof.
  intros Hl. unfold dispatch, recv_effect.
  set (v0 := c_recv (get_conn c w)).
  assert (Hb : forall f, PRc c (f v0) (upd_conn c (on_recv f) w)) by (intros; apply recv_bump; auto).
  assert (H0 : PRc c v0 w) by reflexivity.
  destruct (ty =? c_MSG_OPEN).
  { unfold open_received. cbv zeta. specialize (Hb bump_open).
    destruct (d_open D msg) as [sub|sub| |asn hold caps]; cbn [snd].
    - apply (pres_header_error _ (PRc_prims c _)); auto.
    - apply (pres_open_message_error _ (PRc_prims c _)); auto.
    - exact Hb.
    - destruct (negb _); cbn [snd].
      + apply (pres_open_message_error _ (PRc_prims c _)); auto.
      + apply (PG_emit _ c_recv). apply (pres_open_received0 _ (PRc_prims c _)).
        apply PRc_negotiate.
        match goal with |- PRc _ _ (if ?b then _ else _) => destruct b end.
        * apply (PG_upd _ c_recv); [reflexivity|]. apply PRc_capr. exact Hb.
        * apply PRc_capr. exact Hb. }
  destruct (ty =? c_MSG_UPDATE).
  { unfold update_received. destruct (d_update D (c_asn4 (get_conn c w)) msg); cbn [snd].
    - apply (pres_update_received0 _ (PRc_prims c _)).
      assert (E : PRc c (bump_upd v0) (upd_conn c (on_recv bump_upd) (emit (OHandler HUpdate) w))).
      { apply recv_bump. exact Hl. }
      exact E.
    - apply (pres_update_received0 _ (PRc_prims c _)).
      assert (E : PRc c (bump_upd v0) (upd_conn c (on_recv bump_upd) (emit (OHandler HUpdateError) w))).
      { apply recv_bump. exact Hl. }
      exact E.
    - reflexivity. }
  destruct (ty =? c_MSG_NOTIFICATION).
  { unfold notification_received. destruct msg as [|e [|s r]]; cbn [snd]; try reflexivity.
    apply (pres_notification_received0 _ (PRc_prims c _)). apply (PG_emit _ c_recv). apply Hb. }
  destruct (ty =? c_MSG_KEEPALIVE).
  { unfold keepalive_received. cbv zeta.
    assert (E : PRc c (bump_ka v0) (emit (OHandler HKeepalive) (upd_conn c (on_recv bump_ka) w)))
      by (apply (PG_emit _ c_recv); apply Hb).
    destruct msg; cbn [snd].
    - apply (pres_keep_alive_received _ (PRc_prims c _)); auto.
    - apply (pres_header_error _ (PRc_prims c _)); auto. }
  destruct ((ty =? c_MSG_ROUTEREFRESH) || (ty =? c_MSG_CISCOROUTEREFRESH)).
  { unfold route_refresh_received. destruct (Nat.eqb (length msg) 4); cbn [snd]; try reflexivity.
    apply (PG_emit _ c_recv). apply Hb. }
  cbn [snd]. apply (pres_header_error _ (PRc_prims c _)); auto.
Qed.
