(** C20 -- proofs about the message-log model (model/YLog.v) against the audit (spec/LogSpec.v). *)
From YV Require Import lib.Base model.YLog spec.LogSpec.
From Coq Require Import ZArith Lia ZifyBool ZifyNat ZifyN.

(** ---- what the auditor sees of a model state ---- *)
Definition oline_of (l : line) : oline := match l with Full s => OComplete s | _ => OBad end.

(** lines of a file in file order; an unterminated last line is not a complete line *)
Definition file_olines (f : file) : list oline :=
  let ls := map oline_of (flines f) in
  rev (if fopen f then match ls with _ :: r => OBad :: r | [] => [] end else ls).

Definition observe (st : state) : observation :=
  Obs (rev (map file_olines (disk st))) (negb (exits st =? 0)) (nrep st).

(** ---- the exact guards ---- *)
Definition is_nil {A} (l : list A) : bool := match l with [] => true | _ => false end.

(** all lines of the directory, newest first *)
Definition dlines (d : list file) : list line := concat (map flines d).

(** (G-rot) original code only: no (re)start while the newest file is empty and an older file
    has lines, i.e. right after a rotation *)
Definition restart_ok (c : cfg) (d : list file) : bool :=
  fix_scan c || negb (is_nil (flines (head_file d))) || is_nil (dlines d).

(** (G-ser) original code only: the payload is serialisable *)
Definition payload_ok (c : cfg) (cb : callback) (ok : bool) : bool :=
  fix_ser c || ok || negb (has_payload cb).

(** (G-torn) both versions: a crash does not cut a line (no octet or all octets reach the disk) *)
Definition cut_ok (sz k : N) : bool := (k =? 0) || (sz <=? k).

Definition admissible (c : cfg) (st : state) (e : event) : bool :=
  match e with
  | Ev cb ok _ => payload_ok c cb ok
  | Restart => restart_ok c (disk st)
  | Crash cb ok sz k =>
      cut_ok sz k && payload_ok c cb ok && restart_ok c (disk (crash_write c cb ok sz k st))
  end.

Fixpoint admissible_run (c : cfg) (thr : N) (st : state) (h : history) : bool :=
  match h with
  | [] => true
  | e :: r => admissible c st e && admissible_run c thr (step c thr st e) r
  end.

(** for the repaired code the guard is a property of the history alone *)
Definition no_torn (h : history) : bool :=
  forallb (fun e => match e with Crash _ _ sz k => cut_ok sz k | _ => true end) h.

(** ---- invariant ---- *)
Fixpoint desc (k : nat) : list line :=
  match k with O => [] | S k' => Full (N.of_nat (S k')) :: desc k' end.

Fixpoint asc (s : N) (k : nat) : list N :=
  match k with O => [] | S k' => s :: asc (s + 1) k' end.

Definition dinv (k : nat) (d : list file) : Prop :=
  d <> [] /\ Forall (fun f => fopen f = false) d /\ dlines d = desc k.

Definition inv (k : nat) (st : state) : Prop :=
  dinv k (disk st) /\ alive st = Some (N.of_nat k + 1) /\ exits st = 0 /\ nrep st = N.of_nat k.

Lemma scan_desc : forall d k, dlines d = desc k -> scan d = Some (N.of_nat k).
Proof.
  induction d as [|f r IH]; intros k H.
  - destruct k; [reflexivity | discriminate].
  - unfold dlines in *. cbn [map concat] in H. cbn [scan].
    destruct (flines f) as [|l ls]; cbn [app] in H.
    + apply IH; exact H.
    + destruct k; cbn [desc] in H; [discriminate|].
      injection H as -> _. reflexivity.
Qed.

Lemma get_last_ok c d k :
  restart_ok c d = true -> dlines d = desc k -> get_last c d = Some (N.of_nat k).
Proof.
  unfold get_last, restart_ok. destruct (fix_scan c).
  - intros _. apply scan_desc.
  - cbn [orb]. destruct d as [|f r].
    + intros _ H. destruct k; [reflexivity | discriminate].
    + unfold dlines. cbn [head_file newest_only map concat].
      destruct (flines f) as [|l ls]; cbn [is_nil negb orb app].
      * intros Hn H. destruct (concat (map flines r)); [|discriminate].
        destruct k; [reflexivity | discriminate].
      * intros _ H. destruct k; cbn [desc] in H; [discriminate|].
        injection H as -> _. reflexivity.
Qed.

Lemma init_inv c k d a nr :
  dinv k d -> restart_ok c d = true -> nr = N.of_nat k -> inv k (init c (State d a 0 nr)).
Proof.
  intros (Hne & Hcl & Hl) Hr ->. unfold init. cbn [disk exits nrep].
  rewrite (get_last_ok c d k Hr Hl).
  destruct d as [|f r]; [contradiction|].
  repeat split; auto.
Qed.

Lemma start_inv c : inv 0 (start_on c []).
Proof.
  unfold start_on, init, get_last. cbn. destruct (fix_scan c); cbn;
    (repeat split; auto; [discriminate | repeat constructor]).
Qed.

Lemma dinv_write k d sz :
  dinv k d -> dinv (S k) (set_head (append (Full (N.of_nat k + 1)) sz (head_file d)) d).
Proof.
  intros (Hne & Hcl & Hl). destruct d as [|f r]; [contradiction|].
  cbn [head_file set_head]. inversion Hcl as [|? ? Hf Hr]; subst.
  unfold append. rewrite Hf.
  split; [discriminate|]. split.
  - constructor; [reflexivity | assumption].
  - unfold dlines in *. cbn [map concat flines] in *. cbn [app desc]. rewrite Hl.
    f_equal. f_equal. lia.
Qed.

Lemma dinv_rotate k d : dinv k d -> dinv k (empty_file :: d).
Proof.
  intros (Hne & Hcl & Hl). split; [discriminate|]. split.
  - constructor; [reflexivity | assumption].
  - exact Hl.
Qed.

Lemma set_head_head d : d <> [] -> set_head (head_file d) d = d.
Proof. destruct d; [contradiction | reflexivity]. Qed.

Lemma the_line_ok c cb ok n : payload_ok c cb ok = true -> the_line c cb ok n = Full n.
Proof.
  unfold payload_ok, the_line.
  destruct (fix_ser c), ok, (has_payload cb); cbn; intros H; try reflexivity; discriminate.
Qed.

Lemma mk_inv k d a ex nr :
  dinv k d -> a = Some (N.of_nat k + 1) -> ex = 0 -> nr = N.of_nat k -> inv k (State d a ex nr).
Proof. intros. repeat split; cbn [disk alive exits nrep]; try apply H; assumption. Qed.

Lemma step_inv c thr k st e :
  inv k st -> admissible c st e = true -> exists k', inv k' (step c thr st e).
Proof.
  destruct st as [d a ex nr]. intros (Hd & Ha & He & Hn). cbn [disk alive exits nrep] in *. subst.
  destruct e as [cb ok sz | | cb ok sz j]; cbn [admissible step].
  - (* callback *)
    intros Hp. unfold callback_step.
    destruct (writes cb); [|exists k; apply mk_inv; auto].
    unfold write_msg. cbn [alive disk exits nrep]. rewrite (the_line_ok _ _ _ _ Hp).
    pose proof (dinv_write k d sz Hd) as Hw.
    assert (E1 : Some (N.of_nat k + 1 + 1) = Some (N.of_nat (S k) + 1)) by (f_equal; lia).
    assert (E2 : N.of_nat k + 1 = N.of_nat (S k)) by lia.
    destruct (checks_size cb); [|exists (S k); apply mk_inv; auto].
    unfold check_file_size. cbn [alive disk exits nrep].
    match goal with |- context [if ?b then _ else _] => destruct b end;
      exists (S k); apply mk_inv; auto using dinv_rotate.
  - (* clean restart *)
    intros Hr. exists k. unfold kill. cbn [disk alive exits nrep] in *.
    apply init_inv; auto.
  - (* crash during a write that is not cut *)
    rewrite !andb_true_iff. intros ((Hc & Hp) & Hr).
    unfold crash_write in *. cbn [alive disk exits nrep] in *.
    destruct (writes cb).
    + rewrite (the_line_ok _ _ _ _ Hp) in *. cbn [disk] in Hr. unfold kill. cbn [disk alive exits nrep].
      unfold cut_append in *. unfold cut_ok in Hc.
      destruct (j =? 0) eqn:Ej.
      * rewrite andb_false_r. rewrite set_head_head in * by apply Hd.
        exists k. apply init_inv; auto. lia.
      * cbn [orb] in Hc. rewrite Hc in *. cbn [andb negb].
        exists (S k). apply init_inv; auto; [apply dinv_write; exact Hd | lia].
    + exists k. unfold kill. cbn [disk alive exits nrep] in *. apply init_inv; auto.
Qed.

Lemma run_inv c thr : forall h st k,
  inv k st -> admissible_run c thr st h = true -> exists k', inv k' (fold_left (step c thr) h st).
Proof.
  induction h as [|e r IH]; intros st k Hi Ha; cbn [fold_left].
  - exists k; exact Hi.
  - cbn [admissible_run] in Ha. apply andb_true_iff in Ha. destruct Ha as (Ha & Hr).
    destruct (step_inv c thr k st e Hi Ha) as (k' & Hi').
    apply (IH _ k' Hi' Hr).
Qed.

(** ---- the invariant implies the audit ---- *)
Lemma concat_rev_rev {A} (l : list (list A)) : concat (rev (map (@rev A) l)) = rev (concat l).
Proof.
  induction l as [|a l IH]; [reflexivity|].
  cbn [map rev concat]. rewrite concat_app, IH. cbn [concat]. rewrite app_nil_r, rev_app_distr.
  reflexivity.
Qed.

Lemma closed_olines d : Forall (fun f => fopen f = false) d ->
  map file_olines d = map (@rev oline) (map (map oline_of) (map flines d)).
Proof.
  induction 1 as [|f r Hf _ IH]; [reflexivity|].
  cbn [map]. rewrite IH. unfold file_olines at 1. rewrite Hf. reflexivity.
Qed.

Lemma asc_snoc : forall k s, asc s (S k) = asc s k ++ [s + N.of_nat k].
Proof.
  induction k as [|k IH]; intros s.
  - cbn [asc app]. f_equal. lia.
  - change (asc s (S (S k))) with (s :: asc (s + 1) (S k)). rewrite IH.
    cbn [asc app]. f_equal. f_equal. f_equal. lia.
Qed.

Lemma asc_length : forall k s, length (asc s k) = k.
Proof. induction k; intros; cbn [asc length]; auto. Qed.

Lemma rev_desc : forall k, rev (map oline_of (desc k)) = map OComplete (asc 1 k).
Proof.
  induction k as [|k IH]; [reflexivity|].
  rewrite asc_snoc, map_app. cbn [desc map rev oline_of]. rewrite IH. f_equal. f_equal. f_equal. lia.
Qed.

Lemma consecutive_after_asc : forall k p, consecutive_after p (map OComplete (asc (p + 1) k)) = true.
Proof.
  induction k as [|k IH]; intros p; [reflexivity|].
  cbn [asc map consecutive_after]. rewrite N.eqb_refl. apply IH.
Qed.

Lemma consecutive_asc k : consecutive (map OComplete (asc 1 k)) = true.
Proof.
  destruct k; [reflexivity|]. cbn [asc map consecutive]. apply (consecutive_after_asc k 1).
Qed.

Lemma observe_lines st k : inv k st -> all_lines (observe st) = map OComplete (asc 1 k).
Proof.
  intros ((_ & Hcl & Hl) & _). unfold all_lines, observe. cbn [files].
  rewrite (closed_olines _ Hcl), concat_rev_rev, <- concat_map.
  unfold dlines in Hl. rewrite Hl. apply rev_desc.
Qed.

Lemma audit_inv st k : inv k st -> audit (observe st) = true.
Proof.
  intros Hi. unfold audit. rewrite (observe_lines st k Hi).
  destruct Hi as (_ & _ & He & Hn).
  rewrite consecutive_asc, map_length, asc_length. unfold observe. cbn [refused reported].
  rewrite He, Hn. cbn. apply N.eqb_refl.
Qed.

(** ---- main results ---- *)
(** any code version, any threshold, any history along which the guards hold *)
Lemma audit_admissible c thr h :
  admissible_run c thr (start_on c []) h = true -> audit (observe (run c thr h)) = true.
Proof.
  intros Ha. destruct (run_inv c thr h _ 0 (start_inv c) Ha) as (k & Hi).
  apply (audit_inv _ k Hi).
Qed.

Lemma fixed_admissible thr : forall h st, no_torn h = true -> admissible_run cfg_fixed thr st h = true.
Proof.
  induction h as [|e r IH]; intros st H; [reflexivity|].
  cbn [no_torn forallb] in H. apply andb_true_iff in H. destruct H as (He & Hr).
  cbn [admissible_run]. rewrite (IH _ Hr), andb_true_r.
  destruct e; cbn [admissible]; unfold payload_ok, restart_ok; cbn [cfg_fixed fix_ser fix_scan orb];
    try reflexivity.
  rewrite He. reflexivity.
Qed.

(** repaired code: every history without a crash that cuts a line passes the audit *)
Lemma audit_fixed thr h : no_torn h = true -> audit (observe (run cfg_fixed thr h)) = true.
Proof. intros H. apply audit_admissible, fixed_admissible, H. Qed.

(** consecutive numbering means no number is used twice (stated on the spec alone) *)
Lemma consecutive_after_lt : forall ls p, consecutive_after p ls = true ->
  Forall (fun s => p < s) (seqs ls) /\ NoDup (seqs ls).
Proof.
  induction ls as [|[s|] r IH]; intros p H; cbn [seqs flat_map app] in *.
  - split; constructor.
  - cbn [consecutive_after] in H. apply andb_true_iff in H. destruct H as (Hs & Hr).
    apply N.eqb_eq in Hs. destruct (IH s Hr) as (Hlt & Hnd). fold (seqs r) in *.
    split.
    + constructor; [lia|]. eapply Forall_impl; [|exact Hlt]. cbn. intros; lia.
    + constructor; [|exact Hnd]. intros Hin.
      rewrite Forall_forall in Hlt. specialize (Hlt _ Hin). lia.
  - discriminate.
Qed.

Lemma consecutive_nodup ls : consecutive ls = true -> NoDup (seqs ls).
Proof.
  destruct ls as [|[s|] r]; cbn [consecutive]; intros H.
  - constructor.
  - destruct (consecutive_after_lt r s H) as (Hlt & Hnd). cbn [seqs flat_map app]. fold (seqs r).
    constructor; [|exact Hnd]. intros Hin. rewrite Forall_forall in Hlt. specialize (Hlt _ Hin). lia.
  - discriminate.
Qed.

(** ---- refutation witnesses: the histories harness/props/c20.py replays first on the implementation
    (payloads 0, 1, 7 of its pool; sizes are the octet counts of the real lines) ---- *)
(** W1 (both versions): send_open is logged, then the process dies after 10 of the 52 octets of
    the next record; the restart reads the torn tail and exits *)
Definition w_torn : history := [Ev SendOpen true 52; Crash OpenReceived true 52 10].
(** W1' : the record is complete but its newline is missing; the restart succeeds, the next
    record is glued to it, and the following restart exits *)
Definition w_torn_nl : history :=
  [Ev SendOpen true 52; Crash OpenReceived true 52 51; Ev SendOpen true 52; Restart].
(** W2 (original code): threshold 100 octets; every update fills its file, a new empty file is
    opened, the agent restarts and numbers the next record 1 again *)
Definition w_rot : history :=
  [Ev UpdateReceived true 147; Ev UpdateReceived true 147; Restart; Ev SendOpen true 52].
(** W3 (original code): a payload the serialiser rejects leaves half a line and a newline *)
Definition w_ser : history := [Ev OpenReceived false 49; Ev SendOpen true 52].

Lemma refuted_torn_fixed : audit (observe (run cfg_fixed 1000 w_torn)) = false /\
                           exits (run cfg_fixed 1000 w_torn) = 1.
Proof. vm_compute. split; reflexivity. Qed.
Lemma refuted_torn_nl_fixed : audit (observe (run cfg_fixed 1000 w_torn_nl)) = false /\
                              exits (run cfg_fixed 1000 w_torn_nl) = 1.
Proof. vm_compute. split; reflexivity. Qed.
Lemma refuted_torn_orig : audit (observe (run cfg_orig 1000 w_torn)) = false.
Proof. vm_compute. reflexivity. Qed.
Lemma refuted_rot_orig : audit (observe (run cfg_orig 100 w_rot)) = false /\
                         alive (run cfg_orig 100 [Ev UpdateReceived true 147; Ev UpdateReceived true 147; Restart])
                         = Some 1.
Proof. vm_compute. split; reflexivity. Qed.
Lemma refuted_ser_orig : audit (observe (run cfg_orig 1000 w_ser)) = false.
Proof. vm_compute. reflexivity. Qed.
(** the same two histories pass on the repaired code *)
Lemma repaired_rot_ser : audit (observe (run cfg_fixed 100 w_rot)) = true /\
                         audit (observe (run cfg_fixed 1000 w_ser)) = true.
Proof. vm_compute. split; reflexivity. Qed.
