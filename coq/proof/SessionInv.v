(** Invariants of the session model carried by every event (for arbitrary decoders). *)
From YV Require Import lib.Base model.YWorld model.YProto gen.Consts gen.FsmGen model.YFraming
  model.YSession proof.SessionPres.
From Coq Require Import Arith PeanoNat.

Definition noexc (w : world) : Prop := ~ In OExc (w_out w) /\ ~ In OFuel (w_out w).

(** "the FSM tracks connection c, the delay-open timer is not armed, nothing escaped so far" *)
Definition PT (c : nat) (w : world) : Prop :=
  w_proto w = Some c /\ t_dl (w_tdo w) = None /\ noexc w.

Lemma in_emit o x w : In o (w_out (emit x w)) <-> o = x \/ In o (w_out w).
Proof. unfold emit. cbn. intuition congruence. Qed.

Ltac prim_tac :=
  intros; unfold PT, noexc in *;
  repeat match goal with
         | H : _ /\ _ |- _ => destruct H
         end.

Lemma w_out_upd_conn c f w : w_out (upd_conn c f w) = w_out w.
Proof. reflexivity. Qed.
Lemma w_proto_upd_conn c f w : w_proto (upd_conn c f w) = w_proto w.
Proof. reflexivity. Qed.

Lemma PT_emit c o w : o <> OExc -> o <> OFuel -> PT c w -> PT c (emit o w).
Proof.
  prim_tac. repeat split; auto; rewrite in_emit; intuition congruence.
Qed.
Lemma PT_upd_conn c c' f w : PT c w -> PT c (upd_conn c' f w).
Proof. prim_tac. repeat split; auto. Qed.
Lemma PT_conn_write c c' m w : PT c w -> PT c (conn_write c' m w).
Proof.
  intros H. unfold conn_write. destruct (conn_connected c' w); auto.
  apply PT_emit; auto; discriminate.
Qed.
Lemma PT_set_tm c t v w : (t = TDelayOpen -> t_dl v = None) -> PT c w -> PT c (set_tm t v w).
Proof. prim_tac. destruct t; cbn; repeat split; auto. Qed.

Lemma PT_prims c : prims_ok (PT c).
Proof.
  constructor.
  - (* set_state *) intros s w H. unfold set_state. destruct (bst_eqb s (w_state w)); auto.
    destruct s; try (prim_tac; repeat split; auto; fail).
    apply PT_emit; try discriminate. prim_tac; repeat split; auto.
  - intros t d w Ht H. unfold tm_reset. apply PT_set_tm; auto. intros; congruence.
  - intros t w H. unfold tm_cancel. apply PT_set_tm; auto.
    intros ->. unfold cancel_timer. cbn. destruct H as (_ & Hd & _). rewrite Hd. exact Hd.
  - intros t w H. unfold tm_active. cbn [snd]. apply PT_set_tm; auto.
    intros ->. cbn. apply H.
  - prim_tac; repeat split; auto.
  - prim_tac; repeat split; auto.
  - prim_tac; repeat split; auto.
  - prim_tac; repeat split; auto.
  - (* send_open *) intros w H. unfold p_send_open, with_proto. destruct H as (Hp & Hr). rewrite Hp.
    assert (H : PT c w) by (split; auto). clear Hr.
    unfold conn_send_open. cbv beta zeta.
    apply PT_emit; try discriminate. apply PT_upd_conn. apply PT_conn_write.
    unfold capability_negotiate. destruct (w_capr w); auto;
    try (prim_tac; repeat split; auto).
  - intros w H. unfold p_send_keepalive, with_proto. destruct H as (Hp & Hr). rewrite Hp.
    unfold conn_send_keepalive. apply PT_conn_write, PT_upd_conn. split; auto.
  - intros code s d w H. unfold p_send_notification, with_proto. destruct H as (Hp & Hr). rewrite Hp.
    unfold conn_send_notification. apply PT_conn_write, PT_upd_conn. split; auto.
  - intros w H. unfold p_close_connection, with_proto. destruct H as (Hp & Hr). rewrite Hp.
    assert (H : PT c w) by (split; auto). clear Hr.
    unfold conn_close. destruct (conn_connected c w); auto.
    apply PT_upd_conn. destruct (c_closing (get_conn c w)); auto.
    apply PT_emit; auto; discriminate.
  - intros w H. unfold peering_connect. destruct (st_is w StEstablished); auto.
    apply PT_emit; try discriminate. prim_tac; repeat split; auto.
Qed.

(** ---- connection buffers are untouched by everything except the framing code itself ---- *)
Lemma nth_upd_nth {A} (d : A) f : forall l c c',
  nth c (upd_nth c' f l) d = if (Nat.eqb c c') && (Nat.ltb c (length l)) then f (nth c l d) else nth c l d.
Proof.
  induction l as [|x l IH]; intros c c'.
  - cbn. destruct c, c'; cbn; try reflexivity; try (rewrite andb_false_r; reflexivity).
  - destruct c', c; cbn [upd_nth nth length]; try reflexivity.
    rewrite IH. cbn. reflexivity.
Qed.

Lemma length_upd_nth {A} (f : A -> A) : forall l c, length (upd_nth c f l) = length l.
Proof. induction l as [|x l IH]; intros c; destruct c; cbn; auto. Qed.

Lemma nth_app_default {A} (d : A) l c : nth c (l ++ [d]) d = nth c l d.
Proof.
  revert c; induction l as [|x l IH]; intros c; cbn.
  - destruct c as [|[|c]]; reflexivity.
  - destruct c; auto.
Qed.


Lemma buf_upd_conn c c' f w : keeps_buf f ->
  c_buf (get_conn c (upd_conn c' f w)) = c_buf (get_conn c w).
Proof.
  intros Hf. unfold get_conn, upd_conn. cbn. rewrite nth_upd_nth.
  destruct (Nat.eqb c c' && Nat.ltb c (length (w_conns w))); auto. apply Hf.
Qed.

Definition PB (c : nat) (b : bytes) (w : world) : Prop := c_buf (get_conn c w) = b.

Lemma keeps_on_sent f : keeps_buf (on_sent f). Proof. intro; repeat split; auto. Qed.
Lemma keeps_lose : keeps_buf lose_conn. Proof. intro; repeat split; auto. Qed.
#[export] Hint Resolve keeps_on_sent keeps_lose : keeps.

Lemma PB_frame c b w w' : w_conns w' = w_conns w -> PB c b w -> PB c b w'.
Proof. unfold PB, get_conn. intros ->. auto. Qed.

Lemma PB_upd c b c' f w : keeps_buf f -> PB c b w -> PB c b (upd_conn c' f w).
Proof. unfold PB. intros Hf H. rewrite buf_upd_conn; auto. Qed.

Lemma PB_emit c b o w : PB c b w -> PB c b (emit o w).
Proof. apply PB_frame. reflexivity. Qed.
Lemma PB_conn_write c b c' m w : PB c b w -> PB c b (conn_write c' m w).
Proof. intros H. unfold conn_write. destruct (conn_connected c' w); auto; try (apply PB_emit; auto). Qed.
Lemma PB_set_tm c b t v w : PB c b w -> PB c b (set_tm t v w).
Proof. apply PB_frame. destruct t; reflexivity. Qed.

Lemma PB_with_proto c b f w :
  (forall c' w, PB c b w -> PB c b (f c' w)) -> PB c b w -> PB c b (with_proto f w).
Proof.
  intros Hf H. unfold with_proto. destruct (w_proto w); auto; try (apply PB_emit; auto).
Qed.

Lemma PB_prims c b : prims_ok (PB c b).
Proof.
  constructor.
  - intros s w H. unfold set_state. destruct (bst_eqb s (w_state w)); auto.
    destruct s; eapply PB_frame; [|exact H| |exact H| |exact H| |exact H| |exact H| |exact H]; reflexivity.
  - intros; unfold tm_reset; apply PB_set_tm; auto.
  - intros; unfold tm_cancel; apply PB_set_tm; auto.
  - intros; unfold tm_active; cbn [snd]; apply PB_set_tm; auto.
  - intros n w H; eapply PB_frame; [|exact H]; reflexivity.
  - intros n w H; eapply PB_frame; [|exact H]; reflexivity.
  - intros n w H; eapply PB_frame; [|exact H]; reflexivity.
  - intros n w H; eapply PB_frame; [|exact H]; reflexivity.
  - intros w H. apply PB_with_proto; auto. intros c' w' H'. unfold conn_send_open. cbv beta zeta.
    apply PB_emit, PB_upd; auto with keeps. apply PB_conn_write.
    unfold capability_negotiate. destruct (w_capr w'); auto;
    try (eapply PB_frame; [|exact H']; reflexivity).
  - intros w H. apply PB_with_proto; auto. intros c' w' H'. unfold conn_send_keepalive.
    apply PB_conn_write, PB_upd; auto with keeps.
  - intros code s d w H. apply PB_with_proto; auto. intros c' w' H'. unfold conn_send_notification.
    apply PB_conn_write, PB_upd; auto with keeps.
  - intros w H. apply PB_with_proto; auto. intros c' w' H'. unfold conn_close.
    destruct (conn_connected c' w'); auto. apply PB_upd; auto with keeps.
    destruct (c_closing (get_conn c' w')); auto; try (apply PB_emit; auto).
  - intros w H. unfold peering_connect. destruct (st_is w StEstablished); auto.
    apply PB_emit. unfold PB, get_conn in *. cbn. rewrite nth_app_default. exact H.
Qed.

Lemma prims_ok_and (P Q : world -> Prop) : prims_ok P -> prims_ok Q -> prims_ok (fun w => P w /\ Q w).
Proof.
  intros [a1 a2 a3 a4 a5 a6 a7 a8 a9 a10 a11 a12 a13] [b1 b2 b3 b4 b5 b6 b7 b8 b9 b10 b11 b12 b13].
  constructor; intros; match goal with H : _ /\ _ |- _ => destruct H end; split; auto.
Qed.

Lemma PT_glue c : glue_ok (PT c).
Proof.
  constructor.
  - intros h w H. apply PT_emit; auto; discriminate.
  - intros c' f w _ H. apply PT_upd_conn; auto.
  - prim_tac; repeat split; auto.
  - prim_tac; repeat split; auto.
  - prim_tac; repeat split; auto.
Qed.
Lemma PB_glue c b : glue_ok (PB c b).
Proof.
  constructor.
  - intros; apply PB_emit; auto.
  - intros c0 f w [Hf _] H; apply PB_upd; auto.
  - intros n w H; eapply PB_frame; [|exact H]; reflexivity.
  - intros n w H; eapply PB_frame; [|exact H]; reflexivity.
  - intros n w H; eapply PB_frame; [|exact H]; reflexivity.
Qed.
Lemma glue_ok_and (P Q : world -> Prop) : glue_ok P -> glue_ok Q -> glue_ok (fun w => P w /\ Q w).
Proof.
  intros [a1 a2 a3 a4 a5] [b1 b2 b3 b4 b5].
  constructor; intros; match goal with H : _ /\ _ |- _ => destruct H end; split; auto.
Qed.

(** ---- the framing loop never runs out of fuel and never lets anything escape ---- *)
Section Loop.
Variable D : decoders.
Variable c : nat.
Notation LOOP := (frame_loop world (dispatch D c) (fun sub d w => F_header_error sub d w)
                             (conn_closed_by_us c)).
Notation PARSE1 := (parse1 world (dispatch D c) (fun sub d w => F_header_error sub d w)).

Lemma len_lt_19 (b : bytes) : (len b <? c_HDR_LEN) = false -> (19 <= length b)%nat.
Proof. unfold len, c_HDR_LEN. intros H. apply N.ltb_ge in H. lia. Qed.

Lemma parse1_spec p buf w :
  PT p w ->
  match PARSE1 buf w with
  | PNeed => True
  | PErr w' => PT p w'
  | PStuck w' => PT p w'
  | PMsg w' rest => PT p w' /\ (length rest < length buf)%nat
  end.
Proof.
  intros H. unfold parse1. cbv zeta.
  destruct (len buf <? c_HDR_LEN) eqn:E1; [exact I|].
  destruct (negb (bytes_eqb (take 16 buf) (YFraming.marker)));
    [apply pres_header_error; auto using PT_prims|].
  set (length_ := unbe (slice 16 18 buf)).
  destruct ((length_ <? c_HDR_LEN) || (c_MAX_LEN <? length_)) eqn:E2;
    [apply pres_header_error; auto using PT_prims|].
  destruct (len buf <? length_) eqn:E3; [exact I|].
  assert (Hd : PT p (snd (dispatch D c (nth 18 buf 0) (slice 19 (N.to_nat length_) buf) w))).
  { apply pres_dispatch; auto using PT_prims, PT_glue. }
  destruct (fst (dispatch D c (nth 18 buf 0) (slice 19 (N.to_nat length_) buf) w)); auto.
  split; auto.
  assert (Hl : (19 <= length buf)%nat) by (apply len_lt_19; auto).
  unfold drop. rewrite skipn_length.
  unfold c_HDR_LEN, c_MAX_LEN, len in *. apply N.ltb_ge in E3. lia.
Qed.

Lemma frame_loop_ok p : forall fuel buf w,
  (length buf < fuel)%nat -> PT p w ->
  PT p (fst (fst (LOOP fuel buf w))) /\ snd (LOOP fuel buf w) = true.
Proof.
  induction fuel as [|fuel IH]; intros buf w Hf H; [lia|].
  cbn [frame_loop].
  pose proof (parse1_spec p buf w H) as Hs.
  destruct (PARSE1 buf w) as [|w'|w'|w' rest]; cbn [fst snd]; auto.
  destruct Hs as [Hs1 Hs2].
  destruct (conn_closed_by_us c w'); cbn [fst snd]; auto.
  apply IH; auto. lia.
Qed.

Lemma data_received_ok p data w : PT p w -> PT p (data_received D c data w).
Proof.
  intros H. unfold data_received. cbv zeta.
  destruct (frame_loop_ok p (S (length (c_buf (get_conn c w) ++ data))) (c_buf (get_conn c w) ++ data) w
              ltac:(lia) H) as [H1 H2].
  rewrite H2. apply PT_upd_conn; auto.
Qed.
End Loop.
