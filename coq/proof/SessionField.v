(** A field of a connection record that sending / closing does not touch is left alone by
    every FSM method (generic: receive counters, decode mode, ...). *)
From YV Require Import lib.Base model.YWorld model.YProto gen.Consts gen.FsmGen model.YFraming
  model.YSession proof.SessionPres proof.SessionInv.
From Coq Require Import Arith PeanoNat.

Section Field.
Variable A : Type.
Variable g : conn -> A.
Hypothesis g_sent : forall f k, g (on_sent f k) = g k.
Hypothesis g_lose : forall k, g (lose_conn k) = g k.

Definition PG (c : nat) (v : A) (w : world) : Prop := g (get_conn c w) = v.

Lemma PG_frame c v w w' : w_conns w' = w_conns w -> PG c v w -> PG c v w'.
Proof. unfold PG, get_conn. intros ->. auto. Qed.
Lemma PG_upd c v c' f w : (forall k, g (f k) = g k) -> PG c v w -> PG c v (upd_conn c' f w).
Proof.
  unfold PG, get_conn, upd_conn. cbn. intros Hf H. rewrite nth_upd_nth.
  destruct (Nat.eqb c c' && Nat.ltb c (length (w_conns w))); auto. rewrite Hf. auto.
Qed.
Lemma PG_emit c v o w : PG c v w -> PG c v (emit o w).
Proof. apply PG_frame; reflexivity. Qed.
Lemma PG_conn_write c v c' m w : PG c v w -> PG c v (conn_write c' m w).
Proof. intros H. unfold conn_write. destruct (conn_connected c' w); auto; try (apply PG_emit; auto). Qed.
Lemma PG_set_tm c v t x w : PG c v w -> PG c v (set_tm t x w).
Proof. apply PG_frame; destruct t; reflexivity. Qed.
Lemma PG_with_proto c v f w :
  (forall c' w, PG c v w -> PG c v (f c' w)) -> PG c v w -> PG c v (with_proto f w).
Proof. intros Hf H. unfold with_proto. destruct (w_proto w); auto; try (apply PG_emit; auto). Qed.

Lemma PG_prims c v : prims_ok (PG c v).
Proof.
  constructor.
  - intros s w H. unfold set_state. destruct (bst_eqb s (w_state w)); auto.
    destruct s; eapply PG_frame; [|exact H| |exact H| |exact H| |exact H| |exact H| |exact H]; reflexivity.
  - intros; unfold tm_reset; apply PG_set_tm; auto.
  - intros; unfold tm_cancel; apply PG_set_tm; auto.
  - intros; unfold tm_active; cbn [snd]; apply PG_set_tm; auto.
  - intros n w H; eapply PG_frame; [|exact H]; reflexivity.
  - intros n w H; eapply PG_frame; [|exact H]; reflexivity.
  - intros n w H; eapply PG_frame; [|exact H]; reflexivity.
  - intros n w H; eapply PG_frame; [|exact H]; reflexivity.
  - intros w H. apply PG_with_proto; auto. intros c' w' H'. unfold conn_send_open. cbv beta zeta.
    apply PG_emit, PG_upd; auto. apply PG_conn_write.
    unfold capability_negotiate. destruct (w_capr w'); auto;
      try (eapply PG_frame; [|exact H']; reflexivity).
  - intros w H. apply PG_with_proto; auto. intros c' w' H'. unfold conn_send_keepalive.
    apply PG_conn_write, PG_upd; auto.
  - intros code s d w H. apply PG_with_proto; auto. intros c' w' H'. unfold conn_send_notification.
    apply PG_conn_write, PG_upd; auto.
  - intros w H. apply PG_with_proto; auto. intros c' w' H'. unfold conn_close.
    destruct (conn_connected c' w'); auto. apply PG_upd; auto.
    destruct (c_closing (get_conn c' w')); auto; try (apply PG_emit; auto).
  - intros w H. unfold peering_connect. destruct (st_is w StEstablished); auto.
    apply PG_emit. unfold PG, get_conn in *. cbn. rewrite nth_app_default. exact H.
Qed.
End Field.
