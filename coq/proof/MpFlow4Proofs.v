(** C07, IPv4 flowspec: the numeric-operator list codec ("=a|>=b|<c", values on 1, 2 or 4
    octets) decodes to itself.  (Component / rule / attribute framing: model and correspondence
    only, no theorem yet.) *)
From YV Require Import lib.Base gen.Consts model.YMp model.YFlow4 proof.MpBytesLemmas.
From Coq Require Import ZArith ZifyBool ZifyNat ZifyN.
Ltac Zify.zify_post_hook ::= Z.to_euclidean_division_equations.

(** comparison bits below 8 (=1, >2, >=3, <4, <=5), value below 2^32 (written on 1, 2 or 4 octets) *)
Definition wf_op (o : op) : Prop := fst o < 8 /\ snd o < 2 ^ 32.

Lemma nbytes_unfold f v : nbytes_fuel (S f) v = if v <? 256 then 1%nat else S (nbytes_fuel f (v / 256)).
Proof. reflexivity. Qed.

Lemma nbytes_cases v : v < 2 ^ 32 ->
  exists q, q < 3 /\ nbytes v = N.to_nat (2 ^ q) /\ len_code (nbytes v) = Ok (16 * q) /\ v < 256 ^ (2 ^ q).
Proof.
  intros H. unfold nbytes, nbytes_raw. change 40%nat with (S (S (S (S 36)))). rewrite !nbytes_unfold.
  destruct (v <? 256) eqn:E1.
  { exists 0. apply N.ltb_lt in E1. repeat split; try reflexivity. exact E1. }
  apply N.ltb_ge in E1.
  destruct (v / 256 <? 256) eqn:E2.
  { exists 1. apply N.ltb_lt in E2. repeat split; try reflexivity. change (256 ^ 2 ^ 1) with 65536. lia. }
  apply N.ltb_ge in E2.
  destruct (v / 256 / 256 <? 256) eqn:E3.
  { exists 2. repeat split; try reflexivity. change (256 ^ 2 ^ 2) with (2 ^ 32). lia. }
  apply N.ltb_ge in E3.
  destruct (v / 256 / 256 / 256 <? 256) eqn:E4.
  { exists 2. repeat split; try reflexivity. change (256 ^ 2 ^ 2) with (2 ^ 32). lia. }
  apply N.ltb_ge in E4. exfalso. lia.
Qed.

Lemma flag_fields eol q c : c < 8 -> q < 3 -> (eol = 0 \/ eol = 128) ->
  ((eol + 16 * q + c) / 16) mod 4 = q /\ ((eol + 16 * q + c) / 64) mod 2 = 0 /\
  (eol + 16 * q + c) mod 8 = c /\ ((eol + 16 * q + c) / 128) mod 2 = eol / 128.
Proof. intros Hc Hq [-> | ->]; repeat split; lia. Qed.

Lemma parse_item f eol q c v tail :
  c < 8 -> q < 3 -> v < 256 ^ (2 ^ q) -> (eol = 0 \/ eol = 128) ->
  fs_parse_ops (S f) ((eol + 16 * q + c) :: be (N.to_nat (2 ^ q)) v ++ tail) =
  if eol =? 128 then Ok ([(0, c, v)], (1 + N.to_nat (2 ^ q) + 1)%nat)
  else bind (fs_parse_ops f tail) (fun '(t, off) => Ok ((0, c, v) :: t, (1 + N.to_nat (2 ^ q) + off)%nat)).
Proof.
  intros Hc Hq Hv He. destruct (flag_fields eol q c Hc Hq He) as (F1 & F2 & F3 & F4).
  cbn [fs_parse_ops]. rewrite F1, F2, F3, F4.
  unfold take, drop. rewrite firstn_app_len, skipn_app_len by apply length_be.
  assert (Hpos : (0 < N.to_nat (2 ^ q))%nat).
  { assert (2 ^ q <> 0) by (apply N.pow_nonzero; discriminate). lia. }
  unfold int_of_hex. destruct (be (N.to_nat (2 ^ q)) v) eqn:Eb.
  { apply (f_equal (@length N)) in Eb. rewrite length_be in Eb. cbn in Eb. lia. }
  rewrite <- Eb. cbn [bind]. rewrite unbe_be by (rewrite N2Nat.id; exact Hv).
  destruct He as [-> | ->]; reflexivity.
Qed.

Definition expect_pop (o : op) : pop := (0, fst o, snd o).

Lemma fs_ops_roundtrip ops : ops <> [] -> Forall wf_op ops ->
  exists b, fs_construct_ops ops = Ok b /\
            forall rest fuel, (length b < fuel)%nat ->
              fs_parse_ops fuel (b ++ rest) = Ok (map expect_pop ops, S (length b)).
Proof.
  induction ops as [|(c, v) r IH]; [congruence|]. intros _ Hw.
  inversion Hw as [|? ? (Hc & Hv) Hr]; subst. cbn [fst snd] in *.
  destruct (nbytes_cases v Hv) as (q & Hq & Hn & Hlc & Hlt).
  destruct r as [|o2 r'].
  - exists ((128 + 16 * q + c) :: be (N.to_nat (2 ^ q)) v ++ []). split.
    + cbn [fs_construct_ops]. rewrite Hlc. cbn [bind]. rewrite Hn. reflexivity.
    + intros rest [|f] Hf; [lia|]. cbn [app]. rewrite <- app_assoc.
      rewrite parse_item by (try assumption; right; reflexivity).
      change (128 =? 128) with true. cbv iota. cbn [map expect_pop fst snd].
      f_equal. f_equal. cbn [length]. rewrite app_length, length_be. cbn [length]. lia.
  - destruct IH as (br & Hcr & Hpr); [discriminate | assumption |].
    exists ((0 + 16 * q + c) :: be (N.to_nat (2 ^ q)) v ++ br). split.
    + change (fs_construct_ops ((c, v) :: o2 :: r')) with
        (bind (len_code (nbytes v)) (fun lc => bind (fs_construct_ops (o2 :: r')) (fun br =>
           Ok ((0 + lc + c) :: be (nbytes v) v ++ br)))).
      rewrite Hlc. cbn [bind]. rewrite Hcr. cbn [bind]. rewrite Hn. reflexivity.
    + intros rest [|f] Hf; [lia|]. cbn [app]. rewrite <- app_assoc.
      rewrite parse_item by (try assumption; left; reflexivity).
      change (0 =? 128) with false. cbv iota.
      rewrite Hpr.
      * cbn [bind map]. f_equal. f_equal. cbn [length]. rewrite !app_length, length_be. lia.
      * cbn [length] in Hf. rewrite app_length, length_be in Hf. lia.
Qed.

(** defects, on concrete inputs *)
(** a 3-octet value is padded to 4 octets (was: KeyError before c08-flowspec-framing.diff) *)
Lemma three_octet_value_padded : fs_construct_ops [(1, 65536)] = Ok [161; 0; 1; 0; 0].
Proof. vm_compute. reflexivity. Qed.

Lemma refuted_prefix_length_zero : fs_construct_prefix (0, 0) = Exc.
Proof. vm_compute. reflexivity. Qed.

Lemma refuted_tcp_flags_dropped :
  fs_construct_nlri (mk_flow (Some (167772160, 8)) None [(9, [(1, 2)])]) = Ok [3; 1; 8; 10] /\
  fs_parse_all [3; 1; 8; 10] = Ok [[(1, CPfx (167772160, 8))]].
Proof. split; vm_compute; reflexivity. Qed.

(** ---- vocabulary of the full (not yet proved) attribute-level statement ---- *)
Definition wf_fs_prefix (p : N * N) : Prop :=
  1 <= snd p <= 32 /\ fst p < 2 ^ 32 /\ fst p mod 2 ^ (32 - snd p) = 0.
Definition wf_opt_prefix (p : option (N * N)) : Prop := match p with None => True | Some p => wf_fs_prefix p end.
Fixpoint increasing (l : list N) : Prop :=
  match l with
  | a :: ((b :: _) as r) => a < b /\ increasing r
  | _ => True
  end.
(** in-range rule: optional prefixes of length 1..32, numeric components of the types construct_nlri
    knows, keyed in increasing order, each a non-empty list of in-range operators; not empty *)
Definition wf_flow (f : flow) : Prop :=
  wf_opt_prefix (f_dst f) /\ wf_opt_prefix (f_src f) /\
  increasing (map fst (f_ops f)) /\
  Forall (fun c => In (fst c) fs_op_types /\ snd c <> [] /\ Forall wf_op (snd c)) (f_ops f) /\
  (f_dst f <> None \/ f_src f <> None \/ f_ops f <> []).
Definition opt_comp (t : N) (p : option (N * N)) : list (N * comp) :=
  match p with None => [] | Some p => [(t, CPfx p)] end.
Definition expect_flow (f : flow) : list (N * comp) :=
  opt_comp c_BGPNLRI_FSPEC_DST_PFIX (f_dst f) ++ opt_comp c_BGPNLRI_FSPEC_SRC_PFIX (f_src f) ++
  map (fun c => (fst c, COps (map expect_pop (snd c)))) (f_ops f).
