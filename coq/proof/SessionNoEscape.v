(** C10 (first clause): nothing escapes — for every decoder behaviour, every reachable state,
    every enabled event, the step's outputs contain neither an unhandled exception nor the
    model's out-of-fuel marker.  Two regimes: before the first connection succeeds the FSM
    tracks no protocol object ([Pre]); afterwards it always tracks one ([PT p]). *)
From YV Require Import lib.Base model.YWorld model.YProto gen.Consts gen.FsmGen model.YSession
  proof.SessionPres proof.SessionInv proof.SessionSym.

Definition notconn (k : conn) : Prop := c_st k = CConnecting \/ c_st k = CFailed.
Definition Pre (w : world) : Prop :=
  w_proto w = None /\ t_dl (w_tdo w) = None /\ noexc w /\
  (w_state w = StIdle \/ w_state w = StConnect) /\ Forall notconn (w_conns w).

Definition Inv (w : world) : Prop := Pre w \/ exists p, PT p w.

Lemma notconn_conn0 : notconn conn0. Proof. left; reflexivity. Qed.

Ltac pre_start w :=
  intros (Hp & Hd & (Hx & Hf) & Hs & Hc);
  destr_world w; cbn in *; subst;
  destruct Hs as [-> | ->].
Ltac pre_done :=
  unfold Pre, noexc; cbn;
  repeat match goal with
         | |- _ /\ _ => split
         | |- ~ (_ \/ _) => intros [?|?]; try discriminate
         | |- Forall notconn (_ ++ [conn0]) => apply Forall_app; split; [|constructor; [apply notconn_conn0|constructor]]
         end; auto; try tauto.

Lemma Pre_connection_failed w : Pre w -> Pre (F_connection_failed w).
Proof. pre_start w; sym; pre_done. Qed.
Lemma Pre_automatic_start ih w : Pre w -> Pre (peering_automatic_start ih w).
Proof. pre_start w; destruct ih; sym; pre_done. Qed.
Lemma Pre_manual_start w : Pre w -> Pre (peering_manual_start w).
Proof. pre_start w; sym; pre_done. Qed.
Lemma Pre_manual_stop w : Pre w -> Pre (peering_manual_stop w).
Proof. pre_start w; sym; pre_done. Qed.
Lemma Pre_connect_retry w : Pre w -> Pre (F_connect_retry_time_event w).
Proof. pre_start w; sym; pre_done. Qed.
Lemma Pre_hold w : Pre w -> Pre (F_hold_time_event w).
Proof. pre_start w; sym; pre_done. Qed.
Lemma Pre_keep_alive w : Pre w -> Pre (F_keep_alive_time_event w).
Proof. pre_start w; sym; pre_done. Qed.
Lemma Pre_idle_hold w : Pre w -> Pre (F_idle_hold_time_event w).
Proof. pre_start w; sym; pre_done. Qed.

Lemma Pre_not_connected c w : Pre w -> conn_st_is c CConnected w = false.
Proof.
  intros (_ & _ & _ & _ & Hc). unfold conn_st_is.
  destruct (nth_error (w_conns w) c) as [k|] eqn:E; auto.
  apply nth_error_In in E. rewrite Forall_forall in Hc. destruct (Hc k E) as [-> | ->]; reflexivity.
Qed.

Lemma PT_of_parts p w : w_proto w = Some p -> t_dl (w_tdo w) = None -> noexc w -> PT p w.
Proof. unfold PT; auto. Qed.

Lemma PT_conn_made c w : t_dl (w_tdo w) = None -> noexc w -> PT c (conn_made c w).
Proof.
  intros Hd Hn. unfold conn_made. cbv zeta.
  apply pres_connection_made; [apply PT_prims|].
  assert (H0 : PT c (set_w_proto (Some c) w)) by (apply PT_of_parts; auto).
  pose proof (PT_prims c) as OK. pose proof (PT_glue c) as GK.
  apply (g_ka3 _ GK), (g_hold _ GK). apply PT_upd_conn. apply (ok_estab _ OK). apply (ok_set_state _ OK). exact H0.
Qed.

Section Events.
Variable D : decoders.

Lemma PT_fire p t w : PT p w -> PT p (fire_timer t w).
Proof.
  intros H. unfold fire_timer. destruct (t_dl (get_tm t w)) as [d|] eqn:E; auto.
  cbv zeta.
  assert (H1 : PT p (set_tm t (mkTimer None (t_status (get_tm t (set_w_now d w)))) (set_w_now d w))).
  { apply PT_set_tm; [intros; reflexivity|]. destruct H as (a & b & c1 & c2). repeat split; auto. }
  destruct t.
  - apply pres_connect_retry_time_event; auto using PT_prims.
  - apply pres_hold_time_event; auto using PT_prims.
  - apply pres_keep_alive_time_event; auto using PT_prims.
  - apply pres_delay_open_time_event; auto using PT_prims.
  - apply pres_idle_hold_time_event; auto using PT_prims.
Qed.

Lemma PT_with_proto p f w : (forall w, PT p w -> PT p (f p w)) -> PT p w -> PT p (with_proto f w).
Proof. intros Hf H. unfold with_proto. destruct H as (Hp & Hr). rewrite Hp. apply Hf. split; auto. Qed.

Lemma PT_event p e w : PT p w -> enabled w e = true -> exists p', PT p' (do_event D e w).
Proof.
  intros H En. pose proof (PT_prims p) as OK. pose proof (PT_glue p) as GK.
  destruct e; cbn [do_event].
  - exists p. apply pres_peering_automatic_start; auto.
  - exists c. apply PT_conn_made; apply H.
  - exists p. unfold conn_failed. cbv zeta. apply pres_connection_failed; auto.
    apply (g_handler _ GK). apply PT_upd_conn; auto.
  - exists p. unfold conn_lost. cbv zeta.
    assert (H1 : PT p (emit (OHandler HConnLost) (upd_conn c (set_c_st CClosed) w)))
      by (apply (g_handler _ GK); apply PT_upd_conn; auto).
    destruct (c_disc _).
    + apply pres_peering_connection_closed; auto.
    + apply pres_connection_failed; auto.
  - exists p. apply data_received_ok; auto.
  - exists p. apply PT_fire; auto.
  - exists p. destruct H as (a & b & c1 & c2). repeat split; auto.
  - exists p. unfold peering_manual_stop. apply pres_manual_stop; auto.
  - exists p. apply pres_peering_manual_start; auto.
  - exists p. unfold api_send_update. destruct ok; auto. apply PT_with_proto; auto.
    intros w' H'. apply PT_upd_conn, PT_conn_write; auto.
  - exists p. unfold api_send_bin. apply PT_with_proto; auto. intros w' H'. apply PT_upd_conn, PT_conn_write; auto.
Qed.

Lemma Pre_event e w : Pre w -> enabled w e = true -> Inv (do_event D e w).
Proof.
  intros H En.
  destruct e; cbn [do_event].
  - left. apply Pre_automatic_start; auto.
  - right. exists c. apply PT_conn_made; apply H.
  - left. unfold conn_failed. cbv zeta. apply Pre_connection_failed.
    destruct H as (a & b & (x & f) & s & cs).
    unfold Pre, noexc. cbn [w_proto w_tdo w_out w_state w_conns emit upd_conn set_w_out set_w_conns].
    repeat split; auto; try (intros [?|?]; [discriminate|tauto]).
    (* the failed connection stays not-connected *)
    clear -cs. revert c. induction (w_conns w) as [|k l IH]; intros c; [destruct c; constructor|].
    inversion cs; subst. destruct c; cbn; constructor; auto. right; reflexivity.
  - cbn in En. rewrite (Pre_not_connected c w H) in En. discriminate.
  - cbn in En. rewrite (Pre_not_connected c w H) in En. discriminate.
  - left. unfold fire_timer. destruct (t_dl (get_tm t w)) as [d|] eqn:E; auto.
    cbv zeta.
    assert (H1 : Pre (set_tm t (mkTimer None (t_status (get_tm t (set_w_now d w)))) (set_w_now d w))).
    { destruct H as (a & b & (x & f) & s & cs). destruct t; unfold Pre, noexc; cbn; repeat split; auto. }
    destruct t.
    + apply Pre_connect_retry; auto.
    + apply Pre_hold; auto.
    + apply Pre_keep_alive; auto.
    + (* the delay-open timer is never armed *)
      exfalso. destruct H as (_ & b & _). cbn in E. congruence.
    + apply Pre_idle_hold; auto.
  - left. destruct H as (a & b & (x & f) & s & cs). unfold Pre, noexc; cbn; repeat split; auto.
  - left. apply Pre_manual_stop; auto.
  - left. apply Pre_manual_start; auto.
  - cbn in En. destruct H as (_ & _ & _ & [s|s] & _); unfold st_is in En; rewrite s in En; discriminate.
  - cbn in En. destruct H as (_ & _ & _ & [s|s] & _); unfold st_is in En; rewrite s in En; discriminate.
Qed.

Lemma Inv_reset_out w : Inv w -> Inv (set_w_out [] w).
Proof.
  intros [H | [p H]]; [left | right; exists p].
  - destruct H as (a & b & _ & s & cs). unfold Pre, noexc. cbn. repeat split; auto.
  - destruct H as (a & b & _). unfold PT, noexc. cbn. repeat split; auto.
Qed.

Lemma Inv_step e w : Inv w -> Inv (step D w e).
Proof.
  intros H. unfold step.
  destruct (enabled w e) eqn:En; [|apply Inv_reset_out; auto].
  assert (En' : enabled (set_w_out [] w) e = true) by (destruct e; exact En).
  destruct (Inv_reset_out w H) as [H1 | [p H1]].
  - apply Pre_event; auto.
  - right. eapply PT_event; eauto.
Qed.

Lemma Inv_noexc w : Inv w -> noexc w.
Proof. intros [H | [p H]]; apply H. Qed.

Lemma Inv_world0 cf capl : Inv (world0 cf capl).
Proof. left. unfold Pre, noexc, world0. cbn. repeat split; auto. Qed.

Lemma Inv_run es : forall w, Inv w -> Inv (run D w es).
Proof. induction es as [|e es IH]; intros w H; cbn; auto. apply IH, Inv_step; auto. Qed.

(** every output of every run from the initial state *)
Theorem no_escape : forall cf capl es,
  ~ In OExc (run_outs D (world0 cf capl) es) /\ ~ In OFuel (run_outs D (world0 cf capl) es).
Proof.
  intros cf capl es.
  assert (G : forall w, Inv w -> ~ In OExc (run_outs D w es) /\ ~ In OFuel (run_outs D w es)).
  { induction es as [|e es IH]; intros w H; cbn [run_outs]; [split; intros []|].
    pose proof (Inv_step e w H) as H1. destruct (IH _ H1) as [I1 I2].
    destruct (Inv_noexc _ H1) as [N1 N2].
    split; intros Hin; apply in_app_or in Hin; destruct Hin as [Hin|Hin]; auto;
      apply in_rev in Hin; auto. }
  apply G, Inv_world0.
Qed.
End Events.
