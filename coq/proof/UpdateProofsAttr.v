(** C06, part 2: the twelve attribute codecs.  For every in-range value,
    construct_X v = Ok (frame FLAG ID payload)  and  parse_X payload = Ok (decoder's form of v). *)
From YV Require Import lib.Base gen.Consts model.YMsg model.YPrefix4 model.YAttr proof.UpdateProofsPrefix.
From Coq Require Import ZArith Lia ZifyBool ZifyNat ZifyN.
Ltac Zify.zify_post_hook ::= Z.to_euclidean_division_equations.

(** flags, type, length (1 octet, or 2 with the extended-length bit when above 255), value *)
Definition frame (flag tc : N) (payload : bytes) : bytes :=
  if 255 <? len payload then (flag + 16) :: tc :: be 2 (len payload) ++ payload
  else flag :: tc :: len payload :: payload.

Lemma tlv1_frame flag tc v : len v <= 255 -> tlv1 flag tc v = frame flag tc v.
Proof. intros H. unfold tlv1, frame. destruct (255 <? len v) eqn:E; [lia | reflexivity]. Qed.

(** ---- fixed-size chunks ---- *)
Lemma chunks4_be4 xs :
  Forall (fun x => x < 4294967296) xs -> chunks4 (concat (map (be 4) xs)) = xs.
Proof.
  intros H. induction H as [|x xs Hx H IH]; [reflexivity|].
  cbn [map concat]. rewrite be4_eq. cbn [app chunks4]. rewrite IH. f_equal.
  rewrite unbe4. lia.
Qed.

Lemma chunks2_be2 xs :
  Forall (fun x => x < 65536) xs -> chunks2 (concat (map (be 2) xs)) = xs.
Proof.
  intros H. induction H as [|x xs Hx H IH]; [reflexivity|].
  cbn [map concat]. rewrite be2_eq. cbn [app chunks2]. rewrite IH. f_equal.
  rewrite unbe2. lia.
Qed.

Lemma length_concat_be k (xs : list N) : length (concat (map (be k) xs)) = (length xs * k)%nat.
Proof.
  induction xs as [|x xs IH]; [reflexivity|].
  cbn [map concat length]. rewrite app_length, length_be, IH. lia.
Qed.

Lemma length_concat_map_be {A} k (f : A -> N) (xs : list A) :
  length (concat (map (fun c => be k (f c)) xs)) = (length xs * k)%nat.
Proof.
  induction xs as [|x xs IH]; [reflexivity|].
  cbn [map concat length]. rewrite app_length, length_be, IH. lia.
Qed.

Lemma concat_map_be_map {A} k (f : A -> N) (xs : list A) :
  concat (map (fun c => be k (f c)) xs) = concat (map (be k) (map f xs)).
Proof. rewrite map_map. reflexivity. Qed.

Lemma mod_mul_eqb n k : k <> 0%nat -> Nat.eqb (Nat.modulo (n * k) k) 0 = true.
Proof. intros H. rewrite Nat.mod_mul by exact H. reflexivity. Qed.

(** ---- ORIGIN ---- *)
Lemma origin_roundtrip o : o <= 2 ->
  construct_origin o = Ok (frame c_ATTR_Origin_FLAG c_ATTR_Origin_ID [o]) /\
  parse_origin [o] = Ok (VNum o).
Proof.
  intros H. unfold construct_origin, parse_origin.
  destruct (o <=? 2) eqn:E; [|lia]. split; [|reflexivity].
  rewrite tlv1_frame; [reflexivity | vm_compute; discriminate].
Qed.

(** ---- MED / LOCAL_PREF / NEXT_HOP / ORIGINATOR_ID : 4 octets ---- *)
Lemma len_be4 a : len (be 4 a) = 4.
Proof. apply len_be. Qed.

Lemma u32_roundtrip flag id v : v < 4294967296 ->
  construct_u32 flag id v = Ok (frame flag id (be 4 v)) /\ parse_u32 (be 4 v) = Ok (VNum v).
Proof.
  intros H. unfold construct_u32, parse_u32, two32.
  destruct (v <? 4294967296) eqn:E; [|lia]. rewrite length_be. cbn [Nat.eqb].
  rewrite unbe_be4 by exact H. split; [|reflexivity].
  rewrite tlv1_frame; [reflexivity | rewrite len_be4; lia].
Qed.

Lemma nexthop_roundtrip a : a < 4294967296 ->
  construct_nexthop a = Ok (frame c_ATTR_NextHop_FLAG c_ATTR_NextHop_ID (be 4 a)) /\
  parse_nexthop (be 4 a) = Ok (VNum a).
Proof.
  intros H. unfold construct_nexthop, parse_nexthop, two32.
  destruct (a <? 4294967296) eqn:E; [|lia]. split.
  - rewrite tlv1_frame; [reflexivity | rewrite len_be4; lia].
  - rewrite length_be. cbn [Nat.modulo Nat.divmod fst snd Nat.eqb Nat.sub].
    rewrite <- (unbe_be4 a H) at 2. rewrite be4_eq. reflexivity.
Qed.

Lemma originator_roundtrip a : a < 4294967296 ->
  construct_originator a = Ok (frame c_ATTR_OriginatorID_FLAG c_ATTR_OriginatorID_ID (be 4 a)) /\
  parse_originator (be 4 a) = Ok (VNum a).
Proof.
  intros H. unfold construct_originator, parse_originator, two32.
  destruct (a <? 4294967296) eqn:E; [|lia]. rewrite length_be. cbn [Nat.eqb].
  rewrite unbe_be4 by exact H. split; [|reflexivity].
  rewrite tlv1_frame; [reflexivity | rewrite len_be4; lia].
Qed.

(** ---- ATOMIC_AGGREGATE ---- *)
Lemma atomic_roundtrip :
  construct_atomic = Ok (frame c_ATTR_AtomicAggregate_FLAG c_ATTR_AtomicAggregate_ID []) /\
  parse_atomic [] = Ok VEmpty.
Proof. split; reflexivity. Qed.

(** ---- AGGREGATOR ---- *)
Lemma asn_lim_pow asn4 : asn_lim asn4 = 256 ^ N.of_nat (asn_size asn4).
Proof. destruct asn4; reflexivity. Qed.

Lemma aggregator_roundtrip asn4 asn a : asn < asn_lim asn4 -> a < 4294967296 ->
  construct_aggregator asn4 asn a =
    Ok (frame c_ATTR_Aggregator_FLAG c_ATTR_Aggregator_ID (be (asn_size asn4) asn ++ be 4 a)) /\
  parse_aggregator asn4 (be (asn_size asn4) asn ++ be 4 a) = Ok (VPair asn a).
Proof.
  intros H1 H2. unfold construct_aggregator, parse_aggregator, two32.
  destruct ((asn <? asn_lim asn4) && (a <? 4294967296)) eqn:E; [|lia]. split.
  - rewrite tlv1_frame; [reflexivity|]. rewrite len_app2, !len_be. destruct asn4; cbn; lia.
  - rewrite app_length, !length_be, Nat.eqb_refl.
    unfold take, drop. rewrite firstn_app_exact' by (rewrite length_be; reflexivity).
    rewrite skipn_app_exact' by (rewrite length_be; reflexivity).
    rewrite unbe_be4 by exact H2. rewrite unbe_be by (rewrite <- asn_lim_pow; exact H1). reflexivity.
Qed.

(** ---- AS_PATH ---- *)
Definition wf_segment (asn4 : bool) (s : N * list N) : Prop :=
  1 <= fst s <= 4 /\ len (snd s) <= 255 /\ Forall (fun a => a < asn_lim asn4) (snd s).

Lemma chunks_asn asn4 xs : Forall (fun a => a < asn_lim asn4) xs ->
  (if asn4 then chunks4 (concat (map (be (asn_size asn4)) xs))
   else chunks2 (concat (map (be (asn_size asn4)) xs))) = xs.
Proof.
  destruct asn4; cbn [asn_size asn_lim]; intros H.
  - apply chunks4_be4. exact H.
  - apply chunks2_be2. exact H.
Qed.

Lemma parse_segment_enc asn4 s rest : wf_segment asn4 s ->
  parse_segment asn4 (enc_segment asn4 s ++ rest) = Ok (s, rest).
Proof.
  destruct s as [t xs]. intros (Ht & Hn & Hx). cbn [fst snd] in *.
  unfold enc_segment, parse_segment. cbn [fst snd app].
  destruct ((1 <=? t) && (t <=? 4)) eqn:E; [|lia]. clear E.
  assert (Hk : (N.to_nat (len xs) * asn_size asn4)%nat = length (concat (map (be (asn_size asn4)) xs))).
  { rewrite length_concat_be. unfold len. lia. }
  rewrite Hk. unfold take, drop. rewrite firstn_app_exact, skipn_app_exact, Nat.eqb_refl.
  rewrite chunks_asn by exact Hx. reflexivity.
Qed.

Lemma segment_ok_wf asn4 s : wf_segment asn4 s -> seg_type_ok s = true /\ segment_ok asn4 s = true.
Proof.
  intros (Ht & Hn & Hx). unfold seg_type_ok, segment_ok. split; [lia|].
  assert (forallb (fun a => a <? asn_lim asn4) (snd s) = true).
  { apply forallb_forall. rewrite Forall_forall in Hx. intros a Ha. specialize (Hx a Ha). lia. }
  rewrite H. destruct (len (snd s) <? 256) eqn:E2; try reflexivity; lia.
Qed.

Lemma check_segments_wf asn4 segs : Forall (wf_segment asn4) segs -> check_segments asn4 segs = Ok tt.
Proof.
  intros H. induction H as [|s segs Hs H IH]; [reflexivity|].
  cbn [check_segments]. destruct (segment_ok_wf asn4 s Hs) as (-> & ->). exact IH.
Qed.

Lemma aspath_roundtrip asn4 segs :
  Forall (wf_segment asn4) segs -> len (enc_aspath asn4 segs) <= 65535 ->
  construct_aspath asn4 segs = Ok (frame c_ATTR_ASPath_FLAG c_ATTR_ASPath_ID (enc_aspath asn4 segs)) /\
  parse_aspath asn4 (enc_aspath asn4 segs) = Ok (VPath segs).
Proof.
  intros H Hlen. split.
  - unfold construct_aspath. rewrite (check_segments_wf asn4 segs H).
    unfold frame, tlv1. destruct (255 <? len (enc_aspath asn4 segs)) eqn:E; [|reflexivity].
    destruct (65535 <? len (enc_aspath asn4 segs)) eqn:E2; [lia | reflexivity].
  - unfold parse_aspath, enc_aspath.
    rewrite (walk_concat (parse_segment asn4) (enc_segment asn4) (wf_segment asn4)).
    + reflexivity.
    + intros x rest Hx. apply parse_segment_enc. exact Hx.
    + intros x _. unfold enc_segment. discriminate.
    + exact H.
    + lia.
Qed.

(** ---- COMMUNITIES ---- *)
Definition wf_comm (c : comm) : Prop :=
  match c with CWk v => is_wk v = true | CPair hi lo => hi < 65536 /\ lo < 65536 end.

Lemma wf_comm_value c : wf_comm c -> comm_value c < 4294967296.
Proof.
  destruct c as [v|hi lo]; cbn [wf_comm comm_value].
  - unfold is_wk, wk_communities. cbn [existsb]. intros H.
    repeat match type of H with
           | (_ || _) = true => apply orb_true_iff in H; destruct H as [H|H]
           | (_ =? _) = true => apply N.eqb_eq in H; subst v
           end; try discriminate; reflexivity.
  - lia.
Qed.

Definition enc_comms (l : list comm) : bytes := concat (map (fun c => be 4 (comm_value c)) l).

Lemma community_roundtrip l : Forall wf_comm l -> len (enc_comms l) <= 255 ->
  construct_community l = Ok (frame c_ATTR_Community_FLAG c_ATTR_Community_ID (enc_comms l)) /\
  parse_community (enc_comms l) = Ok (canon_val (VComms l)).
Proof.
  intros H Hlen.
  assert (Hv : Forall (fun x => x < 4294967296) (map comm_value l)).
  { rewrite Forall_forall in *. intros x Hx. apply in_map_iff in Hx. destruct Hx as (c & <- & Hc).
    apply wf_comm_value. auto. }
  split.
  - unfold construct_community, two32. fold (enc_comms l).
    replace (forallb (fun c => comm_value c <? 4294967296) l) with true.
    2:{ symmetry. apply forallb_forall. intros c Hc. rewrite Forall_forall in H.
        pose proof (wf_comm_value c (H c Hc)). lia. }
    destruct (255 <? len (enc_comms l)) eqn:E; [lia|].
    rewrite tlv1_frame by exact Hlen. reflexivity.
  - unfold parse_community, enc_comms. rewrite length_concat_map_be, mod_mul_eqb by discriminate.
    rewrite concat_map_be_map, chunks4_be4 by auto.
    cbn [canon_val]. rewrite map_map. reflexivity.
Qed.

(** ---- CLUSTER_LIST ---- *)
Lemma clusterlist_roundtrip l :
  Forall (fun a => a < 4294967296) l -> len (concat (map (be 4) l)) <= 255 ->
  construct_clusterlist l = Ok (frame c_ATTR_ClusterList_FLAG c_ATTR_ClusterList_ID (concat (map (be 4) l))) /\
  parse_clusterlist (concat (map (be 4) l)) = Ok (VNums l).
Proof.
  intros H Hlen. split.
  - unfold construct_clusterlist, two32.
    replace (forallb (fun a => a <? 4294967296) l) with true.
    2:{ symmetry. apply forallb_forall. intros c Hc. rewrite Forall_forall in H. specialize (H c Hc). lia. }
    destruct (len (concat (map (be 4) l)) <=? 255) eqn:E; [|lia]. cbn [andb].
    rewrite tlv1_frame by exact Hlen. reflexivity.
  - unfold parse_clusterlist. rewrite length_concat_be, mod_mul_eqb by discriminate.
    rewrite chunks4_be4 by auto. reflexivity.
Qed.

(** ---- LARGE COMMUNITIES ---- *)
Definition wf_large (c : list N) : Prop := length c = 3%nat /\ Forall (fun x => x < 4294967296) c.
Definition enc_large (l : list (list N)) : bytes := concat (map (fun c => concat (map (be 4) c)) l).

Lemma enc_large_flat l : enc_large l = concat (map (be 4) (concat l)).
Proof.
  unfold enc_large. induction l as [|c l IH]; [reflexivity|].
  cbn [map concat]. rewrite IH, map_app, concat_app. reflexivity.
Qed.

Lemma triples_concat l : Forall wf_large l -> triples (concat l) = l.
Proof.
  intros H. induction H as [|c l Hc H IH]; [reflexivity|].
  destruct Hc as (Hn & _). destruct c as [|a [|b [|d [|e c]]]]; try discriminate.
  cbn [concat app triples]. rewrite IH. reflexivity.
Qed.

Lemma length_concat3 l : Forall wf_large l -> length (concat l) = (length l * 3)%nat.
Proof.
  intros H. induction H as [|c l Hc H IH]; [reflexivity|].
  cbn [concat length]. rewrite app_length, IH. destruct Hc as (-> & _). lia.
Qed.

Lemma largecommunity_roundtrip l : Forall wf_large l -> l <> [] -> len (enc_large l) <= 255 ->
  construct_largecommunity l = Ok (frame c_ATTR_LargeCommunity_FLAG c_ATTR_LargeCommunity_ID (enc_large l)) /\
  parse_largecommunity (enc_large l) = Ok (VLarge l).
Proof.
  intros H Hne Hlen.
  assert (Hlen12 : length (enc_large l) = (length l * 12)%nat).
  { rewrite enc_large_flat, length_concat_be, length_concat3 by exact H. lia. }
  assert (Hall : Forall (fun x => x < 4294967296) (concat l)).
  { rewrite Forall_forall in *. intros x Hx. apply in_concat in Hx. destruct Hx as (c & Hc & Hx).
    destruct (H c Hc) as (_ & Hf). rewrite Forall_forall in Hf. auto. }
  split.
  - unfold construct_largecommunity, two32. fold (enc_large l).
    replace (forallb (forallb (fun x => x <? 4294967296)) l) with true.
    2:{ symmetry. apply forallb_forall. intros c Hc. apply forallb_forall. intros x Hx.
        rewrite Forall_forall in H. destruct (H c Hc) as (_ & Hf). rewrite Forall_forall in Hf.
        specialize (Hf x Hx). lia. }
    destruct ((len (enc_large l) =? 0) || negb (len (enc_large l) mod 12 =? 0)) eqn:E0.
    { exfalso. unfold len in E0. rewrite Hlen12 in E0.
      destruct l as [|c l']; [congruence|]. cbn [length] in E0. lia. }
    destruct (255 <? len (enc_large l)) eqn:E; [lia|].
    rewrite tlv1_frame by exact Hlen. reflexivity.
  - unfold parse_largecommunity. rewrite enc_large_flat, length_concat_be, length_concat3 by exact H.
    replace (length l * 3 * 4)%nat with (length l * 12)%nat by lia.
    rewrite mod_mul_eqb by discriminate.
    rewrite chunks4_be4 by auto. rewrite triples_concat by exact H. reflexivity.
Qed.

(** ---- EXTENDED COMMUNITIES ---- *)
Definition wf_ext (e : N * list N) : Prop :=
  match ext_kind (fst e), snd e with
  | 1, [a; n] => a < 65536 /\ n < 4294967296
  | 2, [a; n] => a < 4294967296 /\ n < 65536
  | 3, [m] => m < 256
  | 4, [c] => c < 4294967296
  | 5, [mac] => mac < 281474976710656
  | 6, [f; s] => f < 256 /\ s < 4294967296
  | 7, [f; l] => f < 256 /\ l < 1048576
  | _, _ => False
  end.

Lemma ext_codes code : ext_kind code <> 0 ->
  In code [2; 3; 32776; 16388; 258; 259; 514; 515; 2048; 32777; 779; 780; 1538; 1539; 1536; 1537].
Proof.
  intros H. unfold ext_kind in H.
  repeat match type of H with
         | context [code =? ?c] => destruct (N.eqb_spec code c) as [?E|?E]; [subst code; vm_compute; repeat (try (left; reflexivity); right)|]
         end.
  cbn in H. congruence.
Qed.

Ltac ext_fields H f :=
  destruct f as [|?x [|?y [|?z ?r]]]; cbn in H; try contradiction.

Ltac ext_case H f :=
  unfold wf_ext in H; cbn [fst snd] in H; ext_fields H f;
  unfold enc_ext; cbn [fst snd]; cbn;
  match goal with
  | |- context [if ?c then Some _ else None] => destruct c eqn:?E; [|unfold two16, two32 in *; lia]
  end;
  do 8 eexists; split; [reflexivity|];
  cbn; repeat f_equal; lia.

Lemma dec_ext_enc e : wf_ext e ->
  exists t s v0 v1 v2 v3 v4 v5,
    enc_ext e = Some [t; s; v0; v1; v2; v3; v4; v5] /\
    dec_ext t s v0 v1 v2 v3 v4 v5 = Some (ext_canon_code (fst e), snd e).
Proof.
  destruct e as [code f]. intros H.
  assert (K : ext_kind code <> 0).
  { intro K. unfold wf_ext in H. cbn [fst] in H. rewrite K in H. exact H. }
  apply ext_codes in K. cbn [In] in K.
  repeat (destruct K as [<- | K]; [ ext_case H f | ]).
  destruct K.
Qed.

Lemma exts_roundtrip l : Forall wf_ext l ->
  exists raw, enc_exts l = Some raw /\ length raw = (length l * 8)%nat /\
              dec_exts raw = Some (map (fun e => (ext_canon_code (fst e), snd e)) l).
Proof.
  intros H. induction H as [|e l He H IH].
  - exists []. repeat split.
  - destruct IH as (raw & E1 & E2 & E3).
    destruct (dec_ext_enc e He) as (t & s & v0 & v1 & v2 & v3 & v4 & v5 & D1 & D2).
    exists ([t; s; v0; v1; v2; v3; v4; v5] ++ raw). cbn [enc_exts]. rewrite D1, E1.
    split; [reflexivity|]. split.
    + rewrite app_length, E2. cbn [length]. lia.
    + cbn [app dec_exts map]. rewrite D2, E3. reflexivity.
Qed.

Lemma extcommunity_roundtrip l : Forall wf_ext l -> l <> [] -> (length l <= 31)%nat ->
  exists raw,
    construct_extcommunity l = Ok (frame c_ATTR_ExtCommunity_FLAG c_ATTR_ExtCommunity_ID raw) /\
    len raw <= 255 /\
    parse_extcommunity raw = Ok (canon_val (VExts l)).
Proof.
  intros H Hne Hn. destruct (exts_roundtrip l H) as (raw & E1 & E2 & E3).
  exists raw. unfold construct_extcommunity, parse_extcommunity. rewrite E1.
  assert (Hl : len raw <= 255) by (unfold len; lia).
  assert (Hp : 0 < len raw). { unfold len. destruct l; [congruence | cbn [length] in *; lia]. }
  destruct ((len raw =? 0) || (255 <? len raw)) eqn:E; [lia|].
  rewrite tlv1_frame by exact Hl. split; [reflexivity|]. split; [exact Hl|].
  rewrite E2, mod_mul_eqb by discriminate. rewrite E3. reflexivity.
Qed.
