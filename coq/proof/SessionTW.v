(** timer well-formedness (a live delayed call implies status = True) holds in every reachable world *)
From YV Require Import lib.Base model.YWorld model.YProto gen.Consts gen.FsmGen model.YFraming
  model.YSession proof.SessionPres proof.SessionInv proof.SessionSym proof.SessionFraming proof.SessionC13.
From Coq Require Import Arith PeanoNat.

Lemma TW_fr w w' :
  w_tcr w' = w_tcr w -> w_th w' = w_th w -> w_tka w' = w_tka w -> w_tdo w' = w_tdo w -> w_tih w' = w_tih w ->
  timers_wf w -> timers_wf w'.
Proof. apply timers_wf_frame. Qed.
Lemma TW_upd c f w : timers_wf w -> timers_wf (upd_conn c f w).
Proof. apply TW_fr; reflexivity. Qed.
Lemma TW_emit o w : timers_wf w -> timers_wf (emit o w).
Proof. apply TW_fr; reflexivity. Qed.
Lemma TW_glue : glue_ok timers_wf.
Proof.
  constructor.
  - intros; apply TW_emit; auto.
  - intros; apply TW_upd; auto.
  - intros n w H; revert H; apply TW_fr; reflexivity.
  - intros n w H; revert H; apply TW_fr; reflexivity.
  - intros n w H; revert H; apply TW_fr; reflexivity.
Qed.

Section Events.
Variable D : decoders.

Lemma TW_frame_loop c : forall fuel buf w, timers_wf w ->
  timers_wf (fst (fst (frame_loop world (dispatch D c) (fun sub d w => F_header_error sub d w)
                           (conn_closed_by_us c) fuel buf w))).
Proof.
  induction fuel as [|fuel IH]; intros buf w H; cbn [frame_loop fst]; auto.
  unfold parse1. cbv zeta.
  destruct (len buf <? c_HDR_LEN); cbn [fst]; auto.
  destruct (negb _); cbn [fst]; [apply (pres_header_error timers_wf timers_wf_prims); auto|].
  destruct (_ || _); cbn [fst]; [apply (pres_header_error timers_wf timers_wf_prims); auto|].
  destruct (len buf <? _); cbn [fst]; auto.
  pose proof (pres_dispatch timers_wf timers_wf_prims TW_glue D c (nth 18 buf 0)
                (slice 19 (N.to_nat (unbe (slice 16 18 buf))) buf) w H) as Hd.
  destruct (fst (dispatch D c _ _ w)); cbn [fst]; auto.
  destruct (conn_closed_by_us c _); cbn [fst]; auto.
Qed.

Lemma TW_event e w : timers_wf w -> timers_wf (do_event D e w).
Proof.
  intros H. destruct e; cbn [do_event].
  - apply (pres_peering_automatic_start timers_wf timers_wf_prims); auto.
  - unfold conn_made. cbv zeta. apply (pres_connection_made timers_wf timers_wf_prims).
    assert (H1 : timers_wf (set_state StConnect (set_w_proto (Some c) w))).
    { apply (ok_set_state timers_wf timers_wf_prims). revert H. apply TW_fr; reflexivity. }
    set (w1 := set_state StConnect (set_w_proto (Some c) w)) in *. clearbody w1.
    revert H1. apply TW_fr; reflexivity.
  - unfold conn_failed. cbv zeta. apply (pres_connection_failed timers_wf timers_wf_prims), TW_emit, TW_upd; auto.
  - unfold conn_lost. cbv zeta.
    assert (H0 : timers_wf (emit (OHandler HConnLost) (upd_conn c (set_c_st CClosed) w))) by (apply TW_emit, TW_upd; auto).
    destruct (c_disc _); [apply (pres_peering_connection_closed timers_wf timers_wf_prims)|apply (pres_connection_failed timers_wf timers_wf_prims)]; auto.
  - unfold data_received. cbv zeta.
    pose proof (TW_frame_loop c (S (length (c_buf (get_conn c w) ++ b))) (c_buf (get_conn c w) ++ b) w H) as Hl.
    set (r := frame_loop _ _ _ _ _ _ _) in *. clearbody r.
    assert (Hx : timers_wf (upd_conn c (set_c_buf (snd (fst r))) (fst (fst r)))) by auto using TW_upd.
    destruct (snd r); auto using TW_emit.
  - unfold fire_timer. destruct (t_dl (get_tm t w)) eqn:E; auto.
    assert (H0 : timers_wf (set_tm t {| t_dl := None; t_status := t_status (get_tm t (set_w_now n w)) |} (set_w_now n w))).
    { apply timers_wf_set_tm; [intros X; cbn in X; congruence|]. revert H. apply TW_fr; reflexivity. }
    destruct t; [apply (pres_connect_retry_time_event timers_wf timers_wf_prims)|apply (pres_hold_time_event timers_wf timers_wf_prims)
                |apply (pres_keep_alive_time_event timers_wf timers_wf_prims)|apply (pres_delay_open_time_event timers_wf timers_wf_prims)
                |apply (pres_idle_hold_time_event timers_wf timers_wf_prims)]; exact H0.
  - revert H. apply TW_fr; reflexivity.
  - apply (pres_manual_stop timers_wf timers_wf_prims); auto.
  - apply (pres_peering_manual_start timers_wf timers_wf_prims); auto.
  - unfold api_send_update. destruct ok; auto. apply timers_wf_with_proto; auto. intros c' w' H'.
    apply TW_upd. unfold conn_write. destruct (conn_connected c' w'); auto using TW_emit.
  - unfold api_send_bin. apply timers_wf_with_proto; auto. intros c' w' H'.
    apply TW_upd. unfold conn_write. destruct (conn_connected c' w'); auto using TW_emit.
Qed.

Lemma TW_step e w : timers_wf w -> timers_wf (step D w e).
Proof.
  intros H. unfold step.
  assert (H0 : timers_wf (set_w_out [] w)) by (revert H; apply TW_fr; reflexivity).
  destruct (enabled w e); auto using TW_event.
Qed.
Lemma TW_run es : forall w, timers_wf w -> timers_wf (run D w es).
Proof. induction es as [|e es IH]; intros w H; cbn [run fold_left]; auto. apply IH, TW_step, H. Qed.
Lemma TW_world0 cf capl : timers_wf (world0 cf capl).
Proof. repeat split; intros X; cbn in X; congruence. Qed.
End Events.
