(** C15, part 2 - ONE theorem for every `while` loop whose iteration slices a whole element off the
    front of the data (the loop shapes of model/YLoops.v, which C11 ties to the source: inventory
    fingerprints + iteration-count correspondence).

    The loop is [gwalk s elt]: shape [s] (loop condition, octets consumed, break) and an ARBITRARY
    element decoder [elt] (a Section variable) that is given the octets of the current element only
    ([take n d]; this is what every TLV walker of yabgp does: `value = data[4:4 + length]`) and
    returns the items it contributes (one for a decoded TLV, one hex item for an unknown TLV in
    LinkState / BGPPrefixSID / BGP-LS descriptors, none for an unknown BGP-LS NLRI or EVPN route
    type) or raises ([None]).
    Concatenation law, for ALL byte strings b and all a that are sequences of whole elements of the
    shape:   gdec (a ++ b) = gdec a (+) gdec b. *)
From Coq Require Import String.
From YV Require Import lib.Base gen.Inventory model.YLoops proof.LoopProofs.
From Coq Require Import ZArith Lia ZifyBool ZifyNat ZifyN.

Inductive seq_of (P : bytes -> Prop) : bytes -> Prop :=
| seq_nil : seq_of P []
| seq_cons e a : P e -> seq_of P a -> seq_of P (e ++ a).

Lemma seq_of_one (P : bytes -> Prop) e : P e -> seq_of P e.
Proof. intros H. rewrite <- (app_nil_r e). constructor; [exact H | constructor]. Qed.

Lemma seq_of_app P a b : seq_of P a -> seq_of P b -> seq_of P (a ++ b).
Proof. induction 1; intros Hb; cbn; auto. rewrite <- app_assoc. constructor; auto. Qed.

Definition opt_app {A} (o1 o2 : option (list A)) : option (list A) :=
  match o1, o2 with Some l1, Some l2 => Some (l1 ++ l2) | _, _ => None end.

Lemma opt_app_assoc {A} (a b c : option (list A)) : opt_app (opt_app a b) c = opt_app a (opt_app b c).
Proof. destruct a, b, c; cbn; try reflexivity. rewrite app_assoc. reflexivity. Qed.

Section Generic.
  Variable s : shape.
  Context {X : Type}.
  Variable elt : bytes -> option (list X).

  Fixpoint gwalk (fuel : nat) (d : bytes) : option (list X) :=
    match fuel with
    | O => None
    | S f =>
      if cond s d then
        match consume s d with
        | None => None
        | Some n =>
          match elt (take n d) with
          | None => None
          | Some xs => if last s d then Some xs else opt_app (Some xs) (gwalk f (drop n d))
          end
        end
      else Some []
    end.
  Definition gdec (d : bytes) : option (list X) := gwalk (S (length d)) d.

  (** the element decoder's only influence on the loop of YLoops is whether it raises *)
  Definition raises_of (d : bytes) : bool :=
    match consume s d with
    | Some n => match elt (take n d) with None => true | Some _ => false end
    | None => false
    end.
  Lemma gwalk_run : forall fuel d l, gwalk fuel d = Some l -> exists n, run (body s raises_of) fuel d = Done n.
  Proof.
    induction fuel as [|f IH]; intros d l H; [discriminate|].
    cbn [gwalk run] in *.
    assert (Hb : body s raises_of d =
                 if cond s d then
                   match consume s d with
                   | None => Raise
                   | Some n => match elt (take n d) with
                               | None => Raise
                               | Some _ => if last s d then Last else Continue (drop n d)
                               end
                   end
                 else Stop).
    { unfold body, raises_of. destruct (cond s d); [|reflexivity].
      destruct (consume s d) as [n|]; [|reflexivity]. destruct (elt (take n d)); reflexivity. }
    rewrite Hb. clear Hb.
    destruct (cond s d); [|eauto].
    destruct (consume s d) as [n|]; [|discriminate].
    destruct (elt (take n d)) as [xs|]; [|discriminate].
    destruct (last s d); [eauto|].
    destruct (gwalk f (drop n d)) as [l'|] eqn:E; [|discriminate].
    destruct (IH _ _ E) as [m ->]. eauto.
  Qed.

  Hypothesis G : good s.

  Lemma gwalk_fuel : forall f d, (length d < f)%nat -> gwalk f d = gwalk (S (length d)) d.
  Proof.
    induction f as [f IH] using lt_wf_ind. intros d Hl.
    destruct f as [|f]; [lia|]. cbn [gwalk].
    destruct (cond s d) eqn:C; [|reflexivity].
    destruct (consume s d) as [n|] eqn:E; [|reflexivity].
    destruct (elt (take n d)); [|reflexivity].
    destruct (last s d); [reflexivity|].
    destruct (G d n C E) as [Hn Hd].
    assert (Hr : (length (drop n d) < length d)%nat).
    { rewrite length_drop. destruct d; [congruence|]. cbn [length]. lia. }
    rewrite (IH f) by lia. rewrite (IH (length d)) by lia. reflexivity.
  Qed.

  (** a whole element of the shape: the loop is entered, exactly the element is consumed, no break;
      [local]: these three facts do not depend on what follows the element *)
  Definition at_elem (e d : bytes) : Prop :=
    cond s d = true /\ consume s d = Some (length e) /\ last s d = false.
  Definition elem (e : bytes) : Prop := at_elem e e.
  Definition local : Prop := forall e rest, elem e -> at_elem e (e ++ rest).

  Hypothesis L : local.
  Hypothesis cond_nil : cond s [] = false.

  Lemma take_app_exact (e t : bytes) : take (length e) (e ++ t) = e.
  Proof. unfold take. rewrite firstn_app, Nat.sub_diag, firstn_all. cbn [firstn]. apply app_nil_r. Qed.
  Lemma drop_app_exact (e t : bytes) : drop (length e) (e ++ t) = t.
  Proof. unfold drop. rewrite skipn_app, Nat.sub_diag, skipn_all. reflexivity. Qed.

  Lemma gdec_cons e t : elem e -> gdec (e ++ t) = opt_app (elt e) (gdec t).
  Proof.
    intros He. destruct (L e t He) as (C & E & B). destruct He as (C0 & E0 & _).
    destruct (G e _ C0 E0) as [Hn _].
    unfold gdec at 1. cbn [gwalk]. rewrite C, E, B, take_app_exact, drop_app_exact.
    destruct (elt e) as [xs|]; [|reflexivity].
    rewrite gwalk_fuel by (rewrite app_length; lia). reflexivity.
  Qed.

  Theorem gdec_app a b : seq_of elem a -> gdec (a ++ b) = opt_app (gdec a) (gdec b).
  Proof.
    induction 1 as [|e a He Ha IH].
    - cbn [app]. unfold gdec at 2. cbn [gwalk length]. rewrite cond_nil.
      destruct (gdec b); reflexivity.
    - rewrite <- app_assoc. rewrite (gdec_cons e (a ++ b) He), (gdec_cons e a He), IH. symmetry. apply opt_app_assoc.
  Qed.

  (** an element that contributes [xu] (an unknown TLV kept as one hex item: [xu = [hex]]; an unknown
      TLV that is skipped: [xu = []]) between two sequences: the others decode exactly as without it *)
  Theorem gdec_insert a u b xu : seq_of elem a -> elem u -> elt u = Some xu ->
    gdec (a ++ u ++ b) = opt_app (gdec a) (opt_app (Some xu) (gdec b)) /\
    gdec (a ++ b) = opt_app (gdec a) (gdec b).
  Proof.
    intros Ha Hu Hx. split; [|apply gdec_app; exact Ha].
    rewrite gdec_app by exact Ha. rewrite gdec_cons by exact Hu. rewrite Hx. reflexivity.
  Qed.
End Generic.

(** ------------------------------------------------------------------------------------ *)
(** * the shapes *)
Lemma slice_app_within (e r : bytes) i j : (j <= length e)%nat -> slice i j (e ++ r) = slice i j e.
Proof.
  intros H. unfold slice. destruct (Nat.le_gt_cases i (length e)) as [Hi|Hi].
  - rewrite skipn_app. replace (i - length e)%nat with 0%nat by lia. cbn [skipn].
    rewrite firstn_app. rewrite skipn_length.
    replace (j - i - (length e - i))%nat with 0%nat by lia. cbn [firstn]. apply app_nil_r.
  - replace (j - i)%nat with 0%nat by lia. reflexivity.
Qed.

Lemma at_app_within (e r : bytes) i : (i < length e)%nat -> at_ i (e ++ r) = at_ i e.
Proof. intros H. unfold at_. apply app_nth1. exact H. Qed.

Lemma nonempty_app (e r : bytes) : nonempty e = true -> nonempty (e ++ r) = true.
Proof. destruct e; [discriminate | reflexivity]. Qed.

Lemma shorter_app (e r : bytes) k : shorter e k = false -> shorter (e ++ r) k = false.
Proof. unfold shorter. rewrite app_length. intros H. apply Nat.ltb_ge in H. apply Nat.ltb_ge. lia. Qed.

Lemma need_inv k d n m : need k d n = Some m -> shorter d k = false /\ m = n.
Proof. unfold need. destruct (shorter d k); [discriminate|]. intros H; inversion H; auto. Qed.

Lemma need_app k e r n : shorter e k = false -> need k (e ++ r) n = Some n.
Proof. intros H. unfold need. rewrite shorter_app by exact H. reflexivity. Qed.

(** type/length/value walkers: header of h octets, w-octet length at offset off (inside the header) *)
Lemma local_tlv h off w : (off + w <= h)%nat -> local (tlv h off w).
Proof.
  intros Hw e rest (C & E & B). unfold at_elem, tlv in *. cbn [cond consume last] in *.
  apply need_inv in E as [Hs Hn].
  assert (Hh : (h <= length e)%nat) by (unfold shorter in Hs; apply Nat.ltb_ge in Hs; exact Hs).
  split; [apply nonempty_app; exact C|]. split; [|reflexivity].
  unfold tlv_len in *. rewrite slice_app_within by lia. rewrite need_app by exact Hs. congruence.
Qed.

Lemma local_fixed k : local (fixed_strict k).
Proof.
  intros e rest (C & E & B). unfold at_elem, fixed_strict in *. cbn [cond consume last] in *.
  apply need_inv in E as [Hs Hn]. split; [apply nonempty_app; exact C|]. split; [|reflexivity].
  rewrite need_app by exact Hs. congruence.
Qed.

Lemma local_extcomm : local extcomm.
Proof.
  intros e rest (C & E & B). unfold at_elem, extcomm in *. cbn [cond consume last] in *.
  apply need_inv in E as [Hs Hn]. split; [apply nonempty_app; exact C|]. split; [|reflexivity].
  rewrite need_app by exact Hs. congruence.
Qed.

Lemma local_aspath w : local (aspath w).
Proof.
  intros e rest (C & E & B). unfold at_elem, aspath in *. cbn [cond consume last] in *.
  destruct (shorter e 2) eqn:S2; [discriminate|].
  assert (H2 : (2 <= length e)%nat) by (unfold shorter in S2; apply Nat.ltb_ge in S2; exact S2).
  split; [apply nonempty_app; exact C|]. split; [|reflexivity].
  rewrite shorter_app by exact S2. rewrite !at_app_within by lia.
  destruct ((1 <=? at_ 0 e) && (at_ 0 e <=? 4)); [|discriminate].
  apply need_inv in E as [Hs Hn]. rewrite need_app by exact Hs. congruence.
Qed.

Lemma local_attributes : local attributes.
Proof.
  intros e rest (C & E & B). unfold at_elem, attributes in *. cbn [cond consume last] in *.
  destruct (shorter e 2) eqn:S2; [discriminate|].
  assert (H2 : (2 <= length e)%nat) by (unfold shorter in S2; apply Nat.ltb_ge in S2; exact S2).
  split; [apply nonempty_app; exact C|]. split; [|reflexivity].
  rewrite shorter_app by exact S2. rewrite at_app_within by lia.
  destruct (N.odd (at_ 0 e / 16)).
  - apply need_inv in E as [Hs Hn].
    assert (H4 : (4 <= length e)%nat) by (unfold shorter in Hs; apply Nat.ltb_ge in Hs; exact Hs).
    unfold u16_at in *. rewrite !at_app_within by lia. rewrite need_app by exact Hs. congruence.
  - apply need_inv in E as [Hs Hn].
    assert (H3 : (3 <= length e)%nat) by (unfold shorter in Hs; apply Nat.ltb_ge in Hs; exact Hs).
    rewrite at_app_within by lia. rewrite need_app by exact Hs. congruence.
Qed.

Lemma local_open_optparam : local open_optparam.
Proof.
  intros e rest (C & E & B). unfold at_elem, open_optparam in *. cbn [cond consume last] in *.
  destruct (shorter e 2) eqn:S2; [discriminate|].
  assert (H2 : (2 <= length e)%nat) by (unfold shorter in S2; apply Nat.ltb_ge in S2; exact S2).
  split; [apply nonempty_app; exact C|]. split; [|reflexivity].
  rewrite shorter_app by exact S2. rewrite !at_app_within by lia. exact E.
Qed.

Lemma cond_nil_nonempty (s : shape) : cond s = nonempty -> cond s [] = false.
Proof. intros ->. reflexivity. Qed.

(** the concatenation law for the TLV walkers, any element decoder *)
Theorem tlv_concat h off w (X : Type) (elt : bytes -> option (list X)) a b :
  (1 <= h)%nat -> (off + w <= h)%nat -> seq_of (elem (tlv h off w)) a ->
  gdec (tlv h off w) elt (a ++ b) = opt_app (gdec (tlv h off w) elt a) (gdec (tlv h off w) elt b).
Proof.
  intros Hh Hw Ha. apply gdec_app; auto.
  - apply good_tlv; exact Hh.
  - apply local_tlv; exact Hw.
Qed.

Theorem tlv_unknown_transparent h off w (X : Type) (elt : bytes -> option (list X)) a u b xu :
  (1 <= h)%nat -> (off + w <= h)%nat -> seq_of (elem (tlv h off w)) a -> elem (tlv h off w) u -> elt u = Some xu ->
  gdec (tlv h off w) elt (a ++ u ++ b) = opt_app (gdec (tlv h off w) elt a) (opt_app (Some xu) (gdec (tlv h off w) elt b)) /\
  gdec (tlv h off w) elt (a ++ b) = opt_app (gdec (tlv h off w) elt a) (gdec (tlv h off w) elt b).
Proof.
  intros Hh Hw Ha Hu Hx. apply gdec_insert; auto.
  - apply good_tlv; exact Hh.
  - apply local_tlv; exact Hw.
Qed.

(** what [elem (tlv h off w)] says, in plain terms *)
Lemma elem_tlv_iff h off w e : (1 <= h)%nat ->
  elem (tlv h off w) e <-> ((h <= length e)%nat /\ length e = (h + N.to_nat (unbe (slice off (off + w) e)))%nat).
Proof.
  intros Hh. unfold elem, at_elem, tlv, tlv_len, need, shorter. cbn [cond consume last]. split.
  - intros (C & E & _). destruct (Nat.ltb_spec (length e) h); [discriminate|]. inversion E. split; lia.
  - intros (H1 & H2). split; [destruct e; [cbn in H1; lia | reflexivity]|]. split; [|reflexivity].
    destruct (Nat.ltb_spec (length e) h); [lia|]. rewrite <- H2. reflexivity.
Qed.

(** the other element-slicing loops, same law *)
Theorem shape_concat (s : shape) (X : Type) (elt : bytes -> option (list X)) a b :
  good s -> local s -> cond s [] = false -> seq_of (elem s) a ->
  gdec s elt (a ++ b) = opt_app (gdec s elt a) (gdec s elt b).
Proof. intros. apply gdec_app; auto. Qed.

Definition sliced_shapes : list shape :=
  [tlv 4 2 2; tlv 3 1 2; tlv 2 1 1; fixed_strict 2; fixed_strict 3; fixed_strict 4; fixed_strict 6; fixed_strict 8;
   extcomm; aspath 2; aspath 4; attributes; open_optparam].

Lemma sliced_shapes_ok : Forall (fun s => good s /\ local s /\ cond s [] = false) sliced_shapes.
Proof.
  unfold sliced_shapes.
  repeat (apply Forall_cons; [split; [|split; [|reflexivity]]|]); try apply Forall_nil;
    first [ apply good_tlv; lia | apply local_tlv; lia | apply good_fixed_strict; lia | apply local_fixed
          | apply good_extcomm | apply local_extcomm | apply good_aspath | apply local_aspath
          | apply good_attributes | apply local_attributes | apply good_open_optparam | apply local_open_optparam ].
Qed.

(** the flow-specification NLRI list loop of MpReachNLRI / MpUnReachNLRI is NOT local: the two-octet
    length form is read WITHOUT masking the 0xf nibble, so a rule of 240 octets or more claims
    everything that follows it *)
Definition w_fs_long_rule : bytes := [240; 240] ++ repeat 0 240.     (* f0 f0 + 240 octets: a whole rule *)
Lemma flowspec_list_not_local :
  let d := w_fs_long_rule ++ [3; 1; 129; 6] in
  consume flowspec_list d = Some (N.to_nat (u16_at 0 d) + 2)%nat /\ len w_fs_long_rule < u16_at 0 d.
Proof.
  intros d. split.
  - unfold flowspec_list. cbn [consume].
    assert (E : (at_ 0 d / 16 =? 15) && Nat.ltb 2 (length d) = true) by (vm_compute; reflexivity).
    rewrite E. reflexivity.
  - vm_compute. reflexivity.
Qed.
