(** C05: each session's OPEN and its acceptance policy depend only on configuration. *)
From YV Require Import lib.Base model.YWorld model.YProto gen.Consts gen.FsmGen model.YFraming
  model.YSession proof.SessionPres proof.SessionInv proof.SessionSym proof.SessionFraming proof.SessionC03.
From Coq Require Import Arith PeanoNat.

(* keep cancel_timer folded during symbolic execution here: no statement below depends on
   which timers were running, and unfolding it doubles the number of paths per cancel *)
#[local] Arguments cancel_timer : simpl never.

(** ---- the local capability dictionary only ever shrinks ---- *)
Definition PC (l0 : list cap) (w : world) : Prop := incl (w_capl w) l0 /\ w_cfg w = w_cfg w.
Definition PCf (cf : cfg) (l0 : list cap) (w : world) : Prop := incl (w_capl w) l0 /\ w_cfg w = cf.

Lemma PCf_frame cf l0 w w' : w_capl w' = w_capl w -> w_cfg w' = w_cfg w -> PCf cf l0 w -> PCf cf l0 w'.
Proof. unfold PCf. intros -> ->. auto. Qed.
Lemma PCf_with_proto cf l0 f w :
  (forall c w, PCf cf l0 w -> PCf cf l0 (f c w)) -> PCf cf l0 w -> PCf cf l0 (with_proto f w).
Proof. intros Hf H. unfold with_proto. destruct (w_proto w); auto. Qed.
Lemma PCf_conn_write cf l0 c m w : PCf cf l0 w -> PCf cf l0 (conn_write c m w).
Proof. intros H. unfold conn_write. destruct (conn_connected c w); auto. Qed.

Lemma PCf_prims cf l0 : prims_ok (PCf cf l0).
Proof.
  constructor.
  - intros s w H. unfold set_state. destruct (bst_eqb s (w_state w)); auto.
    destruct s; eapply PCf_frame; try exact H; reflexivity.
  - intros t d w _ H. unfold tm_reset. eapply PCf_frame; try exact H; destruct t; reflexivity.
  - intros t w H. unfold tm_cancel. eapply PCf_frame; try exact H; destruct t; reflexivity.
  - intros t w H. unfold tm_active. cbn [snd]. eapply PCf_frame; try exact H; destruct t; reflexivity.
  - intros x w H; eapply PCf_frame; try exact H; reflexivity.
  - intros x w H; eapply PCf_frame; try exact H; reflexivity.
  - intros x w H; eapply PCf_frame; try exact H; reflexivity.
  - intros x w H; eapply PCf_frame; try exact H; reflexivity.
  - intros w H. apply PCf_with_proto; auto. intros c w' H'. unfold conn_send_open. cbv beta zeta.
    eapply PCf_frame; [reflexivity|reflexivity|]. eapply PCf_frame; [reflexivity|reflexivity|].
    apply PCf_conn_write. unfold capability_negotiate. destruct (w_capr w'); auto.
    destruct H' as [Hi Hc]. split; [|exact Hc]. cbn [w_capl set_w_capl].
    intros x Hx. apply filter_In in Hx. apply Hi, Hx.
  - intros w H. apply PCf_with_proto; auto. intros c w' H'. unfold conn_send_keepalive.
    apply PCf_conn_write. eapply PCf_frame; try exact H'; reflexivity.
  - intros code s d w H. apply PCf_with_proto; auto. intros c w' H'. unfold conn_send_notification.
    apply PCf_conn_write. eapply PCf_frame; try exact H'; reflexivity.
  - intros w H. apply PCf_with_proto; auto. intros c w' H'. unfold conn_close.
    destruct (conn_connected c w'); auto.
    destruct (c_closing (get_conn c w')); auto.
  - intros w H. unfold peering_connect. destruct (st_is w StEstablished); auto.
Qed.
Lemma PCf_glue cf l0 : glue_ok (PCf cf l0).
Proof.
  constructor; intros; match goal with H : PCf _ _ _ |- _ => eapply PCf_frame; try exact H; reflexivity end.
Qed.

Section Caps.
Variable D : decoders.

Lemma PCf_frame_loop cf l0 c : forall fuel buf w, PCf cf l0 w ->
  PCf cf l0 (fst (fst (frame_loop world (dispatch D c) (fun sub d w => F_header_error sub d w)
                  (conn_closed_by_us c) fuel buf w))).
Proof.
  pose proof (PCf_prims cf l0) as OK. pose proof (PCf_glue cf l0) as GK.
  induction fuel as [|fuel IH]; intros buf w H; cbn [frame_loop fst]; auto.
  unfold parse1. cbv zeta.
  repeat match goal with
         | |- context [if ?b then _ else _] =>
             lazymatch b with
             | fst _ => fail
             | conn_closed_by_us _ _ => fail
             | _ => destruct b
             end
         end; cbn [fst]; auto; try (apply pres_header_error; auto).
  assert (Hd : PCf cf l0 (snd (dispatch D c (nth 18 buf 0)
              (slice 19 (N.to_nat (unbe (slice 16 18 buf))) buf) w))) by (apply pres_dispatch; auto).
  destruct (fst (dispatch D c _ _ w)); cbn [fst]; auto.
  destruct (conn_closed_by_us c _); cbn [fst]; auto.
Qed.

Lemma PCf_event cf l0 e w : PCf cf l0 w -> PCf cf l0 (do_event D e w).
Proof.
  intros H. pose proof (PCf_prims cf l0) as OK. pose proof (PCf_glue cf l0) as GK.
  destruct e; cbn [do_event].
  - apply pres_peering_automatic_start; auto.
  - unfold conn_made. cbv zeta. apply pres_connection_made; auto.
    assert (H1 : PCf cf l0 (set_state StConnect (set_w_proto (Some c) w))) by (apply (ok_set_state _ OK); exact H).
    exact H1.
  - unfold conn_failed. cbv zeta. apply pres_connection_failed; auto.
  - unfold conn_lost. cbv zeta.
    assert (H1 : PCf cf l0 (emit (OHandler HConnLost) (upd_conn c (set_c_st CClosed) w))) by exact H.
    destruct (c_disc _).
    + apply pres_peering_connection_closed; auto.
    + apply pres_connection_failed; auto.
  - unfold data_received. cbv zeta.
    set (r := frame_loop _ _ _ _ _ _ _).
    assert (Hr : PCf cf l0 (fst (fst r))) by (apply PCf_frame_loop; exact H).
    destruct (snd r); exact Hr.
  - unfold fire_timer. destruct (t_dl (get_tm t w)) as [d|] eqn:E; auto. cbv zeta.
    assert (H1 : PCf cf l0 (set_tm t (mkTimer None (t_status (get_tm t (set_w_now d w)))) (set_w_now d w)))
      by (destruct t; exact H).
    destruct t.
    + apply pres_connect_retry_time_event; auto.
    + apply pres_hold_time_event; auto.
    + apply pres_keep_alive_time_event; auto.
    + apply pres_delay_open_time_event; auto.
    + apply pres_idle_hold_time_event; auto.
  - exact H.
  - unfold peering_manual_stop. apply pres_manual_stop; auto.
  - apply pres_peering_manual_start; auto.
  - unfold api_send_update. destruct ok; auto. apply PCf_with_proto; auto. intros c' w' H'.
    apply (PCf_conn_write cf l0 c' (WRaw b) w' H').
  - unfold api_send_bin. apply PCf_with_proto; auto. intros c' w' H'.
    apply (PCf_conn_write cf l0 c' (WRaw b) w' H').
Qed.

(** whatever happened before (any sessions, any peer OPENs, any errors): the configuration record
    is untouched and the capability dictionary is a sub-list of the configured one *)
Theorem caps_subset_config : forall cf capl es,
  let w := run D (world0 cf capl) es in incl (w_capl w) capl /\ w_cfg w = cf.
Proof.
  intros cf capl es.
  assert (G : forall w, PCf cf capl w -> PCf cf capl (run D w es)).
  { induction es as [|e es IH]; intros w H; cbn [run fold_left]; auto.
    apply IH. unfold step. assert (H0 : PCf cf capl (set_w_out [] w)) by exact H.
    destruct (enabled w e); auto. apply PCf_event; auto. }
  apply G. split; [apply incl_refl|reflexivity].
Qed.
End Caps.

(** the OPEN written when a connection succeeds, in any world *)
Lemma conn_made_open c w : conn_st_is c CConnecting w = true -> w_out w = [] ->
  let las := cf_local_as (w_cfg w) in
  exists rest,
  w_out (conn_made c w) =
    OHandler HSendOpen ::
    OWrite c (WOpen (open_asn_field las) (cf_hold (w_cfg w)) (cf_bgp_id (w_cfg w))
                    (open_caps las (w_capl (capability_negotiate w)))) :: rest /\
  Forall (fun o => forall c' m, o <> OWrite c' m) rest.
Proof.
  intros Hc Ho. destr_world w. unfold conn_st_is in Hc. cbn in Hc, Ho. subst.
  destruct (nth_error conns c) as [k|] eqn:E; [|discriminate].
  destruct st; destruct capr; sym_c; eexists; (split; [reflexivity|constructor]).
Qed.

(** version: OPEN carries the AS or AS_TRANS *)
Lemma asn_field_rule asn : open_asn_field asn = (if 65535 <? asn then 23456 else asn).
Proof. reflexivity. Qed.
Lemma as4_cap_when_large asn d : 65535 < asn -> In (CiAs4 asn) (open_caps asn d).
Proof.
  intros H. unfold open_caps. apply N.ltb_lt in H. rewrite H.
  repeat (apply in_or_app; first [left; solve [repeat (apply in_or_app; left); left; reflexivity] | right]).
Qed.

(** ---- acceptance policy: the peer's OPEN arriving in OpenSent on the tracked connection ---- *)
Section Accept.
Variable D : decoders.

Definition notif_of (l : list out) : list (N * N) :=
  flat_map (fun o => match o with OWrite _ (WNotif c s _) => [(c, s)] | _ => [] end) l.
Definition kinds_of (l : list out) : list N :=
  flat_map (fun o => match o with
                     | OWrite _ WKeepalive => [4] | OWrite _ (WNotif _ _ _) => [3]
                     | OWrite _ (WOpen _ _ _ _) => [1] | OWrite _ _ => [2]
                     | OLose _ => [0] | _ => [] end) l.

Lemma open_rejected_version c msg sub w : Good c w -> w_state w = StOpenSent ->
  c_closing (get_conn c w) = false -> w_out w = [] ->
  d_open D msg = OpOpenErr sub ->
  let w' := snd (open_received D c msg w) in
  w_state w' = StIdle /\ notif_of (rev (w_out w')) = [(c_ERR_MSG_OPEN, sub)] /\ kinds_of (rev (w_out w')) = [3; 0].
Proof.
  intros Hg Hs Hcl Ho Hd. unfold open_received. cbv zeta. rewrite Hd. cbn [snd].
  destr_world w. unfold get_conn in Hcl. cbn in Hs, Hcl, Ho. subst.
  conn_facts Hg c conns. subst proto. rewrite En in Hcl.
  sym_c; rewrite ?Hcl in *; cbn in *; try discriminate; repeat split; reflexivity.
Qed.

Lemma open_rejected_peer_as c msg asn phold caps w : Good c w -> w_state w = StOpenSent ->
  c_closing (get_conn c w) = false -> w_out w = [] ->
  d_open D msg = OpOk asn phold caps -> asn <> cf_remote_as (w_cfg w) ->
  let w' := snd (open_received D c msg w) in
  w_state w' = StIdle /\ notif_of (rev (w_out w')) = [(c_ERR_MSG_OPEN, c_ERR_MSG_OPEN_BAD_PEER_AS)] /\
  kinds_of (rev (w_out w')) = [3; 0].
Proof.
  intros Hg Hs Hcl Ho Hd Hne. unfold open_received. cbv zeta. rewrite Hd.
  destr_world w. unfold get_conn in Hcl. cbn in Hs, Hcl, Ho, Hne. subst.
  conn_facts Hg c conns. subst proto. rewrite En in Hcl.
  assert (Hq : (asn =? cf_remote_as cfg) = false) by (apply N.eqb_neq; exact Hne).
  cbn [w_cfg upd_conn set_w_conns]. rewrite Hq. cbn [negb snd].
  sym_c; rewrite ?Hcl in *; cbn in *; try discriminate; repeat split; reflexivity.
Qed.

(** effects of an OPEN-message error on the tracked connection (any sub-code) *)
Lemma ome_effects c sub d w : Good c w -> c_closing (get_conn c w) = false ->
  let w' := F_open_message_error sub d w in
  w_state w' = StIdle /\ w_out w' = OLose c :: OWrite c (WNotif c_ERR_MSG_OPEN sub d) :: w_out w.
Proof.
  intros Hg Hcl. destr_world w. unfold get_conn in Hcl. cbn in Hcl.
  conn_facts Hg c conns. subst proto. rewrite En in Hcl.
  destruct st; sym_c; rewrite ?Hcl in *; cbn in *; try discriminate; repeat split; reflexivity.
Qed.
Lemma open_received_idle w : w_state w = StIdle -> F_open_received w = w.
Proof. intros Hs. destr_world w. cbn in Hs. subst. reflexivity. Qed.

Lemma open_rejected_hold c msg asn phold caps w : Good c w -> w_state w = StOpenSent ->
  c_closing (get_conn c w) = false -> w_out w = [] ->
  d_open D msg = OpOk asn phold caps -> asn = cf_remote_as (w_cfg w) ->
  hold_refused phold (N.min (w_hold w) phold) = true ->
  let w' := snd (open_received D c msg w) in
  w_state w' = StIdle /\
  notif_of (rev (w_out w')) = [(c_ERR_MSG_OPEN, c_ERR_MSG_OPEN_UNACCPT_HOLD_TIME)] /\
  kinds_of (rev (w_out w')) = [3; 0].
Proof.
  intros Hg Hs Hcl Ho Hd Heq Hr. unfold open_received. cbv zeta. rewrite Hd.
  assert (Hq : (asn =? cf_remote_as (w_cfg (upd_conn c (on_recv bump_open) w))) = true)
    by (apply N.eqb_eq; exact Heq).
  rewrite Hq. cbn [negb snd].
  set (w1 := if cap_has KFourBytesAs caps
             then upd_conn c (set_c_asn4 true) (set_w_capr caps (upd_conn c (on_recv bump_open) w))
             else set_w_capr caps (upd_conn c (on_recv bump_open) w)).
  assert (G1 : Good c w1).
  { unfold w1. pose proof keeps_on_recv as K1. pose proof keeps_asn4 as K2.
    destruct (cap_has KFourBytesAs caps).
    - apply Good_upd; [apply K2|]. apply (Good_frame c (upd_conn c (on_recv bump_open) w)); try reflexivity.
      apply Good_upd; [apply K1|exact Hg].
    - apply (Good_frame c (upd_conn c (on_recv bump_open) w)); try reflexivity.
      apply Good_upd; [apply K1|exact Hg]. }
  assert (C1 : c_closing (get_conn c w1) = false).
  { unfold w1, get_conn, upd_conn. destruct (cap_has KFourBytesAs caps); cbn;
      rewrite ?nth_upd_nth; repeat (destruct (_ && _); cbn); exact Hcl. }
  assert (O1 : w_out w1 = []) by (unfold w1; destruct (cap_has KFourBytesAs caps); exact Ho).
  assert (H1 : w_hold w1 = w_hold w) by (unfold w1; destruct (cap_has KFourBytesAs caps); reflexivity).
  clearbody w1.
  unfold negotiate_hold_time. cbv zeta. cbn [w_hold set_w_hold]. rewrite H1.
  rewrite Hr.
  set (w2 := set_w_hold (N.min (w_hold w) phold) w1).
  assert (G2 : Good c w2) by (apply (Good_frame c w1); try reflexivity; exact G1).
  destruct (ome_effects c c_ERR_MSG_OPEN_UNACCPT_HOLD_TIME [] w2 G2 C1) as [E1 E2].
  set (w3 := F_open_message_error c_ERR_MSG_OPEN_UNACCPT_HOLD_TIME [] w2) in *.
  rewrite (open_received_idle (set_w_ka3 (w_hold w3) w3)) by exact E1.
  cbn [w_state emit set_w_out w_out set_w_ka3]. split; [exact E1|].
  change (w_out (set_w_ka3 (w_hold w3) w3)) with (w_out w3). rewrite E2.
  change (w_out w2) with (w_out w1). rewrite O1. split; reflexivity.
Qed.

Lemma open_accepted c msg asn phold caps w : Good c w -> w_state w = StOpenSent ->
  c_closing (get_conn c w) = false -> w_out w = [] ->
  d_open D msg = OpOk asn phold caps -> asn = cf_remote_as (w_cfg w) ->
  hold_refused phold (N.min (w_hold w) phold) = false ->
  let w' := snd (open_received D c msg w) in
  w_state w' = StOpenConfirm /\ kinds_of (rev (w_out w')) = [4] /\
  w_hold w' = N.min (w_hold w) phold /\
  c_asn4 (get_conn c w') = (cap_has KFourBytesAs caps || c_asn4 (get_conn c w)) /\
  w_capr w' = caps.
Proof.
  intros Hg Hs Hcl Ho Hd Heq Hok. unfold open_received. cbv zeta. rewrite Hd.
  destr_world w. unfold get_conn in Hcl |- *. cbn in Hs, Hcl, Ho, Heq, Hok. subst st out.
  conn_facts Hg c conns. subst proto. rewrite En in Hcl.
  assert (Hq : (asn =? cf_remote_as cfg) = true) by (apply N.eqb_eq; exact Heq).
  cbn [w_cfg upd_conn set_w_conns]. rewrite Hq. cbn [negb snd].
  unfold negotiate_hold_time. cbv zeta.
  assert (Hm : hold_refused phold (N.min hold phold) = false) by exact Hok.
  destruct (cap_has KFourBytesAs caps); cbn [w_hold set_w_hold upd_conn set_w_conns set_w_capr];
    rewrite Hm; sym_c; rewrite ?Hcl in *; cbn in *; try discriminate;
    destruct (0 <? N.min hold phold); cbn;
    rewrite ?nth_upd_nth, ?Nat.eqb_refl, ?length_upd_nth, ?Hlt, ?En; cbn; repeat split; auto.
Qed.
End Accept.
