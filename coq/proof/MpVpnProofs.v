(** C07, VPNv4 / VPNv6: round trip for label stacks of depth one (label <> 0), every RD type,
    every prefix length. *)
From YV Require Import lib.Base gen.Consts model.YMp model.YPrefix6 model.YLabel model.YVpn
  proof.MpBytesLemmas proof.MpPrefix6Proofs proof.MpLabelProofs.
From Coq Require Import ZArith ZifyBool ZifyNat ZifyN.
Ltac Zify.zify_post_hook ::= Z.to_euclidean_division_equations.

Definition abytes (v6 : bool) : nat := if v6 then 16%nat else 4%nat.
Definition abits (v6 : bool) : N := if v6 then 128 else 32.

Definition wf_vroute (v6 : bool) (r : vroute) : Prop :=
  v_len r <= abits v6 /\ v_addr r < 2 ^ abits v6 /\ v_addr r mod 2 ^ (abits v6 - v_len r) = 0 /\
  wf_rd (v_rd r).
(** label stack of depth one, label 1 .. 2^20-1 *)
Definition one_label (r : vroute) : Prop := exists l, v_labels r = [l] /\ 0 < l < 2 ^ 20.

Definition vaddr (v6 : bool) (a : N) : addr := if v6 then render a else V4 a.
Definition expect_proute (v6 withdraw : bool) (r : vroute) : proute :=
  (if withdraw then [WITHDRAW_LABEL] else v_labels r, PRd (v_rd r), vaddr v6 (v_addr r), v_len r).

Lemma ceil8_le l : forall n, l <= 8 * n -> ceil8 l <= n.
Proof. intros n H. unfold ceil8. destruct (l mod 8 =? 0) eqn:E; lia. Qed.

Lemma ceil8_plus88 l : ceil8 (l + 88) = 11 + ceil8 l.
Proof. unfold ceil8. destruct (l mod 8 =? 0) eqn:E; destruct ((l + 88) mod 8 =? 0) eqn:E2; lia. Qed.

Lemma prefix4_octets_eq a l : l <= 32 -> prefix4_octets a l = firstn (N.to_nat (ceil8 l)) (be 4 a).
Proof.
  intros H. unfold prefix4_octets, take.
  assert (C : forall n, ceil8 l = n -> firstn (N.to_nat (ceil8 l)) (be 4 a) = firstn (N.to_nat n) (be 4 a))
    by (intros n ->; reflexivity).
  destruct ((16 <? l) && (l <=? 24)) eqn:E1.
  { rewrite (C 3); [reflexivity | unfold ceil8; destruct (l mod 8 =? 0) eqn:E; lia]. }
  destruct ((8 <? l) && (l <=? 16)) eqn:E2.
  { rewrite (C 2); [reflexivity | unfold ceil8; destruct (l mod 8 =? 0) eqn:E; lia]. }
  destruct ((0 <? l) && (l <=? 8)) eqn:E3.
  { rewrite (C 1); [reflexivity | unfold ceil8; destruct (l mod 8 =? 0) eqn:E; lia]. }
  destruct (l =? 0) eqn:E4.
  { rewrite (C 0); [reflexivity | unfold ceil8; destruct (l mod 8 =? 0) eqn:E; lia]. }
  rewrite (C 4); [reflexivity | unfold ceil8; destruct (l mod 8 =? 0) eqn:E; lia].
Qed.

Lemma prefix6_octets_eq a l : prefix6_octets a l = firstn (N.to_nat (ceil8 l)) (be 16 a).
Proof.
  unfold prefix6_octets, take. f_equal. f_equal. unfold ceil8. destruct (l mod 8 =? 0) eqn:E; lia.
Qed.

Definition pfx_octets (v6 : bool) (a l : N) : bytes :=
  if v6 then prefix6_octets a l else prefix4_octets a l.

Lemma pfx_octets_eq v6 a l : l <= abits v6 ->
  pfx_octets v6 a l = firstn (N.to_nat (ceil8 l)) (be (abytes v6) a).
Proof. destruct v6; cbn [pfx_octets abits abytes]; intros; [apply prefix6_octets_eq | apply prefix4_octets_eq; assumption]. Qed.

Lemma ceil8_abytes v6 l : l <= abits v6 -> (N.to_nat (ceil8 l) <= abytes v6)%nat.
Proof. intros H. pose proof (ceil8_le l (N.of_nat (abytes v6))). destruct v6; cbn [abits abytes] in *; lia. Qed.

(** decoding the (padded) prefix octets gives the address back *)
Lemma pfx_decode v6 a l : l <= abits v6 -> a < 2 ^ abits v6 -> a mod 2 ^ (abits v6 - l) = 0 ->
  let p := firstn (N.to_nat (ceil8 l)) (be (abytes v6) a) in
  length p = N.to_nat (ceil8 l) /\ unbe (pad_to (abytes v6) p) = a.
Proof.
  intros Hl Ha Hm p. pose proof (ceil8_abytes v6 l Hl) as Hk.
  assert (Hlen : length p = N.to_nat (ceil8 l)).
  { unfold p. rewrite firstn_length_le; [reflexivity | rewrite length_be; exact Hk]. }
  split; [exact Hlen|]. unfold pad_to. rewrite Hlen. unfold p. apply unbe_take_pad.
  - exact Hk.
  - destruct v6; exact Ha.
  - rewrite pow256_pow2. eapply mod_pow2_le; [|exact Hm].
    unfold ceil8 in *. destruct (l mod 8 =? 0) eqn:E; destruct v6; cbn [abits abytes] in *; lia.
Qed.

(** what construct produces for an in-range route with one non-zero label (or a withdrawal) *)
Lemma construct_vroute_ok v6 withdraw r : wf_vroute v6 r -> (withdraw = false -> one_label r) ->
  exists lab rdb,
    construct_vroute v6 withdraw r =
      Ok ([v_len r + 88] ++ lab ++ rdb ++ firstn (N.to_nat (ceil8 (v_len r))) (be (abytes v6) (v_addr r))) /\
    length lab = 3%nat /\ length rdb = 8%nat /\ parse_rd rdb = Ok (PRd (v_rd r)) /\
    (withdraw = false -> forall rest, parse_labels (lab ++ rest) = v_labels r).
Proof.
  intros (Hl & Ha & Hm & Hrd) Hlab.
  destruct (rd_roundtrip _ Hrd) as (rdb & Hc & Hlen & Hp).
  assert (HL : exists lab, (if withdraw then Ok WITHDRAW_LABEL_HEX else construct_labels (v_labels r)) = Ok lab /\
                           length lab = 3%nat /\
                           (withdraw = false -> forall rest, parse_labels (lab ++ rest) = v_labels r)).
  { destruct withdraw.
    - exists WITHDRAW_LABEL_HEX. repeat split; try reflexivity. discriminate.
    - destruct (Hlab eq_refl) as (l & He & Hr). rewrite He.
      exists (be 3 (l * 16 + 1)). split; [apply construct_labels_single; exact Hr|].
      split; [apply length_be|]. intros _ rest. apply parse_labels_single; exact Hr. }
  destruct HL as (lab & HcL & HlenL & HpL).
  exists lab, rdb. unfold construct_vroute. rewrite HcL, Hc. cbn [bind].
  assert (Hplen : v_len r + len (lab ++ rdb) * 8 = v_len r + 88).
  { unfold len. rewrite app_length, HlenL, Hlen. reflexivity. }
  rewrite Hplen.
  assert (Hok : pfx_len_ok v6 (v_len r) = true) by (unfold pfx_len_ok; destruct v6; cbn [abits] in Hl; lia).
  rewrite Hok. cbn [negb].
  destruct (255 <? v_len r + 88) eqn:E; [apply N.ltb_lt in E; destruct v6; cbn [abits] in Hl; lia|].
  fold (pfx_octets v6 (v_addr r) (v_len r)). rewrite pfx_octets_eq by exact Hl.
  repeat split; assumption.
Qed.

(** one iteration of the decoder on such a route followed by anything *)
Lemma parse_vpn_step v6 withdraw f r lab rdb rest :
  wf_vroute v6 r -> length lab = 3%nat -> length rdb = 8%nat -> parse_rd rdb = Ok (PRd (v_rd r)) ->
  (withdraw = false -> parse_labels (lab ++ rdb ++ firstn (N.to_nat (ceil8 (v_len r))) (be (abytes v6) (v_addr r))) = v_labels r) ->
  parse_vpn v6 withdraw (S f)
    (([v_len r + 88] ++ lab ++ rdb ++ firstn (N.to_nat (ceil8 (v_len r))) (be (abytes v6) (v_addr r))) ++ rest) =
  bind (parse_vpn v6 withdraw f rest) (fun t => Ok (expect_proute v6 withdraw r :: t)).
Proof.
  intros (Hl & Ha & Hm & Hrd) HlenL Hlen Hp HpL.
  destruct (pfx_decode v6 (v_addr r) (v_len r) Hl Ha Hm) as (Hplen & Hdec).
  set (p := firstn (N.to_nat (ceil8 (v_len r))) (be (abytes v6) (v_addr r))) in *.
  set (k := N.to_nat (ceil8 (v_len r))) in *.
  cbn [app]. cbn [parse_vpn].
  rewrite ceil8_plus88. replace (N.to_nat (11 + ceil8 (v_len r))) with (11 + k)%nat by (unfold k; lia).
  set (d := v_len r + 88 :: (lab ++ rdb ++ p) ++ rest).
  assert (Hd1 : d = [v_len r + 88] ++ lab ++ rdb ++ p ++ rest).
  { unfold d. cbn [app]. rewrite <- !app_assoc. reflexivity. }
  assert (Hs1 : slice 4 12 d = rdb).
  { rewrite Hd1. replace ([v_len r + 88] ++ lab ++ rdb ++ p ++ rest) with (([v_len r + 88] ++ lab) ++ rdb ++ p ++ rest)
      by (rewrite <- app_assoc; reflexivity).
    apply slice_app_mid; [rewrite app_length, HlenL; reflexivity | rewrite Hlen; reflexivity]. }
  assert (Hs2 : slice 12 (11 + k + 1) d = p).
  { rewrite Hd1. replace ([v_len r + 88] ++ lab ++ rdb ++ p ++ rest) with (([v_len r + 88] ++ lab ++ rdb) ++ p ++ rest)
      by (rewrite <- !app_assoc; reflexivity).
    apply slice_app_mid; [rewrite !app_length, HlenL, Hlen; reflexivity | rewrite Hplen; lia]. }
  assert (Hs3 : drop (11 + k + 1) d = rest).
  { rewrite Hd1. replace ([v_len r + 88] ++ lab ++ rdb ++ p ++ rest) with (([v_len r + 88] ++ lab ++ rdb ++ p) ++ rest)
      by (rewrite <- !app_assoc; reflexivity).
    apply skipn_app_len. rewrite !app_length, HlenL, Hlen, Hplen. cbn [length]. lia. }
  assert (Hs4 : slice 1 (11 + k + 1) d = lab ++ rdb ++ p).
  { rewrite Hd1. replace ([v_len r + 88] ++ lab ++ rdb ++ p ++ rest) with ([v_len r + 88] ++ (lab ++ rdb ++ p) ++ rest)
      by (rewrite <- !app_assoc; reflexivity).
    apply slice_app_mid; [reflexivity | rewrite !app_length, HlenL, Hlen, Hplen; lia]. }
  rewrite Hs1, Hs2, Hs3, Hs4, Hp. cbn [bind].
  assert (Haddr : (if v6 then of_int (unbe (pad_to 16 p))
                   else if Nat.ltb 4 (length p) then Exc else Ok (V4 (unbe (pad_to 4 p)))) = Ok (vaddr v6 (v_addr r))).
  { pose proof (ceil8_abytes v6 (v_len r) Hl) as Hk. destruct v6; cbn [abytes abits vaddr] in *.
    - rewrite Hdec. apply of_int_render; exact Ha.
    - rewrite Hplen. replace (Nat.ltb 4 k) with false by (symmetry; apply Nat.ltb_ge; exact Hk).
      rewrite Hdec. reflexivity. }
  rewrite Haddr. cbn [bind].
  replace (v_len r + 88 <? 88) with false by (symmetry; apply N.ltb_ge; lia).
  replace (v_len r + 88 - 88) with (v_len r) by lia.
  unfold expect_proute. destruct withdraw.
  - reflexivity.
  - rewrite (HpL eq_refl). reflexivity.
Qed.

Lemma construct_vpn_length_pos v6 w r b : construct_vroute v6 w r = Ok b -> b <> [].
Proof.
  unfold construct_vroute. destruct (if w then _ else _); cbn [bind]; try discriminate.
  destruct (construct_rd (v_rd r)); cbn [bind]; try discriminate.
  destruct (negb _); [discriminate|].
  destruct (255 <? _); [discriminate|]. intros H; injection H as <-. discriminate.
Qed.

Lemma vpn_nlri_roundtrip v6 withdraw rs :
  Forall (wf_vroute v6) rs -> (withdraw = false -> Forall one_label rs) ->
  exists b, construct_vpn v6 withdraw rs = Ok b /\ (rs <> [] -> b <> []) /\
            forall fuel, (length b < fuel)%nat ->
            parse_vpn v6 withdraw fuel b = Ok (map (expect_proute v6 withdraw) rs).
Proof.
  induction rs as [|r rs IH]; intros Hw Hlab.
  - exists []. split; [reflexivity|]. split; [congruence|]. intros [|f] Hf; [cbn in Hf; lia | reflexivity].
  - inversion Hw as [|? ? Hr Hrs]; subst.
    assert (Hlab' : withdraw = false -> one_label r /\ Forall one_label rs).
    { intros E. specialize (Hlab E). inversion Hlab; subst. split; assumption. }
    destruct IH as (bt & Hct & _ & Hpt); [assumption | intros E; apply (Hlab' E) |].
    destruct (construct_vroute_ok v6 withdraw r Hr (fun E => proj1 (Hlab' E)))
      as (lab & rdb & Hc & HlenL & Hlen & Hp & HpL).
    eexists. split; [cbn [construct_vpn]; rewrite Hc, Hct; reflexivity|].
    split; [intros _; cbn [app]; discriminate|].
    intros [|f] Hf; [lia|].
    rewrite parse_vpn_step; try assumption.
    + rewrite Hpt; [reflexivity|]. rewrite app_length in Hf. cbn [app length] in Hf. lia.
    + intros E. rewrite <- (app_nil_r (rdb ++ _)). rewrite <- app_assoc. apply (HpL E).
Qed.

(** ---- MP_REACH_NLRI (1|2, 128) ---- *)
Definition vpn_nh (nh6 : bool) (asn an ip : N) : bytes :=
  [0; 0] ++ be 2 asn ++ be 4 an ++ be (abytes nh6) ip.

(** routes of family [v6] with a next hop of version [nh6] (both combinations of each) *)
Theorem reachvpn_behaviour_x v6 nh6 asn an ip rs :
  asn <= 65535 -> an < 2 ^ 32 -> ip < 2 ^ abits nh6 ->
  Forall (wf_vroute v6) rs -> Forall one_label rs ->
  forall nlri, construct_vpn v6 false rs = Ok nlri -> len nlri <= 65000 ->
  exists v, reachvpn_construct_x v6 nh6 asn an ip rs =
              Ok ([c_ATTR_MpReachNLRI_FLAG; c_ATTR_MpReachNLRI_ID] ++ be 2 (len v) ++ v) /\
            reachvpn_parse v6 v =
              Ok (PRd (RdAs asn an), vaddr nh6 ip, map (expect_proute v6 false) rs).
Proof.
  intros Hasn Han Hip Hw Hlab nlri Hc Hlen.
  destruct (vpn_nlri_roundtrip v6 false rs Hw (fun _ => Hlab)) as (b & Hc' & _ & Hp).
  rewrite Hc in Hc'. injection Hc' as <-.
  set (nh := vpn_nh nh6 asn an ip).
  assert (Hnhl : length nh = (8 + abytes nh6)%nat).
  { unfold nh, vpn_nh. rewrite !app_length, !length_be. reflexivity. }
  set (v := be 2 (vpn_afi v6) ++ [SAFI_LAB_VPNUNICAST] ++ [len nh] ++ nh ++ [0] ++ nlri).
  exists v. split.
  - unfold reachvpn_construct_x, construct_vpn_nexthop_x.
    destruct ((65535 <? asn) || (2 ^ 32 <=? an)) eqn:E; [exfalso; lia|].
    cbn [bind]. rewrite Hc. cbn [bind].
    unfold reach_attr, reach_value.
    assert (G : forall x, x = nh ->
      bind (if 255 <? len x then Exc
            else Ok (be 2 (vpn_afi v6) ++ [SAFI_LAB_VPNUNICAST] ++ [len x] ++ x ++ [0] ++ nlri))
           (attr c_ATTR_MpReachNLRI_FLAG c_ATTR_MpReachNLRI_ID) =
      Ok ([c_ATTR_MpReachNLRI_FLAG; c_ATTR_MpReachNLRI_ID] ++ be 2 (len v) ++ v));
    [|apply G; unfold nh, vpn_nh; destruct nh6; reflexivity].
    intros x ->.
    destruct (255 <? len nh) eqn:E2; [unfold len in E2; rewrite Hnhl in E2; destruct nh6; discriminate|].
    cbn [bind]. fold v. unfold attr.
    destruct (65535 <? len v) eqn:E3; [|reflexivity].
    exfalso. apply N.ltb_lt in E3. unfold v in E3. rewrite !len_app, len_be in E3.
    unfold len in *. rewrite Hnhl in E3. cbn [length] in E3. destruct nh6; cbn [abytes] in E3; lia.
  - unfold reachvpn_parse, v.
    assert (Hbe : be 2 (vpn_afi v6) = [0; vpn_afi v6]) by (destruct v6; reflexivity).
    rewrite Hbe. cbn [app reach_split bind].
    replace (0 * 256 + vpn_afi v6 =? vpn_afi v6) with true by (destruct v6; reflexivity).
    change (SAFI_LAB_VPNUNICAST =? SAFI_LAB_VPNUNICAST) with true. cbn [andb].
    assert (Ht : take (N.to_nat (len nh)) (nh ++ 0 :: nlri) = nh)
      by (unfold take; apply firstn_app_len; unfold len; lia).
    assert (Hd : drop (1 + N.to_nat (len nh)) (nh ++ 0 :: nlri) = nlri).
    { replace (nh ++ 0 :: nlri) with ((nh ++ [0]) ++ nlri) by (rewrite <- app_assoc; reflexivity).
      unfold drop. apply skipn_app_len. rewrite app_length. unfold len. cbn [length]. lia. }
    rewrite Ht, Hd.
    unfold nh, vpn_nh.
    replace ([0; 0] ++ be 2 asn ++ be 4 an ++ be (abytes nh6) ip)
      with (([0; 0] ++ be 2 asn ++ be 4 an) ++ be (abytes nh6) ip) by (rewrite <- !app_assoc; reflexivity).
    unfold take, drop.
    rewrite firstn_app_len, skipn_app_len by (rewrite !app_length, !length_be; reflexivity).
    change [0; 0] with (be 2 c_BGP_ROUTE_DISTINGUISHER_TYPE_0).
    rewrite parse_rd_fields by (try reflexivity; vm_compute; reflexivity).
    change (c_BGP_ROUTE_DISTINGUISHER_TYPE_0 =? c_BGP_ROUTE_DISTINGUISHER_TYPE_0) with true. cbv iota.
    unfold take, drop. rewrite firstn_app_len, skipn_app_len by apply length_be.
    rewrite !unbe_be by (try exact Han; change (256 ^ N.of_nat 2) with 65536; lia).
    cbn [bind].
    assert (HA : addr_of_bytes (be (abytes nh6) ip) = Ok (vaddr nh6 ip)).
    { unfold addr_of_bytes. rewrite int_of_hex_nonempty by (rewrite length_be; destruct nh6; cbn; lia).
      cbn [bind]. rewrite unbe_be by (destruct nh6; exact Hip).
      destruct nh6; cbn [vaddr abits] in *.
      - apply of_int_render; exact Hip.
      - unfold of_int. destruct (ip <? 2 ^ 32) eqn:E; [reflexivity | apply N.ltb_ge in E; lia]. }
    rewrite HA. cbn [bind]. unfold parse_vpn_all. rewrite Hp by lia. reflexivity.
Qed.

(** the next hop of the routes' own family *)
Theorem reachvpn_behaviour v6 asn an ip rs :
  asn <= 65535 -> an < 2 ^ 32 -> ip < 2 ^ abits v6 ->
  Forall (wf_vroute v6) rs -> Forall one_label rs ->
  forall nlri, construct_vpn v6 false rs = Ok nlri -> len nlri <= 65000 ->
  exists v, reachvpn_construct v6 asn an ip rs =
              Ok ([c_ATTR_MpReachNLRI_FLAG; c_ATTR_MpReachNLRI_ID] ++ be 2 (len v) ++ v) /\
            reachvpn_parse v6 v =
              Ok (PRd (RdAs asn an), vaddr v6 ip, map (expect_proute v6 false) rs).
Proof. exact (reachvpn_behaviour_x v6 v6 asn an ip rs). Qed.

(** ---- MP_UNREACH_NLRI (1|2, 128): the labels of the input are ignored, the decoder reports the
    withdraw label ---- *)
Theorem unreachvpn_behaviour v6 rs :
  rs <> [] -> Forall (wf_vroute v6) rs ->
  forall nlri, construct_vpn v6 true rs = Ok nlri -> len nlri <= 65000 ->
  exists v, unreachvpn_construct v6 rs =
              Ok (Some ([c_ATTR_MpUnReachNLRI_FLAG; c_ATTR_MpUnReachNLRI_ID] ++ be 2 (len v) ++ v)) /\
            unreachvpn_parse v6 v = Ok (map (expect_proute v6 true) rs).
Proof.
  intros Hne Hw nlri Hc Hlen.
  destruct (vpn_nlri_roundtrip v6 true rs Hw (fun E => ltac:(discriminate))) as (b & Hc' & Hnn & Hp).
  rewrite Hc in Hc'. injection Hc' as <-.
  set (v := be 2 (vpn_afi v6) ++ [SAFI_LAB_VPNUNICAST] ++ nlri).
  exists v. split.
  - unfold unreachvpn_construct. rewrite Hc. cbn [bind].
    assert (Hnz : nlri <> []) by (apply Hnn, Hne).
    assert (G : forall A (f g : A) , match nlri with [] => f | _ :: _ => g end = g)
      by (intros; destruct nlri; [congruence | reflexivity]).
    rewrite G.
    unfold unreach_attr, attr. fold v.
    destruct (65535 <? len v) eqn:E3; [|reflexivity].
    exfalso. apply N.ltb_lt in E3. unfold v in E3. rewrite !len_app, len_be in E3. unfold len in *. cbn [length] in E3. lia.
  - unfold unreachvpn_parse, v.
    assert (Hbe : be 2 (vpn_afi v6) = [0; vpn_afi v6]) by (destruct v6; reflexivity).
    rewrite Hbe. cbn [app unreach_split bind].
    replace (0 * 256 + vpn_afi v6 =? vpn_afi v6) with true by (destruct v6; reflexivity).
    change (SAFI_LAB_VPNUNICAST =? SAFI_LAB_VPNUNICAST) with true. cbn [andb].
    unfold parse_vpn_all. apply Hp. lia.
Qed.

(** the construct side always succeeds on in-range input (so the hypothesis above is satisfiable) *)
Lemma construct_vpn_total v6 withdraw rs :
  Forall (wf_vroute v6) rs -> (withdraw = false -> Forall one_label rs) ->
  exists nlri, construct_vpn v6 withdraw rs = Ok nlri.
Proof. intros Hw Hl. destruct (vpn_nlri_roundtrip v6 withdraw rs Hw Hl) as (b & Hc & _). eauto. Qed.

Lemma vaddr_high v6 a : (v6 = true -> 2 ^ 32 <= a) -> vaddr v6 a = if v6 then V6 a else V4 a.
Proof. destruct v6; cbn [vaddr]; intros H; [apply render_high; auto | reflexivity]. Qed.

Theorem reachvpn_roundtrip_x : forall v6 nh6 asn an ip rs,
  asn <= 65535 -> an < 2 ^ 32 -> ip < 2 ^ abits nh6 -> (nh6 = true -> 2 ^ 32 <= ip) ->
  Forall (wf_vroute v6) rs -> Forall one_label rs ->
  Forall (fun r => v6 = true -> 2 ^ 32 <= v_addr r) rs ->
  forall nlri, construct_vpn v6 false rs = Ok nlri -> len nlri <= 65000 ->
  exists v, reachvpn_construct_x v6 nh6 asn an ip rs =
              Ok ([c_ATTR_MpReachNLRI_FLAG; c_ATTR_MpReachNLRI_ID] ++ be 2 (len v) ++ v) /\
            reachvpn_parse v6 v =
              Ok (PRd (RdAs asn an), (if nh6 then V6 ip else V4 ip),
                  map (fun r => (v_labels r, PRd (v_rd r), (if v6 then V6 (v_addr r) else V4 (v_addr r)), v_len r)) rs).
Proof.
  intros v6 nh6 asn an ip rs Ha Hn Hip Hhi Hw Hl Hh nlri Hc Hlen.
  destruct (reachvpn_behaviour_x v6 nh6 asn an ip rs Ha Hn Hip Hw Hl nlri Hc Hlen) as (v & H1 & H2).
  exists v. split; [exact H1|]. rewrite H2. rewrite vaddr_high by exact Hhi.
  do 2 f_equal. apply map_ext_in. intros r Hr. unfold expect_proute.
  rewrite vaddr_high; [reflexivity|]. rewrite Forall_forall in Hh. exact (Hh r Hr).
Qed.

Theorem reachvpn_roundtrip : forall v6 asn an ip rs,
  asn <= 65535 -> an < 2 ^ 32 -> ip < 2 ^ abits v6 -> (v6 = true -> 2 ^ 32 <= ip) ->
  Forall (wf_vroute v6) rs -> Forall one_label rs ->
  Forall (fun r => v6 = true -> 2 ^ 32 <= v_addr r) rs ->
  forall nlri, construct_vpn v6 false rs = Ok nlri -> len nlri <= 65000 ->
  exists v, reachvpn_construct v6 asn an ip rs =
              Ok ([c_ATTR_MpReachNLRI_FLAG; c_ATTR_MpReachNLRI_ID] ++ be 2 (len v) ++ v) /\
            reachvpn_parse v6 v =
              Ok (PRd (RdAs asn an), (if v6 then V6 ip else V4 ip),
                  map (fun r => (v_labels r, PRd (v_rd r), (if v6 then V6 (v_addr r) else V4 (v_addr r)), v_len r)) rs).
Proof. intros v6. exact (reachvpn_roundtrip_x v6 v6). Qed.


(** defects, on concrete inputs *)
Definition r_label0 : vroute := mk_vroute [0] (RdAs 100 1) 167772160 8.
Lemma refuted_vpnv4_label_zero :
  construct_vpn false false [r_label0] = Ok [96; 0; 0; 0; 0; 0; 0; 100; 0; 0; 0; 1; 10] /\
  parse_vpn_all false false [96; 0; 0; 0; 0; 0; 0; 100; 0; 0; 0; 1; 10] =
    Ok [([0; 0; 409600; 16], PRd (RdAs 100 1), V4 167772160, 8)].
Proof. split; vm_compute; reflexivity. Qed.

Definition r_two_labels : vroute := mk_vroute [16; 17] (RdAs 100 1) 167772160 8.
Lemma refuted_vpnv4_two_labels :
  exists b, construct_vpn false false [r_two_labels] = Ok b /\
            parse_vpn_all false false b = Ok [([16; 17], PRd (RdIp 285212672 25600), V4 266, 32)].
Proof. eexists. split; [vm_compute; reflexivity | vm_compute; reflexivity]. Qed.

Definition r_low6 : vroute := mk_vroute [16] (RdAs 100 1) 0 0.
Lemma refuted_vpnv6_default_route :
  construct_vpn true false [r_low6] = Ok [88; 0; 1; 1; 0; 0; 0; 100; 0; 0; 0; 1] /\
  parse_vpn_all true false [88; 0; 1; 1; 0; 0; 0; 100; 0; 0; 0; 1] = Ok [([16], PRd (RdAs 100 1), V4 0, 0)].
Proof. split; vm_compute; reflexivity. Qed.
